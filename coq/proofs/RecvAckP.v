(* Proofs about model/RecvAck.v (C12): the receive path composed with the acknowledgement bookkeeping.
   1. the order of the model is the order of the source (generated fragment gen/C12RecvOrder.v);
   2. closed forms of one packet in the order of the code and in the variant "record first";
   3. the invariant of AckQueueP (Inv = soundness + "an armed ACK timer has something to report") for all three spaces
      of a connection, over ALL sequences of packets (any decryption verdict, any packet number in [0, 2^62), any payload
      effects incl. acknowledgements of our ACK frames, errors, discards in the middle of a payload) and sends;
   4. consequences: ack_at_implies_queue_nonempty, ack_writer_never_raises_composed, recorded_only_after_processing;
   5. the variant: record_before_payload_refuted. *)
From Coq Require Import ZArith List Bool Lia ZifyBool.
From AQ Require Import lib.Base lib.Tok model.Codec model.Varint model.RangeSet model.AckFrame gen.C12Consts gen.C12RecvOrder
  model.AckQueue model.RecvAck proofs.RangeSetP proofs.AckQueueP.

(* ---- 1. the source has the order the model has ------------------------------------------------------------------------ *)
Lemma recv_order_as_modelled_l : RECV_ORDER = source_order code_order.
Proof. vm_compute. reflexivity. Qed.

Lemma ack_handler_as_modelled_l : HANDLER_PRUNE_OK = true /\ HANDLER_ARGS_OK = true /\ WRITER_ORDER = [1; 2; 3; 4].
Proof. repeat split; vm_compute; reflexivity. Qed.

(* ---- spaces of a connection ------------------------------------------------------------------------------------------- *)
Lemma sid_eqb_eq a b : sid_eqb a b = true <-> a = b.
Proof. destruct a, b; cbn; split; congruence. Qed.

Lemma rget_rupd c i f j : rget (rupd c i f) j = if sid_eqb i j then f (rget c i) else rget c j.
Proof. destruct c as [[a b] d]. destruct i, j; reflexivity. Qed.
Lemma rget_rall c f j : rget (rall c f) j = f (rget c j).
Proof. destruct c as [[a b] d]. destruct j; reflexivity. Qed.
Lemma rupd_rupd c i f g : rupd (rupd c i f) i g = rupd c i (fun r => g (f r)).
Proof. destruct c as [[a b] d]. destruct i; reflexivity. Qed.

Lemma spc_rupd c i f j : spc (rupd c i (on_sp f)) j = if sid_eqb i j then f (spc c i) else spc c j.
Proof. unfold spc. rewrite rget_rupd. destruct (sid_eqb i j); reflexivity. Qed.
Lemma spc_rall c f j : spc (rall c (on_sp f)) j = f (spc c j).
Proof. unfold spc. rewrite rget_rall. reflexivity. Qed.
Lemma sid_eqb_refl i : sid_eqb i i = true.
Proof. destruct i; reflexivity. Qed.

(* ---- 2. closed forms ------------------------------------------------------------------------------------------------------ *)
Lemma guarded_live f s : disc s = false -> guarded f s = f s.
Proof. unfold guarded. intros ->. reflexivity. Qed.
Lemma guarded_disc f s : disc s = true -> guarded f s = s.
Proof. unfold guarded. intros ->. reflexivity. Qed.

Lemma tail_record s pn elic t d : tail s pn elic t d = record s pn elic t d.
Proof.
  unfold tail, record. destruct (disc s) eqn:D.
  - rewrite !(guarded_disc _ s D). reflexivity.
  - rewrite (guarded_live _ s D).
    rewrite (guarded_live _ (st_largest s pn elic t)) by exact D.
    rewrite (guarded_live _ (st_add (st_largest s pn elic t) pn)) by exact D.
    rewrite (guarded_live _ (st_arm (st_add (st_largest s pn elic t) pn) elic t d)) by exact D.
    unfold st_cap, set_ack_at, st_arm, set_ack_at, st_add, st_largest. cbn. rewrite D. reflexivity.
Qed.

Lemma ev_run_dead i v fs t d ord : forall x, p_live x = false -> ev_run i v fs t d x ord = Ok x.
Proof.
  induction ord as [|e r IH]; intros x H; cbn; [reflexivity|].
  unfold ev_step. rewrite H. cbn. apply IH, H.
Qed.

Definition bump (pn : Z) (r : rsp) : rsp := mkRS (sp r) (if pn >? expd r then pn + 1 else expd r).

(* one packet in the order of the code *)
Definition recv_closed (c : rconn) (i : sid) (v : verdict) (fs : list fx) (t d : Z) : Res rconn :=
  if closing (spc c i) then Ok c else
  match v with
  | VKeyUnavailable | VCryptoError => Ok c
  | VPlain pn true => Ok (rall c (on_sp set_closing))
  | VPlain pn false =>
      r <- payload_received (rupd (rupd c i (bump pn)) i (on_sp (fun s => set_clk s t))) i fs ;;
      let '(c2, elic, raised) := r in
      let c3 := if raised then rall c2 (on_sp set_closing) else c2 in
      if closing (spc c3 i) then Ok c3 else Ok (rupd c3 i (on_sp (fun s => tail s pn elic t d)))
  end.

Lemma ev_run_cons i v fs t d x e r :
  ev_run i v fs t d x (e :: r) = (x' <- ev_step i v fs t d x e ;; ev_run i v fs t d x' r).
Proof. reflexivity. Qed.

Ltac ev_next := rewrite ev_run_cons; unfold ev_step at 1; cbn [p_live negb p_c p_with p_pn p_elic].
Ltac ev_dead := cbn [bind]; rewrite ev_run_dead by reflexivity; reflexivity.

Lemma recv_packet_closed c i v fs t d : recv_packet c i v fs t d = recv_closed c i v fs t d.
Proof.
  unfold recv_packet, recv_ord, recv_closed, code_order.
  ev_next. destruct (closing (spc c i)) eqn:C0; [ev_dead|].
  cbn [bind]. ev_next.
  destruct v as [| |pn rsv]; [ev_dead|ev_dead|].
  cbn [bind]. ev_next.
  destruct rsv; [ev_dead|].
  cbn [bind]. ev_next. cbn [bind]. ev_next.
  fold (bump pn).
  destruct (payload_received _ i fs) as [[[c2 elic] raised]|k]; [|reflexivity].
  cbn [bind].
  set (c3 := if raised then rall c2 (on_sp set_closing) else c2).
  ev_next. destruct (closing (spc c3 i)) eqn:C3; [ev_dead|].
  cbn [bind]. ev_next. cbn [bind]. ev_next. cbn [bind]. ev_next. cbn [bind]. ev_next. cbn [bind ev_run p_c].
  rewrite !rupd_rupd. unfold tail. reflexivity.
Qed.
