(* C08: ledger exactness and at-most-once delivery callbacks for model/Recovery.v, for every float
   interpretation [F] and every congestion controller satisfying [cc_spec]. *)
From AQ Require Import lib.Base lib.Tok model.RangeSet model.RecBase model.Pacer model.Recovery
  proofs.RecoveryLemmas.
From Coq Require Import ZifyBool.

(* what the recovery code relies on from a congestion controller: the bytes_in_flight bookkeeping *)
Record cc_spec {T C : Type} (cc : ccops T C) : Prop := mkCcSpec {
  spec_sent : forall c p, cc_bif cc (cc_on_sent cc c p) = cc_bif cc c + p_bytes p;
  spec_acked : forall c now p, cc_bif cc (cc_on_acked cc c now p) = cc_bif cc c - p_bytes p;
  spec_expired : forall c l, cc_bif cc (cc_on_expired cc c l) = cc_bif cc c - sum_bytes l;
  spec_lost : forall c now l, cc_bif cc (cc_on_lost cc c now l) = cc_bif cc c - sum_bytes l;
  spec_rtt : forall c now r, cc_bif cc (cc_on_rtt cc c now r) = cc_bif cc c
}.

Section Proofs.
Context {T C : Type} (F : fops T) (cc : ccops T C) (SPEC : cc_spec cc).

Notation spaceT := (space (T:=T)).
Notation recT := (rec (T:=T) (C:=C)).

Definition sp_good (s : spaceT) : Prop :=
  NoDup (keys (sp_sent s)) /\ sp_aeif s = aecount (sp_sent s).

(* summary of what an operation does to one space and the controller; [es] = packet numbers whose
   delivery handlers were invoked *)
Definition sp_ok (s : spaceT) (c : C) (s' : spaceT) (c' : C) (es : list Z) : Prop :=
  sp_good s' /\
  cc_bif cc c' - flight (sp_sent s') = cc_bif cc c - flight (sp_sent s) /\
  incl (keys (sp_sent s')) (keys (sp_sent s)) /\
  NoDup es /\ incl es (keys (sp_sent s)) /\
  (forall k, In k es -> ~ In k (keys (sp_sent s'))).

Lemma sp_ok_refl : forall s c, sp_good s -> sp_ok s c s c [].
Proof.
  intros s c G. unfold sp_ok. repeat split; try apply G; auto using incl_refl.
  - constructor.
  - intros x [].
Qed.

Lemma sp_ok_trans : forall s c s1 c1 s2 c2 e1 e2,
  sp_ok s c s1 c1 e1 -> sp_ok s1 c1 s2 c2 e2 -> sp_ok s c s2 c2 (e1 ++ e2).
Proof.
  intros s c s1 c1 s2 c2 e1 e2 (G1 & L1 & I1 & N1 & E1 & X1) (G2 & L2 & I2 & N2 & E2 & X2).
  unfold sp_ok. repeat split; try apply G2.
  - lia.
  - eapply incl_tran; eauto.
  - clear - N1 N2 E2 X1. induction e1 as [|a e1 IH]; cbn; auto.
    inversion N1; subst. constructor.
    + intro Hc. apply in_app_or in Hc. destruct Hc as [Hc|Hc]; auto.
      apply (X1 a); [left; reflexivity|]. apply E2. exact Hc.
    + apply IH; auto. intros k Hk. apply X1. right. exact Hk.
  - intros k Hk. apply in_app_or in Hk. destruct Hk as [Hk|Hk]; auto.
  - intros k Hk Hc. apply in_app_or in Hk. destruct Hk as [Hk|Hk].
    + apply (X1 k Hk). apply I2. exact Hc.
    + apply (X2 k Hk). exact Hc.
Qed.

(* the sent list and counter decide everything in sp_ok *)
Lemma sp_ok_ext_l : forall s s0 c s' c' es,
  sp_sent s0 = sp_sent s -> sp_ok s c s' c' es -> sp_ok s0 c s' c' es.
Proof. intros s s0 c s' c' es E H. unfold sp_ok in *. rewrite E. exact H. Qed.

Lemma sp_ok_ext_r : forall s c s' s0 c' es,
  sp_sent s0 = sp_sent s' -> sp_aeif s0 = sp_aeif s' -> sp_ok s c s' c' es -> sp_ok s c s0 c' es.
Proof. intros s c s' s0 c' es E A H. unfold sp_ok, sp_good in *. rewrite E, A. exact H. Qed.

Lemma sp_ok_cc : forall s c s' c' c'' es,
  cc_bif cc c'' = cc_bif cc c' -> sp_ok s c s' c' es -> sp_ok s c s' c'' es.
Proof. intros s c s' c' c'' es E H. unfold sp_ok in *. rewrite E. exact H. Qed.

(* ---------- _on_packets_lost ---------- *)
Lemma packets_lost_ok : forall s c pc sm now lost s' c' pc',
  sp_good s -> incl lost (sp_sent s) -> NoDup (keys lost) ->
  packets_lost F cc s c pc sm now lost = (s', c', pc') ->
  sp_ok s c s' c' (keys lost).
Proof.
  intros s c pc sm now lost s' c' pc' (Hnd & Hae) Hin Hl H.
  destruct (del_all_ok lost (sp_sent s) Hnd Hin Hl) as (A & B & D & E & G).
  unfold packets_lost in H.
  assert (Hbif : cc_bif cc c' = cc_bif cc c - flight lost).
  { destruct (filter p_inflight lost) as [|q l0] eqn:Ef.
    - inversion H; subst. rewrite (filter_nil_flight lost Ef). lia.
    - inversion H; subst. rewrite (spec_lost cc SPEC). rewrite <- Ef, flight_filter. reflexivity. }
  assert (Hs : s' = mkSpace (del_all lost (sp_sent s)) (sp_aeif s - aecount lost) (sp_largest_acked s) (sp_loss_time s)).
  { destruct (filter p_inflight lost); inversion H; reflexivity. }
  subst s'. unfold sp_ok, sp_good. cbn [sp_sent sp_aeif]. repeat split.
  - exact D.
  - lia.
  - lia.
  - apply incl_keys. exact E.
  - exact Hl.
  - apply incl_keys. exact Hin.
  - exact G.
Qed.

(* ---------- _detect_loss ---------- *)
Lemma detect_loss_ok : forall (st : recT) s c pc now s' c' pc' es,
  sp_good s -> detect_loss F cc st s c pc now = (s', c', pc', es) -> sp_ok s c s' c' es.
Proof.
  intros st s c pc now s' c' pc' es G H. unfold detect_loss in H.
  destruct (detect_scan F _ _ _ _ (sp_sent s) None) as [lost lt] eqn:Es.
  destruct (packets_lost F cc _ c pc _ now lost) as [[s2 c2] pc2] eqn:Ep.
  inversion H; subst. destruct (detect_scan_sub F _ _ _ _ _ _ _ _ Es) as (I & N).
  eapply sp_ok_ext_l with (s := mkSpace (sp_sent s) (sp_aeif s) (sp_largest_acked s) lt); [reflexivity|].
  eapply packets_lost_ok; [ | | |exact Ep].
  - exact G.
  - exact I.
  - apply N. apply G.
Qed.

(* ---------- the ack loop ---------- *)
Definition ack_post (la : Z) (rsn : rs) (a a' : ackst (T:=T) (C:=C)) : Prop :=
  NoDup (keys (a_sent a')) /\ a_aeif a' = aecount (a_sent a') /\
  cc_bif cc (a_cc a') - flight (a_sent a') = cc_bif cc (a_cc a) - flight (a_sent a) /\
  incl (keys (a_sent a')) (keys (a_sent a)) /\
  exists new, a_evs a' = a_evs a ++ new /\ NoDup new /\ incl new (keys (a_sent a)) /\
              (forall k, In k new -> ~ In k (keys (a_sent a'))) /\
              (forall k, In k new -> contains k rsn = true /\ k <= la) /\
              (new = [] -> a_lna a' = a_lna a) /\ (new <> [] -> a_lna a' <> None).

Lemma ack_post_refl : forall la rsn a,
  NoDup (keys (a_sent a)) -> a_aeif a = aecount (a_sent a) -> ack_post la rsn a a.
Proof.
  intros la rsn a Hnd Hae. unfold ack_post.
  split; [exact Hnd|]. split; [exact Hae|]. split; [reflexivity|]. split; [apply incl_refl|].
  exists []. rewrite app_nil_r.
  split; [reflexivity|]. split; [constructor|]. split; [intros x []|].
  split; [intros x []|]. split; [intros x []|]. split; [reflexivity|].
  intro Hx. exfalso. apply Hx. reflexivity.
Qed.

Lemma ack_loop_ok : forall ks la rsn now (a : ackst (T:=T) (C:=C)),
  NoDup (keys (a_sent a)) -> a_aeif a = aecount (a_sent a) ->
  ack_post la rsn a (ack_loop cc ks la rsn now a).
Proof.
  induction ks as [|k t IH]; intros la rsn now a Hnd Hae; cbn [ack_loop].
  - apply ack_post_refl; auto.
  - pose proof (ack_post_refl la rsn a Hnd Hae) as Base.
    destruct (k >? la) eqn:Ela; [exact Base|].
    destruct (contains k rsn) eqn:Ec; [|apply IH; auto].
    destruct (pop k (a_sent a)) as [[p|] sent'] eqn:Ep; [|apply IH; auto].
    destruct (pop_some _ _ _ _ Ep) as (Hk & Hin & Hf & Ha).
    pose proof (pop_nodup k (a_sent a) Hnd) as Hnd'. rewrite Ep in Hnd'. cbn [snd] in Hnd'.
    pose proof (pop_notin k (a_sent a) Hnd) as Hnot. rewrite Ep in Hnot. cbn [snd] in Hnot.
    pose proof (pop_keys_incl k (a_sent a)) as Hinc. rewrite Ep in Hinc. cbn [snd] in Hinc.
    set (a1 := mkAck sent' _ _ _ _ _ _).
    specialize (IH la rsn now a1).
    assert (Hae1 : a_aeif a1 = aecount (a_sent a1)).
    { subst a1. cbn [a_aeif a_sent]. destruct (p_ackel p); cbn [b2z] in Ha; lia. }
    specialize (IH Hnd' Hae1). unfold ack_post in IH |- *.
    destruct IH as (N' & A' & L' & I' & new & Ev & Nn & In' & Xn & Cn & L1 & L2).
    assert (Hbif1 : cc_bif cc (a_cc a1) - flight (a_sent a1) = cc_bif cc (a_cc a) - flight (a_sent a)).
    { subst a1. cbn [a_cc a_sent]. unfold contrib in Hf. destruct (p_inflight p).
      - rewrite (spec_acked cc SPEC). lia.
      - lia. }
    split; [exact N'|]. split; [exact A'|]. split; [lia|].
    split; [eapply incl_tran; eauto|].
    exists (k :: new). subst a1. cbn [a_evs a_sent a_lna] in *.
    split; [rewrite Ev; rewrite <- app_assoc; reflexivity|].
    split; [constructor; auto; intro Hc; apply Hnot; apply In'; exact Hc|].
    split.
    { intros x [<-|Hx].
      - rewrite <- Hk. apply in_map. exact Hin.
      - apply Hinc. apply In'. exact Hx. }
    split.
    { intros x [<-|Hx].
      - intro Hc. apply Hnot. apply I'. exact Hc.
      - apply Xn. exact Hx. }
    split.
    { intros x [<-|Hx]; [split; [exact Ec|lia]|apply Cn; exact Hx]. }
    split; [discriminate|].
    intros _. destruct new as [|n0 new0].
    + rewrite L1; [discriminate|reflexivity].
    + apply L2. discriminate.
Qed.

(* ---------- whole recovery object ---------- *)
Definition key := (nat * Z)%type.        (* space index, packet number *)

Definition tracked (sps : list spaceT) (k : key) : Prop :=
  exists s, nth_error sps (fst k) = Some s /\ In (snd k) (keys (sp_sent s)).

Definition good (sps : list spaceT) (c : C) : Prop :=
  cc_bif cc c = tot_flight sps /\ forall i s, nth_error sps i = Some s -> sp_good s.

Definition evkey (e : ev) : key := fst e.

(* a transition that tracks no new packet; [evs] = delivery events *)
Definition gt (sps sps' : list spaceT) (c' : C) (evs : list ev) : Prop :=
  good sps' c' /\ length sps' = length sps /\
  (forall k, tracked sps' k -> tracked sps k) /\
  NoDup (map evkey evs) /\
  forall e, In e evs -> tracked sps (evkey e) /\ ~ tracked sps' (evkey e).

Lemma gt_refl : forall sps c, good sps c -> gt sps sps c [].
Proof.
  intros sps c G. unfold gt. split; [exact G|]. split; [reflexivity|]. split; [auto|].
  split; [constructor|]. intros e [].
Qed.

Lemma gt_trans : forall sps sps1 c1 e1 sps2 c2 e2,
  gt sps sps1 c1 e1 -> gt sps1 sps2 c2 e2 -> gt sps sps2 c2 (e1 ++ e2).
Proof.
  intros sps sps1 c1 e1 sps2 c2 e2 (G1 & Len1 & M1 & N1 & X1) (G2 & Len2 & M2 & N2 & X2).
  unfold gt. split; [exact G2|]. split; [congruence|]. split; [auto|]. split.
  - rewrite map_app. clear - N1 N2 X1 X2.
    induction e1 as [|a e1 IH]; cbn; auto.
    cbn in N1. inversion N1; subst. constructor.
    + intro Hc. apply in_app_or in Hc. destruct Hc as [Hc|Hc]; auto.
      apply in_map_iff in Hc. destruct Hc as (b & Hb & Hin).
      destruct (X1 a (or_introl eq_refl)) as (_ & NT).
      destruct (X2 b Hin) as (T1 & _). apply NT. rewrite <- Hb. exact T1.
    + apply IH; auto. intros e He. apply X1. right. exact He.
  - intros e He. apply in_app_or in He. destruct He as [He|He].
    + destruct (X1 e He) as (A & B). split; auto.
    + destruct (X2 e He) as (A & B). split; auto.
Qed.

Lemma map_pair_nodup : forall (i : nat) (es : list Z), NoDup es -> NoDup (map (pair i) es).
Proof.
  induction es as [|a es IH]; intros H; cbn; [constructor|].
  inversion H; subst. constructor; auto.
  intro Hc. apply in_map_iff in Hc. destruct Hc as (b & Hb & Hin). inversion Hb; subst. auto.
Qed.

Lemma single_gt : forall sps c i s s' c' es evs,
  good sps c -> nth_error sps i = Some s -> sp_ok s c s' c' es ->
  map evkey evs = map (pair i) es ->
  gt sps (upd_nth i (fun _ => s') sps) c' evs.
Proof.
  intros sps c i s s' c' es evs (Gb & Gs) Hn (G' & L & I & N & E & X) Hev.
  unfold gt. split; [|split; [|split; [|split]]].
  - split.
    + rewrite (tot_flight_upd sps i s (fun _ => s') Hn). lia.
    + intros j sj Hj. destruct (Nat.eq_dec i j) as [<-|Hne].
      * rewrite (upd_nth_same _ _ _ _ Hn) in Hj. inversion Hj; subst. exact G'.
      * rewrite (upd_nth_other _ _ _ _ Hne) in Hj. eapply Gs; eauto.
  - apply upd_nth_length.
  - intros [j k] (sj & Hj & Hin). cbn [fst snd] in *. destruct (Nat.eq_dec i j) as [<-|Hne].
    + rewrite (upd_nth_same _ _ _ _ Hn) in Hj. inversion Hj; subst.
      exists s. split; auto.
    + rewrite (upd_nth_other _ _ _ _ Hne) in Hj. exists sj. split; auto.
  - rewrite Hev. apply map_pair_nodup. exact N.
  - intros e He. assert (Hk : In (evkey e) (map (pair i) es)) by (rewrite <- Hev; apply in_map; exact He).
    apply in_map_iff in Hk. destruct Hk as (k & Hk & Hin). rewrite <- Hk. split.
    + exists s. split; auto.
    + intros (sj & Hj & Hin'). cbn [fst snd] in *.
      rewrite (upd_nth_same _ _ _ _ Hn) in Hj. inversion Hj; subst. apply (X k Hin). exact Hin'.
Qed.

Lemma evkey_lost : forall i es, map evkey (lost_evs i es) = map (pair i) es.
Proof. intros. unfold lost_evs. rewrite map_map. reflexivity. Qed.
Lemma evkey_acked : forall i es, map evkey (acked_evs i es) = map (pair i) es.
Proof. intros. unfold acked_evs. rewrite map_map. reflexivity. Qed.

Definition rgood (st : recT) : Prop := good (r_spaces st) (r_cc st).
Definition rgt (st st' : recT) (evs : list ev) : Prop := gt (r_spaces st) (r_spaces st') (r_cc st') evs.

(* ---------- on_ack_received ---------- *)
Lemma on_ack_received_gt : forall st i rsn delay now st' evs status,
  rgood st -> on_ack_received F cc st i rsn delay now = (st', evs, status) -> rgt st st' evs.
Proof.
  intros st i rsn delay now st' evs status G H. unfold on_ack_received in H.
  destruct (bounds rsn) as [[b0 stop]|]; [|inversion H; subst; apply gt_refl; exact G].
  destruct (nth_error (r_spaces st) i) as [s|] eqn:En; [|inversion H; subst; apply gt_refl; exact G].
  set (la := stop - 1) in *.
  set (s0 := mkSpace (sp_sent s) (sp_aeif s) _ (sp_loss_time s)) in *.
  pose proof (proj2 G i s En) as Gs.
  set (a0 := mkAck (sp_sent s0) (sp_aeif s0) (r_cc st) false None (fofZ F 0) []) in *.
  pose proof (ack_loop_ok (zsort (keys (sp_sent s0))) la rsn now a0 (proj1 Gs) (proj2 Gs)) as AL.
  set (a := ack_loop cc (zsort (keys (sp_sent s0))) la rsn now a0) in *.
  destruct AL as (N' & A' & L' & I' & new & Ev & Nn & In' & Xn & Cn & L1 & L2).
  destruct (a_lna a) as [lna|] eqn:Elna.
  - (* some packet newly acked *)
    set (s1 := mkSpace (a_sent a) (a_aeif a) (sp_largest_acked s0) (sp_loss_time s0)) in *.
    assert (OK1 : sp_ok s (r_cc st) s1 (a_cc a) (a_evs a)).
    { unfold sp_ok, sp_good. subst s1. cbn [sp_sent sp_aeif]. subst a0. cbn [a_sent a_cc a_evs] in *.
      rewrite Ev. cbn [app]. repeat split; auto. }
    destruct ((la =? lna) && a_isae a).
    + destruct (rtt_update F st now (a_lst a) delay) as [st1 lrtt] eqn:Er.
      destruct (detect_loss F cc st1 s1 _ _ now) as [[[s2 c2] pc2] lost] eqn:Ed.
      inversion H; subst st' evs status. unfold rgt. cbn [r_spaces r_cc set_pto set_spaces_cc].
      eapply single_gt; [exact G|exact En| |].
      * eapply sp_ok_trans; [|eapply detect_loss_ok; [|exact Ed]].
        -- eapply sp_ok_cc; [|exact OK1]. apply (spec_rtt cc SPEC).
        -- exact (proj1 OK1).
      * rewrite map_app, evkey_acked, evkey_lost, map_app. reflexivity.
    + destruct (detect_loss F cc st s1 _ _ now) as [[[s2 c2] pc2] lost] eqn:Ed.
      inversion H; subst st' evs status. unfold rgt. cbn [r_spaces r_cc set_pto set_spaces_cc].
      eapply single_gt; [exact G|exact En| |].
      * eapply sp_ok_trans; [exact OK1|eapply detect_loss_ok; [|exact Ed]]. exact (proj1 OK1).
      * rewrite map_app, evkey_acked, evkey_lost, map_app. reflexivity.
  - (* nothing newly acked *)
    inversion H; subst st' evs status. unfold rgt. cbn [r_spaces r_cc set_spaces_cc].
    eapply single_gt with (es := []); [exact G|exact En| |reflexivity].
    eapply sp_ok_ext_r with (s' := s); [reflexivity|reflexivity|]. apply sp_ok_refl. exact Gs.
Qed.

Lemma rgt_good : forall st st' evs, rgt st st' evs -> rgood st'.
Proof. intros st st' evs H. exact (proj1 H). Qed.

(* ---------- on_loss_detection_timeout / reschedule_data ---------- *)
Lemma resched_one_gt : forall st i now st' evs,
  rgood st -> resched_one F cc st i now = (st', evs) -> rgt st st' evs.
Proof.
  intros st i now st' evs G H. unfold resched_one in H.
  destruct (nth_error (r_spaces st) i) as [s|] eqn:En; [|inversion H; subst; apply gt_refl; exact G].
  destruct (filter p_crypto (sp_sent s)) as [|q l0] eqn:Ef; [inversion H; subst; apply gt_refl; exact G|].
  rewrite <- Ef in H.
  destruct (packets_lost F cc s (r_cc st) (r_pacer st) (r_smoothed st) now (filter p_crypto (sp_sent s)))
    as [[s' c] pc] eqn:Ep.
  inversion H; subst st' evs. unfold rgt. cbn [r_spaces r_cc set_spaces_cc].
  pose proof (proj2 G i s En) as Gs.
  eapply single_gt; [exact G|exact En| |apply evkey_lost].
  eapply packets_lost_ok; [exact Gs| | |exact Ep].
  - apply incl_filter.
  - apply filter_keys_nodup. apply Gs.
Qed.

Lemma resched_from_gt : forall n i st now st' evs,
  rgood st -> resched_from F cc n i st now = (st', evs) -> rgt st st' evs.
Proof.
  induction n as [|n IH]; intros i st now st' evs G H; cbn [resched_from] in H.
  - inversion H; subst. apply gt_refl. exact G.
  - destruct (resched_one F cc st i now) as [st1 e1] eqn:E1.
    destruct (resched_from F cc n (S i) st1 now) as [st2 e2] eqn:E2.
    inversion H; subst st' evs.
    pose proof (resched_one_gt _ _ _ _ _ G E1) as G1.
    pose proof (IH _ _ _ _ _ (rgt_good _ _ _ G1) E2) as G2.
    unfold rgt in *. eapply gt_trans; eauto.
Qed.

Lemma reschedule_gt : forall st now st' evs,
  rgood st -> reschedule_data F cc st now = (st', evs) -> rgt st st' evs.
Proof.
  intros st now st' evs G H. unfold reschedule_data in H.
  destruct (resched_from F cc (length (r_spaces st)) 0 st now) as [st1 e1] eqn:E1.
  inversion H; subst st' evs. pose proof (resched_from_gt _ _ _ _ _ _ G E1) as G1.
  unfold rgt in *. cbn [r_spaces r_cc add_probe]. exact G1.
Qed.

Lemma timeout_gt : forall st now st' evs,
  rgood st -> on_loss_detection_timeout F cc st now = (st', evs) -> rgt st st' evs.
Proof.
  intros st now st' evs G H. unfold on_loss_detection_timeout in H.
  destruct (loss_space F st) as [[i lt]|].
  - destruct (nth_error (r_spaces st) i) as [s|] eqn:En; [|inversion H; subst; apply gt_refl; exact G].
    destruct (detect_loss F cc st s (r_cc st) (r_pacer st) now) as [[[s' c] pc] lost] eqn:Ed.
    inversion H; subst st' evs. unfold rgt. cbn [r_spaces r_cc set_spaces_cc].
    eapply single_gt; [exact G|exact En| |apply evkey_lost].
    eapply detect_loss_ok; [|exact Ed]. exact (proj2 G i s En).
  - apply reschedule_gt in H; [exact H|]. exact G.
Qed.

(* ---------- discard_space ---------- *)
Lemma discard_gt : forall st i, rgood st -> rgt st (discard_space cc st i) [].
Proof.
  intros st i G. unfold discard_space.
  destruct (nth_error (r_spaces st) i) as [s|] eqn:En; [|apply gt_refl; exact G].
  unfold rgt. cbn [r_spaces r_cc set_pto set_spaces_cc].
  eapply single_gt with (es := []); [exact G|exact En| |reflexivity].
  unfold sp_ok, sp_good. cbn [sp_sent sp_aeif keys map flight aecount fold_right].
  repeat split; try constructor; try (intros x []).
  rewrite (spec_expired cc SPEC), flight_filter. lia.
Qed.

(* ---------- on_packet_sent ---------- *)
Lemma nodup_snoc : forall (l : list Z) x, NoDup l -> ~ In x l -> NoDup (l ++ [x]).
Proof.
  induction l as [|a l IH]; intros x H Hx; cbn.
  - constructor; [intros []|constructor].
  - inversion H; subst. constructor.
    + intro Hc. apply in_app_or in Hc. destruct Hc as [Hc|[Hc|[]]]; auto. apply Hx. left. symmetry. exact Hc.
    + apply IH; auto. intro Hc. apply Hx. right. exact Hc.
Qed.

Lemma send_good : forall st i p,
  rgood st -> ~ tracked (r_spaces st) (i, p_pn p) ->
  let st' := on_packet_sent cc st i p in
  rgood st' /\ (forall k, tracked (r_spaces st') k -> tracked (r_spaces st) k \/ k = (i, p_pn p)).
Proof.
  intros st i p G Hfresh. unfold on_packet_sent.
  destruct (nth_error (r_spaces st) i) as [s|] eqn:En; [|cbn zeta; split; [exact G|auto]].
  cbn zeta. unfold rgood. cbn [r_spaces r_cc].
  assert (Hk : ~ In (p_pn p) (keys (sp_sent s))).
  { intro Hc. apply Hfresh. exists s. split; auto. }
  destruct G as (Gb & Gs). destruct (Gs i s En) as (Hnd & Hae).
  split; [split|].
  - rewrite (tot_flight_upd _ i s _ En). unfold space_sent. cbn [sp_sent].
    rewrite (dict_set_fresh p _ Hk), flight_app. cbn [flight fold_right].
    destruct (p_inflight p); [rewrite (spec_sent cc SPEC)|]; lia.
  - intros j sj Hj. destruct (Nat.eq_dec i j) as [<-|Hne].
    + rewrite (upd_nth_same _ _ _ _ En) in Hj. inversion Hj; subst sj.
      unfold sp_good, space_sent. cbn [sp_sent sp_aeif]. rewrite (dict_set_fresh p _ Hk). split.
      * unfold keys. rewrite map_app. apply nodup_snoc; auto.
      * rewrite aecount_app. cbn [aecount fold_right]. destruct (p_ackel p); cbn [b2z]; lia.
    + rewrite (upd_nth_other _ _ _ _ Hne) in Hj. eapply Gs; eauto.
  - intros [j k] (sj & Hj & Hin). cbn [fst snd] in *. destruct (Nat.eq_dec i j) as [<-|Hne].
    + rewrite (upd_nth_same _ _ _ _ En) in Hj. inversion Hj; subst sj.
      unfold space_sent in Hin. cbn [sp_sent] in Hin. rewrite (dict_set_fresh p _ Hk) in Hin.
      unfold keys in Hin. rewrite map_app in Hin. apply in_app_or in Hin. destruct Hin as [Hin|[Hin|[]]].
      * left. exists s. split; auto.
      * right. rewrite Hin. reflexivity.
    + rewrite (upd_nth_other _ _ _ _ Hne) in Hj. left. exists sj. split; auto.
Qed.

(* ---------- histories ---------- *)
Definition seen_of (o : rop (T:=T)) (seen : list key) : list key :=
  match o with
  | OSend sp pn _ _ _ _ _ => (Z.to_nat sp, pn) :: seen
  | _ => seen
  end.

(* fresh packet numbers: no (space, packet number) is passed to on_packet_sent twice *)
Fixpoint fresh_ops (seen : list key) (ops : list (rop (T:=T))) : Prop :=
  match ops with
  | [] => True
  | o :: t =>
      match o with
      | OSend sp pn _ _ _ _ _ => ~ In (Z.to_nat sp, pn) seen
      | _ => True
      end /\ fresh_ops (seen_of o seen) t
  end.

Definition seen_after (seen : list key) (ops : list (rop (T:=T))) : list key :=
  fold_left (fun s o => seen_of o s) ops seen.

(* the packets sent by a history *)
Definition sent_keys (ops : list (rop (T:=T))) : list key := seen_after [] ops.

Definition Inv (st : recT) (seen rep : list key) : Prop :=
  rgood st /\
  (forall k, tracked (r_spaces st) k -> In k seen) /\
  (forall k, In k rep -> In k seen /\ ~ tracked (r_spaces st) k) /\
  NoDup rep.

Lemma nodup_app_disj : forall (l1 l2 : list key),
  NoDup l1 -> NoDup l2 -> (forall k, In k l1 -> ~ In k l2) -> NoDup (l1 ++ l2).
Proof.
  induction l1 as [|a l1 IH]; intros l2 H1 H2 D; cbn; auto.
  inversion H1; subst. constructor.
  - intro Hc. apply in_app_or in Hc. destruct Hc as [Hc|Hc]; auto. apply (D a); [left; reflexivity|exact Hc].
  - apply IH; auto. intros k Hk. apply D. right. exact Hk.
Qed.

Lemma inv_gt : forall st seen rep st' evs,
  Inv st seen rep -> rgt st st' evs ->
  Inv st' seen (rep ++ map evkey evs) /\
  (forall e, In e evs -> tracked (r_spaces st) (evkey e) /\ ~ tracked (r_spaces st') (evkey e)).
Proof.
  intros st seen rep st' evs (G & Ts & Rs & Nr) (G' & Len & M & N & X). split; [|exact X].
  unfold Inv. split; [exact G'|]. split; [auto|]. split.
  - intros k Hk. apply in_app_or in Hk. destruct Hk as [Hk|Hk].
    + destruct (Rs k Hk) as (A & B). split; auto.
    + apply in_map_iff in Hk. destruct Hk as (e & <- & He). destruct (X e He) as (A & B). split; auto.
  - apply nodup_app_disj; auto. intros k Hk Hc.
    apply in_map_iff in Hc. destruct Hc as (e & <- & He).
    destruct (X e He) as (A & _). destruct (Rs _ Hk) as (_ & B). auto.
Qed.

Lemma step_inv : forall st seen rep o st' evs status r,
  Inv st seen rep -> fresh_ops seen [o] -> step F cc st o = (st', evs, status, r) ->
  Inv st' (seen_of o seen) (rep ++ map evkey evs) /\
  (forall e, In e evs -> tracked (r_spaces st) (evkey e) /\ ~ tracked (r_spaces st') (evkey e)).
Proof.
  intros st seen rep o st' evs status r I Fr H.
  assert (Same : forall st1, r_spaces st1 = r_spaces st -> r_cc st1 = r_cc st -> rgt st st1 []).
  { intros st1 E1 E2. unfold rgt. rewrite E1, E2. apply gt_refl. apply I. }
  destruct o; cbn [step] in H; cbn [seen_of].
  - (* send *)
    inversion H; subst st' evs status r. cbn [map]. rewrite app_nil_r.
    destruct I as (G & Ts & Rs & Nr). cbn [fresh_ops] in Fr. destruct Fr as (Fr & _).
    assert (Hnt : ~ tracked (r_spaces st) (Z.to_nat sp, pn)) by (intro Hc; apply Fr; apply Ts; exact Hc).
    destruct (send_good st (Z.to_nat sp) (mkPkt pn inflight ackel crypto time bytes) G Hnt) as (G' & M).
    cbn [p_pn] in M. split; [|intros e []].
    unfold Inv. split; [exact G'|]. split; [|split; [|exact Nr]].
    + intros k Hk. destruct (M k Hk) as [Hk' | ->]; [right; auto|left; reflexivity].
    + intros k Hk. destruct (Rs k Hk) as (A & B). split; [right; exact A|].
      intro Hc. destruct (M k Hc) as [Hk' | ->]; auto.
  - destruct (on_ack_received F cc st (Z.to_nat sp) (mk_rs ranges) delay now) as [[st1 e1] s1] eqn:E.
    inversion H; subst. eapply inv_gt; eauto. eapply on_ack_received_gt; eauto. apply I.
  - destruct (on_loss_detection_timeout F cc st now) as [st1 e1] eqn:E.
    inversion H; subst. eapply inv_gt; eauto. eapply timeout_gt; eauto. apply I.
  - inversion H; subst. eapply inv_gt; eauto. apply discard_gt. apply I.
  - destruct (reschedule_data F cc st now) as [st1 e1] eqn:E.
    inversion H; subst. eapply inv_gt; eauto. eapply reschedule_gt; eauto. apply I.
  - inversion H; subst. eapply inv_gt; eauto.
  - inversion H; subst. eapply inv_gt; eauto.
  - destruct (next_send_time F (r_pacer st) now) as [r1 pc] eqn:E.
    inversion H; subst. eapply inv_gt; eauto.
  - inversion H; subst. eapply inv_gt; eauto.
Qed.

Lemma run_inv : forall ops st seen rep st' evs,
  Inv st seen rep -> fresh_ops seen ops -> run F cc st ops = (st', evs) ->
  Inv st' (seen_after seen ops) (rep ++ map evkey evs).
Proof.
  induction ops as [|o t IH]; intros st seen rep st' evs Iv Fr H; cbn [run] in H.
  - inversion H; subst. cbn. rewrite app_nil_r. exact Iv.
  - destruct (step F cc st o) as [[[st1 e1] s1] r1] eqn:Es.
    destruct (run F cc st1 t) as [st2 e2] eqn:Er. inversion H; subst st' evs.
    cbn [fresh_ops] in Fr. destruct Fr as (Fo & Ft).
    destruct (step_inv _ _ _ _ _ _ _ _ Iv (conj Fo Logic.I) Es) as (I1 & _).
    specialize (IH _ _ _ _ _ I1 Ft Er).
    cbn [seen_after fold_left]. rewrite map_app, app_assoc. exact IH.
Qed.

Lemma init_inv : forall n irtt mss pcav c0,
  cc_bif cc c0 = 0 -> Inv (rec_init F n irtt mss pcav c0) [] [].
Proof.
  intros n irtt mss pcav c0 H0. unfold Inv, rgood, good, rec_init. cbn [r_spaces r_cc].
  assert (Hn : forall i (s : spaceT), nth_error (repeat space_init n) i = Some s -> s = space_init).
  { intros i s Hs. apply nth_error_In in Hs. apply repeat_spec in Hs. exact Hs. }
  split; [split|split; [|split]].
  - rewrite H0. clear. induction n; cbn; auto.
  - intros i s Hs. rewrite (Hn i s Hs). unfold sp_good, space_init. cbn. split; [constructor|reflexivity].
  - intros [i k] (s & Hs & Hin). cbn [fst snd] in *. rewrite (Hn i s Hs) in Hin. destruct Hin.
  - intros k [].
  - constructor.
Qed.

Lemma fresh_ops_app : forall l1 l2 seen,
  fresh_ops seen (l1 ++ l2) -> fresh_ops seen l1 /\ fresh_ops (seen_after seen l1) l2.
Proof.
  induction l1 as [|o t IH]; intros l2 seen H; cbn [app fresh_ops seen_after fold_left] in *.
  - split; [exact Logic.I|exact H].
  - destruct H as (Ho & Ht). destruct (IH _ _ Ht) as (A & B). split; [split; assumption|exact B].
Qed.

(* ---------- the theorems, for any controller satisfying cc_spec ---------- *)
Theorem ledger_exact_gen : forall n irtt mss pcav c0 ops st evs,
  cc_bif cc c0 = 0 -> fresh_ops [] ops ->
  run F cc (rec_init F n irtt mss pcav c0) ops = (st, evs) ->
  cc_bif cc (r_cc st) = tot_flight (r_spaces st) /\
  (forall i s, nth_error (r_spaces st) i = Some s ->
     sp_aeif s = aecount (sp_sent s) /\ NoDup (keys (sp_sent s))).
Proof.
  intros n irtt mss pcav c0 ops st evs H0 Fr Hr.
  destruct (run_inv _ _ _ _ _ _ (init_inv n irtt mss pcav c0 H0) Fr Hr) as ((Gb & Gs) & _).
  split; [exact Gb|]. intros i s Hs. destruct (Gs i s Hs). split; assumption.
Qed.

Theorem callbacks_at_most_once_gen : forall n irtt mss pcav c0 ops st evs,
  cc_bif cc c0 = 0 -> fresh_ops [] ops ->
  run F cc (rec_init F n irtt mss pcav c0) ops = (st, evs) ->
  NoDup (map evkey evs) /\
  (forall e, In e evs -> In (evkey e) (sent_keys ops) /\ ~ tracked (r_spaces st) (evkey e)).
Proof.
  intros n irtt mss pcav c0 ops st evs H0 Fr Hr.
  destruct (run_inv _ _ _ _ _ _ (init_inv n irtt mss pcav c0 H0) Fr Hr) as (_ & _ & Rs & Nr).
  cbn [app] in *. split; [exact Nr|]. intros e He. apply Rs. apply in_map. exact He.
Qed.

Theorem callbacks_only_tracked_gen : forall n irtt mss pcav c0 ops o st evs0 st' evs status r,
  cc_bif cc c0 = 0 -> fresh_ops [] (ops ++ [o]) ->
  run F cc (rec_init F n irtt mss pcav c0) ops = (st, evs0) ->
  step F cc st o = (st', evs, status, r) ->
  forall e, In e evs ->
    tracked (r_spaces st) (evkey e) /\ In (evkey e) (sent_keys ops) /\
    ~ In (evkey e) (map evkey evs0) /\ ~ tracked (r_spaces st') (evkey e).
Proof.
  intros n irtt mss pcav c0 ops o st evs0 st' evs status r H0 Fr Hr Hs e He.
  destruct (fresh_ops_app _ _ _ Fr) as (Fr1 & Fr2).
  pose proof (run_inv _ _ _ _ _ _ (init_inv n irtt mss pcav c0 H0) Fr1 Hr) as Iv.
  destruct (step_inv _ _ _ _ _ _ _ _ Iv Fr2 Hs) as (_ & X).
  destruct (X e He) as (A & B). destruct Iv as (_ & Ts & Rs & _). cbn [app] in Rs.
  split; [exact A|]. split; [apply Ts; exact A|]. split; [|exact B].
  intro Hc. destruct (Rs _ Hc) as (_ & NT). auto.
Qed.

(* acknowledging only numbers that are not tracked (never sent, already acknowledged, already lost,
   discarded) reports nothing and changes neither the ledger nor the sent maps *)
Theorem ack_untracked_silent_gen : forall (st : recT) sp ranges delay now st' evs status r,
  rgood st ->
  (forall s k, nth_error (r_spaces st) (Z.to_nat sp) = Some s -> In k (keys (sp_sent s)) ->
               contains k (mk_rs ranges) = false) ->
  step F cc st (OAck sp ranges delay now) = (st', evs, status, r) ->
  evs = [] /\ r_cc st' = r_cc st /\ map (@sp_sent T) (r_spaces st') = map (@sp_sent T) (r_spaces st).
Proof.
  intros st sp ranges delay now st' evs status r G Hun H. cbn [step] in H.
  destruct (on_ack_received F cc st (Z.to_nat sp) (mk_rs ranges) delay now) as [[st1 e1] s1] eqn:E.
  inversion H; subst st' evs status r. clear H. unfold on_ack_received in E.
  destruct (bounds (mk_rs ranges)) as [[b0 stop]|]; [|inversion E; subst; auto].
  destruct (nth_error (r_spaces st) (Z.to_nat sp)) as [s|] eqn:En; [|inversion E; subst; auto].
  set (la := stop - 1) in *.
  set (s0 := mkSpace (sp_sent s) (sp_aeif s) _ (sp_loss_time s)) in *.
  pose proof (proj2 G _ s En) as Gs.
  set (a0 := mkAck (sp_sent s0) (sp_aeif s0) (r_cc st) false None (fofZ F 0) []) in *.
  pose proof (ack_loop_ok (zsort (keys (sp_sent s0))) la (mk_rs ranges) now a0 (proj1 Gs) (proj2 Gs)) as AL.
  set (a := ack_loop cc (zsort (keys (sp_sent s0))) la (mk_rs ranges) now a0) in *.
  destruct AL as (N' & A' & L' & I' & new & Ev & Nn & In' & Xn & Cn & L1 & L2).
  assert (Hnew : new = []).
  { destruct new as [|k new]; [reflexivity|]. exfalso.
    destruct (Cn k (or_introl eq_refl)) as (Hc & _).
    rewrite (Hun s k eq_refl) in Hc; [discriminate|]. apply In'. left. reflexivity. }
  rewrite (L1 Hnew) in E. subst a0. cbn [a_lna] in E. inversion E; subst st1 e1 s1.
  split; [reflexivity|]. cbn [r_cc r_spaces set_spaces_cc]. split; [reflexivity|].
  clear - En. revert En. generalize (Z.to_nat sp) as i. generalize (r_spaces st) as l.
  induction l as [|h t IH]; intros i En; destruct i; cbn in *; try discriminate; auto.
  - inversion En; subst. reflexivity.
  - f_equal. apply IH. exact En.
Qed.

End Proofs.
