(* C05: totality of tls.Context.handle_message (model/TlsRecv.v) over ALL byte strings, ALL oracle
   answers and every well-formed Context state; refutation for the tree without docs/C05-fix-7.patch. *)
From AQ Require Import lib.Base lib.Tok model.Codec model.TlsCodec model.TlsParse model.TlsRecv proofs.TlsParseP
  gen.C05Tables gen.C05Tls gen.TlsDispatch.
From Coq Require Import ZifyBool.

(* the alerts the TLS layer raises on network input (a subset of AlertDescription) *)
Definition raised_alerts : list Z :=
  [AD_unexpected_message; AD_handshake_failure; AD_bad_certificate; AD_certificate_expired;
   AD_illegal_parameter; AD_decode_error; AD_decrypt_error; AD_protocol_version].

(* exceptions a handler may leave with: BufferReadError (caught one level up), a documented alert, or the
   QuicConnectionError of a connection callback *)
Definition good_exn (o : orc) (e : texn) : Prop :=
  match e with
  | XBuf => True
  | XAlert d => In d raised_alerts
  | XQuic code ft =>
      (code = EC_CRYPTO_ERROR + AD_missing_extension /\ ft = FT_CRYPTO) \/
      (code = EC_PROTOCOL_VIOLATION /\ ft = FT_CRYPTO) \/
      (code = o_tp_code o /\ ft = o_tp_ft o /\ code <> 0)
  | XOther _ => False
  end.

(* ... and handle_message as a whole *)
Definition good_mexn (orcs : list orc) (e : texn) : Prop :=
  match e with
  | XBuf => False
  | XAlert d => In d raised_alerts
  | XQuic code ft =>
      (code = EC_CRYPTO_ERROR + AD_missing_extension /\ ft = FT_CRYPTO) \/
      (code = EC_PROTOCOL_VIOLATION /\ ft = FT_CRYPTO) \/
      (exists o, In o orcs /\ code = o_tp_code o /\ ft = o_tp_ft o /\ code <> 0)
  | XOther _ => False
  end.

(* every advertised signature algorithm is Ed25519, Ed448 or a key of SIGNATURE_ALGORITHMS *)
Definition wf_cfg (g : tcfg) : Prop :=
  forallb (fun a => (a =? SA_ED25519) || (a =? SA_ED448) || zin a SIGNATURE_ALGORITHMS_keys) (g_sig_algs g) = true.

(* what the handlers establish about the attributes later handlers dereference *)
Definition wf_ctx (c : tctx) : Prop :=
  match t_state c with
  | CLIENT_HANDSHAKE_START => False        (* no message is ever dispatched in this state: see wf0 *)
  | CLIENT_EXPECT_SERVER_HELLO => t_kproxy c = true /\ t_gen c = 1
  | CLIENT_EXPECT_ENCRYPTED_EXTENSIONS => t_gen c = 2
  | CLIENT_EXPECT_CERTIFICATE_REQUEST_OR_CERTIFICATE => t_gen c = 2
  | CLIENT_EXPECT_CERTIFICATE => t_gen c = 2
  | CLIENT_EXPECT_CERTIFICATE_VERIFY => t_gen c = 2 /\ t_peer_cert c = true
  | CLIENT_EXPECT_FINISHED => t_gen c = 2
  | CLIENT_POST_HANDSHAKE => t_gen c = 3
  | SERVER_EXPECT_CLIENT_HELLO => True
  | SERVER_EXPECT_CERTIFICATE => t_gen c = 3
  | SERVER_EXPECT_CERTIFICATE_VERIFY => t_gen c = 3 /\ t_peer_cert c = true
  | SERVER_EXPECT_FINISHED => t_gen c = 3
  | SERVER_POST_HANDSHAKE => t_gen c = 3
  end.

Definition init_client : tctx := mkCtx CLIENT_HANDSHAKE_START [] false None false (-1) false.
Definition init_server : tctx := mkCtx SERVER_EXPECT_CLIENT_HELLO [] false None false (-1) false.

(* states handle_message may be called in: a fresh client (its first call only sends the ClientHello) or wf_ctx *)
Definition wf0 (c : tctx) : Prop := t_state c = CLIENT_HANDSHAKE_START \/ wf_ctx c.

Lemma wf_init_client : wf0 init_client. Proof. left. reflexivity. Qed.
Lemma wf_init_server : wf0 init_server. Proof. right. exact I. Qed.

Lemma wf_set_buf c b : wf_ctx c -> wf_ctx (set_buf c b).
Proof. unfold wf_ctx, set_buf. cbn [t_state t_gen t_kproxy t_peer_cert]. auto. Qed.

(* ---- handler results ---- *)
Definition lgood (o : orc) (c : tctx) (msg : list Z) (r : lres) : Prop :=
  match r with
  | LOk c' rest => wf_ctx c' /\ t_buf c' = t_buf c /\ exact_rest msg rest
  | LExn e => good_exn o e
  end.

Ltac alert_in := solve [cbn [lgood good_exn]; unfold raised_alerts; cbn [In]; auto 12
                       | vm_compute; auto 12].

Lemma lgood_parsed {A} o c msg (r : Res (A * list Z)) (k : A -> list Z -> lres) :
  pres r -> (forall v rest, r = Ok (v, rest) -> lgood o c msg (k v rest)) -> lgood o c msg (parsed r k).
Proof.
  intros Hp Hk. unfold parsed. destruct r as [[v rest]|e].
  - apply Hk. reflexivity.
  - cbn [pres] in Hp. unfold exn_of_kind.
    destruct Hp as [-> | [-> | ->]]; vm_compute; auto 12.
Qed.

Lemma lgood_need o c msg k :
  0 <= t_gen c -> lgood o c msg k -> lgood o c msg (need_schedule c k).
Proof. intros Hg Hk. unfold need_schedule. destruct (t_gen c <? 0) eqn:E; [lia|exact Hk]. Qed.

(* ---- the dispatch table, read backwards (breaks when the generated table changes) ---- *)
Lemma dispatch_handler s t h : dispatch s t = DHandler h ->
  match h with
  | H_client_handle_hello => s = CLIENT_EXPECT_SERVER_HELLO /\ t = 2
  | H_client_handle_encrypted_extensions => s = CLIENT_EXPECT_ENCRYPTED_EXTENSIONS /\ t = 8
  | H_client_handle_certificate_request => s = CLIENT_EXPECT_CERTIFICATE_REQUEST_OR_CERTIFICATE /\ t = 13
  | H_client_handle_certificate =>
      (s = CLIENT_EXPECT_CERTIFICATE_REQUEST_OR_CERTIFICATE \/ s = CLIENT_EXPECT_CERTIFICATE) /\ t = 11
  | H_client_handle_certificate_verify => s = CLIENT_EXPECT_CERTIFICATE_VERIFY /\ t = 15
  | H_client_handle_finished => s = CLIENT_EXPECT_FINISHED /\ t = 20
  | H_client_handle_new_session_ticket => s = CLIENT_POST_HANDSHAKE /\ t = 4
  | H_server_handle_hello => s = SERVER_EXPECT_CLIENT_HELLO /\ t = 1
  | H_server_handle_certificate => s = SERVER_EXPECT_CERTIFICATE /\ t = 11
  | H_server_handle_certificate_verify => s = SERVER_EXPECT_CERTIFICATE_VERIFY /\ t = 15
  | H_server_handle_finished => s = SERVER_EXPECT_FINISHED /\ t = 20
  | H_client_send_hello => False
  end.
Proof.
  destruct s; unfold dispatch; cbn [dispatch_row lookup_disp];
    repeat match goal with |- context [if ?t0 =? ?k then _ else _] => destruct (t0 =? k) eqn:? end;
    intros H; inversion H; subst; repeat split; auto; lia.
Qed.

(* ---- shared checks ---- *)
Lemma zin_forallb f a l : forallb f l = true -> zin a l = true -> f a = true.
Proof.
  intros Hf Hin. unfold zin in Hin. apply existsb_exists in Hin. destruct Hin as (x & Hx & E).
  rewrite forallb_forall in Hf. assert (a = x) by lia. subst x. auto.
Qed.

Lemma check_certificate_verify_good g c o alg e :
  wf_cfg g -> t_peer_cert c = true -> check_certificate_verify g c o alg = Some e -> good_exn o e.
Proof.
  intros Hg Hpc. unfold check_certificate_verify. rewrite Hpc. cbn [negb].
  destruct (zin alg (g_sig_algs g)) eqn:Ein; cbn [negb]; [|intros H; injection H as <-; alert_in].
  pose proof (zin_forallb _ _ _ Hg Ein) as Hk. cbn beta in Hk.
  destruct (o_pubkey o =? 0); [intros H; injection H as <-; alert_in|].
  destruct (alg =? SA_ED25519) eqn:E1.
  { destruct (o_pubkey o =? 1); [destruct (o_sig o)|]; intros H; try discriminate; injection H as <-; alert_in. }
  destruct (alg =? SA_ED448) eqn:E2.
  { destruct (o_pubkey o =? 2); [destruct (o_sig o)|]; intros H; try discriminate; injection H as <-; alert_in. }
  cbn [orb] in Hk. rewrite Hk. cbn [negb].
  destruct (if zin alg SIGNATURE_ALGORITHMS_ec then o_pubkey o =? 3 else o_pubkey o =? 4); cbn [negb];
    [destruct (o_sig o)|]; intros H; try discriminate; injection H as <-; alert_in.
Qed.

Lemma verify_certificate_good o e : verify_certificate true o = Some e -> good_exn o e.
Proof.
  unfold verify_certificate.
  repeat match goal with |- context [if ?b then _ else _] => destruct b end;
    intros H; try discriminate; injection H as <-; alert_in.
Qed.

Lemma set_peer_certificate_good o certs e : set_peer_certificate true o certs = Some e -> good_exn o e.
Proof.
  unfold set_peer_certificate. destruct certs; [|destruct (o_load o =? 0); [|destruct (o_load o =? 2)]];
    intros H; try discriminate; injection H as <-; alert_in.
Qed.

Lemma alpn_handler_good g o other e : alpn_handler g o other = Some e -> good_exn o e.
Proof.
  unfold alpn_handler. destruct (negb (g_alpn_cb g)); [discriminate|].
  match goal with |- context [negb (existsb ?f other)] => destruct (negb (existsb f other)) end.
  - intros H; injection H as <-. cbn [good_exn]. auto.
  - destruct (o_tp_code o =? 0) eqn:E; [discriminate|]. intros H; injection H as <-.
    cbn [good_exn]. right. right. repeat split. lia.
Qed.

Lemma client_exchange_good g o' ks o e : client_exchange g o' ks = Some e -> good_exn o e.
Proof.
  unfold client_exchange.
  repeat match goal with |- context [if ?b then _ else _] => destruct b end;
    intros H; try discriminate; injection H as <-; alert_in.
Qed.

Lemma server_exchange_good o kss : forall os e, server_exchange os kss = Some e -> good_exn o e.
Proof.
  induction kss as [|ks r IH]; intros os e; cbn [server_exchange].
  - intros H; injection H as <-; alert_in.
  - destruct (negb (known_group (fst ks))); [apply IH|].
    destruct ((hd 0 os =? 1) || (hd 0 os =? 2)); intros H; try discriminate; injection H as <-; alert_in.
Qed.

(* ---- the eleven handlers ---- *)
Section Handlers.
Variable g : tcfg.
Variable o : orc.
Hypothesis Hg : wf_cfg g.

Lemma client_handle_hello_ok c msg :
  head_is 2 msg -> t_state c = CLIENT_EXPECT_SERVER_HELLO -> wf_ctx c ->
  lgood o c msg (client_handle_hello g c o msg).
Proof.
  intros Hh Hs Hw. unfold wf_ctx in Hw. rewrite Hs in Hw. destruct Hw as [Hkp Hgen].
  unfold client_handle_hello. apply lgood_parsed; [apply pres_pull_server_hello; exact Hh|].
  intros h rest E. apply pull_server_hello_exact in E.
  destruct (negotiate (g_cipher_suites g) (Some [sh_cipher_suite h])) as [cipher|] eqn:En; [|alert_in].
  destruct (negb (zin (sh_compression h) default_legacy_compression_methods)); [alert_in|].
  destruct (negb _); [alert_in|].
  assert (Hc : zin cipher (g_cipher_suites g) = true).
  { unfold negotiate in En. apply find_some in En. destruct En as [Hin _].
    unfold zin. apply existsb_exists. exists cipher. split; [exact Hin|lia]. }
  rewrite Hkp, Hc. cbn [negb].
  destruct (sh_psk h) as [idx|].
  - destruct (t_kpsk c) as [suite|]; [|alert_in].
    destruct (negb (idx =? 0) || negb (cipher =? suite)); [alert_in|].
    destruct (sh_key_share h) as [ks|]; [|alert_in].
    destruct (client_exchange g (hd 0 (o_share o)) ks) as [e|] eqn:Ee.
    + cbn [lgood]. eapply client_exchange_good; eauto.
    + cbn [lgood]. unfold wf_ctx. cbn [t_state t_gen t_buf]. repeat split; auto; lia.
  - destruct (sh_key_share h) as [ks|]; [|alert_in].
    destruct (client_exchange g (hd 0 (o_share o)) ks) as [e|] eqn:Ee.
    + cbn [lgood]. eapply client_exchange_good; eauto.
    + cbn [lgood]. unfold wf_ctx. cbn [t_state t_gen t_buf]. repeat split; auto; lia.
Qed.

Lemma client_handle_encrypted_extensions_ok c msg :
  head_is 8 msg -> t_state c = CLIENT_EXPECT_ENCRYPTED_EXTENSIONS -> wf_ctx c ->
  lgood o c msg (client_handle_encrypted_extensions g c o msg).
Proof.
  intros Hh Hs Hw. unfold wf_ctx in Hw. rewrite Hs in Hw.
  unfold client_handle_encrypted_extensions. apply lgood_parsed; [apply pres_pull_encrypted_extensions; exact Hh|].
  intros other rest E. apply pull_encrypted_extensions_exact in E.
  destruct (alpn_handler g o other) as [e|] eqn:Ea; [cbn [lgood]; eapply alpn_handler_good; eauto|].
  apply lgood_need; [lia|]. cbn [lgood]. unfold wf_ctx, set_state. cbn [t_state t_gen t_buf].
  destruct (t_resumed c); repeat split; auto.
Qed.

Lemma client_handle_certificate_request_ok c msg :
  head_is 13 msg -> t_state c = CLIENT_EXPECT_CERTIFICATE_REQUEST_OR_CERTIFICATE -> wf_ctx c ->
  lgood o c msg (client_handle_certificate_request g c o msg).
Proof.
  intros Hh Hs Hw. unfold wf_ctx in Hw. rewrite Hs in Hw.
  unfold client_handle_certificate_request. apply lgood_parsed; [apply pres_pull_certificate_request; exact Hh|].
  intros v rest E. apply pull_certificate_request_exact in E.
  apply lgood_need; [lia|]. cbn [lgood]. unfold wf_ctx, set_state. cbn [t_state t_gen t_buf]. auto.
Qed.

Lemma client_handle_certificate_ok c msg :
  head_is 11 msg ->
  t_state c = CLIENT_EXPECT_CERTIFICATE_REQUEST_OR_CERTIFICATE \/ t_state c = CLIENT_EXPECT_CERTIFICATE -> wf_ctx c ->
  lgood o c msg (client_handle_certificate true g c o msg).
Proof.
  intros Hh Hs Hw. assert (Hgen : t_gen c = 2).
  { unfold wf_ctx in Hw. destruct Hs as [Hs|Hs]; rewrite Hs in Hw; exact Hw. }
  unfold client_handle_certificate. apply lgood_parsed; [apply pres_pull_certificate; exact Hh|].
  intros certs rest E. apply pull_certificate_exact in E.
  apply lgood_need; [lia|].
  destruct (set_peer_certificate true o certs) as [e|] eqn:Es; [cbn [lgood]; eapply set_peer_certificate_good; eauto|].
  cbn [lgood]. unfold wf_ctx, set_state, set_peer_cert. cbn [t_state t_gen t_buf t_peer_cert]. auto.
Qed.

Lemma client_handle_certificate_verify_ok c msg :
  head_is 15 msg -> t_state c = CLIENT_EXPECT_CERTIFICATE_VERIFY -> wf_ctx c ->
  lgood o c msg (client_handle_certificate_verify true g c o msg).
Proof.
  intros Hh Hs Hw. unfold wf_ctx in Hw. rewrite Hs in Hw. destruct Hw as [Hgen Hpc].
  unfold client_handle_certificate_verify. apply lgood_parsed; [apply pres_pull_certificate_verify; exact Hh|].
  intros v rest E. apply pull_certificate_verify_exact in E.
  destruct (check_certificate_verify g c o (fst v)) as [e|] eqn:Ec;
    [cbn [lgood]; eapply check_certificate_verify_good; eauto|].
  destruct (if g_verify g then verify_certificate true o else None) as [e|] eqn:Ev.
  { cbn [lgood]. destruct (g_verify g); [|discriminate]. apply verify_certificate_good; exact Ev. }
  apply lgood_need; [lia|]. cbn [lgood]. unfold wf_ctx, set_state. cbn [t_state t_gen t_buf]. auto.
Qed.

Lemma client_handle_finished_ok c msg :
  head_is 20 msg -> t_state c = CLIENT_EXPECT_FINISHED -> wf_ctx c ->
  lgood o c msg (client_handle_finished g c o msg).
Proof.
  intros Hh Hs Hw. unfold wf_ctx in Hw. rewrite Hs in Hw.
  unfold client_handle_finished. apply lgood_parsed; [apply pres_pull_finished; exact Hh|].
  intros v rest E. apply pull_finished_exact in E.
  apply lgood_need; [lia|].
  destruct (negb (o_mac o)); [alert_in|].
  destruct (t_gen c =? 2) eqn:E2; [|lia]. cbn [negb lgood].
  unfold wf_ctx, set_state, set_gen. cbn [t_state t_gen t_buf]. auto.
Qed.

Lemma client_handle_new_session_ticket_ok c msg :
  head_is 4 msg -> t_state c = CLIENT_POST_HANDSHAKE -> wf_ctx c ->
  lgood o c msg (client_handle_new_session_ticket g c o msg).
Proof.
  intros Hh Hs Hw. pose proof Hw as Hw'. unfold wf_ctx in Hw. rewrite Hs in Hw.
  unfold client_handle_new_session_ticket. apply lgood_parsed; [apply pres_pull_new_session_ticket; exact Hh|].
  intros med rest E. apply pull_new_session_ticket_exact in E.
  destruct (negb (g_ticket_cb g)); [cbn [lgood]; auto|].
  apply lgood_need; [lia|].
  destruct med as [v|]; [destruct (negb (v =? MAX_EARLY_DATA))|]; cbn [lgood good_exn]; auto.
Qed.

Lemma server_handle_hello_ok c msg :
  head_is 1 msg -> t_state c = SERVER_EXPECT_CLIENT_HELLO -> wf_ctx c ->
  lgood o c msg (server_handle_hello g c o msg).
Proof.
  intros Hh Hs Hw.
  unfold server_handle_hello. apply lgood_parsed; [apply pres_pull_client_hello; exact Hh|].
  intros h rest E. apply pull_client_hello_exact in E.
  destruct (negotiate (g_cipher_suites g) (Some (ch_cipher_suites h))) as [cipher|]; [|alert_in].
  destruct (negotiate default_legacy_compression_methods (Some (ch_compression h))); [|alert_in].
  destruct (negotiate (g_key_sigs g) (ch_sigalgs h)); [|alert_in].
  destruct (negotiate default_supported_versions (ch_versions h)); [|alert_in].
  match goal with |- context [if ?b then LExn (XAlert AD_handshake_failure) else _] => destruct b end; [alert_in|].
  destruct (alpn_handler g o (ch_other h)) as [e|] eqn:Ea; [cbn [lgood]; eapply alpn_handler_good; eauto|].
  match goal with |- context [if ?b then LExn XBuf else _] => destruct b end; [exact I|].
  match goal with |- context [if ?b then LExn (XAlert AD_handshake_failure) else _] => destruct b end; [alert_in|].
  destruct (server_exchange _ _) as [e|] eqn:Ee; [cbn [lgood]; eapply server_exchange_good; eauto|].
  cbn [lgood]. unfold wf_ctx. cbn [t_state t_gen t_buf]. destruct (g_reqcert g); auto.
Qed.

Lemma server_handle_certificate_ok c msg :
  head_is 11 msg -> t_state c = SERVER_EXPECT_CERTIFICATE -> wf_ctx c ->
  lgood o c msg (server_handle_certificate true g c o msg).
Proof.
  intros Hh Hs Hw. unfold wf_ctx in Hw. rewrite Hs in Hw.
  unfold server_handle_certificate. apply lgood_parsed; [apply pres_pull_certificate; exact Hh|].
  intros certs rest E. apply pull_certificate_exact in E.
  apply lgood_need; [lia|].
  destruct certs as [|d r].
  - cbn [lgood]. unfold wf_ctx, set_state. cbn [t_state t_gen t_buf]. auto.
  - destruct (set_peer_certificate true o (d :: r)) as [e|] eqn:Es; [cbn [lgood]; eapply set_peer_certificate_good; eauto|].
    cbn [lgood]. unfold wf_ctx, set_state, set_peer_cert. cbn [t_state t_gen t_buf t_peer_cert]. auto.
Qed.

Lemma server_handle_certificate_verify_ok c msg :
  head_is 15 msg -> t_state c = SERVER_EXPECT_CERTIFICATE_VERIFY -> wf_ctx c ->
  lgood o c msg (server_handle_certificate_verify g c o msg).
Proof.
  intros Hh Hs Hw. unfold wf_ctx in Hw. rewrite Hs in Hw. destruct Hw as [Hgen Hpc].
  unfold server_handle_certificate_verify. apply lgood_parsed; [apply pres_pull_certificate_verify; exact Hh|].
  intros v rest E. apply pull_certificate_verify_exact in E.
  destruct (check_certificate_verify g c o (fst v)) as [e|] eqn:Ec;
    [cbn [lgood]; eapply check_certificate_verify_good; eauto|].
  apply lgood_need; [lia|]. cbn [lgood]. unfold wf_ctx, set_state. cbn [t_state t_gen t_buf]. auto.
Qed.

Lemma server_handle_finished_ok c msg :
  head_is 20 msg -> t_state c = SERVER_EXPECT_FINISHED -> wf_ctx c ->
  lgood o c msg (server_handle_finished g c o msg).
Proof.
  intros Hh Hs Hw. unfold wf_ctx in Hw. rewrite Hs in Hw.
  unfold server_handle_finished. apply lgood_parsed; [apply pres_pull_finished; exact Hh|].
  intros v rest E. apply pull_finished_exact in E.
  destruct (negb (o_mac o)); [alert_in|].
  apply lgood_need; [lia|]. cbn [lgood]. unfold wf_ctx, set_state. cbn [t_state t_gen t_buf]. auto.
Qed.

(* every handler the generated table can dispatch *)
Theorem handlers_tls_total c t h msg :
  dispatch (t_state c) t = DHandler h -> head_is t msg -> wf_ctx c ->
  lgood o c msg (run_tls_handler true h g c o msg).
Proof.
  intros Hd Hh Hw. apply dispatch_handler in Hd.
  destruct h; cbn [run_tls_handler]; try (destruct Hd as [Hs ->]).
  - apply client_handle_hello_ok; auto.
  - apply client_handle_encrypted_extensions_ok; auto.
  - apply client_handle_certificate_request_ok; auto.
  - apply client_handle_certificate_ok; auto.
  - apply client_handle_certificate_verify_ok; auto.
  - apply client_handle_finished_ok; auto.
  - apply client_handle_new_session_ticket_ok; auto.
  - apply server_handle_hello_ok; auto.
  - apply server_handle_certificate_ok; auto.
  - apply server_handle_certificate_verify_ok; auto.
  - apply server_handle_finished_ok; auto.
  - contradiction.
Qed.

(* _handle_reassembled_message on a message cut out of the receive buffer *)
Lemma handle_reassembled_ok c t msg :
  wf_ctx c -> head_is t msg -> (forall rest, exact_rest msg rest -> rest = []) ->
  match handle_reassembled true g c o t msg with
  | MOk c' => wf_ctx c' /\ t_buf c' = t_buf c
  | MExn e => good_exn o e
  end.
Proof.
  intros Hw Hh Hcut. unfold handle_reassembled.
  destruct (dispatch (t_state c) t) as [h| |] eqn:Hd.
  - pose proof (handlers_tls_total c t h msg Hd Hh Hw) as H.
    destruct (run_tls_handler true h g c o msg) as [c' rest|e]; cbn [lgood] in H; [|exact H].
    destruct H as (Hw' & Hb & Hx). rewrite (Hcut rest Hx). auto.
  - alert_in.
  - (* only CLIENT_HANDSHAKE_START falls through to `assert input_buf.eof()`; it is not a wf_ctx state *)
    exfalso. unfold wf_ctx in Hw. destruct (t_state c); try contradiction;
      unfold dispatch in Hd; cbn [dispatch_row lookup_disp] in Hd;
      repeat match type of Hd with context [if ?t0 =? ?k then _ else _] => destruct (t0 =? k) end; discriminate.
Qed.
End Handlers.

(* ---- the reassembly loop ---- *)
Lemma good_mexn_tl o orcs e : good_mexn orcs e -> good_mexn (o :: orcs) e.
Proof.
  destruct e; cbn [good_mexn]; auto. intros [H|[H|(x & Hi & H)]]; auto.
  right. right. exists x. split; [right; exact Hi|exact H].
Qed.

Lemma good_mexn_tl' orcs e : good_mexn (tl orcs) e -> good_mexn orcs e.
Proof. destruct orcs as [|o r]; cbn [tl]; [auto|apply good_mexn_tl]. Qed.

Lemma head_is_ztake n t r : head_is t (ztake n (t :: r)).
Proof. unfold ztake. destruct (Z.to_nat n); cbn [firstn head_is]; auto. Qed.

Theorem reassemble_total g (Hg : wf_cfg g) :
  forall fuel c orcs buf, wf_ctx c ->
  match reassemble fuel true g c orcs buf with
  | MOk c' => wf_ctx c'
  | MExn e => good_mexn orcs e
  end.
Proof.
  induction fuel as [|fuel IH]; intros c orcs buf Hw; cbn [reassemble].
  - apply wf_set_buf. exact Hw.
  - destruct buf as [|t [|l1 [|l2 [|l3 r]]]]; try (apply wf_set_buf; exact Hw).
    remember (4 + be_dec 0 [l1; l2; l3]) as mlen eqn:Em.
    destruct (mlen >? MAX_HANDSHAKE_MESSAGE_SIZE); [cbn [good_mexn]; unfold raised_alerts; cbn [In]; auto 12|].
    destruct (Zlen (t :: l1 :: l2 :: l3 :: r) <? mlen) eqn:El; [apply wf_set_buf; exact Hw|].
    pose proof (handle_reassembled_ok g (hd orc0 orcs) Hg
                  (set_buf c (zdrop mlen (t :: l1 :: l2 :: l3 :: r))) t
                  (ztake mlen (t :: l1 :: l2 :: l3 :: r))
                  (wf_set_buf _ _ Hw) (head_is_ztake _ _ _)) as H.
    assert (Hcut : forall rest, exact_rest (ztake mlen (t :: l1 :: l2 :: l3 :: r)) rest -> rest = []).
    { intros rest Hx. subst mlen. eapply exact_rest_cut; [reflexivity| |exact Hx]. lia. }
    specialize (H Hcut).
    destruct (handle_reassembled true g _ (hd orc0 orcs) t _) as [c'|e].
    + destruct H as [Hw' _]. specialize (IH c' (tl orcs) (zdrop mlen (t :: l1 :: l2 :: l3 :: r)) Hw').
      destruct (reassemble fuel true g c' (tl orcs) _) as [c''|e]; [exact IH|apply good_mexn_tl'; exact IH].
    + destruct e as [|d|code ft|k]; cbn [good_exn] in H.
      * cbn [good_mexn]. unfold raised_alerts. cbn [In]. auto 12.
      * exact H.
      * cbn [good_mexn]. destruct H as [H|[H|(H1 & H2 & H3)]]; auto.
        right. right. exists (hd orc0 orcs). split; [|auto].
        destruct orcs as [|o1 r1]; cbn [hd] in *; [cbn in H1; lia|left; reflexivity].
      * contradiction.
Qed.

(* ---- Context.handle_message ---- *)
Theorem handle_message_total g c orcs data :
  wf_cfg g -> wf0 c ->
  match handle_message true g c orcs data with
  | MOk c' => wf_ctx c'
  | MExn e => good_mexn orcs e
  end.
Proof.
  intros Hg [Hs|Hw]; unfold handle_message.
  - rewrite Hs. unfold wf_ctx, client_send_hello. cbn [t_state t_kproxy t_gen]. auto.
  - assert (Hn : t_state c <> CLIENT_HANDSHAKE_START).
    { intros E. unfold wf_ctx in Hw. rewrite E in Hw. exact Hw. }
    pose proof (reassemble_total g Hg (S (length (t_buf c ++ data))) c orcs (t_buf c ++ data) Hw) as H.
    destruct (t_state c); try exact H. contradiction.
Qed.

(* any number of handle_message calls (one per delivered CRYPTO chunk), each with its own oracle answers *)
Fixpoint run (patched : bool) (g : tcfg) (c : tctx) (chunks : list (list orc * list Z)) : mres :=
  match chunks with
  | [] => MOk c
  | (orcs, data) :: r =>
      match handle_message patched g c orcs data with
      | MOk c' => run patched g c' r
      | MExn e => MExn e
      end
  end.

Definition never_escapes (e : texn) : Prop :=
  match e with
  | XAlert d => In d raised_alerts
  | XQuic _ _ => True
  | XBuf | XOther _ => False
  end.

Lemma good_mexn_never orcs e : good_mexn orcs e -> never_escapes e.
Proof. destruct e; cbn [good_mexn never_escapes]; auto. Qed.

Theorem run_total g (Hg : wf_cfg g) : forall chunks c, wf0 c ->
  match run true g c chunks with
  | MOk c' => wf0 c'
  | MExn e => never_escapes e
  end.
Proof.
  induction chunks as [|[orcs data] r IH]; intros c Hw; cbn [run]; [exact Hw|].
  pose proof (handle_message_total g c orcs data Hg Hw) as H.
  destruct (handle_message true g c orcs data) as [c'|e].
  - apply IH. right. exact H.
  - eapply good_mexn_never; eauto.
Qed.

(* ---- lifted through _handle_crypto_frame's `except tls.Alert` ---- *)
Theorem crypto_deliver_total g c orcs ft data :
  wf_cfg g -> wf0 c ->
  match crypto_deliver true g c orcs ft data with
  | CROk c' => wf_ctx c'
  | CRQuic code ft' =>
      (exists d, In d raised_alerts /\ code = EC_CRYPTO_ERROR + d /\ ft' = ft) \/
      (code = EC_CRYPTO_ERROR + AD_missing_extension /\ ft' = FT_CRYPTO) \/
      (code = EC_PROTOCOL_VIOLATION /\ ft' = FT_CRYPTO) \/
      (exists o, In o orcs /\ code = o_tp_code o /\ ft' = o_tp_ft o /\ code <> 0)
  | CRBuf => False
  | CRExn _ => False
  end.
Proof.
  intros Hg Hw. unfold crypto_deliver.
  pose proof (handle_message_total g c orcs data Hg Hw) as H.
  destruct (handle_message true g c orcs data) as [c'|[|d|code ft'|k]]; cbn [good_mexn] in H; auto.
  left. exists d. auto.
Qed.

(* ---- the hypotheses are satisfiable: the default configuration of a client / server Context ---- *)
Definition cfg_default_client : tcfg :=
  mkCfg default_cipher_suites (default_signature_algorithms ++ optional_signature_algorithms) None []
        true false true false true true true default_supported_groups None.
Definition cfg_default_server : tcfg :=
  mkCfg default_cipher_suites (default_signature_algorithms ++ optional_signature_algorithms) None
        [SA_RSA_PSS_RSAE_SHA256; SA_RSA_PKCS1_SHA256; SA_RSA_PSS_RSAE_SHA384; SA_RSA_PKCS1_SHA384; SA_RSA_PKCS1_SHA1]
        false false true true true false false [] None.

Example wf_cfg_default_client : wf_cfg cfg_default_client. Proof. vm_compute. reflexivity. Qed.
Example wf_cfg_default_server : wf_cfg cfg_default_server. Proof. vm_compute. reflexivity. Qed.

(* ---- the tree WITHOUT docs/C05-fix-7.patch: exceptions of verify_certificate escape ---- *)
(* a client waiting for CertificateVerify; the message names ecdsa_secp256r1_sha256 and carries 4 signature bytes *)
Definition witness_ctx : tctx := mkCtx CLIENT_EXPECT_CERTIFICATE_VERIFY [] false None false 2 true.
Definition witness_cv : list Z := [15; 0; 0; 8; 4; 3; 0; 4; 1; 2; 3; 4].
(* oracle: EC certificate key, signature verifies, then service_identity reads certificate.extensions:
   4 = the subjectAltName extension does not parse (ValueError), 5 = a dNSName such as "*.com" or "1.2.3.4"
   (CertificateError, raised a second time inside verify_certificate's own except handler) *)
Definition witness_orc (v : Z) : orc := mkOrc [] 0 0 (-1) true 1 3 true v true.

Theorem handle_message_refuted :
  wf_cfg cfg_default_client /\ wf0 witness_ctx /\
  handle_message false cfg_default_client witness_ctx [witness_orc 4] witness_cv = MExn (XOther TX_ValueError) /\
  handle_message false cfg_default_client witness_ctx [witness_orc 5] witness_cv = MExn (XOther TX_CertificateError) /\
  handle_message true cfg_default_client witness_ctx [witness_orc 4] witness_cv = MExn (XAlert AD_bad_certificate) /\
  handle_message true cfg_default_client witness_ctx [witness_orc 5] witness_cv = MExn (XAlert AD_bad_certificate) /\
  crypto_deliver false cfg_default_client witness_ctx [witness_orc 4] FT_CRYPTO witness_cv = CRExn TX_ValueError.
Proof.
  split; [exact wf_cfg_default_client|]. split; [right; vm_compute; auto|].
  repeat split; vm_compute; reflexivity.
Qed.

(* a complete, well-formed handshake flight is accepted by the model (the hypotheses are not vacuous and the
   Ok branch is inhabited): EncryptedExtensions with QUIC transport parameters for a client in state 2 *)
Example ee_accepted :
  handle_message true cfg_default_client (mkCtx CLIENT_EXPECT_ENCRYPTED_EXTENSIONS [] false None false 2 false)
    [orc0] [8; 0; 0; 9; 0; 7; 0; 57; 0; 3; 1; 2; 3]
  = MOk (mkCtx CLIENT_EXPECT_CERTIFICATE_REQUEST_OR_CERTIFICATE [] false None false 2 false).
Proof. vm_compute. reflexivity. Qed.

(* ---- sessions of receive_datagram calls: with the gate of 54d8ff0 nothing reaches the TLS engine once a close
   is pending, whatever state the failed handler left behind ---- *)
Theorem crypto_session_total g (Hg : wf_cfg g) after_exn : forall chunks c closing, wf0 c ->
  match crypto_session true true after_exn g c closing chunks with
  | NOk c' => wf0 c'
  | NClosing _ _ => True
  | NExn _ => False
  end.
Proof.
  induction chunks as [|[[orcs ft] data] r IH]; intros c closing Hw; cbn [crypto_session].
  - destruct closing as [[code cft]|]; auto.
  - destruct closing as [[code cft]|]; [exact I|].
    pose proof (crypto_deliver_total g c orcs ft data Hg Hw) as H.
    destruct (crypto_deliver true g c orcs ft data) as [c'|code ft'| |k]; try contradiction.
    + apply IH. right. exact H.
    + (* closing: every later chunk is dropped by the gate *)
      clear. generalize (after_exn c). induction r as [|[[o f] d] r IHr]; intros c0; cbn [crypto_session]; exact I.
Qed.

(* ... and WITHOUT the gate (the tree before 54d8ff0): finding T10.  A client waiting for the ServerHello gets one
   without key_share: AlertIllegalParameter, raised AFTER `self._key_schedule_proxy = None`; the connection has a
   close pending but still processes the next datagram, whose ServerHello reaches `None.select(...)`. *)
Definition sh_no_key_share : list Z :=
  [2; 0; 0; 46; 3; 3] ++ repeat 0 32 ++ [0; 19; 1; 0; 0; 6; 0; 43; 0; 2; 3; 4].
Definition t10_ctx : tctx := mkCtx CLIENT_EXPECT_SERVER_HELLO [] false None true 1 false.
(* what _client_handle_hello leaves behind when it raises after selecting the key schedule (tie: pre_fail cases) *)
Definition t10_after (c : tctx) : tctx := mkCtx (t_state c) [] (t_resumed c) None false (t_gen c) (t_peer_cert c).

Theorem crypto_session_refuted :
  wf_cfg cfg_default_client /\ wf0 t10_ctx /\
  crypto_session true false t10_after cfg_default_client t10_ctx None
    [([orc0], FT_CRYPTO, sh_no_key_share); ([orc0], FT_CRYPTO, sh_no_key_share)] = NExn TX_AttributeError /\
  crypto_session true true t10_after cfg_default_client t10_ctx None
    [([orc0], FT_CRYPTO, sh_no_key_share); ([orc0], FT_CRYPTO, sh_no_key_share)]
    = NClosing (EC_CRYPTO_ERROR + AD_illegal_parameter) FT_CRYPTO.
Proof.
  split; [exact wf_cfg_default_client|]. split; [right; vm_compute; auto|].
  split; vm_compute; reflexivity.
Qed.

(* ---- the tree WITHOUT docs/C05-fix-9.patch: finding T11.  A client waiting for the Certificate; the message holds one
   3-byte entry; oracle: x509.load_der_x509_certificate raises x509.InvalidVersion (not a ValueError). *)
Definition t11_ctx : tctx := mkCtx CLIENT_EXPECT_CERTIFICATE [] false None false 2 false.
Definition t11_cert : list Z := [11; 0; 0; 12; 0; 0; 0; 8; 0; 0; 3; 48; 1; 0; 0; 0].
Definition t11_orc : orc := mkOrc [] 0 0 (-1) true 2 1 true 0 true.

Theorem set_peer_certificate_refuted :
  wf0 t11_ctx /\
  handle_message false cfg_default_client t11_ctx [t11_orc] t11_cert = MExn (XOther TX_InvalidVersion) /\
  handle_message true cfg_default_client t11_ctx [t11_orc] t11_cert = MExn (XAlert AD_bad_certificate).
Proof. split; [right; vm_compute; auto|]. split; vm_compute; reflexivity. Qed.
