(* C14: unidirectional deliveries at connection level: the stream table (get_or_create / put_stream) and the resume pass.
   Ingredients: the resume pass as a function of the table alone (unb), it commutes with an update of another
   stream's entry, a delivery on a unidirectional stream does not look at the table. *)
From AQ Require Import lib.Base lib.Tok model.H3Parse proofs.H3Chunk proofs.H3Split proofs.H3Loop proofs.H3Recv proofs.H3Fin
  proofs.H3Uni proofs.H3Table.
From Coq Require Import ZifyBool.

(* ------------------------------------------------------------------ association-list updates *)
Lemma put_put_same : forall l a b, s_id a = s_id b -> put_stream a (put_stream b l) = put_stream a l.
Proof.
  induction l as [|x l IH]; intros a b H; cbn.
  - replace (s_id b =? s_id a) with true by lia. reflexivity.
  - destruct (s_id x =? s_id b) eqn:E; cbn.
    + replace (s_id b =? s_id a) with true by lia. replace (s_id x =? s_id a) with true by lia. reflexivity.
    + replace (s_id x =? s_id a) with false by lia. f_equal. apply IH. assumption.
Qed.

Lemma put_put_comm : forall l a b, s_id a <> s_id b ->
  find_stream (s_id a) l <> None -> find_stream (s_id b) l <> None ->
  put_stream a (put_stream b l) = put_stream b (put_stream a l).
Proof.
  induction l as [|x l IH]; intros a b H Ha Hb; cbn [find_stream] in *; [congruence|].
  cbn [put_stream].
  destruct (s_id x =? s_id b) eqn:Eb; destruct (s_id x =? s_id a) eqn:Ea; cbn [put_stream]; rewrite ?Ea, ?Eb.
  - lia.
  - replace (s_id b =? s_id a) with false by lia. reflexivity.
  - replace (s_id a =? s_id b) with false by lia. reflexivity.
  - f_equal. apply IH; assumption.
Qed.

Lemma find_put_some : forall l s x, find_stream x l <> None -> find_stream x (put_stream s l) <> None.
Proof.
  intros l s x H. destruct (Z.eq_dec x (s_id s)) as [->|N].
  - rewrite find_put_same. discriminate.
  - rewrite find_put_other by assumption. assumption.
Qed.

(* ------------------------------------------------------------------ the resume pass on the table *)
Inductive tres := TVal (evs : list event) (l : list hstream) | TErr (k : Z) (l : list hstream) | TExn (k : Z).

Section Conn.
Variable fx : fixes.
Variable O : oracle.

Fixpoint unb (cl : bool) (l : list hstream) (u : list Z) (evs : list event) : tres :=
  match u with
  | [] => TVal evs l
  | sid :: rest =>
      match find_stream sid l with
      | None => TExn X_UNBLOCK_KEY
      | Some s =>
          let t := if fx_pushblock fx then (match s_btype s with Some t => t | None => -1 end) else 1 in
          match handle_rp_frame fx O cl t None s (s_ended s && is_nil (s_buf s)) with
          | HBlocked _ => TExn X_UNBLOCK_BLOCKED
          | HErr k => TErr k l
          | HExn k => TExn k
          | HVal e s1 =>
              let s2 := set_btype (set_blocked s1 false) (if fx_pushblock fx then None else s_btype s1) in
              if negb (is_nil (s_buf s2)) then
                match rq_recv fx O cl s2 [] (s_ended s2) with
                | RVal e2 s3 => unb cl (put_stream s3 l) rest (evs ++ e ++ e2)
                | RErr k => TErr k l
                | RExn k => TExn k
                end
              else unb cl (put_stream s2 l) rest (evs ++ e)
          end
      end
  end.

Definition of_tres (c : conn) (r : tres) : rsd :=
  match r with
  | TVal e l => SVal e (set_streams c l)
  | TErr k l => SErr k (set_streams c l)
  | TExn k => SExn k
  end.

Lemma set_streams_same : forall c, set_streams c (c_streams c) = c.
Proof. destruct c; reflexivity. Qed.
Lemma set_streams_twice : forall c a b, set_streams (set_streams c a) b = set_streams c b.
Proof. destruct c; reflexivity. Qed.

(* unblock only reads is_client and the table, and only writes the table *)
Lemma unblock_unb : forall u c evs, unblock fx O c u evs = of_tres c (unb (c_client c) (c_streams c) u evs).
Proof.
  induction u as [|sid rest IH]; intros c evs; cbn [unblock unb of_tres].
  - rewrite set_streams_same. reflexivity.
  - destruct (find_stream sid (c_streams c)) as [s|]; [|reflexivity].
    match goal with |- match ?h with _ => _ end = _ => destruct h as [e s1|s1|k|k] end; cbn [of_tres];
      try reflexivity; [|rewrite set_streams_same; reflexivity].
    match goal with |- (if ?b then _ else _) = _ => destruct b end.
    + match goal with |- match ?h with _ => _ end = _ => destruct h as [e2 s3|k|k] end; cbn [of_tres];
        try reflexivity; [|rewrite set_streams_same; reflexivity].
      rewrite IH. cbn [c_client c_streams set_streams].
      replace (c_client (set_streams c (put_stream s3 (c_streams c)))) with (c_client c) by (destruct c; reflexivity).
      replace (c_streams (set_streams c (put_stream s3 (c_streams c)))) with (put_stream s3 (c_streams c)) by (destruct c; reflexivity).
      destruct (unb (c_client c) (put_stream s3 (c_streams c)) rest (evs ++ e ++ e2)); cbn [of_tres];
        rewrite ?set_streams_twice; reflexivity.
    + rewrite IH.
      match goal with |- of_tres _ (unb _ _ _ ?acc) = _ => set (A := acc) end.
      match goal with |- context [put_stream ?s2 (c_streams c)] => set (S2 := s2) end.
      replace (c_client (set_streams c (put_stream S2 (c_streams c)))) with (c_client c) by (destruct c; reflexivity).
      replace (c_streams (set_streams c (put_stream S2 (c_streams c)))) with (put_stream S2 (c_streams c)) by (destruct c; reflexivity).
      destruct (unb (c_client c) (put_stream S2 (c_streams c)) rest A); cbn [of_tres];
        rewrite ?set_streams_twice; reflexivity.
Qed.

Definition tmap (g : list hstream -> list hstream) (r : tres) : tres :=
  match r with TVal e l => TVal e (g l) | TErr k l => TErr k (g l) | TExn k => TExn k end.

(* the handler keeps the stream id *)
Lemma handle_id0 : forall cl t d s e,
  match handle_rp_frame fx O cl t d s e with
  | HVal _ s1 | HBlocked s1 => s_id s1 = s_id s
  | _ => True
  end.
Proof.
  intros cl t d s e. destruct s as [i bf cu se bl en hs cn ex pu sy bt bp]. destruct d as [d|];
  unfold handle_rp_frame, endmark, check_cl, set_ended, set_clen, set_expect, set_hstate, set_bpush;
  cbn [s_id s_buf s_cur s_session s_blocked s_ended s_hstate s_clen s_expect s_push s_stype s_btype s_bpush];
  repeat (brk; try match goal with |- context [o_resume ?a ?b] => destruct (o_resume a b) end); cbn; auto.
Qed.

Lemma handle_id : forall cl t d s e evs s1, handle_rp_frame fx O cl t d s e = HVal evs s1 -> s_id s1 = s_id s.
Proof. intros cl t d s e evs s1 H. pose proof (handle_id0 cl t d s e) as K. rewrite H in K. exact K. Qed.

Lemma handle_id_blocked : forall cl t d s e s1, handle_rp_frame fx O cl t d s e = HBlocked s1 -> s_id s1 = s_id s.
Proof. intros cl t d s e s1 H. pose proof (handle_id0 cl t d s e) as K. rewrite H in K. exact K. Qed.

Lemma rq_loop_id : forall f cl fin st b evs e st', rq_loop f fx O cl fin st b evs = RVal e st' -> s_id st' = s_id st.
Proof.
  induction f; intros cl fin st b evs e st' H.
  { cbn in H. inversion H; subst. destruct st; reflexivity. }
  rewrite (rq_loop_S fx O cl) in H.
  destruct (is_nil b); [inversion H; subst; destruct st; reflexivity|].
  destruct (hdr_of st b) as [[[t n] b2]|]; [|inversion H; subst; destruct st; reflexivity].
  destruct (is_none (s_cur st) && (t =? 65)); [inversion H; subst; destruct st; reflexivity|].
  unfold body in H.
  destruct (negb (t =? 0) && (Z.min n (Zlen b2) <? n)); [inversion H; subst; destruct st; reflexivity|].
  match type of H with (match handle_rp_frame ?a ?b ?c ?d ?e ?g ?h with _ => _ end) = _ =>
    destruct (handle_rp_frame a b c d e g h) as [e1 s1|s1|k|k] eqn:Hh end; try discriminate.
  - apply IHf in H. rewrite H. apply handle_id in Hh. rewrite Hh. destruct st; reflexivity.
  - inversion H; subst.
    assert (s_id s1 = s_id st) by (apply handle_id_blocked in Hh; rewrite Hh; destruct st; reflexivity).
    destruct s1; cbn in *; assumption.
Qed.

Lemma rq_recv_id : forall cl st d fin e st', rq_recv fx O cl st d fin = RVal e st' -> s_id st' = s_id st.
Proof.
  intros cl st d fin e st' H. unfold rq_recv in H.
  match type of H with (if ?c then _ else _) = _ => destruct c end; [inversion H; subst; destruct st; reflexivity|].
  match type of H with (match ?c with _ => _ end) = _ => destruct c end; [inversion H; subst; destruct st; reflexivity|].
  match type of H with (match ?c with _ => _ end) = _ => destruct c end; [inversion H; subst; destruct st; reflexivity|].
  match type of H with (if ?c then _ else _) = _ => destruct c end.
  { match type of H with (if ?c then _ else _) = _ => destruct c end; [|discriminate]. inversion H; subst; destruct st; reflexivity. }
  match type of H with (match ?c with _ => _ end) = _ => destruct c eqn:Hl end; try discriminate.
  apply rq_loop_id in Hl.
  match type of H with (if ?c then _ else _) = _ => destruct c end; [discriminate|]. inversion H; subst.
  rewrite Hl. destruct st; reflexivity.
Qed.

(* RESUME PASS vs. ANOTHER STREAM'S ENTRY: updating the entry of a stream that is not among the resumed ones, before or
   after the pass, is the same *)
Lemma unb_put_other : forall u cl l s evs,
  ~ In (s_id s) u -> find_stream (s_id s) l <> None ->
  unb cl (put_stream s l) u evs = tmap (put_stream s) (unb cl l u evs).
Proof.
  induction u as [|x rest IH]; intros cl l s evs Hn Hf; cbn [unb tmap]; [reflexivity|].
  assert (Hx : x <> s_id s) by (intros ->; apply Hn; left; reflexivity).
  assert (Hr : ~ In (s_id s) rest) by (intros H; apply Hn; right; assumption).
  rewrite find_put_other by assumption.
  destruct (find_stream x l) as [sx|] eqn:Ex; [|reflexivity].
  pose proof (find_id _ _ _ Ex) as Idx.
  match goal with |- match ?h with _ => _ end = _ => destruct h as [e s1|s1|k|k] eqn:Hh end; cbn [tmap]; try reflexivity.
  apply handle_id in Hh.
  match goal with |- (if ?b then _ else _) = _ => destruct b end.
  - match goal with |- match ?h with _ => _ end = _ => destruct h as [e2 s3|k|k] eqn:Hq end; cbn [tmap]; try reflexivity.
    apply rq_recv_id in Hq.
    assert (I3 : s_id s3 = x) by (rewrite Hq; destruct s1; cbn in *; congruence).
    rewrite (put_put_comm l s3 s); [| rewrite I3; lia | rewrite I3, Ex; discriminate | assumption].
    apply IH; [assumption|]. apply find_put_some. assumption.
  - match goal with |- unb cl (put_stream ?s2 _) _ _ = _ => set (S2 := s2) end.
    assert (I2 : s_id S2 = x) by (subst S2; destruct s1; cbn in *; congruence).
    rewrite (put_put_comm l S2 s); [| rewrite I2; lia | rewrite I2, Ex; discriminate | assumption].
    apply IH; [assumption|]. apply find_put_some. assumption.
Qed.

(* the entries of streams that are not resumed are left alone *)
Lemma unb_find_other : forall u cl l evs e l' x, ~ In x u -> unb cl l u evs = TVal e l' -> find_stream x l' = find_stream x l.
Proof.
  induction u as [|y rest IH]; intros cl l evs e l' x Hn H; cbn [unb] in H; [inversion H; reflexivity|].
  assert (Hx : x <> y) by (intros ->; apply Hn; left; reflexivity).
  assert (Hr : ~ In x rest) by (intros H'; apply Hn; right; assumption).
  destruct (find_stream y l) as [sy|] eqn:Ey; [|discriminate].
  pose proof (find_id _ _ _ Ey) as Idy.
  match type of H with match ?h with _ => _ end = _ => destruct h as [e1 s1|s1|k|k] eqn:Hh end; try discriminate.
  apply handle_id in Hh.
  match type of H with (if ?b then _ else _) = _ => destruct b end.
  - match type of H with match ?h with _ => _ end = _ => destruct h as [e2 s3|k|k] eqn:Hq end; try discriminate.
    apply rq_recv_id in Hq. apply IH with (x := x) in H; [|assumption]. rewrite H.
    apply find_put_other. rewrite Hq. destruct s1; cbn in *; lia.
  - apply IH with (x := x) in H; [|assumption]. rewrite H. apply find_put_other. destruct s1; cbn in *; lia.
Qed.

(* the accumulator of events is only prepended *)
Definition tprep (e0 : list event) (r : tres) : tres :=
  match r with TVal e l => TVal (e0 ++ e) l | x => x end.

Lemma unb_acc : forall u cl l evs, unb cl l u evs = tprep evs (unb cl l u []).
Proof.
  induction u as [|x rest IH]; intros cl l evs; cbn [unb tprep]; [rewrite app_nil_r; reflexivity|].
  destruct (find_stream x l) as [sx|]; [|reflexivity].
  match goal with |- match ?h with _ => _ end = _ => destruct h as [e s1|s1|k|k] end; cbn [tprep]; try reflexivity.
  match goal with |- (if ?b then _ else _) = _ => destruct b end.
  - match goal with |- match ?h with _ => _ end = _ => destruct h as [e2 s3|k|k] end; cbn [tprep]; try reflexivity.
    rewrite IH. rewrite (IH _ _ ([] ++ e ++ e2)). cbn [app].
    destruct (unb cl (put_stream s3 l) rest []); cbn [tprep]; try reflexivity. rewrite <- app_assoc. reflexivity.
  - rewrite IH. rewrite (IH _ _ ([] ++ e)). cbn [app].
    match goal with |- tprep _ ?r = _ => destruct r end; cbn [tprep]; try reflexivity. rewrite <- app_assoc. reflexivity.
Qed.


Lemma unb_app : forall u1 u2 cl l evs,
  unb cl l (u1 ++ u2) evs = match unb cl l u1 evs with TVal e l' => unb cl l' u2 e | r => r end.
Proof.
  induction u1 as [|x rest IH]; intros u2 cl l evs; cbn [app unb]; [reflexivity|].
  destruct (find_stream x l) as [sx|]; [|reflexivity].
  match goal with |- match ?h with _ => _ end = _ => destruct h as [e s1|s1|k|k] end; try reflexivity.
  match goal with |- (if ?b then _ else _) = _ => destruct b end; [|apply IH].
  match goal with |- match ?h with _ => _ end = _ => destruct h as [e2 s3|k|k] end; try reflexivity. apply IH.
Qed.

(* ------------------------------------------------------------------ a unidirectional delivery and the connection record *)
Definition umap (g : conn -> conn) (r : ufull) : ufull :=
  match r with UF e s c u => UF e s (g c) u | UFErr k c => UFErr k (g c) | UFExn k => UFExn k end.

Lemma hcf_ss : forall c l t d,
  handle_control_frame fx (set_streams c l) t d =
  match handle_control_frame fx c t d with Val c' => Val (set_streams c' l) | PErr k => PErr k | Exn k => Exn k end.
Proof.
  intros c l t d. destruct c as [cl dg dn st ct qd qe mp ss se]. unfold handle_control_frame, set_streams, set_settings, set_maxpush.
  cbn [c_client c_dgram c_done c_settings c_ctrl c_qdec c_qenc c_maxpush c_streams c_sent_end].
  destruct (negb (t =? 4) && is_none st); [reflexivity|].
  destruct (t =? 4).
  { destruct (negb (is_none st)); [reflexivity|]. destruct (parse_settings _ fx d []); try reflexivity.
    destruct (validate_settings dg a); reflexivity. }
  destruct (t =? 13).
  { destruct cl; [reflexivity|]. destruct (parse_max_push_id fx d); reflexivity. }
  destruct ((t =? 0) || (t =? 1) || (t =? 5) || (t =? 14)); reflexivity.
Qed.

Definition cmap (g : conn -> conn) (r : cres) : cres :=
  match r with CStop c b => CStop (g c) b | CErr k c => CErr k (g c) | CExn k => CExn k end.

Lemma ctrl_ss : forall f c l b, ctrl_loop fx f (set_streams c l) b = cmap (fun c' => set_streams c' l) (ctrl_loop fx f c b).
Proof.
  induction f; intros c l b; cbn [ctrl_loop cmap]; [reflexivity|].
  destruct (pull_frame b) as [[[ft fd] b']|]; [|reflexivity].
  rewrite hcf_ss. destruct (handle_control_frame fx c ft fd); cbn [cmap]; try reflexivity. apply IHf.
Qed.

Lemma hcf_frame : forall c t d c', handle_control_frame fx c t d = Val c' ->
  c_client c' = c_client c /\ c_streams c' = c_streams c.
Proof.
  intros c t d c'. destruct c as [cl dg dn st ct qd qe mp ss se]. unfold handle_control_frame, set_settings, set_maxpush.
  cbn [c_client c_dgram c_done c_settings c_ctrl c_qdec c_qenc c_maxpush c_streams c_sent_end].
  destruct (negb (t =? 4) && is_none st); [discriminate|].
  destruct (t =? 4).
  { destruct (negb (is_none st)); [discriminate|]. destruct (parse_settings _ fx d []); try discriminate.
    destruct (validate_settings dg a); [|discriminate]. intros H; inversion H; subst. split; reflexivity. }
  destruct (t =? 13).
  { destruct cl; [discriminate|]. destruct (parse_max_push_id fx d); try discriminate. intros H; inversion H; subst. split; reflexivity. }
  destruct ((t =? 0) || (t =? 1) || (t =? 5) || (t =? 14)); [discriminate|]. intros H; inversion H; subst. split; reflexivity.
Qed.

Lemma ctrl_frame : forall f c b c' r, ctrl_loop fx f c b = CStop c' r -> c_client c' = c_client c /\ c_streams c' = c_streams c.
Proof.
  induction f; intros c b c' r H; cbn [ctrl_loop] in H; [inversion H; split; reflexivity|].
  destruct (pull_frame b) as [[[ft fd] b']|]; [|inversion H; split; reflexivity].
  destruct (handle_control_frame fx c ft fd) as [c2| |] eqn:E; try discriminate.
  apply hcf_frame in E. apply IHf in H. destruct E, H. split; congruence.
Qed.

Lemma typed_ss : forall st c l b,
  typed_of st (set_streams c l) b =
  match typed_of st c b with
  | Some (inl (t, b1, c')) => Some (inl (t, b1, set_streams c' l))
  | Some (inr u) => Some (inr u)
  | None => None
  end.
Proof.
  intros st c l b. unfold typed_of. destruct (s_stype st); [reflexivity|].
  destruct (pull_uint_var b) as [[t b1]|]; [|reflexivity].
  destruct c as [cl dg dn se ct qd qe mp ss sn]. unfold set_streams, set_ctrl, set_qdec, set_qenc.
  cbn [c_client c_dgram c_done c_settings c_ctrl c_qdec c_qenc c_maxpush c_streams c_sent_end].
  destruct (t =? 0); [destruct (is_none ct); reflexivity|].
  destruct (t =? 3); [destruct (is_none qd); reflexivity|].
  destruct (t =? 2); [destruct (is_none qe); reflexivity|]. reflexivity.
Qed.

Lemma typed_frame : forall st c b t b1 c', typed_of st c b = Some (inl (t, b1, c')) ->
  c_client c' = c_client c /\ c_streams c' = c_streams c.
Proof.
  intros st c b t b1 c'. unfold typed_of. destruct (s_stype st); [intros H; inversion H; split; reflexivity|].
  destruct (pull_uint_var b) as [[t' b']|]; [|discriminate].
  destruct c as [cl dg dn se ct qd qe mp ss sn]. unfold set_ctrl, set_qdec, set_qenc.
  cbn [c_client c_dgram c_done c_settings c_ctrl c_qdec c_qenc c_maxpush c_streams c_sent_end].
  destruct (t' =? 0); [destruct (is_none ct); intros H; inversion H; split; reflexivity|].
  destruct (t' =? 3); [destruct (is_none qd); intros H; inversion H; split; reflexivity|].
  destruct (t' =? 2); [destruct (is_none qe); intros H; inversion H; split; reflexivity|].
  intros H; inversion H; split; reflexivity.
Qed.

Lemma c_client_ss : forall c l, c_client (set_streams c l) = c_client c.
Proof. destruct c; reflexivity. Qed.
Lemma c_streams_ss : forall c l, c_streams (set_streams c l) = l.
Proof. destruct c; reflexivity. Qed.

Lemma tspec_ss : forall fin st t c l b,
  tspec fx O fin st t (set_streams c l) b = umap (fun c' => set_streams c' l) (tspec fx O fin st t c b).
Proof.
  intros fin st t c l b. unfold tspec. cbv zeta.
  destruct (t =? 0).
  { destruct fin; [reflexivity|]. rewrite ctrl_ss. destruct (ctrl_loop fx (S (length b)) c b); reflexivity. }
  destruct (t =? 1).
  { destruct (push_parse (set_stype st (Some t)) b) as [[st2 r]|]; [|reflexivity].
    rewrite c_client_ss. destruct (rq_recv fx O (c_client c) (set_buf st2 r) [] fin); reflexivity. }
  destruct (t =? 84). { destruct (sess_parse (set_stype st (Some t)) b) as [[st2 r]|]; reflexivity. }
  destruct (t =? 3). { destruct (o_ds O b); reflexivity. }
  destruct (t =? 2). { destruct (o_enc O b); reflexivity. }
  reflexivity.
Qed.

(* a delivery on a unidirectional stream does not look at the stream table *)
Lemma uni_full_ss : forall st c l d fin,
  uni_full fx O st (set_streams c l) d fin = umap (fun c' => set_streams c' l) (uni_full fx O st c d fin).
Proof.
  intros st c l d fin. rewrite !uni_full_spec. unfold uni_spec. cbv zeta.
  destruct (negb (stream_loops (s_stype st) || negb (is_nil (s_buf st ++ d)))); [reflexivity|].
  rewrite typed_ss. destruct (typed_of (ustart st d fin) c (s_buf st ++ d)) as [[[[t b1] c']|u]|]; try reflexivity.
  apply tspec_ss.
Qed.

(* ... and leaves is_client and the table alone; the stream keeps its id; streams are reported as unblocked only by the
   QPACK decoder, and then the delivery has no events of its own *)
Lemma uni_full_frame : forall st c d fin e st' c' u, uni_full fx O st c d fin = UF e st' c' u ->
  c_client c' = c_client c /\ c_streams c' = c_streams c /\ s_id st' = s_id st /\
  (u = [] \/ (e = [] /\ exists x, o_enc O x = EUnblocked u)).
Proof.
  intros st c d fin e st' c' u. rewrite uni_full_spec. unfold uni_spec. cbv zeta.
  destruct (negb (stream_loops (s_stype st) || negb (is_nil (s_buf st ++ d)))).
  { intros H; inversion H; subst. repeat split; auto; destruct st; reflexivity. }
  destruct (typed_of (ustart st d fin) c (s_buf st ++ d)) as [[[[t b1] c2]|[]]|] eqn:Et; try discriminate.
  2:{ intros H; inversion H; subst. repeat split; auto; destruct st; reflexivity. }
  apply typed_frame in Et. destruct Et as (T1 & T2).
  assert (I0 : s_id (ustart st d fin) = s_id st) by (destruct st; reflexivity).
  set (st0 := ustart st d fin) in *. clearbody st0.
  unfold tspec. cbv zeta.
  destruct (t =? 0).
  { destruct fin; [discriminate|]. destruct (ctrl_loop fx (S (length b1)) c2 b1) as [c3 r| |] eqn:Ec; cbn [of_cres]; try discriminate.
    apply ctrl_frame in Ec. destruct Ec as (Q1 & Q2). intros H; inversion H; subst. repeat split; auto; try congruence; rewrite <- I0; destruct st0; reflexivity. }
  destruct (t =? 1).
  { unfold push_parse. destruct (s_push (set_stype st0 (Some t))) as [p|].
    - destruct (rq_recv fx O (c_client c2) (set_buf (set_stype st0 (Some t)) b1) [] fin) as [e3 s3| |] eqn:ER; cbn [of_rres]; try discriminate.
      apply rq_recv_id in ER. intros H; inversion H; subst. repeat split; auto; rewrite ER, <- I0; destruct st0; reflexivity.
    - destruct (pull_uint_var b1) as [[p r]|].
      + destruct (rq_recv fx O (c_client c2) (set_buf (set_push (set_stype st0 (Some t)) (Some p)) r) [] fin) as [e3 s3| |] eqn:ER;
          cbn [of_rres]; try discriminate.
        apply rq_recv_id in ER. intros H; inversion H; subst. repeat split; auto; rewrite ER, <- I0; destruct st0; reflexivity.
      + intros H; inversion H; subst. repeat split; auto; rewrite <- I0; destruct st0; reflexivity. }
  destruct (t =? 84).
  { unfold sess_parse. destruct (s_session (set_stype st0 (Some t))) as [p|].
    - intros H; inversion H; subst. repeat split; auto; rewrite <- I0; destruct st0; reflexivity.
    - destruct (pull_uint_var b1) as [[p r]|]; intros H; inversion H; subst; repeat split; auto; rewrite <- I0; destruct st0; reflexivity. }
  destruct (t =? 3).
  { destruct (o_ds O b1); [|discriminate]. intros H; inversion H; subst. repeat split; auto; rewrite <- I0; destruct st0; reflexivity. }
  destruct (t =? 2).
  { destruct (o_enc O b1) as [l|] eqn:Eo; [|discriminate]. intros H; inversion H; subst.
    repeat split; auto; try (rewrite <- I0; destruct st0; reflexivity).
    right. split; [reflexivity|]. exists b1. assumption. }
  intros H; inversion H; subst. repeat split; auto; rewrite <- I0; destruct st0; reflexivity.
Qed.


(* ... nor does it touch the done flag or the set of locally ended streams *)
Lemma hcf_frame2 : forall c t d c', handle_control_frame fx c t d = Val c' ->
  c_done c' = c_done c /\ c_sent_end c' = c_sent_end c.
Proof.
  intros c t d c'. destruct c as [cl dg dn st ct qd qe mp ss se]. unfold handle_control_frame, set_settings, set_maxpush.
  cbn [c_client c_dgram c_done c_settings c_ctrl c_qdec c_qenc c_maxpush c_streams c_sent_end].
  destruct (negb (t =? 4) && is_none st); [discriminate|].
  destruct (t =? 4).
  { destruct (negb (is_none st)); [discriminate|]. destruct (parse_settings _ fx d []); try discriminate.
    destruct (validate_settings dg a); [|discriminate]. intros H; inversion H; subst. split; reflexivity. }
  destruct (t =? 13).
  { destruct cl; [discriminate|]. destruct (parse_max_push_id fx d); try discriminate. intros H; inversion H; subst. split; reflexivity. }
  destruct ((t =? 0) || (t =? 1) || (t =? 5) || (t =? 14)); [discriminate|]. intros H; inversion H; subst. split; reflexivity.
Qed.

Lemma ctrl_frame2 : forall f c b c' r, ctrl_loop fx f c b = CStop c' r -> c_done c' = c_done c /\ c_sent_end c' = c_sent_end c.
Proof.
  induction f; intros c b c' r H; cbn [ctrl_loop] in H; [inversion H; split; reflexivity|].
  destruct (pull_frame b) as [[[ft fd] b']|]; [|inversion H; split; reflexivity].
  destruct (handle_control_frame fx c ft fd) as [c2| |] eqn:E; try discriminate.
  apply hcf_frame2 in E. apply IHf in H. destruct E, H. split; congruence.
Qed.

Lemma typed_frame2 : forall st c b t b1 c', typed_of st c b = Some (inl (t, b1, c')) ->
  c_done c' = c_done c /\ c_sent_end c' = c_sent_end c.
Proof.
  intros st c b t b1 c'. unfold typed_of. destruct (s_stype st); [intros H; inversion H; split; reflexivity|].
  destruct (pull_uint_var b) as [[t' b']|]; [|discriminate].
  destruct c as [cl dg dn se ct qd qe mp ss sn]. unfold set_ctrl, set_qdec, set_qenc.
  cbn [c_client c_dgram c_done c_settings c_ctrl c_qdec c_qenc c_maxpush c_streams c_sent_end].
  destruct (t' =? 0); [destruct (is_none ct); intros H; inversion H; split; reflexivity|].
  destruct (t' =? 3); [destruct (is_none qd); intros H; inversion H; split; reflexivity|].
  destruct (t' =? 2); [destruct (is_none qe); intros H; inversion H; split; reflexivity|].
  intros H; inversion H; split; reflexivity.
Qed.

Lemma uni_full_frame2 : forall st c d fin e st' c' u, uni_full fx O st c d fin = UF e st' c' u ->
  c_done c' = c_done c /\ c_sent_end c' = c_sent_end c.
Proof.
  intros st c d fin e st' c' u. rewrite uni_full_spec. unfold uni_spec. cbv zeta.
  destruct (negb (stream_loops (s_stype st) || negb (is_nil (s_buf st ++ d)))).
  { intros H; inversion H; subst. split; reflexivity. }
  destruct (typed_of (ustart st d fin) c (s_buf st ++ d)) as [[[[t b1] c2]|[]]|] eqn:Et; try discriminate.
  2:{ intros H; inversion H; subst. split; reflexivity. }
  apply typed_frame2 in Et. destruct Et as (T1 & T2).
  set (st0 := ustart st d fin) in *. clearbody st0.
  unfold tspec. cbv zeta.
  destruct (t =? 0).
  { destruct fin; [discriminate|]. destruct (ctrl_loop fx (S (length b1)) c2 b1) as [c3 r| |] eqn:Ec; cbn [of_cres]; try discriminate.
    apply ctrl_frame2 in Ec. destruct Ec as (Q1 & Q2). intros H; inversion H; subst. split; congruence. }
  destruct (t =? 1).
  { destruct (push_parse (set_stype st0 (Some t)) b1) as [[st2 r]|].
    - destruct (rq_recv fx O (c_client c2) (set_buf st2 r) [] fin) as [e3 s3| |]; cbn [of_rres]; try discriminate.
      intros H; inversion H; subst. split; assumption.
    - intros H; inversion H; subst. split; assumption. }
  destruct (t =? 84).
  { destruct (sess_parse (set_stype st0 (Some t)) b1) as [[st2 r]|]; intros H; inversion H; subst; split; assumption. }
  destruct (t =? 3). { destruct (o_ds O b1); [|discriminate]. intros H; inversion H; subst. split; assumption. }
  destruct (t =? 2). { destruct (o_enc O b1); [|discriminate]. intros H; inversion H; subst. split; assumption. }
  intros H; inversion H; subst. split; assumption.
Qed.

End Conn.
