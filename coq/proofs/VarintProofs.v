(* Proofs about model/Varint.v: RFC 9000 section 16 variable-length integers, for ALL values. *)
From AQ Require Import lib.Base model.Codec model.Varint proofs.CodecProofs.
From Coq Require Import ZifyBool.

(* ---- RFC 9000 section 16 / appendix A.1 example vectors --------------------------------- *)
Example rfc9000_a1_8 : push_uint_var 151288809941952652 = Ok [0xc2; 0x19; 0x7c; 0x5e; 0xff; 0x14; 0xe8; 0x8c].
Proof. reflexivity. Qed.
Example rfc9000_a1_4 : push_uint_var 494878333 = Ok [0x9d; 0x7f; 0x3e; 0x7d].
Proof. reflexivity. Qed.
Example rfc9000_a1_2 : push_uint_var 15293 = Ok [0x7b; 0xbd].
Proof. reflexivity. Qed.
Example rfc9000_a1_1 : push_uint_var 37 = Ok [0x25].
Proof. reflexivity. Qed.
Example rfc9000_a1_dec8 : pull_uint_var [0xc2; 0x19; 0x7c; 0x5e; 0xff; 0x14; 0xe8; 0x8c] = Ok (151288809941952652, []).
Proof. reflexivity. Qed.
Example rfc9000_a1_dec4 : pull_uint_var [0x9d; 0x7f; 0x3e; 0x7d] = Ok (494878333, []).
Proof. reflexivity. Qed.
Example rfc9000_a1_dec2 : pull_uint_var [0x7b; 0xbd] = Ok (15293, []).
Proof. reflexivity. Qed.
(* "the two-byte sequence 0x4025 also decodes to 37" (a non-minimal encoding is accepted) *)
Example rfc9000_a1_nonminimal : pull_uint_var [0x40; 0x25] = Ok (37, []).
Proof. reflexivity. Qed.
(* Table 4: the largest value of each length *)
Example rfc9000_table4 :
  push_uint_var 63 = Ok [0x3f] /\ push_uint_var 64 = Ok [0x40; 0x40] /\
  push_uint_var 16383 = Ok [0x7f; 0xff] /\ push_uint_var 16384 = Ok [0x80; 0; 0x40; 0] /\
  push_uint_var 1073741823 = Ok [0xbf; 0xff; 0xff; 0xff] /\
  push_uint_var 1073741824 = Ok [0xc0; 0; 0; 0; 0x40; 0; 0; 0] /\
  push_uint_var 4611686018427387903 = Ok [0xff; 0xff; 0xff; 0xff; 0xff; 0xff; 0xff; 0xff] /\
  push_uint_var 4611686018427387904 = Err E_VALUE.
Proof. repeat split; reflexivity. Qed.

(* ---- prefix arithmetic ---------------------------------------------------------------- *)
Lemma var_len_prefix x k : 0 <= x < 64 -> var_len (x + 64 * k) = var_len (64 * k).
Proof.
  intros. unfold var_len.
  replace ((x + 64 * k) / 64) with k.
  2:{ rewrite Z.mul_comm, Z.div_add by lia. rewrite Z.div_small by lia. lia. }
  replace (64 * k / 64) with k; auto.
  rewrite Z.mul_comm, Z.div_mul; lia.
Qed.

Lemma top_byte_small n' v :
  0 <= v < 64 * 256 ^ Z.of_nat n' ->
  0 <= (v / 256 ^ Z.of_nat n') mod 256 < 64 /\ (v / 256 ^ Z.of_nat n') mod 256 = v / 256 ^ Z.of_nat n'.
Proof.
  intros. pose proof (pow256_pos n') as Hp.
  assert (0 <= v / 256 ^ Z.of_nat n' < 64).
  { split. apply Z.div_pos; lia. apply Z.div_lt_upper_bound; lia. }
  rewrite Z.mod_small by lia. lia.
Qed.

Lemma pull_var_prefixed n' k v rest :
  0 <= v < 64 * 256 ^ Z.of_nat n' -> 0 <= k < 4 -> var_len (64 * k) = S n' ->
  pull_uint_var (with_prefix (64 * k) (be_enc (S n') v) ++ rest) = Ok (v, rest).
Proof.
  intros Hv Hk Hl. cbn [be_enc with_prefix app].
  destruct (top_byte_small n' v Hv) as [Hx _].
  unfold pull_uint_var. rewrite var_len_prefix, Hl by auto.
  set (x := (v / 256 ^ Z.of_nat n') mod 256) in *.
  rewrite Zlen_cons, Zlen_app, be_enc_Zlen. pose proof (Zlen_nonneg rest).
  destruct (1 + (Z.of_nat n' + Zlen rest) <? Z.of_nat (S n')) eqn:E; [lia|].
  cbn [firstn skipn mask_first].
  rewrite (firstn_app_len n') by apply be_enc_length.
  rewrite (skipn_app_len n') by apply be_enc_length.
  replace ((x + 64 * k) mod 64) with x.
  2:{ rewrite Z.mul_comm, Z.mod_add by lia. rewrite Z.mod_small; lia. }
  change (x :: be_enc n' v) with (be_enc (S n') v).
  rewrite be_dec_enc. f_equal. f_equal.
  rewrite Z.mod_small; [lia|]. rewrite pow256_S. pose proof (pow256_pos n'). lia.
Qed.

Lemma with_prefix_0 bs : with_prefix 0 bs = bs.
Proof. destruct bs; cbn; auto. now rewrite Z.add_0_r. Qed.

(* ---- round trip ------------------------------------------------------------------------ *)
Definition var_size (v : Z) : Z :=
  if v <? 64 then 1 else if v <? 16384 then 2 else if v <? 1073741824 then 4 else 8.

Theorem varint_roundtrip v rest : 0 <= v < 2 ^ 62 ->
  exists bs, push_uint_var v = Ok bs /\ pull_uint_var (bs ++ rest) = Ok (v, rest).
Proof.
  intros Hv. unfold push_uint_var, UINT_VAR_MAX.
  rewrite (Z.mod_small v (2 ^ 64)) by lia.
  destruct (v <=? 63) eqn:E1.
  { eexists; split; [reflexivity|]. rewrite <- (with_prefix_0 (be_enc 1 v)).
    apply (pull_var_prefixed 0 0); try reflexivity; try lia; (change (256 ^ Z.of_nat 0) with 1; lia). }
  destruct (v <=? 16383) eqn:E2.
  { eexists; split; [reflexivity|].
    apply (pull_var_prefixed 1 1); try reflexivity; try lia; (change (256 ^ Z.of_nat 1) with 256; lia). }
  destruct (v <=? 1073741823) eqn:E3.
  { eexists; split; [reflexivity|].
    apply (pull_var_prefixed 3 2); try reflexivity; try lia; (change (256 ^ Z.of_nat 3) with 16777216; lia). }
  destruct (v <=? 2 ^ 62 - 1) eqn:E4; [|lia].
  eexists; split; [reflexivity|].
  apply (pull_var_prefixed 7 3); try reflexivity; try lia;
  (change (256 ^ Z.of_nat 7) with 72057594037927936; lia).
Qed.

(* encoded length is the minimal one of 1/2/4/8, the two high bits of the first byte are the
   RFC 9000 prefix 00/01/10/11, every byte is a byte, and size_uint_var agrees *)
Theorem varint_length_prefix v : 0 <= v < 2 ^ 62 ->
  exists bs, push_uint_var v = Ok bs /\ Zlen bs = var_size v /\ bytes_ok bs /\
             size_uint_var v = Ok (Zlen bs) /\
             hd 0 bs / 64 = (if v <? 64 then 0 else if v <? 16384 then 1 else if v <? 1073741824 then 2 else 3).
Proof.
  intros Hv. unfold push_uint_var, size_uint_var, var_size, UINT_VAR_MAX.
  rewrite (Z.mod_small v (2 ^ 64)) by lia.
  assert (P : forall n' k, 0 <= v < 64 * 256 ^ Z.of_nat n' -> 0 <= k < 4 ->
            bytes_ok (with_prefix (64 * k) (be_enc (S n') v)) /\
            hd 0 (with_prefix (64 * k) (be_enc (S n') v)) / 64 = k /\
            Zlen (with_prefix (64 * k) (be_enc (S n') v)) = Z.of_nat (S n')).
  { intros n' k Hb Hk. cbn [be_enc with_prefix hd]. destruct (top_byte_small n' v Hb) as [Hx _].
    split; [|split].
    - constructor; [unfold byte_ok; lia | apply be_enc_bytes_ok].
    - rewrite Z.mul_comm, Z.div_add by lia. rewrite Z.div_small; lia.
    - rewrite Zlen_cons, be_enc_Zlen. lia. }
  destruct (v <=? 63) eqn:E1.
  { destruct (P 0%nat 0) as (A & B & C); [change (256 ^ Z.of_nat 0) with 1; lia | lia |].
    rewrite with_prefix_0 in *. eexists; split; [reflexivity|].
    rewrite C. destruct (v <? 64) eqn:?; [|lia]. repeat split; auto. }
  destruct (v <=? 16383) eqn:E2.
  { destruct (P 1%nat 1) as (A & B & C); [change (256 ^ Z.of_nat 1) with 256; lia | lia |].
    change (64 * 1) with 64 in *. eexists; split; [reflexivity|]. rewrite C.
    destruct (v <? 64) eqn:?; [lia|]. destruct (v <? 16384) eqn:?; [|lia]. repeat split; auto. }
  destruct (v <=? 1073741823) eqn:E3.
  { destruct (P 3%nat 2) as (A & B & C); [change (256 ^ Z.of_nat 3) with 16777216; lia | lia |].
    change (64 * 2) with 128 in *. eexists; split; [reflexivity|]. rewrite C.
    destruct (v <? 64) eqn:?; [lia|]. destruct (v <? 16384) eqn:?; [lia|].
    destruct (v <? 1073741824) eqn:?; [|lia]. repeat split; auto. }
  destruct (v <=? 2 ^ 62 - 1) eqn:E4; [|lia].
  destruct (P 7%nat 3) as (A & B & C); [change (256 ^ Z.of_nat 7) with 72057594037927936; lia | lia |].
  change (64 * 3) with 192 in *. eexists; split; [reflexivity|]. rewrite C.
  destruct (v <? 64) eqn:?; [lia|]. destruct (v <? 16384) eqn:?; [lia|].
  destruct (v <? 1073741824) eqn:?; [lia|]. repeat split; auto.
Qed.

(* ---- the total statement about the encoder ---------------------------------------------- *)
(* for EVERY Python int: ValueError iff the value reduced mod 2^64 exceeds 2^62-1; otherwise the
   bytes decode to v mod 2^64 -- which is v only when 0 <= v < 2^62. *)
Theorem varint_push_total v rest :
  (2 ^ 62 <= v mod 2 ^ 64 /\ push_uint_var v = Err E_VALUE) \/
  (v mod 2 ^ 64 < 2 ^ 62 /\ exists bs, push_uint_var v = Ok bs /\
                                      pull_uint_var (bs ++ rest) = Ok (v mod 2 ^ 64, rest)).
Proof.
  pose proof (Z.mod_pos_bound v (2 ^ 64) ltac:(lia)) as Hm.
  destruct (Z_lt_le_dec (v mod 2 ^ 64) (2 ^ 62)) as [Hlt|Hge].
  - right. split; auto.
    destruct (varint_roundtrip (v mod 2 ^ 64) rest ltac:(lia)) as (bs & Hp & Hq).
    exists bs. split; auto.
    unfold push_uint_var in *. rewrite Z.mod_mod in Hp by lia. exact Hp.
  - left. split; auto. unfold push_uint_var, UINT_VAR_MAX.
    repeat (match goal with |- context [if ?c then _ else _] => destruct c eqn:? end; try lia).
    reflexivity.
Qed.

Definition varint_push_total_statement : Prop :=
  forall v : Z, (exists k, push_uint_var v = Err k) \/
                (exists bs, push_uint_var v = Ok bs /\ pull_uint_var bs = Ok (v, [])).

Theorem varint_push_total_refuted :
  (exists bs, push_uint_var (2 ^ 64 + 5) = Ok bs /\ pull_uint_var bs = Ok (5, [])) /\
  ~ varint_push_total_statement.
Proof.
  split.
  - eexists; split; reflexivity.
  - intros H. destruct (H (2 ^ 64 + 5)) as [[k Hk]|(bs & Hp & Hq)].
    + vm_compute in Hk. discriminate Hk.
    + vm_compute in Hp. injection Hp as <-. vm_compute in Hq. discriminate Hq.
Qed.

(* ---- decoder totality ------------------------------------------------------------------- *)
Lemma var_len_cases b0 : var_len b0 = 1%nat \/ var_len b0 = 2%nat \/ var_len b0 = 4%nat \/ var_len b0 = 8%nat.
Proof. unfold var_len. repeat match goal with |- context [if ?c then _ else _] => destruct c end; auto. Qed.

Theorem varint_pull_total bs : bytes_ok bs ->
  (exists v rest used, pull_uint_var bs = Ok (v, rest) /\ bs = used ++ rest /\
                       0 <= v < 2 ^ 62 /\ bytes_ok rest /\
                       (length used = 1 \/ length used = 2 \/ length used = 4 \/ length used = 8)%nat /\
                       v < 64 * 256 ^ (Z.of_nat (length used) - 1))
  \/ pull_uint_var bs = Err E_READ.
Proof.
  intros Hb. unfold pull_uint_var. destruct bs as [|b0 t]; [right; reflexivity|].
  destruct (Zlen (b0 :: t) <? Z.of_nat (var_len b0)) eqn:E; [right; reflexivity|left].
  set (n := var_len b0) in *.
  assert (Hn : exists n', n = S n') by (destruct (var_len_cases b0) as [H|[H|[H|H]]]; fold n in H; rewrite H; eauto).
  destruct Hn as [n' Hn].
  exists (be_dec 0 (mask_first (firstn n (b0 :: t)))), (skipn n (b0 :: t)), (firstn n (b0 :: t)).
  assert (Hlen : length (firstn n (b0 :: t)) = n) by (apply firstn_length_le; unfold Zlen in E; lia).
  pose proof (firstn_skipn n (b0 :: t)) as Hsplit.
  rewrite <- Hsplit in Hb. apply bytes_ok_app in Hb as [Hu Hr].
  split; [reflexivity|]. split; [now symmetry|].
  assert (V : 0 <= be_dec 0 (mask_first (firstn n (b0 :: t))) < 64 * 256 ^ Z.of_nat n').
  { rewrite Hn in *. cbn [firstn mask_first] in *. inversion Hu as [|? ? Hb0 Ht]; subst.
    cbn [be_dec]. rewrite be_dec_shift.
    pose proof (be_dec_bound _ Ht) as B. cbn [length] in Hlen. injection Hlen as Hlen. rewrite Hlen in *.
    pose proof (Z.mod_pos_bound b0 64 ltac:(lia)). pose proof (pow256_pos n'). nia. }
  rewrite Hlen. replace (Z.of_nat n - 1) with (Z.of_nat n') by lia.
  split; [|split; [auto|split; [fold n; destruct (var_len_cases b0) as [H|[H|[H|H]]]; fold n in H; lia | lia]]].
  destruct V as [V0 V1]. split; auto.
  eapply Z.lt_le_trans; [exact V1|].
  destruct (var_len_cases b0) as [H|[H|[H|H]]]; fold n in H; rewrite H in Hn; injection Hn as <-; vm_compute; discriminate.
Qed.

(* decoder never yields anything but Ok / BufferReadError, even on ill-formed "bytes" *)
Theorem varint_pull_outcome bs : (exists v rest, pull_uint_var bs = Ok (v, rest)) \/ pull_uint_var bs = Err E_READ.
Proof.
  unfold pull_uint_var. destruct bs; [now right|].
  match goal with |- context [if ?c then _ else _] => destruct c end; [now right|left; eauto].
Qed.

(* decode, then re-encode: an equivalent (never longer) encoding of the same value *)
Theorem varint_reencode bs v rest : bytes_ok bs -> pull_uint_var bs = Ok (v, rest) ->
  exists bs', push_uint_var v = Ok bs' /\ pull_uint_var (bs' ++ rest) = Ok (v, rest) /\
              Zlen bs' + Zlen rest <= Zlen bs.
Proof.
  intros Hb Hp. destruct (varint_pull_total bs Hb) as [(v' & r' & used & H1 & H2 & H3 & H4 & H5 & H6)|H1]; [|congruence].
  rewrite Hp in H1. injection H1 as <- <-.
  destruct (varint_length_prefix v H3) as (bs' & E1 & E2 & _).
  destruct (varint_roundtrip v rest H3) as (bs'' & E3 & E4).
  rewrite E1 in E3. injection E3 as <-.
  exists bs'. split; auto. split; auto.
  rewrite H2, Zlen_app, E2. unfold var_size, Zlen.
  destruct H5 as [L|[L|[L|L]]]; rewrite L in *; cbn in H6;
    repeat match goal with |- context [if ?c then _ else _] => destruct c eqn:? end; lia.
Qed.

(* size_uint_var agrees with the encoder on the whole non-negative domain, and differs from it
   exactly where "K" wraps (negative or >= 2^64 arguments) *)
Theorem size_uint_var_agrees v : 0 <= v ->
  match push_uint_var v, size_uint_var v with
  | Ok bs, Ok n => n = Zlen bs \/ 2 ^ 64 <= v
  | Err _, Err _ => True
  | Ok _, Err _ => 2 ^ 64 <= v
  | Err _, Ok _ => False
  end.
Proof.
  intros Hv. destruct (Z_lt_le_dec v (2 ^ 62)) as [Hlt|Hge].
  - destruct (varint_length_prefix v ltac:(lia)) as (bs & E1 & _ & _ & E2 & _). rewrite E1, E2. now left.
  - assert (S : size_uint_var v = Err E_VALUE).
    { unfold size_uint_var, UINT_VAR_MAX.
      repeat (match goal with |- context [if ?c then _ else _] => destruct c eqn:? end; try lia). reflexivity. }
    rewrite S. destruct (push_uint_var v) eqn:P; auto.
    destruct (Z_lt_le_dec v (2 ^ 64)); auto.
    destruct (varint_push_total v []) as [[_ Q]|[Q _]]; [congruence|].
    rewrite Z.mod_small in Q; lia.
Qed.

Example varint_domain_example : 0 <= 4611686018427387903 < 2 ^ 62.
Proof. lia. Qed.
