(* C05: the raise-site skeleton of src/aioquic/tls.py the model TlsParse.v / TlsRecv.v was written against.
   gen/C05Tls.v (regenerated from the CURRENT source on every run) must equal it, or equal it with the
   verify_certificate row of docs/C05-fix-7.patch: a raise, an assert, an except clause, a subscript or a
   .decode() added to / removed from any parser or handler stops this file from compiling. *)
From Coq Require Import List String Bool.
From AQ Require Import gen.C05Tls.
Import ListNotations.
Open Scope string_scope.

Definition sites_pinned : list (string * list string) := [
  ("pull_block", ["R_AlertDecodeError"]);
  ("pull_list", ["T_open"; "C_SkipItem"; "T_close"]);
  ("pull_opaque", []);
  ("pull_server_name", ["R_AlertIllegalParameter"; "T_open"; "S_decode"; "C_UnicodeDecodeError"; "R_AlertIllegalParameter"; "T_close"]);
  ("pull_key_share", []);
  ("pull_alpn_protocol", ["T_open"; "S_decode"; "C_UnicodeDecodeError"; "R_SkipItem"; "T_close"]);
  ("pull_psk_identity", []);
  ("pull_psk_binder", []);
  ("pull_offered_psks", []);
  ("pull_handshake_type", ["R_assert"]);
  ("pull_client_hello", ["R_AlertDecodeError"; "R_AlertIllegalParameter"]);
  ("pull_server_hello", ["R_AlertDecodeError"]);
  ("pull_new_session_ticket", []);
  ("pull_encrypted_extensions", ["R_AlertDecodeError"; "S_sub"]);
  ("pull_certificate", []);
  ("pull_certificate_request", []);
  ("pull_certificate_verify", []);
  ("pull_finished", []);
  ("decode_public_key", ["T_open"; "S_sub"; "S_sub"; "S_sub"; "S_sub"; "S_sub"; "S_sub"; "S_sub"; "S_sub"; "C_ValueError"; "R_AlertIllegalParameter"; "T_close"]);
  ("negotiate", ["R_exc"]);
  ("verify_certificate", ["R_AlertCertificateExpired"; "R_AlertCertificateExpired"; "T_open"; "C_ValueError"; "T_close"; "T_open"; "C_CertificateError_VerificationError"; "S_sub"; "R_AlertBadCertificate"; "T_close"; "T_open"; "C_X509StoreContextError"; "R_AlertBadCertificate"; "T_close"]);
  ("Context.handle_message", ["S_sub"; "S_sub"; "S_sub"; "R_AlertDecodeError"; "S_sub"; "S_sub"; "T_open"; "C_BufferReadError"; "R_AlertDecodeError"; "T_close"]);
  ("Context._handle_reassembled_message", ["S_sub"; "R_AlertUnexpectedMessage"; "R_AlertUnexpectedMessage"; "R_AlertUnexpectedMessage"; "R_AlertUnexpectedMessage"; "R_AlertUnexpectedMessage"; "S_sub"; "R_AlertUnexpectedMessage"; "R_AlertUnexpectedMessage"; "S_sub"; "S_sub"; "S_sub"; "R_AlertUnexpectedMessage"; "S_sub"; "R_AlertUnexpectedMessage"; "S_sub"; "R_AlertUnexpectedMessage"; "S_sub"; "R_AlertUnexpectedMessage"; "R_AlertUnexpectedMessage"; "R_assert"]);
  ("Context._check_certificate_verify_signature", ["R_AlertDecryptError"; "T_open"; "C_ValueError_UnsupportedAlgorithm"; "R_AlertBadCertificate"; "T_close"; "S_sub"; "S_sub"; "R_AlertIllegalParameter"; "T_open"; "C_InvalidSignature_ValueError"; "R_AlertDecryptError"; "T_close"]);
  ("Context._client_handle_hello", ["R_AlertIllegalParameter"; "R_AlertIllegalParameter"; "R_AlertIllegalParameter"; "R_AlertIllegalParameter"; "T_open"; "C_ValueError"; "R_AlertIllegalParameter"; "T_close"; "R_AlertIllegalParameter"]);
  ("Context._client_handle_encrypted_extensions", []);
  ("Context._client_handle_certificate_request", []);
  ("Context._client_handle_certificate", []);
  ("Context._client_handle_certificate_verify", []);
  ("Context._client_handle_finished", ["R_AlertDecryptError"; "R_assert"]);
  ("Context._client_handle_new_session_ticket", []);
  ("Context._server_expect_finished", ["S_sub"]);
  ("Context._server_handle_hello", ["S_sub"; "S_sub"; "R_AlertHandshakeFailure"; "T_open"; "S_sub"; "S_sub"; "C_ValueError"; "R_AlertIllegalParameter"; "T_close"; "R_AlertHandshakeFailure"; "R_assert"]);
  ("Context._server_handle_certificate", []);
  ("Context._server_handle_certificate_verify", []);
  ("Context._server_handle_finished", ["R_AlertDecryptError"]);
  ("Context._set_peer_certificate", ["R_AlertDecodeError"; "T_open"; "S_sub"; "S_sub"; "S_sub"; "S_sub"; "C_ValueError"; "R_AlertBadCertificate"; "T_close"]);
  ("Context._build_session_ticket", [])
].

Definition verify_certificate_patched : list string :=
  ["R_AlertCertificateExpired"; "R_AlertCertificateExpired"; "T_open"; "C_ValueError"; "T_close"; "T_open";
   "C_CertificateError_VerificationError"; "T_open"; "C_Exception"; "T_close"; "S_sub"; "R_AlertBadCertificate";
   "C_Exception"; "R_AlertBadCertificate"; "T_close"; "T_open"; "C_X509StoreContextError"; "R_AlertBadCertificate";
   "T_close"].

Definition sites_patched : list (string * list string) :=
  map (fun p => if String.eqb (fst p) "verify_certificate" then (fst p, verify_certificate_patched) else p) sites_pinned.

Definition set_peer_certificate_patched : list string :=
  ["R_AlertDecodeError"; "T_open"; "S_sub"; "S_sub"; "S_sub"; "S_sub"; "C_ValueError_InvalidVersion"; "R_AlertBadCertificate"; "T_close"].

(* ... plus docs/C05-fix-9.patch *)
Definition sites_patched9 : list (string * list string) :=
  map (fun p => if String.eqb (fst p) "Context._set_peer_certificate" then (fst p, set_peer_certificate_patched) else p) sites_patched.

Fixpoint strs_eqb (a b : list string) : bool :=
  match a, b with
  | [], [] => true
  | x :: a', y :: b' => String.eqb x y && strs_eqb a' b'
  | _, _ => false
  end.
Fixpoint sites_eqb (a b : list (string * list string)) : bool :=
  match a, b with
  | [], [] => true
  | (f, x) :: a', (h, y) :: b' => String.eqb f h && strs_eqb x y && sites_eqb a' b'
  | _, _ => false
  end.

Theorem tls_sites_known :
  sites_eqb tls_sites sites_pinned || sites_eqb tls_sites sites_patched || sites_eqb tls_sites sites_patched9 = true.
Proof. vm_compute. reflexivity. Qed.
