(* C15: the refinement of H3EventsProofs.v carried through the frame loop and one delivery to a request / push stream. *)
From Coq Require Import ZArith List Bool Lia ZifyBool.
From AQ Require Import lib.Base lib.Tok model.H3Validate proofs.H3ValidateSpec.
From AQ Require Import model.H3Parse model.H3Events proofs.H3EventsSpec proofs.H3EventsProofs.
Import ListNotations.
Open Scope Z_scope.

Section Loop.
Variable hdrs : Z -> list header.
Variable client : bool.
Variable fx : fixes.
Local Notation sinv := (H3EventsProofs.sinv client).
Local Notation chain := (H3EventsProofs.chain hdrs client).
Local Notation gl := (H3EventsProofs.gl hdrs).

(* ---------------------------------------------------------------- the frame loop *)
Definition rq_hdr (st : hstream) (b : list Z) : option (Z * Z * list Z) :=
  match s_cur st with
  | Some (t, n) => Some (t, n, b)
  | None =>
      match pull_uint_var b with
      | None => None
      | Some (t, b1) =>
          match pull_uint_var b1 with
          | None => None
          | Some (n, b2) => Some (t, n, b2)
          end
      end
  end.

Lemma rq_loop_S : forall O f fin st b evs,
  rq_loop (S f) fx O client fin st b evs =
  if is_nil b then RVal evs (set_buf st b) else
  match rq_hdr st b with
  | None => RVal evs (set_buf st b)
  | Some (t, n, b2) =>
      if is_none (s_cur st) && (t =? 65) then
        RVal (evs ++ (if negb (is_nil b2) || fin then [EWT (s_id st) n b2 fin] else []))
             (set_buf (set_session (set_cur st None) (Some n)) [])
      else
        let chunk := Z.min n (Zlen b2) in
        if negb (t =? 0) && (chunk <? n) then RVal evs (set_buf (set_cur st (Some (t, n))) b2)
        else
          let data := ztake chunk b2 in
          let b3 := zdrop chunk b2 in
          let n' := n - chunk in
          let cur' := if n' =? 0 then None else Some (t, n') in
          let st1 := set_cur st cur' in
          let ended := H3Parse.s_ended st && is_nil b3 && (negb (fx_trunc fx) || is_none cur') in
          match handle_rp_frame fx O client t (Some data) st1 ended with
          | HVal e st2 => rq_loop f fx O client fin st2 b3 (evs ++ e)
          | HBlocked st2 => RVal evs (set_buf (set_btype (set_blocked st2 true) (if fx_pushblock fx then Some t else s_btype st2)) b3)
          | HErr c => RErr c
          | HExn k => RExn k
          end
  end.
Proof. reflexivity. Qed.

(* the stream keeps everything the refinement looks at *)
Definition same_core (st st' : hstream) : Prop :=
  H3Parse.s_hstate st' = H3Parse.s_hstate st /\ s_clen st' = s_clen st /\ s_expect st' = s_expect st
  /\ s_cur st' = s_cur st /\ s_id st' = s_id st /\ H3Parse.s_ended st' = H3Parse.s_ended st.

Lemma keep : forall g st st', same_core st st' -> sinv g st -> cur_ok st -> sinv g st' /\ cur_ok st'.
Proof.
  intros g st st' (E1 & E2 & E3 & E4 & _) Hi Hc. split.
  - eapply sinv_core; eauto.
  - unfold cur_ok in *. rewrite E4, E1. exact Hc.
Qed.

Definition loop_post (g : ghost) (st : hstream) (evs0 evs : list event) (st' : hstream) : Prop :=
  exists e1, evs = evs0 ++ e1 /\ chain (s_id st) g e1 /\ sinv (gl g e1) st' /\ cur_ok st'
             /\ s_id st' = s_id st /\ H3Parse.s_ended st' = H3Parse.s_ended st.

Lemma loop_post_stop : forall g st evs0 st', same_core st st' -> sinv g st -> cur_ok st -> loop_post g st evs0 evs0 st'.
Proof.
  intros g st evs0 st' Hs Hi Hc. destruct (keep g st st' Hs Hi Hc) as (K1 & K2).
  destruct Hs as (_ & _ & _ & _ & E5 & E6).
  exists []. rewrite app_nil_r. cbn [chain gl fold_left].
  split; [reflexivity|]. split; [exact Logic.I|]. split; [exact K1|]. split; [exact K2|]. split; assumption.
Qed.

Lemma rq_loop_post : forall Q fuel fin st b evs0 g evs st',
  sinv g st -> cur_ok st ->
  rq_loop fuel fx (with_validators hdrs Q) client fin st b evs0 = RVal evs st' ->
  loop_post g st evs0 evs st'.
Proof.
  intros Q. induction fuel as [|f IH]; intros fin st b evs0 g evs st' Hi Hc H.
  - cbn [rq_loop] in H. inversion H; subst. apply loop_post_stop; auto. repeat split.
  - rewrite rq_loop_S in H.
    destruct (is_nil b).
    { inversion H; subst. apply loop_post_stop; auto. repeat split. }
    destruct (rq_hdr st b) as [[[t n] b2]|] eqn:Hh.
    2:{ inversion H; subst. apply loop_post_stop; auto. repeat split. }
    destruct (is_none (s_cur st) && (t =? 65)) eqn:WT.
    { (* WEBTRANSPORT_STREAM *)
      inversion H; subst; clear H.
      assert (K : sinv g (set_buf (set_session (set_cur st None) (Some n)) []) /\
                  cur_ok (set_buf (set_session (set_cur st None) (Some n)) [])).
      { split; [eapply sinv_core; [| | |exact Hi]; reflexivity|]. intros n0 E. simp_proj. discriminate. }
      destruct K as (K1 & K2).
      eexists. split; [reflexivity|].
      destruct (negb (is_nil b2) || fin).
      - cbn [chain gl fold_left gstep ev_sid].
        split; [split; [reflexivity|split; [split; [exact Logic.I|cbn [ev_fin]; discriminate]|exact Logic.I]]|].
        split; [exact K1|]. split; [exact K2|]. split; reflexivity.
      - cbn [chain gl fold_left]. split; [exact Logic.I|]. split; [exact K1|]. split; [exact K2|]. split; reflexivity. }
    cbv zeta in H.
    destruct (negb (t =? 0) && (Z.min n (Zlen b2) <? n)) eqn:BR.
    { inversion H; subst; clear H. exists []. rewrite app_nil_r. cbn [chain gl fold_left].
      split; [reflexivity|]. split; [exact Logic.I|]. split; [eapply sinv_core; [| | |exact Hi]; reflexivity|].
      split; [|split; reflexivity].
      intros n0 E. simp_proj. inversion E; subst. cbn in BR. discriminate. }
    set (chunk := Z.min n (Zlen b2)) in *.
    set (cur' := if n - chunk =? 0 then None else Some (t, n - chunk)) in *.
    assert (Hi1 : sinv g (set_cur st cur')) by (eapply sinv_core; [| | |exact Hi]; reflexivity).
    match type of H with context [handle_rp_frame ?a ?b ?c ?d ?e ?f ?g'] =>
      destruct (handle_rp_frame a b c d e f g') as [e1 st2|st2|code|k] eqn:HH end; try discriminate.
    + (* the handler returned *)
      destruct (handle_post hdrs client fx Q _ _ _ _ g e1 st2 Hi1 HH) as (C1 & S2).
      destruct (handle_frame _ _ _ _ _ _ _ _ _ HH) as (F1 & F2 & F3 & F4 & _). simp_proj.
      assert (Hc2 : cur_ok st2).
      { intros n0 E. rewrite F2 in E. subst cur'. destruct (n - chunk =? 0); [discriminate|].
        inversion E; subst. apply F4. reflexivity. }
      destruct (IH fin st2 (zdrop chunk b2) (evs0 ++ e1) (gl g e1) evs st' S2 Hc2 H)
        as (e2 & E2 & C2 & S3 & Hc3 & I3 & N3).
      exists (e1 ++ e2). split; [rewrite E2, app_assoc; reflexivity|].
      split; [apply chain_app; [exact C1|rewrite <- F1; exact C2]|].
      split; [rewrite gl_app; exact S3|]. split; [exact Hc3|]. split; congruence.
    + (* StreamBlocked *)
      destruct (handle_blocked _ _ _ _ _ _ _ _ HH) as (B1 & B2 & B3 & B4 & B5 & B6 & B7 & _). simp_proj.
      inversion H; subst; clear H. exists []. rewrite app_nil_r. cbn [chain gl fold_left].
      split; [reflexivity|]. split; [exact Logic.I|].
      split; [eapply sinv_core; [| | |exact Hi]; simp_proj; assumption|].
      split; [|split; simp_proj; assumption].
      intros n0 E. simp_proj. rewrite B5 in E. subst cur'. destruct (n - chunk =? 0); [discriminate|].
      inversion E; subst. contradiction.
Qed.

(* ---------------------------------------------------------------- one delivery to a request / push stream *)
Lemma rq_recv_post : forall Q st0 data fin g evs st',
  sinv g st0 -> cur_ok st0 ->
  rq_recv fx (with_validators hdrs Q) client st0 data fin = RVal evs st' ->
  chain (s_id st0) g evs /\ sinv (gl g evs) st' /\ cur_ok st'
  /\ s_id st' = s_id st0 /\ H3Parse.s_ended st' = H3Parse.s_ended st0 || fin.
Proof.
  intros Q st0 data fin g evs st' Hi0 Hc0 H. unfold rq_recv in H.
  set (st := H3Parse.set_ended (set_buf st0 (s_buf st0 ++ data)) (H3Parse.s_ended st0 || fin)) in *.
  assert (Hi : sinv g st) by (eapply sinv_core; [| | |exact Hi0]; reflexivity).
  assert (Hc : cur_ok st) by (intros n0 E; apply (Hc0 n0); exact E).
  assert (Hid : s_id st = s_id st0) by reflexivity.
  assert (Hen : H3Parse.s_ended st = H3Parse.s_ended st0 || fin) by reflexivity.
  clearbody st. cbv zeta in H.
  destruct (s_blocked st).
  { inversion H; subst. cbn [chain gl fold_left]. auto. }
  destruct (s_session st) as [sess|].
  { inversion H; subst; clear H. cbn [chain gl fold_left gstep ev_sid]. simp_proj.
    split; [split; [exact Hid|split; [|exact Logic.I]; split; [exact Logic.I|cbn [ev_fin]; discriminate]]|].
    split; [eapply sinv_core; [| | |exact Hi]; reflexivity|]. split; [exact Hc|]. auto. }
  destruct (match s_cur st with
            | Some (t, n) => if (t =? 0) && (Zlen (s_buf st) <? n) && negb (fx_trunc fx && fin) then Some n else None
            | None => None end) as [n|] eqn:SC.
  { (* shortcut for DATA frame fragments *)
    destruct (s_cur st) as [[t n1]|] eqn:EC; [|discriminate].
    destruct ((t =? 0) && (Zlen (s_buf st) <? n1) && negb (fx_trunc fx && fin)) eqn:CD; [|discriminate].
    inversion SC; subst n1; clear SC.
    assert (t = 0) by lia. subst t.
    assert (H1 : H3Parse.s_hstate st = 1) by (apply (Hc n); exact EC).
    inversion H; subst evs st'; clear H.
    assert (S1 : sinv (mkG (g_phase g) (g_first g) (g_body g + Zlen (s_buf st)))
                      (set_buf (set_cur (set_clen st (s_clen st + Zlen (s_buf st))) (Some (0, n - Zlen (s_buf st)))) [])).
    { destruct Hi as (Ih & Ic & Ir). unfold sinv. simp_proj. split; [exact Ih|]. split; [lia|exact Ir]. }
    cbn [chain gl fold_left]. rewrite gstep_data. cbn [ev_sid].
    split; [split; [exact Hid|split; [|exact Logic.I]; split]|].
    - intros _. destruct Hi as (Ih & _). lia.
    - cbn [ev_fin]. discriminate.
    - split; [exact S1|]. split; [|simp_proj; auto].
      intros n0 E. simp_proj. exact H1. }
  destruct (fin && is_nil (s_buf st) && (negb (fx_trunc fx) || is_none (s_cur st))) eqn:LF.
  { (* lone FIN *)
    destruct (check_cl st) eqn:CK; [|discriminate]. inversion H; subst evs st'; clear H.
    destruct (endmark_ok hdrs client g st (s_id st) (s_push st) Hi CK) as (O1 & O2).
    cbn [chain gl fold_left ev_sid].
    split; [split; [exact Hid|split; [exact O1|exact Logic.I]]|]. auto. }
  match type of H with context [rq_loop ?a ?b ?c ?d ?e ?f ?g' ?h] =>
    destruct (rq_loop a b c d e f g' h) as [evs1 st1|code|k] eqn:HL end; try discriminate.
  assert (Hi' : sinv g (set_buf st [])) by (eapply sinv_core; [| | |exact Hi]; reflexivity).
  assert (Hc' : cur_ok (set_buf st [])) by (intros n0 E; apply (Hc n0); exact E).
  destruct (rq_loop_post Q _ _ _ _ _ g evs1 st1 Hi' Hc' HL) as (e1 & E1 & C1 & S1 & K1 & I1 & N1).
  cbn [app] in E1. subst e1. simp_proj.
  match type of H with (if ?c then _ else _) = _ => destruct c end; [discriminate|].
  inversion H; subst evs st'; clear H.
  split; [rewrite <- Hid; exact C1|]. split; [exact S1|]. split; [exact K1|]. split; congruence.
Qed.


(* ---------------------------------------------------------------- blocked streams wait between two frames *)
Definition kinv (st : hstream) : Prop :=
  (s_blocked st = false -> s_btype st = None) /\ (s_blocked st = true -> s_cur st = None).

Lemma rq_loop_k : forall O fuel fin st b evs0 evs st',
  kinv st -> s_blocked st = false ->
  rq_loop fuel fx O client fin st b evs0 = RVal evs st' -> kinv st'.
Proof.
  intros O. induction fuel as [|f IH]; intros fin st b evs0 evs st' (K1 & K2) Hb H.
  - cbn [rq_loop] in H. inversion H; subst. split; simp_proj; auto.
  - rewrite rq_loop_S in H.
    destruct (is_nil b). { inversion H; subst. split; simp_proj; auto. }
    destruct (rq_hdr st b) as [[[t n] b2]|] eqn:Hh.
    2:{ inversion H; subst. split; simp_proj; auto. }
    destruct (is_none (s_cur st) && (t =? 65)).
    { inversion H; subst. split; simp_proj; auto. }
    cbv zeta in H.
    destruct (negb (t =? 0) && (Z.min n (Zlen b2) <? n)) eqn:BR.
    { inversion H; subst. split; simp_proj; auto. intro; congruence. }
    match type of H with context [handle_rp_frame ?a ?b ?c ?d ?e ?f ?g'] =>
      destruct (handle_rp_frame a b c d e f g') as [e1 st2|st2|code|k] eqn:HH end; try discriminate.
    + destruct (handle_frame _ _ _ _ _ _ _ _ _ HH) as (_ & _ & _ & _ & F5 & F6 & _). simp_proj.
      eapply IH; [| |exact H].
      * split; [rewrite F6; auto | rewrite F5, Hb; discriminate].
      * congruence.
    + destruct (handle_blocked _ _ _ _ _ _ _ _ HH) as (_ & _ & _ & _ & B5 & _ & B7 & _). simp_proj.
      inversion H; subst. split; simp_proj; [discriminate|]. intros _. rewrite B5.
      destruct (n - Z.min n (Zlen b2) =? 0) eqn:E; [reflexivity|]. lia.
Qed.

Lemma rq_recv_k : forall O st0 data fin evs st',
  kinv st0 -> rq_recv fx O client st0 data fin = RVal evs st' -> kinv st'.
Proof.
  intros O st0 data fin evs st' K0 H. unfold rq_recv in H.
  set (st := H3Parse.set_ended (set_buf st0 (s_buf st0 ++ data)) (H3Parse.s_ended st0 || fin)) in *.
  assert (K : kinv st) by exact K0. clearbody st. cbv zeta in H.
  destruct (s_blocked st) eqn:Hb.
  { inversion H; subst. exact K. }
  destruct K as (K1 & K2).
  destruct (s_session st) as [sess|].
  { inversion H; subst. split; simp_proj; auto. }
  destruct (match s_cur st with
            | Some (t, n) => if (t =? 0) && (Zlen (s_buf st) <? n) && negb (fx_trunc fx && fin) then Some n else None
            | None => None end) as [n|] eqn:SC.
  { inversion H; subst. split; simp_proj; auto. intro; congruence. }
  destruct (fin && is_nil (s_buf st) && (negb (fx_trunc fx) || is_none (s_cur st))).
  { destruct (check_cl st); [|discriminate]. inversion H; subst. split; auto. }
  match type of H with context [rq_loop ?a ?b ?c ?d ?e ?f ?g' ?h] =>
    destruct (rq_loop a b c d e f g' h) as [evs1 st1|code|k] eqn:HL end; try discriminate.
  match type of H with (if ?c then _ else _) = _ => destruct c end; [discriminate|].
  inversion H; subst. eapply rq_loop_k; [| |exact HL]; [split; simp_proj; auto|exact Hb].
Qed.

End Loop.
