(* C01: sender completion with resets.  In every state reachable by any schedule (reset steps included) the sender
   reports is_finished only if a RESET_STREAM was acknowledged or the receiver has reported every written byte
   and the end marker. *)
From Coq Require Import ZArith List Bool Lia ZifyBool Permutation.
From AQ Require Import lib.Base model.RangeSet model.StreamRecv model.StreamSpec model.StreamSend model.NetSys
  proofs.RangeSetP proofs.ListZ proofs.StreamRecvP proofs.StreamSendP proofs.NetSysP proofs.NetSysP2 proofs.NetSysP3
  proofs.NetSysP4 proofs.NetSysP6.

Definition delivered_all (s : net) : Prop := n_dbytes s = n_written s /\ n_ends s = 1 /\ eof s.
Definition FinOK (s : net) : Prop :=
  (s_finished (n_send s) = true -> n_racked s = true \/ delivered_all s) /\
  (n_racked s = true -> n_resets s <> []).

Lemma report_racked wf o s r' em rr : n_racked (report wf o s r' em rr) = n_racked s /\ n_resets (report wf o s r' em rr) = n_resets s.
Proof. unfold report. destruct wf; [|destruct o]; cbn; auto. Qed.

(* what one step after reset() can do to the fields FinOK talks about *)
Lemma xstep_frame s op o s' : XInv s -> net_step s op = Some (o, s') ->
  n_written s' = n_written s /\ s_fin (n_send s') = s_fin (n_send s) /\
  (n_racked s' = n_racked s /\ s_finished (n_send s') = s_finished (n_send s) /\ (n_resets s <> [] -> n_resets s' <> []) \/
   n_racked s' = true /\ n_resets s <> [] /\ n_resets s' = n_resets s).
Proof.
  intros X H. destruct (s_reset (n_send s)) as [code0|] eqn:ER; [|destruct (x_reset _ X ER)].
  destruct op; cbn [net_step] in H.
  - rewrite ER in H. cbn in H. rewrite andb_false_r in H. discriminate.
  - rewrite ER in H. discriminate.
  - destruct (nthE (n_emitted s) i) as [f|]; [|discriminate].
    destruct (handle_frame (n_recv s) (ef_off f) (ef_data f) (ef_fin f)) as [ro r'].
    destruct ro; inversion H; subst; try (split; [reflexivity|split; [reflexivity|left; auto]]);
      match goal with |- context [report ?a ?b ?c ?d ?e ?g] =>
        destruct (report_fields a b c d e g) as (F1 & _ & _ & F4); destruct (report_racked a b c d e g) as (F5 & F6) end;
      rewrite F1, F4, F5, F6; auto 10.
  - destruct (nthE (n_emitted s) i) as [f|]; [|discriminate].
    destruct (is_noneb (ef_out f) && (negb acked || ef_deliv f)); [|discriminate]. unfold ef_key in H.
    assert (Est : snd (on_data_delivery (n_send s) acked (ef_off f) (ef_off f + Zlen (ef_data f)) (ef_fin f)) = n_send s).
    { unfold on_data_delivery. rewrite ER. destruct (ef_fin f && _); reflexivity. }
    destruct (on_data_delivery (n_send s) acked (ef_off f) (ef_off f + Zlen (ef_data f)) (ef_fin f)) as [so st']. cbn [snd] in Est. subst st'.
    inversion H; subst. cbn. auto 10.
  - unfold reset in H. rewrite ER in H. inversion H; subst. cbn. auto 10.
  - rewrite ER in H. cbn [is_noneb] in H. unfold get_reset_frame in H. inversion H; subst. cbn.
    split; [reflexivity|]. split; [reflexivity|]. left. split; [reflexivity|]. split; [reflexivity|].
    intros _ E. apply app_eq_nil in E. destruct E as (_ & E). discriminate.
  - destruct (nthZo (n_resets s) j) as [fs|]; [|discriminate].
    destruct (handle_reset (n_recv s) fs) as [ro r'].
    destruct ro; inversion H; subst; try (split; [reflexivity|split; [reflexivity|left; auto]]);
      match goal with |- context [report ?a ?b ?c ?d ?e ?g] =>
        destruct (report_fields a b c d e g) as (F1 & _ & _ & F4); destruct (report_racked a b c d e g) as (F5 & F6) end;
      rewrite F1, F4, F5, F6; auto 10.
  - destruct (n_resets s) eqn:En; [discriminate|]. unfold on_reset_delivery in H.
    destruct acked; inversion H; subst; cbn; rewrite ?En.
    + split; [reflexivity|]. split; [reflexivity|]. right. split; [reflexivity|]. split; [discriminate|reflexivity].
    + split; [reflexivity|]. split; [reflexivity|]. left. split; [reflexivity|]. split; [reflexivity|]. intros _. discriminate.
  - destruct (n_queue s); [discriminate|]. inversion H; subst. cbn. auto 10.
  - inversion H; subst. auto 10.
Qed.

Lemma finok_xstep s op o s' : XInv s -> net_step s op = Some (o, s') -> FinOK s -> FinOK s'.
Proof.
  intros X H (F1 & F2). destruct (xstep_frame s op o s' X H) as (W & Ef & [(Ra & Fi & Rs)|(Ra & Rs & Rs')]).
  - split.
    + rewrite Fi, Ra. intros Hf. destruct (F1 Hf) as [Y|(D1 & D2 & D3)]; [left; exact Y|right].
      (* everything had been delivered: the receive half was finished, so this step reports nothing *)
      assert (Hfin : r_finished (n_recv s) = true).
      { pose proof (x_recv _ X) as A. destruct (n_rreset s); [exact (proj1 A)|].
        destruct A as (sp & _ & _ & _ & E). rewrite D2 in E. destruct (r_finished (n_recv s)); [reflexivity|discriminate]. }
      assert (Hsame : n_dbytes s' = n_dbytes s /\ n_ends s' = n_ends s).
      { destruct op; try (destruct (step_queue s _ o s' H ltac:(discriminate)) as (q & _ & (S1 & S2 & S3 & _));
                          destruct (S3 Hfin) as (_ & ->); rewrite S1, S2; cbn; rewrite app_nil_r; split; [reflexivity|lia]).
        destruct (pop_shape s o s' H) as (P1 & P2 & _). auto. }
      destruct Hsame as (H1 & H2). unfold delivered_all, eof. rewrite H1, H2, W, Ef. auto.
    + rewrite Ra. intros Hr. apply Rs, F2, Hr.
  - split; [intros _; left; exact Ra|]. intros _. rewrite Rs'. exact Rs.
Qed.

Lemma finok_nreach s : nreach s -> FinOK s.
Proof.
  intros R. split.
  - intros Hf. right. destruct (finished_implies_delivered s R Hf) as (A & B & C). repeat split; assumption.
  - pose proof (nreach_inv _ R) as I. destruct (ni_noreset _ I) as (_ & _ & _ & N4). congruence.
Qed.

Lemma x_finished_ok s : xreach s -> FinOK s.
Proof.
  induction 1 as [|s op o s' R IH H]; [exact (finok_nreach _ nreach_init)|].
  destruct (xreach_cases s R) as [N|X]; [|exact (finok_xstep s op o s' X H IH)].
  destruct (xreach_cases s' (xreach_step _ _ _ _ R H)) as [N'|X']; [exact (finok_nreach _ N')|].
  (* the step was reset() on a data-step state *)
  pose proof (nreach_inv _ N) as I. destruct (ni_noreset _ I) as (N1 & N2 & N3 & N4).
  destruct op; try (exfalso; apply (x_reset _ X');
    cbn [net_step] in H; repeat match type of H with context [match ?x with _ => _ end] => destruct x eqn:? end;
    inversion H; subst; cbn; try assumption; fail).
  - exfalso. apply (x_reset _ X'). cbn [net_step] in H.
    destruct (is_noneb (s_fin (n_send s)) && is_noneb (s_reset (n_send s))); [|discriminate].
    destruct (write_keeps (n_send s) d fin) as (K & _). destruct (write (n_send s) d fin) as [so st']. inversion H; subst. cbn in *. congruence.
  - exfalso. apply (x_reset _ X'). cbn [net_step] in H. rewrite N1 in H. cbn [is_noneb] in H.
    destruct (get_frame_keeps (n_send s) ms mo) as (_ & K). destruct (get_frame (n_send s) ms mo) as [so st'].
    destruct so; inversion H; subst; cbn in *; congruence.
  - exfalso. apply (x_reset _ X'). cbn [net_step] in H. destruct (nthE (n_emitted s) i) as [f|]; [|discriminate].
    destruct (handle_frame (n_recv s) (ef_off f) (ef_data f) (ef_fin f)) as [ro r'].
    destruct ro; inversion H; subst; try assumption;
      match goal with |- context [report ?a ?b ?c ?d ?e ?g] => destruct (report_fields a b c d e g) as (F1 & _) end; rewrite F1; exact N1.
  - exfalso. apply (x_reset _ X'). cbn [net_step] in H. destruct (nthE (n_emitted s) i) as [f|]; [|discriminate].
    destruct (is_noneb (ef_out f) && (negb acked || ef_deliv f)); [|discriminate]. unfold ef_key in H.
    destruct (deliv_keeps (n_send s) acked (ef_off f) (ef_off f + Zlen (ef_data f)) (ef_fin f)) as (_ & K).
    destruct (on_data_delivery (n_send s) acked (ef_off f) (ef_off f + Zlen (ef_data f)) (ef_fin f)) as [so st'].
    inversion H; subst. cbn in *. congruence.
  - destruct (finok_nreach s N) as (F1 & F2). cbn [net_step reset] in H. rewrite N1 in H. inversion H; subst. unfold with_send.
    split; cbn [n_send n_racked n_resets s_finished].
    + intros Hf. destruct (F1 Hf) as [Y|(D1 & D2 & D3)]; [left; exact Y|right]. unfold delivered_all, eof. cbn. auto.
    + exact F2.
  - cbn [net_step] in H. rewrite N1 in H. discriminate.
  - cbn [net_step] in H. rewrite N2, nthZo_nil in H. discriminate.
  - cbn [net_step] in H. rewrite N2 in H. discriminate.
Qed.

(* the statement *)
Lemma x_finished_implies s : xreach s -> s_finished (n_send s) = true ->
  (n_racked s = true /\ n_resets s <> []) \/ (n_dbytes s = n_written s /\ n_ends s = 1 /\ eof s).
Proof.
  intros R Hf. destruct (x_finished_ok s R) as (F1 & F2). destruct (F1 Hf) as [Y|Y]; [left; split; [exact Y|exact (F2 Y)]|right; exact Y].
Qed.
