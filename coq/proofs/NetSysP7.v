(* C01: sender completion with resets.  In every state reachable by any schedule (reset steps included) the sender
   reports is_finished only if a RESET_STREAM was acknowledged or the receiver has reported every written byte
   and the end marker. *)
From Coq Require Import ZArith List Bool Lia ZifyBool Permutation.
From AQ Require Import lib.Base model.RangeSet model.StreamRecv model.StreamSpec model.StreamSend model.NetSys model.NetSysLive
  proofs.RangeSetP proofs.ListZ proofs.StreamRecvP proofs.StreamSendP proofs.NetSysP proofs.NetSysP2 proofs.NetSysP3
  proofs.NetSysP4 proofs.NetSysP6.

Definition delivered_all (s : net) : Prop := n_dbytes s = n_written s /\ n_ends s = 1 /\ eof s.
Definition FinOK (s : net) : Prop :=
  (s_finished (n_send s) = true -> n_racked s = true \/ delivered_all s) /\
  (n_racked s = true -> n_resets s <> []).

Lemma report_racked wf o s r' em rr : n_racked (report wf o s r' em rr) = n_racked s /\ n_resets (report wf o s r' em rr) = n_resets s.
Proof. unfold report. destruct wf; [|destruct o]; cbn; auto. Qed.

(* what one step after reset() can do to the fields FinOK talks about *)
Lemma xstep_frame s op o s' : XInv s -> net_step s op = Some (o, s') ->
  n_written s' = n_written s /\ s_fin (n_send s') = s_fin (n_send s) /\
  (n_racked s' = n_racked s /\ s_finished (n_send s') = s_finished (n_send s) /\ (n_resets s <> [] -> n_resets s' <> []) \/
   n_racked s' = true /\ n_resets s <> [] /\ n_resets s' = n_resets s).
Proof.
  intros X H. destruct (s_reset (n_send s)) as [code0|] eqn:ER; [|destruct (x_reset _ X ER)].
  destruct op; cbn [net_step] in H.
  - rewrite ER in H. cbn in H. rewrite andb_false_r in H. discriminate.
  - rewrite ER in H. discriminate.
  - destruct (nthE (n_emitted s) i) as [f|]; [|discriminate].
    destruct (handle_frame (n_recv s) (ef_off f) (ef_data f) (ef_fin f)) as [ro r'].
    destruct ro; inversion H; subst; try (split; [reflexivity|split; [reflexivity|left; auto]]);
      match goal with |- context [report ?a ?b ?c ?d ?e ?g] =>
        destruct (report_fields a b c d e g) as (F1 & _ & _ & F4); destruct (report_racked a b c d e g) as (F5 & F6) end;
      rewrite F1, F4, F5, F6; auto 10.
  - destruct (nthE (n_emitted s) i) as [f|]; [|discriminate].
    destruct (is_noneb (ef_out f) && (negb acked || ef_deliv f)); [|discriminate]. unfold ef_key in H.
    assert (Est : snd (on_data_delivery (n_send s) acked (ef_off f) (ef_off f + Zlen (ef_data f)) (ef_fin f)) = n_send s).
    { unfold on_data_delivery. rewrite ER. destruct (ef_fin f && _); reflexivity. }
    destruct (on_data_delivery (n_send s) acked (ef_off f) (ef_off f + Zlen (ef_data f)) (ef_fin f)) as [so st']. cbn [snd] in Est. subst st'.
    inversion H; subst. cbn. auto 10.
  - unfold reset in H. rewrite ER in H. inversion H; subst. cbn. auto 10.
  - rewrite ER in H. cbn [is_noneb] in H. unfold get_reset_frame in H. inversion H; subst. cbn.
    split; [reflexivity|]. split; [reflexivity|]. left. split; [reflexivity|]. split; [reflexivity|].
    intros _ E. apply app_eq_nil in E. destruct E as (_ & E). discriminate.
  - destruct (nthZo (n_resets s) j) as [fs|]; [|discriminate].
    destruct (handle_reset (n_recv s) fs) as [ro r'].
    destruct ro; inversion H; subst; try (split; [reflexivity|split; [reflexivity|left; auto]]);
      match goal with |- context [report ?a ?b ?c ?d ?e ?g] =>
        destruct (report_fields a b c d e g) as (F1 & _ & _ & F4); destruct (report_racked a b c d e g) as (F5 & F6) end;
      rewrite F1, F4, F5, F6; auto 10.
  - destruct (n_resets s) eqn:En; [discriminate|]. unfold on_reset_delivery in H.
    destruct acked; inversion H; subst; cbn; rewrite ?En.
    + split; [reflexivity|]. split; [reflexivity|]. right. split; [reflexivity|]. split; [discriminate|reflexivity].
    + split; [reflexivity|]. split; [reflexivity|]. left. split; [reflexivity|]. split; [reflexivity|]. intros _. discriminate.
  - destruct (n_queue s); [discriminate|]. inversion H; subst. cbn. auto 10.
  - inversion H; subst. auto 10.
Qed.

Lemma finok_xstep s op o s' : XInv s -> net_step s op = Some (o, s') -> FinOK s -> FinOK s'.
Proof.
  intros X H (F1 & F2). destruct (xstep_frame s op o s' X H) as (W & Ef & [(Ra & Fi & Rs)|(Ra & Rs & Rs')]).
  - split.
    + rewrite Fi, Ra. intros Hf. destruct (F1 Hf) as [Y|(D1 & D2 & D3)]; [left; exact Y|right].
      (* everything had been delivered: the receive half was finished, so this step reports nothing *)
      assert (Hfin : r_finished (n_recv s) = true).
      { pose proof (x_recv _ X) as A. destruct (n_rreset s); [exact (proj1 A)|].
        destruct A as (sp & _ & _ & _ & E). rewrite D2 in E. destruct (r_finished (n_recv s)); [reflexivity|discriminate]. }
      assert (Hsame : n_dbytes s' = n_dbytes s /\ n_ends s' = n_ends s).
      { destruct op; try (destruct (step_queue s _ o s' H ltac:(discriminate)) as (q & _ & (S1 & S2 & S3 & _));
                          destruct (S3 Hfin) as (_ & ->); rewrite S1, S2; cbn; rewrite app_nil_r; split; [reflexivity|lia]).
        destruct (pop_shape s o s' H) as (P1 & P2 & _). auto. }
      destruct Hsame as (H1 & H2). unfold delivered_all, eof. rewrite H1, H2, W, Ef. auto.
    + rewrite Ra. intros Hr. apply Rs, F2, Hr.
  - split; [intros _; left; exact Ra|]. intros _. rewrite Rs'. exact Rs.
Qed.

Lemma finok_nreach s : nreach s -> FinOK s.
Proof.
  intros R. split.
  - intros Hf. right. destruct (finished_implies_delivered s R Hf) as (A & B & C). repeat split; assumption.
  - pose proof (nreach_inv _ R) as I. destruct (ni_noreset _ I) as (_ & _ & _ & N4). congruence.
Qed.

Lemma x_finished_ok s : xreach s -> FinOK s.
Proof.
  induction 1 as [|s op o s' R IH H]; [exact (finok_nreach _ nreach_init)|].
  destruct (xreach_cases s R) as [N|X]; [|exact (finok_xstep s op o s' X H IH)].
  destruct (xreach_cases s' (xreach_step _ _ _ _ R H)) as [N'|X']; [exact (finok_nreach _ N')|].
  (* the step was reset() on a data-step state *)
  pose proof (nreach_inv _ N) as I. destruct (ni_noreset _ I) as (N1 & N2 & N3 & N4).
  destruct op; try (exfalso; apply (x_reset _ X');
    cbn [net_step] in H; repeat match type of H with context [match ?x with _ => _ end] => destruct x eqn:? end;
    inversion H; subst; cbn; try assumption; fail).
  - exfalso. apply (x_reset _ X'). cbn [net_step] in H.
    destruct (is_noneb (s_fin (n_send s)) && is_noneb (s_reset (n_send s))); [|discriminate].
    destruct (write_keeps (n_send s) d fin) as (K & _). destruct (write (n_send s) d fin) as [so st']. inversion H; subst. cbn in *. congruence.
  - exfalso. apply (x_reset _ X'). cbn [net_step] in H. rewrite N1 in H. cbn [is_noneb] in H.
    destruct (get_frame_keeps (n_send s) ms mo) as (_ & K). destruct (get_frame (n_send s) ms mo) as [so st'].
    destruct so; inversion H; subst; cbn in *; congruence.
  - exfalso. apply (x_reset _ X'). cbn [net_step] in H. destruct (nthE (n_emitted s) i) as [f|]; [|discriminate].
    destruct (handle_frame (n_recv s) (ef_off f) (ef_data f) (ef_fin f)) as [ro r'].
    destruct ro; inversion H; subst; try assumption;
      match goal with |- context [report ?a ?b ?c ?d ?e ?g] => destruct (report_fields a b c d e g) as (F1 & _) end; rewrite F1; exact N1.
  - exfalso. apply (x_reset _ X'). cbn [net_step] in H. destruct (nthE (n_emitted s) i) as [f|]; [|discriminate].
    destruct (is_noneb (ef_out f) && (negb acked || ef_deliv f)); [|discriminate]. unfold ef_key in H.
    destruct (deliv_keeps (n_send s) acked (ef_off f) (ef_off f + Zlen (ef_data f)) (ef_fin f)) as (_ & K).
    destruct (on_data_delivery (n_send s) acked (ef_off f) (ef_off f + Zlen (ef_data f)) (ef_fin f)) as [so st'].
    inversion H; subst. cbn in *. congruence.
  - destruct (finok_nreach s N) as (F1 & F2). cbn [net_step reset] in H. rewrite N1 in H. inversion H; subst. unfold with_send.
    split; cbn [n_send n_racked n_resets s_finished].
    + intros Hf. destruct (F1 Hf) as [Y|(D1 & D2 & D3)]; [left; exact Y|right]. unfold delivered_all, eof. cbn. auto.
    + exact F2.
  - cbn [net_step] in H. rewrite N1 in H. discriminate.
  - cbn [net_step] in H. rewrite N2, nthZo_nil in H. discriminate.
  - cbn [net_step] in H. rewrite N2 in H. discriminate.
Qed.

(* the statement *)
Lemma x_finished_implies s : xreach s -> s_finished (n_send s) = true ->
  (n_racked s = true /\ n_resets s <> []) \/ (n_dbytes s = n_written s /\ n_ends s = 1 /\ eof s).
Proof.
  intros R Hf. destruct (x_finished_ok s R) as (F1 & F2). destruct (F1 Hf) as [Y|Y]; [left; split; [exact Y|exact (F2 Y)]|right; exact Y].
Qed.

(* ---------- liveness after reset(): three steps complete a reset stream ---------- *)
Lemma xreach_noreset_nreach s : xreach s -> s_reset (n_send s) = None -> nreach s.
Proof. intros R E. destruct (xreach_cases s R) as [N|X]; [exact N|destruct (x_reset _ X E)]. Qed.

Lemma nthZo_mid (pre : list Z) x t : nthZo (pre ++ x :: t) (Zlen pre) = Some x.
Proof.
  unfold nthZo, Zlen. assert (E : Z.of_nat (length pre) <? 0 = false) by lia. rewrite E, Nat2Z.id.
  rewrite nth_error_app2 by lia. rewrite Nat.sub_diag. reflexivity.
Qed.


Lemma reset_completes s : xreach s -> s_reset (n_send s) <> None ->
  exists s', run_sched s (reset_round s) = Some s' /\
    s_finished (n_send s') = true /\ n_racked s' = true /\ n_rreset s' = true /\ r_finished (n_recv s') = true /\
    n_resets s' = n_resets s ++ [s_highest (n_send s)] /\
    sched_events s (reset_round s) = (if r_finished (n_recv s) then [] else [RReset]).
Proof.
  intros R Hr. unfold reset_round.
  (* step 1 *)
  set (s1 := mkNet (snd (get_reset_frame (n_send s))) (n_recv s) (n_written s) (n_racked s) (n_emitted s)
                   (n_resets s ++ [s_highest (n_send s)]) (n_rreset s) (n_queue s) (n_dbytes s) (n_ends s)).
  assert (S1 : net_step s NEmitReset = Some (OResetFrame (s_highest (n_send s)), s1)).
  { cbn [net_step]. destruct (s_reset (n_send s)) eqn:ER; [|congruence]. cbn [is_noneb]. reflexivity. }
  assert (R1 : xreach s1) by (eapply xreach_step; eassumption).
  (* step 2 *)
  assert (E2 : nthZo (n_resets s1) (Zlen (n_resets s)) = Some (s_highest (n_send s))) by (unfold s1; cbn [n_resets]; apply nthZo_mid).
  pose proof (handle_reset_facts (n_recv s1) (s_highest (n_send s))) as HR.
  assert (S2 : exists o2 s2, net_step s1 (NDeliverReset (Zlen (n_resets s))) = Some (o2, s2)).
  { cbn [net_step]. rewrite E2. destruct (handle_reset (n_recv s1) (s_highest (n_send s))) as [ro r']. destruct ro; eauto. }
  destruct S2 as (o2 & s2 & S2).
  pose proof (x_no_spurious_final_size_error s1 _ _ _ R1 S2) as Hne.
  assert (S2' : s2 = report (r_finished (n_recv s)) RReset s1 (snd (handle_reset (n_recv s) (s_highest (n_send s)))) (n_emitted s) true /\
                r_finished (snd (handle_reset (n_recv s) (s_highest (n_send s)))) = true).
  { cbn [net_step] in S2. rewrite E2 in S2. change (n_recv s1) with (n_recv s) in *. change (n_emitted s1) with (n_emitted s) in *.
    destruct (r_final (n_recv s)) as [f0|] eqn:Ef.
    - destruct (negb (f0 =? s_highest (n_send s))) eqn:En.
      + rewrite HR in S2. inversion S2; subst. contradiction Hne. reflexivity.
      + destruct HR as (H1 & _ & H3). destruct (handle_reset (n_recv s) (s_highest (n_send s))) as [ro r']. cbn [fst snd] in *. subst ro.
        inversion S2; subst. auto.
    - destruct HR as (H1 & _ & H3). destruct (handle_reset (n_recv s) (s_highest (n_send s))) as [ro r']. cbn [fst snd] in *. subst ro.
      inversion S2; subst. auto. }
  destruct S2' as (-> & Hfin).
  set (r' := snd (handle_reset (n_recv s) (s_highest (n_send s)))) in *.
  destruct (report_fields (r_finished (n_recv s)) RReset s1 r' (n_emitted s) true) as (F1 & F2 & _ & _).
  destruct (report_racked (r_finished (n_recv s)) RReset s1 r' (n_emitted s) true) as (F5 & F6).
  assert (F7 : n_rreset (report (r_finished (n_recv s)) RReset s1 r' (n_emitted s) true) = true)
    by (unfold report; destruct (r_finished (n_recv s)); reflexivity).
  assert (F8 : n_queue (report (r_finished (n_recv s)) RReset s1 r' (n_emitted s) true) =
               n_queue s ++ (if r_finished (n_recv s) then [] else [RReset]))
    by (unfold report; destruct (r_finished (n_recv s)); cbn; rewrite ?app_nil_r; reflexivity).
  remember (report (r_finished (n_recv s)) RReset s1 r' (n_emitted s) true) as s2 eqn:Es2.
  assert (F9 : n_resets s1 = n_resets s ++ [s_highest (n_send s)]) by reflexivity.
  (* step 3 *)
  assert (S3 : exists s3, net_step s2 (NResetOutcome true) = Some (ONone, s3) /\ s_finished (n_send s3) = true /\ n_racked s3 = true /\
             n_rreset s3 = true /\ n_recv s3 = r' /\ n_resets s3 = n_resets s ++ [s_highest (n_send s)] /\ n_queue s3 = n_queue s2).
  { cbn [net_step]. rewrite F6, F9. destruct (n_resets s ++ [s_highest (n_send s)]) eqn:En.
    - apply app_eq_nil in En. destruct En as (_ & En). discriminate.
    - unfold on_reset_delivery. eexists. split; [reflexivity|].
      cbn [n_send n_racked n_rreset n_recv n_resets n_queue s_finished]. rewrite ?F2, ?F7. auto 10. }
  destruct S3 as (s3 & S3 & G1 & G2 & G3 & G4 & G5 & G6).
  exists s3. split; [cbn [run_sched]; rewrite S1, S2, S3; reflexivity|].
  split; [exact G1|]. split; [exact G2|]. split; [exact G3|]. split; [rewrite G4; exact Hfin|]. split; [exact G5|].
  cbn [sched_events]. rewrite S1, S2, S3. unfold queued. rewrite G6, F8.
  change (n_queue s1) with (n_queue s).
  rewrite (skipn_all (n_queue s)), (skipn_app_exact (n_queue s)), skipn_all. cbn [app]. rewrite !app_nil_r. reflexivity.
Qed.

Example reset_round_example :
  match run_sched net_init [NWrite [1; 2; 3; 4] false; NEmit 2 None; NDeliver 0; NReset 7; NEmitReset; NResetOutcome false] with
  | Some s => reset_round s = [NEmitReset; NDeliverReset 1; NResetOutcome true] /\
              match run_sched s (reset_round s) with
              | Some s' => s_finished (n_send s') = true /\ n_queue s' = [RData [1; 2] false; RReset] /\ n_resets s' = [2; 2]
              | None => False
              end
  | None => False
  end.
Proof. vm_compute. repeat split; reflexivity. Qed.
