(* C04 proofs over the generated memory model (gen/CMem.v) and the specification (model/CMemSpec.v). *)
From Coq Require Import ZArith List Bool Lia ZifyBool.
From AQ Require Import model.CMemBase gen.CMem model.CMemSpec.
Import ListNotations.
Local Open Scope Z_scope.

(* ---------- generic facts about event lists ---------- *)
Lemma acc_okb_ok a : acc_okb a = true <-> acc_ok a.
Proof. unfold acc_okb, acc_ok. lia. Qed.

Lemma oob_accs_sound l : Forall acc_ok l -> oob_accs l = None.
Proof.
  induction 1 as [|a r Ha _ IH]; cbn; auto.
  apply acc_okb_ok in Ha. rewrite Ha. exact IH.
Qed.

Lemma oob_loop_sound f n i : (forall j, i <= j < i + Z.of_nat n -> Forall acc_ok (f j)) -> oob_loop n i f = None.
Proof.
  revert i; induction n as [|n IH]; intros i H; cbn [oob_loop]; auto.
  rewrite oob_accs_sound by (apply H; lia).
  apply IH. intros j Hj. apply H. lia.
Qed.

Lemma oob_of_sound es : events_safe es -> oob_of es = None.
Proof.
  unfold events_safe. induction 1 as [|e r He _ IH]; cbn [oob_of]; auto.
  destruct e as [g a|g lo hi f|g x p|g x p]; cbn [ev_safe] in He; destruct g; auto.
  - specialize (He eq_refl). apply acc_okb_ok in He. rewrite He. exact IH.
  - rewrite oob_loop_sound; auto. intros j Hj. apply He; auto. lia.
Qed.

Lemma first_term_ok p0 cap es b c p :
  Forall (ev_term_ok p0 cap) es -> first_term es = Some (b, c, p) ->
  (b = true -> 0 <= p <= cap) /\ (b = false -> p = p0).
Proof.
  induction 1 as [|e r He _ IH]; cbn [first_term]; try discriminate.
  destruct e as [g a|g lo hi f|g x q|g x q]; cbn [ev_term_ok] in He; auto;
    destruct g; auto; intros E; inversion E; subst; split; intros; try discriminate; auto.
Qed.

(* ---------- Buffer: one step ---------- *)
Lemma step_from s o :
  binv s -> events_safe (op_events s o) ->
  Forall (ev_term_ok (b_pos s - b_base s) (b_end s - b_base s)) (op_events s o) -> step_ok s o.
Proof.
  intros Hi Hs Ht. unfold step_ok, bstep, op_rejected.
  destruct (first_term (op_events s o)) as [[[b c] p]|] eqn:E.
  - destruct (first_term_ok _ _ _ _ _ _ Ht E) as [Hr Hj]. unfold binv in *. cbn.
    destruct b.
    + specialize (Hr eq_refl). repeat split; auto; try lia; try discriminate.
    + specialize (Hj eq_refl). repeat split; auto; try lia; try discriminate.
  - repeat split; auto; try apply Hi; try discriminate.
Qed.

Ltac buf_op S T :=
  apply step_from; [ assumption | apply S | apply T ];
  match goal with H : binv _ |- _ => unfold binv, ADDR_MAX in H; cbn in H end;
  hnf; cbn [b_base b_pos b_end]; first [ exact I | lia ].

Lemma step_ok_holds s o : binv s -> op_typed o -> step_ok s o.
Proof.
  intros Hi Ht. destruct s as [b p e].
  destruct o; cbn in Ht; unfold ssize_ok in Ht.
  - buf_op safe_Buffer_data_slice term_Buffer_data_slice.
  - buf_op safe_Buffer_eof term_Buffer_eof.
  - buf_op safe_Buffer_pull_bytes term_Buffer_pull_bytes.
  - buf_op safe_Buffer_pull_uint8 term_Buffer_pull_uint8.
  - buf_op safe_Buffer_pull_uint16 term_Buffer_pull_uint16.
  - buf_op safe_Buffer_pull_uint32 term_Buffer_pull_uint32.
  - buf_op safe_Buffer_pull_uint64 term_Buffer_pull_uint64.
  - buf_op safe_Buffer_pull_uint_var term_Buffer_pull_uint_var.
  - buf_op safe_Buffer_push_bytes term_Buffer_push_bytes.
  - buf_op safe_Buffer_push_uint8 term_Buffer_push_uint8.
  - buf_op safe_Buffer_push_uint16 term_Buffer_push_uint16.
  - buf_op safe_Buffer_push_uint32 term_Buffer_push_uint32.
  - buf_op safe_Buffer_push_uint64 term_Buffer_push_uint64.
  - buf_op safe_Buffer_push_uint_var term_Buffer_push_uint_var.
  - buf_op safe_Buffer_seek term_Buffer_seek.
  - buf_op safe_Buffer_tell term_Buffer_tell.
  - buf_op safe_Buffer_capacity_getter term_Buffer_capacity_getter.
  - buf_op safe_Buffer_data_getter term_Buffer_data_getter.
Qed.

(* ---------- Buffer: every method sequence ---------- *)
Lemma buffer_safe_seq : forall ops s, binv s -> Forall op_typed ops ->
  Forall (fun so => binv (fst so) /\ step_ok (fst so) (snd so)) (run_ops s ops).
Proof.
  induction ops as [|o r IH]; intros s Hi Ht; cbn [run_ops]; constructor.
  - inversion Ht; subst. cbn. split; auto. apply step_ok_holds; auto.
  - inversion Ht; subst. apply IH; auto.
    destruct (step_ok_holds s o Hi H1) as (_ & Hb & _). exact Hb.
Qed.

Example binv_example : binv {| b_base := 4096; b_pos := 4100; b_end := 4128 |}.
Proof. unfold binv, ADDR_MAX; cbn; lia. Qed.
Example buffer_seq_example :
  exec_cbuf [8; 0; 10; 5; 0; 13; 70000; 0; 14; 0; 0; 7; 0; 0; 2; 9; 0] = [0; 0; 2; 0; 0; 6; 0; 0; 0; 0; 0; 1; 1; 3; 1].
Proof. vm_compute. reflexivity. Qed.

(* ---------- Buffer constructor ---------- *)
Definition buffer_init_safe : Prop :=
  forall capacity data_len data_given parsed malloc_ok malloc_ok2,
    R_Buffer_init capacity data_len data_given parsed malloc_ok malloc_ok2 ->
    events_safe (ev_Buffer_init capacity data_len data_given parsed malloc_ok malloc_ok2).

Lemma buffer_init_under_contract :
  forall capacity data_len data_given parsed malloc_ok malloc_ok2,
    R_Buffer_init capacity data_len data_given parsed malloc_ok malloc_ok2 ->
    (data_given = 0 -> 0 <= capacity) -> malloc_ok = 1 -> malloc_ok2 = 1 ->
    events_safe (ev_Buffer_init capacity data_len data_given parsed malloc_ok malloc_ok2).
Proof.
  intros. apply safe_Buffer_init; auto.
  unfold K_Buffer_init; unfold R_Buffer_init in *; repeat split; intros; try exact I; lia.
Qed.
