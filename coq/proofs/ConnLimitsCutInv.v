(* C07: the history-level invariants CInv, Sim, MSim for op sequences that contain CUT write passes (model/ConnLimitsCut.v),
   whatever RAISE_BEFORE_START_FRAME is: a pass, cut or not, leaves every limit at least as large as every value it wrote.
   The six stages of the pass are instances of one relation [Pass] that is reflexive and transitive; [discard] is handled
   separately.  Result: within_limit_never_accused for histories with cut passes, and buffer_bounded for them. *)
From Coq Require Import ZArith List Bool Lia ZifyBool.
From AQ Require Import lib.Base model.RangeSet model.StreamRecv model.ConnLimits model.ConnLimitsSpec model.ConnLimitsCut gen.C07Consts
  proofs.RangeSetP proofs.ListZ proofs.ConnLimitsP proofs.ConnLimitsAdv proofs.ConnLimitsSim proofs.ConnLimitsMsd proofs.ConnLimitsCutP.

(* ---------- the relation between the state before and after (a part of) a write pass ---------- *)
Definition lim_le (l l' : limit) : Prop := l_used l' = l_used l /\ l_value l <= l_value l'.
Definition keyed_le (q q' : Z * strm) : Prop := fst q' = fst q /\ strm_le (snd q) (snd q').

(* a frame on the wire never carries more than what is in force afterwards *)
Definition wire_le (c1 : conn) (x : wire) : Prop :=
  match x with W ft a v =>
    (ft = FT_MAX_DATA -> v <= l_value (c_data c1)) /\
    (ft = FT_MAX_STREAMS_BIDI -> v <= l_value (c_bidi c1)) /\
    (ft = FT_MAX_STREAMS_UNI -> v <= l_value (c_uni c1)) /\
    (ft = FT_MAX_STREAM_DATA -> exists s', In (a, s') (c_streams c1) /\ v <= sm_msd s')
  end.

Record Pass (c : conn) (w : list wire) (c1 : conn) : Prop := {
  pa_client : c_client c1 = c_client c;
  pa_msd : c_msd c1 = c_msd c;
  pa_done : c_done c1 = c_done c;
  pa_crypto : c_crypto c1 = c_crypto c;
  pa_lchal : c_lchal c1 = c_lchal c;
  pa_avail : c_cid_avail c1 = c_cid_avail c;
  pa_gone : c_gone c1 = c_gone c;
  pa_tls : c_tls c1 = c_tls c;
  pa_paths : c_paths c1 = c_paths c;
  pa_chal : Zlen (c_chal c1) <= Zlen (c_chal c);
  pa_ret : Zlen (c_retire c1) <= Zlen (c_retire c);
  pa_data : lim_le (c_data c) (c_data c1);
  pa_bidi : lim_le (c_bidi c) (c_bidi c1);
  pa_uni : lim_le (c_uni c) (c_uni c1);
  pa_streams : Forall2 keyed_le (c_streams c) (c_streams c1);
  pa_wire : Forall (wire_le c1) w
}.

Lemma lim_le_refl l : lim_le l l.
Proof. split; [reflexivity|lia]. Qed.
Lemma lim_le_trans l1 l2 l3 : lim_le l1 l2 -> lim_le l2 l3 -> lim_le l1 l3.
Proof. intros (A1 & A2) (B1 & B2). split; [congruence|lia]. Qed.

Lemma strm_le_refl s : strm_le s s.
Proof. repeat split; lia. Qed.
Lemma strm_le_trans s1 s2 s3 : strm_le s1 s2 -> strm_le s2 s3 -> strm_le s1 s3.
Proof. intros (A1 & A2 & A3) (B1 & B2 & B3). repeat split; [congruence|congruence|lia]. Qed.

Lemma keyed_refl l : Forall2 keyed_le l l.
Proof. induction l as [|q t IH]; constructor; [split; [reflexivity|apply strm_le_refl]|exact IH]. Qed.

Lemma keyed_trans l1 : forall l2 l3, Forall2 keyed_le l1 l2 -> Forall2 keyed_le l2 l3 -> Forall2 keyed_le l1 l3.
Proof.
  induction l1 as [|q t IH]; intros l2 l3 H1 H2; inversion H1; subst; inversion H2; subst; constructor.
  - destruct H3 as (A1 & A2). destruct H4 as (B1 & B2). split; [congruence|eapply strm_le_trans; eassumption].
  - eapply IH; eassumption.
Qed.

Lemma keyed_keys l l' : Forall2 keyed_le l l' -> map fst l' = map fst l.
Proof. induction 1 as [|q q' t t' (H & _) _ IH]; cbn; [reflexivity|]. rewrite H, IH. reflexivity. Qed.

Lemma keyed_sget l l' : Forall2 keyed_le l l' -> forall k,
  match sget k l' with
  | Some s' => exists s, sget k l = Some s /\ strm_le s s'
  | None => sget k l = None
  end.
Proof.
  induction 1 as [|[k0 s0] [k1 s1] t t' (H & L) _ IH]; intros k; cbn [sget]; [reflexivity|].
  cbn [fst snd] in H, L. subst k1. destruct (k0 =? k); [exists s0; auto|apply IH].
Qed.

Lemma keyed_in l l' : Forall2 keyed_le l l' -> forall a s, In (a, s) l -> exists s', In (a, s') l' /\ sm_msd s <= sm_msd s'.
Proof.
  induction 1 as [|[k0 s0] [k1 s1] t t' (H & L) _ IH]; intros a s; cbn [In]; [tauto|].
  cbn [fst snd] in H, L. subst k1. intros [E|E].
  - inversion E; subst. exists s1. split; [left; reflexivity|apply L].
  - destruct (IH _ _ E) as (s' & I1 & I2). exists s'. split; [right; exact I1|exact I2].
Qed.

Lemma keyed_sum_hi l l' : Forall2 keyed_le l l' -> sum_hi l' = sum_hi l.
Proof.
  induction 1 as [|q q' t t' (H & L & _) _ IH]; [reflexivity|]. rewrite !sum_hi_cons, IH. unfold hi_of. rewrite L. reflexivity.
Qed.

Lemma keyed_SOK l l' : Forall2 keyed_le l l' -> Forall (fun q => SOK (snd q)) l -> Forall (fun q => SOK (snd q)) l'.
Proof.
  induction 1 as [|q q' t t' (H & L1 & L2 & L3) _ IH]; intros F; [constructor|]. inversion F; subst.
  constructor; [|apply IH; assumption]. destruct H2 as (B & Hm). split; [rewrite L1; exact B|rewrite L1; lia].
Qed.

Lemma keyed_nonneg l l' : Forall2 keyed_le l l' -> Forall (fun q => 0 <= sm_msd (snd q)) l -> Forall (fun q => 0 <= sm_msd (snd q)) l'.
Proof.
  induction 1 as [|q q' t t' (H & L1 & L2 & L3) _ IH]; intros F; [constructor|]. inversion F; subst.
  constructor; [lia|apply IH; assumption].
Qed.

Lemma wire_le_mono c1 c2 x :
  l_value (c_data c1) <= l_value (c_data c2) -> l_value (c_bidi c1) <= l_value (c_bidi c2) ->
  l_value (c_uni c1) <= l_value (c_uni c2) -> Forall2 keyed_le (c_streams c1) (c_streams c2) ->
  wire_le c1 x -> wire_le c2 x.
Proof.
  intros H1 H2 H3 K. destruct x as [ft a v]. cbn [wire_le]. intros (A & B & C & D).
  split; [intros E; specialize (A E); lia|]. split; [intros E; specialize (B E); lia|]. split; [intros E; specialize (C E); lia|].
  intros E. destruct (D E) as (s' & I1 & I2). destruct (keyed_in _ _ K _ _ I1) as (s'' & J1 & J2). exists s''. split; [exact J1|lia].
Qed.

Lemma Pass_refl c : Pass c [] c.
Proof. constructor; try reflexivity; try lia; try apply lim_le_refl; [apply keyed_refl|constructor]. Qed.

Lemma Pass_trans c w1 c1 w2 c2 : Pass c w1 c1 -> Pass c1 w2 c2 -> Pass c (w1 ++ w2) c2.
Proof.
  intros P Q. destruct P, Q. constructor; try congruence; try lia; try (eapply lim_le_trans; eassumption).
  - eapply keyed_trans; eassumption.
  - apply Forall_app. split; [|assumption]. eapply Forall_impl; [|exact pa_wire0]. intros x.
    apply wire_le_mono; [apply pa_data1|apply pa_bidi1|apply pa_uni1|assumption].
Qed.

Definition NonNeg (c : conn) : Prop :=
  0 <= l_value (c_data c) /\ 0 <= l_value (c_bidi c) /\ 0 <= l_value (c_uni c) /\
  Forall (fun q => 0 <= sm_msd (snd q)) (c_streams c).

Lemma Pass_nonneg c w c1 : Pass c w c1 -> NonNeg c -> NonNeg c1.
Proof.
  intros P (N1 & N2 & N3 & N4). destruct P. destruct pa_data0, pa_bidi0, pa_uni0.
  split; [lia|]. split; [lia|]. split; [lia|]. eapply keyed_nonneg; eassumption.
Qed.

Lemma CInv_nonneg c : CInv c -> NonNeg c.
Proof.
  intros I. pose proof (sum_hi_nonneg _ (ci_streams _ I)). pose proof (ci_sum _ I). pose proof (ci_gone _ I).
  pose proof (ci_used _ I). pose proof (ci_bidi _ I). pose proof (ci_uni _ I).
  split; [lia|]. split; [lia|]. split; [lia|].
  eapply Forall_impl; [|exact (ci_streams _ I)]. intros q. apply SOK_msd_nonneg.
Qed.

(* ---------- every stage is a Pass ---------- *)
Lemma drain_split q : forall b, let '(w, r, b') := drain q b in q = w ++ r.
Proof.
  induction q as [|x t IH]; intros b; cbn [drain]; [reflexivity|]. destruct (b <=? 0); [reflexivity|].
  specialize (IH (b - 1)). destruct (drain t (b - 1)) as [[w r] b']. cbn. rewrite <- IH. reflexivity.
Qed.

Lemma other_wire_le c1 ft (l : list Z) :
  ft <> FT_MAX_DATA -> ft <> FT_MAX_STREAMS_BIDI -> ft <> FT_MAX_STREAMS_UNI -> ft <> FT_MAX_STREAM_DATA ->
  Forall (wire_le c1) (map (fun d => W ft 0 d) l).
Proof.
  intros N1 N2 N3 N4. apply Forall_forall. intros x Hx. apply in_map_iff in Hx. destruct Hx as (y & Hy & _). subst x.
  cbn [wire_le]. repeat split; intros E; congruence.
Qed.

Lemma st_chal_pass c b c1 w r : NonNeg c -> st_chal c b = (c1, w, r) -> Pass c w c1.
Proof.
  intros _. unfold st_chal. pose proof (drain_split (c_chal c) b) as D. destruct (drain (c_chal c) b) as [[w0 r0] b'].
  intros H; inversion H; subst; clear H.
  assert (L : Zlen r0 <= Zlen (c_chal c)) by (rewrite D, Zlen_app; pose proof (Zlen_nonneg w0); lia).
  constructor; cbn; try reflexivity; try lia; try apply lim_le_refl; [apply keyed_refl|].
  apply other_wire_le; vm_compute; discriminate.
Qed.

Lemma st_ret_pass c b c1 w r : NonNeg c -> st_ret c b = (c1, w, r) -> Pass c w c1.
Proof.
  intros _. unfold st_ret. pose proof (drain_split (c_retire c) b) as D. destruct (drain (c_retire c) b) as [[w0 r0] b'].
  intros H; inversion H; subst; clear H.
  assert (L : Zlen r0 <= Zlen (c_retire c)) by (rewrite D, Zlen_app; pose proof (Zlen_nonneg w0); lia).
  constructor; cbn; try reflexivity; try lia; try apply lim_le_refl; [apply keyed_refl|].
  apply other_wire_le; vm_compute; discriminate.
Qed.

Lemma limit_wire_le c1 ft v w :
  Forall (fun x => x = W ft 0 v) w ->
  (ft = FT_MAX_DATA -> v <= l_value (c_data c1)) -> (ft = FT_MAX_STREAMS_BIDI -> v <= l_value (c_bidi c1)) ->
  (ft = FT_MAX_STREAMS_UNI -> v <= l_value (c_uni c1)) -> ft <> FT_MAX_STREAM_DATA ->
  Forall (wire_le c1) w.
Proof.
  intros F A B C D. eapply Forall_impl; [|exact F]. intros x Hx. cbv beta in Hx. subst x. cbn [wire_le].
  split; [exact A|]. split; [exact B|]. split; [exact C|]. intros E. congruence.
Qed.

Lemma st_data_pass c b c1 w r : NonNeg c -> st_data c b = (c1, w, r) -> Pass c w c1.
Proof.
  intros (N & _). unfold st_data. pose proof (raise_limit_b_sound FT_MAX_DATA (c_data c) b N) as S.
  destruct (raise_limit_b FT_MAX_DATA (c_data c) b) as [[l' w0] r0]. destruct S as (V & U & F & _ & _).
  intros H; inversion H; subst; clear H.
  constructor; cbn; try reflexivity; try lia; try apply lim_le_refl; [split; assumption|apply keyed_refl|].
  eapply limit_wire_le; [exact F| | | |]; cbn; intros; try lia; try (exfalso; vm_compute in H; discriminate); vm_compute; discriminate.
Qed.

Lemma st_bidi_pass c b c1 w r : NonNeg c -> st_bidi c b = (c1, w, r) -> Pass c w c1.
Proof.
  intros (_ & N & _). unfold st_bidi. pose proof (raise_limit_b_sound FT_MAX_STREAMS_BIDI (c_bidi c) b N) as S.
  destruct (raise_limit_b FT_MAX_STREAMS_BIDI (c_bidi c) b) as [[l' w0] r0]. destruct S as (V & U & F & _ & _).
  intros H; inversion H; subst; clear H.
  constructor; cbn; try reflexivity; try lia; try apply lim_le_refl; [split; assumption|apply keyed_refl|].
  eapply limit_wire_le; [exact F| | | |]; cbn; intros; try lia; try (exfalso; vm_compute in H; discriminate); vm_compute; discriminate.
Qed.

Lemma st_uni_pass c b c1 w r : NonNeg c -> st_uni c b = (c1, w, r) -> Pass c w c1.
Proof.
  intros (_ & _ & N & _). unfold st_uni. pose proof (raise_limit_b_sound FT_MAX_STREAMS_UNI (c_uni c) b N) as S.
  destruct (raise_limit_b FT_MAX_STREAMS_UNI (c_uni c) b) as [[l' w0] r0]. destruct S as (V & U & F & _ & _).
  intros H; inversion H; subst; clear H.
  constructor; cbn; try reflexivity; try lia; try apply lim_le_refl; [split; assumption|apply keyed_refl|].
  eapply limit_wire_le; [exact F| | | |]; cbn; intros; try lia; try (exfalso; vm_compute in H; discriminate); vm_compute; discriminate.
Qed.

Lemma st_streams_pass c b c1 w r : NonNeg c -> st_streams c b = (c1, w, r) -> Pass c w c1.
Proof.
  intros (_ & _ & _ & N). unfold st_streams. pose proof (raise_streams_b_sound (c_streams c) N b) as S.
  destruct (raise_streams_b (c_streams c) b) as [[l' w0] r0]. destruct S as (K & F).
  intros H; inversion H; subst; clear H.
  constructor; cbn; try reflexivity; try lia; try apply lim_le_refl; [exact K|].
  eapply Forall_impl; [|exact F]. intros [ft a v] (E & s' & I1 & I2 & _). cbn [wire_le]. subst ft.
  split; [intros E; vm_compute in E; discriminate|]. split; [intros E; vm_compute in E; discriminate|].
  split; [intros E; vm_compute in E; discriminate|]. intros _. exists s'. split; [exact I1|lia].
Qed.

Lemma seq_pass (f g : stage) :
  (forall c b c1 w r, NonNeg c -> f c b = (c1, w, r) -> Pass c w c1) ->
  (forall c b c1 w r, NonNeg c -> g c b = (c1, w, r) -> Pass c w c1) ->
  forall c b c1 w r, NonNeg c -> seq f g c b = (c1, w, r) -> Pass c w c1.
Proof.
  intros Hf Hg c b c1 w r N. unfold seq. destruct (f c b) as [[c' w1] [b1|]] eqn:F.
  - pose proof (Hf _ _ _ _ _ N F) as P1. destruct (g c' b1) as [[c2 w2] b2] eqn:G.
    pose proof (Hg _ _ _ _ _ (Pass_nonneg _ _ _ P1 N) G) as P2.
    intros H; inversion H; subst. eapply Pass_trans; eassumption.
  - intros H; inversion H; subst. eapply Hf; eassumption.
Qed.

Lemma limit_stages_pass c b c1 w r : NonNeg c -> limit_stages c b = (c1, w, r) -> Pass c w c1.
Proof.
  unfold limit_stages. revert c b c1 w r.
  apply seq_pass; [exact st_chal_pass|]. apply seq_pass; [exact st_ret_pass|]. apply seq_pass; [exact st_data_pass|].
  apply seq_pass; [exact st_bidi_pass|]. apply seq_pass; [exact st_uni_pass|exact st_streams_pass].
Qed.

(* ---------- a Pass keeps CInv, Sim and MSim ---------- *)
Lemma In_sget k s l : NoDup (map fst l) -> In (k, s) l -> sget k l = Some s.
Proof.
  induction l as [|[k0 s0] t IH]; cbn [map fst In sget]; [tauto|]. intros ND. inversion ND; subst. intros [E|E].
  - inversion E; subst. rewrite Z.eqb_refl. reflexivity.
  - destruct (k0 =? k) eqn:E0; [|apply IH; assumption]. exfalso. apply H1. assert (k0 = k) by lia. subst.
    apply (in_map fst) in E. exact E.
Qed.

Lemma Pass_cinv c w c1 : CInv c -> Pass c w c1 -> CInv c1.
Proof.
  intros I P. destruct P. destruct pa_data0 as (D1 & D2), pa_bidi0 as (B1 & B2), pa_uni0 as (U1 & U2).
  pose proof (ci_bidi _ I). pose proof (ci_uni _ I). pose proof (ci_used _ I). pose proof (ci_sum _ I).
  pose proof (ci_chal _ I). pose proof (ci_retire _ I).
  constructor; rewrite ?pa_msd0, ?pa_crypto0, ?pa_lchal0, ?pa_avail0, ?pa_gone0, ?pa_tls0, ?pa_paths0;
    try apply I; try lia.
  - eapply keyed_SOK; [eassumption|apply I].
  - rewrite (keyed_sum_hi _ _ pa_streams0). lia.
Qed.

Lemma Pass_wok c w c1 : Pass c w c1 -> Forall (wok (l_value (c_data c1)) (l_value (c_bidi c1)) (l_value (c_uni c1))) w.
Proof.
  intros P. eapply Forall_impl; [|exact (pa_wire _ _ _ P)]. intros [ft a v] (A & B & C & _). cbn [wok]. auto.
Qed.

Lemma Pass_sim c p w c1 : Sim c p -> Pass c w c1 -> Sim c1 (peer_see p w).
Proof.
  intros S P. pose proof (Pass_wok _ _ _ P) as WOK. destruct P.
  destruct pa_data0 as (D1 & D2), pa_bidi0 as (B1 & B2), pa_uni0 as (U1 & U2).
  pose proof (s_data _ _ S). pose proof (s_bidi _ _ S). pose proof (s_uni _ _ S).
  destruct (peer_see_props _ _ _ _ WOK p ltac:(lia) ltac:(lia) ltac:(lia)) as (A1 & A2 & A3 & A4 & A5 & A6).
  pose proof (keyed_sget _ _ pa_streams0) as KS.
  constructor; rewrite ?A4, ?A5, ?A6, ?pa_done0; auto.
  - rewrite D1. apply (s_used _ _ S).
  - intros k s' G Dn. specialize (KS k). rewrite G in KS. destruct KS as (s & G0 & (L1 & _)). rewrite L1.
    apply (s_live _ _ S _ _ G0 Dn).
  - intros k G Dn. specialize (KS k). rewrite G in KS. apply (s_fresh _ _ S _ KS Dn).
  - rewrite (keyed_keys _ _ pa_streams0). apply (s_nodup _ _ S).
Qed.

Lemma Pass_msim c p w c1 : Sim c p -> MSim c p -> Pass c w c1 -> MSim c1 (peer_see p w).
Proof.
  intros S M P. destruct P. pose proof (keyed_sget _ _ pa_streams0) as KS.
  assert (ND : NoDup (map fst (c_streams c1))) by (rewrite (keyed_keys _ _ pa_streams0); apply (s_nodup _ _ S)).
  assert (FR : forall sid X, (forall s', sget sid (c_streams c1) = Some s' -> sm_msd s' <= X) -> Forall (msd_le sid X) w).
  { intros sid X HX. eapply Forall_impl; [|exact pa_wire0]. intros [ft a v] (_ & _ & _ & D). cbn [msd_le]. intros E1 E2. subst a.
    destruct (D E1) as (s' & I1 & I2). pose proof (HX _ (In_sget _ _ _ ND I1)). lia. }
  constructor; unfold done, can_receive in *; rewrite ?pa_done0, ?pa_client0, ?pa_msd0.
  - intros k s' G Dn R. specialize (KS k). rewrite G in KS. destruct KS as (s & G0 & (_ & _ & L3)).
    apply see_msd_le.
    + apply FR. intros s1 G1. rewrite G in G1. inversion G1; subst. lia.
    + pose proof (m_live _ _ M _ _ G0 Dn R). lia.
  - intros k G Dn. specialize (KS k). rewrite G in KS. apply see_msd_le; [|apply (m_fresh _ _ M _ KS Dn)].
    apply FR. intros s1 G1. congruence.
Qed.

(* ---------- discarding finished streams (keep list = the ids the loop did not reach) ---------- *)
Lemma discard_cinv c keepl : CInv c -> CInv (discard c keepl).
Proof.
  intros I. unfold discard.
  pose proof (sum_hi_split (discardable keepl) (c_streams c)) as SP.
  pose proof (sum_hi_nonneg _ (Forall_filter _ (discardable keepl) _ (ci_streams _ I))) as SN.
  change (fold_right (fun p a => r_highest (sm_recv (snd p)) + a) 0) with sum_hi.
  destruct I. constructor;
    cbn [c_msd c_streams c_data c_bidi c_uni c_crypto c_chal c_lchal c_retire c_cid_avail c_gone c_tls c_paths];
    try assumption; try lia.
  apply Forall_filter. assumption.
Qed.

Lemma discard_sim c p keepl : Sim c p -> Sim (discard c keepl) p.
Proof.
  intros S. pose proof (s_nodup _ _ S) as ND. unfold discard.
  constructor; cbn [c_data c_bidi c_uni c_streams c_done]; try apply S.
  - intros k s'. rewrite (sget_filter _ _ _ ND), existsb_eqb_app.
    destruct (sget k (c_streams c)) as [s0|] eqn:G; [|discriminate].
    destruct (negb (discardable keepl (k, s0))); [|discriminate].
    intros Hs Hd. inversion Hs; subst. apply orb_false_elim in Hd. apply (s_live _ _ S _ _ G), Hd.
  - intros k. rewrite (sget_filter _ _ _ ND), existsb_eqb_app. intros Hn Hd. apply orb_false_elim in Hd. destruct Hd as (Hd1 & Hd2).
    destruct (sget k (c_streams c)) as [s0|] eqn:G; [|apply (s_fresh _ _ S _ G Hd1)].
    exfalso. rewrite (existsb_keys_filter _ _ _ ND), G in Hd2.
    destruct (discardable keepl (k, s0)); cbn in *; discriminate.
  - apply NoDup_filter_keys, ND.
Qed.

Lemma discard_msim c p keepl : Sim c p -> MSim c p -> MSim (discard c keepl) p.
Proof.
  intros S M. pose proof (s_nodup _ _ S) as ND. unfold discard.
  constructor; unfold done, can_receive in *; cbn [c_streams c_done c_client c_msd].
  - intros k s'. rewrite (sget_filter _ _ _ ND), existsb_eqb_app.
    destruct (sget k (c_streams c)) as [s0|] eqn:G; [|discriminate].
    destruct (negb (discardable keepl (k, s0))); [|discriminate].
    intros Hs Hd R. inversion Hs; subst. apply orb_false_elim in Hd. destruct Hd as (Hd1 & _). apply (m_live _ _ M _ _ G Hd1 R).
  - intros k. rewrite (sget_filter _ _ _ ND), existsb_eqb_app. intros Hn Hd. apply orb_false_elim in Hd. destruct Hd as (Hd1 & Hd2).
    destruct (sget k (c_streams c)) as [s0|] eqn:G; [|apply (m_fresh _ _ M _ G Hd1)].
    exfalso. rewrite (existsb_keys_filter _ _ _ ND), G in Hd2.
    destruct (discardable keepl (k, s0)); cbn in *; discriminate.
Qed.

(* ---------- the cut pass ---------- *)
Lemma write_b_shape c b keepl r c' : write_b c b keepl = (r, c') ->
  exists c1 w ro, limit_stages c b = (c1, w, ro) /\ r = OWrote w /\ c' = match ro with None => c1 | Some _ => discard c1 keepl end.
Proof.
  unfold write_b. destruct (limit_stages c b) as [[c1 w] ro]. intros H; inversion H; subst. exists c1, w, ro. auto.
Qed.

Lemma write_b_cinv c b keepl r c' : CInv c -> write_b c b keepl = (r, c') -> CInv c'.
Proof.
  intros I H. destruct (write_b_shape _ _ _ _ _ H) as (c1 & w & ro & L & _ & E). subst c'.
  pose proof (Pass_cinv _ _ _ I (limit_stages_pass _ _ _ _ _ (CInv_nonneg _ I) L)) as I1.
  destruct ro; [apply discard_cinv, I1|exact I1].
Qed.

Lemma write_b_sims c p b keepl w c' : CInv c -> Sim c p -> MSim c p -> write_b c b keepl = (OWrote w, c') ->
  Sim c' (peer_see p w) /\ MSim c' (peer_see p w).
Proof.
  intros I S M H. destruct (write_b_shape _ _ _ _ _ H) as (c1 & w1 & ro & L & Ew & E). inversion Ew; subst w1 c'.
  pose proof (limit_stages_pass _ _ _ _ _ (CInv_nonneg _ I) L) as P.
  pose proof (Pass_sim _ _ _ _ S P) as S1. pose proof (Pass_msim _ _ _ _ S M P) as M1.
  destruct ro; [split; [apply discard_sim, S1|apply discard_msim; assumption]|split; assumption].
Qed.

Lemma xstep_inv c o r c' : CInv c -> xstep c o = (r, c') -> CInv c'.
Proof. intros I. destruct o; cbn [xstep]; [apply step_inv, I|apply write_b_cinv, I]. Qed.

Lemma xrun_inv : forall ops c os c', CInv c -> xrun c ops = (os, c') -> CInv c'.
Proof.
  induction ops as [|o t IH]; intros c os c' I; cbn [xrun].
  - intros H; inversion H; subst; exact I.
  - destruct (xstep c o) as [r c1] eqn:S. pose proof (xstep_inv _ _ _ _ I S) as I1.
    destruct (closes r); [intros H; inversion H; subst; exact I1|].
    destruct (xrun c1 t) as [rs c2] eqn:R. intros H; inversion H; subst. eapply IH; eassumption.
Qed.

(* within_limit_never_accused for histories with cut passes: every limit is the one seen on the wire *)
Lemma xnever_accused_from : RESET_ADVANCES_HIGHEST = true ->
  forall ops c p, CInv c -> Sim c p -> MSim c p -> xaccused c p ops = false.
Proof.
  intros Flag. induction ops as [|o t IH]; intros c p I S M; cbn [xaccused]; [reflexivity|].
  destruct (xstep c o) as [r c'] eqn:St. pose proof (xstep_inv _ _ _ _ I St) as I'.
  destruct o as [o|b keepl]; cbn [xframe_end xstep] in *.
  - destruct (frame_end o) as [[[sid e] fin]|] eqn:FE.
    + destruct (peer_within (c_client c) p (p_adv_msd p sid) sid e fin) eqn:W; [|reflexivity].
      assert (G : good r (Sim c' (peer_upd p sid e fin) /\ MSim c' (peer_upd p sid e fin))).
      { destruct o; cbn in FE; try discriminate; inversion FE; subst; cbn [step] in St.
        - exact (full_stream _ _ _ _ _ _ _ _ I S M St W).
        - exact (full_reset _ _ _ _ _ _ Flag I S M St W). }
      destruct r; cbn [good] in G; auto; destruct G; auto.
    + pose proof (step_other _ _ _ _ _ I S FE St) as G. pose proof (step_other_msim _ _ _ _ _ I S M FE St) as GM.
      destruct r; auto.
  - destruct (write_b_shape _ _ _ _ _ St) as (c1 & w & ro & _ & Er & _). subst r.
    destruct (write_b_sims _ _ _ _ _ _ I S M St) as (S' & M'). auto.
Qed.

Lemma xnever_accused : forall cl msd md cb ops,
  0 <= msd -> 0 <= md -> 0 <= cb ->
  xaccused (conn_init cl msd md cb) (peer_init msd md) ops = false.
Proof.
  intros. apply (xnever_accused_from eq_refl); [apply CInv_init; assumption|apply Sim_init|apply MSim_init].
Qed.

(* non-vacuity: a history with two cut passes (the MAX_DATA frame refused twice, then let out by a budget of one) in which every
   frame is within the wire ledger and accepted; the peer uses the raised value only after it was written *)
Fixpoint xall_within (c : conn) (p : peer) (ops : list xop) : bool :=
  match ops with
  | [] => true
  | o :: t =>
      let '(r, c') := xstep c o in
      negb (closes r) &&
      match xframe_end o with
      | Some (sid, e, fin) => peer_within (c_client c) p (p_adv_msd p sid) sid e fin && xall_within c' (peer_upd p sid e fin) t
      | None => match r with OWrote w => xall_within c' (peer_see p w) t | _ => xall_within c' p t end
      end
  end.

Example xnever_accused_nonvacuous :
  let c0 := conn_init false 3000 2000 0 in
  let p0 := peer_init 3000 2000 in
  let ops := [Plain (StreamFrame 10 0 0 (zeros 1001)); WriteCut 0 []; Plain (StreamFrame 14 0 1990 (zeros 10)); WriteCut 0 [];
              WriteCut 1 []; Plain (StreamFrame 10 4 0 (zeros 1999)); Plain (LimitLost 0); WriteCut 0 [];
              Plain (StreamFrame 11 4 1999 [1]); WriteCut 5 [4]; WriteCut 5 []] in
  xall_within c0 p0 ops = true /\ xaccused c0 p0 ops = false /\
  nth 4 (fst (xrun c0 ops)) OExn = OWrote [W FT_MAX_DATA 0 4000] /\
  xall_within c0 p0 [Plain (StreamFrame 10 0 0 (zeros 1001)); WriteCut 0 []; Plain (StreamFrame 14 0 1991 (zeros 10))] = false.
Proof. cbv zeta. repeat split; vm_compute; reflexivity. Qed.

(* buffer_bounded for histories with cut passes (the connection-level bound is max_data.value; ConnLimitsCutEq.v shows that
   on a tree that raises only next to a written frame this is the ADVERTISED value) *)
Lemma buffer_bounded_xrun : forall cl msd md cb ops os c,
  0 <= msd -> 0 <= md -> 0 <= cb ->
  xrun (conn_init cl msd md cb) ops = (os, c) ->
  (forall sid s, In (sid, s) (c_streams c) ->
     0 <= r_start (sm_recv s) /\
     Zlen (r_buf (sm_recv s)) <= r_highest (sm_recv s) - r_start (sm_recv s) /\
     r_highest (sm_recv s) <= sm_msd s) /\
  sum_buf (c_streams c) <= sum_hi (c_streams c) /\
  sum_hi (c_streams c) + c_gone c <= l_used (c_data c) /\ 0 <= c_gone c /\
  l_used (c_data c) <= l_value (c_data c) /\
  Zlen (r_buf (c_crypto c)) <= MAX_PENDING_CRYPTO /\
  (forall m, TLS_MESSAGE_CAP = Some m -> Zlen (c_tls c) < Z.max 4 m) /\
  Zlen (c_chal c) <= MAX_REMOTE_CHALLENGES /\
  (forall m, NETWORK_PATHS_CAP = Some m -> 1 <= m ->
     Zlen (c_chal c) + sum_chal (c_paths c) <= m * MAX_REMOTE_CHALLENGES) /\
  Zlen (c_lchal c) <= MAX_LOCAL_CHALLENGES /\
  Zlen (c_retire c) <= Z.min (LOCAL_ACTIVE_CID_LIMIT * 4) MAX_PENDING_RETIRES /\
  1 + Zlen (c_cid_avail c) <= LOCAL_ACTIVE_CID_LIMIT.
Proof.
  intros cl msd md cb ops os c H1 H2 H3 R.
  pose proof (xrun_inv _ _ _ _ (CInv_init cl msd md cb H1 H2 H3) R) as I.
  pose proof (ci_streams _ I) as Fs. pose proof (ci_pathq _ I) as Fq. pose proof (ci_pathn _ I) as Fn.
  split.
  { intros sid s Hin. rewrite Forall_forall in Fs. destruct (Fs _ Hin) as (B & Hm). cbn in B, Hm.
    destruct B. unfold top in *. lia. }
  split; [apply sum_buf_le_hi; assumption|]. split; [apply I|]. split; [apply I|]. split; [apply I|].
  split; [apply (ci_crypto _ I)|]. split; [apply I|]. split; [apply I|].
  split.
  { intros m Hm Hm1. pose proof (sum_chal_le _ Fq). specialize (Fn m Hm). pose proof (ci_chal _ I).
    assert (0 <= MAX_REMOTE_CHALLENGES) by (vm_compute; discriminate). nia. }
  split; [apply I|]. split; [apply I|apply I].
Qed.
