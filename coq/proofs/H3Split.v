(* C14 core: feeding a ++ b to a request / push stream = feeding a, then b (model of the patched code). *)
From AQ Require Import lib.Base lib.Tok model.H3Parse proofs.H3Chunk.
From Coq Require Import ZifyBool.

(* ------------------------------------------------------------------ lists *)
Lemma Zlen_app : forall {A} (a b : list A), Zlen (a ++ b) = Zlen a + Zlen b.
Proof. intros; unfold Zlen; rewrite app_length; lia. Qed.
Lemma Zlen_nonneg : forall {A} (a : list A), 0 <= Zlen a.
Proof. intros; unfold Zlen; lia. Qed.
Lemma Zlen_nil_iff : forall {A} (a : list A), is_nil a = true <-> Zlen a = 0.
Proof. destruct a; cbn; unfold Zlen; cbn; split; intros; try reflexivity; try discriminate; lia. Qed.
Lemma is_nil_true : forall {A} (a : list A), is_nil a = true -> a = [].
Proof. destruct a; cbn; congruence. Qed.

Lemma ztake_app_le : forall {A} n (a b : list A), n <= Zlen a -> ztake n (a ++ b) = ztake n a.
Proof.
  intros A n a b H. unfold ztake, Zlen in *. rewrite firstn_app.
  replace (Z.to_nat n - length a)%nat with 0%nat by lia. cbn. apply app_nil_r.
Qed.
Lemma zdrop_app_le : forall {A} n (a b : list A), n <= Zlen a -> zdrop n (a ++ b) = zdrop n a ++ b.
Proof.
  intros A n a b H. unfold zdrop, Zlen in *. rewrite skipn_app.
  replace (Z.to_nat n - length a)%nat with 0%nat by lia. reflexivity.
Qed.
Lemma ztake_app_ge : forall {A} n (a b : list A), Zlen a <= n -> ztake n (a ++ b) = a ++ ztake (n - Zlen a) b.
Proof.
  intros A n a b H. unfold ztake, Zlen in *. rewrite firstn_app.
  rewrite firstn_all2 by lia.
  replace (Z.to_nat n - length a)%nat with (Z.to_nat (n - Z.of_nat (length a))) by lia. reflexivity.
Qed.
Lemma zdrop_app_ge : forall {A} n (a b : list A), Zlen a <= n -> zdrop n (a ++ b) = zdrop (n - Zlen a) b.
Proof.
  intros A n a b H. unfold zdrop, Zlen in *. rewrite skipn_app.
  rewrite skipn_all2 by lia. cbn [app].
  replace (Z.to_nat n - length a)%nat with (Z.to_nat (n - Z.of_nat (length a))) by lia. reflexivity.
Qed.
Lemma ztake_all : forall {A} n (a : list A), Zlen a <= n -> ztake n a = a.
Proof. intros; unfold ztake, Zlen in *; apply firstn_all2; lia. Qed.
Lemma zdrop_all : forall {A} n (a : list A), Zlen a <= n -> zdrop n a = [].
Proof. intros; unfold zdrop, Zlen in *; apply skipn_all2; lia. Qed.
Lemma Zlen_zdrop : forall {A} n (a : list A), 0 <= n <= Zlen a -> Zlen (zdrop n a) = Zlen a - n.
Proof. intros; unfold zdrop, Zlen in *; rewrite skipn_length; lia. Qed.
Lemma Zlen_zdrop_le : forall {A} n (a : list A), Zlen (zdrop n a) <= Zlen a.
Proof. intros; unfold zdrop, Zlen in *; rewrite skipn_length; lia. Qed.

(* ------------------------------------------------------------------ varints *)
Lemma pull_app : forall a b v r, pull_uint_var a = Some (v, r) -> pull_uint_var (a ++ b) = Some (v, r ++ b).
Proof.
  intros [|f a] b v r; cbn [pull_uint_var app]; [discriminate|].
  destruct (Nat.ltb (length a) (varint_extra f)) eqn:E; [discriminate|].
  apply Nat.ltb_ge in E. intros H; inversion H; subst; clear H.
  rewrite app_length.
  destruct (Nat.ltb (length a + length b) (varint_extra f)) eqn:E2; [apply Nat.ltb_lt in E2; lia|].
  rewrite firstn_app, skipn_app.
  replace (varint_extra f - length a)%nat with 0%nat by lia. cbn. rewrite app_nil_r. reflexivity.
Qed.
Lemma pull_len : forall a v r, pull_uint_var a = Some (v, r) -> Zlen r < Zlen a.
Proof.
  intros [|f a] v r; cbn [pull_uint_var]; [discriminate|].
  destruct (Nat.ltb (length a) (varint_extra f)); [discriminate|].
  intros H; inversion H; subst. unfold Zlen. cbn [length]. rewrite skipn_length. lia.
Qed.

(* ------------------------------------------------------------------ the frame handler *)
Section Fixed.
Variable fx : fixes.
Variable O : oracle.
Variable cl : bool.
Hypothesis Htr : fx_trunc fx = true.
Hypothesis Hem : fx_endmark fx = true.

(* what the handler may change in the stream *)
Definition same_frame_state (st st2 : hstream) : Prop :=
  exists h c e bp, st2 = mkS (s_id st) (s_buf st) (s_cur st) (s_session st) (s_blocked st) (s_ended st) h c e
                             (s_push st) (s_stype st) (s_btype st) bp.

Ltac sfs := match goal with st : hstream |- _ => destruct st; cbn; do 4 eexists; reflexivity end.

Lemma endmark_false : forall st evs, endmark fx st false evs = HVal evs st.
Proof. intros; unfold endmark; rewrite andb_false_r; reflexivity. Qed.

Lemma handle_pres : forall t d st evs st2,
  handle_rp_frame fx O cl t (Some d) st false = HVal evs st2 -> same_frame_state st st2.
Proof.
  intros t d st evs st2. unfold handle_rp_frame. cbn [andb orb].
  destruct (t =? 0).
  { destruct (negb (s_hstate st =? 1)); [discriminate|].
    destruct (negb (is_nil d)); intros H; inversion H; subst; sfs. }
  destruct (t =? 1).
  { destruct (s_hstate st =? 2); [discriminate|].
    destruct (o_dec O (s_id st) d); try discriminate.
    destruct (o_val O _ hid) as [ok c0]. destruct (negb ok); [discriminate|].
    intros H; inversion H; subst. destruct (s_hstate st =? 0); sfs. }
  destruct ((t =? 5) && is_none (s_push st)).
  { destruct (negb cl); [discriminate|].
    destruct (pull_uint_var d) as [[pid rest]|]; [|destruct (fx_pushpromise fx); discriminate].
    match goal with |- context [o_dec O (s_id ?s) rest] => destruct (o_dec O (s_id s) rest) end; try discriminate.
    match goal with |- context [negb ?x] => destruct (negb x) end; [discriminate|].
    rewrite endmark_false. intros H; inversion H; subst. destruct (fx_pushblock fx); sfs. }
  destruct (unexpected_rp t); [discriminate|].
  rewrite endmark_false. intros H; inversion H; subst; sfs.
Qed.

Lemma handle_blocked_pres : forall t d st st2,
  handle_rp_frame fx O cl t (Some d) st false = HBlocked st2 -> same_frame_state st st2 /\ t <> 0.
Proof.
  intros t d st st2. unfold handle_rp_frame. cbn [andb orb].
  destruct (t =? 0) eqn:E0.
  { destruct (negb (s_hstate st =? 1)); [discriminate|]. destruct (negb (is_nil d)); discriminate. }
  assert (t <> 0) by lia.
  destruct (t =? 1).
  { destruct (s_hstate st =? 2); [discriminate|].
    destruct (o_dec O (s_id st) d); try discriminate.
    - destruct (o_val O _ hid) as [ok c0]. destruct (negb ok); discriminate.
    - intros H1; inversion H1; subst; split; [sfs|assumption]. }
  destruct ((t =? 5) && is_none (s_push st)).
  { destruct (negb cl); [discriminate|].
    destruct (pull_uint_var d) as [[pid rest]|]; [|destruct (fx_pushpromise fx); discriminate].
    match goal with |- context [o_dec O (s_id ?s) rest] => destruct (o_dec O (s_id s) rest) end; try discriminate.
    - match goal with |- context [negb ?x] => destruct (negb x) end; [discriminate|]. rewrite endmark_false; discriminate.
    - intros H1; inversion H1; subst; split; [destruct (fx_pushblock fx); sfs|assumption]. }
  destruct (unexpected_rp t); [discriminate|]. rewrite endmark_false; discriminate.
Qed.

(* DATA frames: the handler on d1 ++ d2 = the handler on d1, then on d2 *)
Lemma handle_data_split : forall d1 d2 st,
  match handle_rp_frame fx O cl 0 (Some d1) st false with
  | HVal e1 st1 =>
      match handle_rp_frame fx O cl 0 (Some d2) st1 false, handle_rp_frame fx O cl 0 (Some (d1 ++ d2)) st false with
      | HVal e2 st2, HVal e st' => norm e = norm (e1 ++ e2) /\ st' = st2 /\ s_hstate st2 = 1
      | _, _ => False
      end
  | HErr c => handle_rp_frame fx O cl 0 (Some (d1 ++ d2)) st false = HErr c
  | _ => False
  end.
Proof.
  intros d1 d2 st. unfold handle_rp_frame. cbn [Z.eqb andb orb].
  destruct (s_hstate st =? 1) eqn:Eh; cbn [negb]; [|reflexivity].
  destruct st; cbn -[Zlen Z.add] in *.
  assert (Hz : forall (x : Z) (l : list Z), Zlen (x :: l) = 1 + Zlen l) by (intros; unfold Zlen; cbn [length]; lia).
  destruct d1 as [|x1 d1], d2 as [|x2 d2]; cbn -[Zlen Z.add]; rewrite ?Eh; cbn -[Zlen Z.add]; rewrite ?app_nil_r;
    (split; [|split; [unfold set_clen; cbn -[Zlen Z.add]; f_equal; rewrite ?Hz, ?Zlen_app, ?Hz; unfold Zlen; cbn [length]; lia | lia]]).
  - reflexivity.
  - reflexivity.
  - reflexivity.
  - rewrite map_app. cbn. rewrite ?app_nil_r. reflexivity.
Qed.

(* the handler never touches the frame cursor (whatever the ended flag) *)
Lemma handle_cur : forall t d st e evs st2,
  handle_rp_frame fx O cl t (Some d) st e = HVal evs st2 -> s_cur st2 = s_cur st.
Proof.
  intros t d st e evs st2. unfold handle_rp_frame, endmark.
  destruct (t =? 0).
  { destruct (negb (s_hstate st =? 1)); [discriminate|].
    destruct (e && negb (check_cl _)); [discriminate|].
    destruct (e || negb (is_nil d)); intros H; inversion H; subst; destruct st; reflexivity. }
  destruct (t =? 1).
  { destruct (s_hstate st =? 2); [discriminate|].
    destruct (o_dec O (s_id st) d); try discriminate.
    destruct (o_val O _ hid) as [ok c0]. destruct (negb ok); [discriminate|].
    destruct (e && negb (check_cl _)); [discriminate|].
    intros H; inversion H; subst. destruct (s_hstate st =? 0); destruct st; reflexivity. }
  destruct ((t =? 5) && is_none (s_push st)).
  { destruct (negb cl); [discriminate|].
    destruct (pull_uint_var d) as [[pid rest]|]; [|destruct (fx_pushpromise fx); discriminate].
    match goal with |- context [o_dec O (s_id ?s) rest] => destruct (o_dec O (s_id s) rest) end; try discriminate.
    match goal with |- context [negb ?x] => destruct (negb x) end; [discriminate|].
    destruct (fx_endmark fx && e); [match goal with |- context [check_cl ?s] => destruct (check_cl s) end|];
      try discriminate; intros H; inversion H; subst; destruct (fx_pushblock fx); destruct st; reflexivity. }
  destruct (unexpected_rp t); [discriminate|].
  destruct (fx_endmark fx && e); [destruct (check_cl st)|]; try discriminate; intros H; inversion H; subst; reflexivity.
Qed.

(* ------------------------------------------------------------------ the loop: accumulator and fuel *)
Lemma loop_acc : forall fuel fin st b evs,
  rq_loop fuel fx O cl fin st b evs = prepend evs (rq_loop fuel fx O cl fin st b []).
Proof.
  induction fuel; intros fin st b evs; cbn [rq_loop]; [cbn; rewrite app_nil_r; reflexivity|].
  destruct (is_nil b); [cbn; rewrite app_nil_r; reflexivity|].
  match goal with |- (match ?h with _ => _ end) = _ => destruct h as [[[t n] b2]|] end;
    [|cbn; rewrite app_nil_r; reflexivity].
  destruct (is_none (s_cur st) && (t =? 65)); [reflexivity|].
  destruct (negb (t =? 0) && (Z.min n (Zlen b2) <? n)); [cbn; rewrite app_nil_r; reflexivity|].
  match goal with |- (match ?h with _ => _ end) = _ => destruct h end; try reflexivity.
  - rewrite IHfuel. rewrite (IHfuel _ _ _ ([] ++ evs0)). cbn [app]. rewrite prepend_prepend. reflexivity.
  - cbn; rewrite app_nil_r; reflexivity.
Qed.

Definition measure (st : hstream) (b : list Z) : Z := 2 * Zlen b + (if is_none (s_cur st) then 0 else 1).

Lemma sfs_cur : forall st st2, same_frame_state st st2 -> s_cur st2 = s_cur st.
Proof. intros st st2 (h & c & e & bp & ->); reflexivity. Qed.

Lemma zdrop_neg : forall {A} n (a : list A), n <= 0 -> zdrop n a = a.
Proof. intros; unfold zdrop. replace (Z.to_nat n) with 0%nat by lia. reflexivity. Qed.

(* one iteration that goes on strictly decreases the measure *)
Lemma decrease_cont : forall (st st2 : hstream) (t n : Z) (b : list Z),
  s_cur st = Some (t, n) -> 0 < Zlen b ->
  s_cur st2 = (if n - Z.min n (Zlen b) =? 0 then None else Some (t, n - Z.min n (Zlen b))) ->
  measure st2 (zdrop (Z.min n (Zlen b)) b) < measure st b.
Proof.
  intros st st2 t n b Hc Hb H2. unfold measure. rewrite Hc, H2. cbn [is_none].
  destruct (Z.leb n 0) eqn:En.
  - assert (n <= 0) by lia. rewrite zdrop_neg by lia.
    replace (n - Z.min n (Zlen b)) with 0 by lia. cbn. lia.
  - assert (0 < n) by lia. rewrite Zlen_zdrop by lia.
    destruct (n - Z.min n (Zlen b) =? 0); cbn [is_none]; lia.
Qed.

Lemma decrease_hdr : forall (st st2 : hstream) (b b1 b2 : list Z) t n c,
  pull_uint_var b = Some (t, b1) -> pull_uint_var b1 = Some (n, b2) ->
  measure st2 (zdrop c b2) < measure st b.
Proof.
  intros st st2 b b1 b2 t n c H1 H2. apply pull_len in H1. apply pull_len in H2.
  unfold measure. pose proof (Zlen_zdrop_le c b2). pose proof (Zlen_nonneg (zdrop c b2)).
  destruct (is_none (s_cur st2)), (is_none (s_cur st)); lia.
Qed.

Lemma loop_fuel : forall f1 f2 fin st b evs,
  measure st b < Z.of_nat f1 -> measure st b < Z.of_nat f2 ->
  rq_loop f1 fx O cl fin st b evs = rq_loop f2 fx O cl fin st b evs.
Proof.
  induction f1; intros f2 fin st b evs H1 H2.
  { unfold measure in H1. pose proof (Zlen_nonneg b). destruct (is_none (s_cur st)); lia. }
  destruct f2. { unfold measure in H2. pose proof (Zlen_nonneg b). destruct (is_none (s_cur st)); lia. }
  cbn [rq_loop].
  destruct (is_nil b) eqn:Eb; [reflexivity|].
  assert (Hb : 0 < Zlen b). { destruct b; [discriminate|]. unfold Zlen; cbn [length]; lia. }
  destruct (s_cur st) as [[t0 n0]|] eqn:Ec.
  - cbn [is_none andb].
    destruct (negb (t0 =? 0) && (Z.min n0 (Zlen b) <? n0)); [reflexivity|].
    match goal with |- (match ?h with _ => _ end) = _ => destruct h eqn:Hh end; try reflexivity.
    assert (Hd : measure st0 (zdrop (Z.min n0 (Zlen b)) b) < measure st b).
    { eapply decrease_cont; eauto.
      (* the ended flag passed to the handler does not matter here *)
      match type of Hh with handle_rp_frame _ _ _ _ _ ?s ?e = _ =>
        assert (Hs : s_cur st0 = s_cur s) end.
      { clear - Hh. revert Hh. generalize (s_ended st && is_nil (zdrop (Z.min n0 (Zlen b)) b) &&
           (negb (fx_trunc fx) || is_none (if n0 - Z.min n0 (Zlen b) =? 0 then None else Some (t0, n0 - Z.min n0 (Zlen b))))).
        intros e Hh. eapply handle_cur; eauto. }
      rewrite Hs. destruct st; reflexivity. }
    apply IHf1; lia.
  - destruct (pull_uint_var b) as [[t b1]|] eqn:P1; [|reflexivity].
    destruct (pull_uint_var b1) as [[n b2]|] eqn:P2; [|reflexivity].
    cbn [is_none andb].
    destruct (t =? 65); [reflexivity|].
    destruct (negb (t =? 0) && (Z.min n (Zlen b2) <? n)); [reflexivity|].
    match goal with |- (match ?h with _ => _ end) = _ => destruct h eqn:Hh end; try reflexivity.
    pose proof (decrease_hdr st st0 b b1 b2 t n (Z.min n (Zlen b2)) P1 P2).
    apply IHf1; lia.
Qed.

(* ------------------------------------------------------------------ the split lemma for the frame loop *)
(* loop-head invariant *)
Definition LH (st : hstream) : Prop :=
  s_buf st = [] /\ s_blocked st = false /\ s_session st = None /\ s_ended st = false /\
  (forall n, s_cur st = Some (0, n) -> s_hstate st = 1).

(* what a later delivery of [b] (no FIN) does after the loop stopped in state s1 *)
Definition resume (b : list Z) (r : rres) : rres :=
  match r with
  | RVal e1 s1 =>
      if s_blocked s1 then RVal e1 (set_buf s1 (s_buf s1 ++ b))
      else match s_session s1 with
           | Some sess => RVal (e1 ++ [EWT (s_id s1) sess b false]) (set_buf s1 [])
           | None => rq_loop (rq_fuel (s_buf s1 ++ b)) fx O cl false (set_buf s1 []) (s_buf s1 ++ b) e1
           end
  | r => r
  end.

Lemma data_eq : forall d st,
  handle_rp_frame fx O cl 0 (Some d) st false =
  if s_hstate st =? 1
  then HVal (if is_nil d then [] else [EData (s_id st) (s_push st) d false]) (set_clen st (s_clen st + Zlen d))
  else HErr H3_FRAME_UNEXPECTED.
Proof.
  intros. unfold handle_rp_frame. cbn [Z.eqb andb orb].
  destruct (s_hstate st =? 1); cbn [negb]; [|reflexivity]. destruct (is_nil d); reflexivity.
Qed.

Lemma norm_data_split : forall i p (x y : list Z),
  norm (if is_nil (x ++ y) then [] else [EData i p (x ++ y) false]) =
  norm (if is_nil x then [] else [EData i p x false]) ++ norm (if is_nil y then [] else [EData i p y false]).
Proof. intros i p [|a x] [|c y]; cbn; rewrite ?app_nil_r, ?map_app; reflexivity. Qed.

Lemma LH_after : forall st st2 c,
  LH st -> same_frame_state (set_cur st c) st2 ->
  (forall n, c = Some (0, n) -> s_hstate st2 = 1) -> LH st2.
Proof.
  intros st st2 c (H1 & H2 & H3 & H4 & H5) (h & k & e & bp & ->) Hj. destruct st; cbn in *.
  repeat split; auto.
Qed.

Lemma set_cur_same : forall st, set_cur st (s_cur st) = st.
Proof. destruct st; reflexivity. Qed.

Lemma break_case : forall f st x b evs,
  LH st -> measure st (x ++ b) < Z.of_nat f ->
  requiv (rq_loop f fx O cl false st (x ++ b) evs) (resume b (RVal evs (set_buf st x))).
Proof.
  intros f st x b evs (H1 & H2 & H3 & H4 & H5) Hm. unfold resume.
  replace (s_blocked (set_buf st x)) with false by (destruct st; cbn in *; congruence).
  replace (s_session (set_buf st x)) with (@None Z) by (destruct st; cbn in *; congruence).
  replace (set_buf (set_buf st x) []) with st by (destruct st; unfold set_buf; cbn in *; subst; reflexivity).
  replace (s_buf (set_buf st x)) with x by (destruct st; reflexivity).
  rewrite (loop_fuel f (rq_fuel (x ++ b))); [apply requiv_refl|assumption|].
  unfold measure, rq_fuel, Zlen in *. destruct (is_none (s_cur st)); lia.
Qed.

(* The induction gluing break_case, handle_data_split and the complete-frame step
   (rq_loop f st (x ++ b) ~ resume b (rq_loop f st x)) is loop_split in proofs/H3Loop.v; the FIN-late lemma and the
   statements about whole deliveries are in proofs/H3Recv.v and proofs/H3Fin.v. *)

End Fixed.

(* the invariant is satisfiable by non-trivial states: a fresh stream, and a stream in the middle of a DATA frame *)
Example LH_fresh : LH (new_stream 0).
Proof. repeat split; intros; discriminate. Qed.
Example LH_in_data : LH (set_cur (set_hstate (new_stream 4) 1) (Some (0, 100))).
Proof. repeat split; intros; reflexivity. Qed.
