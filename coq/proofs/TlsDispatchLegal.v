(* C11, theorem dispatch_legal: the GENERATED dispatch table of tls.Context._handle_reassembled_message
   equals TLS 1.3's legal-next relation, written here by hand from RFC 8446 (section 4 / appendix A;
   wire values of the handshake types and of the alert are the RFC's literals, not the generated
   constants), for all 13 states x all 256 message-type bytes; every other pair is refused with
   unexpected_message, the state and the installed keys unchanged. *)
From AQ Require Import lib.Base gen.TlsDispatch model.TlsSM.

Scheme Equality for handler.
Scheme Equality for disp.

(* RFC 8446: client_hello(1) server_hello(2) new_session_ticket(4) encrypted_extensions(8)
   certificate(11) certificate_request(13) certificate_verify(15) finished(20);
   alert unexpected_message(10).
   CLIENT_HANDSHAKE_START never dispatches: handle_message sends the ClientHello instead. *)
Definition legal_next (s : State) (t : Z) : disp :=
  match s with
  | CLIENT_HANDSHAKE_START => DFallthrough
  | CLIENT_EXPECT_SERVER_HELLO =>
      if t =? 2 then DHandler H_client_handle_hello else DUnexpected
  | CLIENT_EXPECT_ENCRYPTED_EXTENSIONS =>
      if t =? 8 then DHandler H_client_handle_encrypted_extensions else DUnexpected
  | CLIENT_EXPECT_CERTIFICATE_REQUEST_OR_CERTIFICATE =>
      if t =? 11 then DHandler H_client_handle_certificate
      else if t =? 13 then DHandler H_client_handle_certificate_request else DUnexpected
  | CLIENT_EXPECT_CERTIFICATE =>
      if t =? 11 then DHandler H_client_handle_certificate else DUnexpected
  | CLIENT_EXPECT_CERTIFICATE_VERIFY =>
      if t =? 15 then DHandler H_client_handle_certificate_verify else DUnexpected
  | CLIENT_EXPECT_FINISHED =>
      if t =? 20 then DHandler H_client_handle_finished else DUnexpected
  | CLIENT_POST_HANDSHAKE =>
      if t =? 4 then DHandler H_client_handle_new_session_ticket else DUnexpected
  | SERVER_EXPECT_CLIENT_HELLO =>
      if t =? 1 then DHandler H_server_handle_hello else DUnexpected
  | SERVER_EXPECT_CERTIFICATE =>
      if t =? 11 then DHandler H_server_handle_certificate else DUnexpected
  | SERVER_EXPECT_CERTIFICATE_VERIFY =>
      if t =? 15 then DHandler H_server_handle_certificate_verify else DUnexpected
  | SERVER_EXPECT_FINISHED =>
      if t =? 20 then DHandler H_server_handle_finished else DUnexpected
  | SERVER_POST_HANDSHAKE => DUnexpected
  end.

Definition bytes256 : list Z := map Z.of_nat (seq 0 256).

Definition sweep : bool :=
  forallb (fun s => forallb (fun t => disp_beq (dispatch s t) (legal_next s t)) bytes256) all_states.

Lemma sweep_true : sweep = true.
Proof. vm_compute. reflexivity. Qed.

Lemma in_bytes256 : forall t, 0 <= t < 256 -> In t bytes256.
Proof.
  intros t H. unfold bytes256.
  replace t with (Z.of_nat (Z.to_nat t)) by lia.
  apply in_map. apply in_seq. lia.
Qed.

Lemma all_states_complete : forall s, In s all_states.
Proof. destruct s; simpl; tauto. Qed.

(* the State enum has the 13 members with the values the harness (and the property text) use *)
Lemma thirteen_states : length all_states = 13%nat /\ map state_val all_states = map Z.of_nat (seq 0 13).
Proof. split; reflexivity. Qed.

Lemma dispatch_table_is_legal_next :
  forall s t, 0 <= t < 256 -> dispatch s t = legal_next s t.
Proof.
  intros s t Ht.
  pose proof sweep_true as H. unfold sweep in H.
  rewrite forallb_forall in H. specialize (H s (all_states_complete s)).
  rewrite forallb_forall in H. specialize (H t (in_bytes256 t Ht)).
  apply internal_disp_dec_bl in H. exact H.
Qed.

(* what the model does with a pair the table refuses *)
Lemma refused_unchanged :
  forall c s m, s_state s <> CLIENT_HANDSHAKE_START ->
    dispatch (s_state s) (m_type m) = DUnexpected ->
    step c s m = (OAlert 10, s, []).
Proof.
  intros c s m Hs Hd. unfold step.
  destruct (s_state s); try congruence; rewrite Hd; reflexivity.
Qed.

Lemma dispatch_legal_lemma :
  forall s t, 0 <= t < 256 ->
    dispatch s t = legal_next s t /\
    (legal_next s t = DUnexpected ->
     forall c st m, s_state st = s -> m_type m = t ->
       step c st m = (OAlert 10, st, [])).
Proof.
  intros s t Ht. split.
  - apply dispatch_table_is_legal_next; exact Ht.
  - intros Hl c st m Hs Hm. subst s t.
    apply refused_unchanged.
    + intro E. rewrite E in Hl. discriminate.
    + rewrite dispatch_table_is_legal_next by exact Ht. exact Hl.
Qed.

(* the table does not depend on t being a byte: the same equation for every integer
   (used by the sequence theorems, which therefore need no bound on the type field) *)
Lemma dispatch_all : forall s t, dispatch s t = legal_next s t.
Proof. destruct s; reflexivity. Qed.

(* the pairs the spec admits, listed: 12 (state, type) pairs *)
Example legal_pairs :
  map (fun s => filter (fun t => negb (disp_beq (legal_next s t) DUnexpected)) bytes256)
      [CLIENT_EXPECT_SERVER_HELLO; CLIENT_EXPECT_ENCRYPTED_EXTENSIONS;
       CLIENT_EXPECT_CERTIFICATE_REQUEST_OR_CERTIFICATE; CLIENT_EXPECT_CERTIFICATE;
       CLIENT_EXPECT_CERTIFICATE_VERIFY; CLIENT_EXPECT_FINISHED; CLIENT_POST_HANDSHAKE;
       SERVER_EXPECT_CLIENT_HELLO; SERVER_EXPECT_CERTIFICATE; SERVER_EXPECT_CERTIFICATE_VERIFY;
       SERVER_EXPECT_FINISHED; SERVER_POST_HANDSHAKE]
  = [[2]; [8]; [11; 13]; [11]; [15]; [20]; [4]; [1]; [11]; [15]; [20]; []].
Proof. vm_compute. reflexivity. Qed.
