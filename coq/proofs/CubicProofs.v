(* C08: CubicCongestionControl keeps the bytes_in_flight bookkeeping (cc_spec); the window floor is
   proved under the in-model FloatAnomaly guard [cb_fanom] (cwnd_floor_cubic_partial). *)
From AQ Require Import lib.Base model.RecBase model.Cubic model.Recovery gen.C08Consts
  proofs.RecoveryProofs proofs.RecoveryPres.
From Coq Require Import ZifyBool.

Section CubicProofs.
Context {T : Type} (F : fops T).

Lemma cubic_spec : cc_spec (cubic_cc F).
Proof.
  constructor; intros; cbn [cubic_cc cc_bif cc_on_sent cc_on_acked cc_on_expired cc_on_lost cc_on_rtt].
  - unfold cubic_on_sent. destruct (feqb F _ _); [reflexivity|]. destruct (fleb F _ _); reflexivity.
  - unfold cubic_on_acked.
    destruct (match cb_ssthresh c with None => true | Some s => cb_cwnd c <? s end); [reflexivity|].
    destruct (cubic_epoch F c now _) as [[[[[[fs wmax] te] ce] west] K] o].
    destruct (trunc_flag F _ _) as [west' anom].
    destruct (w_cubic F wmax (cb_mss c) K _ o anom) as [[wc1 o1] anom1].
    match goal with |- context [let '(target, anom) := ?e in _] => destruct e as [target anom2] end.
    destruct (w_cubic F wmax (cb_mss c) K _ o1 anom2) as [[wc2 o2] anom3].
    destruct (cubic_window F _ _ _ _ _ _ _) as [[cw an] fa]. reflexivity.
  - reflexivity.
  - unfold cubic_on_lost. destruct (fltb F (cb_start c) _); [|reflexivity].
    match goal with |- context [let '(wmax, anom) := ?e in _] => destruct e as [wmax anom] end.
    destruct (trunc_flag F _ _). reflexivity.
  - unfold cubic_on_rtt. destruct (cb_ssthresh c); [reflexivity|].
    destruct (is_rtt_increasing F (cb_mon c) now r). reflexivity.
Qed.

(* invariant behind the floor: as long as the FloatAnomaly guard has not fired, the window is at
   least the floor, and so is W_est whenever an epoch is running *)
Definition cubic_P (mss : Z) (c : cubic (T:=T)) : Prop :=
  cb_mss c = mss /\
  (cb_fanom c = false ->
   K_MINIMUM_WINDOW * mss <= cb_cwnd c /\
   (cb_first_ss c = false -> cb_starting c = false -> K_MINIMUM_WINDOW * mss <= cb_West c)).

Lemma cubic_epoch_west : forall c now o fs wmax te ce west K o',
  cubic_epoch F c now o = (fs, wmax, te, ce, west, K, o') ->
  west = cb_cwnd c \/ (cb_first_ss c = false /\ cb_starting c = false /\ west = cb_West c).
Proof.
  intros c now o fs wmax te ce west K o' H. unfold cubic_epoch in H.
  destruct (cb_first_ss c), (cb_starting c); cbn [andb negb] in H;
    repeat match type of H with context [calc_K F ?a ?b ?m ?oo] => destruct (calc_K F a b m oo) end;
    inversion H; subst; auto.
Qed.

Lemma cubic_window_floor : forall cwnd west' wc2 target mss anom fanom w an fa,
  cubic_window F cwnd west' wc2 target mss anom fanom = (w, an, fa) ->
  fa = false -> fanom = false /\ (w = west' \/ cwnd <= w).
Proof.
  intros cwnd west' wc2 target mss anom fanom w an fa H Hfa. unfold cubic_window in H.
  destruct (wc2 <? west').
  - inversion H; subst. auto.
  - destruct (trunc_flag F _ _) as [w0 an0]. inversion H as [[Hw Ha Hf]]. clear H.
    rewrite Hfa in Hf. destruct (w <? cwnd) eqn:E; [discriminate Hf|]. split; auto. right. lia.
Qed.

Lemma cubic_pres : forall mss, 0 < mss -> cc_pres (cubic_cc F) (cubic_P mss).
Proof.
  intros mss Hm. unfold cubic_P.
  assert (Hk : K_MINIMUM_WINDOW * mss <= K_INITIAL_WINDOW * mss).
  { assert (K_MINIMUM_WINDOW <= K_INITIAL_WINDOW) by (vm_compute; discriminate). nia. }
  constructor; intros; cbn [cubic_cc cc_on_sent cc_on_acked cc_on_expired cc_on_lost cc_on_rtt].
  - (* on_packet_sent *)
    destruct H as (Hmss & Hc). unfold cubic_on_sent.
    destruct (feqb F _ _); [cbn [cb_mss cb_fanom cb_cwnd cb_first_ss cb_starting cb_West]; auto|]. destruct (fleb F _ _); [|cbn [cb_mss cb_fanom cb_cwnd cb_first_ss cb_starting cb_West]; auto].
    unfold cubic_reset. cbn [cb_mss cb_fanom cb_cwnd cb_first_ss cb_starting cb_West]. split; auto. intros _. rewrite Hmss. split; [exact Hk|discriminate].
  - (* on_packet_acked *)
    destruct H as (Hmss & Hc). unfold cubic_on_acked.
    destruct (match cb_ssthresh c with None => true | Some s => cb_cwnd c <? s end).
    + cbn [cb_mss cb_fanom cb_cwnd cb_first_ss cb_starting cb_West]. split; auto. intros Hf. destruct (Hc Hf) as (A & B). split; [lia|exact B].
    + destruct (cubic_epoch F c now _) as [[[[[[fs wmax] te] ce] west] K] o] eqn:Ee.
      destruct (trunc_flag F _ _) as [west' anom].
      destruct (w_cubic F wmax (cb_mss c) K _ o anom) as [[wc1 o1] anom1].
      match goal with |- context [let '(target, anom) := ?e in _] => destruct e as [target anom2] end.
      destruct (w_cubic F wmax (cb_mss c) K _ o1 anom2) as [[wc2 o2] anom3].
      destruct (cubic_window F _ _ _ _ _ _ _) as [[cw an] fa] eqn:Ew.
      cbn [cb_mss cb_fanom cb_cwnd cb_first_ss cb_starting cb_West].
      split; auto. intros Hfa.
      destruct (cubic_window_floor _ _ _ _ _ _ _ _ _ _ Ew Hfa) as (Hf1 & Hw).
      destruct (west' <? west) eqn:Ewest; [discriminate|].
      destruct (Hc Hf1) as (A & B).
      assert (Hwest : K_MINIMUM_WINDOW * mss <= west).
      { destruct (cubic_epoch_west _ _ _ _ _ _ _ _ _ _ Ee) as [->|(E1 & E2 & ->)]; auto. }
      split; [|intros _ _; lia]. destruct Hw as [->|Hw]; lia.
  - exact H.
  - (* on_packets_lost *)
    destruct H as (Hmss & Hc). unfold cubic_on_lost.
    destruct (fltb F (cb_start c) _); [|cbn [cb_mss cb_fanom cb_cwnd cb_first_ss cb_starting cb_West]; auto].
    match goal with |- context [let '(wmax, anom) := ?e in _] => destruct e as [wmax anom] end.
    destruct (trunc_flag F _ _) as [red anom']. cbn [cb_mss cb_fanom cb_cwnd cb_first_ss cb_starting cb_West]. split; auto. intros _.
    rewrite Hmss. split; [lia|discriminate].
  - (* on_rtt_measurement *)
    destruct H as (Hmss & Hc). unfold cubic_on_rtt.
    destruct (cb_ssthresh c); [cbn [cb_mss cb_fanom cb_cwnd cb_first_ss cb_starting cb_West]; auto|].
    destruct (is_rtt_increasing F (cb_mon c) now r). cbn [cb_mss cb_fanom cb_cwnd cb_first_ss cb_starting cb_West]. auto.
Qed.

Lemma cubic_init_P : forall mss o, 0 < mss -> cubic_P mss (cubic_init F mss o).
Proof.
  intros mss o Hm. unfold cubic_P, cubic_init. cbn [cb_mss cb_fanom cb_cwnd cb_first_ss cb_starting cb_West]. split; auto. intros _.
  assert (K_MINIMUM_WINDOW <= K_INITIAL_WINDOW) by (vm_compute; discriminate).
  split; [nia|discriminate].
Qed.

Theorem cwnd_floor_cubic_partial_gen : forall n irtt mss pcav o ops st evs,
  0 < mss -> Forall (op_nn (T:=T)) ops ->
  run F (cubic_cc F) (rec_init F n irtt mss pcav (cubic_init F mss o)) ops = (st, evs) ->
  cb_fanom (r_cc st) = false ->
  K_MINIMUM_WINDOW * mss <= cb_cwnd (r_cc st) /\ K_MINIMUM_WINDOW = 2.
Proof.
  intros n irtt mss pcav o ops st evs Hm Hn Hr Hf.
  pose proof (run_pres F (cubic_cc F) (cubic_P mss) (cubic_pres mss Hm) ops _ _ _
                (init_pgood F (cubic_P mss) n irtt mss pcav _ (cubic_init_P mss o Hm)) Hn Hr) as (Pc & _).
  split; [apply Pc; exact Hf|reflexivity].
Qed.

End CubicProofs.
