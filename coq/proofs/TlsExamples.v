(* C11: concrete runs of the model - the premises of the sequence theorems are satisfiable by
   non-trivial runs (both legal flights complete), and the classic skip attacks are refused. *)
From AQ Require Import lib.Base gen.TlsDispatch model.TlsSM proofs.TlsDispatchLegal proofs.TlsNoSkip proofs.TlsKeys.

(* a message of type t whose every check passes *)
Definition good (t : Z) : msg := mkMsg t 0 0 false true false true true true true 0 true.
Definition good_psk (t : Z) : msg := mkMsg t 0 0 true true false true true true true 0 true.
Definition badsig (t : Z) : msg := mkMsg t 0 0 false true false true true true false 0 true.

Definition cfg_plain : cfg := mkCfg false false true false.
Definition cfg_psk : cfg := mkCfg true true true false.
Definition cfg_req : cfg := mkCfg false false true true.

Definition states (tr : list event) : list Z := map (fun e => state_val (s_state (ev_st e))) tr.
Definition keys (tr : list event) : list key := flat_map ev_keys tr.

(* full handshake, with and without CertificateRequest *)
Example client_full :
  let tr := run cfg_plain (client_started cfg_plain) [good 2; good 8; good 11; good 15; good 20; good 4] in
  states tr = [2; 3; 5; 6; 7; 7] /\
  keys tr = [(DIR_DECRYPT, EP_HANDSHAKE); (DIR_ENCRYPT, EP_HANDSHAKE); (DIR_DECRYPT, EP_ONE_RTT); (DIR_ENCRYPT, EP_ONE_RTT)] /\
  length (accepted tr) = 6%nat.
Proof. vm_compute. auto. Qed.

Example client_full_cr :
  states (run cfg_plain (client_started cfg_plain) [good 2; good 8; good 13; good 11; good 15; good 20])
  = [2; 3; 4; 5; 6; 7].
Proof. reflexivity. Qed.

(* resumption *)
Example client_resumed :
  let tr := run cfg_psk init_client [good 0; good_psk 2; good 8; good 20] in
  states tr = [1; 2; 6; 7] /\
  keys tr = [(DIR_ENCRYPT, EP_ZERO_RTT); (DIR_DECRYPT, EP_HANDSHAKE); (DIR_ENCRYPT, EP_HANDSHAKE);
             (DIR_DECRYPT, EP_ONE_RTT); (DIR_ENCRYPT, EP_ONE_RTT)].
Proof. vm_compute. auto. Qed.

(* skip attacks: Finished directly after EncryptedExtensions / after Certificate; a ServerHello that
   selects a PSK the client never offered; a bad signature followed by Finished *)
Example skip_cert_and_cv :
  states (run cfg_plain (client_started cfg_plain) [good 2; good 8; good 20]) = [2; 3; 3].
Proof. reflexivity. Qed.
Example skip_cv :
  states (run cfg_plain (client_started cfg_plain) [good 2; good 8; good 11; good 20]) = [2; 3; 5; 5].
Proof. reflexivity. Qed.
Example psk_not_offered :
  map ev_out (run cfg_plain (client_started cfg_plain) [good_psk 2]) = [OAlert AD_illegal_parameter].
Proof. reflexivity. Qed.
Example bad_signature :
  let tr := run cfg_plain (client_started cfg_plain) [good 2; good 8; good 11; badsig 15; good 20] in
  states tr = [2; 3; 5; 5; 5] /\ map ev_out tr = [OOk; OOk; OOk; OAlert AD_decrypt_error; OAlert AD_unexpected_message].
Proof. vm_compute. auto. Qed.

(* server: without and with client authentication *)
Example server_plain :
  let tr := run cfg_plain init_server [good 1; good 20] in
  states tr = [11; 12] /\
  keys tr = [(DIR_ENCRYPT, EP_HANDSHAKE); (DIR_DECRYPT, EP_HANDSHAKE); (DIR_ENCRYPT, EP_ONE_RTT); (DIR_DECRYPT, EP_ONE_RTT)].
Proof. vm_compute. auto. Qed.
Example server_client_auth :
  states (run cfg_req init_server [good 1; good 11; good 15; good 20]) = [9; 10; 11; 12].
Proof. reflexivity. Qed.
Example server_skip_cv :
  states (run cfg_req init_server [good 1; good 11; good 20]) = [9; 10; 10].
Proof. reflexivity. Qed.

(* the premises of no_skip are satisfiable: both conclusions' disjuncts are inhabited *)
Example no_skip_premise_full :
  s_state (final (client_started cfg_plain)
             (run cfg_plain (client_started cfg_plain) [good 2; good 8; good 11; good 15; good 20]))
  = CLIENT_POST_HANDSHAKE.
Proof. reflexivity. Qed.
Example no_skip_premise_psk :
  s_state (final (client_started cfg_psk)
             (run cfg_psk (client_started cfg_psk) [good_psk 2; good 8; good 20]))
  = CLIENT_POST_HANDSHAKE.
Proof. reflexivity. Qed.
Example no_skip_premise_server :
  s_state (final init_server (run cfg_req init_server [good 1; good 11; good 15; good 20]))
  = SERVER_POST_HANDSHAKE.
Proof. reflexivity. Qed.
