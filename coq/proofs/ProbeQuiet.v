(* C08 (round e08): one probe per timeout WITHOUT the prestop exclusion, for calls in which the writers ahead of the probe PING
   of every started 1-RTT / 0-RTT packet wrote nothing ack-eliciting ("quiet": nothing pending, or an ACK that raised
   QuicPacketBuilderStop).  Proofs about model/ProbeBudget.v only; proofs/ProbeWritersProofs.v shows that this is what the
   writer model produces when no control frame is pending. *)
From AQ Require Import lib.Base gen.C08Probe model.ProbeBudget proofs.ProbeBudgetProofs.
From Coq Require Import String.

Definition wr_quiet (w : wr) : bool := match w with WNone | WStop false => true | _ => false end.
Definition iter_quiet (a : app_iter) : bool := negb (ai_start a) || wr_quiet (ai_before a).
Definition call_quiet (d : call_in) : bool := match c_app d with None => true | Some its => forallb iter_quiet its end.
Definition ev_quiet (e : ev) : bool := match e with ECall d => call_quiet d | _ => true end.

(* between the loop iterations of such a call: an ack-eliciting frame written by this call implies that the flag is clear *)
Definition Good2 (p0 : bool) (s : cs) : Prop :=
  (pp s = true -> p0 = true) /\ (raised s = true -> p0 = true) /\ (ae s = true -> pp s = false).

Ltac crush2 :=
  unfold Good2 in *; cbn in *; intuition (try congruence);
  repeat match goal with b : bool |- _ => destruct b end; cbn in *; intuition congruence.

Lemma good2_hs_iteration p0 c ep d s : Good2 p0 s -> Good2 p0 (hs_iteration c ep d s).
Proof.
  intros G. unfold hs_iteration.
  change hs_order with [1; 2; 3; 5; 9].
  destruct s as [p a h x r]. destruct d as [st ak cr pk em]. destruct c as [lo hc hk ot].
  destruct h; [cbn; exact G|].
  destruct st, ak as [| |w1], cr as [| |w2], p, hc, ep, hk, pk; cbn; crush2.
Qed.

Lemma good2_hs_loop p0 c ep : forall its s, Good2 p0 s -> Good2 p0 (hs_loop c ep its s).
Proof.
  induction its as [|d t IH]; intros s G; simpl; [exact G|].
  pose proof (good2_hs_iteration p0 c ep d s G) as G1.
  destruct (halted (hs_iteration c ep d s) || hi_empty d); [exact G1|apply IH; exact G1].
Qed.

Lemma good2_hs_epoch p0 c ep o s : Good2 p0 s -> Good2 p0 (hs_epoch c ep o s).
Proof.
  intros G. unfold hs_epoch. destruct (halted s); [exact G|]. destruct o; [apply good2_hs_loop; exact G|exact G].
Qed.

Lemma good2_app_iteration p0 c d s :
  halted s = false -> iter_quiet d = true -> Good2 p0 s -> Good2 p0 (app_iteration c d s).
Proof.
  intros Hh Q G. unfold app_iteration.
  change (nonempty app_writers_before) with true. change (nonempty app_writers_after) with true.
  change app_probe_guard with (GAtom APending). change app_probe_body with [SPing; SClear].
  destruct s as [p a h x r]. cbn in Hh. subst h. destruct d as [pc st bf pk af em]. destruct c as [lo hc hk ot].
  unfold iter_quiet in Q. cbn in Q.
  destruct st; [|cbn; crush2].
  destruct bf as [| |[|]]; cbn in Q; try discriminate Q; destruct af as [| |[|]], p, pk, a; cbn; crush2.
Qed.

Lemma good2_app_loop p0 c : forall its s,
  halted s = false -> forallb iter_quiet its = true -> Good2 p0 s -> Good2 p0 (app_loop c its s).
Proof.
  induction its as [|d t IH]; intros s Hh Q G; simpl; [exact G|].
  simpl in Q. apply andb_true_iff in Q. destruct Q as [Q1 Q2].
  destruct (ai_paced d); [exact G|].
  pose proof (good2_app_iteration p0 c d s Hh Q1 G) as G1.
  destruct (halted (app_iteration c d s)) eqn:E; simpl; [exact G1|].
  destruct (ai_empty d); [exact G1|apply IH; assumption].
Qed.

Lemma call_good2 p0 d : call_quiet d = true -> Good2 p0 (call p0 d).
Proof.
  intros Q. unfold call.
  assert (G0 : Good2 p0 (mkCS p0 false false false false)) by (unfold Good2; cbn; intuition congruence).
  destruct (c_skip d || c_close d); [exact G0|].
  set (s1 := if geval _ dts_budget_guard then _ else _).
  assert (G1 : Good2 p0 s1).
  { subst s1. change dts_budget_guard with (GAnd (GAtom APending) (GAtom ALowBudget)). change dts_budget_body with [SRaiseBudget].
    destruct p0; cbn; destruct (ce_low (c_env d)); cbn; unfold Good2; cbn; intuition congruence. }
  set (s2 := if c_confirmed d then s1 else _).
  assert (G2 : Good2 p0 s2).
  { subst s2. destruct (c_confirmed d); [exact G1|]. apply good2_hs_epoch, good2_hs_epoch, G1. }
  unfold call_quiet in Q.
  destruct (halted s2) eqn:E; [exact G2|]. destruct (c_app d); [apply good2_app_loop; assumption|exact G2].
Qed.

Definition HInv2 (s : pst) : Prop := s_over s + b2z (s_pp s) <= s_grants s.

Lemma step_inv2 s e : ev_quiet e = true -> HInv2 s -> HInv2 (step s e).
Proof.
  intros Q A. unfold HInv2 in *. destruct e as [[|]| | |d]; cbn [step].
  - cbn. try rewrite send_probe_true. unfold b2z in *. destruct (s_pp s); lia.
  - exact A.
  - destruct (s_cr s) eqn:E; [exact A|]. cbn. try rewrite send_probe_true. unfold b2z in *. destruct (s_pp s); lia.
  - exact A.
  - destruct (call_good2 (s_pp s) d Q) as (F1 & F2 & F3). cbn.
    destruct (raised (call (s_pp s) d)) eqn:R, (ae (call (s_pp s) d)) eqn:Ae; cbn;
      try (rewrite (F3 eq_refl); rewrite (F2 eq_refl) in A; cbn in *; lia);
      destruct (pp (call (s_pp s) d)) eqn:P; try (rewrite (F1 eq_refl) in A); cbn in *; unfold b2z in *;
      destruct (s_pp s); lia.
Qed.

Lemma run_inv2 : forall h s, forallb ev_quiet h = true -> HInv2 s -> HInv2 (fold_left step h s).
Proof.
  induction h as [|e t IH]; intros s Q H; simpl; [exact H|].
  simpl in Q. apply andb_true_iff in Q. destruct Q as [Q1 Q2]. apply IH; [exact Q2|apply step_inv2; assumption].
Qed.

(* ONE PROBE PER TIMEOUT, no exclusion: in a history whose datagrams_to_send calls are all quiet ahead of the probe PING, the
   calls that had their budget raised by the probe rule and wrote an ack-eliciting frame -- ALL of them -- are at most the
   send_probe grants. *)
Theorem one_probe_quiet_thm : forall h, forallb ev_quiet h = true ->
  s_over (run h) <= s_grants (run h) /\ s_grants (run h) <= s_timeouts (run h) + 1.
Proof.
  intros h Q. assert (I : HInv2 (run h)) by (apply run_inv2; [exact Q|unfold HInv2, init; cbn; lia]).
  destruct (one_probe_per_timeout_thm h) as (_ & _ & C).
  unfold HInv2, b2z in I. split; [destruct (s_pp (run h)); lia|exact C].
Qed.

(* not vacuous: the history of [probes_happen] is quiet (two timeouts, two over-window calls) *)
Example quiet_history_example :
  let h := [ETimeout true; ECall call_full; ECall call_full; EOther; ETimeout true; ECall call_full] in
  forallb ev_quiet h = true /\ s_over (run h) = 2 /\ s_grants (run h) = 2.
Proof. repeat split; reflexivity. Qed.

(* and the refuting history of C08-F3 is not: its first call fills the packet ahead of the PING *)
Example flood_not_quiet : call_quiet call_flood = false.
Proof. reflexivity. Qed.
