(* C15 specification: the property sentence written as predicates over header lists.
   Hand-written and independent of the generated tables (all byte values are literals here). *)
From AQ Require Import lib.Base model.H3Validate.

(* "lower-case names free of control, space and non-ASCII characters":
   control = 0x00..0x1f and 0x7f, space = 0x20, non-ASCII = 0x80.., upper case = 'A'..'Z' *)
Definition name_char_ok (c : Z) : Prop := 32 < c < 127 /\ ~ (65 <= c <= 90).
Definition name_ok (k : bytes) : Prop := Forall name_char_ok k.

(* "values free of NUL, CR and LF and of leading or trailing whitespace" (whitespace = SP / HTAB) *)
Definition ws (c : Z) : Prop := c = 32 \/ c = 9.
Definition value_char_ok (c : Z) : Prop := c <> 0 /\ c <> 13 /\ c <> 10.
Definition value_ok (v : bytes) : Prop :=
  Forall value_char_ok v
  /\ (forall c t, v = c :: t -> ~ ws c)
  /\ (forall c t, v = t ++ [c] -> ~ ws c).

(* a pseudo-header name starts with ':' *)
Definition is_pseudo (k : bytes) : Prop := exists t, k = 58 :: t.

Definition b_method : bytes := [58; 109; 101; 116; 104; 111; 100].                    (* ":method" *)
Definition b_scheme : bytes := [58; 115; 99; 104; 101; 109; 101].                     (* ":scheme" *)
Definition b_authority : bytes := [58; 97; 117; 116; 104; 111; 114; 105; 116; 121].   (* ":authority" *)
Definition b_path : bytes := [58; 112; 97; 116; 104].                                 (* ":path" *)
Definition b_protocol : bytes := [58; 112; 114; 111; 116; 111; 99; 111; 108].         (* ":protocol" *)
Definition b_status : bytes := [58; 115; 116; 97; 116; 117; 115].                     (* ":status" *)

(* the pseudo-headers known for a message kind *)
Definition known_pseudo (k : kind) : list bytes :=
  match k with
  | KRequest => [b_method; b_scheme; b_authority; b_path; b_protocol]
  | KResponse => [b_status]
  | KPushPromise => [b_method; b_scheme; b_authority; b_path]
  | KTrailers => []
  end.

Definition names (hs : list header) : list bytes := map fst hs.

(* "all pseudo-headers before regular headers" *)
Definition pseudo_first (ns : list bytes) : Prop :=
  exists ps rs, ns = ps ++ rs /\ Forall is_pseudo ps /\ Forall (fun k => ~ is_pseudo k) rs.

(* "none repeated": no two positions of the list carry the same pseudo-header name *)
Definition pseudo_unique (ns : list bytes) : Prop :=
  forall pre k mid post, ns = pre ++ k :: mid ++ k :: post -> ~ is_pseudo k.

(* "none unknown" *)
Definition pseudo_known (kd : kind) (ns : list bytes) : Prop :=
  forall k, In k ns -> is_pseudo k -> In k (known_pseudo kd).

(* "a :method on requests, a :status on responses and none on trailers" (a push promise carries a request) *)
Definition required_present (kd : kind) (ns : list bytes) : Prop :=
  match kd with
  | KRequest | KPushPromise => In b_method ns
  | KResponse => In b_status ns
  | KTrailers => Forall (fun k => ~ is_pseudo k) ns
  end.

Definition wellformed (kd : kind) (hs : list header) : Prop :=
  Forall (fun h => name_ok (fst h) /\ value_ok (snd h)) hs
  /\ pseudo_first (names hs)
  /\ pseudo_unique (names hs)
  /\ pseudo_known kd (names hs)
  /\ required_present kd (names hs).

(* the HTTP/3 message error, RFC 9114 section 8.1 *)
Definition H3_MESSAGE_ERROR : Z := 270.   (* 0x010e *)

(* ---------- content-length: what the application sees of one stream *)
Definition ev_ended (e : sevent) : bool :=
  match e with EHeaders _ b => b | EData _ b => b end.
Definition ev_body (e : sevent) : Z :=
  match e with EHeaders _ _ => 0 | EData n _ => n end.
Definition body_bytes (evs : list sevent) : Z := fold_right (fun e acc => ev_body e + acc) 0 evs.

Definition b_content_length : bytes := [99; 111; 110; 116; 101; 110; 116; 45; 108; 101; 110; 103; 116; 104].  (* "content-length" *)

(* header list hs declares content-length n: some content-length header spells n *)
Definition declares (hs : list header) (n : Z) : Prop :=
  exists v, In (b_content_length, v) hs /\ py_int_bytes v = VOk n.

(* the header block that opened the message, as delivered to the application *)
Fixpoint first_headers (evs : list sevent) : option (list header) :=
  match evs with
  | [] => None
  | EHeaders hs _ :: _ => Some hs
  | EData _ _ :: t => first_headers t
  end.

(* "when a stream ends, a declared content-length equals the number of body bytes delivered":
   for every event e that tells the application the stream ended, every content-length declared by the
   message's header block equals the body bytes delivered up to and including e. *)
Definition content_length_respected (evs : list sevent) : Prop :=
  forall pre e post, evs = pre ++ e :: post -> ev_ended e = true ->
  forall hs n, first_headers (pre ++ [e]) = Some hs -> declares hs n -> body_bytes (pre ++ [e]) = n.
