(* Proofs about model/TlsCodec.v: length-prefixed blocks nest exactly; opaque / Finished /
   CertificateVerify round trips; the extension_length field of known extensions is ignored. *)
From AQ Require Import lib.Base model.Codec model.TlsCodec proofs.CodecProofs proofs.HeaderProofs.
From Coq Require Import ZifyBool.

(* a block decodes when its body decoder consumes exactly the encoded body *)
Lemma pull_block_enc {A} cap (body : Z -> list Z -> Res (A * list Z)) bb v rest :
  Zlen bb < 256 ^ Z.of_nat cap ->
  body (Zlen bb) (bb ++ rest) = Ok (v, rest) ->
  pull_block cap body (be_enc cap (Zlen bb) ++ bb ++ rest) = Ok (v, rest).
Proof.
  intros Hl Hb. unfold pull_block. rewrite pull_be_enc. cbn [bind].
  pose proof (Zlen_nonneg bb). rewrite Z.mod_small by lia. rewrite Hb. cbn [bind].
  rewrite Zlen_app. replace (Zlen bb + Zlen rest - Zlen rest) with (Zlen bb) by lia.
  now rewrite Z.eqb_refl.
Qed.

(* success of a block implies the body ended EXACTLY at the declared length (well_nested) *)
Theorem pull_block_exact {A} cap (body : Z -> list Z -> Res (A * list Z)) bs v rest :
  pull_block cap body bs = Ok (v, rest) ->
  exists len b1, pull_be cap bs = Ok (len, b1) /\ body len b1 = Ok (v, rest) /\ Zlen b1 - Zlen rest = len.
Proof.
  unfold pull_block. destruct (pull_be cap bs) as [[len b1]|k] eqn:E1; cbn [bind]; [|discriminate].
  destruct (body len b1) as [[v' b2]|k] eqn:E2; cbn [bind]; [|discriminate].
  destruct (Zlen b1 - Zlen b2 =? len) eqn:E3; [|discriminate].
  intros H. injection H as <- <-. exists len, b1. repeat split; auto. lia.
Qed.

(* ... and a body that stops anywhere else is rejected with AlertDecodeError *)
Theorem pull_block_mismatch {A} cap (body : Z -> list Z -> Res (A * list Z)) bs len b1 v b2 :
  pull_be cap bs = Ok (len, b1) -> body len b1 = Ok (v, b2) -> Zlen b1 - Zlen b2 <> len ->
  pull_block cap body bs = Err E_ALERT_DECODE.
Proof.
  intros E1 E2 N. unfold pull_block. rewrite E1. cbn [bind]. rewrite E2. cbn [bind].
  destruct (Zlen b1 - Zlen b2 =? len) eqn:E; [lia|reflexivity].
Qed.

Theorem opaque_roundtrip cap d rest : Zlen d < 256 ^ Z.of_nat cap ->
  exists bytes, enc_tv (TBlock cap [TBytes d]) = Ok bytes /\ pull_opaque cap (bytes ++ rest) = Ok (d, rest).
Proof.
  intros Hl. cbn [enc_tv bind]. rewrite app_nil_r.
  destruct (Zlen d >=? 256 ^ Z.of_nat cap) eqn:E; [lia|].
  eexists. split; [reflexivity|]. rewrite <- app_assoc. unfold pull_opaque.
  apply pull_block_enc; auto. apply pull_bytes_app.
Qed.

(* Finished: handshake type 20, opaque<0..2^24-1> *)
Theorem finished_roundtrip d rest : Zlen d < 2 ^ 24 ->
  exists bytes, enc_seq [TInt 1 20; TBlock 3 [TBytes d]] = Ok bytes /\
    pull_finished (bytes ++ rest) = Ok (out_bytes d, rest).
Proof.
  intros Hl. destruct (opaque_roundtrip 3 d rest Hl) as (ob & E & P).
  cbn [enc_seq bind]. rewrite E. cbn [enc_tv bind]. rewrite app_nil_r.
  eexists. split; [reflexivity|]. rewrite <- app_assoc.
  unfold pull_finished, pull_handshake_type.
  change (be_enc 1 20) with [20]. cbn [app]. unfold pull_uint8, pull_be.
  cbn [firstn skipn be_dec]. rewrite Zlen_cons. pose proof (Zlen_nonneg (ob ++ rest)).
  destruct (1 + Zlen (ob ++ rest) <? Z.of_nat 1) eqn:E1; [lia|]. cbn [bind Z.eqb Z.add Z.mul Pos.eqb].
  rewrite P. reflexivity.
Qed.

Example finished_domain_example : Zlen (repeat 170 48) < 2 ^ 24.
Proof. vm_compute. reflexivity. Qed.

(* F13 witness: a ServerHello whose supported_versions extension DECLARES length 0 but whose
   2-byte body is nevertheless read (extension_length is ignored for known extensions): the
   decoder reads past the declared end of the extension and succeeds with version 0x0304. *)
Definition sh_lying_extension : list Z :=
  [2; 0; 0; 46; 3; 3] ++ repeat 0 32 ++ [0; 0x13; 0x01; 0; 0; 6; 0; 43; 0; 0; 3; 4].

Example ext_length_ignored_refuted :
  pull_server_hello sh_lying_extension =
    Ok (out_bytes (repeat 0 32) ++ [0] ++ [0x1301; 0] ++ [1; 0x0304; 0; 0] ++ [0], []).
Proof. vm_compute. reflexivity. Qed.

(* an empty ALPN list in EncryptedExtensions is a decode error (it escaped as IndexError before
   /repo commit 759c7d3: candidate finding F5, now fixed) *)
Example ee_empty_alpn_decode_error :
  pull_encrypted_extensions [8; 0; 0; 8; 0; 6; 0; 16; 0; 2; 0; 0] = Err E_ALERT_DECODE.
Proof. vm_compute. reflexivity. Qed.
