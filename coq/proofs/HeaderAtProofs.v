(* pull_quic_header at an explicit start offset of a larger buffer, and the walk over coalesced packets.

   1. header_buf_is_suffix: the offset-explicit model (absolute buf.tell() / buf.capacity arithmetic, as the
      code writes it) equals the suffix model of model/Header.v for EVERY capacity -- the abstraction "the
      function only sees the bytes from the packet start on" is a theorem about the model of the code as
      written, and the tie checks the code against the offset-explicit model at non-zero offsets.
   2. header_pull_total_at_offset: for every datagram and every start offset: a header whose declared end
      start + packet_length lies inside the datagram, or BufferReadError / ValueError.
   3. walk_total: the receive walk never seeks out of bounds; its boundaries are consecutive, non-empty,
      inside the datagram; fuel |datagram| + 1 is enough.
   4. coalesced_roundtrip: packets written by the builder back to back are recovered exactly. *)
From AQ Require Import lib.Base lib.Tok model.Codec model.Varint model.Header model.HeaderAt.
From AQ Require Import proofs.CodecProofs proofs.VarintProofs proofs.HeaderProofs.

(* ---- 1. offset-explicit = suffix ------------------------------------------------------------------ *)
Lemma finish_long_at_eq cap bs version ptype dcid scid token tag rl rest :
  finish_long_at cap (tell cap bs) version ptype dcid scid token tag rl rest =
  finish_long (Zlen bs) version ptype dcid scid token tag rl rest.
Proof.
  unfold finish_long_at, finish_long, tell.
  destruct (cap - Zlen rest + rl >? cap) eqn:E1; destruct (rl >? Zlen rest) eqn:E2; try lia; try reflexivity.
  do 3 f_equal. lia.
Qed.

Theorem header_buf_is_suffix hcl cap bs : pull_quic_header_buf hcl cap bs = pull_quic_header hcl bs.
Proof.
  unfold pull_quic_header_buf, pull_quic_header.
  destruct (pull_uint8 bs) as [[first b1]|]; cbn [bind]; [|reflexivity].
  destruct (is_long_header first).
  2:{ destruct (negb (has_fixed_bit first)); [reflexivity|].
      destruct (pull_bytes hcl b1) as [[dcid b2]|]; cbn [bind]; [|reflexivity].
      do 3 f_equal. unfold tell. lia. }
  destruct (pull_uint32 b1) as [[version b2]|]; cbn [bind]; [|reflexivity].
  destruct (pull_uint8 b2) as [[dl b3]|]; cbn [bind]; [|reflexivity].
  destruct (dl >? CONNECTION_ID_MAX_SIZE); [reflexivity|].
  destruct (pull_bytes dl b3) as [[dcid b4]|]; cbn [bind]; [|reflexivity].
  destruct (pull_uint8 b4) as [[sl b5]|]; cbn [bind]; [|reflexivity].
  destruct (sl >? CONNECTION_ID_MAX_SIZE); [reflexivity|].
  destruct (pull_bytes sl b5) as [[scid b6]|]; cbn [bind]; [|reflexivity].
  destruct (version =? 0).
  { destruct (pull_versions b6); cbn [bind]; [|reflexivity]. do 3 f_equal. unfold tell. change (Zlen []) with 0. lia. }
  destruct (negb (has_fixed_bit first)); [reflexivity|].
  destruct (decode_long_type version (Z.shiftr (Z.land first 48) 4) =? PT_INITIAL).
  { destruct (pull_uint_var b6) as [[tl b7]|]; cbn [bind]; [|reflexivity].
    destruct (pull_bytes tl b7) as [[token b8]|]; cbn [bind]; [|reflexivity].
    destruct (pull_uint_var b8) as [[rl b9]|]; cbn [bind]; [|reflexivity].
    apply finish_long_at_eq. }
  destruct ((_ =? PT_ZERO_RTT) || (_ =? PT_HANDSHAKE)).
  { destruct (pull_uint_var b6) as [[rl b7]|]; cbn [bind]; [|reflexivity]. apply finish_long_at_eq. }
  replace (cap - tell cap b6 - RETRY_INTEGRITY_TAG_SIZE) with (Zlen b6 - RETRY_INTEGRITY_TAG_SIZE) by (unfold tell; lia).
  destruct (pull_bytes _ b6) as [[token b7]|]; cbn [bind]; [|reflexivity].
  destruct (pull_bytes _ b7) as [[tag b8]|]; cbn [bind]; [|reflexivity].
  apply finish_long_at_eq.
Qed.

Lemma seek_ok_iff cap pos : seek_ok cap pos = true <-> 0 <= pos <= cap.
Proof. unfold seek_ok. destruct (pos <? 0) eqn:A; destruct (pos >? cap) eqn:B; cbn; split; intros; try lia; congruence. Qed.

Lemma zdrop_suffix {A} n (l : list A) : exists u, l = u ++ zdrop n l /\ (0 <= n <= Zlen l -> Zlen u = n).
Proof.
  exists (ztake n l). split; [symmetry; apply firstn_skipn|].
  intros H. unfold ztake, Zlen in *. rewrite firstn_length_le; lia.
Qed.

Lemma zdrop_Zlen {A} n (l : list A) : 0 <= n <= Zlen l -> Zlen (zdrop n l) = Zlen l - n.
Proof. intros H. unfold zdrop, Zlen in *. rewrite skipn_length. lia. Qed.

Theorem header_at_is_suffix hcl data start : 0 <= start <= Zlen data ->
  pull_quic_header_at hcl data start = pull_quic_header hcl (zdrop start data).
Proof.
  intros H. unfold pull_quic_header_at. destruct (seek_ok_iff (Zlen data) start) as [_ ->]; [|exact H].
  apply header_buf_is_suffix.
Qed.

(* ---- progress: an accepted header consumed at least its first byte -------------------------------- *)
Lemma pull_be_len n b v r : pull_be n b = Ok (v, r) -> Zlen r = Zlen b - Z.of_nat n.
Proof.
  unfold pull_be. destruct (Zlen b <? Z.of_nat n) eqn:E; [discriminate|]. intros [= _ <-].
  unfold Zlen in *. rewrite skipn_length. lia.
Qed.

Lemma pull_bytes_le n b v r : pull_bytes n b = Ok (v, r) -> Zlen r <= Zlen b.
Proof. intros H. pose proof (pull_bytes_spec n b) as S. rewrite H in S. destruct S as (S & _). now apply suffix_len. Qed.

Lemma pull_uint_var_le b v r : pull_uint_var b = Ok (v, r) -> Zlen r <= Zlen b.
Proof.
  unfold pull_uint_var. destruct b as [|b0 t]; [discriminate|].
  destruct (Zlen (b0 :: t) <? _); [discriminate|]. intros [= _ <-]. unfold Zlen. rewrite skipn_length. lia.
Qed.

Ltac peel H :=
  repeat match type of H with
  | bind ?f _ = Ok _ => destruct f as [[? ?]|?] eqn:?; cbn [bind] in H; [|discriminate]
  | (if ?c then _ else _) = Ok _ => destruct c eqn:?; try discriminate
  end.

Ltac lens :=
  repeat match goal with
  | E : pull_bytes _ _ = Ok _ |- _ => apply pull_bytes_le in E
  | E : pull_uint_var _ = Ok _ |- _ => apply pull_uint_var_le in E
  | E : pull_uint8 _ = Ok _ |- _ => apply (pull_be_len 1) in E
  | E : pull_uint32 _ = Ok _ |- _ => apply (pull_be_len 4) in E
  end.

Lemma header_pull_progress hcl bs h rest : pull_quic_header hcl bs = Ok (h, rest) -> Zlen rest < Zlen bs.
Proof.
  intros H. unfold pull_quic_header in H.
  destruct (pull_uint8 bs) as [[first b1]|] eqn:E1; cbn [bind] in H; [|discriminate].
  apply (pull_be_len 1) in E1. pose proof (Zlen_nonneg b1) as Nb1.
  destruct (is_long_header first).
  2:{ peel H. injection H as _ <-. lens. lia. }
  destruct (pull_uint32 b1) as [[version b2]|] eqn:E2; cbn [bind] in H; [|discriminate].
  destruct (pull_uint8 b2) as [[dl b3]|] eqn:E3; cbn [bind] in H; [|discriminate].
  destruct (dl >? CONNECTION_ID_MAX_SIZE); [discriminate|].
  destruct (pull_bytes dl b3) as [[dcid b4]|] eqn:E4; cbn [bind] in H; [|discriminate].
  destruct (pull_uint8 b4) as [[sl b5]|] eqn:E5; cbn [bind] in H; [|discriminate].
  destruct (sl >? CONNECTION_ID_MAX_SIZE); [discriminate|].
  destruct (pull_bytes sl b5) as [[scid b6]|] eqn:E6; cbn [bind] in H; [|discriminate].
  lens.
  destruct (version =? 0).
  { destruct (pull_versions b6); cbn [bind] in H; [|discriminate]. injection H as _ <-. change (Zlen []) with 0. lia. }
  destruct (negb (has_fixed_bit first)); [discriminate|].
  destruct (_ =? PT_INITIAL).
  { peel H. unfold finish_long in H. peel H. injection H as _ <-. lens. lia. }
  destruct (_ || _).
  { peel H. unfold finish_long in H. peel H. injection H as _ <-. lens. lia. }
  peel H. unfold finish_long in H. peel H. injection H as _ <-. lens. lia.
Qed.

(* ---- 2. totality and nesting at an explicit offset ------------------------------------------------- *)
(* what "nested" means for a packet that starts at offset [start] of the datagram [data] *)
Definition header_nested_at (data : list Z) (start : Z) (h : header) (rest : list Z) : Prop :=
  suffix rest data /\
  start < tell (Zlen data) rest /\                       (* at least the first byte was consumed *)
  tell (Zlen data) rest <= start + h_length h /\         (* the header lies inside the packet *)
  start + h_length h <= Zlen data /\                     (* THE DECLARED PACKET END LIES INSIDE THE DATAGRAM *)
  (h_type h <> PT_ONE_RTT -> Zlen (h_dcid h) <= 20 /\ Zlen (h_scid h) <= 20).

Theorem header_pull_total_at_offset hcl data start : bytes_ok data -> 0 <= start <= Zlen data ->
  match pull_quic_header_at hcl data start with
  | Ok (h, rest) => header_nested_at data start h rest
  | Err k => k = E_READ \/ k = E_VALUE
  end.
Proof.
  intros Hb Hs. rewrite header_at_is_suffix by exact Hs.
  destruct (zdrop_suffix start data) as (u & Eu & Lu). specialize (Lu Hs).
  assert (Sd : suffix (zdrop start data) data) by (exists u; exact Eu).
  pose proof (header_pull_total hcl (zdrop start data) (suffix_ok _ _ Sd Hb)) as T.
  destruct (pull_quic_header hcl (zdrop start data)) as [[h rest]|k] eqn:E; [|exact T].
  apply header_pull_progress in E. destruct T as (S & L & C).
  rewrite zdrop_Zlen in * by exact Hs.
  unfold header_nested_at, tell. repeat split; try lia; try (apply C; assumption).
  eapply suffix_trans; eassumption.
Qed.

(* out of range start offsets: buf.seek(start) itself raises *)
Lemma header_at_bad_seek hcl data start : ~ (0 <= start <= Zlen data) -> pull_quic_header_at hcl data start = Err E_SEEK.
Proof.
  intros H. unfold pull_quic_header_at. destruct (seek_ok (Zlen data) start) eqn:E; [|reflexivity].
  apply seek_ok_iff in E. contradiction.
Qed.

(* ---- 3. the receive walk ---------------------------------------------------------------------------- *)
(* consecutive, non-empty packets from [start] on, all inside [0, cap] *)
Fixpoint chain (start cap : Z) (l : list (Z * Z)) : Prop :=
  match l with
  | [] => True
  | (s, e) :: t => s = start /\ s < e /\ e <= cap /\ chain e cap t
  end.

Theorem walk_total fuel hcl data start : bytes_ok data -> 0 <= start <= Zlen data ->
  let '(l, st) := walk fuel hcl data start in
  chain start (Zlen data) l /\ (st = 0 \/ st = E_READ \/ st = E_VALUE).
Proof.
  intros Hb. revert start. induction fuel as [|f IH]; intros start Hs; cbn [walk].
  - cbn. auto.
  - destruct (start >=? Zlen data); [cbn; auto|].
    pose proof (header_pull_total_at_offset hcl data start Hb Hs) as T.
    destruct (pull_quic_header_at hcl data start) as [[h rest]|k]; [|cbn; intuition].
    destruct T as (_ & P1 & P2 & P3 & _).
    destruct (seek_ok_iff (Zlen data) (start + h_length h)) as [_ ->]; [|lia].
    specialize (IH (start + h_length h) ltac:(lia)).
    destruct (walk f hcl data (start + h_length h)) as [tl st]. destruct IH as [IH1 IH2].
    split; [|exact IH2]. cbn [chain]. repeat split; try lia. exact IH1.
Qed.

(* the statement asked for: the walk never raises "Seek out of bounds" *)
Corollary walk_never_seeks_out fuel hcl data start : bytes_ok data -> 0 <= start <= Zlen data ->
  snd (walk fuel hcl data start) <> E_SEEK.
Proof.
  intros Hb Hs. pose proof (walk_total fuel hcl data start Hb Hs) as T.
  destruct (walk fuel hcl data start) as [l st]. cbn [snd]. destruct T as [_ [ -> | [ -> | -> ] ] ]; unfold E_SEEK, E_READ, E_VALUE; lia.
Qed.

(* fuel: any amount beyond the bytes that remain gives the same walk *)
Theorem walk_fuel hcl data : bytes_ok data -> forall f1 f2 start, 0 <= start <= Zlen data ->
  (Z.of_nat f1 > Zlen data - start) -> (Z.of_nat f2 > Zlen data - start) ->
  walk f1 hcl data start = walk f2 hcl data start.
Proof.
  intros Hb. induction f1 as [|f1 IH]; intros f2 start Hs H1 H2; [lia|].
  destruct f2 as [|f2]; [lia|]. cbn [walk].
  destruct (start >=? Zlen data) eqn:Eof; [reflexivity|].
  pose proof (header_pull_total_at_offset hcl data start Hb Hs) as T.
  destruct (pull_quic_header_at hcl data start) as [[h rest]|k]; [|reflexivity].
  destruct T as (_ & P1 & P2 & P3 & _).
  destruct (seek_ok (Zlen data) (start + h_length h)); [|reflexivity].
  rewrite (IH f2 (start + h_length h)) by lia. reflexivity.
Qed.

(* ---- 4. coalesced datagrams written by the builder --------------------------------------------------- *)
Record lpkt := mkLpkt {
  lp_version : Z; lp_type : Z; lp_pcid : list Z; lp_hcid : list Z; lp_token : list Z;
  lp_len : Z;                 (* the Length field: packet number + payload + AEAD tag *)
  lp_pn : Z;
  lp_body : list Z            (* what follows the 2-byte packet number *)
}.

Definition lpkt_ok (p : lpkt) : Prop :=
  0 < lp_version p < 2 ^ 32 /\ 0 <= lp_type p <= 2 /\ Zlen (lp_pcid p) <= 20 /\ Zlen (lp_hcid p) <= 20 /\
  Zlen (lp_token p) < 2 ^ 62 /\ 0 <= lp_len p < 16384 /\ lp_len p = 2 + Zlen (lp_body p).

(* bytes of one long-header packet: the builder's header, then the body *)
Definition lpkt_bytes (p : lpkt) (b : list Z) : Prop :=
  exists hb, flatten (builder_long_header (lp_version p) (lp_type p) (lp_pcid p) (lp_hcid p) (lp_token p)
                                          (lp_len p) (lp_pn p)) = Ok hb /\ b = hb ++ lp_body p.

(* boundaries of packets laid back to back from [start] on *)
Fixpoint bounds (start : Z) (bl : list (list Z)) : list (Z * Z) :=
  match bl with
  | [] => []
  | b :: t => (start, start + Zlen b) :: bounds (start + Zlen b) t
  end.

Lemma zdrop_app_exact {A} (u v : list A) : zdrop (Zlen u) (u ++ v) = v.
Proof. unfold zdrop, Zlen. rewrite Nat2Z.id. rewrite skipn_app, skipn_all, Nat.sub_diag. reflexivity. Qed.

(* one packet, anywhere in a datagram *)
Lemma walk_long_step f hcl pre p b post : lpkt_ok p -> lpkt_bytes p b ->
  walk (S f) hcl (pre ++ b ++ post) (Zlen pre) =
  let '(tl, st) := walk f hcl (pre ++ b ++ post) (Zlen pre + Zlen b) in
  ((Zlen pre, Zlen pre + Zlen b) :: tl, st).
Proof.
  intros (Hv & Ht & Hd & Hs & Htok & Hlen & Hbody) (hb & Ehb & ->).
  destruct (builder_long_roundtrip hcl _ _ _ _ _ _ (lp_pn p) Hv Ht Hd Hs Htok Hlen) as (h0 & pnb & E0 & Lp & R).
  rewrite E0 in Ehb. injection Ehb as <-.
  pose proof (Zlen_nonneg pre) as Np. pose proof (Zlen_nonneg h0) as N0. pose proof (Zlen_nonneg (lp_body p)) as Nb.
  pose proof (Zlen_nonneg post) as Nq.
  assert (Ltot : Zlen (pre ++ ((h0 ++ pnb) ++ lp_body p) ++ post) = Zlen pre + Zlen h0 + 2 + Zlen (lp_body p) + Zlen post)
    by (rewrite !Zlen_app; lia).
  cbn [walk]. rewrite Ltot.
  destruct (Zlen pre >=? _) eqn:Eof; [lia|].
  rewrite header_at_is_suffix by lia. rewrite zdrop_app_exact.
  replace (((h0 ++ pnb) ++ lp_body p) ++ post) with (h0 ++ pnb ++ (lp_body p ++ post)) by (rewrite <- !app_assoc; reflexivity).
  rewrite R by (rewrite !Zlen_app; lia).
  cbn [h_length].
  replace (Zlen ((h0 ++ pnb) ++ lp_body p)) with (Zlen h0 + lp_len p) by (rewrite !Zlen_app; lia).
  rewrite Z.add_assoc.
  destruct (seek_ok_iff (Zlen pre + Zlen h0 + 2 + Zlen (lp_body p) + Zlen post) (Zlen pre + Zlen h0 + lp_len p)) as [_ ->]; [|lia].
  repeat rewrite <- app_assoc. reflexivity.
Qed.

(* any number of long-header packets back to back, followed by anything: the walk finds exactly the
   builder's boundaries and then continues on what follows *)
Theorem coalesced_roundtrip hcl pkts bl : Forall lpkt_ok pkts -> Forall2 lpkt_bytes pkts bl ->
  forall f pre post,
  walk (length bl + f) hcl (pre ++ concat bl ++ post) (Zlen pre) =
  let '(tl, st) := walk f hcl (pre ++ concat bl ++ post) (Zlen pre + Zlen (concat bl)) in
  (bounds (Zlen pre) bl ++ tl, st).
Proof.
  intros Hok Hb. revert Hok. induction Hb as [|p b pkts bl Hpb Hrest IH]; intros Hok f pre post.
  - cbn [concat length bounds app plus]. change (Zlen []) with 0. rewrite Z.add_0_r.
    destruct (walk f hcl (pre ++ post) (Zlen pre)); reflexivity.
  - inversion Hok as [|? ? Hp Hok']; subst. cbn [concat length plus bounds].
    rewrite <- app_assoc. rewrite (walk_long_step _ hcl pre p b (concat bl ++ post) Hp Hpb).
    specialize (IH Hok' f (pre ++ b) post). rewrite <- !app_assoc in IH. rewrite Zlen_app in IH. rewrite IH.
    rewrite Zlen_app. rewrite Z.add_assoc.
    destruct (walk f hcl (pre ++ b ++ concat bl ++ post) (Zlen pre + Zlen b + Zlen (concat bl))). reflexivity.
Qed.

Lemma lpkt_bytes_len (hcl : Z) p b : lpkt_ok p -> lpkt_bytes p b -> 2 <= Zlen b.
Proof.
  intros (Hv & Ht & Hd & Hs & Htok & Hlen & Hbody) (hb & Ehb & ->).
  destruct (builder_long_roundtrip hcl _ _ _ _ _ _ (lp_pn p) Hv Ht Hd Hs Htok Hlen) as (h0 & pnb & E0 & Lp & _).
  rewrite E0 in Ehb. injection Ehb as <-. rewrite !Zlen_app.
  pose proof (Zlen_nonneg h0). pose proof (Zlen_nonneg (lp_body p)). lia.
Qed.

Lemma concat_count pkts bl : Forall lpkt_ok pkts -> Forall2 lpkt_bytes pkts bl -> Z.of_nat (length bl) <= Zlen (concat bl).
Proof.
  intros Hok Hb. revert Hok. induction Hb as [|p b pkts bl Hpb _ IH]; intros Hok; [cbn; lia|].
  inversion Hok as [|? ? Hp Hok']; subst. specialize (IH Hok'). pose proof (lpkt_bytes_len 0 p b Hp Hpb).
  cbn [concat length]. rewrite Zlen_app. lia.
Qed.

(* the datagram the builder sends: long-header packets, optionally a 1-RTT packet last *)
Corollary coalesced_roundtrip_long_only hcl pkts bl : Forall lpkt_ok pkts -> Forall2 lpkt_bytes pkts bl ->
  receive_walk hcl (concat bl) = (bounds 0 bl, 0).
Proof.
  intros Hok Hb. unfold receive_walk.
  assert (Hlen : (length bl <= length (concat bl))%nat) by (pose proof (concat_count pkts bl Hok Hb); unfold Zlen in *; lia).
  replace (S (length (concat bl))) with (length bl + S (length (concat bl) - length bl))%nat by lia.
  pose proof (coalesced_roundtrip hcl pkts bl Hok Hb (S (length (concat bl) - length bl)) [] []) as R.
  cbn [app] in R. rewrite app_nil_r in R. change (Zlen []) with 0 in R. rewrite R.
  cbn [walk]. rewrite Z.add_0_l. destruct (Zlen (concat bl) >=? Zlen (concat bl)) eqn:E; [|lia].
  rewrite app_nil_r. reflexivity.
Qed.

Corollary coalesced_roundtrip_with_short pkts bl spin kp pcid pn payload :
  Forall lpkt_ok pkts -> Forall2 lpkt_bytes pkts bl -> (spin = 0 \/ spin = 1) -> (kp = 0 \/ kp = 1) ->
  exists sb, flatten (builder_short_header spin kp pcid pn) = Ok sb /\
    let data := concat bl ++ sb ++ payload in
    receive_walk (Zlen pcid) data = (bounds 0 bl ++ [(Zlen (concat bl), Zlen data)], 0).
Proof.
  intros Hok Hb Hs Hk.
  destruct (builder_short_roundtrip spin kp pcid pn payload Hs Hk) as (h0 & pnb & E0 & Lp & R).
  exists (h0 ++ pnb). split; [exact E0|]. cbn zeta. unfold receive_walk.
  set (data := concat bl ++ (h0 ++ pnb) ++ payload).
  assert (Hlen : (length bl + 2 <= S (length data))%nat).
  { pose proof (Zlen_nonneg h0).
    pose proof (concat_count pkts bl Hok Hb).
    subst data. unfold Zlen in *. rewrite !app_length in *. lia. }
  replace (S (length data)) with (length bl + (2 + (S (length data) - length bl - 2)))%nat by lia.
  pose proof (coalesced_roundtrip (Zlen pcid) pkts bl Hok Hb (2 + (S (length data) - length bl - 2)) [] ((h0 ++ pnb) ++ payload)) as Rw.
  cbn [app] in Rw. change (Zlen []) with 0 in Rw. fold data in Rw. rewrite Rw. rewrite Z.add_0_l.
  cbn [walk plus].
  assert (Ld : Zlen data = Zlen (concat bl) + Zlen (h0 ++ pnb ++ payload)).
  { subst data. rewrite <- app_assoc. rewrite !Zlen_app. reflexivity. }
  pose proof (Zlen_nonneg (concat bl)). pose proof (Zlen_nonneg h0). pose proof (Zlen_nonneg payload).
  assert (1 <= Zlen (h0 ++ pnb ++ payload)) by (rewrite !Zlen_app; lia).
  destruct (Zlen (concat bl) >=? Zlen data) eqn:Eof; [lia|].
  rewrite header_at_is_suffix by lia. subst data. rewrite zdrop_app_exact. rewrite <- app_assoc. rewrite R.
  cbn [h_length]. fold (Zlen (concat bl)).
  set (data := concat bl ++ h0 ++ pnb ++ payload) in *.
  replace (Zlen (concat bl) + Zlen (h0 ++ pnb ++ payload)) with (Zlen data) by (subst data; rewrite !Zlen_app; lia).
  destruct (seek_ok_iff (Zlen data) (Zlen data)) as [_ ->]; [|pose proof (Zlen_nonneg data); lia].
  destruct (Zlen data >=? Zlen data) eqn:E; [reflexivity|lia].
Qed.

(* non-vacuity: a concrete Initial + Handshake + 1-RTT datagram, walked by computation; and the lying
   Length field at a non-zero offset (the second packet declares one byte more than remains) *)
Definition ex_initial : list Z :=
  [0xC1; 0; 0; 0; 1; 2; 0xAA; 0xBB; 1; 0xCC; 0; 0x40; 5; 0; 7; 9; 9; 9].
Definition ex_handshake (len : Z) : list Z :=
  [0xE1; 0; 0; 0; 1; 2; 0xAA; 0xBB; 1; 0xCC; 0x40; len; 0; 8; 9; 9].
Definition ex_short : list Z := [0x41; 0xAA; 0xBB; 0; 9; 5; 5; 5].

Example walk_example :
  receive_walk 2 (ex_initial ++ ex_handshake 4 ++ ex_short) = ([(0, 18); (18, 34); (34, 42)], 0) /\
  receive_walk 2 (ex_initial ++ ex_handshake 5) = ([(0, 18)], E_VALUE) /\
  receive_walk 2 (ex_initial ++ ex_handshake 22) = ([(0, 18)], E_VALUE) /\
  pull_quic_header_at 2 (ex_initial ++ ex_handshake 4) 18 =
    Ok (mkHeader (Some 1) PT_HANDSHAKE 16 [0xAA; 0xBB] [0xCC] [] [] [], [0; 8; 9; 9]).
Proof. repeat split; reflexivity. Qed.
