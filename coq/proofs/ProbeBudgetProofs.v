(* C08: one probe datagram per timeout -- proofs about model/ProbeBudget.v over the generated sites gen/C08Probe.v. *)
From AQ Require Import lib.Base gen.C08Probe model.ProbeBudget.
From Coq Require Import String.

(* ---------- the sites as they are in the checked tree (a change of where / under which guard the flag is read or cleared, or
   of the order of the writers around the probe PING, regenerates gen/C08Probe.v and breaks this lemma) ---------- *)
Lemma probe_sites_pinned_lemma :
  send_probe_body = [SSet] /\
  dts_budget_guard = GAnd (GAtom APending) (GAtom ALowBudget) /\ dts_budget_body = [SRaiseBudget] /\
  app_probe_guard = GAtom APending /\ app_probe_body = [SPing; SClear] /\
  has_break app_before_start = true /\ nonempty app_writers_before = true /\ nonempty app_writers_after = true /\
  hs_order = [1; 2; 3; 5; 9] /\
  hs_crypto_guard = GAtom ACryptoWritten /\ hs_crypto_body = [SClear] /\
  hs_probe_guard = GAnd (GAtom APending) (GAnd (GNot (GAtom AHandshakeComplete))
                                               (GOr (GAtom AEpochHandshake) (GNot (GAtom AHandshakeKeys)))) /\
  hs_probe_body = [SPing; SClear] /\ oneshot_sites = 2.
Proof. repeat split; reflexivity. Qed.

(* ---------- one call ---------- *)
(* what holds between the iterations of the packet loops, relative to the flag [p0] at the start of the call *)
Definition Good (p0 : bool) (s : cs) : Prop :=
  (pp s = true -> p0 = true) /\ (raised s = true -> p0 = true) /\ (ae s = true -> pp s = true -> prestop s = true).

Ltac crush :=
  unfold Good in *; cbn in *; intuition (try congruence);
  repeat match goal with b : bool |- _ => destruct b end; cbn in *; intuition congruence.

Lemma good_hs_iteration p0 c ep d s : Good p0 s -> Good p0 (hs_iteration c ep d s).
Proof.
  intros G. unfold hs_iteration.
  change hs_order with [1; 2; 3; 5; 9].
  destruct s as [p a h x r]. destruct d as [st ak cr pk em]. destruct c as [lo hc hk ot].
  destruct h; [cbn; exact G|].
  destruct st, ak as [| |w1], cr as [| |w2], p, hc, ep, hk, pk; cbn; crush.
Qed.

Lemma good_hs_loop p0 c ep : forall its s, Good p0 s -> Good p0 (hs_loop c ep its s).
Proof.
  induction its as [|d t IH]; intros s G; simpl; [exact G|].
  pose proof (good_hs_iteration p0 c ep d s G) as G1.
  destruct (halted (hs_iteration c ep d s) || hi_empty d); [exact G1|apply IH; exact G1].
Qed.

Lemma good_hs_epoch p0 c ep o s : Good p0 s -> Good p0 (hs_epoch c ep o s).
Proof.
  intros G. unfold hs_epoch. destruct (halted s); [exact G|]. destruct o; [apply good_hs_loop; exact G|exact G].
Qed.

Lemma good_app_iteration p0 c d s : halted s = false -> Good p0 s -> Good p0 (app_iteration c d s).
Proof.
  intros Hh G. unfold app_iteration.
  change (nonempty app_writers_before) with true. change (nonempty app_writers_after) with true.
  change app_probe_guard with (GAtom APending). change app_probe_body with [SPing; SClear].
  destruct s as [p a h x r]. cbn in Hh. subst h. destruct d as [pc st bf pk af em]. destruct c as [lo hc hk ot].
  destruct st; [|cbn; crush].
  destruct bf as [| |[|]], af as [| |[|]], p, pk, a; cbn; crush.
Qed.

Lemma good_app_loop p0 c : forall its s, halted s = false -> Good p0 s -> Good p0 (app_loop c its s).
Proof.
  induction its as [|d t IH]; intros s Hh G; simpl; [exact G|].
  destruct (ai_paced d); [exact G|].
  pose proof (good_app_iteration p0 c d s Hh G) as G1.
  destruct (halted (app_iteration c d s)) eqn:E; simpl; [exact G1|].
  destruct (ai_empty d); [exact G1|apply IH; assumption].
Qed.

Lemma call_good p0 d : Good p0 (call p0 d).
Proof.
  unfold call.
  assert (G0 : Good p0 (mkCS p0 false false false false)) by (unfold Good; cbn; intuition congruence).
  destruct (c_skip d || c_close d); [exact G0|].
  set (s1 := if geval _ dts_budget_guard then _ else _).
  assert (G1 : Good p0 s1).
  { subst s1. change dts_budget_guard with (GAnd (GAtom APending) (GAtom ALowBudget)). change dts_budget_body with [SRaiseBudget].
    destruct p0; cbn; destruct (ce_low (c_env d)); cbn; unfold Good; cbn; intuition congruence. }
  set (s2 := if c_confirmed d then s1 else _).
  assert (G2 : Good p0 s2).
  { subst s2. destruct (c_confirmed d); [exact G1|]. apply good_hs_epoch, good_hs_epoch, G1. }
  destruct (halted s2) eqn:E; [exact G2|]. destruct (c_app d); [apply good_app_loop; assumption|exact G2].
Qed.

(* the three facts about one call that the history theorem uses *)
Lemma call_facts p0 d :
  let r := call p0 d in
  (pp r = true -> p0 = true) /\ (raised r = true -> p0 = true) /\
  (raised r = true -> ae r = true -> prestop r = false -> pp r = false).
Proof.
  cbv zeta. destruct (call_good p0 d) as (A & B & C). repeat split; auto.
  intros _ Ha Hx. destruct (pp (call p0 d)) eqn:E; [|reflexivity]. rewrite (C Ha eq_refl) in Hx. discriminate.
Qed.

(* ---------- histories ---------- *)
Definition HInv (s : pst) : Prop :=
  s_probes s + b2z (s_pp s) <= s_grants s /\ s_grants s = s_timeouts s + b2z (s_cr s) /\ 0 <= s_probes s.

Lemma send_probe_true b : send_probe b = true.
Proof. reflexivity. Qed.

Lemma step_inv s e : HInv s -> HInv (step s e).
Proof.
  intros (A & B & C). destruct e as [[|]| | |d]; cbn [step].
  - unfold HInv. cbn. try rewrite send_probe_true. unfold b2z in *. destruct (s_pp s), (s_cr s); lia.
  - repeat split; assumption.
  - destruct (s_cr s) eqn:E; [unfold HInv; rewrite E; repeat split; assumption|].
    unfold HInv. cbn. try rewrite send_probe_true. unfold b2z in *. destruct (s_pp s); lia.
  - repeat split; assumption.
  - destruct (call_facts (s_pp s) d) as (F1 & F2 & F3). cbv zeta in *.
    unfold HInv. cbn. split; [|split; [exact B|]].
    + destruct (raised (call (s_pp s) d)) eqn:R, (ae (call (s_pp s) d)) eqn:Ae, (prestop (call (s_pp s) d)) eqn:X; cbn;
        try (rewrite (F3 eq_refl eq_refl eq_refl); rewrite (F2 eq_refl) in A; cbn in *; lia);
        destruct (pp (call (s_pp s) d)) eqn:P; try (rewrite (F1 eq_refl) in A); cbn in *; unfold b2z in *;
        destruct (s_pp s); lia.
    + unfold b2z. destruct (raised _ && ae _ && negb (prestop _)); lia.
Qed.

Lemma run_inv : forall h s, HInv s -> HInv (fold_left step h s).
Proof. induction h as [|e t IH]; intros s H; simpl; [exact H|apply IH, step_inv, H]. Qed.

(* ONE PROBE PER TIMEOUT.  In every history of public calls -- loss-detection timeouts (probe-timeout branch or loss branch),
   early retransmissions, anything else, datagrams_to_send calls with ANY decisions (what is pending, what the builder and the
   pacer answer, handshake state, closing) -- the number of calls that had their flight budget raised by the probe rule and wrote
   an ack-eliciting frame is at most the number of send_probe grants, which is the number of probe timeouts fired plus at
   most one early retransmission.  Not counted (and really not covered, see [one_probe_per_timeout_refuted]): calls that
   were cut by QuicPacketBuilderStop in the 1-RTT packet at or ahead of the probe PING after an ack-eliciting frame had been
   written ([prestop]); a raised call that wrote nothing ack-eliciting (pacing, no keys, Stop at once) legitimately keeps
   the flag. *)
Theorem one_probe_per_timeout_thm : forall h,
  s_probes (run h) <= s_grants (run h) /\ s_grants (run h) = s_timeouts (run h) + b2z (s_cr (run h)) /\
  s_grants (run h) <= s_timeouts (run h) + 1.
Proof.
  intros h. assert (I : HInv (run h)) by (apply run_inv; unfold HInv, init; cbn; lia).
  destruct I as (A & B & C). unfold b2z in *. destruct (s_pp (run h)), (s_cr (run h)); lia.
Qed.

(* the hypotheses are satisfiable non-trivially: two timeouts, each followed by a raised call that writes the PING and stream
   data, an unraised call in between *)
Definition ce0 := mkCE true true true (fun _ => false).
Definition it_probe := mkAI false true WNone true WWritten false.
Definition it_end := mkAI false true WNone true WNone true.
Definition call_full := mkCall false false ce0 true None None (Some [it_probe; it_end]).
Example probes_happen :
  let s := run [ETimeout true; ECall call_full; ECall call_full; EOther; ETimeout true; ECall call_full] in
  (s_probes s, s_grants s, s_timeouts s, s_pp s) = (2, 2, 2, false).
Proof. reflexivity. Qed.

(* REFUTED for the tree as it is: "at most one over-window datagram per timeout" without the prestop exception.  One probe
   timeout; first call: budget raised, the frame writers ahead of the probe PING (MAX_STREAM_DATA for some 250 streams) fill
   the datagram and the next start_frame raises QuicPacketBuilderStop: an ack-eliciting over-window datagram leaves and the flag
   stays; second call (no timeout in between): budget raised again, rest of the control frames, PING, stream data.  Replayed
   on two real QuicConnections (harness/props/c08.py probe_run, kind limits_flood; docs/C08.md finding F3). *)
Definition it_flood := mkAI false true (WStop true) true WNone false.
Definition call_flood := mkCall false false ce0 true None None (Some [it_flood]).
Theorem one_probe_per_timeout_refuted_thm :
  exists h, s_timeouts (run h) = 1 /\ s_grants (run h) = 1 /\ s_over (run h) = 2 /\ s_probes (run h) = 1.
Proof. exists [ETimeout true; ECall call_flood; ECall call_full]. repeat split; reflexivity. Qed.
