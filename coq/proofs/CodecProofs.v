(* Proofs about model/Codec.v: big-endian fixed-width integers, for ALL values. *)
From AQ Require Import lib.Base model.Codec.
From Coq Require Import ZifyBool.

Definition byte_ok (b : Z) : Prop := 0 <= b < 256.
Definition bytes_ok (bs : list Z) : Prop := Forall byte_ok bs.

Lemma byte_okb_iff b : byte_okb b = true <-> byte_ok b.
Proof. unfold byte_okb, byte_ok. lia. Qed.

Lemma bytes_okb_iff bs : bytes_okb bs = true <-> bytes_ok bs.
Proof.
  unfold bytes_okb, bytes_ok. rewrite forallb_forall, Forall_forall.
  split; intros H x Hx; apply byte_okb_iff, H, Hx.
Qed.

Lemma bytes_ok_app a b : bytes_ok (a ++ b) <-> bytes_ok a /\ bytes_ok b.
Proof. apply Forall_app. Qed.

Lemma pow256_pos n : 0 < 256 ^ Z.of_nat n.
Proof. apply Z.pow_pos_nonneg; lia. Qed.

Lemma pow256_S n : 256 ^ Z.of_nat (S n) = 256 * 256 ^ Z.of_nat n.
Proof. rewrite Nat2Z.inj_succ, Z.pow_succ_r by lia. reflexivity. Qed.

Lemma Zlen_app {A} (a b : list A) : Zlen (a ++ b) = Zlen a + Zlen b.
Proof. unfold Zlen. rewrite app_length. lia. Qed.

Lemma Zlen_nonneg {A} (a : list A) : 0 <= Zlen a.
Proof. unfold Zlen. lia. Qed.

Lemma Zlen_cons {A} (x : A) l : Zlen (x :: l) = 1 + Zlen l.
Proof. unfold Zlen. cbn [length]. lia. Qed.

(* ---- be_enc / be_dec ------------------------------------------------------------------ *)
Lemma be_enc_length n v : length (be_enc n v) = n.
Proof. induction n; cbn [be_enc length]; congruence. Qed.

Lemma be_enc_Zlen n v : Zlen (be_enc n v) = Z.of_nat n.
Proof. unfold Zlen. now rewrite be_enc_length. Qed.

Lemma be_enc_bytes_ok n v : bytes_ok (be_enc n v).
Proof.
  induction n; cbn [be_enc]; constructor; auto.
  unfold byte_ok. apply Z.mod_pos_bound. lia.
Qed.

Lemma be_dec_app a b acc : be_dec acc (a ++ b) = be_dec (be_dec acc a) b.
Proof. revert acc; induction a; intros; cbn [be_dec app]; auto. Qed.

(* the decoder inverts the encoder modulo 256^n -- for EVERY integer v *)
Lemma be_dec_enc n : forall v acc,
  be_dec acc (be_enc n v) = acc * 256 ^ Z.of_nat n + v mod 256 ^ Z.of_nat n.
Proof.
  induction n; intros; cbn [be_enc be_dec].
  - change (256 ^ Z.of_nat 0) with 1. rewrite Z.mod_1_r. lia.
  - rewrite IHn, pow256_S.
    pose proof (pow256_pos n) as Hp.
    rewrite (Z.mul_comm 256 (256 ^ Z.of_nat n)).
    rewrite (Z.rem_mul_r v (256 ^ Z.of_nat n) 256) by lia.
    ring.
Qed.

Lemma be_dec_shift bs : forall acc,
  be_dec acc bs = acc * 256 ^ Z.of_nat (length bs) + be_dec 0 bs.
Proof.
  induction bs as [|b t IH]; intros; cbn [be_dec length].
  - change (256 ^ Z.of_nat 0) with 1. lia.
  - rewrite IH, (IH (0 * 256 + b)), pow256_S. ring.
Qed.

Lemma be_dec_bound bs : bytes_ok bs -> 0 <= be_dec 0 bs < 256 ^ Z.of_nat (length bs).
Proof.
  induction 1 as [|b t Hb _ IH]; cbn [be_dec length].
  - change (256 ^ Z.of_nat 0) with 1. lia.
  - rewrite be_dec_shift, pow256_S. unfold byte_ok in Hb.
    pose proof (pow256_pos (length t)). nia.
Qed.

(* the encoder inverts the decoder on well-formed bytes *)
Lemma be_enc_dec bs : bytes_ok bs -> forall acc, be_enc (length bs) (be_dec acc bs) = bs.
Proof.
  induction 1 as [|b t Hb Ht IH]; intros; cbn [be_dec be_enc length]; auto.
  rewrite IH. f_equal.
  rewrite be_dec_shift.
  pose proof (be_dec_bound t Ht) as Hr. pose proof (pow256_pos (length t)) as Hp.
  rewrite Z.div_add_l by lia. rewrite Z.div_small by lia.
  unfold byte_ok in Hb. rewrite Z.add_0_r, Z.add_comm, Z.mod_add by lia.
  apply Z.mod_small; lia.
Qed.

(* ---- pull_be -------------------------------------------------------------------------- *)
Lemma firstn_app_exact {A} (a b : list A) : firstn (length a) (a ++ b) = a.
Proof. rewrite firstn_app, Nat.sub_diag, firstn_all. cbn. apply app_nil_r. Qed.

Lemma skipn_app_exact {A} (a b : list A) : skipn (length a) (a ++ b) = b.
Proof. rewrite skipn_app, Nat.sub_diag, skipn_all. reflexivity. Qed.

Lemma firstn_app_len {A} n (a b : list A) : length a = n -> firstn n (a ++ b) = a.
Proof. intros <-. apply firstn_app_exact. Qed.

Lemma skipn_app_len {A} n (a b : list A) : length a = n -> skipn n (a ++ b) = b.
Proof. intros <-. apply skipn_app_exact. Qed.

(* what push followed by pull does, for every integer: reduction modulo 2^(8n) *)
Lemma pull_be_enc n v rest :
  pull_be n (be_enc n v ++ rest) = Ok (v mod 256 ^ Z.of_nat n, rest).
Proof.
  unfold pull_be. rewrite Zlen_app, be_enc_Zlen.
  pose proof (Zlen_nonneg rest).
  destruct (Z.of_nat n + Zlen rest <? Z.of_nat n) eqn:E; [lia|].
  pose proof (be_enc_length n v) as L.
  rewrite <- L at 1 3. rewrite firstn_app_exact, skipn_app_exact, be_dec_enc. f_equal.
Qed.

Lemma pull_be_roundtrip n v rest :
  0 <= v < 256 ^ Z.of_nat n -> pull_be n (be_enc n v ++ rest) = Ok (v, rest).
Proof. intros. rewrite pull_be_enc, Z.mod_small; auto. Qed.

(* totality and "never reads past the end": Ok with consumed ++ rest = input, or BufferReadError *)
Lemma pull_be_total n bs :
  (exists v rest, pull_be n bs = Ok (v, rest) /\ bs = firstn n bs ++ rest
                  /\ length (firstn n bs) = n /\ v = be_dec 0 (firstn n bs))
  \/ (pull_be n bs = Err E_READ /\ (length bs < n)%nat).
Proof.
  unfold pull_be, Zlen. destruct (Z.of_nat (length bs) <? Z.of_nat n) eqn:E.
  - right. split; auto. lia.
  - left. exists (be_dec 0 (firstn n bs)), (skipn n bs). repeat split.
    + symmetry. apply firstn_skipn.
    + apply firstn_length_le. lia.
Qed.

Lemma pull_be_value_range n bs v rest :
  bytes_ok bs -> pull_be n bs = Ok (v, rest) -> 0 <= v < 256 ^ Z.of_nat n /\ bytes_ok rest.
Proof.
  intros Hb H. destruct (pull_be_total n bs) as [(v' & r' & H1 & H2 & H3 & H4)|[H1 _]]; [|congruence].
  rewrite H in H1. injection H1 as -> ->.
  rewrite H2 in Hb. apply bytes_ok_app in Hb as [Ha Hr]. split; auto.
  rewrite H4. pose proof (be_dec_bound _ Ha) as B. now rewrite H3 in B.
Qed.

(* decode, then re-encode: the same bytes (fixed-width encodings are canonical) *)
Lemma pull_be_reencode n bs v rest :
  bytes_ok bs -> pull_be n bs = Ok (v, rest) -> be_enc n v ++ rest = bs.
Proof.
  intros Hb H. destruct (pull_be_total n bs) as [(v' & r' & H1 & H2 & H3 & H4)|[H1 _]]; [|congruence].
  rewrite H in H1. injection H1 as -> ->.
  remember (firstn n bs) as used eqn:U. clear U.
  subst bs. apply bytes_ok_app in Hb as [Ha _].
  f_equal. subst v' n. now apply be_enc_dec.
Qed.

(* ---- the four widths ------------------------------------------------------------------- *)
Definition width_bits (w : nat) : Z := 8 * Z.of_nat w.

Lemma pow256_bits n : 256 ^ Z.of_nat n = 2 ^ (8 * Z.of_nat n).
Proof. change 256 with (2 ^ 8). rewrite <- Z.pow_mul_r by lia. reflexivity. Qed.

Theorem uint8_roundtrip v rest : 0 <= v < 2 ^ 8 ->
  exists bs, push_uint8 v = Ok bs /\ pull_uint8 (bs ++ rest) = Ok (v, rest).
Proof. intros. eexists; split; [reflexivity|]. apply (pull_be_roundtrip 1). exact H. Qed.

Theorem uint16_roundtrip v rest : 0 <= v < 2 ^ 16 ->
  exists bs, push_uint16 v = Ok bs /\ pull_uint16 (bs ++ rest) = Ok (v, rest).
Proof. intros. eexists; split; [reflexivity|]. apply (pull_be_roundtrip 2). exact H. Qed.

Theorem uint32_roundtrip v rest : 0 <= v < 2 ^ 32 ->
  exists bs, push_uint32 v = Ok bs /\ pull_uint32 (bs ++ rest) = Ok (v, rest).
Proof. intros. eexists; split; [reflexivity|]. apply (pull_be_roundtrip 4). exact H. Qed.

Theorem uint64_roundtrip v rest : 0 <= v < 2 ^ 64 ->
  exists bs, push_uint64 v = Ok bs /\ pull_uint64 (bs ++ rest) = Ok (v, rest).
Proof. intros. eexists; split; [reflexivity|]. apply (pull_be_roundtrip 8). exact H. Qed.

(* The TOTAL statement: what the code does for every Python int -- it never raises, it wraps. *)
Theorem fixed_push_wraps v rest :
  (exists bs, push_uint8 v = Ok bs /\ Zlen bs = 1 /\ pull_uint8 (bs ++ rest) = Ok (v mod 2 ^ 8, rest)) /\
  (exists bs, push_uint16 v = Ok bs /\ Zlen bs = 2 /\ pull_uint16 (bs ++ rest) = Ok (v mod 2 ^ 16, rest)) /\
  (exists bs, push_uint32 v = Ok bs /\ Zlen bs = 4 /\ pull_uint32 (bs ++ rest) = Ok (v mod 2 ^ 32, rest)) /\
  (exists bs, push_uint64 v = Ok bs /\ Zlen bs = 8 /\ pull_uint64 (bs ++ rest) = Ok (v mod 2 ^ 64, rest)).
Proof.
  repeat split; eexists; (split; [reflexivity|]); (split; [apply be_enc_Zlen|]).
  - apply (pull_be_enc 1). - apply (pull_be_enc 2). - apply (pull_be_enc 4). - apply (pull_be_enc 8).
Qed.

(* "Encoding then decoding returns the original value for every fixed-width integer", read
   totally (push raises, or pull returns the value pushed), is FALSE for the code as it is. *)
Definition push_total_statement : Prop :=
  forall v : Z, (exists k, push_uint8 v = Err k) \/
                (exists bs, push_uint8 v = Ok bs /\ pull_uint8 bs = Ok (v, [])).

Theorem push_total_refuted :
  (exists bs, push_uint8 263 = Ok bs /\ pull_uint8 bs = Ok (7, [])) /\ ~ push_total_statement.
Proof.
  split.
  - eexists; split; reflexivity.
  - intros H. destruct (H 263) as [[k Hk]|(bs & Hp & Hq)].
    + discriminate Hk.
    + injection Hp as <-. vm_compute in Hq. discriminate Hq.
Qed.

(* decoder totality for the fixed widths, with the value range and the nesting facts *)
Theorem fixed_pull_total n bs : bytes_ok bs ->
  (exists v rest, pull_be n bs = Ok (v, rest) /\ (exists used, bs = used ++ rest /\ length used = n)
                  /\ 0 <= v < 2 ^ (8 * Z.of_nat n) /\ be_enc n v ++ rest = bs)
  \/ pull_be n bs = Err E_READ.
Proof.
  intros Hb. destruct (pull_be_total n bs) as [(v & r & H1 & H2 & H3 & H4)|[H1 _]]; [left|right; auto].
  exists v, r. split; auto. split; [eauto|]. split.
  - rewrite <- pow256_bits. eapply pull_be_value_range; eauto.
  - eapply pull_be_reencode; eauto.
Qed.

Example bytes_ok_example : bytes_ok [0; 255; 16; 1].
Proof. apply bytes_okb_iff. reflexivity. Qed.
