(* C20  The generated encoder bodies, call sites and log_event records (coq/gen/LogEncoders.v) type-check;
   with the soundness of the checker (proofs/LogValP.v): no encoder raises on its domain, every record is a JSON
   value, the document built by to_dict is a JSON value. *)
From Coq Require Import String PrimFloat.
From AQ Require Import lib.Base model.LogEnc model.LogVal proofs.LogValP gen.LogEncoders.
Open Scope string_scope.
Open Scope Z_scope.

Lemma enc_methods_ok : forallb (meth_ok enc_tabs) enc_methods = true.
Proof. vm_compute. reflexivity. Qed.

Lemma enc_sites_ok : forallb (site_ok enc_tabs enc_methods) enc_sites = true.
Proof. vm_compute. reflexivity. Qed.

Lemma event_records_ok : forallb (meth_ok enc_tabs) event_records = true.
Proof. vm_compute. reflexivity. Qed.

Definition args_in (tys : list ty) (vs : list pv) : Prop := Forall2 (fun t v => vty enc_tabs t v = true) tys vs.

(* goal 1: every method of QuicLoggerTrace (and hexdump), on every argument vector of its annotated types *)
Lemma encoders_total_all_l : forall m, In m enc_methods ->
  forall vs, args_in (map snd (m_params m)) vs -> exists v, call enc_tabs m vs = Ok v /\ is_json v = true.
Proof.
  intros m Hm vs Hv. apply meth_sound; [|exact Hv].
  pose proof enc_methods_ok as H. rewrite forallb_forall in H. apply H. exact Hm.
Qed.

(* ... and at every call site of connection.py / recovery.py / packet_builder.py / h3/connection.py, on every argument
   vector of the types inferred at that site (the annotations of logger.py are not used here) *)
Lemma encoders_total_at_sites_l : forall s, In s enc_sites ->
  exists m, find_meth (s_meth s) enc_methods = Some m /\
    forall vs, args_in (s_args s) vs -> exists v, call enc_tabs m vs = Ok v /\ is_json v = true.
Proof.
  intros s Hs. pose proof enc_sites_ok as H. rewrite forallb_forall in H. specialize (H s Hs).
  destruct (find_meth (s_meth s) enc_methods) as [m|] eqn:E.
  - exists m. split; [reflexivity|]. intros vs Hv. apply (site_sound enc_tabs enc_methods s m vs H E Hv).
  - unfold site_ok in H. rewrite E in H. discriminate.
Qed.

(* goal 2: every `data` handed to log_event is a JSON value, for all values of its leaf expressions *)
Lemma qlog_record_data_json_l : forall r, In r event_records ->
  forall vs, args_in (map snd (m_params r)) vs -> exists v, call enc_tabs r vs = Ok v /\ is_json v = true.
Proof.
  intros r Hr vs Hv. apply meth_sound; [|exact Hv].
  pose proof event_records_ok as H. rewrite forallb_forall in H. apply H. exact Hr.
Qed.

(* the trace object and the events it can accumulate *)
Definition trace_obj (odcid : list Z) (events : list pv) (vp : pv) : pv :=
  VObj "QuicLoggerTrace" [("_odcid", VBytes odcid); ("_events", VList events); ("_vantage_point", vp)].

Lemma trace_class_pin :
  lookup "QuicLoggerTrace" (t_classes enc_tabs) = Some [("_events", TJsonList); ("_odcid", TBytes); ("_vantage_point", TJson)].
Proof. reflexivity. Qed.

Lemma json_list_app : forall l v, is_json (VList l) = true -> is_json v = true -> is_json (VList (l ++ [v])) = true.
Proof.
  induction l as [|x l IH]; intros v Hl Hv.
  - simpl. rewrite Hv. reflexivity.
  - rewrite json_list_cons in Hl. apply andb_true_iff in Hl. destruct Hl as [Hx Hr].
    change (is_json x && is_json (VList (l ++ [v])) = true). rewrite Hx. apply IH; assumption.
Qed.

Lemma trace_obj_ok : forall odcid evs vp,
  forallb byte_okb odcid = true -> is_json (VList evs) = true -> is_json vp = true ->
  vty enc_tabs (TObj "QuicLoggerTrace") (trace_obj odcid evs vp) = true.
Proof.
  intros odcid evs vp Ho He Hv. unfold vty, obj_ok, trace_obj. rewrite trace_class_pin.
  cbn [String.eqb Ascii.eqb Bool.eqb andb forallb fst snd lookup wf_shallow vty_simple].
  rewrite Ho, He, Hv. assert (Hw : wf_shallow vp = true) by (destruct vp; try reflexivity; discriminate).
  rewrite Hw. reflexivity.
Qed.

(* the events a trace can hold: each one is what log_event built from a JSON `data` *)
Inductive reachable_events (odcid : list Z) (vp : pv) : list pv -> Prop :=
| re_nil : reachable_events odcid vp []
| re_log : forall evs m category event data time v,
    reachable_events odcid vp evs -> find_meth "log_event" enc_methods = Some m ->
    is_json data = true ->
    call enc_tabs m [trace_obj odcid evs vp; VStr category; VStr event; data; VFloat time] = Ok v ->
    reachable_events odcid vp (evs ++ [v]).

Lemma log_event_pin : exists m, find_meth "log_event" enc_methods = Some m /\
  map snd (m_params m) = [TObj "QuicLoggerTrace"; TStr; TStr; TJson; TFloat].
Proof. eexists. split; reflexivity. Qed.

Lemma to_dict_pin : exists m, find_meth "to_dict" enc_methods = Some m /\ map snd (m_params m) = [TObj "QuicLoggerTrace"].
Proof. eexists. split; reflexivity. Qed.

Lemma reachable_json : forall odcid vp evs, forallb byte_okb odcid = true -> is_json vp = true ->
  reachable_events odcid vp evs -> is_json (VList evs) = true.
Proof.
  intros odcid vp evs Ho Hv H. induction H as [|evs m category event data time v Hr IH Hf Hd Hc].
  - reflexivity.
  - apply json_list_app; [exact IH|].
    destruct log_event_pin as (m' & Hf' & Hp). rewrite Hf in Hf'. inversion Hf'; subst m'.
    assert (Hin : In m enc_methods) by (apply (find_meth_In _ _ _ Hf)).
    destruct (encoders_total_all_l m Hin [trace_obj odcid evs vp; VStr category; VStr event; data; VFloat time]) as (v' & Ev & Jv).
    + unfold args_in. rewrite Hp. repeat constructor; try exact Hd. apply trace_obj_ok; assumption.
    + rewrite Hc in Ev. inversion Ev; subst. exact Jv.
Qed.

(* log_event never raises on a reachable trace *)
Lemma log_event_total_l : forall odcid vp evs m category event data time,
  forallb byte_okb odcid = true -> is_json vp = true -> reachable_events odcid vp evs ->
  find_meth "log_event" enc_methods = Some m -> is_json data = true ->
  exists v, call enc_tabs m [trace_obj odcid evs vp; VStr category; VStr event; data; VFloat time] = Ok v /\ is_json v = true.
Proof.
  intros odcid vp evs m category event data time Ho Hv Hr Hf Hd.
  destruct log_event_pin as (m' & Hf' & Hp). rewrite Hf in Hf'. inversion Hf'; subst m'.
  apply encoders_total_all_l; [apply (find_meth_In _ _ _ Hf)|].
  unfold args_in. rewrite Hp. repeat constructor; try exact Hd.
  apply trace_obj_ok; try assumption. apply (reachable_json odcid vp); assumption.
Qed.

(* the document: to_dict of a reachable trace does not raise and is a JSON value *)
Lemma qlog_json_serialisable_l : forall odcid vp evs m,
  forallb byte_okb odcid = true -> is_json vp = true -> reachable_events odcid vp evs ->
  find_meth "to_dict" enc_methods = Some m ->
  exists doc, call enc_tabs m [trace_obj odcid evs vp] = Ok doc /\ is_json doc = true.
Proof.
  intros odcid vp evs m Ho Hv Hr Hf.
  destruct to_dict_pin as (m' & Hf' & Hp). rewrite Hf in Hf'. inversion Hf'; subst m'.
  apply encoders_total_all_l; [apply (find_meth_In _ _ _ Hf)|].
  unfold args_in. rewrite Hp. repeat constructor.
  apply trace_obj_ok; try assumption. apply (reachable_json odcid vp); assumption.
Qed.

(* the hypotheses are satisfiable: a trace with one event *)
Example reachable_example : exists v, reachable_events [1; 2] (VDict [(VStr "name", VStr "aioquic")]) [v].
Proof.
  destruct log_event_pin as (m & Hf & _).
  eexists. apply (re_log _ _ [] m "transport" "packet_dropped" (VDict [(VStr "trigger", VStr "x")]) 1%float);
    [constructor | exact Hf | reflexivity | ].
  inversion Hf; subst. vm_compute. reflexivity.
Qed.

(* JSON in the strict sense (RFC 8259: no NaN / Infinity) is NOT guaranteed by the encoders alone: encode_time
   of an infinite time is Infinity.  (Times come from the caller's `now` and time.time(); see docs/C20.md.) *)
Example encode_time_inf : exists m, find_meth "encode_time" enc_methods = Some m /\
  call enc_tabs m [trace_obj [] [] VNone; VFloat infinity] = Ok (VFloat infinity) /\ json_strict (VFloat infinity) = false.
Proof. eexists. split; [reflexivity|]. split; vm_compute; reflexivity. Qed.

(* number of potentially raising primitive operations in the encoder bodies (evidence) *)
Definition enc_prim_count : Z := Zlen (flat_map (fun m => prims_s (m_body m)) enc_methods).
