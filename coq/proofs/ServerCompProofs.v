(* Proofs about coq/model/ServerComp.v (QuicServer + its QuicConnectionProtocol objects). *)
From AQ Require Import lib.Base model.Adapter model.Router model.ServerComp proofs.AdapterProofs proofs.RouterProofs.
From Coq Require Import Lia.

Definition issued_in (c : Z) (q : list event) : Prop := In c (issued_cids q).

Lemma issued_cids_app : forall q1 q2, issued_cids (q1 ++ q2) = issued_cids q1 ++ issued_cids q2.
Proof.
  induction q1 as [|e t IH]; intros q2; simpl; [reflexivity|].
  destruct e; simpl; rewrite ?IH; reflexivity.
Qed.

(* ---------- handle_event never touches the event queue ---------------------------------------------- *)
Lemma on_stream_evq : forall s sid d fin x s', on_stream s sid d fin = (x, s') -> evq s' = evq s.
Proof.
  intros s sid d fin x s' H. unfold on_stream in H.
  destruct (rd_get sid (readers s)) as [r|]; simpl in H.
  - destruct d; [|destruct (rd_eof r)]; inv_pair H; reflexivity.
  - destruct d; [|destruct (closed s)]; inv_pair H; reflexivity.
Qed.

Lemma handle_event_evq : forall e s x s', handle_event e s = (x, s') -> evq s' = evq s.
Proof.
  intros e s x s' H. destruct e as [|hx|uid|sid d fin|cid hx|cid hx|]; simpl in H.
  - destruct (cwait s); simpl in H; [destruct (resolve _ _ _)|]; inv_pair H; reflexivity.
  - destruct (hx =? 0); simpl in H; [|inv_pair H; reflexivity].
    destruct (cwait s); simpl in H.
    + destruct (resolve _ _ _); simpl in H; [|inv_pair H; reflexivity].
      destruct (fail_all _ _) as [[y|] f]; inv_pair H; reflexivity.
    + destruct (fail_all _ _) as [[y|] f]; inv_pair H; reflexivity.
  - destruct (ping_get uid (pings s)); simpl in H; [destruct (resolve _ _ _)|]; inv_pair H; reflexivity.
  - eapply on_stream_evq; eauto.
  - destruct (hx =? 0); inv_pair H; reflexivity.
  - destruct (hx =? 0); inv_pair H; reflexivity.
  - inv_pair H; reflexivity.
Qed.

(* ---------- the ghost ledger -------------------------------------------------------------------------- *)
Lemma ann_del_in : forall c p l c' p', In (c', p') (ann_del c p l) <-> In (c', p') l /\ ~ (c' = c /\ p' = p).
Proof.
  intros. unfold ann_del. rewrite filter_In. simpl. split.
  - intros [A B]. split; [exact A|]. intros [X Y]. subst. rewrite !Z.eqb_refl in B. discriminate.
  - intros [A B]. split; [exact A|]. destruct (c' =? c) eqn:E1; [|reflexivity]. destruct (p' =? p) eqn:E2; [|reflexivity].
    exfalso. apply B. split; lia.
Qed.

Lemma ann_purge_in : forall p l c' p', In (c', p') (ann_purge p l) <-> In (c', p') l /\ p' <> p.
Proof.
  intros. unfold ann_purge. rewrite filter_In. simpl. split.
  - intros [A B]. split; [exact A|]. intros X. subst. rewrite Z.eqb_refl in B. discriminate.
  - intros [A B]. split; [exact A|]. destruct (p' =? p) eqn:E; [lia|reflexivity].
Qed.

(* ---------- invariant of one protocol step -------------------------------------------------------------
   p: the protocol that runs; oth p2 c: another protocol p2 has ConnectionIdIssued(c) waiting in its connection;
   F: the cids known to be fresh for p in this step (not announced by anybody else);
   tb/ann: routing table and ledger; q: the events waiting in p's connection. *)
Definition LInv (p : Z) (oth : Z -> Z -> Prop) (F : Z -> Prop) (tb : table) (ann : list (Z * Z)) (q : list event) : Prop :=
  NoDup (keys tb) /\
  (forall c p', In (c, p') ann -> t_get c tb = Some p' \/ (p' = p /\ issued_in c q) \/ (p' <> p /\ oth p' c)) /\
  (forall c, issued_in c q -> forall p', In (c, p') ann -> p' = p) /\
  (forall p2 c, oth p2 c -> forall p', In (c, p') ann -> p' = p2) /\
  (forall c, F c -> forall p', In (c, p') ann -> p' = p).

Lemma linv_skip : forall p oth F tb ann e rest, issued_cids (e :: rest) = issued_cids rest ->
  LInv p oth F tb ann (e :: rest) -> LInv p oth F tb ann rest.
Proof.
  intros p oth F tb ann e rest E [ND [A [B [C D]]]]. unfold issued_in in *. rewrite E in *.
  split; [exact ND|]. split; [exact A|]. split; [exact B|]. split; [exact C|exact D].
Qed.

Lemma route_event_linv : forall p oth F e rest w hx w1,
  LInv p oth F (tbl (w_rt w)) (w_ann w) (e :: rest) -> route_event p e w = (hx, w1) ->
  LInv p oth F (tbl (w_rt w1)) (w_ann w1) rest /\ nprot (w_rt w1) = nprot (w_rt w).
Proof.
  intros p oth F e rest w hx w1 L H.
  destruct e as [|hx0|uid|sid d fin|c hx0|c hx0|]; simpl in H.
  - inv_pair H. split; [eapply linv_skip; [|exact L]; reflexivity|reflexivity].
  - (* terminated *)
    apply linv_skip in L; [|reflexivity]. destruct L as [ND [A [B [C D]]]].
    inv_pair H. simpl. split; [|reflexivity]. split; [apply keys_purge; exact ND|]. split; [|split; [|split]].
    + intros c p' I. apply ann_purge_in in I. destruct I as [I NE].
      destruct (A c p' I) as [X|[[X1 X2]|X]]; [left|tauto|auto].
      rewrite get_purge by exact ND. rewrite X. destruct (p' =? p) eqn:E; [lia|reflexivity].
    + intros c I p' I2. apply ann_purge_in in I2. apply (B c I p'). tauto.
    + intros p2 c O p' I2. apply ann_purge_in in I2. apply (C p2 c O p'). tauto.
    + intros c Fc p' I2. apply ann_purge_in in I2. apply (D c Fc p'). tauto.
  - inv_pair H. split; [eapply linv_skip; [|exact L]; reflexivity|reflexivity].
  - inv_pair H. split; [eapply linv_skip; [|exact L]; reflexivity|reflexivity].
  - (* issued *)
    destruct L as [ND [A [B [C D]]]].
    inv_pair H. simpl. split; [|reflexivity]. split; [apply keys_set; exact ND|]. split; [|split; [|split]]; try assumption.
    + intros c' p' I. rewrite get_set. destruct (c' =? c) eqn:E.
      * assert (c' = c) by lia. subst c'. left. f_equal. symmetry. apply (B c); [left; reflexivity|exact I].
      * destruct (A c' p' I) as [X|[[X1 X2]|X]]; auto. right. left. split; [exact X1|].
        unfold issued_in in *. simpl in X2. destruct X2 as [X2|X2]; [lia|exact X2].
    + intros c' I. apply B. unfold issued_in in *. simpl. right. exact I.
  - (* retired *)
    apply linv_skip in L; [|reflexivity]. destruct L as [ND [A [B [C D]]]].
    assert (forall tb1, (forall c', c' <> c -> t_get c' tb1 = t_get c' (tbl (w_rt w))) ->
                        (t_get c tb1 = t_get c (tbl (w_rt w)) \/ t_get c (tbl (w_rt w)) = Some p) -> NoDup (keys tb1) ->
                        LInv p oth F tb1 (ann_del c p (w_ann w)) rest) as K.
    { intros tb1 G1 G2 ND1. split; [exact ND1|]. split; [|split; [|split]].
      - intros c' p' I. apply ann_del_in in I. destruct I as [I NE].
        destruct (Z.eq_dec c' c) as [->|NC].
        + assert (p' <> p) as NP by tauto.
          destruct (A c p' I) as [X|[[X1 X2]|X]]; [|tauto|auto].
          destruct G2 as [G2|G2]; [left; congruence|]. rewrite X in G2. inversion G2. tauto.
        + rewrite (G1 c' NC). destruct (A c' p' I) as [X|[[X1 X2]|X]]; auto.
      - intros c' I p' I2. apply ann_del_in in I2. apply (B c' I p'). tauto.
      - intros p2 c' O p' I2. apply ann_del_in in I2. apply (C p2 c' O p'). tauto.
      - intros c' Fc p' I2. apply ann_del_in in I2. apply (D c' Fc p'). tauto. }
    destruct (t_get c (tbl (w_rt w))) as [q0|] eqn:G; simpl in H.
    + destruct (q0 =? p) eqn:E; inv_pair H; simpl; (split; [|reflexivity]).
      * apply K.
        -- intros c' NC. rewrite get_del by exact ND. destruct (c' =? c) eqn:E2; [lia|reflexivity].
        -- right. f_equal. lia.
        -- apply keys_del. exact ND.
      * apply K; [reflexivity|left; exact G|exact ND].
    + inv_pair H. simpl. split; [|reflexivity]. apply K; [reflexivity|left; exact G|exact ND].
  - inv_pair H. split; [eapply linv_skip; [|exact L]; reflexivity|reflexivity].
Qed.

Lemma cprocess_linv : forall p oth F q w a x w' a',
  LInv p oth F (tbl (w_rt w)) (w_ann w) q -> cprocess p q w a = (x, w', a') ->
  LInv p oth F (tbl (w_rt w')) (w_ann w') (evq a') /\ nprot (w_rt w') = nprot (w_rt w) /\ (x = None -> evq a' = []).
Proof.
  intros p oth F. induction q as [|e rest IH]; intros w a x w' a' L H; simpl in H.
  - inv_pair H. simpl. auto.
  - destruct (route_event p e w) as [hx w1] eqn:R.
    destruct (route_event_linv _ _ _ _ _ _ _ _ L R) as [L1 N1].
    destruct (handle_event (set_hx e hx) (with_evq a rest)) as [[y|] a1] eqn:E.
    + inv_pair H. apply handle_event_evq in E. simpl in E. rewrite E. split; [exact L1|]. split; [exact N1|discriminate].
    + destruct (IH _ _ _ _ _ L1 H) as [L2 [N2 Z2]]. split; [exact L2|]. split; [congruence|exact Z2].
Qed.

(* ---------- queue bookkeeping of a step ---------------------------------------------------------------- *)
Definition plan_st (pl : plan) : st := match pl with PDone _ _ s => s | PGo _ s _ _ _ => s end.
Definition plan_tx (pl : plan) : list event := match pl with PDone _ _ _ => [] | PGo _ _ _ _ etx => etx end.
Definition op_evs (o : op) : list event :=
  match o with ORecv evs _ _ | OTimer _ _ evs _ _ => evs | _ => [] end.
Definition op_tx (o : op) : list event :=
  match o with
  | ORecv _ _ e | OTimer _ _ _ _ e | ORunSoon _ e | OTransmit _ e | OClose _ e | OPing _ _ e => e
  | _ => []
  end.

Lemma transmit_core_evq : forall s gt e, evq (transmit_core s gt e) = evq s ++ e.
Proof.
  intros. unfold transmit_core. destruct (timer s); [destruct (negb (oz_eqb (timer_at s) gt))|]; destruct gt; reflexivity.
Qed.

Lemma transmit_soon_evq : forall s, evq (transmit_soon s) = evq s.
Proof. intros. unfold transmit_soon. destruct (ttask s); reflexivity. Qed.

Lemma prepare_evq : forall a o,
  (evq (plan_st (prepare a o)) = evq a ++ op_evs o \/ evq (plan_st (prepare a o)) = evq a) /\
  (plan_tx (prepare a o) = op_tx o \/ plan_tx (prepare a o) = []).
Proof.
  intros a o. destruct o; simpl.
  - auto.
  - destruct (memz w (ltimers a)); simpl; [|auto]. destruct (timer_at a); simpl; auto.
  - destruct (soon a); simpl; auto.
  - auto.
  - auto.
  - destruct (closed a); simpl; auto.
  - destruct (cwait a); simpl; [auto|]. destruct (connected a); simpl; [auto|]. destruct (closed a); simpl; auto.
  - rewrite transmit_soon_evq. simpl. auto.
  - destruct (memz sid (wclosing a)); simpl; [auto|]. rewrite transmit_soon_evq. simpl. auto.
  - auto.
  - rewrite transmit_soon_evq. auto.
Qed.

Lemma linv_app : forall p oth F tb ann q evs, LInv p oth F tb ann q ->
  (forall c, In c (issued_cids evs) -> F c) -> LInv p oth F tb ann (q ++ evs).
Proof.
  intros p oth F tb ann q evs [ND [A [B [C D]]]] Fr. unfold LInv, issued_in in *.
  split; [exact ND|]. split; [|split; [|split; [exact C|exact D]]].
  - intros c p' I. destruct (A c p' I) as [X|[[X1 X2]|X]]; auto. right. left. split; [exact X1|].
    rewrite issued_cids_app. apply in_or_app. auto.
  - intros c I. rewrite issued_cids_app in I. apply in_app_or in I. destruct I as [I|I]; [apply B; exact I|apply D; apply Fr; exact I].
Qed.

Lemma linv_tx : forall p oth F tb ann q etx, LInv p oth F tb ann q ->
  (forall c, In c (issued_cids etx) -> F c /\ forall p2, ~ oth p2 c) ->
  LInv p oth F tb (map (fun c => (c, p)) (issued_cids etx) ++ ann) (q ++ etx).
Proof.
  intros p oth F tb ann q etx [ND [A [B [C D]]]] Fr. unfold LInv, issued_in in *.
  assert (forall c p', In (c, p') (map (fun c => (c, p)) (issued_cids etx)) -> p' = p /\ In c (issued_cids etx)) as M.
  { intros c p' I. apply in_map_iff in I. destruct I as [c0 [E I]]. inversion E; subst. auto. }
  split; [exact ND|]. split; [|split; [|split]].
  - intros c p' I. apply in_app_or in I. destruct I as [I|I].
    + apply M in I. destruct I as [-> I]. right. left. split; [reflexivity|]. rewrite issued_cids_app. apply in_or_app. auto.
    + destruct (A c p' I) as [X|[[X1 X2]|X]]; auto. right. left. split; [exact X1|].
      rewrite issued_cids_app. apply in_or_app. auto.
  - intros c I p' I2. apply in_app_or in I2. destruct I2 as [I2|I2]; [apply M in I2; tauto|].
    rewrite issued_cids_app in I. apply in_app_or in I. destruct I as [I|I]; [apply (B c I p' I2)|].
    apply (D c); [apply Fr; exact I|exact I2].
  - intros p2 c O p' I2. apply in_app_or in I2. destruct I2 as [I2|I2]; [|apply (C p2 c O p' I2)].
    apply M in I2. destruct I2 as [_ I2]. exfalso. apply (proj2 (Fr c I2) p2). exact O.
  - intros c Fc p' I2. apply in_app_or in I2. destruct I2 as [I2|I2]; [apply M in I2; tauto|apply (D c Fc p' I2)].
Qed.

Lemma run_plan_linv : forall p oth F fx w pl x out w' a',
  (forall c, In c (issued_cids (plan_tx pl)) -> F c /\ forall p2, ~ oth p2 c) ->
  LInv p oth F (tbl (w_rt w)) (w_ann w) (evq (plan_st pl)) ->
  run_plan (cproc p) (ctx p) fx w pl = (x, out, w', a') ->
  LInv p oth F (tbl (w_rt w')) (w_ann w') (evq a') /\ nprot (w_rt w') = nprot (w_rt w) /\
  (fx = true -> x = None -> (exists e s0 pe gt etx, pl = PGo e s0 pe gt etx) -> evq a' = []).
Proof.
  intros p oth F fx w pl x out w' a' Fr L H. destruct pl as [x0 extra s0|extra s0 pe gt etx]; simpl in *.
  - inv_pair H. split; [exact L|]. split; [reflexivity|]. intros _ _ [e [s1 [pe [gt [etx X]]]]]. discriminate.
  - assert (forall w1 s1, LInv p oth F (tbl (w_rt w1)) (w_ann w1) (evq s1) -> nprot (w_rt w1) = nprot (w_rt w) ->
              (if fx then let '(x2, w3, s3) := cproc p (ctx p w1 etx) (transmit_core s1 gt etx) in (x2, extra, w3, s3)
               else (None, extra, ctx p w1 etx, transmit_core s1 gt etx)) = (x, out, w', a') ->
              LInv p oth F (tbl (w_rt w')) (w_ann w') (evq a') /\ nprot (w_rt w') = nprot (w_rt w) /\
              (fx = true -> x = None -> evq a' = [])) as K.
    { intros w1 s1 L1 N1 H1.
      assert (LInv p oth F (tbl (w_rt (ctx p w1 etx))) (w_ann (ctx p w1 etx)) (evq (transmit_core s1 gt etx))) as L2.
      { rewrite transmit_core_evq. simpl. apply linv_tx; assumption. }
      destruct fx.
      - destruct (cproc p (ctx p w1 etx) (transmit_core s1 gt etx)) as [[x2 w3] s3] eqn:E2. inv_pair H1.
        unfold cproc in E2. destruct (cprocess_linv _ _ _ _ _ _ _ _ _ L2 E2) as [L3 [N3 Z3]].
        split; [exact L3|]. split; [simpl in N3; congruence|]. intros _ X. apply Z3. exact X.
      - inv_pair H1. split; [exact L2|]. split; [exact N1|discriminate]. }
    destruct pe.
    + destruct (cproc p w s0) as [[x1 w1] s1] eqn:E1. unfold cproc in E1.
      destruct (cprocess_linv _ _ _ _ _ _ _ _ _ L E1) as [L1 [N1 _]].
      destruct x1 as [y|].
      * inv_pair H. split; [exact L1|]. split; [exact N1|]. discriminate.
      * destruct (K w1 s1 L1 N1 H) as [A [B C]]. split; [exact A|]. split; [exact B|]. intros X Y _. apply C; assumption.
    + destruct (K w s0 L eq_refl H) as [A [B C]]. split; [exact A|]. split; [exact B|]. intros X Y _. apply C; assumption.
Qed.

(* ---------- the invariant of the composition ------------------------------------------------------------ *)
Lemma p_get_set : forall l p a q, p_get q (p_set p a l) = if q =? p then Some a else p_get q l.
Proof.
  induction l as [|[k b] t IH]; intros p a q; simpl.
  - destruct (p =? q) eqn:E; destruct (q =? p) eqn:E2; try reflexivity; lia.
  - destruct (k =? p) eqn:E; simpl.
    + destruct (k =? q) eqn:E1; destruct (q =? p) eqn:E2; try reflexivity; lia.
    + rewrite IH. destruct (k =? q) eqn:E1; destruct (q =? p) eqn:E2; try reflexivity; lia.
Qed.

Definition s_tbl (s : sst) : table := tbl (w_rt (s_w s)).
Definition s_ann (s : sst) : list (Z * Z) := w_ann (s_w s).

(* J: an announced connection ID is routed to its protocol, or its ConnectionIdIssued event is still waiting in
   that protocol's connection.  K: a waiting ConnectionIdIssued never names a cid announced by another protocol. *)
Definition GI (s : sst) : Prop :=
  NoDup (keys (s_tbl s)) /\
  (forall c p, In (c, p) (s_ann s) ->
     t_get c (s_tbl s) = Some p \/ exists a, p_get p (s_prots s) = Some a /\ issued_in c (evq a)) /\
  (forall p2 a2 c, p_get p2 (s_prots s) = Some a2 -> issued_in c (evq a2) -> forall p, In (c, p) (s_ann s) -> p = p2) /\
  (forall p a, p_get p (s_prots s) = Some a -> p < nprot (w_rt (s_w s))).

Definition oth_of (s : sst) (p : Z) (p2 c : Z) : Prop :=
  p2 <> p /\ exists a2, p_get p2 (s_prots s) = Some a2 /\ issued_in c (evq a2).

(* freshness (os.urandom): a cid that protocol p's connection names in a ConnectionIdIssued event during this step
   is not announced by, nor waiting in, another protocol *)
Definition fresh_for (s : sst) (p c : Z) : Prop :=
  (forall p', In (c, p') (s_ann s) -> p' = p) /\
  (forall p2 a2, p2 <> p -> p_get p2 (s_prots s) = Some a2 -> ~ issued_in c (evq a2)).
Definition fresh_pstep (s : sst) (p : Z) (o : op) : Prop :=
  forall c, In c (issued_cids (op_evs o ++ op_tx o)) -> fresh_for s p c.

Lemma pstep_gi : forall fx s p o x out s', GI s -> fresh_pstep s p o -> pstep fx s p o = (x, out, s') ->
  GI s' /\ s_closed s' = s_closed s /\
  (fx = true -> is_tx o = true -> x = None -> exists a', p_get p (s_prots s') = Some a' /\ evq a' = []).
Proof.
  intros fx s p o x out s' [ND [J [K B1]]] Fr H. unfold pstep in H.
  destruct (p_get p (s_prots s)) as [a|] eqn:PG.
  2:{ inv_pair H. split; [exact (conj ND (conj J (conj K B1)))|]. split; [reflexivity|]. discriminate. }
  destruct (run_plan (cproc p) (ctx p) fx (s_w s) (prepare a o)) as [[[x1 out1] w1] a1] eqn:R. inv_pair H.
  set (F := fun c => In c (issued_cids (op_evs o ++ op_tx o))).
  assert (LInv p (oth_of s p) F (s_tbl s) (s_ann s) (evq a)) as L0.
  { split; [exact ND|]. split; [|split; [|split]].
    - intros c p' I. destruct (J c p' I) as [X|[a2 [X1 X2]]]; [auto|]. right.
      destruct (Z.eq_dec p' p) as [->|NE].
      + left. split; [reflexivity|]. rewrite PG in X1. inversion X1; subst. exact X2.
      + right. split; [exact NE|]. split; [exact NE|]. exists a2. auto.
    - intros c I p' I2. apply (K p a c PG I p' I2).
    - intros p2 c [NE [a2 [X1 X2]]] p' I2. apply (K p2 a2 c X1 X2 p' I2).
    - intros c Fc p' I2. apply (proj1 (Fr c Fc) p' I2). }
  destruct (prepare_evq a o) as [PE PT].
  assert (LInv p (oth_of s p) F (s_tbl s) (s_ann s) (evq (plan_st (prepare a o)))) as L1.
  { destruct PE as [PE|PE]; rewrite PE; [|exact L0]. apply linv_app; [exact L0|].
    intros c I. unfold F. rewrite issued_cids_app. apply in_or_app. auto. }
  assert (forall c, In c (issued_cids (plan_tx (prepare a o))) -> F c /\ forall p2, ~ oth_of s p p2 c) as FT.
  { intros c I. destruct PT as [PT|PT]; rewrite PT in I; [|destruct I].
    assert (F c) as Fc by (unfold F; rewrite issued_cids_app; apply in_or_app; auto).
    split; [exact Fc|]. intros p2 [NE [a2 [X1 X2]]]. apply (proj2 (Fr c Fc) p2 a2 NE X1 X2). }
  destruct (run_plan_linv p (oth_of s p) F fx (s_w s) (prepare a o) x out w1 a1 FT L1 R) as [[ND1 [A1 [B2 [C1 D1]]]] [N1 Z1]].
  split; [|split; [reflexivity|]].
  - unfold GI, s_tbl, s_ann. simpl. split; [exact ND1|]. split; [|split].
    + intros c p' I. destruct (A1 c p' I) as [X|[[-> X2]|[NE [_ [a2 [X1 X2]]]]]]; [auto| |].
      * right. exists a1. rewrite p_get_set, Z.eqb_refl. auto.
      * right. exists a2. rewrite p_get_set. destruct (p' =? p) eqn:E; [lia|]. auto.
    + intros p2 a2 c X1 X2 p' I. rewrite p_get_set in X1. destruct (p2 =? p) eqn:E.
      * inversion X1; subst a2. assert (p2 = p) by lia. subst p2. apply (B2 c X2 p' I).
      * apply (C1 p2 c); [|exact I]. split; [lia|]. exists a2. auto.
    + intros p2 a2 X1. rewrite N1. rewrite p_get_set in X1. destruct (p2 =? p) eqn:E.
      * assert (p2 = p) by lia. subst p2. apply (B1 p a PG).
      * apply (B1 p2 a2 X1).
  - intros FX TX XN. simpl. exists a1. rewrite p_get_set, Z.eqb_refl. split; [reflexivity|].
    apply Z1; [exact FX|exact XN|]. 
    destruct (prepare a o) as [x0 e0 s0|e0 s0 pe0 gt0 etx0] eqn:PR; [|eauto 10].
    exfalso. simpl in R. inv_pair R. destruct o; simpl in PR, TX; try discriminate.
    + destruct (memz w (ltimers a)); simpl in PR; [|discriminate]. destruct (timer_at a); discriminate.
    + destruct (soon a); discriminate.
    + destruct (closed a); discriminate.
Qed.

(* ---------- QuicServer.datagram_received / close ----------------------------------------------------------- *)
Lemma rstep_dgram_cases : forall r d x out r', rstep r (RDgram d) = (x, out, r') ->
  (r' = r /\ ((exists p, out = [A_ROUTED; p] /\ t_get (d_dcid d) (tbl r) = Some p) \/ exists a, out = [a])) \/
  (out = [A_CREATED; nprot r] /\ t_get (d_dcid d) (tbl r) = None /\
   r' = mkR (t_set (d_hcid d) (nprot r) (t_set (d_dcid d) (nprot r) (tbl r))) (nprot r + 1)).
Proof.
  intros r d x out r' H. simpl in H.
  destruct (d_parse_ok d); simpl in H; [|inv_pair H; left; split; [reflexivity|right; eauto]].
  destruct (d_version_ok d); simpl in H; [|inv_pair H; left; split; [reflexivity|right; eauto]].
  destruct (t_get (d_dcid d) (tbl r)) as [p|] eqn:G; [inv_pair H; left; split; [reflexivity|left; eauto]|].
  destruct (d_big d && d_initial d); [|inv_pair H; left; split; [reflexivity|right; eauto]].
  destruct (d_retry d).
  - destruct (d_token d =? 0); [inv_pair H; left; split; [reflexivity|right; eauto]|].
    destruct (d_tokres d); inv_pair H; [right; auto|left; split; [reflexivity|right; eauto]].
  - inv_pair H. right. auto.
Qed.

Definition no_ann (s : sst) (c : Z) : Prop := forall p', ~ In (c, p') (s_ann s).

(* freshness of one server step: the ConnectionIdIssued cids of the protocol that runs (fresh_pstep); for a datagram
   that creates a protocol, also the two cids it is registered under (the client's first destination cid, the
   os.urandom host cid) are not connection IDs some protocol has announced *)
Definition fresh_sop (s : sst) (o : sop) : Prop :=
  match o with
  | SProt p o => fresh_pstep s p o
  | SClose => True
  | SDgram d evs gt etx =>
      match snd (fst (rstep (w_rt (s_w s)) (RDgram d))) with
      | a :: p :: _ =>
          (a = A_CREATED -> no_ann s (d_dcid d) /\ no_ann s (d_hcid d)) /\ fresh_pstep s p (ORecv evs gt etx)
      | _ => True
      end
  end.

Fixpoint sfresh (fx : bool) (s : sst) (ops : list sop) : Prop :=
  match ops with
  | [] => True
  | o :: t => fresh_sop s o /\ sfresh fx (snd (sstep fx s o)) t
  end.

Lemma pstep_closed : forall fx s p o x out s', pstep fx s p o = (x, out, s') -> s_closed s' = s_closed s.
Proof.
  intros fx s p o x out s' H. unfold pstep in H. destruct (p_get p (s_prots s)); [|inv_pair H; reflexivity].
  destruct (run_plan (cproc p) (ctx p) fx (s_w s) (prepare s0 o)) as [[[x1 out1] w1] a1]. inv_pair H. reflexivity.
Qed.

Lemma sstep_closed : forall fx s o x out s', sstep fx s o = (x, out, s') -> s_closed s = true -> s_closed s' = true.
Proof.
  intros fx s o x out s' H Cl. destruct o as [d evs gt etx|p o|]; unfold sstep in H.
  - destruct (rstep (w_rt (s_w s)) (RDgram d)) as [[x0 out0] r0].
    destruct out0 as [|a [|p t]]; try (inv_pair H; exact Cl).
    destruct (a =? A_CREATED); [apply pstep_closed in H; simpl in H; congruence|].
    destruct (a =? A_ROUTED); [apply pstep_closed in H; simpl in H; congruence|inv_pair H; exact Cl].
  - apply pstep_closed in H. congruence.
  - inv_pair H. reflexivity.
Qed.

Lemma srun_closed : forall fx ops s, s_closed s = true -> s_closed (srun fx s ops) = true.
Proof.
  induction ops as [|o t IH]; intros s Cl; simpl; [exact Cl|].
  destruct (sstep fx s o) as [[x out] s1] eqn:E. apply IH. eapply sstep_closed; eauto.
Qed.

Lemma sstep_gi : forall fx s o x out s', GI s -> fresh_sop s o -> sstep fx s o = (x, out, s') ->
  (GI s' \/ s_closed s' = true) /\
  (fx = true -> x = None -> forall p, transmitter s o = Some p -> exists a', p_get p (s_prots s') = Some a' /\ evq a' = []).
Proof.
  intros fx s o x out s' G Fr H. destruct o as [d evs gt etx|p o|].
  - destruct s as [[r ann] prots cl]. unfold sstep in H. unfold fresh_sop in Fr. unfold transmitter.
    cbn [s_w w_rt w_ann s_prots s_closed] in *.
    destruct (rstep r (RDgram d)) as [[x0 out0] r0] eqn:R. cbn [fst snd] in *.
    destruct (rstep_dgram_cases _ _ _ _ _ R) as [[-> [[p [-> G0]]|[a ->]]]|[-> [G0 ->]]].
    + (* routed *)
      simpl in H. destruct Fr as [_ Fr].
      destruct (pstep_gi fx _ p _ x out s' G Fr H) as [G1 [_ Z1]].
      split; [left; exact G1|]. intros FX XN p0 T. inversion T; subst p0. apply Z1; auto.
    + inv_pair H. split; [left; exact G|]. intros _ _ p0 T. discriminate.
    + (* created *)
      simpl in H. destruct Fr as [Fc Fr]. destruct (Fc eq_refl) as [NA1 NA2].
      destruct G as [ND [J [K B1]]]. unfold s_tbl, s_ann in *. simpl in *.
      assert (GI (mkS (mkW (mkR (t_set (d_hcid d) (nprot r) (t_set (d_dcid d) (nprot r) (tbl r))) (nprot r + 1)) ann)
                      (p_set (nprot r) st_init prots) cl)) as G1.
      { unfold GI, s_tbl, s_ann. simpl. split; [apply keys_set; apply keys_set; exact ND|]. split; [|split].
        - intros c p I. rewrite !get_set.
          destruct (c =? d_hcid d) eqn:E1; [exfalso; apply (NA2 p); assert (c = d_hcid d) by lia; subst; exact I|].
          destruct (c =? d_dcid d) eqn:E2; [exfalso; apply (NA1 p); assert (c = d_dcid d) by lia; subst; exact I|].
          destruct (J c p I) as [X|[a [X1 X2]]]; [auto|]. right. exists a. rewrite p_get_set.
          destruct (p =? nprot r) eqn:E3; [|auto]. apply B1 in X1. lia.
        - intros p2 a2 c X1 X2 p I. rewrite p_get_set in X1. destruct (p2 =? nprot r) eqn:E3.
          + inversion X1; subst a2. destruct X2.
          + apply (K p2 a2 c X1 X2 p I).
        - intros p a X1. rewrite p_get_set in X1. destruct (p =? nprot r) eqn:E3; [lia|]. apply B1 in X1. lia. }
      assert (fresh_pstep (mkS (mkW (mkR (t_set (d_hcid d) (nprot r) (t_set (d_dcid d) (nprot r) (tbl r))) (nprot r + 1)) ann)
                               (p_set (nprot r) st_init prots) cl) (nprot r) (ORecv evs gt etx)) as Fr1.
      { intros c I. destruct (Fr c I) as [F1 F2]. split; [exact F1|].
        intros p2 a2 NE X1. unfold s_ann in *. simpl in *. rewrite p_get_set in X1.
        destruct (p2 =? nprot r) eqn:E3; [lia|]. apply (F2 p2 a2 NE X1). }
      destruct (pstep_gi fx _ _ _ x out s' G1 Fr1 H) as [G2 [_ Z1]].
      split; [left; exact G2|]. intros FX XN p0 T. inversion T; subst p0. apply Z1; auto.
  - simpl in H, Fr. destruct (pstep_gi fx s p o x out s' G Fr H) as [G1 [_ Z1]].
    split; [left; exact G1|]. intros FX XN p0 T. simpl in T. destruct (is_tx o) eqn:TX; [|discriminate].
    inversion T; subst p0. apply Z1; auto.
  - simpl in H. inv_pair H. split; [right; reflexivity|]. intros _ _ p0 T. discriminate.
Qed.

Lemma gi_init : GI sst_init.
Proof.
  unfold GI, s_tbl, s_ann. simpl. split; [constructor|]. split; [intros c p []|]. split; [intros; discriminate|intros; discriminate].
Qed.

Lemma srun_gi : forall fx ops s, GI s -> sfresh fx s ops -> s_closed (srun fx s ops) = false -> GI (srun fx s ops).
Proof.
  induction ops as [|o t IH]; intros s G F Cl; simpl in *; [exact G|].
  destruct F as [F1 F2]. destruct (sstep fx s o) as [[x out] s1] eqn:E. simpl in F2.
  destruct (sstep_gi fx s o x out s1 G F1 E) as [[G1|C1] _].
  - apply IH; assumption.
  - rewrite (srun_closed fx t s1 C1) in Cl. discriminate.
Qed.

Lemma sfresh_app : forall fx l1 l2 s, sfresh fx s (l1 ++ l2) -> sfresh fx s l1 /\ sfresh fx (srun fx s l1) l2.
Proof.
  induction l1 as [|o t IH]; intros l2 s F; simpl in *; [auto|].
  destruct F as [F1 F2]. destruct (sstep fx s o) as [[x out] s1] eqn:E. simpl in F2.
  destruct (IH l2 s1 F2) as [A B]. auto.
Qed.

(* ---------- theorems ----------------------------------------------------------------------------------------- *)
(* For both trees: in every reachable state of the composition (server not closed), a connection ID that a live
   protocol has announced in a NEW_CONNECTION_ID frame and that was not retired is routed to that protocol OR its
   ConnectionIdIssued event is still waiting in the protocol's connection (finding F4 is the second case). *)
Lemma announced_cid_routed_or_queued_l : forall fx ops, sfresh fx sst_init ops ->
  let s := srun fx sst_init ops in
  s_closed s = false ->
  forall c p, In (c, p) (s_ann s) ->
    t_get c (s_tbl s) = Some p \/ exists a, p_get p (s_prots s) = Some a /\ In c (issued_cids (evq a)).
Proof.
  intros fx ops F s Cl c p I. destruct (srun_gi fx ops sst_init gi_init F Cl) as [_ [J _]]. apply J. exact I.
Qed.

(* With the repair (fx = true): when a step that runs transmit() of protocol p returns normally, every connection ID p
   has announced (and the server has not seen retired, p not terminated, server not closed) is routed to p. *)
Lemma announced_cid_routable_l : forall ops o out s',
  sfresh true sst_init (ops ++ [o]) ->
  let s := srun true sst_init ops in
  sstep true s o = (None, out, s') -> s_closed s' = false ->
  forall p, transmitter s o = Some p ->
  forall c, In (c, p) (s_ann s') -> t_get c (s_tbl s') = Some p.
Proof.
  intros ops o out s' F s H Cl p T c I.
  destruct (sfresh_app true ops [o] sst_init F) as [F1 [F2 _]]. fold s in F2.
  assert (s_closed s = false) as Cl0.
  { destruct (s_closed s) eqn:E; [|reflexivity]. rewrite (sstep_closed true s o None out s' H E) in Cl. discriminate. }
  pose proof (srun_gi true ops sst_init gi_init F1 Cl0) as G. fold s in G.
  destruct (sstep_gi true s o None out s' G F2 H) as [[G1|C1] Z]; [|congruence].
  destruct (Z eq_refl eq_refl p T) as [a' [X1 X2]].
  destruct G1 as [_ [J _]]. destruct (J c p I) as [R|[a [Y1 Y2]]]; [exact R|].
  rewrite X1 in Y1. inversion Y1; subst a. rewrite X2 in Y2. destruct Y2.
Qed.

(* Without it the statement fails (finding F4): the first datagram of a connection creates protocol 0, its transmit()
   announces connection ID 7 and returns; 7 is not in the routing table.  Same trace with the repair: routed. *)
Definition d_first : dgram := mkD true true 1 true true false 9 0 None 2.
Definition f4_trace : list sop := [SDgram d_first [EvHandshake] (Some 5) [EvCidIssued 7 0]].

Lemma announced_cid_unroutable_without_repair_l :
  sfresh false sst_init f4_trace /\
  let s := srun false sst_init f4_trace in
  s_closed s = false /\ In (7, 0) (s_ann s) /\ t_get 7 (s_tbl s) = None /\
  t_get 7 (s_tbl (srun true sst_init f4_trace)) = Some 0.
Proof.
  split.
  - simpl. split; [|exact I]. split; [intros _; split; intros p' []|].
    intros c [<-|[]]. split; [intros p' []|]. intros p2 a2 NE X. discriminate.
  - vm_compute. repeat split. left. reflexivity.
Qed.

(* the freshness hypothesis is satisfiable by a non-trivial trace: two connections, announcements, a retirement *)
Definition d_second : dgram := mkD true true 11 true true false 8 0 None 12.
Definition d_to (c : Z) : dgram := mkD true true c false false false 9 0 None 0.
Example sfresh_example : forall fx,
  sfresh fx sst_init [SDgram d_first [EvHandshake] (Some 5) [EvCidIssued 7 0];
                      SDgram d_second [] (Some 5) [EvCidIssued 17 0];
                      SProt 0 (OTimer 5 5 [] (Some 9) [EvCidIssued 8 0]);
                      SDgram (d_to 7) [EvCidRetired 2 0] (Some 9) [];
                      SProt 1 (OPing 3 (Some 9) [])].
Proof.
  intros [|]; vm_compute; repeat split; try tauto; try discriminate;
    try (intros; repeat match goal with H : _ \/ _ |- _ => destruct H end; subst; try tauto; try discriminate; try congruence).
  all: match goal with x : Z |- False => destruct x as [|[?|?|]|?] end; cbn in *; try discriminate; try congruence; try tauto.
  all: repeat match goal with H : Some _ = Some _ |- _ => inversion H; subst; clear H end; cbn in *; try tauto; try discriminate.
  all: repeat match goal with H : _ \/ _ |- _ => destruct H end; try tauto; discriminate.
Qed.
