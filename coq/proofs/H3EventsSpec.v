(* C15 specification over the EVENTS of a whole HTTP/3 connection (coq/model/H3Events.v).
   What the application has been told about one stream so far is summarised by a [ghost] computed from the
   event list alone (no parser state): how many header blocks it was handed, the first one, the body bytes. *)
From Coq Require Import ZArith List Bool Lia.
From AQ Require Import lib.Base model.H3Validate proofs.H3ValidateSpec model.H3Parse model.H3Events.
Import ListNotations.
Open Scope Z_scope.

Record ghost := mkG {
  g_phase : Z;                         (* 0 no header block yet, 1 after the message headers, 2 after the trailers *)
  g_first : option (list header);      (* the header block that opened the message *)
  g_body : Z                           (* body bytes delivered (sum of len(DataReceived.data)) *)
}.
Definition ginit : ghost := mkG 0 None 0.

(* requests arrive at servers, responses (also on push streams) at clients *)
Definition rolekind (client : bool) : kind := if client then KResponse else KRequest.

(* the stream an event belongs to *)
Definition ev_sid (e : event) : Z :=
  match e with
  | H3Parse.EData s _ _ _ => s | H3Parse.EHeaders s _ _ _ => s | EPush s _ _ => s | EWT s _ _ _ => s | EDatagram s _ => s
  end.

(* stream_ended of HeadersReceived / DataReceived *)
Definition ev_fin (e : event) : bool :=
  match e with H3Parse.EData _ _ _ f => f | H3Parse.EHeaders _ _ _ f => f | _ => false end.

(* the summary after one more event of the same stream *)
Definition gstep (hdrs : Z -> list header) (g : ghost) (e : event) : ghost :=
  match e with
  | H3Parse.EHeaders _ _ hid _ =>
      if g_phase g =? 0 then mkG 1 (Some (hdrs hid)) (g_body g) else mkG 2 (g_first g) (g_body g)
  | H3Parse.EData _ _ d _ => mkG (g_phase g) (g_first g) (g_body g + Zlen d)
  | _ => g
  end.

(* only HeadersReceived / DataReceived of stream sid change its summary *)
Definition estep (hdrs : Z -> list header) (sid : Z) (g : ghost) (e : event) : ghost :=
  match e with
  | H3Parse.EHeaders s _ _ _ => if s =? sid then gstep hdrs g e else g
  | H3Parse.EData s _ _ _ => if s =? sid then gstep hdrs g e else g
  | _ => g
  end.

Definition ghost_of (hdrs : Z -> list header) (hist : list event) (sid : Z) : ghost :=
  fold_left (estep hdrs sid) hist ginit.

(* "when a stream ends, a declared content-length equals the number of body bytes delivered" *)
Definition end_good (g : ghost) : Prop :=
  forall hs n, g_first g = Some hs -> declares hs n -> g_body g = n.

(* event e is acceptable when the stream's summary BEFORE it is g *)
Definition ev_ok (client : bool) (hdrs : Z -> list header) (g : ghost) (e : event) : Prop :=
  match e with
  | H3Parse.EHeaders _ _ hid _ =>
      (g_phase g = 0 /\ wellformed (rolekind client) (hdrs hid))       (* the message's header block *)
      \/ (g_phase g = 1 /\ wellformed KTrailers (hdrs hid))            (* trailers: once, after the headers *)
  | H3Parse.EData _ _ d _ => d <> [] -> g_phase g = 1                  (* body bytes: after the headers, before the trailers *)
  | EPush _ _ hid => client = true /\ wellformed KPushPromise (hdrs hid)
  | _ => True
  end
  /\ (ev_fin e = true -> end_good (gstep hdrs g e)).

(* every event of a list is acceptable after the events in front of it (hist = what came before the list) *)
Fixpoint all_ok (client : bool) (hdrs : Z -> list header) (hist evs : list event) : Prop :=
  match evs with
  | [] => True
  | e :: t => ev_ok client hdrs (ghost_of hdrs hist (ev_sid e)) e /\ all_ok client hdrs (hist ++ [e]) t
  end.

(* ---------------------------------------------------------------- what the transport may deliver
   QUIC never delivers stream data after the FIN of a stream (/repo 3d9ca7e), and the application ends the
   sending side of a stream at most once (a second end_stream raises in send_headers / send_data). *)
Definition is_stream (sid : Z) (q : qevent) : Prop := exists d f, q = QStream sid d f.
Definition is_local (sid : Z) (q : qevent) : Prop := q = QLocalEnd sid.
Definition no_stream (sid : Z) (l : list qevent) : Prop := forall q, In q l -> ~ is_stream sid q.
Definition no_local (sid : Z) (l : list qevent) : Prop := forall q, In q l -> ~ is_local sid q.

Fixpoint trace_ok (l : list qevent) : Prop :=
  match l with
  | [] => True
  | q :: rest =>
      match q with
      | QStream sid _ true => no_stream sid rest
      | QLocalEnd sid => no_local sid rest
      | _ => True
      end /\ trace_ok rest
  end.

(* ---------------------------------------------------------------- readable projections of ghost_of *)
(* number of header blocks of stream sid among the events *)
Fixpoint headers_count (sid : Z) (evs : list event) : Z :=
  match evs with
  | [] => 0
  | H3Parse.EHeaders s _ _ _ :: t => (if s =? sid then 1 else 0) + headers_count sid t
  | _ :: t => headers_count sid t
  end.

(* body bytes of stream sid among the events *)
Fixpoint body_of (sid : Z) (evs : list event) : Z :=
  match evs with
  | [] => 0
  | H3Parse.EData s _ d _ :: t => (if s =? sid then Zlen d else 0) + body_of sid t
  | _ :: t => body_of sid t
  end.

(* the header id of the first header block of stream sid *)
Fixpoint first_block (sid : Z) (evs : list event) : option Z :=
  match evs with
  | [] => None
  | H3Parse.EHeaders s _ hid _ :: t => if s =? sid then Some hid else first_block sid t
  | _ :: t => first_block sid t
  end.

(* the kind of message a header block is, from its position on the stream *)
Definition kind_at (client : bool) (sid : Z) (pre : list event) : kind :=
  if headers_count sid pre =? 0 then rolekind client else KTrailers.
