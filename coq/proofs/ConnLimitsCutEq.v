(* C07: the enforced value EQUALS the largest value written on the wire (AdvEq), at every point of every history:
   - for histories of complete passes in any tree (per stream too: the exact analogue of advertised_is_enforced);
   - for histories with CUT passes in a tree that assigns a raised limit only next to the written frame
     (RAISE_BEFORE_START_FRAME = false), through the six stages of the pass and discard.
   A complete pass is a cut pass with enough budget (write_is_write_b) in every state whose sent fields are in {value, 0}. *)
From Coq Require Import ZArith List Bool Lia ZifyBool.
From AQ Require Import lib.Base model.RangeSet model.StreamRecv model.ConnLimits model.ConnLimitsSpec model.ConnLimitsCut gen.C07Consts
  proofs.RangeSetP proofs.ListZ proofs.ConnLimitsP proofs.ConnLimitsAdv proofs.ConnLimitsSim proofs.ConnLimitsMsd proofs.ConnLimitsCutP
  proofs.ConnLimitsCutInv.

(* ---------- peer_see, field by field ---------- *)
Lemma see1_data p ft a v :
  p_adv_data (peer_see1 p (W ft a v)) = if ft =? FT_MAX_DATA then Z.max v (p_adv_data p) else p_adv_data p.
Proof.
  cbn [peer_see1]. destruct (ft =? FT_MAX_DATA); [reflexivity|]. destruct (ft =? FT_MAX_STREAM_DATA); [reflexivity|].
  destruct (ft =? FT_MAX_STREAMS_BIDI); [reflexivity|]. destruct (ft =? FT_MAX_STREAMS_UNI); reflexivity.
Qed.

Lemma see1_bidi p ft a v :
  p_adv_bidi (peer_see1 p (W ft a v)) = if ft =? FT_MAX_STREAMS_BIDI then Z.max v (p_adv_bidi p) else p_adv_bidi p.
Proof.
  cbn [peer_see1]. destruct (ft =? FT_MAX_DATA) eqn:E1.
  { assert (E : ft =? FT_MAX_STREAMS_BIDI = false) by (apply Z.eqb_eq in E1; subst; reflexivity). rewrite E. reflexivity. }
  destruct (ft =? FT_MAX_STREAM_DATA) eqn:E2.
  { assert (E : ft =? FT_MAX_STREAMS_BIDI = false) by (apply Z.eqb_eq in E2; subst; reflexivity). rewrite E. reflexivity. }
  destruct (ft =? FT_MAX_STREAMS_BIDI); [reflexivity|]. destruct (ft =? FT_MAX_STREAMS_UNI); reflexivity.
Qed.

Lemma see1_uni p ft a v :
  p_adv_uni (peer_see1 p (W ft a v)) = if ft =? FT_MAX_STREAMS_UNI then Z.max v (p_adv_uni p) else p_adv_uni p.
Proof.
  cbn [peer_see1]. destruct (ft =? FT_MAX_DATA) eqn:E1.
  { assert (E : ft =? FT_MAX_STREAMS_UNI = false) by (apply Z.eqb_eq in E1; subst; reflexivity). rewrite E. reflexivity. }
  destruct (ft =? FT_MAX_STREAM_DATA) eqn:E2.
  { assert (E : ft =? FT_MAX_STREAMS_UNI = false) by (apply Z.eqb_eq in E2; subst; reflexivity). rewrite E. reflexivity. }
  destruct (ft =? FT_MAX_STREAMS_BIDI) eqn:E3.
  { assert (E : ft =? FT_MAX_STREAMS_UNI = false) by (apply Z.eqb_eq in E3; subst; reflexivity). rewrite E. reflexivity. }
  destruct (ft =? FT_MAX_STREAMS_UNI); reflexivity.
Qed.

Lemma see1_ledger p x : p_hi (peer_see1 p x) = p_hi p /\ p_final (peer_see1 p x) = p_final p /\ p_total (peer_see1 p x) = p_total p.
Proof.
  destruct x as [ft a v]. cbn [peer_see1].
  destruct (ft =? FT_MAX_DATA), (ft =? FT_MAX_STREAM_DATA), (ft =? FT_MAX_STREAMS_BIDI), (ft =? FT_MAX_STREAMS_UNI); auto.
Qed.

Lemma see_ledger w : forall p, p_hi (peer_see p w) = p_hi p /\ p_final (peer_see p w) = p_final p /\ p_total (peer_see p w) = p_total p.
Proof.
  induction w as [|x t IH]; intros p; cbn [peer_see fold_left]; [auto|].
  destruct (IH (peer_see1 p x)) as (A & B & C). destruct (see1_ledger p x) as (A1 & B1 & C1).
  unfold peer_see in *. rewrite A, B, C. auto.
Qed.

Lemma peer_see_app p w1 w2 : peer_see p (w1 ++ w2) = peer_see (peer_see p w1) w2.
Proof. apply fold_left_app. Qed.

(* frames of one type leave the ledger entries of the other types alone *)
Lemma see_typed ft w : Forall (fun x => wire_ft x = ft) w -> forall p,
  (ft <> FT_MAX_DATA -> p_adv_data (peer_see p w) = p_adv_data p) /\
  (ft <> FT_MAX_STREAMS_BIDI -> p_adv_bidi (peer_see p w) = p_adv_bidi p) /\
  (ft <> FT_MAX_STREAMS_UNI -> p_adv_uni (peer_see p w) = p_adv_uni p) /\
  (ft <> FT_MAX_STREAM_DATA -> forall sid, p_adv_msd (peer_see p w) sid = p_adv_msd p sid).
Proof.
  induction 1 as [|[f a v] t H _ IH]; intros p; cbn [peer_see fold_left]; [auto|]. cbn in H. subst f.
  specialize (IH (peer_see1 p (W ft a v))). unfold peer_see in IH. destruct IH as (I1 & I2 & I3 & I4).
  split; [|split; [|split]]; intros N.
  - rewrite (I1 N), see1_data. destruct (ft =? FT_MAX_DATA) eqn:E; [lia|reflexivity].
  - rewrite (I2 N), see1_bidi. destruct (ft =? FT_MAX_STREAMS_BIDI) eqn:E; [lia|reflexivity].
  - rewrite (I3 N), see1_uni. destruct (ft =? FT_MAX_STREAMS_UNI) eqn:E; [lia|reflexivity].
  - intros sid. rewrite (I4 N), see1_msd. destruct (ft =? FT_MAX_STREAM_DATA) eqn:E; [lia|reflexivity].
Qed.

Lemma map_typed ft (l : list Z) : Forall (fun x => wire_ft x = ft) (map (fun d => W ft 0 d) l).
Proof. induction l; cbn; constructor; auto. Qed.

Lemma see_data p v : peer_see p [W FT_MAX_DATA 0 v] =
  mkPeer (p_hi p) (p_final p) (p_total p) (Z.max v (p_adv_data p)) (p_adv_msd p) (p_adv_bidi p) (p_adv_uni p).
Proof. reflexivity. Qed.
Lemma see_bidi p v : peer_see p [W FT_MAX_STREAMS_BIDI 0 v] =
  mkPeer (p_hi p) (p_final p) (p_total p) (p_adv_data p) (p_adv_msd p) (Z.max v (p_adv_bidi p)) (p_adv_uni p).
Proof. reflexivity. Qed.
Lemma see_uni p v : peer_see p [W FT_MAX_STREAMS_UNI 0 v] =
  mkPeer (p_hi p) (p_final p) (p_total p) (p_adv_data p) (p_adv_msd p) (p_adv_bidi p) (Z.max v (p_adv_uni p)).
Proof. reflexivity. Qed.

(* ---------- the invariant: enforced = advertised ---------- *)
Definition ssent_ok (s : strm) : Prop := sm_sent s = sm_msd s \/ sm_sent s = 0.

Record AdvEq (c : conn) (p : peer) : Prop := {
  a_data : p_adv_data p = l_value (c_data c);
  a_bidi : p_adv_bidi p = l_value (c_bidi c);
  a_uni : p_adv_uni p = l_value (c_uni c);
  a_sent : SentOK c;
  a_ssent : Forall (fun q => ssent_ok (snd q)) (c_streams c);
  a_live : forall sid s, sget sid (c_streams c) = Some s -> done c sid = false -> can_receive c sid = true ->
             p_adv_msd p sid = sm_msd s;
  a_fresh : forall sid, sget sid (c_streams c) = None -> done c sid = false -> p_adv_msd p sid = c_msd c;
  a_nodup : NoDup (map fst (c_streams c))
}.

Lemma AdvEq_init cl msd md cb : AdvEq (conn_init cl msd md cb) (peer_init msd md).
Proof.
  constructor; cbn; intros; try reflexivity; try discriminate; try (constructor; fail).
  unfold SentOK, sent_ok; cbn; auto.
Qed.

Lemma AdvEq_upd c p sid e fin : AdvEq c p -> AdvEq c (peer_upd p sid e fin).
Proof. intros A. destruct A. constructor; cbn [peer_upd p_adv_data p_adv_bidi p_adv_uni p_adv_msd]; assumption. Qed.

Definition core_eq (c c2 : conn) : Prop :=
  c_streams c2 = c_streams c /\ c_done c2 = c_done c /\ c_client c2 = c_client c /\ c_msd c2 = c_msd c /\
  vals c2 = vals c /\ sents c2 = sents c.

Lemma core_eq_refl c : core_eq c c.
Proof. repeat split. Qed.

Lemma AdvEq_frame c c2 p p2 : AdvEq c p -> core_eq c c2 ->
  p_adv_data p2 = p_adv_data p -> p_adv_bidi p2 = p_adv_bidi p -> p_adv_uni p2 = p_adv_uni p ->
  (forall sid, p_adv_msd p2 sid = p_adv_msd p sid) -> AdvEq c2 p2.
Proof.
  intros A (E1 & E2 & E3 & E4 & E5 & E6) P1 P2 P3 P4. destruct A. unfold vals, sents in *.
  inversion E5 as [[V1 V2 V3]]. inversion E6 as [[T1 T2 T3]].
  constructor; unfold done, can_receive, SentOK, sent_ok in *; rewrite ?E1, ?E2, ?E3, ?E4, ?V1, ?V2, ?V3, ?T1, ?T2, ?T3, ?P1, ?P2, ?P3;
    try assumption.
  - intros sid s. rewrite P4. apply a_live0.
  - intros sid. rewrite P4. apply a_fresh0.
Qed.

Lemma AdvEq_core c c2 p : AdvEq c p -> core_eq c c2 -> AdvEq c2 p.
Proof. intros A E. eapply AdvEq_frame; eauto. Qed.

(* ---------- one Limit: the value changes only together with a written frame ---------- *)
Definition cond (r : option Z) : Prop := RAISE_BEFORE_START_FRAME = false \/ r <> None.

Lemma raise_limit_b_strong ft l b : sent_ok l -> 0 <= l_value l ->
  let '(l', w, r) := raise_limit_b ft l b in
  cond r -> sent_ok l' /\ l_used l' = l_used l /\
            ((w = [] /\ l_value l' = l_value l) \/ (w = [W ft 0 (l_value l')] /\ l_value l <= l_value l')).
Proof.
  intros S N. unfold raise_limit_b, sent_ok, cond in *.
  destruct (l_used l * 2 >? l_value l) eqn:E1;
    (match goal with |- context[if negb (?a =? ?b) then _ else _] => destruct (negb (a =? b)) eqn:E2 end;
     [destruct (b <=? 0)|]); destruct RAISE_BEFORE_START_FRAME; cbn; intros C;
    try (destruct C as [C|C]; [discriminate C|exfalso; apply C; reflexivity]);
    (split; [lia|]); (split; [reflexivity|]);
    first [left; split; [reflexivity|lia] | right; split; [reflexivity|lia]].
Qed.

Definition SPres (c : conn) (w : list wire) (c1 : conn) : Prop := forall p, AdvEq c p -> AdvEq c1 (peer_see p w).

Lemma SPres_trans c w1 c1 w2 c2 : SPres c w1 c1 -> SPres c1 w2 c2 -> SPres c (w1 ++ w2) c2.
Proof. intros H1 H2 p A. rewrite peer_see_app. apply H2, H1, A. Qed.

Lemma st_chal_spres c b c1 w r : st_chal c b = (c1, w, r) -> SPres c w c1.
Proof.
  unfold st_chal. destruct (drain (c_chal c) b) as [[w0 r0] b']. intros H; inversion H; subst; clear H. intros p A.
  destruct (see_typed FT_PATH_RESPONSE _ (map_typed FT_PATH_RESPONSE w0) p) as (T1 & T2 & T3 & T4).
  eapply AdvEq_frame; [exact A|repeat split|apply T1|apply T2|apply T3|apply T4]; vm_compute; discriminate.
Qed.

Lemma st_ret_spres c b c1 w r : st_ret c b = (c1, w, r) -> SPres c w c1.
Proof.
  unfold st_ret. destruct (drain (c_retire c) b) as [[w0 r0] b']. intros H; inversion H; subst; clear H. intros p A.
  destruct (see_typed FT_RETIRE_CONNECTION_ID _ (map_typed FT_RETIRE_CONNECTION_ID w0) p) as (T1 & T2 & T3 & T4).
  eapply AdvEq_frame; [exact A|repeat split|apply T1|apply T2|apply T3|apply T4]; vm_compute; discriminate.
Qed.

Lemma st_data_spres c b c1 w r : NonNeg c -> st_data c b = (c1, w, r) -> cond r -> SPres c w c1.
Proof.
  intros (N & _) H C p A. unfold st_data in H.
  pose proof (raise_limit_b_strong FT_MAX_DATA (c_data c) b (proj1 (a_sent _ _ A)) N) as S.
  destruct (raise_limit_b FT_MAX_DATA (c_data c) b) as [[l' w0] r0]. inversion H; subst; clear H.
  destruct (S C) as (S1 & S2 & S3). destruct A. destruct a_sent0 as (_ & SB & SU).
  destruct S3 as [(Ew & Ev)|(Ew & Ev)]; subst w; [|rewrite see_data];
    constructor; unfold done, can_receive, SentOK in *; cbn; try assumption; try (repeat split; assumption); lia.
Qed.

Lemma st_bidi_spres c b c1 w r : NonNeg c -> st_bidi c b = (c1, w, r) -> cond r -> SPres c w c1.
Proof.
  intros (_ & N & _) H C p A. unfold st_bidi in H.
  pose proof (raise_limit_b_strong FT_MAX_STREAMS_BIDI (c_bidi c) b (proj1 (proj2 (a_sent _ _ A))) N) as S.
  destruct (raise_limit_b FT_MAX_STREAMS_BIDI (c_bidi c) b) as [[l' w0] r0]. inversion H; subst; clear H.
  destruct (S C) as (S1 & S2 & S3). destruct A. destruct a_sent0 as (SD & _ & SU).
  destruct S3 as [(Ew & Ev)|(Ew & Ev)]; subst w; [|rewrite see_bidi];
    constructor; unfold done, can_receive, SentOK in *; cbn; try assumption; try (repeat split; assumption); lia.
Qed.

Lemma st_uni_spres c b c1 w r : NonNeg c -> st_uni c b = (c1, w, r) -> cond r -> SPres c w c1.
Proof.
  intros (_ & _ & N & _) H C p A. unfold st_uni in H.
  pose proof (raise_limit_b_strong FT_MAX_STREAMS_UNI (c_uni c) b (proj2 (proj2 (a_sent _ _ A))) N) as S.
  destruct (raise_limit_b FT_MAX_STREAMS_UNI (c_uni c) b) as [[l' w0] r0]. inversion H; subst; clear H.
  destruct (S C) as (S1 & S2 & S3). destruct A. destruct a_sent0 as (SD & SB & _).
  destruct S3 as [(Ew & Ev)|(Ew & Ev)]; subst w; [|rewrite see_uni];
    constructor; unfold done, can_receive, SentOK in *; cbn; try assumption; try (repeat split; assumption); lia.
Qed.

(* ---------- the streams: each written MAX_STREAM_DATA frame carries the new limit of its stream, nothing else changes ---------- *)
Lemma keyed_none l l' k : Forall2 keyed_le l l' -> sget k l = None -> sget k l' = None.
Proof.
  intros K G. pose proof (keyed_sget _ _ K k) as KS. destruct (sget k l') as [s'|]; [|reflexivity].
  destruct KS as (s & G0 & _). congruence.
Qed.

Lemma raise_streams_b_eq l : NoDup (map fst l) -> Forall (fun q => ssent_ok (snd q)) l -> Forall (fun q => 0 <= sm_msd (snd q)) l ->
  forall b l' w r, raise_streams_b l b = (l', w, r) -> cond r ->
  Forall (fun q => ssent_ok (snd q)) l' /\
  forall p k, (forall s, sget k l = Some s -> p_adv_msd p k = sm_msd s) ->
    p_adv_msd (peer_see p w) k = match sget k l' with Some s' => sm_msd s' | None => p_adv_msd p k end.
Proof.
  induction l as [|[sid s] t IH]; intros ND SS NN b l' w r H C.
  - cbn in H. inversion H; subst. split; [constructor|]. intros p k _. reflexivity.
  - inversion ND as [|x xs Hnin ND']; subst. inversion SS as [|x xs S1 SS']; subst. inversion NN as [|x xs N1 NN']; subst.
    cbn [snd] in S1, N1. cbn [raise_streams_b] in H.
    set (v := if negb (sm_msd s =? 0) && (r_highest (sm_recv s) * 2 >? sm_msd s) then sm_msd s * 2 else sm_msd s) in *.
    assert (Hv : sm_msd s <= v) by (unfold v; destruct (negb (sm_msd s =? 0) && (r_highest (sm_recv s) * 2 >? sm_msd s)); lia).
    assert (Gt : sget sid t = None) by (apply sget_notin; exact Hnin).
    destruct (negb (sm_sent s =? v)) eqn:E.
    + destruct (b <=? 0).
      * (* refused *)
        assert (Er : r = None) by (inversion H; reflexivity). subst r.
        assert (Fl : RAISE_BEFORE_START_FRAME = false) by (destruct C as [C|C]; [exact C|exfalso; apply C; reflexivity]).
        rewrite Fl in H. inversion H; subst; clear H. split; [constructor; assumption|]. intros p k Hk. cbn [peer_see fold_left].
        destruct (sget k ((sid, s) :: t)) as [s'|] eqn:G; [apply Hk; reflexivity|reflexivity].
      * destruct (raise_streams_b t (b - 1)) as [[t' w'] r'] eqn:R. inversion H; subst; clear H.
        destruct (IH ND' SS' NN' _ _ _ _ R C) as (I1 & I2).
        pose proof (raise_streams_b_sound t NN' (b - 1)) as Snd. rewrite R in Snd. destruct Snd as (K & _).
        split; [constructor; [left; reflexivity|exact I1]|].
        intros p k Hk. cbn [peer_see fold_left]. fold (peer_see (peer_see1 p (W FT_MAX_STREAM_DATA sid v)) w').
        cbn [sget] in *. destruct (sid =? k) eqn:Ek.
        -- assert (k = sid) by lia. subst k.
           rewrite (I2 (peer_see1 p (W FT_MAX_STREAM_DATA sid v)) sid) by (intros s0 G0; congruence).
           rewrite (keyed_none _ _ _ K Gt). rewrite see1_msd. rewrite !Z.eqb_refl. cbn [andb sm_msd].
           specialize (Hk s eq_refl). lia.
        -- rewrite (I2 (peer_see1 p (W FT_MAX_STREAM_DATA sid v)) k).
           ++ destruct (sget k t'); [reflexivity|]. rewrite see1_msd. assert (E2 : k =? sid = false) by lia. rewrite E2, andb_false_r. reflexivity.
           ++ intros s0 G0. rewrite see1_msd. assert (E2 : k =? sid = false) by lia. rewrite E2, andb_false_r. apply Hk, G0.
    + destruct (raise_streams_b t b) as [[t' w'] r'] eqn:R. inversion H; subst; clear H.
      destruct (IH ND' SS' NN' _ _ _ _ R C) as (I1 & I2).
      pose proof (raise_streams_b_sound t NN' b) as Snd. rewrite R in Snd. destruct Snd as (K & _).
      assert (Ev : v = sm_msd s).
      { unfold ssent_ok in S1. unfold v in *. destruct (negb (sm_msd s =? 0) && (r_highest (sm_recv s) * 2 >? sm_msd s)); lia. }
      split.
      { constructor; [|exact I1]. cbn [snd]. unfold ssent_ok in *. destruct RAISE_BEFORE_START_FRAME; cbn; lia. }
      intros p k Hk. cbn [sget] in *. destruct (sid =? k) eqn:Ek.
      * assert (k = sid) by lia. subst k. rewrite (I2 p sid) by (intros s0 G0; congruence).
        rewrite (keyed_none _ _ _ K Gt). specialize (Hk s eq_refl). destruct RAISE_BEFORE_START_FRAME; cbn [sm_msd]; lia.
      * apply I2. exact Hk.
Qed.

Lemma raise_streams_b_ft l : forall b, let '(l', w, r) := raise_streams_b l b in Forall (fun x => wire_ft x = FT_MAX_STREAM_DATA) w.
Proof.
  induction l as [|[sid s] t IH]; intros b; cbn [raise_streams_b]; [constructor|].
  match goal with |- context[if negb (?a =? ?b) then _ else _] => destruct (negb (a =? b)) end.
  - destruct (b <=? 0); [constructor|]. specialize (IH (b - 1)). destruct (raise_streams_b t (b - 1)) as [[t' w'] r'].
    constructor; [reflexivity|exact IH].
  - specialize (IH b). destruct (raise_streams_b t b) as [[t' w'] r']. exact IH.
Qed.

Lemma st_streams_spres c b c1 w r : NonNeg c -> st_streams c b = (c1, w, r) -> cond r -> SPres c w c1.
Proof.
  intros (_ & _ & _ & N) H C p A. unfold st_streams in H.
  pose proof (raise_streams_b_sound (c_streams c) N b) as Snd. pose proof (raise_streams_b_ft (c_streams c) b) as FT.
  destruct (raise_streams_b (c_streams c) b) as [[l' w0] r0] eqn:R. inversion H; subst; clear H. destruct Snd as (K & _).
  destruct (raise_streams_b_eq _ (a_nodup _ _ A) (a_ssent _ _ A) N _ _ _ _ R C) as (SS & EQ).
  destruct (see_typed _ _ FT p) as (T1 & T2 & T3 & _).
  pose proof (keyed_sget _ _ K) as KS.
  constructor; unfold done, can_receive, SentOK in *; cbn [set_streams c_data c_bidi c_uni c_streams c_done c_client c_msd].
  - rewrite T1 by (vm_compute; discriminate). apply A.
  - rewrite T2 by (vm_compute; discriminate). apply A.
  - rewrite T3 by (vm_compute; discriminate). apply A.
  - apply A.
  - exact SS.
  - intros sid s' G Dn Rc. specialize (KS sid). rewrite G in KS. destruct KS as (s & G0 & _).
    rewrite (EQ p sid), G; [reflexivity|]. intros s0 G1. rewrite G0 in G1. inversion G1; subst. apply (a_live _ _ A _ _ G0 Dn Rc).
  - intros sid G Dn. specialize (KS sid). rewrite G in KS.
    rewrite (EQ p sid), G; [apply (a_fresh _ _ A _ KS Dn)|]. intros s0 G1. congruence.
  - rewrite (keyed_keys _ _ K). apply A.
Qed.

(* ---------- composition over the six stages ---------- *)
Definition StageOK (f : stage) : Prop := forall c b c1 w r, NonNeg c -> f c b = (c1, w, r) ->
  Pass c w c1 /\ (cond r -> SPres c w c1).

Lemma seq_ok f g : StageOK f -> StageOK g -> StageOK (seq f g).
Proof.
  intros Hf Hg c b c1 w r N. unfold seq. destruct (f c b) as [[c' w1] [b1|]] eqn:F.
  - destruct (Hf _ _ _ _ _ N F) as (P1 & Q1). destruct (g c' b1) as [[c2 w2] b2] eqn:G.
    destruct (Hg _ _ _ _ _ (Pass_nonneg _ _ _ P1 N) G) as (P2 & Q2).
    intros H; inversion H; subst. split; [eapply Pass_trans; eassumption|].
    intros C. eapply SPres_trans; [apply Q1; right; discriminate|apply Q2, C].
  - intros H; inversion H; subst. eapply Hf; eassumption.
Qed.

Lemma limit_stages_ok : StageOK limit_stages.
Proof.
  unfold limit_stages.
  apply seq_ok; [intros c b c1 w r N H; split; [eapply st_chal_pass; eassumption|intros _; eapply st_chal_spres; eassumption]|].
  apply seq_ok; [intros c b c1 w r N H; split; [eapply st_ret_pass; eassumption|intros _; eapply st_ret_spres; eassumption]|].
  apply seq_ok; [intros c b c1 w r N H; split; [eapply st_data_pass; eassumption|eapply st_data_spres; eassumption]|].
  apply seq_ok; [intros c b c1 w r N H; split; [eapply st_bidi_pass; eassumption|eapply st_bidi_spres; eassumption]|].
  apply seq_ok; [intros c b c1 w r N H; split; [eapply st_uni_pass; eassumption|eapply st_uni_spres; eassumption]|].
  intros c b c1 w r N H; split; [eapply st_streams_pass; eassumption|eapply st_streams_spres; eassumption].
Qed.

Lemma discard_adveq c p keepl : AdvEq c p -> AdvEq (discard c keepl) p.
Proof.
  intros A. pose proof (a_nodup _ _ A) as ND. unfold discard.
  constructor; unfold done, can_receive, SentOK in *; cbn [c_data c_bidi c_uni c_streams c_done c_client c_msd]; try apply A.
  - apply Forall_filter, A.
  - intros k s'. rewrite (sget_filter _ _ _ ND), existsb_eqb_app.
    destruct (sget k (c_streams c)) as [s0|] eqn:G; [|discriminate].
    destruct (negb (discardable keepl (k, s0))); [|discriminate].
    intros Hs Hd R. inversion Hs; subst. apply orb_false_elim in Hd. destruct Hd as (Hd1 & _). apply (a_live _ _ A _ _ G Hd1 R).
  - intros k. rewrite (sget_filter _ _ _ ND), existsb_eqb_app. intros Hn Hd. apply orb_false_elim in Hd. destruct Hd as (Hd1 & Hd2).
    destruct (sget k (c_streams c)) as [s0|] eqn:G; [|apply (a_fresh _ _ A _ G Hd1)].
    exfalso. rewrite (existsb_keys_filter _ _ _ ND), G in Hd2.
    destruct (discardable keepl (k, s0)); cbn in *; discriminate.
  - apply NoDup_filter_keys, ND.
Qed.

(* a cut pass keeps "enforced = advertised" in a tree that raises only next to the written frame; a pass that is not cut
   (no frame refused) keeps it in any tree *)
Lemma write_b_adveq c p b keepl w c' : CInv c -> AdvEq c p -> write_b c b keepl = (OWrote w, c') ->
  (RAISE_BEFORE_START_FRAME = false \/ exists c1 b', limit_stages c b = (c1, w, Some b')) ->
  AdvEq c' (peer_see p w).
Proof.
  intros I A H C. destruct (write_b_shape _ _ _ _ _ H) as (c1 & w1 & ro & L & Ew & E). inversion Ew; subst w1 c'.
  destruct (limit_stages_ok _ _ _ _ _ (CInv_nonneg _ I) L) as (_ & Q).
  assert (Cr : cond ro).
  { destruct C as [C|(c2 & b' & L2)]; [left; exact C|right]. rewrite L in L2. inversion L2; subst. discriminate. }
  pose proof (Q Cr p A) as A1. destruct ro; [apply discard_adveq, A1|exact A1].
Qed.

(* ---------- a complete pass is a cut pass with enough budget ---------- *)
Lemma Zlen_cons {A} (x : A) t : Zlen (x :: t) = Zlen t + 1.
Proof. unfold Zlen. cbn [length]. lia. Qed.

Lemma drain_complete q : forall b, Zlen q <= b -> drain q b = (q, [], Some (b - Zlen q)).
Proof.
  induction q as [|x t IH]; intros b H; cbn [drain].
  - rewrite Zlen_nil, Z.sub_0_r. reflexivity.
  - rewrite Zlen_cons in *. pose proof (Zlen_nonneg t). destruct (b <=? 0) eqn:E; [lia|]. rewrite (IH (b - 1)) by lia.
    replace (b - 1 - Zlen t) with (b - (Zlen t + 1)) by lia. reflexivity.
Qed.

Lemma raise_limit_b_complete ft l b : sent_ok l -> 0 < b ->
  raise_limit_b ft l b = (fst (raise_limit ft l), snd (raise_limit ft l), Some (b - Zlen (snd (raise_limit ft l)))).
Proof.
  intros S B. unfold raise_limit_b, raise_limit, sent_ok in *.
  destruct (l_used l * 2 >? l_value l) eqn:E1;
    match goal with |- context[if negb (?a =? ?x) then _ else _] => destruct (negb (a =? x)) eqn:E2 end;
    try (destruct (b <=? 0) eqn:E3; [lia|]); cbn [fst snd]; rewrite ?Zlen_nil, ?Z.sub_0_r; try reflexivity;
    destruct RAISE_BEFORE_START_FRAME; try reflexivity; destruct l as [v0 u0 s0]; cbn in *; repeat f_equal; lia.
Qed.

Lemma raise_limit_len ft l : 0 <= Zlen (snd (raise_limit ft l)) <= 1.
Proof.
  unfold raise_limit. match goal with |- context[if negb (?a =? ?x) then _ else _] => destruct (negb (a =? x)) end; cbn; lia.
Qed.

Lemma raise_streams_b_complete l : Forall (fun q => ssent_ok (snd q)) l -> forall b, Zlen l <= b ->
  raise_streams_b l b = (fst (raise_streams l), snd (raise_streams l), Some (b - Zlen (snd (raise_streams l)))).
Proof.
  induction 1 as [|[sid s] t S _ IH]; intros b B; cbn [raise_streams_b raise_streams].
  - cbn [fst snd]. rewrite Zlen_nil, Z.sub_0_r. reflexivity.
  - rewrite Zlen_cons in B. pose proof (Zlen_nonneg t). unfold raise_stream. cbn [snd] in S. unfold ssent_ok in S.
    set (v := if negb (sm_msd s =? 0) && (r_highest (sm_recv s) * 2 >? sm_msd s) then sm_msd s * 2 else sm_msd s) in *.
    destruct (negb (sm_sent s =? v)) eqn:E.
    + destruct (b <=? 0) eqn:E3; [lia|]. rewrite (IH (b - 1)) by lia. destruct (raise_streams t) as [t' w']. cbn [fst snd app].
      rewrite Zlen_cons. replace (b - 1 - Zlen w') with (b - (Zlen w' + 1)) by lia. reflexivity.
    + rewrite (IH b) by lia. destruct (raise_streams t) as [t' w']. cbn [fst snd app].
      assert (Es : (if RAISE_BEFORE_START_FRAME then mkStrm v (sm_sent s) (sm_sendfin s) (sm_recv s) else s) =
                   mkStrm v (sm_sent s) (sm_sendfin s) (sm_recv s)).
      { destruct RAISE_BEFORE_START_FRAME; [reflexivity|]. destruct s as [m0 t0 f0 r0]. cbn in *. f_equal.
        unfold v in *. destruct (negb (m0 =? 0) && (r_highest r0 * 2 >? m0)); lia. }
      rewrite Es. reflexivity.
Qed.

Lemma filter_ext' {A} (f g : A -> bool) l : (forall a, f a = g a) -> filter f l = filter g l.
Proof. intros E. induction l as [|a t IH]; cbn; [reflexivity|]. rewrite E, IH. reflexivity. Qed.

Definition pass_budget (c : conn) : Z := Zlen (c_chal c) + Zlen (c_retire c) + 3 + Zlen (c_streams c).
Definition SentAll (c : conn) : Prop := SentOK c /\ Forall (fun q => ssent_ok (snd q)) (c_streams c).

Lemma write_is_write_b c b : SentAll c -> pass_budget c <= b ->
  write c = write_b c b [] /\ exists c1 w b', limit_stages c b = (c1, w, Some b').
Proof.
  intros ((SD & SB & SU) & SS) B. unfold pass_budget in B.
  pose proof (Zlen_nonneg (c_chal c)). pose proof (Zlen_nonneg (c_retire c)). pose proof (Zlen_nonneg (c_streams c)).
  pose proof (raise_limit_len FT_MAX_DATA (c_data c)). pose proof (raise_limit_len FT_MAX_STREAMS_BIDI (c_bidi c)).
  pose proof (raise_limit_len FT_MAX_STREAMS_UNI (c_uni c)).
  set (b1 := b - Zlen (c_chal c)). set (c1 := set_chal c []).
  assert (G1 : st_chal c b = (c1, map (fun d => W FT_PATH_RESPONSE 0 d) (c_chal c), Some b1)).
  { unfold st_chal. rewrite drain_complete by lia. reflexivity. }
  set (b2 := b1 - Zlen (c_retire c)). set (c2 := set_retire c1 []).
  assert (G2 : st_ret c1 b1 = (c2, map (fun q => W FT_RETIRE_CONNECTION_ID 0 q) (c_retire c), Some b2)).
  { unfold st_ret. change (c_retire c1) with (c_retire c). rewrite drain_complete by (unfold b1; lia). reflexivity. }
  set (rd := raise_limit FT_MAX_DATA (c_data c)) in *. set (b3 := b2 - Zlen (snd rd)).
  set (c3 := set_limits c2 (fst rd) (c_bidi c2) (c_uni c2)).
  assert (G3 : st_data c2 b2 = (c3, snd rd, Some b3)).
  { unfold st_data. change (c_data c2) with (c_data c). rewrite raise_limit_b_complete by (trivial; unfold b2, b1; lia). reflexivity. }
  set (rb := raise_limit FT_MAX_STREAMS_BIDI (c_bidi c)) in *. set (b4 := b3 - Zlen (snd rb)).
  set (c4 := set_limits c3 (c_data c3) (fst rb) (c_uni c3)).
  assert (G4 : st_bidi c3 b3 = (c4, snd rb, Some b4)).
  { unfold st_bidi. change (c_bidi c3) with (c_bidi c). rewrite raise_limit_b_complete by (trivial; unfold b3, b2, b1; lia). reflexivity. }
  set (ru := raise_limit FT_MAX_STREAMS_UNI (c_uni c)) in *. set (b5 := b4 - Zlen (snd ru)).
  set (c5 := set_limits c4 (c_data c4) (c_bidi c4) (fst ru)).
  assert (G5 : st_uni c4 b4 = (c5, snd ru, Some b5)).
  { unfold st_uni. change (c_uni c4) with (c_uni c). rewrite raise_limit_b_complete by (trivial; unfold b4, b3, b2, b1; lia). reflexivity. }
  set (rs := raise_streams (c_streams c)). set (c6 := set_streams c5 (fst rs)).
  assert (G6 : st_streams c5 b5 = (c6, snd rs, Some (b5 - Zlen (snd rs)))).
  { unfold st_streams. change (c_streams c5) with (c_streams c).
    rewrite raise_streams_b_complete by (trivial; unfold b5, b4, b3, b2, b1; lia). reflexivity. }
  assert (L : limit_stages c b = (c6, map (fun d => W FT_PATH_RESPONSE 0 d) (c_chal c) ++ map (fun q => W FT_RETIRE_CONNECTION_ID 0 q) (c_retire c) ++
                                    snd rd ++ snd rb ++ snd ru ++ snd rs, Some (b5 - Zlen (snd rs)))).
  { unfold limit_stages, seq. rewrite G1. cbv beta iota. rewrite G2. cbv beta iota. rewrite G3. cbv beta iota.
    rewrite G4. cbv beta iota. rewrite G5. cbv beta iota. rewrite G6. reflexivity. }
  split; [|eauto]. unfold write_b. rewrite L. unfold write. fold rd rb ru rs.
  destruct rd as [d wd]. destruct rb as [bb wb]. destruct ru as [u wu]. destruct rs as [ss ws]. cbn [fst snd] in *.
  f_equal. unfold discard, c6, c5, c4, c3, c2, c1. cbn.
  assert (E1 : forall l, filter (fun p0 : Z * strm => negb (discardable [] p0)) l = filter (fun p0 => negb (stream_finished (snd p0))) l).
  { intros l. apply filter_ext'. intros a. unfold discardable. cbn. rewrite andb_true_r. reflexivity. }
  assert (E2 : forall l, filter (discardable []) l = filter (fun p0 : Z * strm => stream_finished (snd p0)) l).
  { intros l. apply filter_ext'. intros a. unfold discardable. cbn. rewrite andb_true_r. reflexivity. }
  rewrite E1, E2. reflexivity.
Qed.

(* ---------- the operations of ConnLimits.v keep AdvEq (any tree) ---------- *)
Definition not_wrote (r : outcome) : Prop := match r with OWrote _ => False | _ => True end.

Lemma goc_adveq c p sid s c1 : AdvEq c p -> get_or_create c sid = GStream s c1 -> AdvEq c1 p.
Proof.
  intros A G. destruct (goc_vals _ _ _ _ G) as (V & T).
  destruct (goc_shape _ _ _ _ G) as (D & [(G1 & E)|(G1 & Es & E1 & E2 & E3 & E4 & E5 & E6 & E7)]); [subst; exact A|].
  unfold vals, sents in V, T. inversion V as [[V1 V2 V3]]. inversion T as [[T1 T2 T3]].
  destruct A. constructor; unfold done, can_receive, SentOK, sent_ok in *;
    rewrite ?E1, ?E2, ?E4, ?E5, ?V1, ?V2, ?V3, ?T1, ?T2, ?T3; try assumption.
  - apply Forall_app; split; [assumption|]. constructor; [|constructor]. rewrite Es. left. reflexivity.
  - intros k s1. rewrite sget_app1. destruct (sget k (c_streams c)) eqn:Gk.
    + intros H; inversion H; subst. apply a_live0, Gk.
    + destruct (sid =? k) eqn:E; [|discriminate]. intros H Dk _. inversion H; subst s1. assert (k = sid) by lia. subst k.
      rewrite Es. cbn [sm_msd]. apply a_fresh0; assumption.
  - intros k. rewrite sget_app1. destruct (sget k (c_streams c)) eqn:Gk; [discriminate|].
    destruct (sid =? k); [discriminate|]. intros _. apply a_fresh0, Gk.
  - rewrite map_app. cbn. apply NoDup_snoc; [assumption|]. intros Hin. destruct (sget_some_of_in _ _ Hin) as (x & Hx). congruence.
Qed.

Lemma AdvEq_sset c c2 p sid s s' : AdvEq c p -> sget sid (c_streams c) = Some s -> sm_msd s' = sm_msd s -> ssent_ok s' ->
  c_streams c2 = sset sid s' (c_streams c) -> c_done c2 = c_done c -> c_client c2 = c_client c -> c_msd c2 = c_msd c ->
  vals c2 = vals c -> sents c2 = sents c -> AdvEq c2 p.
Proof.
  intros A G Hm Hs E1 E2 E3 E4 V T. unfold vals, sents in V, T. inversion V as [[V1 V2 V3]]. inversion T as [[T1 T2 T3]].
  destruct A. constructor; unfold done, can_receive, SentOK, sent_ok in *;
    rewrite ?E1, ?E2, ?E3, ?E4, ?V1, ?V2, ?V3, ?T1, ?T2, ?T3; try assumption.
  - apply Forall_sset; [assumption|]. intros k. exact Hs.
  - intros k s1. rewrite (sget_sset _ _ _ _ _ G). destruct (k =? sid) eqn:E; [|apply a_live0].
    intros H D R. inversion H; subst s1. assert (k = sid) by lia. subst k. rewrite Hm. apply (a_live0 _ _ G D R).
  - intros k. rewrite (sget_sset _ _ _ _ _ G). destruct (k =? sid); [discriminate|]. apply a_fresh0.
  - rewrite (keys_sset _ _ _ _ G). assumption.
Qed.

Lemma ssent_of c p sid s : AdvEq c p -> sget sid (c_streams c) = Some s -> ssent_ok s.
Proof. intros A G. pose proof (a_ssent _ _ A) as F. rewrite Forall_forall in F. apply (F _ (sget_In _ _ _ G)). Qed.

Lemma handle_stream_adveq c p ft sid off data r c' :
  CInv c -> AdvEq c p -> handle_stream c ft sid off data = (r, c') -> AdvEq c' p /\ not_wrote r.
Proof.
  intros I A. unfold handle_stream.
  destruct (off + Zlen data >? UINT_VAR_MAX); [intros H; inversion H; subst; split; [exact A|exact Logic.I]|].
  destruct (negb (can_receive c sid)); [intros H; inversion H; subst; split; [exact A|exact Logic.I]|].
  destruct (get_or_create c sid) as [s c1| |code] eqn:G; try (intros H; inversion H; subst; split; [exact A|exact Logic.I]).
  destruct (goc_inv _ _ _ _ I G) as (I1 & G1 & _ & _).
  pose proof (goc_adveq _ _ _ _ _ A G) as A1.
  destruct (off + Zlen data >? sm_msd s); [intros H; inversion H; subst; split; [exact A|exact Logic.I]|].
  destruct (_ >? l_value (c_data c1)); [intros H; inversion H; subst; split; [exact A|exact Logic.I]|].
  destruct (handle_frame (sm_recv s) off data (Z.odd ft)) as [o r'].
  assert (U : AdvEq (add_used (set_streams c1 (sset sid (with_recv s r') (c_streams c1)))
                             (Z.max 0 (off + Zlen data - r_highest (sm_recv s)))) p).
  { eapply (AdvEq_sset c1 _ p sid s (with_recv s r') A1 G1); try reflexivity. exact (ssent_of _ _ _ _ A1 G1). }
  destruct o; intros H; inversion H; subst; (split; [first [exact A|exact U]|exact Logic.I]).
Qed.

Lemma handle_reset_stream_adveq c p sid fs r c' :
  CInv c -> AdvEq c p -> handle_reset_stream c sid fs = (r, c') -> AdvEq c' p /\ not_wrote r.
Proof.
  intros I A. unfold handle_reset_stream.
  destruct (negb (can_receive c sid)); [intros H; inversion H; subst; split; [exact A|exact Logic.I]|].
  destruct (get_or_create c sid) as [s c1| |code] eqn:G; try (intros H; inversion H; subst; split; [exact A|exact Logic.I]).
  destruct (goc_inv _ _ _ _ I G) as (I1 & G1 & _ & _).
  pose proof (goc_adveq _ _ _ _ _ A G) as A1.
  destruct (fs >? sm_msd s); [intros H; inversion H; subst; split; [exact A|exact Logic.I]|].
  destruct (_ >? l_value (c_data c1)); [intros H; inversion H; subst; split; [exact A|exact Logic.I]|].
  destruct (handle_reset (sm_recv s) fs) as [o r'].
  assert (U : AdvEq (add_used (set_streams c1 (sset sid (with_recv s (bump_highest r' fs)) (c_streams c1)))
                             (Z.max 0 (fs - r_highest (sm_recv s)))) p).
  { eapply (AdvEq_sset c1 _ p sid s (with_recv s (bump_highest r' fs)) A1 G1); try reflexivity. exact (ssent_of _ _ _ _ A1 G1). }
  destruct o; intros H; inversion H; subst; (split; [first [exact A|exact U]|exact Logic.I]).
Qed.

Lemma local_open_adveq c p sid : AdvEq c p -> AdvEq (local_open c sid) p.
Proof.
  intros A. unfold local_open. destruct (negb (can_send c sid)); [exact A|].
  destruct (sget sid (c_streams c)) eqn:G; [exact A|].
  destruct (Bool.eqb (client_initiated sid) (c_client c)) eqn:Own; cbn [negb]; [|exact A].
  destruct A. constructor; unfold done, can_receive, SentOK in *;
    cbn [set_streams c_data c_bidi c_uni c_streams c_done c_client c_msd]; try assumption.
  - apply Forall_app; split; [assumption|]. constructor; [|constructor]. left. reflexivity.
  - intros k s1. rewrite sget_app1. destruct (sget k (c_streams c)) eqn:Gk; [intros H1; inversion H1; subst; apply a_live0, Gk|].
    destruct (sid =? k) eqn:E; [|discriminate]. intros H1 Hd R; inversion H1; subst. assert (k = sid) by lia. subst k. cbn [sm_msd].
    rewrite Own in R. cbn [negb orb] in R. rewrite negb_true_iff in R. rewrite R. apply a_fresh0; assumption.
  - intros k. rewrite sget_app1. destruct (sget k (c_streams c)) eqn:Gk; [discriminate|]. destruct (sid =? k); [discriminate|].
    intros _. apply a_fresh0, Gk.
  - rewrite map_app. cbn. apply NoDup_snoc; [assumption|]. intros Hin. destruct (sget_some_of_in _ _ Hin) as (x & Hx). congruence.
Qed.

Lemma limit_lost_adveq c p k : AdvEq c p -> AdvEq (limit_lost c k) p.
Proof.
  intros A. destruct A. destruct a_sent0 as (S1 & S2 & S3). unfold limit_lost.
  destruct (k =? 0); [|destruct (k =? 1)]; constructor; unfold SentOK, sent_ok, done, can_receive in *; cbn; try assumption; auto.
Qed.

Lemma stream_limit_lost_adveq c p sid : AdvEq c p -> AdvEq (stream_limit_lost c sid) p.
Proof.
  intros A. unfold stream_limit_lost. destruct (sget sid (c_streams c)) as [s|] eqn:G; [|exact A].
  eapply (AdvEq_sset c _ p sid s (mkStrm (sm_msd s) 0 (sm_sendfin s) (sm_recv s)) A G); try reflexivity. right. reflexivity.
Qed.

Lemma write_wrote c r c' : write c = (r, c') -> exists w, r = OWrote w.
Proof.
  unfold write. repeat match goal with |- (let '(_, _) := ?x in _) = _ -> _ => destruct x end.
  intros H; inversion H; subst. eexists; reflexivity.
Qed.

Lemma write_adveq c p w c' : CInv c -> AdvEq c p -> write c = (OWrote w, c') -> AdvEq c' (peer_see p w).
Proof.
  intros I A H.
  destruct (write_is_write_b c (pass_budget c) (conj (a_sent _ _ A) (a_ssent _ _ A)) (Z.le_refl _)) as (E & c1 & w1 & b' & L).
  rewrite E in H. apply (write_b_adveq c p (pass_budget c) [] w c' I A H). right.
  unfold write_b in H. rewrite L in H. inversion H; subst. eauto.
Qed.

Lemma step_adveq c p o r c' : CInv c -> AdvEq c p -> step c o = (r, c') -> AdvEq c' (see_outcome p r).
Proof.
  intros I A.
  assert (Fin : forall c2 r2, AdvEq c2 p /\ not_wrote r2 -> AdvEq c2 (see_outcome p r2)).
  { intros c2 r2 (A2 & NW). destruct r2; cbn [see_outcome]; try exact A2. contradiction NW. }
  assert (Core : forall c2 r2, core_eq c c2 -> not_wrote r2 -> AdvEq c2 (see_outcome p r2)).
  { intros c2 r2 E NW. apply Fin. split; [eapply AdvEq_core; eassumption|exact NW]. }
  destruct o; cbn [step].
  - intros H. apply Fin. eapply handle_stream_adveq; eassumption.
  - intros H. apply Fin. eapply handle_reset_stream_adveq; eassumption.
  - unfold handle_touch. destruct (negb _); [intros H; inversion H; subst; apply Fin; split; [exact A|exact Logic.I]|].
    destruct (get_or_create c sid) as [s c1| |code] eqn:G; intros H; inversion H; subst; apply Fin; (split; [|exact Logic.I]);
      try exact A. eapply goc_adveq; eassumption.
  - intros H; inversion H; subst. apply Fin. split; [apply local_open_adveq, A|exact Logic.I].
  - intros H. destruct (write_wrote _ _ _ H) as (w & Er). subst r. cbn [see_outcome]. eapply write_adveq; eassumption.
  - intros H; inversion H; subst. apply Fin. split; [apply limit_lost_adveq, A|exact Logic.I].
  - intros H; inversion H; subst. apply Fin. split; [apply stream_limit_lost_adveq, A|exact Logic.I].
  - unfold handle_crypto.
    destruct (_ >? UINT_VAR_MAX); [intros H; inversion H; subst; apply Core; [apply core_eq_refl|exact Logic.I]|].
    destruct (_ >? MAX_PENDING_CRYPTO); [intros H; inversion H; subst; apply Core; [apply core_eq_refl|exact Logic.I]|].
    destruct (handle_frame (c_crypto c) off data false) as [o r'].
    destruct o as [|d0 f0| |]; try (intros H; inversion H; subst; apply Core; [repeat split|exact Logic.I]).
    destruct (tls_parse _ _); intros H; inversion H; subst; apply Core; try (repeat split); exact Logic.I.
  - unfold handle_path_challenge. intros H; inversion H; subst. apply Core; [|exact Logic.I].
    destruct (Zlen (c_chal c) <? MAX_REMOTE_CHALLENGES); repeat split.
  - intros H; inversion H; subst. apply Core; [repeat split|exact Logic.I].
  - unfold handle_new_cid.
    destruct (rpt >? seq); [intros H; inversion H; subst; apply Core; [apply core_eq_refl|exact Logic.I]|].
    match goal with |- context[match ?x with Some _ => _ | None => _ end] => destruct x as [[active' avail3]|] end;
      [|destruct NCID_EMPTY_CLOSES; intros H; inversion H; subst; (apply Core; [apply core_eq_refl|exact Logic.I])].
    destruct (1 + Zlen avail3 >? LOCAL_ACTIVE_CID_LIMIT); [intros H; inversion H; subst; apply Core; [apply core_eq_refl|exact Logic.I]|].
    match goal with |- context[if over_retire_cap ?q ?q2 then _ else _] => destruct (over_retire_cap q q2) end;
      [intros H; inversion H; subst; apply Core; [apply core_eq_refl|exact Logic.I]|].
    intros H; inversion H; subst. apply Core; [repeat split|exact Logic.I].
  - unfold handle_path_packet. destruct (pfind addr (c_paths c)); intros H; inversion H; subst; (apply Core; [repeat split|exact Logic.I]).
Qed.

Lemma xstep_adveq c p o r c' : (RAISE_BEFORE_START_FRAME = false \/ exists o', o = Plain o') ->
  CInv c -> AdvEq c p -> xstep c o = (r, c') -> AdvEq c' (see_outcome p r).
Proof.
  intros C I A. destruct o as [o|b keepl]; cbn [xstep]; [apply step_adveq; assumption|].
  intros H. destruct (write_b_shape _ _ _ _ _ H) as (c1 & w & ro & _ & Er & _). subst r. cbn [see_outcome].
  apply (write_b_adveq c p b keepl w c' I A H). left. destruct C as [C|(o' & E)]; [exact C|discriminate E].
Qed.

Lemma xrun_adveq : RAISE_BEFORE_START_FRAME = false -> forall ops c p os c', CInv c -> AdvEq c p ->
  xrun c ops = (os, c') -> AdvEq c' (adv_ledger p os).
Proof.
  intros Fl. induction ops as [|o t IH]; intros c p os c' I A; cbn [xrun].
  - intros H; inversion H; subst. exact A.
  - destruct (xstep c o) as [r c1] eqn:S. pose proof (xstep_inv _ _ _ _ I S) as I1.
    pose proof (xstep_adveq _ _ _ _ _ (or_introl Fl) I A S) as A1.
    destruct (closes r); [intros H; inversion H; subst; exact A1|].
    destruct (xrun c1 t) as [rs c2] eqn:R. intros H; inversion H; subst. cbn [adv_ledger fold_left].
    eapply IH; eassumption.
Qed.

Lemma run_adveq : forall ops c p os c', CInv c -> AdvEq c p -> run c ops = (os, c') -> AdvEq c' (adv_ledger p os).
Proof.
  induction ops as [|o t IH]; intros c p os c' I A; cbn [run].
  - intros H; inversion H; subst. exact A.
  - destruct (step c o) as [r c1] eqn:S. pose proof (step_inv _ _ _ _ I S) as I1.
    pose proof (step_adveq _ _ _ _ _ I A S) as A1.
    destruct (closes r); [intros H; inversion H; subst; exact A1|].
    destruct (run c1 t) as [rs c2] eqn:R. intros H; inversion H; subst. cbn [adv_ledger fold_left].
    eapply IH; eassumption.
Qed.

(* the statement of the invariant, spelled out *)
Definition enforced_eq_ledger (c : conn) (p : peer) : Prop :=
  l_value (c_data c) = p_adv_data p /\ l_value (c_bidi c) = p_adv_bidi p /\ l_value (c_uni c) = p_adv_uni p /\
  (forall sid s, sget sid (c_streams c) = Some s -> existsb (Z.eqb sid) (c_done c) = false -> can_receive c sid = true ->
     sm_msd s = p_adv_msd p sid) /\
  (forall sid, sget sid (c_streams c) = None -> existsb (Z.eqb sid) (c_done c) = false -> c_msd c = p_adv_msd p sid).

Lemma AdvEq_spelled c p : AdvEq c p -> enforced_eq_ledger c p.
Proof.
  intros A. destruct A. unfold done in *. repeat split; try (symmetry; assumption).
  - intros sid s G D R. symmetry. apply a_live0; assumption.
  - intros sid G D. symmetry. apply a_fresh0; assumption.
Qed.

(* goal 1: every history with cut passes, tree that raises only next to the written frame *)
Lemma enforced_is_advertised_x : RAISE_BEFORE_START_FRAME = false -> forall cl msd md cb ops os c,
  0 <= msd -> 0 <= md -> 0 <= cb ->
  xrun (conn_init cl msd md cb) ops = (os, c) ->
  enforced_eq_ledger c (adv_ledger (peer_init msd md) os).
Proof.
  intros Fl cl msd md cb ops os c H1 H2 H3 R. apply AdvEq_spelled.
  exact (xrun_adveq Fl ops _ _ os c (CInv_init cl msd md cb H1 H2 H3) (AdvEq_init cl msd md cb) R).
Qed.

(* goal 3: histories of complete passes, any tree (the per-stream analogue of advertised_is_enforced, plus the three
   connection-level limits as the MAXIMUM of the values written) *)
Lemma enforced_is_advertised_complete : forall cl msd md cb ops os c,
  0 <= msd -> 0 <= md -> 0 <= cb ->
  run (conn_init cl msd md cb) ops = (os, c) ->
  enforced_eq_ledger c (adv_ledger (peer_init msd md) os) /\
  Forall (fun q => sm_sent (snd q) = sm_msd (snd q) \/ sm_sent (snd q) = 0) (c_streams c).
Proof.
  intros cl msd md cb ops os c H1 H2 H3 R.
  pose proof (run_adveq _ _ _ _ _ (CInv_init cl msd md cb H1 H2 H3) (AdvEq_init cl msd md cb) R) as A.
  split; [apply AdvEq_spelled, A|apply (a_ssent _ _ A)].
Qed.

(* goal 2: buffer_bounded against the ADVERTISED limits *)
Lemma buffer_bounded_advertised : RAISE_BEFORE_START_FRAME = false -> forall cl msd md cb ops os c,
  0 <= msd -> 0 <= md -> 0 <= cb ->
  xrun (conn_init cl msd md cb) ops = (os, c) ->
  let p := adv_ledger (peer_init msd md) os in
  sum_buf (c_streams c) <= sum_hi (c_streams c) /\
  sum_hi (c_streams c) + c_gone c <= l_used (c_data c) /\ 0 <= c_gone c /\
  l_used (c_data c) <= p_adv_data p /\
  (forall sid s, sget sid (c_streams c) = Some s -> existsb (Z.eqb sid) (c_done c) = false -> can_receive c sid = true ->
     0 <= r_start (sm_recv s) /\
     Zlen (r_buf (sm_recv s)) <= r_highest (sm_recv s) - r_start (sm_recv s) /\
     r_highest (sm_recv s) <= p_adv_msd p sid) /\
  0 <= l_used (c_bidi c) <= p_adv_bidi p /\ 0 <= l_used (c_uni c) <= p_adv_uni p.
Proof.
  intros Fl cl msd md cb ops os c H1 H2 H3 R p.
  pose proof (xrun_inv _ _ _ _ (CInv_init cl msd md cb H1 H2 H3) R) as I.
  destruct (enforced_is_advertised_x Fl _ _ _ _ _ _ _ H1 H2 H3 R) as (E1 & E2 & E3 & E4 & _). fold p in E1, E2, E3, E4.
  pose proof (ci_streams _ I) as Fs.
  split; [apply sum_buf_le_hi; assumption|]. split; [apply I|]. split; [apply I|].
  split; [rewrite <- E1; apply I|]. split.
  { intros sid s G D Rc. rewrite Forall_forall in Fs. destruct (Fs _ (sget_In _ _ _ G)) as (B & Hm). cbn in B, Hm.
    rewrite <- (E4 _ _ G D Rc). destruct B. unfold top in *. lia. }
  rewrite <- E2, <- E3. split; apply I.
Qed.
