(* C17: decode -> re-encode, continued: lists of integers and ALPN lists (shared with ClientHello),
   EncryptedExtensions, CertificateRequest.  See TlsReencodeExt.v for the extension-loop invariant. *)
From Coq Require Import ZArith List Bool Lia ZifyBool.
From AQ Require Import lib.Base lib.Tok model.Codec model.TlsCodec.
From AQ Require Import proofs.CodecProofs proofs.TlsCodecProofs proofs.TlsListProofs proofs.TlsRoundtrip
  proofs.TlsReencode proofs.TlsReencodeExt.

(* ================= lists of integers, ALPN lists (shared with ClientHello) ============================ *)
Lemma item_uint_inv w : item_inv (item_uint w) (fun v => [v]) (fun v => [TInt w v]) (fun v => 0 <= v < 256 ^ Z.of_nat w).
Proof.
  intros a bs a' r Hb H. unfold item_uint in H.
  destruct (pull_be w bs) as [[v r']|e] eqn:E; cbn [bind] in H; [|discriminate]. injection H as <- <-.
  destruct (pull_be_inv _ _ _ _ Hb E) as (-> & Hv & Hr). exists v.
  rewrite flat_single, flat_int, fits_single, fits_int. repeat split; auto; lia.
Qed.

Lemma uints_kpv cap w (wfv : Z -> bool) b toks r : (forall v, 0 <= v < 256 ^ Z.of_nat w -> wfv v = true) ->
  bytes_ok b -> list_toks cap (item_uint w) b = Ok (toks, r) ->
  (exists bw, kpv dump_ints (forallb wfv) (fun l => [t_uints cap w l]) toks bw /\ bw <= Zlen b - Zlen r) /\ bytes_ok r.
Proof.
  intros Hw Hb H. destruct (list_toks_inv cap _ _ _ _ _ _ _ (item_uint_inv w) Hb H) as (xs & -> & -> & F & P & Hr).
  split; [|exact Hr]. exists (Zlen (flat_tv (t_uints cap w xs))). split.
  - exists xs. rewrite fits_single, flat_single. repeat split; auto.
    apply forallb_forall. intros v Hin. apply Hw. rewrite Forall_forall in P. auto.
  - rewrite Zlen_app. unfold t_uints. lia.
Qed.

Lemma alpn_fold_inv fuel : forall rem a bs a' r, bytes_ok bs -> pull_fold item_alpn fuel rem a bs = Ok (a', r) ->
  exists xs, a' = (fst a + Zlen xs, snd a ++ flat_map out_bytes xs) /\ forallb is_ascii xs = true /\
    fits_seq (flat_map (fun d => [t_opaque 1 d]) xs) = true /\
    Zlen (flat_seq (flat_map (fun d => [t_opaque 1 d]) xs)) <= Zlen bs - Zlen r /\ bytes_ok r.
Proof.
  assert (Z0 : forall (a : acc) (bs : list Z), bytes_ok bs -> exists xs : list (list Z),
             (a, bs) = ((fst a + Zlen xs, snd a ++ flat_map out_bytes xs), bs) /\ forallb is_ascii xs = true /\
             fits_seq (flat_map (fun d => [t_opaque 1 d]) xs) = true /\
             Zlen (flat_seq (flat_map (fun d => [t_opaque 1 d]) xs)) <= Zlen bs - Zlen bs /\ bytes_ok bs).
  { intros [n t] bs Hb. exists []. cbn. rewrite Z.add_0_r, app_nil_r, Z.sub_diag. repeat split; auto. lia. }
  induction fuel as [|f IH]; intros rem a bs a' r Hb H; cbn [pull_fold] in H.
  - destruct (rem <=? 0).
    + injection H as <- <-. destruct (Z0 a bs Hb) as (xs & E & R). exists xs. injection E as E. split; [exact E|exact R].
    + destruct (item_alpn a bs) as [[? ?]|?]; cbn [bind] in H; discriminate.
  - destruct (rem <=? 0).
    + injection H as <- <-. destruct (Z0 a bs Hb) as (xs & E & R). exists xs. injection E as E. split; [exact E|exact R].
    + destruct (item_alpn a bs) as [[a1 b1]|e] eqn:E; cbn [bind] in H; [|discriminate].
      unfold item_alpn in E. destruct (pull_opaque 1 bs) as [[d b1']|e] eqn:E1; cbn [bind] in E; [|discriminate].
      injection E as <- <-.
      destruct (pull_opaque_inv _ _ _ _ Hb E1) as (-> & Fo & _ & Hb1).
      destruct (IH _ _ _ _ _ Hb1 H) as (xs & -> & A & F & L & Hr).
      pose proof (Zlen_nonneg (flat_tv (t_opaque 1 d))). rewrite Zlen_app.
      destruct (is_ascii d) eqn:Ad.
      * exists (d :: xs). cbn [flat_map forallb app]. rewrite Ad, A. unfold acc_add. cbn [fst snd].
        rewrite Zlen_cons, fits_seq_cons, Fo, F, flat_seq_cons, !Zlen_app.
        split; [f_equal; [lia|rewrite <- app_assoc; reflexivity]|]. repeat split; auto. lia.
      * exists xs. repeat split; auto. lia.
Qed.

Lemma alpn_list_inv b a r : bytes_ok b -> pull_list 2 item_alpn acc0 b = Ok (a, r) ->
  exists xs, a = (Zlen xs, flat_map out_bytes xs) /\ forallb is_ascii xs = true /\ fits_tv (t_opaques 2 1 xs) = true /\
    Zlen (flat_tv (t_opaques 2 1 xs)) <= Zlen b - Zlen r /\ bytes_ok r.
Proof.
  intros Hb H. unfold pull_list, pull_block in H.
  destruct (pull_be 2 b) as [[len b1]|e] eqn:E1; cbn [bind] in H; [|discriminate].
  destruct (pull_fold item_alpn (length b1) len acc0 b1) as [[a' b2]|e] eqn:E2; cbn [bind] in H; [|discriminate].
  destruct (Zlen b1 - Zlen b2 =? len) eqn:C; [|discriminate]. injection H as <- <-.
  destruct (pull_be_inv _ _ _ _ Hb E1) as (-> & Hlen & Hb1).
  destruct (alpn_fold_inv _ _ _ _ _ _ Hb1 E2) as (xs & -> & A & F & L & Hr).
  exists xs. unfold t_opaques. rewrite fits_block, flat_block, F, !Zlen_app, !be_enc_Zlen. cbn [acc0 fst snd app andb].
  change (Z.of_nat 2) with 2. repeat split; auto; lia.
Qed.

Definition flag_of (o : option unit) : bool := match o with Some _ => true | None => false end.
Lemma flag_tree o ty : (if flag_of o then t_ext ty [] else []) = t_opt (fun _ : unit => t_ext ty []) o.
Proof. destruct o; reflexivity. Qed.
Lemma flag_dump o : dump_flag (flag_of o) = dump_opt (fun _ : unit => []) o.
Proof. destruct o; reflexivity. Qed.

Definition kp_flag : list Z -> Z -> Prop := kpv (fun _ : unit => []) (fun _ => true) (fun _ => []).
Lemma kp_flag_intro : kp_flag [] 0.
Proof. exists tt. repeat split. Qed.

Lemma nodup2 (a b : Z) : a <> b -> NoDup [a; b].
Proof. intros. repeat constructor; cbn [In]; intuition. Qed.

(* ================= EncryptedExtensions ================================================================ *)
Definition ee_kp (ty : Z) : list Z -> Z -> Prop :=
  if ty =? 16 then kpv out_bytes is_ascii (fun a => [t_opaques 2 1 [a]])
  else if ty =? 42 then kp_flag else kp_none.

Lemma ee_kp_nonneg ty toks w : ee_kp ty toks w -> 0 <= w.
Proof. unfold ee_kp. destruct (ty =? 16); [apply kpv_nonneg|]. destruct (ty =? 42); [apply kpv_nonneg|intros []]. Qed.

Lemma ee_parse_some ty len b toks r : bytes_ok b -> parse_ee_ext ty len b = Some (Ok (toks, r)) ->
  (exists w, ee_kp ty toks w /\ w <= Zlen b - Zlen r) /\ bytes_ok r.
Proof.
  intros Hb H. unfold parse_ee_ext, ee_kp in *. destruct (ty =? 16).
  { injection H as H. destruct (pull_list 2 item_alpn acc0 b) as [[a r']|e] eqn:E; cbn [bind] in H; [|discriminate].
    destruct (alpn_list_inv _ _ _ Hb E) as (xs & -> & A & F & L & Hr). cbn [fst snd] in H.
    destruct (Zlen xs =? 0) eqn:N; [discriminate|]. destruct xs as [|a0 xs]; [discriminate|].
    cbn [flat_map] in H. unfold out_bytes at 1 in H. cbn [app] in H. injection H as <- <-.
    rewrite ztake_app_exact. split; [|exact Hr].
    unfold t_opaques in F, L. cbn [flat_map app] in F, L. rewrite fits_block, fits_seq_cons in F. rewrite flat_block in L. rewrite flat_seq_cons in L, F.
    rewrite !Zlen_app, be_enc_Zlen in L. rewrite Zlen_app in F.
    pose proof (Zlen_nonneg (flat_seq (flat_map (fun d => [t_opaque 1 d]) xs))).
    cbn [forallb] in A. apply andb_prop in A as [A0 _]. apply andb_prop in F as [F1 F2]. apply andb_prop in F1 as [F1 _].
    exists (Zlen (flat_seq [t_opaques 2 1 [a0]])). split.
    - exists a0. unfold t_opaques. cbn [flat_map app]. rewrite fits_single, fits_block, fits_single, F1, flat_single.
      repeat split; auto. cbn [andb]. lia.
    - unfold t_opaques. cbn [flat_map app]. rewrite flat_single, flat_block, flat_single, Zlen_app, be_enc_Zlen. lia. }
  destruct (ty =? 42); [|discriminate]. injection H as <- <-. split; [|exact Hb]. exists 0. split; [apply kp_flag_intro|lia].
Qed.

Lemma ee_parse_none ty len b : parse_ee_ext ty len b = None -> existsb (Z.eqb ty) EE_ORDER = false.
Proof.
  unfold parse_ee_ext, EE_ORDER. cbn [existsb]. destruct (ty =? 16); [discriminate|]. destruct (ty =? 42); [discriminate|]. reflexivity.
Qed.

Theorem encrypted_extensions_reencode bs d rest : bytes_ok bs -> pull_encrypted_extensions bs = Ok (d, rest) ->
  exists m bytes', d = dump_encrypted_extensions m /\ encrypted_extensions_wf m = true /\
    enc_seq (tree_encrypted_extensions m) = Ok bytes' /\ Zlen bytes' + Zlen rest <= Zlen bs /\
    forall rest', pull_encrypted_extensions (bytes' ++ rest') = Ok (d, rest').
Proof.
  intros Hb H. apply (reencode_close pull_encrypted_extensions tree_encrypted_extensions dump_encrypted_extensions
                        encrypted_extensions_wf); [exact encrypted_extensions_roundtrip|].
  unfold pull_encrypted_extensions in H.
  destruct (message_len_inv _ _ _ _ _ Hb H) as (len & b1 & Lbs & Hlen & Hb1 & B & C). clear H. cbv beta in B.
  destruct (pull_extensions parse_ee_ext false b1) as [[st b2]|e] eqn:E4; cbn [bind] in B; [|discriminate].
  injection B as <- <-.
  destruct (pull_extensions_inv parse_ee_ext false EE_ORDER ee_kp (nodup2 16 42 ltac:(lia)) ee_kp_nonneg ee_parse_some
              ee_parse_none _ _ _ Hb1 E4) as (wf & others & K & O & W & S1 & S2 & Hr).
  destruct (slot_opt ee_kp st wf 16 out_bytes is_ascii (fun a => [t_opaques 2 1 [a]]) K (fun _ _ P => P))
    as (alpn & D16 & W16 & L16 & F16).
  destruct (slot_opt ee_kp st wf 42 (fun _ : unit => []) (fun _ => true) (fun _ => []) K (fun _ _ P => P))
    as (ed & D42 & W42 & L42 & F42).
  pose proof (kslot_nonneg ee_kp ee_kp_nonneg st wf 16 K). pose proof (kslot_nonneg ee_kp ee_kp_nonneg st wf 42 K).
  pose proof (oweight_nonneg others) as ON.
  unfold EE_ORDER in S1, S2. rewrite !wsum_cons in S1, S2. cbn [wsum fold_right] in S1, S2.
  exists (mkEE alpn (flag_of ed) others).
  assert (EX : Zlen (flat_seq (ee_exts (mkEE alpn (flag_of ed) others))) = wf 16 + wf 42 + oweight others).
  { unfold ee_exts. cbn [ee_alpn_protocol ee_early_data ee_other_extensions].
    rewrite flag_tree, !flat_seq_app, !Zlen_app, flat_others_len, L16, L42. lia. }
  assert (FX : fits_seq (ee_exts (mkEE alpn (flag_of ed) others)) = true).
  { unfold ee_exts. cbn [ee_alpn_protocol ee_early_data ee_other_extensions].
    rewrite flag_tree, !fits_seq_app, F16, F42, fits_others by lia. reflexivity. }
  repeat split.
  - unfold dump_encrypted_extensions. cbn [ee_alpn_protocol ee_early_data ee_other_extensions].
    unfold out_est, EE_ORDER. cbn [flat_map]. rewrite D16, D42, O, others_dump, app_nil_r, flag_dump.
    repeat rewrite <- app_assoc. reflexivity.
  - unfold encrypted_extensions_wf. cbn [ee_alpn_protocol ee_early_data ee_other_extensions].
    rewrite !andb_true_iff. repeat split; assumption.
  - unfold tree_encrypted_extensions.
    rewrite !fits_seq_cons, fits_block, !fits_seq_cons, !fits_int, fits_seq_nil, fits_block, FX, EX.
    rewrite !flat_seq_cons, flat_seq_nil, flat_block, EX, !Zlen_app, !be_enc_Zlen.
    cbn [andb]. change (Zlen (@nil Z)) with 0. change (256 ^ Z.of_nat 3) with 16777216. change (256 ^ Z.of_nat 2) with 65536.
    change (Z.of_nat 2) with 2. lia.
  - unfold tree_encrypted_extensions.
    rewrite !flat_seq_cons, flat_seq_nil, flat_int, flat_block, !flat_seq_cons, flat_seq_nil, flat_block.
    repeat rewrite ?Zlen_app, ?be_enc_Zlen, ?EX. change (Zlen (@nil Z)) with 0.
    change (Z.of_nat 3) with 3. change (Z.of_nat 2) with 2. change (Z.of_nat 1) with 1. lia.
Qed.

(* ================= CertificateRequest ================================================================= *)
Definition cr_kp (ty : Z) : list Z -> Z -> Prop :=
  if ty =? 13 then kpv dump_ints (forallb u16b) (fun l => [t_uints 2 2 l]) else kp_none.

Lemma cr_kp_nonneg ty toks w : cr_kp ty toks w -> 0 <= w.
Proof. unfold cr_kp. destruct (ty =? 13); [apply kpv_nonneg|intros []]. Qed.

Lemma u16b_of_range v : 0 <= v < 256 ^ Z.of_nat 2 -> u16b v = true.
Proof. change (256 ^ Z.of_nat 2) with 65536. unfold u16b. lia. Qed.

Lemma cr_parse_some ty len b toks r : bytes_ok b -> parse_cr_ext ty len b = Some (Ok (toks, r)) ->
  (exists w, cr_kp ty toks w /\ w <= Zlen b - Zlen r) /\ bytes_ok r.
Proof.
  intros Hb H. unfold parse_cr_ext, cr_kp in *. destruct (ty =? 13); [|discriminate].
  injection H as H. exact (uints_kpv 2 2 u16b _ _ _ u16b_of_range Hb H).
Qed.

Lemma cr_parse_none ty len b : parse_cr_ext ty len b = None -> existsb (Z.eqb ty) CR_ORDER = false.
Proof. unfold parse_cr_ext, CR_ORDER. cbn [existsb]. destruct (ty =? 13); [discriminate|]. reflexivity. Qed.

(* CertificateRequest.signature_algorithms is Optional[list]: when the extension is absent the decoder leaves None and
   push_certificate_request raises TypeError (push_list iterates it) -- the second disjunct; see
   certificate_request_reencode_none_refuted. *)
Theorem certificate_request_reencode bs d rest : bytes_ok bs -> pull_certificate_request bs = Ok (d, rest) ->
  (exists m bytes', d = dump_certificate_request m /\ certificate_request_wf m = true /\
     enc_seq (tree_certificate_request m) = Ok bytes' /\ Zlen bytes' + Zlen rest <= Zlen bs /\
     forall rest', pull_certificate_request (bytes' ++ rest') = Ok (d, rest')) \/
  (exists ctx others, d = out_bytes ctx ++ [0] ++ dump_list dump_ext others).
Proof.
  intros Hb H. unfold pull_certificate_request in H.
  destruct (message_len_inv _ _ _ _ _ Hb H) as (len & b1 & Lbs & Hlen & Hb1 & B & C). cbv beta in B.
  destruct (pull_opaque 1 b1) as [[ctx b2]|e] eqn:E1; cbn [bind] in B; [|discriminate].
  destruct (pull_extensions parse_cr_ext false b2) as [[st b3]|e] eqn:E4; cbn [bind] in B; [|discriminate].
  injection B as <- <-.
  destruct (pull_opaque_inv _ _ _ _ Hb1 E1) as (-> & Fc & _ & Hb2).
  destruct (pull_extensions_inv parse_cr_ext false CR_ORDER cr_kp ltac:(repeat constructor; cbn [In]; tauto) cr_kp_nonneg
              cr_parse_some cr_parse_none _ _ _ Hb2 E4) as (wf & others & K & O & W & S1 & S2 & Hr).
  destruct (slot_opt cr_kp st wf 13 dump_ints (forallb u16b) (fun l => [t_uints 2 2 l]) K (fun _ _ P => P))
    as (sa & D13 & W13 & L13 & F13).
  pose proof (kslot_nonneg cr_kp cr_kp_nonneg st wf 13 K). pose proof (oweight_nonneg others) as ON.
  unfold CR_ORDER in S1, S2. rewrite !wsum_cons in S1, S2. cbn [wsum fold_right] in S1, S2.
  destruct sa as [sa|].
  2:{ right. exists ctx, others. unfold out_est, CR_ORDER. cbn [flat_map]. rewrite D13, O, others_dump, app_nil_r. reflexivity. }
  left. apply (reencode_close pull_certificate_request tree_certificate_request dump_certificate_request
                 certificate_request_wf); [exact certificate_request_roundtrip|].
  rewrite Zlen_app in C, Lbs. cbn [t_opt opt_b] in *.
  exists (mkCR ctx sa others).
  assert (EX : Zlen (flat_seq (cr_exts (mkCR ctx sa others))) = wf 13 + oweight others).
  { unfold cr_exts. cbn [cr_signature_algorithms cr_other_extensions]. rewrite !flat_seq_app, !Zlen_app, flat_others_len, L13. lia. }
  assert (FX : fits_seq (cr_exts (mkCR ctx sa others)) = true).
  { unfold cr_exts. cbn [cr_signature_algorithms cr_other_extensions]. rewrite !fits_seq_app, F13, fits_others by lia. reflexivity. }
  repeat split.
  - unfold dump_certificate_request. cbn [cr_request_context cr_signature_algorithms cr_other_extensions].
    unfold out_est, CR_ORDER. cbn [flat_map]. rewrite D13, O, others_dump, app_nil_r. cbn [dump_opt].
    repeat rewrite <- app_assoc. reflexivity.
  - unfold certificate_request_wf. cbn [cr_signature_algorithms cr_other_extensions]. rewrite !andb_true_iff. split; assumption.
  - unfold tree_certificate_request. cbn [cr_request_context].
    rewrite !fits_seq_cons, fits_block, !fits_seq_cons, !fits_int, fits_seq_nil, Fc, fits_block, FX, EX.
    rewrite !flat_seq_cons, flat_seq_nil, flat_block, EX, !Zlen_app, !be_enc_Zlen.
    cbn [andb]. change (Zlen (@nil Z)) with 0. change (256 ^ Z.of_nat 3) with 16777216. change (256 ^ Z.of_nat 2) with 65536.
    change (Z.of_nat 2) with 2. lia.
  - unfold tree_certificate_request. cbn [cr_request_context].
    rewrite !flat_seq_cons, flat_seq_nil, flat_int, flat_block, !flat_seq_cons, flat_seq_nil, flat_block.
    repeat rewrite ?Zlen_app, ?be_enc_Zlen, ?EX. change (Zlen (@nil Z)) with 0.
    change (Z.of_nat 3) with 3. change (Z.of_nat 2) with 2. change (Z.of_nat 1) with 1. lia.
Qed.
