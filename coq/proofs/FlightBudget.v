(* C08 flight_budget: model/Recovery.v composed with C13's packet-builder model (model/Builder.v).

   One call of QuicConnection.datagrams_to_send (no close pending) is
     builder.max_flight_bytes = congestion_window - bytes_in_flight        (one datagram if a probe is pending)
     ... frame writers drive the builder ...
     datagrams, packets = builder.flush()
     for packet in packets: self._loss.on_packet_sent(packet, space of the packet's epoch)
   [register] is the last line; the builder history is any op sequence respecting the caller discipline
   (BuilderFlight.fl_disciplined).  The controller is any [cc] satisfying cc_spec (Reno and CUBIC do). *)
From AQ Require Import lib.Base lib.Tok model.RangeSet model.RecBase model.Pacer model.Reno model.Cubic model.Recovery
  proofs.RecoveryLemmas proofs.RecoveryProofs proofs.RenoProofs proofs.CubicProofs.
From AQ Require gen.C13Consts model.Builder proofs.BuilderProofs proofs.BuilderFlight.
From Coq Require Import ZifyBool.

Section Compose.
Context {T C : Type} (cc : ccops T C) (SPEC : cc_spec cc).

Notation recT := (rec (T:=T) (C:=C)).

(* the QuicSentPacket handed to on_packet_sent: the builder's fields plus sent_time = now *)
Definition to_pkt (now : T) (p : Builder.spkt) : pkt T :=
  let '(_, sent, inf, ae, cr, pn) := p in mkPkt pn inf ae cr now sent.

Definition ptype_of (p : Builder.spkt) : Z := let '(t, _, _, _, _, _) := p in t.

(* for packet in packets: self._loss.on_packet_sent(packet=packet, space=self._spaces[packet.epoch]);
   [sp] maps a packet type to the index of the space of its epoch *)
Definition register (sp : Z -> nat) (now : T) (st : recT) (pk : list Builder.spkt) : recT :=
  fold_left (fun st p => on_packet_sent cc st (sp (ptype_of p)) (to_pkt now p)) pk st.

Lemma upd_nth_length {A} (f : A -> A) : forall (l : list A) n, length (upd_nth n f l) = length l.
Proof. induction l as [|h t IH]; intros [|n]; simpl; auto. Qed.

Lemma on_packet_sent_bif (st : recT) i p :
  (i < length (r_spaces st))%nat ->
  cc_bif cc (r_cc (on_packet_sent cc st i p)) = cc_bif cc (r_cc st) + (if p_inflight p then p_bytes p else 0) /\
  length (r_spaces (on_packet_sent cc st i p)) = length (r_spaces st).
Proof.
  intros Hi. unfold on_packet_sent.
  destruct (nth_error (r_spaces st) i) eqn:E; [|apply nth_error_None in E; lia].
  cbn [r_cc r_spaces]. split; [|apply upd_nth_length].
  destruct (p_inflight p); [apply (spec_sent cc SPEC)|lia].
Qed.

Lemma to_pkt_flight now p :
  (if p_inflight (to_pkt now p) then p_bytes (to_pkt now p) else 0) = BuilderFlight.fl_bytes p.
Proof. destruct p as [[[[[t sent] inf] ae] cr] pn]. reflexivity. Qed.

Lemma register_bif sp now : forall pk (st : recT),
  (forall t, (sp t < length (r_spaces st))%nat) ->
  cc_bif cc (r_cc (register sp now st pk)) = cc_bif cc (r_cc st) + BuilderFlight.fl_sum pk.
Proof.
  induction pk as [|p pk IH]; intros st Hs; [simpl; lia|].
  destruct (on_packet_sent_bif st (sp (ptype_of p)) (to_pkt now p) (Hs _)) as [B L].
  change (register sp now st (p :: pk))
    with (register sp now (on_packet_sent cc st (sp (ptype_of p)) (to_pkt now p)) pk).
  rewrite IH; [|intros t; rewrite L; apply Hs].
  rewrite B, to_pkt_flight. simpl. lia.
Qed.

(* all packets built in one builder session: returned by flush() calls or still queued *)
Definition built (c : Builder.cfg) (pn : Z) (ops : list Builder.op) : list Builder.spkt :=
  let r := BuilderFlight.run_pk c (Builder.init_st c pn) ops in snd r ++ Builder.b_pkts (fst r).

(* For ANY recovery state and any flight budget mf: registering every packet of a disciplined builder session adds
   exactly the in-flight bytes of those packets to bytes_in_flight, and that is at most max(0, mf). *)
Theorem flight_budget_gen : forall (st : recT) sp now c mf pn ops,
  (forall t, (sp t < length (r_spaces st))%nat) ->
  Builder.c_max_flight c = Some mf -> BuilderProofs.wf_cfg c -> BuilderProofs.crypto_fits c ->
  BuilderFlight.fl_disciplined c (Builder.init_st c pn) ops = true ->
  let st' := register sp now st (built c pn ops) in
  cc_bif cc (r_cc st') = cc_bif cc (r_cc st) + BuilderFlight.fl_sum (built c pn ops) /\
  cc_bif cc (r_cc st') <= cc_bif cc (r_cc st) + Z.max 0 mf.
Proof.
  intros st sp now c mf pn ops Hs Hmf Hwf Hfit HD. cbv zeta.
  pose proof (register_bif sp now (built c pn ops) st Hs) as B.
  pose proof (BuilderFlight.flight_le_budget_all c mf pn ops Hmf Hwf Hfit HD) as L.
  unfold built in *. rewrite BuilderFlight.fl_sum_app in *. split; [exact B|]. rewrite B. lia.
Qed.

(* no probe pending: max_flight_bytes = congestion_window - bytes_in_flight, both read before the call *)
Theorem flight_budget_window : forall (st : recT) sp now c pn ops,
  (forall t, (sp t < length (r_spaces st))%nat) ->
  Builder.c_max_flight c = Some (cc_cwnd cc (r_cc st) - cc_bif cc (r_cc st)) ->
  BuilderProofs.wf_cfg c -> BuilderProofs.crypto_fits c ->
  BuilderFlight.fl_disciplined c (Builder.init_st c pn) ops = true ->
  cc_bif cc (r_cc (register sp now st (built c pn ops))) <= Z.max (cc_cwnd cc (r_cc st)) (cc_bif cc (r_cc st)).
Proof.
  intros st sp now c pn ops Hs Hmf Hwf Hfit HD.
  destruct (flight_budget_gen st sp now c _ pn ops Hs Hmf Hwf Hfit HD) as [_ L]. lia.
Qed.

(* a probe is pending: the budget is raised to one datagram when it is below *)
Theorem flight_budget_probe : forall (st : recT) sp now c pn ops,
  (forall t, (sp t < length (r_spaces st))%nat) ->
  Builder.c_max_flight c = Some (Z.max (cc_cwnd cc (r_cc st) - cc_bif cc (r_cc st)) (Builder.c_mds c)) ->
  0 <= Builder.c_mds c ->
  BuilderProofs.wf_cfg c -> BuilderProofs.crypto_fits c ->
  BuilderFlight.fl_disciplined c (Builder.init_st c pn) ops = true ->
  cc_bif cc (r_cc (register sp now st (built c pn ops)))
    <= Z.max (cc_cwnd cc (r_cc st)) (cc_bif cc (r_cc st) + Builder.c_mds c).
Proof.
  intros st sp now c pn ops Hs Hmf Hm Hwf Hfit HD.
  destruct (flight_budget_gen st sp now c _ pn ops Hs Hmf Hwf Hfit HD) as [_ L]. lia.
Qed.
End Compose.

(* ---------- both controllers of the code ---------- *)
Theorem flight_budget_reno_cubic : forall (T : Type) (F : fops T) sp now c pn ops,
  BuilderProofs.wf_cfg c -> BuilderProofs.crypto_fits c ->
  BuilderFlight.fl_disciplined c (Builder.init_st c pn) ops = true ->
  (forall st : rec (T:=T) (C:=reno (T:=T)),
     (forall t, (sp t < length (r_spaces st))%nat) ->
     Builder.c_max_flight c = Some (rn_cwnd (r_cc st) - rn_bif (r_cc st)) ->
     rn_bif (r_cc (register (reno_cc F) sp now st (built c pn ops))) <= Z.max (rn_cwnd (r_cc st)) (rn_bif (r_cc st))) /\
  (forall st : rec (T:=T) (C:=cubic (T:=T)),
     (forall t, (sp t < length (r_spaces st))%nat) ->
     Builder.c_max_flight c = Some (cb_cwnd (r_cc st) - cb_bif (r_cc st)) ->
     cb_bif (r_cc (register (cubic_cc F) sp now st (built c pn ops))) <= Z.max (cb_cwnd (r_cc st)) (cb_bif (r_cc st))).
Proof.
  intros T F sp now c pn ops Hwf Hfit HD. split; intros st Hs Hmf.
  - exact (flight_budget_window (reno_cc F) (reno_spec F) st sp now c pn ops Hs Hmf Hwf Hfit HD).
  - exact (flight_budget_window (cubic_cc F) (cubic_spec F) st sp now c pn ops Hs Hmf Hwf Hfit HD).
Qed.

(* ---------- observation: the window the budget was computed from can be gone after the call ----------
   CUBIC resets congestion_window to the initial window in on_packet_sent when the connection was idle for
   K_CUBIC_MAX_IDLE_TIME; datagrams_to_send computes max_flight_bytes BEFORE, from the window that is about to be
   reset.  After the call bytes_in_flight (34 968) exceeds the congestion window (12 000); the theorems above bound it
   by the window read before the call (36 000).  Integer clock [ZF]; replayed on the real QuicPacketRecovery
   (docs/C08.md). *)
From AQ Require Import proofs.C08Theorems.

Definition idle_hist : list (rop (T:=Z)) :=
  map (fun i => OSend 2 i true true false 1 1200) [0;1;2;3;4;5;6;7;8;9;10;11;12;13;14;15;16;17;18;19]
  ++ [OAck 2 [(0, 20)] 0 2].

Definition idle_ops : list Builder.op :=
  concat (repeat [Builder.OpStartPacket C13Consts.PT_ONE_RTT; Builder.OpStartFrame 8 4; Builder.OpPush 1100] 31)
  ++ [Builder.OpFlush].

Example cubic_idle_reset_after_budget :
  let st := fst (run ZF (cubic_cc ZF) (rec_init ZF 3 100 1200 true (cubic_init ZF 1200 [])) idle_hist) in
  let c := Builder.mkCfg true 1200 8 8 0 (Some (cb_cwnd (r_cc st) - cb_bif (r_cc st))) None (Some 1500) in
  let st' := register (cubic_cc ZF) (fun _ => 2%nat) 10 st (built c 0 idle_ops) in
  BuilderFlight.fl_disciplined c (Builder.init_st c 0) idle_ops = true /\
  (cb_cwnd (r_cc st), cb_bif (r_cc st)) = (36000, 0) /\
  (cb_cwnd (r_cc st'), cb_bif (r_cc st')) = (12000, 34968).
Proof. cbv zeta. repeat split; vm_compute; reflexivity. Qed.
