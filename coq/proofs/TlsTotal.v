(* Decoder totality for the TLS handshake-message decoders of model/TlsCodec.v on ARBITRARY input
   (any list of integers, not even required to be bytes): every pull_X returns a value or raises
   one of  BufferReadError, AlertDecodeError, AlertIllegalParameter  -- or AssertionError from
   pull_handshake_type when the first byte is not the expected handshake type (callers dispatch on
   that byte).  Nothing else can escape on the current tree (IndexError / UnicodeDecodeError could
   before /repo commit 759c7d3).  Also: fuel independence of pull_ack_ranges. *)
From AQ Require Import lib.Base model.Codec model.Varint model.RangeSet model.AckFrame model.TlsCodec
  proofs.CodecProofs proofs.VarintProofs.
From Coq Require Import ZifyBool.

Definition tls_err (k : Z) : Prop := k = E_READ \/ k = E_ALERT_DECODE \/ k = E_ALERT_ILLEGAL.

Definition tls_good {A} (r : Res A) : Prop := match r with Ok _ => True | Err k => tls_err k end.

Lemma good_bind {A B} (r : Res A) (f : A -> Res B) :
  tls_good r -> (forall a, tls_good (f a)) -> tls_good (bind r f).
Proof. destruct r as [a|k]; cbn [bind tls_good]; auto. Qed.

Lemma good_ok {A} (a : A) : tls_good (Ok a).
Proof. exact I. Qed.

Lemma good_be {n} bs : tls_good (pull_be n bs).
Proof. unfold pull_be. destruct (Zlen bs <? Z.of_nat n); cbn; unfold tls_err; auto. Qed.

Lemma good_bytes n bs : tls_good (pull_bytes n bs).
Proof. unfold pull_bytes. destruct ((n <? 0) || (Zlen bs <? n)); cbn; unfold tls_err; auto. Qed.

Lemma good_block {A} cap (body : Z -> list Z -> Res (A * list Z)) bs :
  (forall len b, tls_good (body len b)) -> tls_good (pull_block cap body bs).
Proof.
  intros H. unfold pull_block. apply good_bind; [apply good_be|]. intros [len b1].
  apply good_bind; [apply H|]. intros [v b2].
  destruct (Zlen b1 - Zlen b2 =? len); cbn; unfold tls_err; auto.
Qed.

Lemma good_opaque cap bs : tls_good (pull_opaque cap bs).
Proof. apply good_block. intros. apply good_bytes. Qed.

Lemma good_fold {S} (item : S -> list Z -> Res (S * list Z)) :
  (forall st bs, tls_good (item st bs)) -> forall fuel rem st bs, tls_good (pull_fold item fuel rem st bs).
Proof.
  intros H. induction fuel as [|f IH]; intros rem st bs; cbn [pull_fold]; destruct (rem <=? 0); try exact I.
  - apply good_bind; [apply H|]. intros [? ?]. cbn. unfold tls_err. auto.
  - apply good_bind; [apply H|]. intros [st1 b1]. apply IH.
Qed.

Lemma good_list {S} cap (item : S -> list Z -> Res (S * list Z)) st bs :
  (forall st bs, tls_good (item st bs)) -> tls_good (pull_list cap item st bs).
Proof. intros H. apply good_block. intros. now apply good_fold. Qed.

Lemma good_list_toks cap item bs :
  (forall a b, tls_good (item a b)) -> tls_good (list_toks cap item bs).
Proof. intros H. unfold list_toks. apply good_bind; [now apply good_list|]. intros [a r]. exact I. Qed.

Ltac gb := apply good_bind; [|intros [? ?]].

Lemma good_item_uint w a bs : tls_good (item_uint w a bs).
Proof. unfold item_uint. gb; [apply good_be|exact I]. Qed.

Lemma good_item_key_share a bs : tls_good (item_key_share a bs).
Proof. unfold item_key_share, pull_uint16. gb; [apply good_be|]. gb; [apply good_opaque|exact I]. Qed.

Lemma good_item_alpn a bs : tls_good (item_alpn a bs).
Proof. unfold item_alpn. gb; [apply good_opaque|exact I]. Qed.

Lemma good_item_psk_identity a bs : tls_good (item_psk_identity a bs).
Proof. unfold item_psk_identity, pull_uint32. gb; [apply good_opaque|]. gb; [apply good_be|exact I]. Qed.

Lemma good_item_opaque cap a bs : tls_good (item_opaque cap a bs).
Proof. unfold item_opaque. gb; [apply good_opaque|exact I]. Qed.

Lemma good_item_certificate_entry a bs : tls_good (item_certificate_entry a bs).
Proof. unfold item_certificate_entry. gb; [apply good_opaque|]. gb; [apply good_opaque|exact I]. Qed.

Lemma good_server_name bs : tls_good (pull_server_name bs).
Proof.
  unfold pull_server_name, pull_uint8. apply good_block. intros _ b. gb; [apply good_be|].
  destruct (negb (z =? 0)); [cbn; unfold tls_err; auto|]. gb; [apply good_opaque|].
  destruct (is_ascii l0); cbn; unfold tls_err; auto.
Qed.

Definition parse_good (parse : Z -> Z -> list Z -> option (Res (list Z * list Z))) : Prop :=
  forall ty len b r, parse ty len b = Some r -> tls_good r.

Lemma good_ext_item parse ch st bs : parse_good parse -> tls_good (ext_item parse ch st bs).
Proof.
  intros P. unfold ext_item, pull_uint16.
  destruct (ch && e_psk st); [cbn; unfold tls_err; auto|].
  gb; [apply good_be|]. gb; [apply good_be|].
  destruct (parse z z0 l0) as [r|] eqn:E.
  - gb; [exact (P _ _ _ _ E)|exact I].
  - gb; [apply good_bytes|exact I].
Qed.

Lemma good_extensions parse ch bs : parse_good parse -> tls_good (pull_extensions parse ch bs).
Proof. intros P. apply good_list. intros. now apply good_ext_item. Qed.

Lemma parse_good_sh : parse_good parse_server_hello_ext.
Proof.
  intros ty len b r H. unfold parse_server_hello_ext, pull_uint16 in H.
  destruct (ty =? 43); [injection H as <-; gb; [apply good_be|exact I]|].
  destruct (ty =? 51); [injection H as <-; gb; [apply good_be|]; gb; [apply good_opaque|exact I]|].
  destruct (ty =? 41); [injection H as <-; gb; [apply good_be|exact I]|]. discriminate.
Qed.

Lemma parse_good_nst : parse_good parse_nst_ext.
Proof.
  intros ty len b r H. unfold parse_nst_ext, pull_uint32 in H.
  destruct (ty =? 42); [injection H as <-; gb; [apply good_be|exact I]|]. discriminate.
Qed.

Lemma parse_good_cr : parse_good parse_cr_ext.
Proof.
  intros ty len b r H. unfold parse_cr_ext in H.
  destruct (ty =? 13); [injection H as <-; apply good_list_toks; intros; apply good_item_uint|]. discriminate.
Qed.

Lemma parse_good_ee : parse_good parse_ee_ext.
Proof.
  intros ty len b r H. unfold parse_ee_ext in H.
  destruct (ty =? 16).
  { injection H as <-. gb; [apply good_list; intros; apply good_item_alpn|].
    destruct (fst a =? 0); [cbn; unfold tls_err; auto|].
    destruct (snd a); cbn; unfold tls_err; auto. }
  destruct (ty =? 42); [injection H as <-; exact I|]. discriminate.
Qed.

Lemma parse_good_ch : parse_good parse_client_hello_ext.
Proof.
  intros ty len b r H. unfold parse_client_hello_ext in H.
  destruct (ty =? 51); [injection H as <-; apply good_list_toks; intros; apply good_item_key_share|].
  destruct (ty =? 43); [injection H as <-; apply good_list_toks; intros; apply good_item_uint|].
  destruct (ty =? 13); [injection H as <-; apply good_list_toks; intros; apply good_item_uint|].
  destruct (ty =? 10); [injection H as <-; apply good_list_toks; intros; apply good_item_uint|].
  destruct (ty =? 45); [injection H as <-; apply good_list_toks; intros; apply good_item_uint|].
  destruct (ty =? 0); [injection H as <-; gb; [apply good_server_name|exact I]|].
  destruct (ty =? 16); [injection H as <-; apply good_list_toks; intros; apply good_item_alpn|].
  destruct (ty =? 42); [injection H as <-; exact I|].
  destruct (ty =? 41).
  { injection H as <-. gb; [apply good_list_toks; intros; apply good_item_psk_identity|].
    gb; [apply good_list_toks; intros; apply good_item_opaque|exact I]. }
  discriminate.
Qed.

Lemma good_hello_prefix bs : tls_good (hello_prefix bs).
Proof.
  unfold hello_prefix, pull_uint16. gb; [apply good_be|].
  destruct (negb (z =? 771)); [cbn; unfold tls_err; auto|].
  gb; [apply good_bytes|]. gb; [apply good_opaque|exact I].
Qed.

(* the message frame: the type byte (AssertionError when it is not the expected one), then a block *)
Definition msg_good {A} (r : Res A) : Prop :=
  match r with Ok _ => True | Err k => tls_err k \/ k = E_ASSERT end.

Lemma msg_frame {A} kind (body : Z -> list Z -> Res (A * list Z)) bs :
  (forall len b, tls_good (body len b)) ->
  msg_good ('(_, b0) <- pull_handshake_type kind bs ;; pull_block 3 body b0) /\
  (forall t, bs = kind :: t -> 0 <= kind < 256 ->
     tls_good ('(_, b0) <- pull_handshake_type kind bs ;; pull_block 3 body b0)).
Proof.
  intros H. split.
  - unfold pull_handshake_type, pull_uint8.
    pose proof (@good_be 1 bs) as G. destruct (pull_be 1 bs) as [[t r]|k]; cbn [bind tls_good] in *; [|cbn; auto].
    destruct (t =? kind); cbn [bind]; [|cbn; auto].
    pose proof (good_block 3 body r H) as G'. destruct (pull_block 3 body r); cbn in *; auto.
  - intros t -> Hk. unfold pull_handshake_type, pull_uint8, pull_be.
    rewrite Zlen_cons. pose proof (Zlen_nonneg t).
    destruct (1 + Zlen t <? Z.of_nat 1) eqn:E; [lia|]. cbn [firstn skipn be_dec bind].
    replace (0 * 256 + kind =? kind) with true by lia. cbn [bind].
    apply good_block. exact H.
Qed.

Ltac frame := apply msg_frame; intros len b.

Theorem client_hello_pull_total bs :
  msg_good (pull_client_hello bs) /\ (forall t, bs = 1 :: t -> tls_good (pull_client_hello bs)).
Proof.
  assert (H : forall (len : Z) (b : list Z), tls_good (
      '(pre, b1) <- hello_prefix b ;; '(cs, b2) <- list_toks 2 (item_uint 2) b1 ;;
      '(cm, b3) <- list_toks 1 (item_uint 1) b2 ;; '(st, b4) <- pull_extensions parse_client_hello_ext true b3 ;;
      Ok (pre ++ cs ++ cm ++ out_est CH_ORDER st, b4))).
  { intros _ b. gb; [apply good_hello_prefix|]. gb; [apply good_list_toks; intros; apply good_item_uint|].
    gb; [apply good_list_toks; intros; apply good_item_uint|].
    gb; [apply good_extensions, parse_good_ch|exact I]. }
  destruct (msg_frame 1 _ bs H) as [G1 G2]. split; [exact G1|]. intros t Ht. apply (G2 t Ht). lia.
Qed.

Theorem server_hello_pull_total bs :
  msg_good (pull_server_hello bs) /\ (forall t, bs = 2 :: t -> tls_good (pull_server_hello bs)).
Proof.
  assert (H : forall (len : Z) (b : list Z), tls_good (
      '(pre, b1) <- hello_prefix b ;; '(cs, b2) <- pull_uint16 b1 ;; '(cm, b3) <- pull_uint8 b2 ;;
      '(st, b4) <- pull_extensions parse_server_hello_ext false b3 ;;
      Ok (pre ++ [cs; cm] ++ out_est SH_ORDER st, b4))).
  { intros _ b. gb; [apply good_hello_prefix|]. gb; [apply good_be|]. gb; [apply good_be|].
    gb; [apply good_extensions, parse_good_sh|exact I]. }
  destruct (msg_frame 2 _ bs H) as [G1 G2]. split; [exact G1|]. intros t Ht. apply (G2 t Ht). lia.
Qed.

Theorem new_session_ticket_pull_total bs :
  msg_good (pull_new_session_ticket bs) /\ (forall t, bs = 4 :: t -> tls_good (pull_new_session_ticket bs)).
Proof.
  assert (H : forall (len : Z) (b : list Z), tls_good (
      '(lt, b1) <- pull_uint32 b ;; '(aa, b2) <- pull_uint32 b1 ;; '(nonce, b3) <- pull_opaque 1 b2 ;;
      '(ticket, b4) <- pull_opaque 2 b3 ;; '(st, b5) <- pull_extensions parse_nst_ext false b4 ;;
      Ok ([lt; aa] ++ out_bytes nonce ++ out_bytes ticket ++ out_est NST_ORDER st, b5))).
  { intros _ b. gb; [apply good_be|]. gb; [apply good_be|]. gb; [apply good_opaque|]. gb; [apply good_opaque|].
    gb; [apply good_extensions, parse_good_nst|exact I]. }
  destruct (msg_frame 4 _ bs H) as [G1 G2]. split; [exact G1|]. intros t Ht. apply (G2 t Ht). lia.
Qed.

Theorem encrypted_extensions_pull_total bs :
  msg_good (pull_encrypted_extensions bs) /\ (forall t, bs = 8 :: t -> tls_good (pull_encrypted_extensions bs)).
Proof.
  assert (H : forall (len : Z) (b : list Z), tls_good (
      '(st, b1) <- pull_extensions parse_ee_ext false b ;; Ok (out_est EE_ORDER st, b1))).
  { intros _ b. gb; [apply good_extensions, parse_good_ee|exact I]. }
  destruct (msg_frame 8 _ bs H) as [G1 G2]. split; [exact G1|]. intros t Ht. apply (G2 t Ht). lia.
Qed.

Theorem certificate_pull_total bs :
  msg_good (pull_certificate bs) /\ (forall t, bs = 11 :: t -> tls_good (pull_certificate bs)).
Proof.
  assert (H : forall (len : Z) (b : list Z), tls_good (
      '(ctx, b1) <- pull_opaque 1 b ;; '(certs, b2) <- list_toks 3 item_certificate_entry b1 ;;
      Ok (out_bytes ctx ++ certs, b2))).
  { intros _ b. gb; [apply good_opaque|]. gb; [apply good_list_toks; intros; apply good_item_certificate_entry|exact I]. }
  destruct (msg_frame 11 _ bs H) as [G1 G2]. split; [exact G1|]. intros t Ht. apply (G2 t Ht). lia.
Qed.

Theorem certificate_request_pull_total bs :
  msg_good (pull_certificate_request bs) /\ (forall t, bs = 13 :: t -> tls_good (pull_certificate_request bs)).
Proof.
  assert (H : forall (len : Z) (b : list Z), tls_good (
      '(ctx, b1) <- pull_opaque 1 b ;; '(st, b2) <- pull_extensions parse_cr_ext false b1 ;;
      Ok (out_bytes ctx ++ out_est CR_ORDER st, b2))).
  { intros _ b. gb; [apply good_opaque|]. gb; [apply good_extensions, parse_good_cr|exact I]. }
  destruct (msg_frame 13 _ bs H) as [G1 G2]. split; [exact G1|]. intros t Ht. apply (G2 t Ht). lia.
Qed.

Theorem certificate_verify_pull_total bs :
  msg_good (pull_certificate_verify bs) /\ (forall t, bs = 15 :: t -> tls_good (pull_certificate_verify bs)).
Proof.
  assert (H : forall (len : Z) (b : list Z), tls_good (
      '(alg, b1) <- pull_uint16 b ;; '(sig, b2) <- pull_opaque 2 b1 ;; Ok (alg :: out_bytes sig, b2))).
  { intros _ b. gb; [apply good_be|]. gb; [apply good_opaque|exact I]. }
  destruct (msg_frame 15 _ bs H) as [G1 G2]. split; [exact G1|]. intros t Ht. apply (G2 t Ht). lia.
Qed.

Theorem finished_pull_total bs :
  msg_good (pull_finished bs) /\ (forall t, bs = 20 :: t -> tls_good (pull_finished bs)).
Proof.
  assert (H : forall (len : Z) (b : list Z), tls_good ('(d, r) <- pull_bytes len b ;; Ok (out_bytes d, r))).
  { intros len b. gb; [apply good_bytes|exact I]. }
  assert (E : pull_finished bs =
              ('(_, b0) <- pull_handshake_type 20 bs ;; pull_block 3 (fun len b => '(d, r) <- pull_bytes len b ;; Ok (out_bytes d, r)) b0)).
  { unfold pull_finished, pull_opaque, pull_block.
    destruct (pull_handshake_type 20 bs) as [[u b0]|k]; cbn [bind]; [|reflexivity].
    destruct (pull_be 3 b0) as [[len b1]|k]; cbn [bind]; [|reflexivity].
    destruct (pull_bytes len b1) as [[d b2]|k]; cbn [bind]; [|reflexivity].
    destruct (Zlen b1 - Zlen b2 =? len); reflexivity. }
  rewrite E. destruct (msg_frame 20 _ bs H) as [G1 G2]. split; [exact G1|]. intros t Ht. apply (G2 t Ht). lia.
Qed.

(* the alerts are reachable: witnesses *)
Example tls_errors_reachable :
  pull_server_hello [2] = Err E_READ /\
  pull_server_hello ([2; 0; 0; 2; 3; 4]) = Err E_ALERT_DECODE /\
  pull_client_hello ([1; 0; 0; 49; 3; 3] ++ repeat 0 32 ++ [0; 0; 0; 0; 0; 9; 0; 0; 0; 5; 0; 3; 1; 0; 0]) = Err E_ALERT_ILLEGAL /\
  pull_server_hello [1] = Err E_ASSERT.
Proof. repeat split; vm_compute; reflexivity. Qed.

(* ================= pull_ack_ranges: fuel independence ============================================== *)
Lemma pull_uint_var_shrinks bs v r : pull_uint_var bs = Ok (v, r) -> (length r < length bs)%nat.
Proof.
  unfold pull_uint_var. destruct bs as [|b0 t]; [discriminate|].
  destruct (Zlen (b0 :: t) <? Z.of_nat (var_len b0)) eqn:E; [discriminate|].
  intros H. injection H as _ <-. rewrite skipn_length. unfold Zlen in E.
  destruct (var_len_cases b0) as [C|[C|[C|C]]]; rewrite C in *; cbn [length] in *; lia.
Qed.

Lemma pull_ack_ranges_fuel_eq : forall f1 f2 count end_ acc bs,
  (length bs <= f1)%nat -> (length bs <= f2)%nat ->
  pull_ack_ranges f1 count end_ acc bs = pull_ack_ranges f2 count end_ acc bs.
Proof.
  induction f1 as [|f1 IH]; intros [|f2] count end_ acc bs L1 L2; cbn [pull_ack_ranges];
    destruct (count <=? 0); try reflexivity.
  - destruct bs; [reflexivity|cbn [length] in L1; lia].
  - destruct bs; [reflexivity|cbn [length] in L2; lia].
  - destruct (pull_uint_var bs) as [[gap b1]|k] eqn:E1; cbn [bind]; [|reflexivity].
    destruct (pull_uint_var b1) as [[cnt b2]|k] eqn:E2; cbn [bind]; [|reflexivity].
    destruct (rs_add_checked (end_ - (gap + 2) - cnt) (end_ - (gap + 2) + 1) acc) as [acc'|k]; cbn [bind]; [|reflexivity].
    apply pull_uint_var_shrinks in E1. apply pull_uint_var_shrinks in E2. apply IH; lia.
Qed.

(* the fuel pull_ack_frame uses (the number of bytes left) can be replaced by any larger one; half of
   it already suffices since every range consumes at least two bytes *)
Theorem pull_ack_ranges_fuel fuel count end_ acc bs : (length bs <= fuel)%nat ->
  pull_ack_ranges fuel count end_ acc bs = pull_ack_ranges (length bs) count end_ acc bs.
Proof. intros L. apply pull_ack_ranges_fuel_eq; auto. Qed.

(* ================= F13 in general: the declared extension_length of a KNOWN extension is never used ======== *)
Definition len_blind (parse : Z -> Z -> list Z -> option (Res (list Z * list Z))) : Prop :=
  forall ty len len' b, parse ty len b = parse ty len' b.

Lemma parsers_len_blind :
  len_blind parse_client_hello_ext /\ len_blind parse_server_hello_ext /\ len_blind parse_nst_ext /\
  len_blind parse_ee_ext /\ len_blind parse_cr_ext.
Proof. repeat split; intros ty len len' b; reflexivity. Qed.

(* for every message, every known extension type and every two declared lengths: the extension item
   decodes identically -- the body is delimited by its own structure only (the outer extensions
   block is the only length that is checked) *)
Theorem ext_length_ignored_general parse ch st ty len len' b :
  len_blind parse -> parse ty len b <> None ->
  0 <= ty < 65536 -> 0 <= len < 65536 -> 0 <= len' < 65536 ->
  ext_item parse ch st (be_enc 2 ty ++ be_enc 2 len ++ b) =
  ext_item parse ch st (be_enc 2 ty ++ be_enc 2 len' ++ b).
Proof.
  intros B K Hty Hl Hl'. unfold ext_item, pull_uint16.
  destruct (ch && e_psk st); [reflexivity|].
  rewrite !pull_be_roundtrip by (change (256 ^ Z.of_nat 2) with 65536; lia). cbn [bind].
  rewrite !pull_be_roundtrip by (change (256 ^ Z.of_nat 2) with 65536; lia). cbn [bind].
  rewrite (B ty len' len b). destruct (parse ty len b) as [r|]; [reflexivity|contradiction].
Qed.
