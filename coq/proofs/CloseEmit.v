(* C16: after the HTTP layer closed the connection, the closing round of datagrams_to_send emits its packet,
   whatever the reason phrase (model/CloseFrame.v over C13's QuicPacketBuilder model). *)
From AQ Require Import lib.Base lib.Tok gen.C13Consts gen.C16Close model.Builder model.CloseFrame proofs.BuilderProofs.
From Coq Require Import ZifyBool.

(* the builder created by the closing round: no flight / total budget is set in that branch of datagrams_to_send;
   connection ids are at most 20 bytes; the CryptoPair can encrypt a full datagram (crypto_fits, C13) *)
Definition close_cfg_ok (c : cfg) : Prop :=
  1200 <= c_mds c < 4611686018427387904 /\ 0 <= c_peer c <= 20 /\ 0 <= c_host c <= 20 /\ 0 <= c_token c /\
  c_max_flight c = None /\ c_max_total c = None /\ crypto_fits c.

Definition widths_ok (r : list Z) : Prop := Forall (fun w => 1 <= w <= 4) r.

Lemma zsum_nonneg : forall r, widths_ok r -> 0 <= zsum r.
Proof. induction 1; cbn [zsum fold_right]; [lia|]. unfold zsum in *. lia. Qed.

Lemma utf8_prefix_bound : forall r room, widths_ok r -> 0 <= utf8_prefix r room <= Z.max 0 room.
Proof.
  induction r as [|w t IH]; intros room H; cbn [utf8_prefix]; [lia|].
  inversion H; subst. specialize (IH (room - w) H3).
  destruct (w <=? room) eqn:E; lia.
Qed.

Lemma size_uint_var_some : forall v, 0 <= v < 4611686018427387904 -> exists n, size_uint_var v = Some n /\ 1 <= n <= 8.
Proof.
  intros v H. unfold size_uint_var.
  destruct (v <? 64); [exists 1; split; [reflexivity|lia]|].
  destruct (v <? 16384); [exists 2; split; [reflexivity|lia]|].
  destruct (v <? 1073741824); [exists 4; split; [reflexivity|lia]|].
  replace (v <? 4611686018427387904) with true by lia. exists 8; split; [reflexivity|lia].
Qed.

Ltac bsimpl :=
  cbv beta iota zeta delta
      [b_cur b_bcap b_tell b_dginit b_total b_flight b_dgflight b_dgpad b_hascrypto b_pn b_dgrams b_pkts g_hasinit g_log b_fcap
       p_start p_hdr p_type p_inflight p_ackel p_crypto p_pn set_tell set_cur set_dgpad].

Section OneRtt.
Variable c : cfg.
Variable pn : Z.
Hypothesis Hok : close_cfg_ok c.

Let h := SHORT_HEADER_FIXED + c_peer c.

(* the builder inside its first (1-RTT) packet, write position T *)
Definition in_pkt (T : Z) : st :=
  mkSt T (c_mds c) (c_mds c) 0 false false 0 0 (Some (mkPkt PT_ONE_RTT 0 h false false false pn)) true pn [] [] false [].

Ltac cond_true b := replace b with true by lia.
Ltac cond_false b := replace b with false by lia.

Lemma start_1rtt : start_packet c (init_st c pn) PT_ONE_RTT = (ODone, in_pkt h).
Proof.
  destruct Hok as (Hm & Hp & Hh & Ht & Hf & Htot & Hc).
  unfold start_packet, init_st, end_current, datagram_init, header_size, valid_ptype, in_pkt, h.
  bsimpl.
  rewrite Hf, Htot. bsimpl.
  unfold PT_ONE_RTT, PT_INITIAL, PT_HANDSHAKE, PT_ZERO_RTT, DATAGRAM_MIN_SPACE, SHORT_HEADER_FIXED in *.
  cbn [Z.eqb Pos.eqb orb negb].
  cond_false (c_mds c - 0 <? 128). cond_false (0 + (3 + c_peer c) >=? c_mds c).
  reflexivity.
Qed.

Lemma frame_1rtt : forall ft cap, (ft = FT_APPLICATION_CLOSE \/ ft = FT_TRANSPORT_CLOSE) ->
  2 <= cap <= c_mds c - h - AEAD_TAG_SIZE ->
  start_frame c (in_pkt h) ft cap = (ODone, in_pkt (h + 1)).
Proof.
  destruct Hok as (Hm & Hp & Hh & Ht & Hf & Htot & Hc). intros ft cap Hft Hcap.
  unfold start_frame, in_pkt, remaining_buffer_space, remaining_flight_space, set_tell, set_cur.
  bsimpl.
  unfold AEAD_TAG_SIZE, START_FRAME_EMPTY_RESERVE in *.
  cond_true (h - 0 <=? h). cond_false (cap <? 2). cond_false (c_mds c - h - 16 <? cap). cbn [orb].
  destruct Hft as [-> | ->].
  - change (zmem FT_APPLICATION_CLOSE NON_IN_FLIGHT) with true. change (zmem FT_APPLICATION_CLOSE NON_ACK_ELICITING) with true.
    change (size_uint_var (FT_APPLICATION_CLOSE mod 18446744073709551616)) with (Some 1).
    change (FT_APPLICATION_CLOSE =? FT_CRYPTO) with false. cbn [negb andb orb].
    cond_false (h + 1 >? c_mds c). reflexivity.
  - change (zmem FT_TRANSPORT_CLOSE NON_IN_FLIGHT) with true. change (zmem FT_TRANSPORT_CLOSE NON_ACK_ELICITING) with true.
    change (size_uint_var (FT_TRANSPORT_CLOSE mod 18446744073709551616)) with (Some 1).
    change (FT_TRANSPORT_CLOSE =? FT_CRYPTO) with false. cbn [negb andb orb].
    cond_false (h + 1 >? c_mds c). reflexivity.
Qed.

Lemma push_1rtt : forall T n, 0 <= n -> T + n <= c_mds c -> push c (in_pkt T) n = (ODone, in_pkt (T + n)).
Proof.
  intros T n H0 H1. unfold push, in_pkt, set_tell.
  bsimpl.
  cond_false (n <? 0). cond_false (T + n >? c_mds c). reflexivity.
Qed.

Lemma push_var_1rtt : forall T v, 0 <= v < 4611686018427387904 -> T + 8 <= c_mds c ->
  exists n, 1 <= n <= 8 /\ size_uint_var v = Some n /\ push_var c (in_pkt T) v = (ODone, in_pkt (T + n)).
Proof.
  intros T v Hv HT. destruct (size_uint_var_some v Hv) as (n & E & Hn). exists n. repeat split; try lia; [assumption|].
  unfold push_var. rewrite E. apply push_1rtt; lia.
Qed.

Lemma flush_1rtt : forall T, h + 3 <= T -> T + AEAD_TAG_SIZE <= c_mds c ->
  exists s', flush c (in_pkt T) = (ODone, s', [T + AEAD_TAG_SIZE], [(PT_ONE_RTT, T + AEAD_TAG_SIZE, false, false, false, pn)]).
Proof.
  destruct Hok as (Hm & Hp & Hh & Ht & Hf & Htot & Hc). intros T H1 H2.
  assert (Hh3 : 3 <= h) by (unfold h, SHORT_HEADER_FIXED; lia).
  unfold flush, end_current, in_pkt.
  cbn [b_cur].
  unfold end_packet.
  bsimpl.
  unfold AEAD_TAG_SIZE, PACKET_NUMBER_MAX_SIZE, PACKET_NUMBER_SEND_SIZE, PT_ONE_RTT, PT_INITIAL in *.
  cond_true (T - 0 >? h). cbn [Z.eqb Pos.eqb andb orb].
  rewrite ?andb_false_r. cbn [andb orb].
  unfold set_dgpad, set_cur, set_tell.
  bsimpl.
  cond_false (4 - 2 + h - (T - 0) >? 0). cbn [andb].
  assert (Hcm : match c_cmax c with Some m => T - 0 + 16 >? m | None => false end = false).
  { unfold crypto_fits in Hc. destruct (c_cmax c); [lia|reflexivity]. }
  rewrite Hcm.
  cond_false (0 + (T - 0 + 16) >? c_mds c).
  unfold flush_current.
  bsimpl.
  cond_false (0 + (T - 0 + 16) =? 0). cbn [Z.gtb Z.compare].
  replace (0 + (T - 0 + 16) + 0) with (T + 16) by lia. replace (0 + (T - 0 + 16)) with (T + 16) by lia.
  cond_false (T + 16 >? c_mds c).
  bsimpl.
  replace (T - 0 + 16) with (T + 16) by lia.
  eexists. reflexivity.
Qed.

(* the shortened reason: never longer than what fits behind a TRANSPORT_CLOSE header in the packet *)
Definition short_len (reason : list Z) : Z :=
  let room := Z.max 0 (c_mds c - h - AEAD_TAG_SIZE - TRANSPORT_CLOSE_FRAME_CAPACITY) in
  if zsum reason >? room then utf8_prefix reason room else zsum reason.

Lemma short_len_bound : forall reason, widths_ok reason ->
  0 <= short_len reason <= c_mds c - h - AEAD_TAG_SIZE - TRANSPORT_CLOSE_FRAME_CAPACITY.
Proof.
  destruct Hok as (Hm & Hp & Hh & Ht & Hf & Htot & Hc). intros reason Hw. unfold short_len. cbv zeta.
  pose proof (zsum_nonneg _ Hw). pose proof (utf8_prefix_bound reason
     (Z.max 0 (c_mds c - h - AEAD_TAG_SIZE - TRANSPORT_CLOSE_FRAME_CAPACITY)) Hw).
  unfold h, AEAD_TAG_SIZE, TRANSPORT_CLOSE_FRAME_CAPACITY, SHORT_HEADER_FIXED in *.
  destruct (zsum reason >? _) eqn:E; lia.
Qed.

(* CLOSE FRAME EMITTABLE (1-RTT keys only = the handshake is confirmed): for EVERY error code below 2^62, EVERY reason
   phrase (any number of characters of any UTF-8 width) and both frame kinds, the round returns normally with exactly
   one datagram holding one 1-RTT packet; its length is header + frame + tag, the frame carrying the reason shortened
   to short_len; it never exceeds max_datagram_size. *)
Theorem close_1rtt : forall code ftype reason,
  0 <= code < 4611686018427387904 ->
  match ftype with Some ft => 0 <= ft < 4611686018427387904 | None => True end ->
  widths_ok reason ->
  exists n1 n2 n3, 1 <= n1 <= 8 /\ 1 <= n2 <= 8 /\ 0 <= n3 <= 8 /\
    let len := h + 1 + n1 + n2 + n3 + short_len reason + AEAD_TAG_SIZE in
    close_round c pn [PT_ONE_RTT] code ftype reason = (ODone, [len], [(PT_ONE_RTT, len, false, false, false, pn)]) /\
    len <= c_mds c.
Proof.
  intros code ftype reason Hcode Hft Hw.
  pose proof (short_len_bound reason Hw) as Hs.
  destruct Hok as (Hm & Hp & Hh & Ht & Hf & Htot & Hc).
  unfold close_round, close_packets, close_packet. rewrite start_1rtt. cbn [seq].
  unfold write_close.
  change ((PT_ONE_RTT =? PT_INITIAL) || (PT_ONE_RTT =? PT_HANDSHAKE)) with false. cbv zeta.
  assert (Hconv : match ftype with Some _ => false | None => false end = false) by (destruct ftype; reflexivity).
  rewrite Hconv.
  assert (Hrem : remaining_buffer_space (in_pkt h) = c_mds c - h - AEAD_TAG_SIZE) by reflexivity.
  rewrite Hrem. fold (short_len reason). set (rl := short_len reason) in *.
  assert (Hh3 : 3 <= h <= 23) by (unfold h, SHORT_HEADER_FIXED; lia).
  unfold AEAD_TAG_SIZE, TRANSPORT_CLOSE_FRAME_CAPACITY, APPLICATION_CLOSE_FRAME_CAPACITY in *.
  destruct ftype as [ft|].
  - rewrite (frame_1rtt FT_TRANSPORT_CLOSE) by (unfold AEAD_TAG_SIZE; auto; lia).
    cbn [seq].
    destruct (push_var_1rtt (h + 1) code Hcode) as (n1 & B1 & _ & E1); [lia|]. rewrite E1. cbn [seq].
    destruct (push_var_1rtt (h + 1 + n1) ft Hft) as (n3 & B3 & _ & E3); [lia|]. rewrite E3. cbn [seq].
    destruct (push_var_1rtt (h + 1 + n1 + n3) rl) as (n2 & B2 & _ & E2); [lia | lia|]. rewrite E2. cbn [seq].
    rewrite push_1rtt by lia.
    destruct (flush_1rtt (h + 1 + n1 + n3 + n2 + rl)) as (s' & EF); [lia | unfold AEAD_TAG_SIZE; lia |].
    cbv beta iota delta [seq]. rewrite EF. exists n1, n2, n3. repeat split; try lia.
    + cbv zeta. unfold AEAD_TAG_SIZE.
      replace (h + 1 + n1 + n3 + n2 + rl + 16) with (h + 1 + n1 + n2 + n3 + rl + 16) by lia. reflexivity.
  - rewrite (frame_1rtt FT_APPLICATION_CLOSE) by (unfold AEAD_TAG_SIZE; auto; lia).
    cbn [seq].
    destruct (push_var_1rtt (h + 1) code Hcode) as (n1 & B1 & _ & E1); [lia|]. rewrite E1. cbn [seq].
    destruct (push_var_1rtt (h + 1 + n1) rl) as (n2 & B2 & _ & E2); [lia | lia|]. rewrite E2. cbn [seq].
    rewrite push_1rtt by lia.
    destruct (flush_1rtt (h + 1 + n1 + n2 + rl)) as (s' & EF); [lia | unfold AEAD_TAG_SIZE; lia |].
    cbv beta iota delta [seq]. rewrite EF. exists n1, n2, 0. repeat split; try lia.
    + cbv zeta. unfold AEAD_TAG_SIZE.
      replace (h + 1 + n1 + n2 + 0 + rl + 16) with (h + 1 + n1 + n2 + rl + 16) by lia. reflexivity.
Qed.

End OneRtt.

(* every error code of the HTTP/3 layer (ProtocolError subclasses, generated from the source) can be written as a varint *)
Lemma h3_codes_varint : Forall (fun k => 0 <= k < 4611686018427387904) H3_CLOSE_CODES.
Proof. unfold H3_CLOSE_CODES. repeat (apply Forall_cons; [lia|]). apply Forall_nil. Qed.

Lemma h3_sites_codes : Forall (fun s => In (fst (fst s)) H3_CLOSE_CODES) H3_CLOSE_SITES.
Proof. apply Forall_forall. intros s H. repeat (destruct H as [<- | H]; [vm_compute; tauto|]). destruct H. Qed.

Example close_cfg_example : close_cfg_ok (mkCfg false 1200 8 8 0 None None (Some 1500)).
Proof.
  unfold close_cfg_ok, crypto_fits. cbn [c_mds c_peer c_host c_token c_max_flight c_max_total c_cmax].
  repeat split; try reflexivity; lia.
Qed.
