(* C20  Premise (1) of erasure_noninterference, "do not raise" part, for the QuicLoggerTrace callees: every callee
   `FLogger m` that the skeleton checker accepts in Log code (fn_log_ok checked_methods) is one of the generated
   method bodies of gen/LogEncoders.v, for which encoders_total_all holds. *)
From Coq Require Import String.
From AQ Require Import lib.Base model.LogErase gen.LogSkeleton proofs.LogSkeletonP
  model.LogVal proofs.LogValP gen.LogEncoders proofs.LogEncodersP.
Open Scope string_scope.

(* the skeleton lists module functions of logger.py as "<module>.name" *)
Definition same_method (callee : string) (m : meth) : bool :=
  String.eqb (m_name m) callee || String.eqb ("<module>." ++ m_name m) callee.

Definition covered (callee : string) : bool := existsb (same_method callee) enc_methods.

Lemma checked_methods_covered : forallb covered checked_methods = true.
Proof. vm_compute. reflexivity. Qed.

Lemma flogger_callees_total_l : forall m, fn_log_ok checked_methods (FLogger m) = true ->
  exists me, In me enc_methods /\ same_method m me = true /\
    forall vs, Forall2 (fun t v => vty enc_tabs t v = true) (map snd (m_params me)) vs ->
      exists v, call enc_tabs me vs = Ok v /\ is_json v = true.
Proof.
  intros m H. unfold fn_log_ok in H. apply existsb_exists in H. destruct H as (x & Hx & E).
  apply String.eqb_eq in E. subst x.
  pose proof checked_methods_covered as C. rewrite forallb_forall in C. specialize (C m Hx).
  unfold covered in C. apply existsb_exists in C. destruct C as (me & Hin & Hs).
  exists me. split; [exact Hin|]. split; [exact Hs|].
  intros vs Hv. apply (encoders_total_all_l me Hin vs Hv).
Qed.
