(* C11, connection level: what the C10 receiver (model/StreamRecv.v) hands to TLS when the frames it is given all carry
   bytes of ONE byte string B (any cutting, order, overlap, repetition): always a prefix of B, and all of B once every
   offset has been covered.  Proved on the offset -> byte map of model/StreamSpec.v; proofs/StreamRecvP.v
   (frame_refines, the C10 refinement) carries it over to handle_frame. *)
From Coq Require Import ZArith List Bool Lia ZifyBool.
From AQ Require Import lib.Base model.RangeSet model.StreamRecv model.StreamSpec proofs.ListZ.

(* frame (off, d) carries the bytes of B (placed at stream offset base) for its offsets *)
Definition slice_of (B : list Z) (base off : Z) (d : list Z) : Prop :=
  base <= off /\ off + Zlen d <= base + Zlen B /\ d = ztake (Zlen d) (zdrop (off - base) B).

Lemma run_spec : forall m fuel o,
  (forall i, 0 <= i < Zlen (run m o fuel) -> m (o + i) = Some (nthZ (run m o fuel) i)) /\
  Zlen (run m o fuel) <= Z.of_nat fuel /\
  (Zlen (run m o fuel) < Z.of_nat fuel -> m (o + Zlen (run m o fuel)) = None).
Proof.
  intros m fuel. induction fuel as [|f IH]; intros o.
  - cbn. split; [intros i Hi; unfold Zlen in Hi; cbn in Hi; lia|]. split; [unfold Zlen; cbn; lia|intros H; unfold Zlen in H; cbn in H; lia].
  - cbn [run]. destruct (m o) as [b|] eqn:E.
    + destruct (IH (o + 1)) as (A & B & C). set (l := run m (o + 1) f) in *.
      assert (L : Zlen (b :: l) = Zlen l + 1) by (unfold Zlen; cbn [length]; lia).
      split; [|split].
      * intros i Hi. destruct (Z.eq_dec i 0) as [->|N].
        { rewrite Z.add_0_r. rewrite E. reflexivity. }
        replace (o + i) with (o + 1 + (i - 1)) by lia. rewrite A by lia.
        unfold nthZ. replace (Z.to_nat i) with (S (Z.to_nat (i - 1))) by lia. reflexivity.
      * lia.
      * intros H. rewrite L. replace (o + (Zlen l + 1)) with (o + 1 + Zlen l) by lia. apply C. lia.
    + split; [intros i Hi; unfold Zlen in Hi; cbn in Hi; lia|]. split; [unfold Zlen; cbn; lia|].
      intros _. unfold Zlen. cbn. rewrite Z.add_0_r. exact E.
Qed.

Record SP (B : list Z) (base : Z) (seen : Z -> Prop) (sp : rspec) (acc : list Z) : Prop := {
  sp_nofin : sp_final sp = None;
  sp_range : base <= sp_del sp <= base + Zlen B;
  sp_le_hi : sp_del sp <= sp_hi sp;
  sp_acc : acc = ztake (sp_del sp - base) B;
  sp_vals : forall o v, sp_del sp <= o -> sp_map sp o = Some v ->
              o < sp_hi sp /\ o < base + Zlen B /\ v = nthZ B (o - base);
  sp_gap : sp_map sp (sp_del sp) = None;
  sp_seen : forall o, seen o -> o < sp_del sp \/ sp_map sp o <> None
}.

Lemma sp_init : forall B base, SP B base (fun _ => False) (mkRSpec (fun _ => None) base None base false) [].
Proof.
  intros B base. constructor; cbn; try reflexivity; try lia; try discriminate.
  all: try (pose proof (Zlen_nonneg B); lia); try (rewrite Z.sub_diag; reflexivity); try (intros o []).
Qed.

Lemma nthZ_slice : forall B k n i, 0 <= k -> 0 <= i < n -> nthZ (ztake n (zdrop k B)) i = nthZ B (i + k).
Proof. intros. rewrite nthZ_ztake by lia. apply nthZ_zdrop; lia. Qed.

Lemma sp_step : forall B base seen sp acc off d,
  SP B base seen sp acc -> slice_of B base off d ->
  let '(o, sp') := spec_frame sp off d false in
  SP B base (fun x => seen x \/ off <= x < off + Zlen d) sp' (acc ++ bytes_of o) /\
  (o = RNone \/ exists dd, o = RData dd false /\ dd <> []).
Proof.
  intros B base seen sp acc off d S (Hb & He & Hd).
  pose proof (sp_nofin _ _ _ _ _ S) as NF. pose proof (sp_range _ _ _ _ _ S) as RG. pose proof (sp_le_hi _ _ _ _ _ S) as LH.
  pose proof (sp_vals _ _ _ _ _ S) as VL. pose proof (sp_gap _ _ _ _ _ S) as GP. pose proof (sp_seen _ _ _ _ _ S) as SN.
  pose proof (sp_acc _ _ _ _ _ S) as AC.
  unfold spec_frame. rewrite NF. cbn [andb].
  set (e := off + Zlen d). set (del := sp_del sp) in *.
  set (hi' := if e >? sp_hi sp then e else sp_hi sp).
  set (m' := fun o => if (off <=? o) && (o <? e) && (del <=? o) then Some (nthZ d (o - off)) else sp_map sp o).
  assert (Hhi : sp_hi sp <= hi' /\ e <= hi') by (unfold hi'; destruct (e >? sp_hi sp) eqn:X; lia).
  assert (VL' : forall o v, del <= o -> m' o = Some v -> o < hi' /\ o < base + Zlen B /\ v = nthZ B (o - base)).
  { intros o v Ho Hm. unfold m' in Hm. destruct ((off <=? o) && (o <? e) && (del <=? o)) eqn:C.
    - inversion Hm; subst v. assert (off <= o < e) by lia. split; [lia|]. split; [unfold e in *; lia|].
      replace (nthZ d (o - off)) with (nthZ (ztake (Zlen d) (zdrop (off - base) B)) (o - off)) by (rewrite <- Hd; reflexivity).
      rewrite nthZ_slice by (unfold e in *; lia). f_equal. lia.
    - destruct (VL o v Ho Hm) as (A1 & A2 & A3). split; [lia|split; assumption]. }
  set (fuel := Z.to_nat (hi' - del)).
  destruct (run_spec m' fuel del) as (R1 & R2 & R3). set (l := run m' del fuel) in *.
  assert (Hfuel : Z.of_nat fuel = hi' - del) by (unfold fuel; lia).
  assert (GP' : m' (del + Zlen l) = None).
  { destruct (Z.lt_ge_cases (Zlen l) (Z.of_nat fuel)) as [X|X]; [apply R3, X|].
    assert (Zlen l = hi' - del) by lia. destruct (m' (del + Zlen l)) as [v|] eqn:Y; [|reflexivity].
    pose proof (Zlen_nonneg l). destruct (VL' (del + Zlen l) v ltac:(lia) Y) as (A1 & _). lia. }
  assert (Hl : forall i, 0 <= i < Zlen l -> del + i < base + Zlen B /\ nthZ l i = nthZ B (del + i - base)).
  { intros i Hi. pose proof (R1 i Hi) as X. destruct (VL' (del + i) _ ltac:(lia) X) as (_ & A2 & A3). split; assumption. }
  assert (RG' : del + Zlen l <= base + Zlen B).
  { pose proof (Zlen_nonneg l). destruct (Z.eq_dec (Zlen l) 0) as [Z0|NZ]; [lia|].
    destruct (Hl (Zlen l - 1) ltac:(lia)) as (A & _). lia. }
  assert (ACl : Zlen acc = del - base) by (rewrite AC, Zlen_ztake; fold del; lia).
  pose proof (Zlen_nonneg l) as Ln.
  assert (Out : bytes_of (match l with [] => RNone | _ :: _ => RData l (opt_eqb None (del + Zlen l)) end) = l)
    by (destruct l; reflexivity).
  assert (Shape : (match l with [] => RNone | _ :: _ => RData l (opt_eqb None (del + Zlen l)) end) = RNone \/
                  exists dd, (match l with [] => RNone | _ :: _ => RData l (opt_eqb None (del + Zlen l)) end) = RData dd false /\ dd <> []).
  { destruct l as [|a l0]; [left; reflexivity|right]. exists (a :: l0). split; [reflexivity|discriminate]. }
  assert (SPn : SP B base (fun x => seen x \/ off <= x < off + Zlen d)
                  (mkRSpec m' (del + Zlen l) None hi' (sp_reset sp)) (acc ++ l)).
  { constructor; cbn [sp_final sp_del sp_hi sp_map].
    - reflexivity.
    - lia.
    - lia.
    - apply nthZ_ext.
      + rewrite Zlen_app, Zlen_ztake, ACl. lia.
      + intros i Hi. rewrite Zlen_app, ACl in Hi.
        rewrite (nthZ_ztake B (del + Zlen l - base) i) by lia.
        destruct (Z.lt_ge_cases i (del - base)) as [X|X].
        * rewrite nthZ_app_l by lia. rewrite AC. fold del. rewrite nthZ_ztake by lia. reflexivity.
        * rewrite nthZ_app_r by lia. rewrite ACl. destruct (Hl (i - (del - base)) ltac:(lia)) as (_ & A). rewrite A. f_equal. lia.
    - intros o v Ho Hm. apply VL'; [lia|exact Hm].
    - exact GP'.
    - intros o [Hs|Hs].
      + destruct (SN o Hs) as [X|X]; [left; fold del in X; lia|].
        destruct (Z.lt_ge_cases o (del + Zlen l)) as [Y|Y]; [left; exact Y|right].
        unfold m'. destruct ((off <=? o) && (o <? e) && (del <=? o)); [discriminate|exact X].
      + destruct (Z.lt_ge_cases o (del + Zlen l)) as [Y|Y]; [left; exact Y|right].
        unfold m'. replace ((off <=? o) && (o <? e) && (del <=? o)) with true by (unfold e; lia). discriminate. }
  fold fuel. fold l.
  replace (match l with [] => match opt_eqb None (del + Zlen l) with | true => RData l (opt_eqb None (del + Zlen l)) | false => RNone end
           | _ :: _ => RData l (opt_eqb None (del + Zlen l)) end)
    with (match l with [] => RNone | _ :: _ => RData l (opt_eqb None (del + Zlen l)) end) by (destruct l; reflexivity).
  rewrite Out. split; [exact SPn|exact Shape].
Qed.

(* once every offset of B has been covered, all of B has been handed over *)
Lemma sp_complete : forall B base seen sp acc,
  SP B base seen sp acc -> (forall o, base <= o < base + Zlen B -> seen o) -> acc = B /\ sp_del sp = base + Zlen B.
Proof.
  intros B base seen sp acc S C.
  pose proof (sp_range _ _ _ _ _ S) as RG.
  assert (E : sp_del sp = base + Zlen B).
  { destruct (Z.lt_ge_cases (sp_del sp) (base + Zlen B)) as [X|X]; [|lia].
    destruct (sp_seen _ _ _ _ _ S (sp_del sp) (C (sp_del sp) ltac:(lia))) as [Y|Y]; [lia|].
    exfalso. apply Y. apply (sp_gap _ _ _ _ _ S). }
  split; [|exact E]. rewrite (sp_acc _ _ _ _ _ S), E. apply ztake_all. lia.
Qed.

(* what has been handed over is always a prefix of B *)
Lemma sp_prefix : forall B base seen sp acc, SP B base seen sp acc -> B = acc ++ zdrop (sp_del sp - base) B.
Proof.
  intros B base seen sp acc S. rewrite (sp_acc _ _ _ _ _ S). unfold ztake, zdrop. symmetry. apply firstn_skipn.
Qed.
