(* Caller discipline of connection.py's frame writers (model/Writers.v), part 1: the discipline predicates on traces,
   the invariants of the builder state between writer calls, start_packet / start_frame / push as the writers use them. *)
From Coq Require Import ZArith List Bool Lia ZifyBool.
From AQ Require Import lib.Base lib.Tok gen.C13Consts gen.C13Writers model.Builder proofs.BuilderProofs proofs.BuilderFlight
  model.StreamSend model.Writers.
From AQ Require model.Varint.
Import ListNotations.
Open Scope Z_scope.

(* k = true: C13's caller discipline; k = false: C13's discipline plus the three flight clauses of C08 *)
Definition opk (k : bool) (s : st) (o : op) : bool := op_disciplined s o && (k || op_fl s o).

Fixpoint dk (k : bool) (c : cfg) (s : st) (ops : list op) : bool :=
  match ops with
  | [] => true
  | o :: t => opk k s o && (let '(_, s', _) := step c s o in dk k c s' t)
  end.

Lemma dk_true c ops : forall s, dk true c s ops = disciplined c s ops.
Proof.
  induction ops as [|o t IH]; intros s; simpl; auto.
  destruct (step c s o) as [[r s'] d]. unfold opk. rewrite IH. simpl. rewrite andb_true_r. reflexivity.
Qed.

Lemma dk_false c ops : forall s, dk false c s ops = fl_disciplined c s ops.
Proof.
  induction ops as [|o t IH]; intros s; simpl; auto.
  destruct (step c s o) as [[r s'] d]. unfold opk. rewrite IH. simpl. reflexivity.
Qed.

Lemma run_app c a : forall s b, fst (run c s (a ++ b)) = fst (run c (fst (run c s a)) b).
Proof.
  induction a as [|o t IH]; intros s b; simpl; auto.
  destruct (step c s o) as [[r s'] d]. specialize (IH s' b).
  destruct (run c s' (t ++ b)), (run c s' t). simpl in *. exact IH.
Qed.

Lemma dk_app k c a : forall s b, dk k c s (a ++ b) = dk k c s a && dk k c (fst (run c s a)) b.
Proof.
  induction a as [|o t IH]; intros s b; simpl; auto.
  destruct (step c s o) as [[r s'] d]. rewrite IH. destruct (run c s' t). simpl. rewrite andb_assoc. reflexivity.
Qed.

(* ---------- state invariants -------------------------------------------------------------------------------- *)
Definition caps_ok (c : cfg) (s : st) : Prop := b_fcap s <= b_bcap s /\ b_bcap s <= c_mds c.

Definition pk_ok (s : st) : Prop :=
  forall p, b_cur s = Some p ->
    b_hascrypto s = true /\ p_start p + p_hdr p <= b_tell s /\
    (p_inflight p = false -> cur_payload s <= 0 \/ MIN_PAYLOAD <= cur_payload s).

(* between packets *)
Definition GI (c : cfg) (s : st) : Prop := caps_ok c s /\ pk_ok s.
(* inside an open packet *)
Definition OI (c : cfg) (s : st) : Prop := GI c s /\ exists p, b_cur s = Some p.

Definition cur_inflight (s : st) : bool := match b_cur s with Some p => p_inflight p | None => false end.

Lemma OI_GI c s : OI c s -> GI c s.
Proof. intros [H _]; exact H. Qed.

Lemma init_GI c pn : GI c (init_st c pn).
Proof. split; [split; simpl; lia|intros p H; simpl in H; discriminate]. Qed.

(* the flight clause checked when a packet is ended *)
Lemma pk_ok_end s : pk_ok s ->
  match b_cur s with Some p => p_inflight p || (cur_payload s <=? 0) || (MIN_PAYLOAD <=? cur_payload s) | None => true end = true.
Proof.
  intros H. destruct (b_cur s) as [p|] eqn:E; auto. destruct (H p E) as (_ & _ & H3).
  destruct (p_inflight p); simpl; auto. destruct (H3 eq_refl); lia.
Qed.

(* ---------- start_packet ------------------------------------------------------------------------------------- *)
Lemma flush_current_caps c s o s' : flush_current c s = (o, s') ->
  b_bcap s' = b_bcap s /\ b_fcap s' = b_fcap s /\ b_cur s' = b_cur s /\ b_hascrypto s' = b_hascrypto s /\ o <> OStop.
Proof.
  unfold flush_current. intros E.
  repeat match type of E with context[if ?b then _ else _] => destruct b end; inversion E; subst; simpl;
  repeat split; auto; discriminate.
Qed.

Lemma end_packet_caps c s p o s' : end_packet c s p = (o, s') ->
  b_bcap s' = b_bcap s /\ b_fcap s' = b_fcap s /\ (o = ODone -> b_cur s' = None) /\ o <> OStop.
Proof.
  unfold end_packet. intros E.
  destruct (b_tell s - p_start p >? p_hdr p); [|inversion E; subst; simpl; repeat split; auto; discriminate].
  repeat match type of E with
  | context[let '(_, _) := (if ?b then _ else _) in _] => destruct b eqn:?
  end;
  repeat match type of E with
  | context[if ?b then _ else _] => destruct b eqn:?
  end; try (inversion E; subst; simpl; repeat split; auto; discriminate).
  all: try match type of E with
  | context[flush_current _ ?s2] =>
      destruct (flush_current c s2) as [o3 s3] eqn:F;
      destruct (flush_current_caps _ _ _ _ F) as (A1 & A2 & A3 & A4 & A5);
      destruct o3; inversion E; subst; simpl in *; repeat split; auto; try discriminate; try congruence
  end.
  all: inversion E; subst; simpl; repeat split; auto; discriminate.
Qed.

Lemma end_current_caps c s o s' : end_current c s = (o, s') ->
  b_bcap s' = b_bcap s /\ b_fcap s' = b_fcap s /\ (o = ODone -> b_cur s' = None) /\ o <> OStop.
Proof.
  unfold end_current. intros E. destruct (b_cur s) eqn:C; [eapply end_packet_caps; eauto|].
  inversion E; subst; repeat split; auto; discriminate.
Qed.

Lemma datagram_init_caps c s : caps_ok c s -> caps_ok c (datagram_init c s) /\ b_cur (datagram_init c s) = b_cur s /\
  b_tell (datagram_init c s) = b_tell s.
Proof.
  unfold datagram_init, caps_ok. intros [H1 H2]. destruct (b_dginit s); [|auto].
  destruct (c_max_total c), (c_max_flight c); simpl; repeat split; auto;
  repeat match goal with |- context[if ?b then _ else _] => destruct b eqn:? end; lia.
Qed.

Lemma start_packet_spec c s t o s' : GI c s -> start_packet c s t = (o, s') ->
  (o = ODone -> OI c s' /\ cur_inflight s' = false /\ cur_payload s' = 0) /\ (o = OStop -> GI c s').
Proof.
  unfold start_packet. intros [HC HP] E.
  destruct (negb (valid_ptype t)); [inversion E; subst; split; discriminate|].
  destruct (end_current c s) as [o1 s1] eqn:E1.
  destruct (end_current_caps _ _ _ _ E1) as (B1 & F1 & N1 & S1).
  destruct o1; try (inversion E; subst; split; discriminate); [|congruence].
  specialize (N1 eq_refl).
  assert (C1 : caps_ok c s1) by (unfold caps_ok in *; rewrite B1, F1; exact HC).
  assert (K : forall s2, caps_ok c s2 -> b_cur s2 = None ->
     (let packet_start := b_tell s2 in let s3 := datagram_init c s2 in let h := header_size c t in
      if packet_start + h >=? b_bcap s3 then (OStop, s3) else
      (ODone, mkSt (packet_start + h) (b_bcap s3) (b_fcap s3) (b_dgflight s3) (b_dginit s3) (b_dgpad s3) (b_flight s3)
                (b_total s3) (Some (mkPkt t packet_start h false false false (b_pn s3))) true (b_pn s3)
                (b_dgrams s3) (b_pkts s3) (g_hasinit s3) (g_log s3))) = (o, s') ->
     (o = ODone -> OI c s' /\ cur_inflight s' = false /\ cur_payload s' = 0) /\ (o = OStop -> GI c s')).
  { intros s2 C2 N2 E2. cbv zeta in E2. destruct (datagram_init_caps c s2 C2) as (C3 & N3 & T3).
    destruct (_ >=? _) eqn:G; inversion E2; subst; clear E2; split; try discriminate; intros _.
    - split; [exact C3|]. intros p Hp. rewrite N3, N2 in Hp. discriminate.
    - split; [|split; [reflexivity|unfold cur_payload; simpl; lia]].
      split; [split; [exact C3|]|eexists; reflexivity].
      intros p Hp. simpl in Hp. inversion Hp; subst; clear Hp. simpl. repeat split; auto; try lia.
      intros _. left. unfold cur_payload. simpl. lia. }
  destruct (b_bcap s1 - b_tell s1 <? DATAGRAM_MIN_SPACE).
  - destruct (flush_current c s1) as [o2 s2] eqn:E2.
    destruct (flush_current_caps _ _ _ _ E2) as (B2 & F2 & N2 & _ & S2).
    destruct o2; try (inversion E; subst; split; discriminate); [|congruence].
    apply (K s2).
    + unfold caps_ok in *; rewrite B2, F2; exact C1.
    + congruence.
    + exact E.
  - apply (K s1); [exact C1|exact N1|exact E].
Qed.

(* ---------- pushes ------------------------------------------------------------------------------------------- *)
Definition psz (p : Z * Z) : Z := match push_size p with Some n => n | None => 0 end.
Definition push_okb (p : Z * Z) : bool := match push_size p with Some n => 0 <=? n | None => false end.
Fixpoint psum (ps : list (Z * Z)) : Z := match ps with [] => 0 | p :: t => psz p + psum t end.

Lemma psum_app a b : psum (a ++ b) = psum a + psum b.
Proof. induction a; simpl; lia. Qed.

Lemma psum_nonneg ps : forallb push_okb ps = true -> 0 <= psum ps.
Proof.
  induction ps as [|p t IH]; simpl; [lia|]. intros H. apply andb_true_iff in H. destruct H as [H1 H2].
  specialize (IH H2). unfold push_okb, psz in *. destruct (push_size p); [lia|discriminate].
Qed.

(* the state after writing n bytes into the open packet *)
Lemma do_pushes_spec k c ps : forall s p,
  b_cur s = Some p -> cur_nonempty s = true -> b_bcap s <= c_mds c ->
  forallb push_okb ps = true ->
  psum ps <= remaining_buffer_space s ->
  (k = false -> p_inflight p = true -> psum ps <= remaining_flight_space s) ->
  let '(o, s', tr) := do_pushes c s ps in
  o = ODone /\ s' = set_tell s (b_tell s + psum ps) /\ dk k c s tr = true /\ fst (run c s tr) = s'.
Proof.
  induction ps as [|q t IH]; intros s p Hc Hn Hb Hok Hr Hf.
  - simpl. replace (b_tell s + 0) with (b_tell s) by lia. repeat split; auto. destruct s; reflexivity.
  - cbn [do_pushes]. cbn [forallb] in Hok. apply andb_true_iff in Hok. destruct Hok as [Hq Hok].
    cbn [psum] in Hr, Hf. pose proof (psum_nonneg t Hok) as Hnn.
    unfold push_okb in Hq. unfold psz in Hr, Hf. cbn [psum]. unfold psz.
    destruct (push_size q) as [n|] eqn:Eq; [|discriminate].
    unfold push. unfold remaining_buffer_space in Hr.
    destruct (n <? 0) eqn:N0; [lia|].
    pose proof (eq_refl : AEAD_TAG_SIZE = 16) as TG.
    destruct (b_tell s + n >? c_mds c) eqn:N1; [lia|].
    set (s1 := set_tell s (b_tell s + n)).
    assert (Hc1 : b_cur s1 = Some p) by exact Hc.
    assert (Hn1 : cur_nonempty s1 = true).
    { unfold cur_nonempty in *. rewrite Hc1. rewrite Hc in Hn. simpl. lia. }
    specialize (IH s1 p Hc1 Hn1 Hb Hok).
    assert (Hr1 : psum t <= remaining_buffer_space s1) by (unfold remaining_buffer_space; simpl; lia).
    assert (Hf1 : k = false -> p_inflight p = true -> psum t <= remaining_flight_space s1).
    { intros K P. specialize (Hf K P). unfold remaining_flight_space in *. simpl. lia. }
    specialize (IH Hr1 Hf1). destruct (do_pushes c s1 t) as [[o2 s2] tr2]. destruct IH as (I1 & I2 & I3 & I4).
    split; [exact I1|]. split; [subst s2; unfold s1, set_tell; simpl; f_equal; lia|].
    split.
    + cbn [dk step]. unfold push. rewrite N0, N1. fold s1. rewrite I3. rewrite andb_true_r.
      unfold opk. cbn [op_disciplined op_fl]. rewrite Hn, Hc. unfold remaining_buffer_space.
      destruct k; simpl.
      * lia.
      * destruct (p_inflight p) eqn:P; [|lia]. specialize (Hf eq_refl eq_refl). unfold remaining_flight_space in *. lia.
    + cbn [run step]. unfold push. rewrite N0, N1. fold s1.
      destruct (run c s1 tr2) as [sx dx] eqn:R. simpl in I4. simpl. exact I4.
Qed.

Ltac sproj := cbn [b_tell b_bcap b_fcap b_dgflight b_dginit b_dgpad b_flight b_total b_cur b_hascrypto b_pn b_dgrams b_pkts
                   set_cur set_tell p_type p_start p_hdr p_inflight p_ackel p_crypto p_pn].
Ltac sproj_in H := cbn [b_tell b_bcap b_fcap b_dgflight b_dginit b_dgpad b_flight b_total b_cur b_hascrypto b_pn b_dgrams b_pkts
                   set_cur set_tell p_type p_start p_hdr p_inflight p_ackel p_crypto p_pn] in H.

(* ---------- one frame --------------------------------------------------------------------------------------- *)
(* RF: result of a writer that works inside the open packet: it returns or raises QuicPacketBuilderStop, the packet
   stays open, the trace is disciplined and leads to the returned state *)
Definition RF (k : bool) (c : cfg) (s : st) (r : wres) : Prop :=
  let '(o, s', tr) := r in
  (o = ODone \/ o = OStop) /\ OI c s' /\ dk k c s tr = true /\ fst (run c s tr) = s'.

Lemma size_small ft : 0 <= ft < 64 -> Builder.size_uint_var (ft mod 18446744073709551616) = Some 1.
Proof. intros H. rewrite Z.mod_small by lia. unfold Builder.size_uint_var. destruct (ft <? 64) eqn:E; [reflexivity|lia]. Qed.

Lemma do_frame_spec k c s ft cap ps :
  OI c s -> 0 <= ft < 64 -> 1 <= cap -> forallb push_okb ps = true ->
  (1 + psum ps <= cap \/
   (1 + psum ps <= remaining_buffer_space s /\ (zmem ft NON_IN_FLIGHT = false -> 1 + psum ps <= remaining_flight_space s))) ->
  (zmem ft NON_IN_FLIGHT = true -> MIN_PAYLOAD <= 1 + psum ps /\ (k = false -> cur_inflight s = false)) ->
  RF k c s (do_frame c s ft cap ps).
Proof.
  intros [[[HC1 HC2] HP] [p Hc]] Hft Hcap Hok Hfit Hnif.
  destruct (HP p Hc) as (Hcr & Hge & Hpay).
  pose proof (psum_nonneg ps Hok) as Hnn.
  pose proof (eq_refl : AEAD_TAG_SIZE = 16) as TG.
  assert (HOI : OI c s) by (split; [split; [split|]; assumption|eexists; eassumption]).
  unfold do_frame, start_frame. rewrite Hc, Hcr. cbn [negb].
  set (cap' := if b_tell s - p_start p <=? p_hdr p
               then (if cap <? START_FRAME_EMPTY_RESERVE then START_FRAME_EMPTY_RESERVE else cap) else cap).
  assert (Hcap' : cap <= cap') by (unfold cap'; destruct (_ <=? _); [destruct (_ <? _) eqn:?; lia|lia]).
  assert (Hopk : opk k s (OpStartFrame ft cap) = true).
  { unfold opk. cbn [op_disciplined op_fl]. rewrite Hc, (size_small ft Hft).
    destruct k; cbn [orb]; [rewrite andb_true_r; lia|].
    destruct (zmem ft NON_IN_FLIGHT) eqn:Z; [|rewrite andb_true_r; lia].
    destruct (Hnif eq_refl) as (_ & Hi). specialize (Hi eq_refl). unfold cur_inflight in Hi. rewrite Hc in Hi. rewrite Hi.
    cbn [negb]. rewrite andb_true_r. lia. }
  destruct ((remaining_buffer_space s <? cap') || (negb (zmem ft NON_IN_FLIGHT) && (remaining_flight_space s <? cap'))) eqn:ST.
  - (* QuicPacketBuilderStop *)
    unfold RF. split; [right; reflexivity|]. split; [exact HOI|].
    cbn [dk run step]. unfold start_frame. rewrite Hc, Hcr. cbn [negb]. fold cap'. rewrite ST, Hopk. split; reflexivity.
  - rewrite (size_small ft Hft).
    apply orb_false_iff in ST. destruct ST as [ST1 ST2].
    unfold remaining_buffer_space in ST1.
    destruct (b_tell s + 1 >? c_mds c) eqn:BW; [lia|].
    set (p1 := mkPkt (p_type p) (p_start p) (p_hdr p) (p_inflight p || negb (zmem ft NON_IN_FLIGHT))
                     (p_ackel p || negb (zmem ft NON_ACK_ELICITING)) (p_crypto p || (ft =? FT_CRYPTO)) (p_pn p)).
    set (s1 := set_cur (set_tell s (b_tell s + 1)) (Some p1)).
    assert (Hc1 : b_cur s1 = Some p1) by reflexivity.
    assert (Hn1 : cur_nonempty s1 = true) by (unfold cur_nonempty; rewrite Hc1; simpl; lia).
    assert (Hb1 : b_bcap s1 <= c_mds c) by exact HC2.
    assert (Hr1 : psum ps <= remaining_buffer_space s1).
    { unfold remaining_buffer_space in *. unfold s1. sproj. destruct Hfit as [Hfit|[Hfit _]]; lia. }
    assert (Hf1 : k = false -> p_inflight p1 = true -> psum ps <= remaining_flight_space s1).
    { intros K P. unfold p1 in P. sproj_in P. unfold remaining_flight_space in *. unfold s1. sproj.
      destruct (zmem ft NON_IN_FLIGHT) eqn:Z.
      - destruct (Hnif eq_refl) as (_ & Hi). specialize (Hi K). unfold cur_inflight in Hi. rewrite Hc in Hi.
        rewrite Hi in P. cbn [negb orb] in P. discriminate.
      - cbn [negb andb] in ST2. destruct Hfit as [Hfit|[_ Hfit]]; [lia|specialize (Hfit eq_refl); lia]. }
    pose proof (do_pushes_spec k c ps s1 p1 Hc1 Hn1 Hb1 Hok Hr1 Hf1) as D.
    destruct (do_pushes c s1 ps) as [[o2 s2] tr2]. destruct D as (D1 & D2 & D3 & D4).
    unfold RF. split; [left; exact D1|]. split.
    + subst s2. split; [split; [split; unfold s1; sproj; assumption|]|eexists; reflexivity].
      intros q Hq. unfold s1 in Hq. sproj_in Hq. inversion Hq; subst q; clear Hq. unfold s1, p1. sproj.
      split; [exact Hcr|]. split; [lia|].
      intros Hinf. right. unfold cur_payload. sproj.
      apply orb_false_iff in Hinf. destruct Hinf as [Hi1 Hi2]. apply negb_false_iff in Hi2.
      destruct (Hnif Hi2) as (Hmin & _). specialize (Hpay Hi1). unfold cur_payload in Hpay. rewrite Hc in Hpay.
      unfold MIN_PAYLOAD, PACKET_NUMBER_MAX_SIZE, PACKET_NUMBER_SEND_SIZE in *. lia.
    + cbn [dk run step]. unfold start_frame. rewrite Hc, Hcr. cbn [negb]. fold cap'.
      replace ((b_bcap s - b_tell s - AEAD_TAG_SIZE <? cap') || (negb (zmem ft NON_IN_FLIGHT) && (remaining_flight_space s <? cap')))
        with false by (symmetry; apply orb_false_iff; split; assumption).
      unfold remaining_buffer_space.
      replace ((b_bcap s - b_tell s - AEAD_TAG_SIZE <? cap') || (negb (zmem ft NON_IN_FLIGHT) && (remaining_flight_space s <? cap')))
        with false by (symmetry; apply orb_false_iff; split; assumption).
      rewrite (size_small ft Hft), BW. fold p1. fold s1. rewrite Hopk, D3.
      destruct (run c s1 tr2) as [sx dx]. simpl in D4. simpl. split; [reflexivity|exact D4].
Qed.

(* ---------- composition -------------------------------------------------------------------------------------- *)
Lemma RF_skip k c s : OI c s -> RF k c s (wskip s).
Proof. intros H. unfold RF, wskip. split; [left; reflexivity|split; [exact H|split; reflexivity]]. Qed.

Lemma RF_seq k c s r f : RF k c s r -> (forall s1, OI c s1 -> RF k c s1 (f s1)) -> RF k c s (wseq r f).
Proof.
  destruct r as [[o s1] tr]. intros (H1 & H2 & H3 & H4) Hf. unfold wseq.
  destruct H1 as [->| ->]; [|unfold RF; split; [right; reflexivity|split; [exact H2|split; assumption]]].
  specialize (Hf s1 H2). destruct (f s1) as [[o2 s2] tr2]. destruct Hf as (G1 & G2 & G3 & G4).
  unfold RF. split; [exact G1|]. split; [exact G2|]. rewrite dk_app, run_app, H3, H4. auto.
Qed.

Lemma RF_list k c {A} (w : st -> A -> wres) (l : list A) (Q : A -> Prop) :
  (forall s a, OI c s -> Q a -> RF k c s (w s a)) -> Forall Q l -> forall s, OI c s -> RF k c s (w_list w s l).
Proof.
  intros Hw HQ. induction HQ as [|a t Ha Ht IH]; intros s Hs; cbn [w_list]; [apply RF_skip; exact Hs|].
  apply RF_seq; [apply Hw; assumption|exact IH].
Qed.

Lemma RF_if k c (b : bool) w s : OI c s -> (b = true -> RF k c s (w s)) -> RF k c s (w_if b w s).
Proof. intros Hs H. unfold w_if. destruct b; [apply H; reflexivity|apply RF_skip; exact Hs]. Qed.
