(* C03, two-party system: the system invariant SI is preserved by every event of every adversary-valid run in which
   the symbolic-crypto idealisation holds (SI_run). *)
From AQ Require Import lib.Base gen.TlsDispatch model.TlsSymbolic proofs.TlsDispatchLegal.
From AQ Require Import proofs.TlsSymbolicP1 proofs.TlsSymbolicP2 proofs.TlsSymbolicP4 proofs.TlsSymbolicP5 proofs.TlsSymbolicP3.
From AQ Require Import model.TlsTwoParty proofs.TlsTwoPartyP1 proofs.TlsTwoPartyP2 proofs.TlsTwoPartyP3 proofs.TlsTwoPartyP4.

Section P5.
Variable O : oracles.
Variable adv : bytes -> Prop.
Variable cc sc : cfg.
Hypothesis I2 : ideal2 O.
Hypothesis Hpair : sig_pair O (hd [] (f_chain sc)) (f_key sc).

Notation K := (knows O adv).
Notation SI := (SI O adv cc sc).
Notation secure := (secure O adv cc sc).
Notation agree := (agree O cc).
Notation honest_msg := (honest_msg O cc).

Lemma started_state : forall c, t_state (client_started O c) = CLIENT_EXPECT_SERVER_HELLO.
Proof.
  intro c. unfold client_started, client_send_hello. cbn [fst snd].
  destruct (use_ticket c) as [t |]; [destruct (tk_early t) |]; reflexivity.
Qed.

Lemma SI_init : SI (sys_init cc sc) None.
Proof.
  constructor; cbn [sys_init y_c y_s y_out y_sdead y_cdead].
  - left. reflexivity.
  - split; [reflexivity | intros _; reflexivity].
  - intros m [].
  - discriminate.
  - discriminate.
  - exact Logic.I.
Qed.

(* the client starts *)
Lemma SI_start : forall y srv d,
  SI y srv -> y_c y = init_client cc ->
  SI (mkSys (client_started O cc) (y_s y) d (y_sdead y) (y_out y ++ [client_hello_msg O cc])) srv.
Proof.
  intros y srv d S Ei. constructor; cbn [y_c y_s y_out y_sdead y_cdead].
  - right. exists []. reflexivity.
  - exact (si_s _ _ _ _ _ _ S).
  - intros m Hin. apply in_app_or in Hin. destruct Hin as [Hin | [<- | []]]; [| left; reflexivity].
    destruct (si_out _ _ _ _ _ _ S m Hin) as [A | [A | [A _]]]; [left; exact A | right; left; exact A |].
    rewrite Ei in A. discriminate.
  - rewrite started_state. discriminate.
  - rewrite started_state. discriminate.
  - pose proof (si_emit _ _ _ _ _ _ S) as X. destruct srv as [[[? ?] ?] |]; [| exact Logic.I].
      intros x Hx. apply in_or_app. left. apply X. exact Hx.
Qed.

(* the server's part and the old outputs, when only the client moves *)
Lemma old_out_ok : forall y srv c' d more m,
  SI y srv -> (t_state (y_c y) = CLIENT_POST_HANDSHAKE -> t_state c' = CLIENT_POST_HANDSHAKE) ->
  In m (y_out y) -> honest_msg (mkSys c' (y_s y) d (y_sdead y) more) srv m.
Proof.
  intros y srv c' d more m S Hp Hin.
  destruct (si_out _ _ _ _ _ _ S m Hin) as [A | [A | [A B]]]; [left; exact A | right; left; exact A |].
  right; right. split; [apply Hp; exact A | exact B].
Qed.

Lemma SI_to_client : forall y srv m,
  SI y srv -> dy_sound O adv (y_out y) -> K (y_out y) m ->
  SI (sys_step O cc sc y (EvToClient m)) srv.
Proof.
  intros y srv m S DS Km. cbn [sys_step]. destruct (y_cdead y) eqn:Ed; [exact S |].
  destruct (si_c _ _ _ _ _ _ S) as [Ei | (ms & Ec)].
  { (* not started: handle_message sends the hello *)
    unfold step. rewrite Ei. cbn [init_client t_state]. fold (init_client cc).
    rewrite (client_send_hello_eq O cc). cbn [fatal map snd]. apply SI_start; assumption. }
  destruct (step O cc (y_c y) m) as [[o c'] out0] eqn:E.
  pose proof (cinv2_run O cc ms _ (cinv2_started O cc)) as J2. rewrite <- Ec in J2.
  assert (Hc' : exists ms', c' = run O cc (client_started O cc) ms').
  { exists (ms ++ [m]). rewrite run_snoc, <- Ec, E. reflexivity. }
  destruct (client_step_cases O cc _ m o c' out0 J2 E) as
    [E0 Hst Hq | Eo E0 Hnp Hnf Hnp' | Eo E0 Hs Hs' Hr | Eo E0 Fm Hs Hcv Hs' | Eo Fm Hs Hfin Hs'].
  - (* no progress *)
    subst out0. cbn [map]. rewrite app_nil_r. constructor; cbn [y_c y_s y_out y_sdead y_cdead].
    + right; exact Hc'.
    + exact (si_s _ _ _ _ _ _ S).
    + intros x Hin. eapply old_out_ok; eauto; intro A; rewrite Hst; exact A.
    + intros A B. rewrite Hst in A. destruct Hq as [-> | (_ & Q & _)]; [| contradiction].
      exact (si_ck _ _ _ _ _ _ S A B).
    + intro A. rewrite Hst in A. destruct Hq as [-> | (_ & _ & Q)]; [| contradiction].
      exact (si_ag _ _ _ _ _ _ S A).
    + exact (si_emit _ _ _ _ _ _ S).
  - (* a handler before CertificateVerify succeeded *)
    subst out0. cbn [map]. rewrite app_nil_r. constructor; cbn [y_c y_s y_out y_sdead y_cdead].
    + right; exact Hc'.
    + exact (si_s _ _ _ _ _ _ S).
    + intros x Hin. eapply old_out_ok; eauto; intro A; contradiction.
    + intro A. contradiction.
    + intro A. contradiction.
    + exact (si_emit _ _ _ _ _ _ S).
  - (* EncryptedExtensions of a resumed handshake *)
    subst out0. cbn [map]. rewrite app_nil_r. constructor; cbn [y_c y_s y_out y_sdead y_cdead].
    + right; exact Hc'.
    + exact (si_s _ _ _ _ _ _ S).
    + intros x Hin. eapply old_out_ok; eauto; intro A; rewrite Hs in A; discriminate.
    + intros _ B. rewrite Hr in B. discriminate.
    + intro A. rewrite Hs' in A. discriminate.
    + exact (si_emit _ _ _ _ _ _ S).
  - (* CertificateVerify accepted: the signature is known to the adversary *)
    subst out0. cbn [map]. rewrite app_nil_r. constructor; cbn [y_c y_s y_out y_sdead y_cdead].
    + right; exact Hc'.
    + exact (si_s _ _ _ _ _ _ S).
    + intros x Hin. eapply old_out_ok; eauto; intro A; rewrite Hs in A; discriminate.
    + intros _ _. destruct (client_cv_ok O cc _ m c' Hcv) as (v & Pv & Sv & Kv & Pe & Re).
      exists (cv_alg v), (cv_sig v), (the_ks (y_c y)), m.
      split; [eapply kn_parse_cv; [exact Km | exact Pv | left; reflexivity] |].
      split; [rewrite Pe; exact Sv | exact Kv].
    + intro A. rewrite Hs' in A. discriminate.
    + exact (si_emit _ _ _ _ _ _ S).
  - (* Finished accepted *)
    constructor; cbn [y_c y_s y_out y_sdead y_cdead].
    + right; exact Hc'.
    + exact (si_s _ _ _ _ _ _ S).
    + intros x Hin. apply in_app_or in Hin. destruct Hin as [Hin | Hin].
      * eapply old_out_ok; eauto; intro A; rewrite Hs in A; discriminate.
      * right; right. split; [exact Hs' |]. exists (y_c y), m, c', out0. split; assumption.
    + intro A. rewrite Hs' in A. discriminate.
    + intros _. exists (y_out y). split; [intros x Hx; apply knows_app_l; exact Hx |].
      intro Hsec. eapply (fin_provenance O adv cc sc I2 Hpair y srv ms m c' out0); eauto.
    + pose proof (si_emit _ _ _ _ _ _ S) as X. destruct srv as [[[? ?] ?] |]; [| exact Logic.I].
      intros x Hx. apply in_or_app. left. apply X. exact Hx.
Qed.

Lemma SI_to_server : forall y srv m,
  SI y srv -> exists srv', SI (sys_step O cc sc y (EvToServer m)) srv'.
Proof.
  intros y srv m S. cbn [sys_step]. destruct (y_sdead y) eqn:Ed; [exists srv; exact S |].
  destruct (step O sc (y_s y) m) as [[o s'] out0] eqn:E.
  pose proof (si_s _ _ _ _ _ _ S) as Ss.
  destruct srv as [[[chm ss1] outS] |].
  - (* after the flight *)
    destruct Ss as (Fc & Hh & R). destruct (srel_step O sc ss1 _ m o s' out0 R E) as [R' ->].
    exists (Some (chm, ss1, outS)). cbn [map]. rewrite app_nil_r.
    constructor; cbn [y_c y_s y_out y_sdead y_cdead].
    + exact (si_c _ _ _ _ _ _ S).
    + auto.
    + intros x Hin. destruct (si_out _ _ _ _ _ _ S x Hin) as [A | [A | A]]; [left; exact A | right; left; exact A |].
      right; right. exact A.
    + exact (si_ck _ _ _ _ _ _ S).
    + exact (si_ag _ _ _ _ _ _ S).
    + exact (si_emit _ _ _ _ _ _ S).
  - destruct Ss as [Es Hi]. specialize (Hi Ed).
    destruct (server_first_step O sc _ m o s' out0 Es E) as [(Eo & Fm & Hh) | (E0 & Hst & Hq)].
    + (* the flight *)
      rewrite Hi in Hh. exists (Some (m, s', out0)).
      destruct (flight_facts_of O sc m s' out0 Hh) as (shv & eev & auth & k1 & k3 & g & shared & psk & FF).
      constructor; cbn [y_c y_s y_out y_sdead y_cdead].
      * exact (si_c _ _ _ _ _ _ S).
      * split; [exact Fm |]. split; [exact Hh |].
        destruct (ff_state _ _ _ _ _ _ _ _ _ _ _ _ _ FF) as [A | A]; apply srel_refl; rewrite A; try reflexivity; discriminate.
      * intros x Hin. apply in_app_or in Hin. destruct Hin as [Hin | Hin].
        -- destruct (si_out _ _ _ _ _ _ S x Hin) as [A | [(a & b & c0 & A & _) | A]];
             [left; exact A | discriminate A | right; right; exact A].
        -- right; left. exists m, s', out0. split; [reflexivity | exact Hin].
      * intros A B. destruct (si_ck _ _ _ _ _ _ S A B) as (alg & sg & k0 & cvm & Ksg & X).
        exists alg, sg, k0, cvm. split; [apply knows_app_l; exact Ksg | exact X].
      * intro A. destruct (si_ag _ _ _ _ _ _ S A) as (outs_t & Hm & Hag). exists outs_t.
        split; [intros x Hx; apply knows_app_l; apply Hm; exact Hx |].
        intro Hsec. destruct (Hag Hsec) as (a & b & c0 & X & _). discriminate X.
      * intros x Hx. apply in_or_app. right. exact Hx.
    + (* no answer *)
      subst out0. exists None. cbn [map]. rewrite app_nil_r.
      constructor; cbn [y_c y_s y_out y_sdead y_cdead].
      * exact (si_c _ _ _ _ _ _ S).
      * split; [rewrite Hst; exact Es |]. intro Ef. destruct Hq as [-> | Hq]; [exact Hi | congruence].
      * intros x Hin. destruct (si_out _ _ _ _ _ _ S x Hin) as [A | [A | A]]; [left; exact A | right; left; exact A |].
        right; right. exact A.
      * exact (si_ck _ _ _ _ _ _ S).
      * exact (si_ag _ _ _ _ _ _ S).
      * exact Logic.I.
Qed.

Lemma SI_step : forall y srv e,
  SI y srv -> dy_sound O adv (y_out y) ->
  match e with EvStart => True | EvToClient m | EvToServer m => K (y_out y) m end ->
  exists srv', SI (sys_step O cc sc y e) srv'.
Proof.
  intros y srv e S DS Hk. destruct e as [| m | m].
  - exists srv. cbn [sys_step]. destruct (y_cdead y); [exact S |].
    destruct (si_c _ _ _ _ _ _ S) as [Ei | (ms & Ec)].
    + rewrite Ei. cbn [init_client t_state]. fold (init_client cc).
      rewrite (client_send_hello_eq O cc). cbn [fatal map snd]. apply SI_start; assumption.
    + pose proof (cinv2_run O cc ms _ (cinv2_started O cc)) as J2. rewrite <- Ec in J2.
      destruct (c2_client O cc _ J2) as [A B].
      destruct (t_state (y_c y)); try exact S. contradiction.
  - exists srv. apply SI_to_client; assumption.
  - eapply SI_to_server; eauto.
Qed.

Lemma SI_run : forall tr y srv,
  SI y srv -> valid_run O cc sc adv y tr -> sound_run O cc sc adv y tr ->
  exists srv', SI (sys_run O cc sc y tr) srv'.
Proof.
  induction tr as [| e r IH]; intros y srv S V Sd; cbn [sys_run].
  - exists srv. exact S.
  - cbn [valid_run] in V. destruct V as [V1 V2]. cbn [sound_run] in Sd. destruct Sd as [D1 D2].
    destruct (SI_step y srv e S D1 V1) as (srv' & S').
    eapply IH; eauto.
Qed.

End P5.
