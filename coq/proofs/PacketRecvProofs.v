(* Proofs about model/PacketRecv.v: a packet that does not open leaves every modelled field of the connection unchanged
   (key state of every epoch, key-phase state, packet spaces, discard flags, peer CID, spin bit, close state, timers ...). *)
From AQ Require Import lib.Base lib.Tok model.KeyPhase proofs.KeyPhaseProofs model.PacketNumber model.RangeSet gen.C02Recv model.PacketRecv.

(* ---- the transcription is pinned to the source: gen/C02Recv.v is written from the tree under check on every run ---- *)
Lemma packet_recv_as_modelled_lemma :
  RECV_SKELETON = modelled_skeleton /\
  GET_EPOCH_OK = true /\ DISCARD_EPOCH_OK = true /\ DISCARD_SPACE_CLEARS_ACK_AT = true /\ CLOSE_OK = true /\ SPIN_FN_OK = true /\
  DISCARD_SITES = [(1, 0); (2, 0); (3, 9); (4, 2); (5, 2)] /\ KEY_UPDATE_SITES = [6] /\
  RESERVED_MASK_SHORT = M_RESERVED_SHORT /\ RESERVED_MASK_LONG = M_RESERVED_LONG /\ PROTOCOL_VIOLATION_CODE = M_PROTOCOL_VIOLATION /\
  SPIN_BIT = M_SPIN_BIT /\ M_RESERVED_SHORT = 24 /\ M_RESERVED_LONG = 12 /\ M_PROTOCOL_VIOLATION = 10 /\ M_SPIN_BIT = 32.
Proof. repeat split; reflexivity. Qed.

Section P.
  Variable frames : list Z -> fres.
  Variable idle_timeout ack_delay : Z.
  Notation recv := (recv_packet frames idle_timeout ack_delay).
  Notation recvs := (recv_all frames idle_timeout ack_delay).
  Notation dropu := (drop_unauth frames idle_timeout ack_delay).

  (* CryptoError: nothing changes *)
  Lemma crypto_error_no_effect : forall c r now, decrypt c r = CryptoErr -> recv c r now = c.
  Proof. intros c r now H. unfold recv_packet. destruct (c_close c); [reflexivity|]. rewrite H. reflexivity. Qed.

  (* a packet that is not an unmodified sealing (q_auth = None: altered in any bit, forged, wrong keys), whatever its key
     phase bit, type, claimed packet number and content, for which the receiver has keys: decryption fails ... *)
  Lemma unauthentic_is_crypto_error : forall c r, has_keys c (r_epoch r) = true -> q_auth (r_q r) = None -> decrypt c r = CryptoErr.
  Proof.
    intros c r K A. unfold decrypt. rewrite K. cbn [negb]. destruct (negb (decoded_pn c r =? r_pn r)); [reflexivity|].
    destruct (r_epoch r); rewrite ?A; try reflexivity.
    rewrite (inauthentic_rejected_lemma (c_pair c) (r_q r) A). reflexivity.
  Qed.

  (* ... and the connection is exactly as it was *)
  Lemma unauthentic_packet_no_effect_conn_lemma : forall c r now, has_keys c (r_epoch r) = true -> q_auth (r_q r) = None ->
    recv c r now = c.
  Proof. intros c r now K A. apply crypto_error_no_effect. apply unauthentic_is_crypto_error; assumption. Qed.

  (* an authentic packet whose truncated number does not expand to the number it was sealed with (too old, too far ahead):
     wrong nonce, dropped without effect *)
  Lemma out_of_window_no_effect : forall c r now, has_keys c (r_epoch r) = true -> decoded_pn c r <> r_pn r -> recv c r now = c.
  Proof.
    intros c r now K D. apply crypto_error_no_effect. unfold decrypt. rewrite K. cbn [negb].
    destruct (decoded_pn c r =? r_pn r) eqn:E; [apply Z.eqb_eq in E; contradiction | reflexivity].
  Qed.

  (* no keys for the packet's epoch (any packet, authentic or not): dropped; the only thing that can change is the client's
     one-shot Initial retransmission (RFC 9002 6.2.3: flag set, data rescheduled once) *)
  Lemma key_unavailable_effect : forall c r now, has_keys c (r_epoch r) = false ->
    recv c r now = c \/
    (c_is_client c = true /\ c_crypto_retransmitted c = false /\ (r_epoch r = EHandshake \/ r_epoch r = EOneRtt) /\
     recv c r now = set_retransmitted c).
  Proof.
    intros c r now K. unfold recv_packet, decrypt. destruct (c_close c); [left; reflexivity|]. rewrite K. cbn [negb].
    destruct (c_is_client c) eqn:IC; [|left; reflexivity]. destruct (c_crypto_retransmitted c) eqn:RT.
    - left. rewrite Bool.andb_false_r. reflexivity.
    - destruct (r_epoch r) eqn:E; cbn; auto 6.
  Qed.

  Lemma key_unavailable_server_no_effect : forall c r now, has_keys c (r_epoch r) = false -> c_is_client c = false -> recv c r now = c.
  Proof. intros c r now K S. destruct (key_unavailable_effect c r now K) as [H | (H & _)]; [exact H | congruence]. Qed.

  (* whatever does not open changes nothing but that flag *)
  Lemma not_opened_effect : forall c r now, (forall p', decrypt c r <> Opened p') ->
    recv c r now = c \/ recv c r now = set_retransmitted c.
  Proof.
    intros c r now N. unfold recv_packet. destruct (c_close c); [left; reflexivity|].
    destruct (decrypt c r) eqn:D; auto.
    - destruct (_ && _ && _); auto.
    - exfalso. eapply N. reflexivity.
  Qed.

  (* no LATER effect: in any sequence of received packets, the unauthentic ones for whose epoch the receiver has keys when they
     arrive can be deleted without changing the final state *)
  Lemma unauthentic_packets_no_later_effect_lemma : forall rs c, recvs c rs = recvs c (dropu c rs).
  Proof.
    induction rs as [|[r now] t IH]; intros c; [reflexivity|]. cbn [drop_unauth recv_all].
    destruct (has_keys c (r_epoch r)) eqn:K; cbn [andb].
    - destruct (q_auth (r_q r)) eqn:A.
      + cbn [recv_all]. apply IH.
      + rewrite (unauthentic_packet_no_effect_conn_lemma c r now K A). apply IH.
    - cbn [recv_all]. apply IH.
  Qed.

  (* the reserved bits are looked at only after the packet has authenticated: then the connection is closed with
     PROTOCOL_VIOLATION and NOTHING else changes (no packet number recorded, nothing delivered, no epoch discarded, peer CID and
     spin bit as before, idle timer untouched) -- except that a remote key update has already happened *)
  Lemma reserved_bits_checked_after_decrypt : forall c r now p',
    c_close c = None -> decrypt c r = Opened p' -> reserved_set r = true ->
    recv c r now = set_close (set_pair c p') M_PROTOCOL_VIOLATION /\ c_close (recv c r now) = Some 10.
  Proof.
    intros c r now p' G D R. unfold recv_packet. rewrite G, D, R. split; [reflexivity|]. cbn. rewrite G. reflexivity.
  Qed.

  (* ---- _discard_epoch ---- *)
  Lemma discard_epoch_discards : forall c e, e = EInitial \/ e = EHandshake ->
    sp_discarded (space_of (discard_epoch c e) e) = true /\
    (sp_discarded (space_of c e) = false -> has_keys (discard_epoch c e) e = false).
  Proof.
    intros c e [E | E]; subst e; unfold discard_epoch; cbn [space_of];
      match goal with |- context [if ?b then _ else _] => destruct b eqn:D end; cbn; auto; split; auto; discriminate.
  Qed.

  (* a packet for an epoch that has been discarded (Initial after the first Handshake packet, Handshake after confirmation)
     is dropped, authentic or not *)
  Lemma discarded_epoch_packet_dropped : forall c e r now, e = EInitial \/ e = EHandshake ->
    sp_discarded (space_of c e) = false -> r_epoch r = e ->
    let c' := discard_epoch c e in recv c' r now = c' \/ recv c' r now = set_retransmitted c'.
  Proof.
    intros c e r now E D R c'. apply not_opened_effect. intros p' H.
    assert (K : has_keys c' (r_epoch r) = false) by (rewrite R; apply (discard_epoch_discards c e E); exact D).
    unfold decrypt in H. rewrite K in H. discriminate.
  Qed.

  Lemma on_handshake_sent_client : forall c, c_is_client c = true -> sp_discarded (c_sp_initial c) = false ->
    has_keys (on_handshake_sent c) EInitial = false /\ sp_discarded (c_sp_initial (on_handshake_sent c)) = true.
  Proof.
    intros c IC D. unfold on_handshake_sent. rewrite IC.
    destruct (discard_epoch_discards c EInitial (or_introl eq_refl)) as [A B]. split; [apply B; exact D | exact A].
  Qed.

  (* ---- what the payload's effects cannot touch ---- *)
  Lemma fx_frame : forall fs c, let c' := fold_left apply_fx fs c in
    c_is_client c' = c_is_client c /\ c_keys_initial c' = c_keys_initial c /\ c_sp_initial c' = c_sp_initial c /\
    c_peer_latched c' = c_peer_latched c /\ c_peer_cid c' = c_peer_cid c /\ c_spin c' = c_spin c /\
    c_spin_highest c' = c_spin_highest c /\ c_close c' = c_close c /\ c_sp_onertt c' = c_sp_onertt c.
  Proof.
    induction fs as [|f t IH]; intros c; cbn [fold_left]; [repeat split; reflexivity|].
    specialize (IH (apply_fx c f)). cbv zeta in IH |- *.
    destruct IH as (A1 & A2 & A3 & A4 & A5 & A6 & A7 & A8 & A9).
    rewrite A1, A2, A3, A4, A5, A6, A7, A8, A9.
    destruct f; cbn [apply_fx]; unfold discard_epoch; cbn [space_of];
      try (destruct (sp_discarded (c_sp_handshake c))); cbn; repeat split; reflexivity.
  Qed.

  (* a server that opens a Handshake packet (reserved bits clear) has discarded the Initial epoch when receive_datagram returns:
     keys gone, space marked, whatever the payload did *)
  Lemma server_handshake_packet_discards_initial : forall c r now p',
    c_is_client c = false -> c_close c = None -> decrypt c r = Opened p' -> reserved_set r = false -> r_epoch r = EHandshake ->
    sp_discarded (c_sp_initial c) = false ->
    has_keys (recv c r now) EInitial = false /\ sp_discarded (c_sp_initial (recv c r now)) = true.
  Proof.
    intros c r now p' IC G D R E ND. unfold recv_packet. rewrite G, D, R. unfold process. rewrite E. cbn [epoch_eqb andb].
    set (c2 := set_space _ _ _).
    assert (IC2 : c_is_client c2 = false) by (subst c2; cbn; exact IC). rewrite IC2. cbn [negb andb].
    set (c3 := discard_epoch c2 EInitial).
    assert (K3 : c_keys_initial c3 = false /\ sp_discarded (c_sp_initial c3) = true).
    { subst c3 c2. unfold discard_epoch. cbn [space_of set_space set_pair c_sp_initial]. rewrite ND. cbn. auto. }
    clearbody c3. clear c2 IC2.
    set (c4 := if c_peer_latched c3 then c3 else latch_peer c3 (r_scid r)).
    assert (K4 : c_keys_initial c4 = false /\ sp_discarded (c_sp_initial c4) = true) by (subst c4; destruct (c_peer_latched c3); cbn; exact K3).
    clearbody c4.
    set (c5 := if c_connected c4 then c4 else set_connected c4 (r_scid r)).
    assert (K5 : c_keys_initial c5 = false /\ sp_discarded (c_sp_initial c5) = true) by (subst c5; destruct (c_connected c4); cbn; exact K4).
    clearbody c5.
    pose proof (fx_frame (f_fx (frames (r_payload r))) (deliver c5 (r_payload r))) as F. cbv zeta in F.
    destruct F as (_ & F2 & F3 & _).
    set (c7 := fold_left apply_fx _ _) in *.
    assert (K8 : forall c8, c8 = match f_err (frames (r_payload r)) with Some k => set_close c7 k | None => c7 end ->
                 c_keys_initial c8 = false /\ sp_discarded (c_sp_initial c8) = true).
    { intros c8 ->. destruct (f_err _); cbn; rewrite F2, F3; cbn; exact K5. }
    specialize (K8 _ eq_refl). set (c8 := match f_err _ with Some k => set_close c7 k | None => c7 end) in *.
    clearbody c8. destruct (c_close c8); [exact K8|]. cbv zeta. cbn [space_of].
    match goal with |- context [if ?b then _ else _] => destruct b end; cbn; exact K8.
  Qed.

  (* the peer's connection ID is latched by the FIRST packet that opens with clear reserved bits, and only by it *)
  Lemma peer_cid_latched_once : forall c r now, c_peer_latched c = true ->
    c_peer_latched (recv c r now) = true /\ c_peer_cid (recv c r now) = c_peer_cid c.
  Proof.
    intros c r now L. unfold recv_packet. destruct (c_close c); [auto|].
    destruct (decrypt c r) as [| |p'].
    - destruct (_ && _ && _); cbn; auto.
    - auto.
    - destruct (reserved_set r); [cbn; auto|]. unfold process.
      set (c2 := set_space _ _ _).
      set (c3 := if negb (c_is_client c2) && epoch_eqb (r_epoch r) EHandshake then discard_epoch c2 EInitial else c2).
      assert (L3 : c_peer_latched c3 = true /\ c_peer_cid c3 = c_peer_cid c).
      { subst c3 c2. destruct (negb _ && _); [unfold discard_epoch; destruct (sp_discarded _)|]; cbn; auto. }
      destruct L3 as [L3 P3]. clearbody c3. rewrite L3.
      set (c5 := if c_connected c3 then c3 else set_connected c3 (r_scid r)).
      assert (L5 : c_peer_latched c5 = true /\ c_peer_cid c5 = c_peer_cid c) by (subst c5; destruct (c_connected c3); cbn; auto).
      destruct L5 as [L5 P5]. clearbody c5.
      set (c6 := if epoch_eqb (r_epoch r) EOneRtt && (r_pn r >? c_spin_highest c5) then _ else c5).
      assert (L6 : c_peer_latched c6 = true /\ c_peer_cid c6 = c_peer_cid c) by (subst c6; destruct (_ && _); cbn; auto).
      destruct L6 as [L6 P6]. clearbody c6.
      pose proof (fx_frame (f_fx (frames (r_payload r))) (deliver c6 (r_payload r))) as F. cbv zeta in F.
      destruct F as (_ & _ & _ & F4 & F5 & _).
      set (c7 := fold_left apply_fx _ _) in *.
      assert (L8 : forall c8, c8 = match f_err (frames (r_payload r)) with Some k => set_close c7 k | None => c7 end ->
                   c_peer_latched c8 = true /\ c_peer_cid c8 = c_peer_cid c).
      { intros c8 ->. destruct (f_err _); cbn; rewrite F4, F5; cbn; auto. }
      specialize (L8 _ eq_refl). set (c8 := match f_err _ with Some k => set_close c7 k | None => c7 end) in *.
      clearbody c8. destruct (c_close c8); [exact L8|]. cbv zeta.
      destruct (r_epoch r); cbn [space_of]; match goal with |- context [if ?b then _ else _] => destruct b end; cbn; exact L8.
  Qed.

  Lemma first_opened_packet_latches_peer_cid : forall c r now p', c_close c = None -> c_peer_latched c = false ->
    decrypt c r = Opened p' -> reserved_set r = false ->
    c_peer_latched (recv c r now) = true /\ c_peer_cid (recv c r now) = r_scid r.
  Proof.
    intros c r now p' G L D R. unfold recv_packet. rewrite G, D, R. unfold process.
    set (c2 := set_space _ _ _).
    set (c3 := if negb (c_is_client c2) && epoch_eqb (r_epoch r) EHandshake then discard_epoch c2 EInitial else c2).
    assert (L3 : c_peer_latched c3 = false).
    { subst c3 c2. destruct (negb _ && _); [unfold discard_epoch; destruct (sp_discarded _)|]; cbn; auto. }
    clearbody c3. rewrite L3.
    set (c4 := latch_peer c3 (r_scid r)).
    set (c5 := if c_connected c4 then c4 else set_connected c4 (r_scid r)).
    assert (L5 : c_peer_latched c5 = true /\ c_peer_cid c5 = r_scid r) by (subst c5 c4; destruct (c_connected _); cbn; auto).
    destruct L5 as [L5 P5]. clearbody c5.
    set (c6 := if epoch_eqb (r_epoch r) EOneRtt && (r_pn r >? c_spin_highest c5) then _ else c5).
    assert (L6 : c_peer_latched c6 = true /\ c_peer_cid c6 = r_scid r) by (subst c6; destruct (_ && _); cbn; auto).
    destruct L6 as [L6 P6]. clearbody c6.
    pose proof (fx_frame (f_fx (frames (r_payload r))) (deliver c6 (r_payload r))) as F. cbv zeta in F.
    destruct F as (_ & _ & _ & F4 & F5 & _).
    set (c7 := fold_left apply_fx _ _) in *.
    assert (L8 : forall c8, c8 = match f_err (frames (r_payload r)) with Some k => set_close c7 k | None => c7 end ->
                 c_peer_latched c8 = true /\ c_peer_cid c8 = r_scid r).
    { intros c8 ->. destruct (f_err _); cbn; rewrite F4, F5; cbn; auto. }
    specialize (L8 _ eq_refl). set (c8 := match f_err _ with Some k => set_close c7 k | None => c7 end) in *.
    clearbody c8. destruct (c_close c8); [exact L8|]. cbv zeta.
    destruct (r_epoch r); cbn [space_of]; match goal with |- context [if ?b then _ else _] => destruct b end; cbn; exact L8.
  Qed.

  Lemma peer_cid_latch_lemma : forall c r now,
    (c_peer_latched c = true -> c_peer_latched (recv c r now) = true /\ c_peer_cid (recv c r now) = c_peer_cid c) /\
    (forall p', c_close c = None -> c_peer_latched c = false -> decrypt c r = Opened p' -> reserved_set r = false ->
       c_peer_latched (recv c r now) = true /\ c_peer_cid (recv c r now) = r_scid r).
  Proof. intros. split; [apply peer_cid_latched_once | intros; eapply first_opened_packet_latches_peer_cid; eassumption]. Qed.

  (* the spin bit and _spin_highest_pn move only for an opened 1-RTT packet with a larger packet number *)
  Lemma spin_changes_only_by_newer_onertt : forall c r now,
    (c_spin (recv c r now) <> c_spin c \/ c_spin_highest (recv c r now) <> c_spin_highest c) ->
    (exists p', decrypt c r = Opened p') /\ r_epoch r = EOneRtt /\ r_pn r > c_spin_highest c /\ c_spin_highest (recv c r now) = r_pn r.
  Proof.
    intros c r now. unfold recv_packet. destruct (c_close c); [intros [H | H]; contradiction|].
    destruct (decrypt c r) as [| |p'] eqn:D.
    - destruct (_ && _ && _); cbn; intros [H | H]; contradiction.
    - intros [H | H]; contradiction.
    - destruct (reserved_set r); [cbn; intros [H | H]; contradiction|]. unfold process.
      set (c2 := set_space _ _ _).
      set (c3 := if negb (c_is_client c2) && epoch_eqb (r_epoch r) EHandshake then discard_epoch c2 EInitial else c2).
      set (c4 := if c_peer_latched c3 then c3 else latch_peer c3 (r_scid r)).
      set (c5 := if c_connected c4 then c4 else set_connected c4 (r_scid r)).
      assert (S5 : c_spin c5 = c_spin c /\ c_spin_highest c5 = c_spin_highest c).
      { subst c5 c4 c3 c2. destruct (c_connected _); destruct (c_peer_latched _); destruct (negb _ && _);
          try (unfold discard_epoch; destruct (sp_discarded _)); cbn; auto. }
      destruct S5 as [S5 H5]. clearbody c5. rewrite H5.
      set (c6 := if epoch_eqb (r_epoch r) EOneRtt && (r_pn r >? c_spin_highest c) then _ else c5).
      pose proof (fx_frame (f_fx (frames (r_payload r))) (deliver c6 (r_payload r))) as F. cbv zeta in F.
      destruct F as (_ & _ & _ & _ & _ & F6 & F7 & _).
      set (c7 := fold_left apply_fx _ _) in *.
      assert (L8 : forall c8, c8 = match f_err (frames (r_payload r)) with Some k => set_close c7 k | None => c7 end ->
                   c_spin c8 = c_spin c6 /\ c_spin_highest c8 = c_spin_highest c6).
      { intros c8 ->. destruct (f_err _); cbn; rewrite F6, F7; cbn; auto. }
      specialize (L8 _ eq_refl). set (c8 := match f_err _ with Some k => set_close c7 k | None => c7 end) in *.
      assert (L9 : forall c9, c9 = match c_close c8 with Some _ => c8 | None =>
                     let c9 := set_close_at c8 (now + idle_timeout) in let s := space_of c9 (r_epoch r) in
                     if sp_discarded s then c9 else set_space c9 (r_epoch r) (record_packet s (r_pn r) now ack_delay (f_elic (frames (r_payload r)))) end ->
                   c_spin c9 = c_spin c6 /\ c_spin_highest c9 = c_spin_highest c6).
      { intros c9 ->. clearbody c8. destruct (c_close c8); [exact L8|]. cbv zeta.
        destruct (r_epoch r); cbn [space_of]; match goal with |- context [if ?b then _ else _] => destruct b end; cbn; exact L8. }
      specialize (L9 _ eq_refl). destruct L9 as [L9 H9]. cbv zeta in L9, H9 |- *. rewrite L9, H9.
      subst c6. destruct (epoch_eqb (r_epoch r) EOneRtt) eqn:E; cbn [andb].
      + destruct (r_pn r >? c_spin_highest c) eqn:G.
        * intros _. split; [eauto|]. split; [destruct (r_epoch r); try discriminate; reflexivity|]. split; [lia | reflexivity].
        * rewrite S5, H5. intros [H | H]; contradiction.
      + rewrite S5, H5. intros [H | H]; contradiction.
  Qed.
End P.

(* the premises are satisfiable: a server with 1-RTT keys only, a forged 1-RTT packet carrying the other key phase bit *)
Example unauthentic_example :
  let sp := mkSp 7 6 100 [(5, 7)] None false in
  let spd := mkSp 3 2 50 [] None true in
  let c := mkC false false false false true pair_init spd spd sp false 0 true None 500 [] true [1] [1] false 6 in
  recv_packet (fun _ => mkF true None []) 60 1 c (mkR EOneRtt (mkQ None 1 false) 64 7 2 [] [1; 2; 3]) 200 = c.
Proof. reflexivity. Qed.

(* ... and the same packet when authentic IS processed: recorded, spin bit taken over (expected_packet_number is NOT raised by a
   packet whose number equals it: `if packet_number > space.expected_packet_number`, the code as it is) *)
Example authentic_example :
  let sp := mkSp 7 6 100 [(5, 7)] None false in
  let spd := mkSp 3 2 50 [] None true in
  let c := mkC false false false false true pair_init spd spd sp false 0 true None 500 [] true [1] [1] false 6 in
  let c' := recv_packet (fun _ => mkF true None []) 60 1 c (mkR EOneRtt (mkQ (Some 0) 0 false) 96 7 2 [] [1; 2; 3]) 200 in
  c_sp_onertt c' = mkSp 7 7 200 [(5, 8)] (Some 201) false /\ c_spin c' = true /\ c_spin_highest c' = 7 /\ c_close_at c' = 260.
Proof. repeat split; reflexivity. Qed.

(* a server's first Handshake packet discards the Initial epoch; an Initial packet that arrives afterwards finds no keys *)
Example discard_example :
  let sp := mkSp 1 0 10 [(0, 1)] None false in
  let c := mkC false true false true false pair_init sp sp sp false 0 true None 500 [] true [1] [1] false 0 in
  let c' := recv_packet (fun _ => mkF true None []) 60 1 c (mkR EHandshake (mkQ (Some 0) 0 true) 224 1 2 [2] []) 20 in
  c_keys_initial c' = false /\ sp_discarded (c_sp_initial c') = true /\
  recv_verdict (fun _ => mkF true None []) 60 1 c' (mkR EInitial (mkQ (Some 0) 0 true) 192 1 2 [2] []) 30 = 1.
Proof. repeat split; reflexivity. Qed.
