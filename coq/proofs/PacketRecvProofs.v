(* Proofs about model/PacketRecv.v: a packet that does not open leaves every modelled field of the connection unchanged. *)
From AQ Require Import lib.Base lib.Tok model.KeyPhase proofs.KeyPhaseProofs model.PacketRecv.

Section P.
  Variable frames : list Z -> bool * option Z.
  Variable idle_timeout ack_delay : Z.
  Notation recv := (recv_packet frames idle_timeout ack_delay).

  (* CryptoError: nothing changes -- crypto state, packet spaces (expected / largest packet number, ack queue, ack timer),
     connection state, close state, idle timer, delivered payloads, retransmission flag *)
  Lemma crypto_error_no_effect : forall c r now, decrypt c r = CryptoErr -> recv c r now = c.
  Proof. intros c r now H. unfold recv_packet. rewrite H. reflexivity. Qed.

  (* a packet that is not an unmodified sealing (q_auth = None: altered in any bit, forged, wrong keys), whatever its key
     phase bit, type, claimed packet number and content, for which the receiver has keys: decryption fails ... *)
  Lemma unauthentic_is_crypto_error : forall c r, has_keys c (r_epoch r) = true -> q_auth (r_q r) = None -> decrypt c r = CryptoErr.
  Proof.
    intros c r K A. unfold decrypt. rewrite K. cbn [negb]. destruct (r_epoch r); rewrite ?A; try reflexivity;
      rewrite (inauthentic_rejected_lemma (c_pair c) (r_q r) A); reflexivity.
  Qed.

  (* ... and the connection is exactly as it was *)
  Lemma unauthentic_packet_no_effect_conn_lemma : forall c r now, has_keys c (r_epoch r) = true -> q_auth (r_q r) = None ->
    recv c r now = c.
  Proof. intros c r now K A. apply crypto_error_no_effect. apply unauthentic_is_crypto_error; assumption. Qed.

  (* no keys for the packet's epoch (any packet, authentic or not): dropped; the only thing that can change is the client's
     one-shot Initial retransmission (RFC 9002 6.2.3: flag set, data rescheduled once) *)
  Lemma key_unavailable_effect : forall c r now, has_keys c (r_epoch r) = false ->
    recv c r now = c \/
    (c_is_client c = true /\ c_crypto_retransmitted c = false /\ (r_epoch r = EHandshake \/ r_epoch r = EOneRtt) /\
     recv c r now = mkC (c_is_client c) (c_keys_initial c) (c_keys_handshake c) (c_keys_onertt c) (c_pair c) (c_sp_initial c) (c_sp_handshake c)
                      (c_sp_onertt c) true (c_rescheduled c + 1) (c_connected c) (c_close c) (c_close_at c) (c_delivered c)).
  Proof.
    intros c r now K. unfold recv_packet, decrypt. rewrite K. cbn [negb].
    destruct (c_is_client c) eqn:IC; [|left; reflexivity]. destruct (c_crypto_retransmitted c) eqn:RT.
    - left. rewrite Bool.andb_false_r. reflexivity.
    - destruct (r_epoch r) eqn:E; cbn; auto 6.
  Qed.

  Lemma key_unavailable_server_no_effect : forall c r now, has_keys c (r_epoch r) = false -> c_is_client c = false -> recv c r now = c.
  Proof. intros c r now K S. destruct (key_unavailable_effect c r now K) as [H | (H & _)]; [exact H | congruence]. Qed.

  Fixpoint recv_all (c : conn) (rs : list (rpacket * Z)) : conn :=
    match rs with [] => c | (r, now) :: t => recv_all (recv c r now) t end.

  Lemma keys_constant : forall c r now e, has_keys (recv c r now) e = has_keys c e.
  Proof.
    intros c r now e. unfold recv_packet. destruct (decrypt c r); try reflexivity.
    - destruct (c_is_client c && (epoch_eqb (r_epoch r) EHandshake || epoch_eqb (r_epoch r) EOneRtt) && negb (c_crypto_retransmitted c)); destruct e; reflexivity.
    - destruct (negb (Z.land (r_first r) (if epoch_eqb (r_epoch r) EOneRtt then 24 else 12) =? 0)); [destruct e; reflexivity|].
      destruct (frames (r_payload r)) as [el err].
      destruct (r_epoch r), err; cbn; try (destruct e; reflexivity);
        match goal with |- context [match ?x with Some _ => _ | None => _ end] => destruct x end; cbn;
        try (destruct e; reflexivity);
        repeat match goal with |- context [if ?b then _ else _] => destruct b end; destruct e; reflexivity.
  Qed.

  (* no LATER effect: in any sequence of received packets, the unauthentic ones can be deleted without changing the final state *)
  Lemma unauthentic_packets_no_later_effect_lemma : forall rs c,
    recv_all c rs = recv_all c (filter (fun rn => negb (has_keys c (r_epoch (fst rn)) && match q_auth (r_q (fst rn)) with None => true | Some _ => false end)) rs).
  Proof.
    induction rs as [|[r now] t IH]; intros c; [reflexivity|]. cbn [filter fst].
    destruct (has_keys c (r_epoch r)) eqn:K; cbn [andb negb].
    - destruct (q_auth (r_q r)) eqn:A; cbn [negb recv_all].
      + rewrite IH. f_equal. apply filter_ext. intros [r' n']. cbn [fst]. rewrite keys_constant. reflexivity.
      + rewrite (unauthentic_packet_no_effect_conn_lemma c r now K A). apply IH.
    - cbn [recv_all]. rewrite IH. f_equal. apply filter_ext. intros [r' n']. cbn [fst]. rewrite keys_constant. reflexivity.
  Qed.

  (* the reserved bits are looked at only after the packet has authenticated: then the connection is closed with
     PROTOCOL_VIOLATION, nothing is delivered, no packet number is recorded -- but a remote key update has already happened *)
  Lemma reserved_bits_checked_after_decrypt : forall c r now p',
    decrypt c r = Opened p' -> Z.land (r_first r) (if epoch_eqb (r_epoch r) EOneRtt then 24 else 12) <> 0 ->
    let c' := recv c r now in
    c_close c' = Some PROTOCOL_VIOLATION /\ c_delivered c' = c_delivered c /\ c_pair c' = p' /\
    c_sp_initial c' = c_sp_initial c /\ c_sp_handshake c' = c_sp_handshake c /\ c_sp_onertt c' = c_sp_onertt c /\ c_close_at c' = c_close_at c.
  Proof.
    intros c r now p' D R. cbv zeta. unfold recv_packet. rewrite D.
    destruct (Z.land (r_first r) (if epoch_eqb (r_epoch r) EOneRtt then 24 else 12) =? 0) eqn:E; [apply Z.eqb_eq in E; contradiction|].
    cbn. repeat split; reflexivity.
  Qed.
End P.

(* the premises are satisfiable: a server with all keys, a forged 1-RTT packet carrying the other key phase bit *)
Example unauthentic_example :
  let sp := mkSp 7 6 100 [5; 6] None false in
  let c := mkC false true true true pair_init sp sp sp false 0 true None 500 [] in
  recv_packet (fun _ => (true, None)) 60 1 c (mkR EOneRtt (mkQ None 1 false) 64 7 [1; 2; 3]) 200 = c.
Proof. reflexivity. Qed.
