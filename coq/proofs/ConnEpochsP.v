(* C05: proofs about model/ConnEpochs.v -- the epoch-keyed tables of QuicConnection.

   Invariant: the KEY LISTS of the four tables are the ones _initialize created, forever ([inv]).  It is kept by every
   event when _discard_epoch's generated body removes nothing ([no_removal]); under it every subscript the receive /
   send path performs hits a key that _initialize created -- which keys those are is checked on the GENERATED tables
   (frame_table's allowed epochs for ACK / CRYPTO, TLS_OUTPUT_EPOCHS, TLS_KEY_EPOCHS, INIT_CRYPTOS .. INIT_SPACES): [key_facts]. *)
From Coq Require Import ZArith List Bool Lia String.
From AQ Require Import lib.Base model.Frames gen.C05Tables gen.C05Epochs model.ConnRecv model.ConnEpochs.
From AQ Require gen.TlsDispatch model.TlsRecv proofs.TlsRecvP model.StreamRecv.
Import ListNotations.
Open Scope Z_scope.

(* ---------- dicts *)
Lemma dhas_keys : forall k d, dhas k d = zmem k (dkeys d).
Proof.
  intros k d. unfold dhas, zmem, dkeys. induction d as [|[k' v] r IH]; cbn; [reflexivity|].
  rewrite (Z.eqb_sym k k'). destruct (k' =? k); cbn; [reflexivity|]. exact IH.
Qed.

Lemma dkeys_dset : forall k v d, dhas k d = true -> dkeys (dset k v d) = dkeys d.
Proof.
  intros k v d. unfold dhas, dkeys. induction d as [|[k' v'] r IH]; cbn; [discriminate|].
  destruct (k' =? k); cbn; [reflexivity|]. intro H. f_equal. exact (IH H).
Qed.

Lemma dget_has : forall k d, dhas k d = true -> exists v, dget k d = Some v.
Proof. intros k d. unfold dhas. destruct (dget k d); [eauto|discriminate]. Qed.

Lemma zmem_in : forall x l, zmem x l = true <-> In x l.
Proof.
  intros x l. unfold zmem. rewrite existsb_exists. split.
  - intros [y [Hi He]]. apply Z.eqb_eq in He. subst. exact Hi.
  - intro Hi. exists x. split; [exact Hi|apply Z.eqb_refl].
Qed.

(* ---------- the invariant *)
Definition K (t : tab) : list Z := dkeys (tget t initialize_tabs).
Definition inv (T : etabs) : Prop := forall t, dkeys (tget t T) = K t.

Lemma inv_init : inv initialize_tabs.
Proof. intro t. reflexivity. Qed.

Lemma inv_tput : forall T t d, inv T -> dkeys d = K t -> inv (tput t d T).
Proof. intros T t d Hi Hd t'. specialize (Hi t'). destruct t, t'; cbn in *; assumption. Qed.

Lemma inv_has : forall T t k, inv T -> zmem k (K t) = true -> dhas k (tget t T) = true.
Proof. intros T t k Hi Hk. rewrite dhas_keys, (Hi t). exact Hk. Qed.

Lemma need_ok : forall T t k, inv T -> zmem k (K t) = true -> need t k T = EOk T.
Proof. intros T t k Hi Hk. unfold need. rewrite (inv_has T t k Hi Hk). reflexivity. Qed.

Lemma need_all_ok : forall T t ks, inv T -> (forall k, In k ks -> zmem k (K t) = true) -> need_all t ks T = EOk T.
Proof.
  intros T t ks Hi. induction ks as [|k r IH]; intro H; cbn; [reflexivity|].
  rewrite (need_ok T t k Hi (H k (or_introl eq_refl))). cbn. apply IH. intros k' Hk'. apply H. right. exact Hk'.
Qed.

Lemma inv_dset : forall T t k v, inv T -> zmem k (K t) = true -> inv (tput t (dset k v (tget t T)) T).
Proof.
  intros T t k v Hi Hk. apply inv_tput; [exact Hi|]. rewrite dkeys_dset; [apply Hi|]. exact (inv_has T t k Hi Hk).
Qed.

(* ---------- facts about the GENERATED tables, by computation *)
Definition sub (a b : list Z) : bool := forallb (fun k => zmem k b) a.

Lemma sub_in : forall a b k, sub a b = true -> In k a -> zmem k b = true.
Proof. intros a b k H Hi. unfold sub in H. rewrite forallb_forall in H. exact (H k Hi). Qed.

Definition frame_row_ok (row : Z * (handler * list Z)) : bool :=
  match fst (snd row) with
  | H_handle_ack_frame => sub (snd (snd row)) (K TSpaces)
  | H_handle_crypto_frame => sub (snd (snd row)) (K TStreams)
  | _ => true
  end.

(* which keys the receive / send path subscripts with, against the keys _initialize creates *)
Definition key_facts : bool :=
  forallb frame_row_ok frame_table                                   (* ACK / CRYPTO are not allowed in an epoch without space / stream *)
  && sub TLS_OUTPUT_EPOCHS (K TBuffers)                              (* output_buf[Epoch.X] *)
  && sub TLS_KEY_EPOCHS (K TCryptos)                                 (* _update_traffic_key *)
  && sub (K TBuffers) (K TStreams)                                   (* _push_crypto_data *)
  && sub (K TSpaces) (K TCryptos)                                    (* _discard_epoch / _close_end *)
  && sub [EPOCH_INITIAL; EPOCH_HANDSHAKE; EPOCH_ONE_RTT] (K TSpaces) (* receive_datagram, _write_*, _discard_epoch(INITIAL / HANDSHAKE) *)
  && sub [EPOCH_INITIAL; EPOCH_HANDSHAKE; EPOCH_ONE_RTT] (K TStreams)
  && sub [EPOCH_INITIAL; EPOCH_ZERO_RTT; EPOCH_HANDSHAKE; EPOCH_ONE_RTT] (K TCryptos).

Lemma key_facts_hold : key_facts = true.
Proof. vm_compute. reflexivity. Qed.

Lemma kf_split :
  forallb frame_row_ok frame_table = true /\ sub TLS_OUTPUT_EPOCHS (K TBuffers) = true /\
  sub TLS_KEY_EPOCHS (K TCryptos) = true /\ sub (K TBuffers) (K TStreams) = true /\
  sub (K TSpaces) (K TCryptos) = true /\ sub [EPOCH_INITIAL; EPOCH_HANDSHAKE; EPOCH_ONE_RTT] (K TSpaces) = true /\
  sub [EPOCH_INITIAL; EPOCH_HANDSHAKE; EPOCH_ONE_RTT] (K TStreams) = true /\
  sub [EPOCH_INITIAL; EPOCH_ZERO_RTT; EPOCH_HANDSHAKE; EPOCH_ONE_RTT] (K TCryptos) = true.
Proof.
  pose proof key_facts_hold as H. unfold key_facts in H.
  repeat (apply andb_true_iff in H; destruct H as [H ?]). repeat split; assumption.
Qed.

Lemma k_spaces : forall e, In e [EPOCH_INITIAL; EPOCH_HANDSHAKE; EPOCH_ONE_RTT] -> zmem e (K TSpaces) = true.
Proof. intros e. apply sub_in. apply kf_split. Qed.
Lemma k_streams : forall e, In e [EPOCH_INITIAL; EPOCH_HANDSHAKE; EPOCH_ONE_RTT] -> zmem e (K TStreams) = true.
Proof. intros e. apply sub_in. apply kf_split. Qed.
Lemma k_cryptos : forall e, In e [EPOCH_INITIAL; EPOCH_ZERO_RTT; EPOCH_HANDSHAKE; EPOCH_ONE_RTT] -> zmem e (K TCryptos) = true.
Proof. intros e. apply sub_in. apply kf_split. Qed.
Lemma k_spaces_cryptos : forall e, zmem e (K TSpaces) = true -> zmem e (K TCryptos) = true.
Proof. intros e H. apply (sub_in (K TSpaces)); [apply kf_split|]. apply zmem_in. exact H. Qed.

Lemma lookup_frame_in : forall ft tbl v, lookup_frame ft tbl = Some v -> exists k, In (k, v) tbl.
Proof.
  intros ft tbl v. induction tbl as [|[k w] r IH]; cbn; [discriminate|].
  destruct (k =? ft).
  - intro H. inversion H; subst. exists k. left. reflexivity.
  - intro H. destruct (IH H) as [k' Hk']. exists k'. right. exact Hk'.
Qed.

Lemma frame_row : forall ft h epochs, lookup_frame ft frame_table = Some (h, epochs) ->
  frame_row_ok (ft, (h, epochs)) = true.
Proof.
  intros ft h epochs H. destruct (lookup_frame_in _ _ _ H) as [k Hk].
  destruct kf_split as [Hf _]. rewrite forallb_forall in Hf. specialize (Hf _ Hk).
  unfold frame_row_ok in *. cbn in *. exact Hf.
Qed.

(* ---------- _discard_epoch keeps the key lists when its body removes nothing *)
Lemma run_dop_ok : forall op e T, dop_keeps op = true -> inv T -> zmem e (K TSpaces) = true ->
  exists T', run_dop op e T = EOk T' /\ inv T'.
Proof.
  intros op e T Hk Hi He. pose proof (k_spaces_cryptos e He) as Hc.
  destruct op; cbn in Hk; try discriminate; cbn [run_dop].
  - rewrite (need_ok T TCryptos e Hi Hc). cbn. eexists; split; [reflexivity|]. exact (inv_dset T TCryptos e false Hi Hc).
  - eexists; split; [reflexivity|exact Hi].
  - rewrite (need_ok T TSpaces e Hi He). eexists; split; [reflexivity|exact Hi].
  - rewrite (need_ok T TSpaces e Hi He). cbn. eexists; split; [reflexivity|]. exact (inv_dset T TSpaces e true Hi He).
Qed.

Lemma run_dops_ok : forall body e T, no_removal body = true -> inv T -> zmem e (K TSpaces) = true ->
  exists T', run_dops body e T = EOk T' /\ inv T'.
Proof.
  induction body as [|op r IH]; intros e T Hn Hi He; cbn.
  - eexists; split; [reflexivity|exact Hi].
  - unfold no_removal in Hn. cbn in Hn. apply andb_true_iff in Hn. destruct Hn as [Hop Hr].
    destruct (run_dop_ok op e T Hop Hi He) as [T1 [E1 I1]]. rewrite E1. cbn. exact (IH e T1 Hr I1 He).
Qed.

Lemma discard_ok : forall body e T, no_removal body = true -> inv T -> zmem e (K TSpaces) = true ->
  exists T', discard_epoch_with body e T = EOk T' /\ inv T'.
Proof.
  intros body e T Hn Hi He. unfold discard_epoch_with.
  destruct (dget_has e (t_spaces T) (inv_has T TSpaces e Hi He)) as [v Hv]. rewrite Hv.
  destruct v; [eexists; split; [reflexivity|exact Hi]|]. exact (run_dops_ok body e T Hn Hi He).
Qed.

Lemma discard_all_ok : forall body ks T, no_removal body = true -> inv T ->
  (forall k, In k ks -> zmem k (K TSpaces) = true) ->
  exists T', discard_all body ks T = EOk T' /\ inv T'.
Proof.
  intros body ks. induction ks as [|k r IH]; intros T Hn Hi Hk; cbn.
  - eexists; split; [reflexivity|exact Hi].
  - destruct (discard_ok body k T Hn Hi (Hk k (or_introl eq_refl))) as [T1 [E1 I1]]. rewrite E1. cbn.
    apply IH; [exact Hn|exact I1|]. intros k' H'. apply Hk. right. exact H'.
Qed.

(* ---------- the TLS engine's subscripts *)
Lemma install_keys_ok : forall ks T, inv T -> (forall k, In k ks -> zmem k (K TCryptos) = true) ->
  exists T', install_keys ks T = EOk T' /\ inv T'.
Proof.
  induction ks as [|k r IH]; intros T Hi Hk; cbn.
  - eexists; split; [reflexivity|exact Hi].
  - pose proof (Hk k (or_introl eq_refl)) as Hc. rewrite (need_ok T TCryptos k Hi Hc). cbn.
    apply IH; [exact (inv_dset T TCryptos k true Hi Hc)|]. intros k' H'. apply Hk. right. exact H'.
Qed.

Lemma tls_tables_ok : forall u T, inv T -> exists T', tls_tables u T = EOk T' /\ inv T'.
Proof.
  intros [[bufs keys] switch] T Hi. unfold tls_tables.
  rewrite need_all_ok; [|exact Hi|].
  2:{ intros k Hk. apply filter_In in Hk. destruct Hk as [_ Hk].
      apply (sub_in TLS_OUTPUT_EPOCHS); [apply kf_split|]. apply zmem_in. exact Hk. }
  cbn [ebind].
  destruct (install_keys_ok (filter (fun e => zmem e TLS_KEY_EPOCHS) keys) T Hi) as [T1 [E1 I1]].
  { intros k Hk. apply filter_In in Hk. destruct Hk as [_ Hk].
    apply (sub_in TLS_KEY_EPOCHS); [apply kf_split|]. apply zmem_in. exact Hk. }
  rewrite E1. cbn [ebind]. eexists; split; [reflexivity|].
  destruct switch; [|exact I1].
  apply (inv_dset T1 TCryptos EPOCH_INITIAL true I1). apply k_cryptos. left. reflexivity.
Qed.

Lemma push_ok : forall T, inv T -> push_crypto_data T = EOk T.
Proof.
  intros T Hi. unfold push_crypto_data. apply need_all_ok; [exact Hi|].
  intros k Hk. pose proof (Hi TBuffers) as Hb. cbn [tget] in Hb. rewrite Hb in Hk.
  apply (sub_in (K TBuffers)); [apply kf_split|exact Hk].
Qed.

(* ---------- frames *)
Definition sinv (s : est) : Prop := inv (e_tabs s).

Lemma hs_in_spaces : zmem EPOCH_HANDSHAKE (K TSpaces) = true.
Proof. apply k_spaces. right. left. reflexivity. Qed.
Lemma init_in_spaces : zmem EPOCH_INITIAL (K TSpaces) = true.
Proof. apply k_spaces. left. reflexivity. Qed.

Lemma handler_tables_ok : forall body ft h epochs s epoch u r,
  no_removal body = true -> sinv s ->
  lookup_frame ft frame_table = Some (h, epochs) -> zmem epoch epochs = true ->
  exists s', handler_tables body h s epoch u r = EOk s' /\ sinv s'.
Proof.
  intros body ft h epochs s epoch u r Hn Hs Hl He.
  pose proof (frame_row ft h epochs Hl) as Hrow. unfold frame_row_ok in Hrow. cbn in Hrow.
  destruct h; cbn [handler_tables]; try (eexists; split; [reflexivity|exact Hs]).
  - (* ACK *)
    assert (Hk : zmem epoch (K TSpaces) = true) by (apply (sub_in epochs); [exact Hrow|apply zmem_in; exact He]).
    rewrite (need_ok _ TSpaces epoch Hs Hk). cbn. eexists; split; [reflexivity|exact Hs].
  - (* CRYPTO *)
    assert (Hk : zmem epoch (K TStreams) = true) by (apply (sub_in epochs); [exact Hrow|apply zmem_in; exact He]).
    rewrite (need_ok _ TStreams epoch Hs Hk). cbn [ebind].
    destruct (tls_tables_ok u (e_tabs s) Hs) as [T1 [E1 I1]]. rewrite E1. cbn [ebind].
    destruct r; try (eexists; split; [reflexivity|exact I1]).
    rewrite (push_ok T1 I1). cbn [ebind].
    destruct (negb (e_complete s) && tls_post_handshake st); [|eexists; split; [reflexivity|exact I1]].
    destruct (negb (e_client s)); [|eexists; split; [reflexivity|exact I1]].
    destruct (discard_ok body EPOCH_HANDSHAKE T1 Hn I1 hs_in_spaces) as [T2 [E2 I2]]. rewrite E2. cbn [ebind].
    eexists; split; [reflexivity|exact I2].
  - (* HANDSHAKE_DONE *)
    destruct r; try (eexists; split; [reflexivity|exact Hs]).
    destruct (e_client s && negb (e_confirmed s)); [|eexists; split; [reflexivity|exact Hs]].
    destruct (discard_ok body EPOCH_HANDSHAKE (e_tabs s) Hn Hs hs_in_spaces) as [T2 [E2 I2]]. rewrite E2. cbn [ebind].
    eexists; split; [reflexivity|exact I2].
Qed.

Lemma eframe_step_ok : forall body patched s st epoch u b, no_removal body = true -> sinv s ->
  match eframe_step body patched s st epoch u b with
  | ESNext s' _ _ => sinv s'
  | ESStop s' => sinv s'
  | ESKey _ _ => False
  end.
Proof.
  intros body patched s st epoch u b Hn Hs. unfold eframe_step.
  destruct (pull_uint_var b) as [ft b'|]; [|exact Hs].
  destruct (lookup_frame ft frame_table) as [[h epochs]|] eqn:Hl; [|exact Hs].
  destruct (zmem epoch epochs) eqn:He; cbn [negb]; [|exact Hs].
  destruct (pre_log (run_handler patched h st epoch ft b')); [exact Hs|].
  destruct (handler_tables_ok body ft h epochs s epoch u (run_handler patched h st epoch ft b') Hn Hs Hl He)
    as [s' [E I]].
  rewrite E. destruct (run_handler patched h st epoch ft b'); exact I.
Qed.

Lemma epayload_loop_ok : forall fuel body patched s st epoch us b, no_removal body = true -> sinv s ->
  exists s', epayload_loop fuel body patched s st epoch us b = EOk s' /\ sinv s'.
Proof.
  induction fuel as [|fuel IH]; intros body patched s st epoch us b Hn Hs.
  - destruct b; cbn; eexists; split; try reflexivity; exact Hs.
  - destruct b as [|x b]; [cbn; eexists; split; [reflexivity|exact Hs]|].
    cbn [epayload_loop].
    pose proof (eframe_step_ok body patched s st epoch (hd tlsuse0 us) (x :: b) Hn Hs) as H.
    destruct (eframe_step body patched s st epoch (hd tlsuse0 us) (x :: b)) as [s' st' rest|s'|t k].
    + exact (IH body patched s' st' epoch (tl us) rest Hn H).
    + eexists; split; [reflexivity|exact H].
    + contradiction.
Qed.

(* ---------- packets, sending, _close_end *)
Lemma pspace_cases : forall p, In (epoch_of_pspace p) [EPOCH_INITIAL; EPOCH_ZERO_RTT; EPOCH_HANDSHAKE; EPOCH_ONE_RTT].
Proof. destruct p; cbn; auto. Qed.

Lemma epacket_ok : forall body patched s p st us payload, no_removal body = true -> sinv s ->
  exists s', epacket body patched s p st us payload = EOk s' /\ sinv s'.
Proof.
  intros body patched s p st us payload Hn Hs. unfold epacket.
  set (epoch := epoch_of_pspace p).
  assert (E1 : (if epoch =? EPOCH_INITIAL then EOk (e_tabs s) else need TCryptos epoch (e_tabs s)) = EOk (e_tabs s)).
  { destruct (epoch =? EPOCH_INITIAL); [reflexivity|]. apply need_ok; [exact Hs|]. apply k_cryptos. apply pspace_cases. }
  rewrite E1. cbn [ebind].
  assert (E2 : need TSpaces (if epoch =? EPOCH_ZERO_RTT then EPOCH_ONE_RTT else epoch) (e_tabs s) = EOk (e_tabs s)).
  { apply need_ok; [exact Hs|]. apply k_spaces. unfold epoch. destruct p; cbn; auto. }
  rewrite E2. cbn [ebind].
  destruct (negb (e_client s) && (epoch =? EPOCH_HANDSHAKE)).
  - destruct (discard_ok body EPOCH_INITIAL (e_tabs s) Hn Hs init_in_spaces) as [T1 [Ed I1]]. rewrite Ed. cbn [ebind].
    apply epayload_loop_ok; [exact Hn|exact I1].
  - cbn [ebind]. apply epayload_loop_ok; [exact Hn|exact Hs].
Qed.

Lemma write_handshake_ok : forall e T, inv T -> In e [EPOCH_INITIAL; EPOCH_HANDSHAKE; EPOCH_ONE_RTT] ->
  write_handshake e T = EOk T.
Proof.
  intros e T Hi He. unfold write_handshake.
  assert (Hc : zmem e (K TCryptos) = true) by (apply k_spaces_cryptos, k_spaces; exact He).
  destruct (dget_has e (t_cryptos T) (inv_has T TCryptos e Hi Hc)) as [v Hv]. rewrite Hv.
  destruct v; [|reflexivity].
  rewrite (need_ok T TStreams e Hi (k_streams e He)). cbn. exact (need_ok T TSpaces e Hi (k_spaces e He)).
Qed.

Lemma write_application_ok : forall T, inv T -> write_application T = EOk T.
Proof.
  intros T Hi. unfold write_application.
  assert (H1 : In EPOCH_ONE_RTT [EPOCH_INITIAL; EPOCH_HANDSHAKE; EPOCH_ONE_RTT]) by (cbn; auto).
  assert (Hc1 : zmem EPOCH_ONE_RTT (K TCryptos) = true) by (apply k_cryptos; cbn; auto).
  assert (Hc0 : zmem EPOCH_ZERO_RTT (K TCryptos) = true) by (apply k_cryptos; cbn; auto).
  destruct (dget_has _ _ (inv_has T TCryptos _ Hi Hc1)) as [v Hv]. cbn [tget] in Hv. rewrite Hv.
  destruct v.
  - rewrite (need_ok T TStreams _ Hi (k_streams _ H1)). cbn. exact (need_ok T TSpaces _ Hi (k_spaces _ H1)).
  - destruct (dget_has _ _ (inv_has T TCryptos _ Hi Hc0)) as [w Hw]. cbn [tget] in Hw. rewrite Hw.
    destruct w; [|reflexivity]. exact (need_ok T TSpaces _ Hi (k_spaces _ H1)).
Qed.

Lemma esend_ok : forall body s sent, no_removal body = true -> sinv s ->
  exists s', esend body s sent = EOk s' /\ sinv s'.
Proof.
  intros body s sent Hn Hs. unfold esend.
  assert (E1 : (if negb (e_confirmed s)
                then ebind (write_handshake EPOCH_INITIAL (e_tabs s)) (write_handshake EPOCH_HANDSHAKE)
                else EOk (e_tabs s)) = EOk (e_tabs s)).
  { destruct (negb (e_confirmed s)); [|reflexivity].
    rewrite write_handshake_ok; [|exact Hs|cbn; auto]. cbn. apply write_handshake_ok; [exact Hs|cbn; auto]. }
  rewrite E1. cbn [ebind]. rewrite (write_application_ok _ Hs). cbn [ebind].
  set (sent' := filter _ sent).
  rewrite need_all_ok; [|exact Hs|].
  2:{ intros k Hk. apply in_map_iff in Hk. destruct Hk as [e [Hke Hin]]. subst k.
      unfold sent' in Hin. apply filter_In in Hin. destruct Hin as [_ Hv].
      destruct (e =? EPOCH_ZERO_RTT) eqn:E0; [apply k_spaces; cbn; auto|].
      (* a pair that exists has one of the keys of _cryptos; not ZERO_RTT: a key of _spaces *)
      assert (Hh : dhas e (t_cryptos (e_tabs s)) = true).
      { unfold dhas. destruct (dget e (t_cryptos (e_tabs s))); [reflexivity|discriminate]. }
      rewrite dhas_keys in Hh. pose proof (Hs TCryptos) as Hkc. cbn [tget] in Hkc. rewrite Hkc in Hh.
      revert Hh E0. generalize e. clear. intros e.
      assert (Hall : forallb (fun k => (k =? EPOCH_ZERO_RTT) || zmem k (K TSpaces)) (K TCryptos) = true)
        by (vm_compute; reflexivity).
      intros Hh E0. rewrite forallb_forall in Hall. apply zmem_in in Hh. specialize (Hall e Hh).
      rewrite E0 in Hall. exact Hall. }
  cbn [ebind].
  destruct (zmem EPOCH_HANDSHAKE sent' && e_client s).
  - destruct (discard_ok body EPOCH_INITIAL (e_tabs s) Hn Hs init_in_spaces) as [T1 [Ed I1]]. rewrite Ed. cbn [ebind].
    eexists; split; [reflexivity|exact I1].
  - eexists; split; [reflexivity|exact Hs].
Qed.

Lemma estep_ev_ok : forall body patched s e, no_removal body = true -> sinv s ->
  exists s', estep_ev body patched s e = EOk s' /\ sinv s'.
Proof.
  intros body patched s e Hn Hs. destruct e; cbn [estep_ev].
  - eexists; split; [reflexivity|exact inv_init].
  - apply epacket_ok; assumption.
  - apply esend_ok; assumption.
  - destruct (discard_all_ok body (dkeys (t_spaces (e_tabs s))) (e_tabs s) Hn Hs) as [T1 [E1 I1]].
    { intros k Hk. pose proof (Hs TSpaces) as Hk'. cbn [tget] in Hk'. rewrite Hk' in Hk. apply zmem_in. exact Hk. }
    rewrite E1. cbn. eexists; split; [reflexivity|exact I1].
Qed.

Lemma erun_ok : forall body patched evs s, no_removal body = true -> sinv s ->
  exists s', erun body patched s evs = EOk s' /\ sinv s'.
Proof.
  intros body patched evs. induction evs as [|e r IH]; intros s Hn Hs; cbn.
  - eexists; split; [reflexivity|exact Hs].
  - destruct (estep_ev_ok body patched s e Hn Hs) as [s1 [E1 I1]]. rewrite E1. cbn. exact (IH s1 Hn I1).
Qed.

Lemma inv_full : forall T, inv T -> tabs_full T = true.
Proof.
  intros T Hi. unfold tabs_full, has_all.
  assert (H : forall t ks, forallb (fun k => zmem k (K t)) ks = true -> forallb (fun k => dhas k (tget t T)) ks = true).
  { intros t ks Hk. rewrite forallb_forall in *. intros k Hin. rewrite dhas_keys, (Hi t). exact (Hk k Hin). }
  pose proof (H TCryptos INIT_CRYPTOS) as H1. pose proof (H TBuffers INIT_BUFFERS) as H2.
  pose proof (H TStreams INIT_STREAMS) as H3. pose proof (H TSpaces INIT_SPACES) as H4. cbn [tget] in H1, H2, H3, H4.
  rewrite H1, H2, H3, H4; try reflexivity; vm_compute; reflexivity.
Qed.

(* the generated _discard_epoch removes nothing: THE obligation a `_discard_epoch` that deletes entries breaks *)
Lemma discard_body_keeps : no_removal DISCARD_BODY = true.
Proof. vm_compute. reflexivity. Qed.

(* ---------- the theorem: after _initialize, whatever arrives and whatever is sent, no epoch-table subscript fails,
   and every key _initialize created is still there *)
Lemma epoch_tables_total_pf : forall patched is_client complete confirmed evs,
  exists s, erun DISCARD_BODY patched (mkE initialize_tabs is_client complete confirmed) evs = EOk s /\
            tabs_full (e_tabs s) = true /\
            dkeys (t_cryptos (e_tabs s)) = INIT_CRYPTOS /\ dkeys (t_buffers (e_tabs s)) = INIT_BUFFERS /\
            dkeys (t_streams (e_tabs s)) = INIT_STREAMS /\ dkeys (t_spaces (e_tabs s)) = INIT_SPACES.
Proof.
  intros patched is_client complete confirmed evs.
  destruct (erun_ok DISCARD_BODY patched evs (mkE initialize_tabs is_client complete confirmed) discard_body_keeps inv_init)
    as [s [E I]].
  exists s. split; [exact E|]. split; [exact (inv_full _ I)|].
  pose proof (I TCryptos) as H1. pose proof (I TBuffers) as H2. pose proof (I TStreams) as H3. pose proof (I TSpaces) as H4.
  cbn [tget] in H1, H2, H3, H4. rewrite H1, H2, H3, H4. vm_compute. repeat split; reflexivity.
Qed.

(* the same for ANY _discard_epoch body that removes nothing, from ANY state whose key lists are _initialize's *)
Lemma epoch_tables_total_gen_pf : forall body patched s evs,
  no_removal body = true -> (forall t, dkeys (tget t (e_tabs s)) = dkeys (tget t initialize_tabs)) ->
  exists s', erun body patched s evs = EOk s' /\ tabs_full (e_tabs s') = true.
Proof.
  intros body patched s evs Hn Hs. destruct (erun_ok body patched evs s Hn Hs) as [s' [E I]].
  exists s'. split; [exact E|exact (inv_full _ I)].
Qed.

(* a discarded epoch's pair is torn down and its space marked; stream / buffer / space ENTRIES stay *)
Lemma discard_keeps_entries_pf : forall e T T', inv T -> zmem e (K TSpaces) = true ->
  dget e (t_spaces T) = Some false ->
  discard_epoch_with DISCARD_BODY e T = EOk T' ->
  dget e (t_cryptos T') = Some false /\ dget e (t_spaces T') = Some true /\
  t_streams T' = t_streams T /\ t_buffers T' = t_buffers T.
Proof.
  intros e T T' Hi He Hd. unfold discard_epoch_with. rewrite Hd.
  change DISCARD_BODY with [DTeardown; DTeardownInitials; DLossDiscard; DMarkDiscarded].
  cbn [run_dops run_dop].
  pose proof (k_spaces_cryptos e He) as Hc.
  rewrite (need_ok T TCryptos e Hi Hc). cbn [ebind].
  pose proof (inv_dset T TCryptos e false Hi Hc) as I1. cbn [tget] in I1.
  rewrite (need_ok _ TSpaces e I1 He). cbn [ebind].
  rewrite (need_ok _ TSpaces e I1 He). cbn [ebind].
  intro H. inversion H; subst; clear H. cbn.
  assert (G : forall k v d, dhas k d = true -> dget k (dset k v d) = Some v).
  { intros k v d. unfold dhas. induction d as [|[k' v'] r IH]; cbn; [discriminate|].
    destruct (k' =? k) eqn:Ek; cbn; rewrite Ek; [reflexivity|exact IH]. }
  repeat split; apply G.
  - exact (inv_has T TCryptos e Hi Hc).
  - exact (inv_has T TSpaces e Hi He).
Qed.

(* ---------- the listings the model was written against are the listings of the current source *)
Lemma epoch_sites_known : epoch_sites = epoch_sites_expected.
Proof. vm_compute. reflexivity. Qed.

Lemma head_body_is_generated : DISCARD_BODY = head_discard_body.
Proof. reflexivity. Qed.

(* ---------- the refuted twin: _discard_epoch that ALSO pops the stream and buffer entries (seeded/C05/seed5).
   A server that expects the client's Finished, ONE Handshake packet [CRYPTO(Finished), CRYPTO(offset 0, length 0)]:
   the first frame completes the handshake and discards the Handshake epoch in the middle of the packet, the frame
   loop goes on, the second frame subscripts _crypto_streams[HANDSHAKE]. *)
Definition tls_server_expect_finished : tls_side :=
  mkTls TlsRecvP.cfg_default_server
        (TlsRecv.mkCtx TlsDispatch.SERVER_EXPECT_FINISHED [] false None false 2 false) [[TlsRecv.orc0]].
Definition fin_witness_state : cst :=
  mkCst false 0 1048576 128 128 1048576 1048576 (-1) 1 0 2 0 0 0 8
        tls_server_expect_finished [0] [] [0] [] [] [] StreamRecv.recv_init StreamRecv.recv_init StreamRecv.recv_init None [].
Definition finished_frame : list Z := [6; 0; 36; 20; 0; 0; 32] ++ repeat 7 32.
Definition fin_witness_payload : list Z := finished_frame ++ [6; 0; 0].
Definition fin_witness : list eev := [EvPacket PHandshake fin_witness_state [] fin_witness_payload].

Lemma seeded_discard_raises : erun seeded_discard_body true (einit false) fin_witness = EKey TStreams EPOCH_HANDSHAKE.
Proof. vm_compute. reflexivity. Qed.

Lemma epoch_tables_discard_streams_refuted_pf :
  exists is_client evs, erun seeded_discard_body true (einit is_client) evs = EKey TStreams EPOCH_HANDSHAKE.
Proof. exists false, fin_witness. exact seeded_discard_raises. Qed.

(* the same packet on the unchanged body: both frames are handled, the Handshake pair is torn down, its space is
   marked discarded, its stream and buffer are still there; the frame layer alone (ConnRecv) says "2 frames, fine" *)
Example head_discard_mid_packet :
  exists s, erun DISCARD_BODY true (einit false) fin_witness = EOk s /\
            e_complete s = true /\ e_confirmed s = true /\
            dget EPOCH_HANDSHAKE (t_cryptos (e_tabs s)) = Some false /\
            dget EPOCH_HANDSHAKE (t_spaces (e_tabs s)) = Some true /\
            dget EPOCH_INITIAL (t_spaces (e_tabs s)) = Some true /\
            dhas EPOCH_HANDSHAKE (t_streams (e_tabs s)) = true /\
            dhas EPOCH_HANDSHAKE (t_buffers (e_tabs s)) = true /\
            receive_packet true fin_witness_state EPOCH_HANDSHAKE false false fin_witness_payload = OOk 2.
Proof. eexists. vm_compute. repeat split; reflexivity. Qed.

(* a lone Finished does not trip the seeded body either: the second frame in the SAME packet is what it takes; and a
   later Handshake packet would be dropped by decryption (keys torn down), which is why no ordinary flow shows it *)
Example seeded_single_frame_fine :
  exists s, erun seeded_discard_body true (einit false) [EvPacket PHandshake fin_witness_state [] finished_frame] = EOk s /\
            dhas EPOCH_HANDSHAKE (t_streams (e_tabs s)) = false.
Proof. eexists. vm_compute. split; reflexivity. Qed.

(* _write_handshake on the seeded body after the discard: guarded by the torn-down pair, no lookup of the popped stream *)
Example seeded_send_after_discard_fine :
  exists s, erun seeded_discard_body true (einit false)
              [EvPacket PHandshake fin_witness_state [] finished_frame; EvSend [EPOCH_ONE_RTT]; EvCloseEnd] = EOk s.
Proof. eexists. vm_compute. reflexivity. Qed.

(* ACK in a 0-RTT packet would subscript _spaces[ZERO_RTT], which _initialize never creates: the generated frame table
   forbids it (part of [key_facts]); with a table that allowed it the lookup fails *)
Example spaces_has_no_zero_rtt : need TSpaces EPOCH_ZERO_RTT initialize_tabs = EKey TSpaces EPOCH_ZERO_RTT.
Proof. vm_compute. reflexivity. Qed.

(* before _initialize every subscript fails (the constructor creates empty dicts): ConnDgram.v's [d_init] site *)
Example ctor_tables_empty : need TCryptos EPOCH_HANDSHAKE ctor_tabs = EKey TCryptos EPOCH_HANDSHAKE.
Proof. reflexivity. Qed.

(* ---------- the table layer is conservative over the frame layer: whenever it lets a frame through, ConnRecv.frame_step
   handles the same frame with the same resulting snapshot and rest; whenever it stops, so does ConnRecv.frame_step *)
Lemma eframe_step_conservative_pf : forall body patched s st epoch u b,
  match eframe_step body patched s st epoch u b with
  | ESNext _ st' rest => exists c, frame_step patched st epoch b = SNext st' rest c
  | ESStop _ => match frame_step patched st epoch b with SNext _ _ _ => False | _ => True end
  | ESKey _ _ => True
  end.
Proof.
  intros body patched s st epoch u b. unfold eframe_step, frame_step.
  destruct (pull_uint_var b) as [ft b'|]; [|exact I].
  destruct (lookup_frame ft frame_table) as [[h epochs]|]; [|exact I].
  destruct (negb (zmem epoch epochs)); [exact I|].
  destruct (run_handler patched h st epoch ft b') as [st' rest| |lg code ft'|st' rest|lg k] eqn:R; cbn [pre_log].
  - destruct (handler_tables body h s epoch u (HOk st' rest)); [eexists; reflexivity|exact I].
  - exact I.
  - destruct lg; [|exact I]. destruct (handler_tables body h s epoch u (HErr true code ft')); exact I.
  - destruct (handler_tables body h s epoch u (HFin st' rest)); [eexists; reflexivity|exact I].
  - destruct lg; [|exact I]. destruct (handler_tables body h s epoch u (HExn true k)); exact I.
Qed.
