(* C17: decode -> re-encode for ClientHello (nine known extension types, skipped non-ASCII ALPN names,
   pre_shared_key ordering).  Uses the extension-loop invariant of TlsReencodeExt.v. *)
From Coq Require Import ZArith List Bool Lia ZifyBool.
From AQ Require Import lib.Base lib.Tok model.Codec model.TlsCodec.
From AQ Require Import proofs.CodecProofs proofs.TlsCodecProofs proofs.TlsListProofs proofs.TlsRoundtrip
  proofs.TlsReencode proofs.TlsReencodeExt proofs.TlsReencodeExt2.

(* a list read by list_toks whose items are canonical *)
Lemma list_kpv {X} cap item (tok : X -> list Z) tr (P : X -> Prop) (wfx : X -> bool) b toks r :
  item_inv item tok tr P -> (forall x, P x -> wfx x = true) -> bytes_ok b -> list_toks cap item b = Ok (toks, r) ->
  (exists bw, kpv (dump_list tok) (forallb wfx) (fun l => [TBlock cap (flat_map tr l)]) toks bw /\ bw <= Zlen b - Zlen r) /\
  bytes_ok r.
Proof.
  intros I Hw Hb H. destruct (list_toks_inv cap _ _ _ _ _ _ _ I Hb H) as (xs & -> & -> & F & P' & Hr).
  split; [|exact Hr]. exists (Zlen (flat_tv (TBlock cap (flat_map tr xs)))). split.
  - exists xs. rewrite fits_single, flat_single. repeat split; auto.
    apply forallb_forall. intros v Hin. apply Hw. rewrite Forall_forall in P'. auto.
  - rewrite Zlen_app. lia.
Qed.

Lemma item_key_share_inv : item_inv item_key_share dump_ext t_ks (fun k => 0 <= fst k < 65536).
Proof.
  intros a bs a' r Hb H. unfold item_key_share, pull_uint16 in H.
  destruct (pull_be 2 bs) as [[g b1]|e] eqn:E; cbn [bind] in H; [|discriminate].
  destruct (pull_opaque 2 b1) as [[d b2]|e] eqn:E2; cbn [bind] in H; [|discriminate]. injection H as <- <-.
  destruct (pull_be_inv _ _ _ _ Hb E) as (-> & Hg & Hb1). change (256 ^ Z.of_nat 2) with 65536 in Hg.
  destruct (pull_opaque_inv _ _ _ _ Hb1 E2) as (-> & F & _ & Hr).
  exists (g, d). rewrite flat_ks, fits_ks. unfold dump_ext. cbn [fst snd]. rewrite <- app_assoc. repeat split; auto; lia.
Qed.

Lemma item_psk_identity_inv : item_inv item_psk_identity dump_psk_identity t_psk_identity (fun i => 0 <= snd i < 2 ^ 32).
Proof.
  intros a bs a' r Hb H. unfold item_psk_identity, pull_uint32 in H.
  destruct (pull_opaque 2 bs) as [[d b1]|e] eqn:E; cbn [bind] in H; [|discriminate].
  destruct (pull_be 4 b1) as [[age b2]|e] eqn:E2; cbn [bind] in H; [|discriminate]. injection H as <- <-.
  destruct (pull_opaque_inv _ _ _ _ Hb E) as (-> & F & _ & Hb1).
  destruct (pull_be_inv _ _ _ _ Hb1 E2) as (-> & Ha & Hr). change (256 ^ Z.of_nat 4) with (2 ^ 32) in Ha.
  exists (d, age). rewrite flat_pskid, fits_pskid. unfold dump_psk_identity. cbn [fst snd]. rewrite <- app_assoc.
  repeat split; auto; lia.
Qed.

Lemma item_opaque_inv cap : item_inv (item_opaque cap) out_bytes (fun d => [t_opaque cap d]) (fun _ => True).
Proof.
  intros a bs a' r Hb H. unfold item_opaque in H.
  destruct (pull_opaque cap bs) as [[d b1]|e] eqn:E; cbn [bind] in H; [|discriminate]. injection H as <- <-.
  destruct (pull_opaque_inv _ _ _ _ Hb E) as (-> & F & _ & Hr).
  exists d. rewrite flat_single, fits_single. repeat split; auto.
Qed.

Lemma server_name_kpv b toks r : bytes_ok b -> ('(d, r) <- pull_server_name b ;; Ok (out_bytes d, r)) = Ok (toks, r) ->
  (exists bw, kpv out_bytes is_ascii (fun n => [TBlock 2 [TInt 1 0; t_opaque 2 n]]) toks bw /\ bw <= Zlen b - Zlen r) /\
  bytes_ok r.
Proof.
  intros Hb H. destruct (pull_server_name b) as [[d r']|e] eqn:E; cbn [bind] in H; [|discriminate]. injection H as <- <-.
  unfold pull_server_name in E.
  assert (M := fun Hbody => pull_block_inv 2 _ (fun d its => its = [TInt 1 0; t_opaque 2 d] /\ is_ascii d = true) b d r' Hbody Hb E).
  feed M; [|destruct M as (its & -> & F & (-> & A) & Hr)].
  - intros len b0 v r0 Hb0 H0. unfold pull_uint8 in H0.
    destruct (pull_be 1 b0) as [[nt b1]|e] eqn:E1; cbn [bind] in H0; [|discriminate].
    destruct (negb (nt =? 0)) eqn:N; [discriminate|].
    destruct (pull_opaque 2 b1) as [[d0 b2]|e] eqn:E2; cbn [bind] in H0; [|discriminate].
    destruct (is_ascii d0) eqn:A; [|discriminate]. injection H0 as <- <-. assert (nt = 0) by lia. subst nt.
    destruct (pull_be_inv _ _ _ _ Hb0 E1) as (-> & _ & Hb1). destruct (pull_opaque_inv _ _ _ _ Hb1 E2) as (-> & Fo & _ & Hr0).
    exists [TInt 1 0; t_opaque 2 d0].
    rewrite !flat_seq_cons, flat_seq_nil, app_nil_r, flat_int, !fits_seq_cons, fits_int, Fo, <- app_assoc. repeat split; auto.
  - split; [|exact Hr]. exists (Zlen (flat_seq [TBlock 2 [TInt 1 0; t_opaque 2 d]])). split.
    + exists d. rewrite fits_single. repeat split; auto.
    + rewrite flat_single, Zlen_app. lia.
Qed.

Lemma alpn_kpv b toks r : bytes_ok b -> list_toks 2 item_alpn b = Ok (toks, r) ->
  (exists bw, kpv (dump_list out_bytes) (forallb is_ascii) (fun l => [t_opaques 2 1 l]) toks bw /\ bw <= Zlen b - Zlen r) /\
  bytes_ok r.
Proof.
  intros Hb H. unfold list_toks in H.
  destruct (pull_list 2 item_alpn acc0 b) as [[a r']|e] eqn:E; cbn [bind] in H; [|discriminate]. injection H as <- <-.
  destruct (alpn_list_inv _ _ _ Hb E) as (xs & -> & A & F & L & Hr). split; [|exact Hr].
  exists (Zlen (flat_seq [t_opaques 2 1 xs])). split.
  - exists xs. rewrite fits_single. repeat split; auto.
  - rewrite flat_single. exact L.
Qed.

Lemma psks_kpv b toks r : bytes_ok b ->
  ('(ids, b1) <- list_toks 2 item_psk_identity b ;; '(bd, b2) <- list_toks 2 (item_opaque 1) b1 ;; Ok (ids ++ bd, b2)) = Ok (toks, r) ->
  (exists bw, kpv dump_psks (fun p => forallb (fun i : list Z * Z => u32b (snd i)) (fst p)) t_offered_psks toks bw /\
              bw <= Zlen b - Zlen r) /\ bytes_ok r.
Proof.
  intros Hb H.
  destruct (list_toks 2 item_psk_identity b) as [[ids b1]|e] eqn:E1; cbn [bind] in H; [|discriminate].
  destruct (list_toks 2 (item_opaque 1) b1) as [[bd b2]|e] eqn:E2; cbn [bind] in H; [|discriminate]. injection H as <- <-.
  destruct (list_toks_inv 2 _ _ _ _ _ _ _ item_psk_identity_inv Hb E1) as (is & -> & -> & F1 & P1 & Hb1).
  destruct (list_toks_inv 2 _ _ _ _ _ _ _ (item_opaque_inv 1) Hb1 E2) as (bs' & -> & -> & F2 & _ & Hr).
  split; [|exact Hr]. exists (Zlen (flat_seq (t_offered_psks (is, bs')))). split.
  - exists (is, bs'). unfold t_offered_psks, dump_psks, t_opaques. cbn [fst snd].
    rewrite !fits_seq_cons, fits_seq_nil, F1, F2. repeat split; auto.
    apply forallb_forall. intros i Hin. rewrite Forall_forall in P1. specialize (P1 i Hin). unfold u32b. lia.
  - unfold t_offered_psks, t_opaques. cbn [fst snd]. rewrite !flat_seq_cons, flat_seq_nil, app_nil_r, !Zlen_app. lia.
Qed.

Definition ch_kp (ty : Z) : list Z -> Z -> Prop :=
  if ty =? 51 then kpv (dump_list dump_ext) (forallb (fun k : ext => u16b (fst k))) (fun l => [TBlock 2 (flat_map t_ks l)])
  else if ty =? 43 then kpv dump_ints (forallb u16b) (fun l => [t_uints 1 2 l])
  else if ty =? 13 then kpv dump_ints (forallb u16b) (fun l => [t_uints 2 2 l])
  else if ty =? 10 then kpv dump_ints (forallb u16b) (fun l => [t_uints 2 2 l])
  else if ty =? 45 then kpv dump_ints (forallb u8b) (fun l => [t_uints 1 1 l])
  else if ty =? 0 then kpv out_bytes is_ascii (fun n => [TBlock 2 [TInt 1 0; t_opaque 2 n]])
  else if ty =? 16 then kpv (dump_list out_bytes) (forallb is_ascii) (fun l => [t_opaques 2 1 l])
  else if ty =? 42 then kp_flag
  else if ty =? 41 then kpv dump_psks (fun p => forallb (fun i : list Z * Z => u32b (snd i)) (fst p)) t_offered_psks
  else kp_none.

Lemma ch_kp_nonneg ty toks w : ch_kp ty toks w -> 0 <= w.
Proof.
  unfold ch_kp. repeat (match goal with |- context [if ?c then _ else _] => destruct c; [apply kpv_nonneg|] end). intros [].
Qed.

Lemma u8b_of_range v : 0 <= v < 256 ^ Z.of_nat 1 -> u8b v = true.
Proof. change (256 ^ Z.of_nat 1) with 256. unfold u8b. lia. Qed.

Lemma ks_wf_of_range (k : ext) : 0 <= fst k < 65536 -> u16b (fst k) = true.
Proof. unfold u16b. lia. Qed.

Lemma ch_parse_some ty len b toks r : bytes_ok b -> parse_client_hello_ext ty len b = Some (Ok (toks, r)) ->
  (exists w, ch_kp ty toks w /\ w <= Zlen b - Zlen r) /\ bytes_ok r.
Proof.
  intros Hb H. unfold parse_client_hello_ext, ch_kp in *.
  destruct (ty =? 51); [injection H as H; exact (list_kpv 2 _ _ _ _ _ _ _ _ item_key_share_inv ks_wf_of_range Hb H)|].
  destruct (ty =? 43); [injection H as H; exact (uints_kpv 1 2 u16b _ _ _ u16b_of_range Hb H)|].
  destruct (ty =? 13); [injection H as H; exact (uints_kpv 2 2 u16b _ _ _ u16b_of_range Hb H)|].
  destruct (ty =? 10); [injection H as H; exact (uints_kpv 2 2 u16b _ _ _ u16b_of_range Hb H)|].
  destruct (ty =? 45); [injection H as H; exact (uints_kpv 1 1 u8b _ _ _ u8b_of_range Hb H)|].
  destruct (ty =? 0); [injection H as H; exact (server_name_kpv _ _ _ Hb H)|].
  destruct (ty =? 16); [injection H as H; exact (alpn_kpv _ _ _ Hb H)|].
  destruct (ty =? 42); [injection H as <- <-; split; [|exact Hb]; exists 0; split; [apply kp_flag_intro|lia]|].
  destruct (ty =? 41); [injection H as H; exact (psks_kpv _ _ _ Hb H)|].
  discriminate.
Qed.

Lemma ch_parse_none ty len b : parse_client_hello_ext ty len b = None -> existsb (Z.eqb ty) CH_ORDER = false.
Proof.
  unfold parse_client_hello_ext, CH_ORDER. cbn [existsb].
  repeat (match goal with |- context [if ?c then _ else _] => destruct c; [discriminate|] end). reflexivity.
Qed.

Lemma ch_order_nodup : NoDup CH_ORDER.
Proof. unfold CH_ORDER. repeat constructor; cbn [In]; lia. Qed.

(* ClientHello.key_share / supported_versions / signature_algorithms / supported_groups are Optional[list] and
   push_client_hello iterates them unconditionally: when one of these extensions is absent the decoder leaves None and
   the encoder raises TypeError -- the second disjunct; see client_hello_reencode_none_refuted. *)
Theorem client_hello_reencode bs d rest : bytes_ok bs -> pull_client_hello bs = Ok (d, rest) ->
  (exists m bytes', d = dump_client_hello m /\ client_hello_wf m = true /\
     enc_seq (tree_client_hello m) = Ok bytes' /\ Zlen bytes' + Zlen rest <= Zlen bs /\
     forall rest', pull_client_hello (bytes' ++ rest') = Ok (d, rest')) \/
  (exists random sid cs cm (ks : option (list ext)) (sv sa sg : option (list Z)) tail,
     d = out_bytes random ++ out_bytes sid ++ dump_ints cs ++ dump_ints cm ++
         dump_opt (dump_list dump_ext) ks ++ dump_opt dump_ints sv ++ dump_opt dump_ints sa ++ dump_opt dump_ints sg ++ tail /\
     (ks = None \/ sv = None \/ sa = None \/ sg = None)).
Proof.
  intros Hb H. unfold pull_client_hello in H.
  destruct (message_len_inv _ _ _ _ _ Hb H) as (len & b1 & Lbs & Hlen & Hb1 & B & C). clear H. cbv beta in B.
  destruct (hello_prefix b1) as [[pre b2]|e] eqn:E1; cbn [bind] in B; [|discriminate].
  destruct (list_toks 2 (item_uint 2) b2) as [[cst b3]|e] eqn:E2; cbn [bind] in B; [|discriminate].
  destruct (list_toks 1 (item_uint 1) b3) as [[cmt b4]|e] eqn:E3; cbn [bind] in B; [|discriminate].
  destruct (pull_extensions parse_client_hello_ext true b4) as [[st b5]|e] eqn:E4; cbn [bind] in B; [|discriminate].
  injection B as <- <-.
  destruct (hello_prefix_inv _ _ _ Hb1 E1) as (random & sid & -> & Lr & Fs & L1 & Hb2).
  destruct (uints_kpv 2 2 u16b _ _ _ u16b_of_range Hb2 E2) as ((wcs & (cs & -> & Wcs & Fcs & ->) & Lcs) & Hb3).
  destruct (uints_kpv 1 1 u8b _ _ _ u8b_of_range Hb3 E3) as ((wcm & (cm & -> & Wcm & Fcm & ->) & Lcm) & Hb4).
  destruct (pull_extensions_inv parse_client_hello_ext true CH_ORDER ch_kp ch_order_nodup ch_kp_nonneg ch_parse_some
              ch_parse_none _ _ _ Hb4 E4) as (wf & others & K & O & W & S1 & S2 & Hr).
  destruct (slot_opt ch_kp st wf 51 (dump_list dump_ext) (forallb (fun k : ext => u16b (fst k)))
              (fun l => [TBlock 2 (flat_map t_ks l)]) K (fun _ _ P => P)) as (ks & D51 & W51 & L51 & F51).
  destruct (slot_opt ch_kp st wf 43 dump_ints (forallb u16b) (fun l => [t_uints 1 2 l]) K (fun _ _ P => P))
    as (sv & D43 & W43 & L43 & F43).
  destruct (slot_opt ch_kp st wf 13 dump_ints (forallb u16b) (fun l => [t_uints 2 2 l]) K (fun _ _ P => P))
    as (sa & D13 & W13 & L13 & F13).
  destruct (slot_opt ch_kp st wf 10 dump_ints (forallb u16b) (fun l => [t_uints 2 2 l]) K (fun _ _ P => P))
    as (sg & D10 & W10 & L10 & F10).
  destruct (slot_opt ch_kp st wf 45 dump_ints (forallb u8b) (fun l => [t_uints 1 1 l]) K (fun _ _ P => P))
    as (modes & D45 & W45 & L45 & F45).
  destruct (slot_opt ch_kp st wf 0 out_bytes is_ascii (fun n => [TBlock 2 [TInt 1 0; t_opaque 2 n]]) K (fun _ _ P => P))
    as (sni & D0 & W0 & L0 & F0).
  destruct (slot_opt ch_kp st wf 16 (dump_list out_bytes) (forallb is_ascii) (fun l => [t_opaques 2 1 l]) K (fun _ _ P => P))
    as (alpn & D16 & W16 & L16 & F16).
  destruct (slot_opt ch_kp st wf 42 (fun _ : unit => []) (fun _ => true) (fun _ => []) K (fun _ _ P => P))
    as (ed & D42 & W42 & L42 & F42).
  destruct (slot_opt ch_kp st wf 41 dump_psks (fun p => forallb (fun i : list Z * Z => u32b (snd i)) (fst p)) t_offered_psks
              K (fun _ _ P => P)) as (psk & D41 & W41 & L41 & F41).
  pose proof (kslot_nonneg ch_kp ch_kp_nonneg st wf 51 K). pose proof (kslot_nonneg ch_kp ch_kp_nonneg st wf 43 K).
  pose proof (kslot_nonneg ch_kp ch_kp_nonneg st wf 13 K). pose proof (kslot_nonneg ch_kp ch_kp_nonneg st wf 10 K).
  pose proof (kslot_nonneg ch_kp ch_kp_nonneg st wf 45 K). pose proof (kslot_nonneg ch_kp ch_kp_nonneg st wf 0 K).
  pose proof (kslot_nonneg ch_kp ch_kp_nonneg st wf 16 K). pose proof (kslot_nonneg ch_kp ch_kp_nonneg st wf 42 K).
  pose proof (kslot_nonneg ch_kp ch_kp_nonneg st wf 41 K). pose proof (oweight_nonneg others) as ON.
  unfold CH_ORDER in S1, S2. rewrite !wsum_cons in S1, S2. cbn [wsum fold_right] in S1, S2.
  clear E1 E2 E3 E4 Hb Hb1 Hb2 Hb3 Hb4 Hr K.
  assert (B : wf 51 < 65540 /\ wf 43 < 65540 /\ wf 13 < 65540 /\ wf 10 < 65540 /\ wf 45 < 65540 /\ wf 0 < 65540 /\
              wf 16 < 65540 /\ wf 42 < 65540 /\ wf 41 < 65540 /\ oweight others < 65536)
    by (clear - S1 H H0 H1 H2 H3 H4 H5 H6 H7 ON; lia).
  destruct B as (B51 & B43 & B13 & B10 & B45 & B0 & B16 & B42 & B41 & Bo).
  specialize (F51 B51). specialize (F43 B43). specialize (F13 B13). specialize (F10 B10). specialize (F45 B45).
  specialize (F0 B0). specialize (F16 B16). specialize (F42 B42). specialize (F41 B41).
  clear B51 B43 B13 B10 B45 B0 B16 B42 B41.
  assert (Ed : out_bytes random ++ out_bytes sid ++ dump_ints cs ++ dump_ints cm ++ out_est CH_ORDER st =
               out_bytes random ++ out_bytes sid ++ dump_ints cs ++ dump_ints cm ++
               dump_opt (dump_list dump_ext) ks ++ dump_opt dump_ints sv ++ dump_opt dump_ints sa ++ dump_opt dump_ints sg ++
               dump_opt dump_ints modes ++ dump_opt out_bytes sni ++ dump_opt (dump_list out_bytes) alpn ++
               dump_flag (flag_of ed) ++ dump_opt dump_psks psk ++ dump_list dump_ext others).
  { unfold out_est, CH_ORDER. cbn [flat_map]. rewrite D51, D43, D13, D10, D45, D0, D16, D42, D41, O, others_dump, app_nil_r, flag_dump.
    repeat rewrite <- app_assoc. reflexivity. }
  repeat rewrite <- app_assoc. rewrite Ed. clear Ed D51 D43 D13 D10 D45 D0 D16 D42 D41 O.
  destruct ks as [ks|]; [|right; exists random, sid, cs, cm, None, sv, sa, sg; eexists; split; [reflexivity|tauto]].
  destruct sv as [sv|]; [|right; exists random, sid, cs, cm, (Some ks), None, sa, sg; eexists; split; [reflexivity|tauto]].
  destruct sa as [sa|]; [|right; exists random, sid, cs, cm, (Some ks), (Some sv), None, sg; eexists; split; [reflexivity|tauto]].
  destruct sg as [sg|]; [|right; exists random, sid, cs, cm, (Some ks), (Some sv), (Some sa), None; eexists; split; [reflexivity|tauto]].
  left. apply (reencode_close pull_client_hello tree_client_hello dump_client_hello client_hello_wf);
    [exact client_hello_roundtrip|].
  cbn [t_opt opt_b] in *.
  exists (mkCH random sid cs cm ks sv sa sg modes sni alpn (flag_of ed) psk others).
  assert (EX : Zlen (flat_seq (ch_exts (mkCH random sid cs cm ks sv sa sg modes sni alpn (flag_of ed) psk others))) =
               wf 51 + wf 43 + wf 13 + wf 10 + wf 45 + wf 0 + wf 16 + wf 42 + wf 41 + oweight others).
  { unfold ch_exts. cbn [ch_key_share ch_supported_versions ch_signature_algorithms ch_supported_groups ch_psk_key_exchange_modes
                         ch_server_name ch_alpn_protocols ch_early_data ch_pre_shared_key ch_other_extensions].
    rewrite flag_tree, !flat_seq_app, !Zlen_app, flat_others_len, L51, L43, L13, L10, L45, L0, L16, L42, L41. clear. lia. }
  assert (FX : fits_seq (ch_exts (mkCH random sid cs cm ks sv sa sg modes sni alpn (flag_of ed) psk others)) = true).
  { unfold ch_exts. cbn [ch_key_share ch_supported_versions ch_signature_algorithms ch_supported_groups ch_psk_key_exchange_modes
                         ch_server_name ch_alpn_protocols ch_early_data ch_pre_shared_key ch_other_extensions].
    rewrite flag_tree, !fits_seq_app, F51, F43, F13, F10, F45, F0, F16, F42, F41, fits_others by exact Bo. reflexivity. }
  assert (SX1 : Zlen (flat_seq (ch_exts (mkCH random sid cs cm ks sv sa sg modes sni alpn (flag_of ed) psk others))) < 65536)
    by (rewrite EX; clear - S1; lia).
  assert (SX2 : 2 + Zlen (flat_seq (ch_exts (mkCH random sid cs cm ks sv sa sg modes sni alpn (flag_of ed) psk others))) +
                Zlen b5 <= Zlen b4) by (rewrite EX; clear - S2; lia).
  clear EX S1 S2 H H0 H1 H2 H3 H4 H5 H6 H7 ON Bo.
  split; [|split; [|split]].
  - unfold dump_client_hello. cbn [ch_random ch_session_id ch_cipher_suites ch_compression_methods ch_key_share ch_supported_versions
      ch_signature_algorithms ch_supported_groups ch_psk_key_exchange_modes ch_server_name ch_alpn_protocols ch_early_data
      ch_pre_shared_key ch_other_extensions]. cbn [dump_opt]. repeat rewrite <- app_assoc. reflexivity.
  - clear - Lr Wcs Wcm W51 W43 W13 W10 W45 W0 W16 W41 W.
    unfold client_hello_wf. cbn [ch_random ch_session_id ch_cipher_suites ch_compression_methods ch_key_share ch_supported_versions
      ch_signature_algorithms ch_supported_groups ch_psk_key_exchange_modes ch_server_name ch_alpn_protocols ch_early_data
      ch_pre_shared_key ch_other_extensions].
    rewrite !andb_true_iff. repeat split; try assumption. apply Z.eqb_eq. exact Lr.
  - clear W51 W43 W13 W10 W45 W0 W16 W42 W41 W L51 L43 L13 L10 L45 L0 L16 L42 L41 F51 F43 F13 F10 F45 F0 F16 F42 F41 Wcs Wcm.
    unfold tree_client_hello. cbn [ch_random ch_session_id ch_cipher_suites ch_compression_methods].
    rewrite fits_single in Fcs, Fcm. rewrite flat_single in Lcs, Lcm.
    rewrite !fits_seq_cons, fits_block, !fits_seq_cons, !fits_int, fits_bytes, fits_seq_nil, Fs, Fcs, Fcm, fits_block, FX.
    rewrite !flat_seq_cons, flat_seq_nil, !flat_int, flat_bytes, flat_block, !Zlen_app, !be_enc_Zlen.
    cbn [andb]. change (Zlen (@nil Z)) with 0. change (256 ^ Z.of_nat 3) with 16777216. change (256 ^ Z.of_nat 2) with 65536.
    change (Z.of_nat 2) with 2. change (Z.of_nat 3) with 3. change (Z.of_nat 1) with 1.
    clear - Lbs Hlen C Lr L1 Lcs Lcm SX1 SX2.
    pose proof (Zlen_nonneg (flat_tv (t_opaque 1 sid))). pose proof (Zlen_nonneg (flat_tv (t_uints 2 2 cs))).
    pose proof (Zlen_nonneg (flat_tv (t_uints 1 1 cm))). pose proof (Zlen_nonneg b5).
    repeat (apply andb_true_intro; split); try reflexivity; apply Z.ltb_lt; lia.
  - clear W51 W43 W13 W10 W45 W0 W16 W42 W41 W L51 L43 L13 L10 L45 L0 L16 L42 L41 F51 F43 F13 F10 F45 F0 F16 F42 F41 Wcs Wcm FX Fs
          Fcs Fcm.
    unfold tree_client_hello. cbn [ch_random ch_session_id ch_cipher_suites ch_compression_methods].
    rewrite flat_single in Lcs, Lcm.
    rewrite !flat_seq_cons, flat_seq_nil, flat_int, flat_block, !flat_seq_cons, flat_seq_nil, !flat_int, flat_bytes, flat_block.
    repeat rewrite ?Zlen_app, ?be_enc_Zlen. change (Zlen (@nil Z)) with 0.
    change (Z.of_nat 3) with 3. change (Z.of_nat 2) with 2. change (Z.of_nat 1) with 1. lia.
Qed.
