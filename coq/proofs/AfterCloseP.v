(* C05, after_close: on C09's model of the timer / closing state machine (model/Timers.v, imported unchanged) no call
   of receive_datagram / datagrams_to_send / get_timer / handle_timer / next_event / close raises in any state reached
   by an API history that began properly (connect on a client, a first datagram on a server) and has not TERMINATED --
   in particular in every state after a close began (close pending, CLOSING, DRAINING).  At this level
   datagrams_to_send's close branch and receive_datagram's body are abstract; what they do below is
   ConnCloseP.close_send_total (builder level) and ConnDgramP.receive_datagram_total (byte level, gate included). *)
From AQ Require Import lib.Base model.Timers model.TimersSpec proofs.TimersP.
From Coq Require Import Lia.

Definition network_op (o : op) : Prop := match o with OConnect _ _ => False | _ => True end.

Theorem api_total_until_terminated : forall client o ops o',
  first_op client o ->
  c_state (snd (run (conn_init client) (o :: ops))) <> TERMINATED ->
  network_op o' ->
  (forall k, fst (step (snd (run (conn_init client) (o :: ops))) o') <> RExn k) /\
  inv (snd (step (snd (run (conn_init client) (o :: ops))) o')).
Proof.
  intros client o ops o' F NT N.
  pose proof (inv_reach client o ops F) as I.
  destruct (timer_defined_lemma client o ops F NT) as (d & CA & GT & TM).
  set (c := snd (run (conn_init client) (o :: ops))) in *.
  split.
  - intros k. destruct o' as [now idle|now idle0 ps| |now pto3 produced nev|now| |acks loss pacing]; cbn [step].
    + contradiction.
    + cbn. discriminate.
    + cbn. discriminate.
    + unfold send. destruct (negb (c_has_path c)); [cbn; discriminate|].
      destruct (is_end (c_state c)); [cbn; discriminate|]. destruct (c_close_pending c); cbn; discriminate.
    + destruct (TM now) as (c' & ->). cbn. discriminate.
    + destruct (next_event c) as [e c']. cbn. discriminate.
    + destruct (GT acks loss pacing) as (v & E & _). destruct (get_timer acks loss pacing c) as [r c'].
      cbn [fst] in E. subst r. cbn. discriminate.
  - destruct (step c o') as [r c'] eqn:E. cbn [snd]. eapply inv_step; eauto.
Qed.

(* ... and the state reached is again one to which the theorem applies, so it holds along the whole history until
   ConnectionTerminated is delivered: by induction, no call of a run raises while the state before it is not TERMINATED *)
Fixpoint no_raise_until_terminated (c : conn) (ops : list op) : Prop :=
  match ops with
  | [] => True
  | o :: t =>
      (c_state c <> TERMINATED -> network_op o -> forall k, fst (step c o) <> RExn k) /\
      no_raise_until_terminated (snd (step c o)) t
  end.

Lemma run_snoc : forall l c0 o', snd (run c0 (l ++ [o'])) = snd (step (snd (run c0 l)) o').
Proof.
  induction l as [|a l IHl]; intros c0 o'.
  - cbn. destruct (step c0 o') as [r c1]. reflexivity.
  - cbn [app run]. destruct (step c0 a) as [r c1]. specialize (IHl c1 o').
    destruct (run c1 (l ++ [o'])) as [rs c2]. destruct (run c1 l) as [rs' c3]. cbn [snd] in *. exact IHl.
Qed.

Theorem after_close_history : forall client o ops more, first_op client o ->
  no_raise_until_terminated (snd (run (conn_init client) (o :: ops))) more.
Proof.
  intros client o ops more F. revert ops. induction more as [|o' t IH]; intros ops; [exact I|].
  cbn [no_raise_until_terminated]. split.
  - intros NT N. exact (proj1 (api_total_until_terminated client o ops o' F NT N)).
  - rewrite <- (run_snoc (o :: ops)). apply (IH (ops ++ [o'])).
Qed.
