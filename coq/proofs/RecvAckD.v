(* C12, the driver discipline on the COMPOSED receive model: ack_timely_cap (proofs/AckQueueP3.v) lifted to timed runs of
   model/RecvAck.v.  On a tree with docs/C12-fix-2.patch (CAP_ACK_NOW, PACING_LE) the range-count premise of
   ack_timely_composed (at most MAX_ACK_RANGES ranges queued at a send) is discharged by the sans-IO discipline, stated
   per space on the composed operations: after a packet of space i was handed to the connection, no further packet of
   space i is handed over before a send of space i whose packet has room for the ACK frame was made (any pacer verdict).
   In between ANYTHING else may happen: packets and sends of the other spaces (coalesced datagrams), sends of space i
   without room, completions, discards, close(), _initialize().

   [hot i] = a packet of space i was processed since the last send of space i with room.  Invariant per space:
   cold: Rest (an owed packet implies fewer than MAX_ACK_RANGES ranges);  hot: Cov (every owed packet is among the ranges
   the cap keeps) and Due (MAX_ACK_RANGES ranges or more and something owed: ack_at <= clk). *)
From Coq Require Import ZArith List Bool Lia ZifyBool.
From AQ Require Import lib.Base lib.Tok model.Codec model.Varint model.RangeSet model.AckFrame gen.C12Consts gen.C12RecvOrder
  model.AckQueue model.RecvAck proofs.CodecProofs proofs.VarintProofs proofs.RangeSetP proofs.AckFrameProofs proofs.AckQueueP
  proofs.AckQueueP2 proofs.AckQueueP3 proofs.RecvAckP
  proofs.RecvAckT.

Definition Due (s : space) : Prop :=
  closing s = false -> disc s = false -> owed s <> [] -> MAX_ACK_RANGES <= Zlen (aq s) ->
  forall x, ack_at s = Some x -> x <= clk s.

Definition DI (h : bool) (s : space) : Prop := if h then Cov s /\ Due s else Rest s.

(* ---- flag operations ---------------------------------------------------------------------------------------------------------- *)
Definition flag_op (f : space -> space) : Prop :=
  forall s, (closing (f s) = false -> closing s = false) /\ (disc (f s) = false -> disc s = false) /\
            owed (f s) = owed s /\ aq (f s) = aq s /\ clk (f s) = clk s /\
            (disc (f s) = false -> ack_at (f s) = ack_at s).

Lemma flag_complete : flag_op set_complete.
Proof. intros s. cbn. repeat split; auto. Qed.
Lemma flag_closing : flag_op set_closing.
Proof. intros s. cbn. repeat split; auto. discriminate. Qed.
Lemma flag_discard : flag_op discard.
Proof. intros s. cbn. repeat split; auto; discriminate. Qed.
Lemma flag_id : flag_op (fun s => s).
Proof. intros s. repeat split; auto. Qed.

Lemma di_flag f h s : flag_op f -> DI h s -> DI h (f s).
Proof.
  intros F H. destruct (F s) as (Fc & Fd & Fo & Fa & Fk & Ft). destruct h; cbn [DI] in *.
  - destruct H as (Cv & Du). split.
    + intros C D L t Hin. rewrite Fa. rewrite Fo in Hin. apply (Cv (Fc C) (Fd D) L t Hin).
    + intros C D Ho Hm x Hx. rewrite Fk. rewrite Fo in Ho. rewrite Fa in Hm. rewrite (Ft D) in Hx.
      apply (Du (Fc C) (Fd D) Ho Hm x Hx).
  - intros C D Ho. rewrite Fa. rewrite Fo in Ho. apply (H (Fc C) (Fd D) Ho).
Qed.

Lemma di_set_clk h s t : clk s <= t -> DI h s -> DI h (set_clk s t).
Proof.
  intros Hc H. destruct h; cbn [DI] in *; [|exact H]. destruct H as (Cv & Du). split; [exact Cv|].
  intros C D Ho Hm x Hx. cbn in *. specialize (Du C D Ho Hm x Hx). lia.
Qed.

(* a cold space is in particular covered and not overdue *)
Lemma rest_hot dmax s : Inv0 s -> TI dmax s -> Rest s -> Cov s /\ Due s.
Proof.
  intros I T R. split.
  - intros C D L t Hin.
    assert (Ho : owed s <> []) by (intros E; rewrite E in Hin; destruct Hin).
    specialize (R C D Ho).
    destruct (cap_ranges_spec (aq s) (i_wf _ I)) as (_ & _ & _ & _ & Eq). rewrite Eq by lia.
    destruct (ti_owed _ _ T D L t Hin) as (M & _). exact M.
  - intros C D Ho Hm. specialize (R C D Ho). exfalso. lia.
Qed.

Lemma di_weaken dmax h s : Inv0 s -> TI dmax s -> DI h s -> Cov s /\ Due s.
Proof. intros I T H. destruct h; [exact H|]. eapply rest_hot; eauto. Qed.

(* ---- one acknowledgement of our ACK frame inside a payload: a cold space stays cold ------------------------------------------ *)
Lemma rest_ack_of s h s' : Inv0 s -> Rest s -> ack_of s h = Ok s' -> Rest s'.
Proof.
  intros I R H. unfold ack_of in H. destruct (known_handler s h); [|inversion H; subst; exact R].
  destruct (deliver (aq s) h) as [q|] eqn:E; [|discriminate]. cbn in H. inversion H; subst; clear H.
  assert (Hn : forall x, mem x (aq s) -> 0 <= x).
  { intros x Hx. destruct (i_rcvd _ I x (i_sub _ I x Hx)) as (P & _). unfold pn_ok in P. lia. }
  assert (Ed : delivers (aq s) [h] = Ok q) by (cbn; rewrite E; reflexivity).
  pose proof (delivers_len _ _ _ (i_wf _ I) Hn Ed) as Lq.
  intros C D Ho. cbn [closing disc owed aq set_aq] in *. specialize (R C D Ho). lia.
Qed.

Definition DC (hot : sid -> bool) (c : rconn) : Prop := forall j, DI (hot j) (spc c j).

Lemma fx_apply_dc hot c i f c' : PInv i c -> hot i = false -> DC hot c -> fx_apply c i f = Ok c' -> DC hot c'.
Proof.
  intros [I0 _] Hi X H. destruct f; cbn [fx_apply] in H.
  - destruct (ack_of (spc c i) h) as [s'|] eqn:E; [|discriminate]. cbn in H. inversion H; subst; clear H.
    intros j. rewrite spc_rupd. destruct (sid_eqb i j) eqn:E1; [|apply X].
    apply sid_eqb_eq in E1. subst j. rewrite Hi. cbn [DI]. eapply rest_ack_of; eauto.
    specialize (X i). rewrite Hi in X. exact X.
  - inversion H; subst. intros j. rewrite spc_rall. apply di_flag; [apply flag_complete|apply X].
  - inversion H; subst. intros k. rewrite spc_rupd. destruct (sid_eqb j k) eqn:E1; [|apply X].
    apply sid_eqb_eq in E1. subst k. apply di_flag; [apply flag_discard|apply X].
  - inversion H; subst. intros j. rewrite spc_rall. apply di_flag; [apply flag_closing|apply X].
  - inversion H; subst. exact X.
  - inversion H; subst. exact X.
Qed.

Lemma payload_loop_dc hot i fs : forall c e f c' elic raised, PInv i c -> hot i = false -> DC hot c ->
  payload_loop c i fs e f = Ok (c', elic, raised) -> DC hot c'.
Proof.
  induction fs as [|fx0 r IH]; intros c e f c' elic raised P Hi X H; cbn [payload_loop] in H.
  - inversion H; subst. exact X.
  - assert (K : forall c1, fx_apply c i fx0 = Ok c1 -> payload_loop c1 i r e f = Ok (c', elic, raised) -> DC hot c').
    { intros c1 E1 H1. destruct (fx_apply_spec _ _ _ _ P E1) as (P1 & _).
      pose proof (fx_apply_dc hot _ _ _ _ P Hi X E1) as X1. eapply IH; eauto. }
    destruct fx0.
    + destruct (fx_apply c i (FxAck h)) as [c1|] eqn:E1; [|discriminate]. cbn [bind] in H. eapply K; eauto.
    + destruct (fx_apply c i FxComplete) as [c1|] eqn:E1; [|discriminate]. cbn [bind] in H. eapply K; eauto.
    + destruct (fx_apply c i (FxDiscard j)) as [c1|] eqn:E1; [|discriminate]. cbn [bind] in H. eapply K; eauto.
    + destruct (fx_apply c i FxPeerClose) as [c1|] eqn:E1; [|discriminate]. cbn [bind] in H. eapply K; eauto.
    + eapply IH; eauto.
    + inversion H; subst. exact X.
Qed.

(* ---- the recording tail from a cold space: hot ------------------------------------------------------------------------------- *)
Lemma record_hot dmax s pn elic t d : CAP_ACK_NOW = true -> Inv0 s -> TI dmax s -> Rest s -> closing s = false -> clk s = t ->
  pn_ok pn -> 0 <= d <= dmax -> Cov (record s pn elic t d) /\ Due (record s pn elic t d).
Proof.
  intros Hf I T R C K Hp Hd. destruct (disc s) eqn:D.
  - unfold record. rewrite D. eapply rest_hot; eauto.
  - assert (E : recv s pn elic t d [] true = Ok (record s pn elic t d)).
    { unfold recv. cbn [delivers bind]. rewrite set_aq_same, (set_clk_same _ _ K), C. reflexivity. }
    assert (Hw : wf_op_d dmax s (Recv pn elic t d [] true)).
    { split; [split; [exact Hp|intros h []]|]. split; [lia|exact Hd]. }
    destruct (recv_from_rest0 dmax (app s) s pn elic t d [] true Hf I (ti_tinv _ _ D T) R Hw) as (Cv & Du & _).
    cbn [step] in Cv, Du. rewrite E in Cv, Du. cbn [snd] in Cv, Du. split; [exact Cv|exact Du].
Qed.

(* ---- sends ---------------------------------------------------------------------------------------------------------------------- *)
Lemma write_ack_ack_at s delay room r s' x : write_ack s delay room = (r, s') -> ack_at s' = Some x -> ack_at s = Some x.
Proof.
  unfold write_ack. destruct (room <? _); [intros H; inversion H; subst; auto|].
  destruct (w_chunks _ _ _); intros H; inversion H; subst; cbn; auto. discriminate.
Qed.

Lemma send_ack_at s t delay room blocked r s' x : send s t delay room blocked = (r, s') -> ack_at s' = Some x -> ack_at s = Some x.
Proof.
  intros H. unfold send in H.
  assert (K : forall r s', write_ack (set_clk s t) delay room = (r, s') -> ack_at s' = Some x -> ack_at s = Some x).
  { intros r0 s0 H0 H1. apply (write_ack_ack_at _ _ _ _ _ _ H0 H1). }
  destruct (closing (set_clk s t)); [inversion H; subst; auto|].
  destruct (disc (set_clk s t)); [inversion H; subst; auto|].
  destruct (app (set_clk s t)).
  - destruct (negb _ && blocked); [inversion H; subst; auto|].
    destruct (complete (set_clk s t)); [|inversion H; subst; auto].
    destruct (ack_at (set_clk s t)); [|inversion H; subst; auto].
    destruct (z <=? t); [|inversion H; subst; auto]. eapply K; eauto.
  - destruct (ack_at (set_clk s t)); [|inversion H; subst; auto]. eapply K; eauto.
Qed.

(* the frame a covered space writes when the send is due and has room for the capped queue *)
Lemma cov_send_writes dmax s u delay room blocked x : PACING_LE = true -> Inv s -> TI dmax s -> Cov s ->
  closing s = false -> disc s = false -> owed s <> [] -> ack_at s = Some x -> (app s = true -> x <= u) ->
  0 <= delay < 2 ^ 62 -> ack_capacity (cap_ranges (aq s)) <= room ->
  exists bytes s', send s u delay room blocked = (SFrame bytes (cap_ranges (aq s)), s') /\ owed s' = [] /\ ack_at s' = None.
Proof.
  intros Hp [I0 Ne] T Cv C D Ho Ex Hx Hd Hr.
  destruct (owed s) as [|[L t0] l] eqn:Eo; [congruence|].
  destruct (ti_owed _ _ T D L t0) as (M & _ & _ & _ & Kc); [rewrite Eo; left; reflexivity|].
  destruct (cap_ranges_spec (aq s) (i_wf _ I0)) as (Wc & Mc & Lc & Nc & Eqc).
  assert (Hne : cap_ranges (aq s) <> []).
  { apply Nc. intros E0. rewrite E0 in M. exact M. }
  assert (Hpn : forall y, mem y (cap_ranges (aq s)) -> pn_ok y) by (intros y Hy; apply (i_rcvd _ I0), (i_sub _ I0), Mc, Hy).
  pose proof capacity_const as (K1 & K2). pose proof (Zlen_nonneg (cap_ranges (aq s))).
  assert (Hall : filter (fun o => negb (covered (cap_ranges (aq s)) o)) (owed s) = []).
  { apply filter_all_covered. intros [L1 t1] Hin. unfold covered. cbn. apply contains_mem. eapply Cv; eauto. }
  assert (Wok : exists bytes s', write_ack (set_clk s u) delay room = (SFrame bytes (cap_ranges (aq s)), s') /\
                                 owed s' = [] /\ ack_at s' = None).
  { unfold write_ack. cbn [aq set_clk].
    destruct (room <? _) eqn:E1; [unfold ack_capacity, UINT_VAR_MAX_SIZE, ACK_FRAME_CAPACITY, MIN_FRAME_CAPACITY in *; lia|].
    destruct (ack_frame_bytes _ delay room Wc Hne Hpn Hd Hr) as (body & B1 & _). rewrite B1.
    eexists _, _. split; [reflexivity|]. cbn [owed ack_at set_clk]. split; [exact Hall|reflexivity]. }
  destruct Wok as (bytes & s' & Ew & O1 & O2). exists bytes, s'. split; [|split; assumption].
  unfold send. cbn [closing disc app complete ack_at set_clk]. rewrite C, D, Ex.
  destruct (app s) eqn:A.
  - rewrite (Kc eq_refl), Hp. specialize (Hx eq_refl). destruct (x <=? u) eqn:E1; [|lia]. cbn. exact Ew.
  - exact Ew.
Qed.

(* any send keeps the per-space invariants; one with room for the capped queue makes the space cold *)
Lemma di_send dmax h s t delay room blocked r s' : PACING_LE = true -> Inv s -> TI dmax s -> DI h s -> clk s <= t ->
  0 <= delay < 2 ^ 62 -> send s t delay room blocked = (r, s') ->
  TI dmax s' /\ DI (if ack_capacity (cap_ranges (aq s)) <=? room then false else h) s'.
Proof.
  intros Hp Iv T X Hc Hd H. pose proof Iv as [I0 Ne].
  destruct (send_static _ _ _ _ _ _ _ H) as (Sa & Sk & Sc & Sd).
  assert (Triv : closing s = true \/ disc s = true -> TI dmax s' /\ forall b, DI b s').
  { intros Hcd.
    assert (E : s' = set_clk s t).
    { unfold send in H. cbn [closing disc set_clk] in H. destruct (closing s); [inversion H; reflexivity|].
      destruct Hcd as [Hcd|Hcd]; [discriminate|]. rewrite Hcd in H. inversion H; reflexivity. }
    split; [rewrite E; apply ti_clk; auto|].
    intros b. destruct b; cbn [DI]; [split|]; intros C D; exfalso; destruct Hcd; congruence. }
  destruct (closing s) eqn:C; [destruct Triv as (A & B); auto|].
  destruct (disc s) eqn:D; [destruct Triv as (A & B); auto|]. clear Triv.
  destruct (di_weaken dmax h s I0 T X) as (Cv & Du).
  destruct (tinv_send_cov dmax (app s) _ _ _ _ _ _ _ Iv (ti_tinv _ _ D T) Cv Hc H) as (T' & Sub & (Ec & Edd) & Eq & Fr).
  assert (T2 : TI dmax s') by (apply (tinv_ti dmax (app s)); [congruence|exact T']).
  split; [exact T2|].
  destruct (cap_ranges_spec (aq s) (i_wf _ I0)) as (Wc & Mc & Lc & Nc & Eqc).
  assert (Sub0 : owed s' <> [] -> owed s <> []).
  { intros Ho' E2. destruct (owed s') as [|o l] eqn:E1; [congruence|]. specialize (Sub o (or_introl eq_refl)).
    rewrite E2 in Sub. destruct Sub. }
  (* a cold space stays cold *)
  assert (Cold : Rest s -> Rest s').
  { intros R C' D' Ho'. rewrite Ec in C'. rewrite Edd in D'. specialize (R C' D' (Sub0 Ho')).
    destruct Eq as [Eq|Eq]; rewrite Eq; [exact R|]. rewrite Eqc; lia. }
  (* with room: cold afterwards *)
  assert (Room : ack_capacity (cap_ranges (aq s)) <= room -> Rest s').
  { intros Hr C' D' Ho'.
    destruct (Z_le_dec (Zlen (aq s)) (MAX_ACK_RANGES - 1)) as [Hsmall|Hbig].
    { destruct Eq as [Eq|Eq]; rewrite Eq; [exact Hsmall|rewrite Eqc; lia]. }
    exfalso. apply Ho'.
    pose proof (Sub0 Ho') as Ho.
    destruct (owed s) as [|[L t0] l] eqn:Eo; [congruence|].
    destruct (ti_owed _ _ T D L t0) as (_ & (x & Ex & _) & _); [rewrite Eo; left; reflexivity|].
    assert (Hx : x <= t) by (specialize (Du C D ltac:(rewrite Eo; discriminate) ltac:(lia) x Ex); lia).
    destruct (cov_send_writes dmax s t delay room blocked x Hp Iv T Cv C D ltac:(rewrite Eo; discriminate) Ex ltac:(intros; exact Hx) Hd Hr)
      as (bytes & s2 & Es & O1 & _).
    rewrite Es in H. inversion H; subst. exact O1. }
  destruct (ack_capacity (cap_ranges (aq s)) <=? room) eqn:Er; [cbn [DI]; apply Room; lia|].
  destruct h; cbn [DI] in *; [|apply Cold; exact X].
  (* hot, no room: still covered, still due *)
  split.
  - intros C' D' L t0 Hin. specialize (Cv C D L t0 (Sub _ Hin)).
    destruct Eq as [Eq|Eq]; rewrite Eq; [exact Cv|].
    destruct (cap_ranges_spec (cap_ranges (aq s)) Wc) as (_ & _ & _ & _ & Eq2). rewrite (Eq2 Lc). exact Cv.
  - intros C' D' Ho' Hm x Hx. rewrite Sk.
    pose proof (send_ack_at _ _ _ _ _ _ _ _ H Hx) as Hx0.
    assert (Hm0 : MAX_ACK_RANGES <= Zlen (aq s)).
    { destruct Eq as [Eq|Eq]; rewrite Eq in Hm; [exact Hm|].
      destruct (Z_le_dec (Zlen (aq s)) MAX_ACK_RANGES) as [Hs|Hb]; [rewrite (Eqc Hs) in Hm; exact Hm|lia]. }
    specialize (Du C D (Sub0 Ho') Hm0 x Hx0). lia.
Qed.

(* ---- timed runs under the discipline ------------------------------------------------------------------------------------------ *)
Definition hset (h : sid -> bool) (i : sid) (b : bool) : sid -> bool := fun j => if sid_eqb i j then b else h j.

Definition wf_cop_d (dmax : Z) (now : Z) (o : cop) : Prop :=
  wf_cop o /\
  match o with
  | CPacket _ _ _ t d => now <= t /\ 0 <= d <= dmax
  | CSend _ t delay _ _ => now <= t /\ 0 <= delay < 2 ^ 62
  | _ => True
  end.

Definition hot_after (c : rconn) (h : sid -> bool) (o : cop) : sid -> bool :=
  match o with
  | CPacket i _ _ _ _ => hset h i true
  | CSend i _ _ room _ => if ack_capacity (cap_ranges (aq (spc c i))) <=? room then hset h i false else h
  | _ => h
  end.

(* a packet of space i may be handed over only while space i is cold *)
Definition disciplined (h : sid -> bool) (o : cop) : Prop :=
  match o with CPacket i _ _ _ _ => h i = false | _ => True end.

Inductive creach_d (dmax : Z) : rconn -> Z -> (sid -> bool) -> Prop :=
| crd_init now : 0 <= now -> creach_d dmax rinit now (fun _ => false)
| crd_step c now h o : creach_d dmax c now h -> wf_cop_d dmax now o -> disciplined h o ->
    creach_d dmax (snd (cstep c o)) (cop_time now o) (hot_after c h o).

Lemma creach_d_creach dmax c now h : creach_d dmax c now h -> creach c.
Proof. induction 1; [constructor|]. apply creach_step; auto. destruct H0; auto. Qed.

Record TD (dmax : Z) (c : rconn) (now : Z) (h : sid -> bool) : Prop := mkTD {
  td_tc : TC dmax c now;
  td_dc : DC h c
}.

Lemma dc_hset_weaken dmax h c i : CInv c -> (forall j, TI dmax (spc c j)) -> DC h c -> DC (hset h i true) c.
Proof.
  intros I T X j. unfold hset. destruct (sid_eqb i j) eqn:E; [|apply X].
  cbn [DI]. eapply di_weaken; [apply (I j)|apply T|apply X].
Qed.

Lemma td_packet dmax c now h i v fs t d : CAP_ACK_NOW = true -> TD dmax c now h -> h i = false ->
  wf_cop_d dmax now (CPacket i v fs t d) ->
  TD dmax (snd (cstep c (CPacket i v fs t d))) t (hset h i true).
Proof.
  intros Hf [X Y] Hi (Hw & Ht & Hd).
  assert (X' : TC dmax (snd (cstep c (CPacket i v fs t d))) t).
  { apply (tc_step dmax c now (CPacket i v fs t d) X). split; [exact Hw|split; assumption]. }
  split; [exact X'|].
  destruct X as [I T K A]. cbn [cstep cstep_ord] in *.
  change (recv_ord code_order) with recv_packet in *. rewrite recv_packet_closed in *.
  destruct (recv_closed c i v fs t d) as [c'|k] eqn:E; cbn [snd] in *; [|apply (dc_hset_weaken dmax); auto].
  unfold recv_closed in E.
  destruct (closing (spc c i)) eqn:C0; [inversion E; subst; apply (dc_hset_weaken dmax); auto|].
  destruct v as [| |pn rsv]; [inversion E; subst; apply (dc_hset_weaken dmax); auto|inversion E; subst; apply (dc_hset_weaken dmax); auto|].
  destruct rsv.
  { inversion E; subst. apply (dc_hset_weaken dmax); [apply X'|apply X'|].
    intros j. rewrite spc_rall. apply di_flag; [apply flag_closing|apply Y]. }
  fold (pre_payload c i pn t) in E.
  destruct (payload_received (pre_payload c i pn t) i fs) as [[[c2 elic] raised]|k] eqn:EP; [|discriminate].
  cbn [bind] in E.
  assert (P0 : PInv i (pre_payload c i pn t)) by (apply pre_payload_pinv; exact I).
  assert (T0 : forall j, TI dmax (spc (pre_payload c i pn t) j)).
  { intros j. rewrite spc_pre_payload. destruct (sid_eqb i j); auto. apply ti_clk; auto. specialize (K i). lia. }
  assert (Y0 : DC h (pre_payload c i pn t)).
  { intros j. rewrite spc_pre_payload. destruct (sid_eqb i j) eqn:E1; [|apply Y].
    apply sid_eqb_eq in E1. subst j. apply di_set_clk; [specialize (K i); lia|apply Y]. }
  destruct (payload_loop_spec _ _ _ _ _ _ _ _ P0 EP) as (P2 & _).
  pose proof (payload_loop_ti dmax _ _ _ _ _ _ _ _ P0 T0 EP) as T2.
  pose proof (payload_loop_static _ _ _ _ _ _ _ _ EP) as S2.
  pose proof (payload_loop_dc h _ _ _ _ _ _ _ _ P0 Hi Y0 EP) as Y2.
  set (c3 := if raised then rall c2 (on_sp set_closing) else c2) in *.
  assert (T3 : forall j, TI dmax (spc c3 j)).
  { intros j. subst c3. destruct raised; auto. rewrite spc_rall. apply ti_set_closing; auto. }
  assert (I3 : forall j, Inv0 (spc c3 j)).
  { intros j. subst c3. destruct raised; [rewrite spc_rall; apply inv0_set_closing|]; apply (proj1 P2). }
  assert (Y3 : DC h c3).
  { subst c3. destruct raised; [|exact Y2]. intros j. rewrite spc_rall. apply di_flag; [apply flag_closing|apply Y2]. }
  assert (K3 : clk (spc c3 i) = t).
  { assert (clk (spc c2 i) = t).
    { destruct (S2 i) as (_ & _ & _ & _ & Sc). rewrite Sc, spc_pre_payload, sid_eqb_refl. reflexivity. }
    subst c3. destruct raised; [rewrite spc_rall|]; exact H. }
  destruct (closing (spc c3 i)) eqn:C3; inversion E; subst; clear E.
  - intros j. unfold hset. destruct (sid_eqb i j) eqn:E1; [|apply Y3].
    cbn [DI]. eapply di_weaken; [apply I3|apply T3|apply Y3].
  - intros j. unfold hset. rewrite spc_rupd. destruct (sid_eqb i j) eqn:E1; [|apply Y3].
    rewrite tail_record. cbn [DI]. pose proof (Y3 i) as Y3i. rewrite Hi in Y3i. apply (record_hot dmax); auto.
Qed.

Lemma td_step dmax c now h o : CAP_ACK_NOW = true -> PACING_LE = true -> TD dmax c now h -> wf_cop_d dmax now o ->
  disciplined h o -> TD dmax (snd (cstep c o)) (cop_time now o) (hot_after c h o).
Proof.
  intros Hf Hp X Hw Hdisc. destruct o.
  - cbn [cop_time hot_after]. apply (td_packet dmax c now); auto.
  - destruct X as [[I T K A] Y]. destruct Hw as (Hw & Hn & Hd). cbn [cop_time hot_after cstep cstep_ord].
    destruct (send (spc c i) t delay room blocked) as [r s'] eqn:E. cbn [snd].
    assert (Ki : clk (spc c i) <= t) by (specialize (K i); lia).
    destruct (di_send dmax (h i) _ _ _ _ _ _ _ Hp (I i) (T i) (Y i) Ki Hd E) as (Ts & Ds).
    destruct (send_static _ _ _ _ _ _ _ E) as (Sa & Sc & _).
    assert (I' : CInv (rupd c i (on_sp (fun _ => s')))).
    { intros j. rewrite spc_rupd. destruct (sid_eqb i j); [eapply inv_send; [apply (I i)|exact E]|apply I]. }
    split; [constructor; [exact I'| | |]|]; intros j; rewrite spc_rupd; destruct (sid_eqb i j) eqn:E1.
    + exact Ts.
    + apply T.
    + lia.
    + specialize (K j). lia.
    + apply sid_eqb_eq in E1. subst j. rewrite Sa. apply A.
    + apply A.
    + apply sid_eqb_eq in E1. subst j.
      destruct (ack_capacity (cap_ranges (aq (spc c i))) <=? room); [unfold hset; rewrite sid_eqb_refl|]; exact Ds.
    + destruct (ack_capacity (cap_ranges (aq (spc c i))) <=? room); [unfold hset; rewrite E1|]; apply Y.
  - destruct X as [X Y]. split; [apply (tc_step dmax c now CComplete X); split; exact I|].
    cbn. intros j. rewrite spc_rall. apply di_flag; [apply flag_complete|apply Y].
  - destruct X as [X Y]. split; [apply (tc_step dmax c now (CDiscard j) X); split; exact I|].
    cbn. intros k. rewrite spc_rupd. destruct (sid_eqb j k) eqn:E1; [|apply Y].
    apply sid_eqb_eq in E1. subst k. apply di_flag; [apply flag_discard|apply Y].
  - destruct X as [X Y]. split; [apply (tc_step dmax c now CClose X); split; exact I|].
    cbn. intros j. rewrite spc_rall. apply di_flag; [apply flag_closing|apply Y].
  - destruct X as [X Y]. split; [apply (tc_step dmax c now CReinit X); split; exact I|].
    cbn. intros j. unfold spc. rewrite rget_rall.
    destruct (h j); cbn [DI]; [split|]; intros _ _; cbn; try congruence.
Qed.

Lemma creach_d_td dmax c now h : CAP_ACK_NOW = true -> PACING_LE = true -> creach_d dmax c now h -> TD dmax c now h.
Proof.
  intros Hf Hp. induction 1.
  - split; [apply tc_init; auto|]. intros j. cbn [DI]. intros _ _ Ho. exfalso. apply Ho. destruct j; reflexivity.
  - apply td_step; auto.
Qed.

(* ---- statements -------------------------------------------------------------------------------------------------------------------- *)
(* ack_timely_cap on the composed model: under the discipline, with NO premise on the number of ranges, an owed packet
   is never forgotten -- in every state it is still queued with its timer armed within the bound, among the ranges the
   cap keeps; in a cold space fewer than MAX_ACK_RANGES ranges are queued *)
Theorem ack_timely_cap_composed_l dmax c now h i L t : CAP_ACK_NOW = true -> PACING_LE = true -> creach_d dmax c now h ->
  disc (spc c i) = false -> In (L, t) (owed (spc c i)) ->
  mem L (aq (spc c i)) /\ (exists x, ack_at (spc c i) = Some x /\ x <= t + dmax) /\
  (closing (spc c i) = false -> mem L (cap_ranges (aq (spc c i))) /\
                                (h i = false -> Zlen (aq (spc c i)) <= MAX_ACK_RANGES - 1)).
Proof.
  intros Hf Hp R D Hin. destruct (creach_d_td _ _ _ _ Hf Hp R) as [[I T K A] Y].
  destruct (ti_owed _ _ (T i) D L t Hin) as (M & E & _). split; [exact M|]. split; [exact E|].
  intros C. destruct (di_weaken dmax (h i) _ (proj1 (I i)) (T i) (Y i)) as (Cv & _). split; [eapply Cv; eauto|].
  intros Hi. specialize (Y i). rewrite Hi in Y. apply Y; auto. intros E0. rewrite E0 in Hin. destruct Hin.
Qed.

(* ... and the send that is due -- application space: u >= ack_at, whatever the pacer says; Initial / Handshake: any time
   -- with room for the capped queue writes a frame that covers every owed packet: nothing stays owed *)
Theorem ack_timely_cap_send_composed_l dmax c now h i L t0 x u delay room blocked : CAP_ACK_NOW = true -> PACING_LE = true ->
  creach_d dmax c now h -> closing (spc c i) = false -> disc (spc c i) = false -> In (L, t0) (owed (spc c i)) ->
  ack_at (spc c i) = Some x -> now <= u -> (i = SApp -> x <= u) ->
  ack_capacity (cap_ranges (aq (spc c i))) <= room -> 0 <= delay < 2 ^ 62 ->
  exists bytes c', cstep c (CSend i u delay room blocked) = (CSent (SFrame bytes (cap_ranges (aq (spc c i)))), c') /\
    mem L (cap_ranges (aq (spc c i))) /\ x <= t0 + dmax /\ owed (spc c' i) = [] /\ ack_at (spc c' i) = None.
Proof.
  intros Hf Hp R C D Hin Ea Hu Happ Hr Hd. destruct (creach_d_td _ _ _ _ Hf Hp R) as [[I T K A] Y].
  destruct (di_weaken dmax (h i) _ (proj1 (I i)) (T i) (Y i)) as (Cv & _).
  destruct (ti_owed _ _ (T i) D L t0 Hin) as (_ & (x' & Ea' & Bx) & _).
  rewrite Ea in Ea'. inversion Ea'; subst x'.
  assert (Ho : owed (spc c i) <> []) by (intros E0; rewrite E0 in Hin; destruct Hin).
  assert (Hx : app (spc c i) = true -> x <= u).
  { intros Ap. apply Happ. specialize (A i). destruct i; cbn in A; congruence. }
  destruct (cov_send_writes dmax _ u delay room blocked x Hp (I i) (T i) Cv C D Ho Ea Hx Hd Hr) as (bytes & s' & Es & O1 & O2).
  exists bytes, (rupd c i (on_sp (fun _ => s'))). cbn [cstep cstep_ord]. rewrite Es.
  split; [reflexivity|]. rewrite spc_rupd, sid_eqb_refl. repeat split; auto. eapply Cv; eauto.
Qed.

(* non-vacuity: a coalesced datagram (Initial + Handshake packet) followed by the sends of both spaces, then an
   application packet and its send *)
Definition ex_d_ops : list cop :=
  [CPacket SInitial (VPlain 0 false) [FxFrame true] 90 10;
   CPacket SHandshake (VPlain 0 false) [FxFrame true] 90 10;
   CSend SInitial 90 0 1200 false;
   CSend SHandshake 90 0 1200 false;
   CPacket SApp (VPlain 3 false) [FxComplete; FxDiscard SHandshake; FxFrame true] 100 10;
   CSend SApp 100 0 1200 true].

Fixpoint crun_d (dmax : Z) (c : rconn) (now : Z) (h : sid -> bool) (ops : list cop) : Prop :=
  match ops with
  | [] => True
  | o :: r => wf_cop_d dmax now o /\ disciplined h o /\ crun_d dmax (snd (cstep c o)) (cop_time now o) (hot_after c h o) r
  end.
Fixpoint hot_run (c : rconn) (h : sid -> bool) (ops : list cop) : sid -> bool :=
  match ops with [] => h | o :: r => hot_run (snd (cstep c o)) (hot_after c h o) r end.

Lemma crun_d_reach dmax ops : forall c now h, creach_d dmax c now h -> crun_d dmax c now h ops ->
  creach_d dmax (crun c ops) (clock_after now ops) (hot_run c h ops).
Proof.
  induction ops as [|o r IH]; intros c now h R H; cbn; [exact R|]. destruct H as (H1 & H2 & H3).
  apply IH; [|exact H3]. apply crd_step; auto.
Qed.

Lemma crun_d_wf dmax ops : forall c now h, crun_d dmax c now h ops -> wf_cops ops.
Proof. induction ops as [|o r IH]; intros c now h H; cbn in *; [exact I|]. destruct H as ((H1 & _) & _ & H2). split; eauto. Qed.

(* the timeliness sentence on whole disciplined runs: as ack_timely_composed, with NO premise on the number of ranges and
   NO pacer premise -- the frame the due send writes is built from the capped queue, and the cap keeps every owed packet *)
Theorem ack_timely_cap_run_composed_l dmax c now h i L t ops u delay room blocked : CAP_ACK_NOW = true -> PACING_LE = true ->
  creach_d dmax c now h -> In (L, t) (owed (spc c i)) -> crun_d dmax c now h ops ->
  let c' := crun c ops in
  acked_in i L c ops \/ In CReinit ops \/ disc (spc c' i) = true \/
  (mem L (aq (spc c' i)) /\ exists x, ack_at (spc c' i) = Some x /\ x <= t + dmax /\
     (closing (spc c' i) = false -> clock_after now ops <= u -> ack_capacity (cap_ranges (aq (spc c' i))) <= room ->
      0 <= delay < 2 ^ 62 -> (i = SApp -> x <= u) ->
      exists bytes c'', cstep c' (CSend i u delay room blocked) = (CSent (SFrame bytes (cap_ranges (aq (spc c' i)))), c'') /\
        mem L (cap_ranges (aq (spc c' i))) /\ owed (spc c'' i) = [] /\ ack_at (spc c'' i) = None)).
Proof.
  intros Hf Hp R Hin H c'.
  destruct (owed_run i (L, t) ops c (creach_d_creach _ _ _ _ R) (crun_d_wf _ _ _ _ _ H) Hin) as [Q|[Q|Q]];
    [left; exact Q|right; left; exact Q|].
  right. right. destruct (disc (spc c' i)) eqn:D; [left; reflexivity|right].
  pose proof (crun_d_reach dmax ops c now h R H) as R'. fold c' in R'.
  destruct (ack_timely_cap_composed_l dmax c' _ _ i L t Hf Hp R' D Q) as (M & (x & Ea & Bx) & _).
  split; [exact M|]. exists x. split; [exact Ea|]. split; [exact Bx|].
  intros C Hu Hr Hd Happ.
  destruct (ack_timely_cap_send_composed_l dmax c' _ _ i L t x u delay room blocked Hf Hp R' C D Q Ea Hu Happ Hr Hd)
    as (bytes & c'' & E1 & E2 & _ & E3 & E4).
  exists bytes, c''. auto.
Qed.

Definition wf_cop_db (dmax : Z) (now : Z) (h : sid -> bool) (o : cop) : bool :=
  match o with
  | CPacket i v _ t d =>
      (match v with VPlain pn _ => (0 <=? pn) && (pn <? 2 ^ 62) | _ => true end) && (now <=? t) && (0 <=? d) && (d <=? dmax) &&
      negb (h i)
  | CSend i t delay _ _ => (now <=? t) && (0 <=? delay) && (delay <? 2 ^ 62)
  | _ => true
  end.
Fixpoint crun_db (dmax : Z) (c : rconn) (now : Z) (h : sid -> bool) (ops : list cop) : bool :=
  match ops with
  | [] => true
  | o :: r => wf_cop_db dmax now h o && crun_db dmax (snd (cstep c o)) (cop_time now o) (hot_after c h o) r
  end.

Lemma wf_cop_db_sound dmax now h o : wf_cop_db dmax now h o = true -> wf_cop_d dmax now o /\ disciplined h o.
Proof.
  unfold wf_cop_db, wf_cop_d, wf_cop, pn_ok_v, pn_ok, disciplined. destruct o; auto.
  - destruct v; intros H; repeat (apply andb_true_iff in H; destruct H as (H & ?)); repeat split; auto; try lia;
      destruct (h i); auto; discriminate.
  - intros H; repeat (apply andb_true_iff in H; destruct H as (H & ?)); repeat split; auto; lia.
Qed.

Lemma crun_db_sound dmax ops : forall c now h, crun_db dmax c now h ops = true -> crun_d dmax c now h ops.
Proof.
  induction ops as [|o r IH]; intros c now h H; cbn in *; [exact I|].
  apply andb_true_iff in H. destruct H as (H1 & H2). destruct (wf_cop_db_sound _ _ _ _ H1) as (A & B).
  split; [exact A|split; [exact B|apply IH; exact H2]].
Qed.

Example ex_discipline_composed :
  creach_d 25 (crun rinit ex_d_ops) 100 (hot_run rinit (fun _ => false) ex_d_ops) /\
  owed (spc (crun rinit ex_d_ops) SApp) = [(3, 100)] /\ ack_at (spc (crun rinit ex_d_ops) SApp) = Some 110 /\
  hot_run rinit (fun _ => false) ex_d_ops SApp = false.
Proof.
  split; [|repeat split; vm_compute; reflexivity].
  change 100 with (clock_after 0 ex_d_ops). apply crun_d_reach; [constructor; lia|].
  apply crun_db_sound. vm_compute. reflexivity.
Qed.
