(* C14: a FIN delivered together with the last bytes = the same bytes without FIN, then a lone FIN
   (model of the patched code: C14-fix-1 and C14-fix-2). *)
From AQ Require Import lib.Base lib.Tok model.H3Parse proofs.H3Chunk proofs.H3Split proofs.H3Loop proofs.H3Recv.
From Coq Require Import ZifyBool.

(* ------------------------------------------------------------------ the frame handler and the end of the stream *)
Definition hmap_ended (x : bool) (r : hres) : hres :=
  match r with HVal e s => HVal e (set_ended s x) | HBlocked s => HBlocked (set_ended s x) | r => r end.

Ltac brk := repeat (match goal with
  | |- context [if ?c then _ else _] => destruct c
  | |- context [o_dec ?a ?b ?c] => destruct (o_dec a b c)
  | |- context [o_val ?a ?b ?c] => destruct (o_val a b c)
  | |- context [pull_uint_var ?a] => destruct (pull_uint_var a) as [[? ?]|]
  end; cbn [fst snd hmap_ended s_id s_buf s_cur s_session s_blocked s_ended s_hstate s_clen s_expect s_push s_stype s_btype s_bpush]).

Lemma handle_set_ended : forall fx O cl t d s x e,
  handle_rp_frame fx O cl t (Some d) (set_ended s x) e = hmap_ended x (handle_rp_frame fx O cl t (Some d) s e).
Proof.
  intros fx O cl t d s x e. destruct s as [i bf cu se bl en hs cn ex pu sy bt bp].
  unfold handle_rp_frame, endmark, check_cl, set_ended, set_clen, set_expect, set_hstate, set_bpush.
  cbn [s_id s_buf s_cur s_session s_blocked s_ended s_hstate s_clen s_expect s_push s_stype s_btype s_bpush].
  brk; cbn; reflexivity.
Qed.


Lemma check_cl_hstate : forall s h, check_cl (set_hstate s h) = check_cl s.
Proof. destruct s; reflexivity. Qed.
Lemma check_cl_bpush : forall s h, check_cl (set_bpush s h) = check_cl s.
Proof. destruct s; reflexivity. Qed.

Lemma endmark_ended : forall fx s evs, fx_endmark fx = true ->
  if check_cl s then
    exists e', endmark fx s true evs = HVal e' s /\ norm e' = norm (evs ++ [EData (s_id s) (s_push s) [] true])
  else endmark fx s true evs = HErr H3_MESSAGE_ERROR.
Proof.
  intros fx s evs Hem. unfold endmark. rewrite Hem. cbn [andb].
  destruct (check_cl s); [|reflexivity]. eexists; split; reflexivity.
Qed.

Lemma handle_ended : forall fx O cl t d s, fx_endmark fx = true ->
  match handle_rp_frame fx O cl t (Some d) s false with
  | HVal e s2 =>
      if check_cl s2 then
        exists e', handle_rp_frame fx O cl t (Some d) s true = HVal e' s2 /\
                   norm e' = norm (e ++ [EData (s_id s2) (s_push s2) [] true])
      else handle_rp_frame fx O cl t (Some d) s true = HErr H3_MESSAGE_ERROR
  | r => handle_rp_frame fx O cl t (Some d) s true = r
  end.
Proof.
  intros fx O cl t d s Hem. unfold handle_rp_frame.
  destruct (t =? 0).
  { destruct (negb (s_hstate s =? 1)); [reflexivity|]. cbn [andb orb].
    set (st1 := set_clen s (s_clen s + Zlen d)).
    replace (s_id s) with (s_id st1) by (destruct s; reflexivity).
    replace (s_push s) with (s_push st1) by (destruct s; reflexivity).
    destruct d as [|x d']; cbn [is_nil negb]; destruct (check_cl st1); cbn [negb]; try reflexivity;
      eexists; (split; [reflexivity|]); cbn; rewrite ?app_nil_r; reflexivity. }
  destruct (t =? 1).
  { destruct (s_hstate s =? 2); [reflexivity|].
    destruct (o_dec O (s_id s) d); try reflexivity.
    destruct (o_val O _ hid) as [ok c0]. destruct (negb ok); [reflexivity|]. cbn [andb].
    set (st1 := if s_hstate s =? 0 then set_expect s c0 else s).
    rewrite check_cl_hstate.
    replace (s_id (set_hstate st1 _)) with (s_id s) by (subst st1; destruct (s_hstate s =? 0); destruct s; reflexivity).
    replace (s_push (set_hstate st1 _)) with (s_push s) by (subst st1; destruct (s_hstate s =? 0); destruct s; reflexivity).
    destruct (check_cl st1); cbn [negb]; [|reflexivity].
    eexists; split; [reflexivity|]. cbn. rewrite ?app_nil_r. reflexivity. }
  destruct ((t =? 5) && is_none (s_push s)).
  { destruct (negb cl); [reflexivity|].
    destruct (pull_uint_var d) as [[pid rest]|]; [|destruct (fx_pushpromise fx); reflexivity].
    set (s1 := if fx_pushblock fx then set_bpush s (Some pid) else s).
    destruct (o_dec O (s_id s1) rest); try reflexivity.
    destruct (negb (fst (o_val O 3 hid))); [reflexivity|].
    rewrite endmark_false. apply endmark_ended; assumption. }
  destruct (unexpected_rp t); [reflexivity|].
  rewrite endmark_false. apply endmark_ended; assumption.
Qed.

(* ------------------------------------------------------------------ deliveries carrying the FIN *)
Section Fin.
Variable fx : fixes.
Variable O : oracle.
Variable cl : bool.
Hypothesis Htr : fx_trunc fx = true.
Hypothesis Hem : fx_endmark fx = true.

(* the check behind the loop: a stream must not end inside a frame *)
Definition finish (r : rres) : rres :=
  match r with
  | RVal evs st' =>
      if negb (s_blocked st') && (negb (is_nil (s_buf st')) || negb (is_none (s_cur st')))
      then RErr H3_FRAME_ERROR else RVal evs st'
  | r => r
  end.

Lemma rq_recv_fin : forall st0 d,
  rq_recv fx O cl st0 d true =
  let buf := s_buf st0 ++ d in
  let st := set_ended (set_buf st0 buf) true in
  if s_blocked st0 then RVal [] st else
  match s_session st0 with
  | Some sess => RVal [EWT (s_id st0) sess buf true] (set_buf st [])
  | None =>
      if is_nil buf && is_none (s_cur st0) then
        (if check_cl st0 then RVal [EData (s_id st0) (s_push st0) [] true] st else RErr H3_MESSAGE_ERROR)
      else finish (rq_loop (rq_fuel buf) fx O cl true (set_buf st []) buf [])
  end.
Proof.
  intros st0 d. unfold rq_recv, finish. rewrite orb_true_r, Htr.
  destruct st0 as [i bf cu se bl en hs cn ex pu sy bt bp].
  cbv zeta. unfold set_buf, set_ended, set_cur, set_clen, check_cl.
  cbn [s_id s_buf s_cur s_session s_blocked s_ended s_hstate s_clen s_expect s_push s_stype s_btype s_bpush andb negb orb].
  destruct bl; [reflexivity|]. destruct se; [reflexivity|].
  destruct cu as [[t n]|]; cbn [is_none andb negb orb].
  - rewrite !andb_false_r. destruct (t =? 0); cbn [andb]; destruct (rq_loop _ _ _ _ _ _ _ _); reflexivity.
  - rewrite !andb_true_r. destruct (is_nil (bf ++ d)); [reflexivity|]. destruct (rq_loop _ _ _ _ _ _ _ _); reflexivity.
Qed.
Lemma hdr_of_cur : forall s s' b, s_cur s' = s_cur s -> hdr_of s' b = hdr_of s b.
Proof. intros s s' b H. unfold hdr_of. rewrite H. reflexivity. Qed.

(* the loop makes no progress on what it left behind *)
Definition stuck (s : hstream) (b : list Z) : Prop :=
  is_nil b = true \/ hdr_of s b = None \/ (exists t n, s_cur s = Some (t, n) /\ t <> 0 /\ Zlen b < n).

Lemma loop_stuck : forall f fin s b evs, stuck s b ->
  rq_loop f fx O cl fin s b evs = RVal evs (set_buf s b).
Proof.
  intros f fin s b evs H. destruct f; [reflexivity|]. rewrite (rq_loop_S fx O cl).
  destruct (is_nil b) eqn:En; [reflexivity|].
  destruct H as [H|[H|(t & n & Hc & Ht & Hl)]]; [congruence|rewrite H; reflexivity|].
  unfold hdr_of. rewrite Hc. cbn [is_none andb]. unfold body.
  replace (negb (t =? 0) && (Z.min n (Zlen b) <? n)) with true by lia.
  rewrite <- Hc, set_cur_same. reflexivity.
Qed.

(* a lone FIN reaching a stream that stopped inside a frame *)
Lemma recv_fin_stuck : forall s,
  s_blocked s = false -> s_session s = None ->
  (is_nil (s_buf s) = false \/ s_cur s <> None) -> stuck s (s_buf s) ->
  rq_recv fx O cl s [] true = RErr H3_FRAME_ERROR.
Proof.
  intros s Hb Hs Hne Hst. rewrite rq_recv_fin. cbv zeta. rewrite app_nil_r, Hb, Hs, set_buf_same.
  replace (is_nil (s_buf s) && is_none (s_cur s)) with false.
  2:{ destruct Hne as [-> | Hc]; [reflexivity|]. destruct (s_cur s); [rewrite andb_false_r; reflexivity | congruence]. }
  rewrite loop_stuck.
  2:{ destruct Hst as [H|[H|(t & n & Hc & Ht & Hl)]]; [left; assumption | right; left | right; right].
      - unfold hdr_of in *. replace (s_cur (set_buf (set_ended s true) [])) with (s_cur s) by (destruct s; reflexivity). assumption.
      - exists t, n. repeat split; assumption. }
  unfold finish. rewrite set_buf_set_buf, s_buf_set_buf.
  replace (s_blocked (set_buf (set_ended s true) (s_buf s))) with false by (destruct s; cbn in *; congruence).
  replace (s_cur (set_buf (set_ended s true) (s_buf s))) with (s_cur s) by (destruct s; reflexivity).
  cbn [negb andb].
  destruct Hne as [-> | Hc]; [reflexivity|]. destruct (s_cur s); [rewrite orb_true_r; reflexivity | congruence].
Qed.

(* ... that stopped at a frame boundary with nothing buffered *)
Lemma recv_fin_lone : forall s,
  s_blocked s = false -> s_session s = None -> s_cur s = None -> s_buf s = [] ->
  rq_recv fx O cl s [] true =
  if check_cl s then RVal [EData (s_id s) (s_push s) [] true] (set_ended s true) else RErr H3_MESSAGE_ERROR.
Proof.
  intros s Hb Hs Hc Hbuf. rewrite rq_recv_fin. cbv zeta. rewrite app_nil_r, Hb, Hs, Hc, set_buf_same, Hbuf. reflexivity.
Qed.

(* ... that waits for the encoder stream *)
Lemma recv_fin_blocked : forall s, s_blocked s = true -> rq_recv fx O cl s [] true = RVal [] (set_ended s true).
Proof. intros s Hb. rewrite rq_recv_fin. cbv zeta. rewrite app_nil_r, Hb, set_buf_same. reflexivity. Qed.

(* ... that carries WebTransport data *)
Lemma recv_fin_session : forall s n, s_blocked s = false -> s_session s = Some n -> s_buf s = [] ->
  rq_recv fx O cl s [] true = RVal [EWT (s_id s) n [] true] (set_ended s true).
Proof.
  intros s n Hb Hs Hbuf. rewrite rq_recv_fin. cbv zeta. rewrite app_nil_r, Hb, Hs, set_buf_same, Hbuf.
  f_equal. destruct s; cbn in *; subst; reflexivity.
Qed.

Let recv_fin := fun s => rq_recv fx O cl s [] true.

Lemma hdr_of_fuel : forall st b t n b2 (f : nat),
  hdr_of st b = Some (t, n, b2) -> is_nil b = false -> measure st b < Z.of_nat (S f) ->
  2 * Zlen b2 < Z.of_nat f /\ 1 < Z.of_nat f.
Proof.
  intros st b t n b2 f H Hb Hm. apply is_nil_false_pos in Hb. unfold hdr_of, measure in *.
  destruct (s_cur st) as [[t0 n0]|].
  - inversion H; subst. cbn [is_none] in Hm. lia.
  - destruct (pull_uint_var b) as [[t1 b1]|] eqn:P1; [|discriminate].
    destruct (pull_uint_var b1) as [[n1 b2']|] eqn:P2; [|discriminate]. inversion H; subst.
    apply pull_len in P1. apply pull_len in P2. cbn [is_none] in Hm. pose proof (Zlen_nonneg b2). lia.
Qed.

Lemma fin_blocked : forall st2 evs t b3,
  requiv (finish (RVal evs (set_buf (set_btype (set_blocked (set_ended st2 true) true)
                                       (if fx_pushblock fx then Some t else s_btype (set_ended st2 true))) b3)))
         (rbind (RVal evs (set_buf (set_btype (set_blocked st2 true) (if fx_pushblock fx then Some t else s_btype st2)) b3))
                recv_fin).
Proof.
  intros st2 evs t b3. unfold finish, recv_fin. cbn [rbind].
  rewrite recv_fin_blocked by (destruct st2; reflexivity).
  replace (s_blocked (set_buf (set_btype (set_blocked (set_ended st2 true) true) _) b3)) with true by (destruct st2; reflexivity).
  cbn [negb andb prepend requiv]. split; [rewrite app_nil_r; reflexivity | destruct st2; reflexivity].
Qed.

Lemma loop_fin : forall f stF b evs,
  LH stF -> is_nil b = false -> measure stF b < Z.of_nat f ->
  requiv (finish (rq_loop f fx O cl true (set_ended stF true) b evs))
         (rbind (rq_loop f fx O cl false stF b evs) recv_fin).
Proof.
  induction f; intros stF b evs HL Hb Hm.
  { exfalso. unfold measure in Hm. pose proof (Zlen_nonneg b). destruct (is_none (s_cur stF)); lia. }
  pose proof HL as (L1 & L2 & L3 & L4 & L5).
  rewrite !(rq_loop_S fx O cl), Hb.
  rewrite (hdr_of_cur stF (set_ended stF true)) by (destruct stF; reflexivity).
  replace (s_cur (set_ended stF true)) with (s_cur stF) by (destruct stF; reflexivity).
  replace (s_id (set_ended stF true)) with (s_id stF) by (destruct stF; reflexivity).
  destruct (hdr_of stF b) as [[[t n] b2]|] eqn:Eh.
  2:{ (* the frame header is incomplete *)
      unfold finish. rewrite s_buf_set_buf, Hb.
      replace (s_blocked (set_buf (set_ended stF true) b)) with false by (destruct stF; cbn in *; congruence).
      cbn [negb andb orb rbind]. unfold recv_fin. rewrite recv_fin_stuck; [cbn; reflexivity | | | |].
      - destruct stF; cbn in *; congruence.
      - destruct stF; cbn in *; congruence.
      - left. rewrite s_buf_set_buf. assumption.
      - right; left. rewrite s_buf_set_buf. rewrite (hdr_of_cur stF) by (destruct stF; reflexivity). assumption. }
  destruct (is_none (s_cur stF) && (t =? 65)) eqn:Ewt.
  { (* WEBTRANSPORT_STREAM *)
    rewrite orb_true_r, orb_false_r. unfold finish. rewrite s_buf_set_buf.
    replace (s_cur (set_buf (set_session (set_cur (set_ended stF true) None) (Some n)) [])) with (@None (Z * Z))
      by (destruct stF; reflexivity).
    cbn [is_nil is_none negb orb]. rewrite andb_false_r. cbn [rbind]. unfold recv_fin.
    rewrite (recv_fin_session _ n) by (destruct stF; cbn in *; congruence).
    cbn [prepend requiv]. split; [|destruct stF; reflexivity].
    rewrite !norm_app, <- app_assoc. f_equal.
    replace (s_id (set_buf (set_session (set_cur stF None) (Some n)) [])) with (s_id stF) by (destruct stF; reflexivity).
    destruct b2; cbn; rewrite ?app_nil_r; reflexivity. }
  unfold body. cbv zeta.
  replace (s_ended (set_ended stF true)) with true by (destruct stF; reflexivity). rewrite L4, Htr. cbn [negb andb orb].
  destruct (negb (t =? 0) && (Z.min n (Zlen b2) <? n)) eqn:Ebrk.
  { (* the payload of a frame other than DATA is incomplete *)
    unfold finish.
    replace (s_blocked (set_buf (set_cur (set_ended stF true) (Some (t, n))) b2)) with false by (destruct stF; cbn in *; congruence).
    replace (s_cur (set_buf (set_cur (set_ended stF true) (Some (t, n))) b2)) with (Some (t, n)) by (destruct stF; reflexivity).
    cbn [is_none negb andb]. rewrite orb_true_r. cbn [rbind]. unfold recv_fin.
    rewrite recv_fin_stuck; [cbn; reflexivity | | | |].
    - destruct stF; cbn in *; congruence.
    - destruct stF; cbn in *; congruence.
    - right. destruct stF; cbn; congruence.
    - right; right. exists t, n. rewrite s_buf_set_buf. split; [destruct stF; reflexivity|]. lia. }
  set (c := Z.min n (Zlen b2)) in *. set (cur' := if n - c =? 0 then None else Some (t, n - c)).
  set (b3 := zdrop c b2). set (data := ztake c b2).
  replace (set_cur (set_ended stF true) cur') with (set_ended (set_cur stF cur') true) by (destruct stF; reflexivity).
  rewrite handle_set_ended.
  pose proof (hdr_of_fuel _ _ _ _ _ _ Eh Hb Hm) as [F1 F2].
  assert (Hcur' : forall m, cur' = Some (0, m) -> t = 0).
  { intros m Hc. subst cur'. destruct (n - c =? 0); [discriminate|]. inversion Hc; reflexivity. }
  destruct (is_nil b3) eqn:En3; cbn [andb].
  2:{ (* more bytes behind this frame: it does not carry the end of the stream *)
      destruct (handle_rp_frame fx O cl t (Some data) (set_cur stF cur') false) eqn:Hh; cbn [hmap_ended].
      - apply IHf; [|assumption|].
        + eapply (handled_LH fx O cl); [apply LH_LH0; exact HL | exact Hh | exact Hcur'].
        + eapply (after_measure fx O cl); eauto.
      - apply fin_blocked.
      - cbn; reflexivity.
      - cbn; reflexivity. }
  apply is_nil_true in En3.
  destruct (is_none cur') eqn:Enc.
  2:{ (* the buffer ends inside a DATA payload *)
      destruct (handle_rp_frame fx O cl t (Some data) (set_cur stF cur') false) eqn:Hh; cbn [hmap_ended].
      - rewrite En3, !rq_loop_nil.
        pose proof (handled_LH fx O cl _ _ _ _ _ _ (LH_LH0 _ HL) Hh Hcur') as (M1 & M2 & M3 & M4 & M5).
        pose proof (handle_cur fx O cl _ _ _ _ _ _ Hh) as Hcur.
        assert (Hc2 : s_cur st <> None).
        { rewrite Hcur. replace (s_cur (set_cur stF cur')) with cur' by (destruct stF; reflexivity).
          destruct cur'; [congruence|discriminate]. }
        unfold finish. rewrite s_buf_set_buf.
        replace (s_blocked (set_buf (set_ended st true) [])) with false by (destruct st; cbn in *; congruence).
        replace (s_cur (set_buf (set_ended st true) [])) with (s_cur st) by (destruct st; reflexivity).
        cbn [rbind]. unfold recv_fin. rewrite recv_fin_stuck.
        + destruct (s_cur st); [cbn; reflexivity | congruence].
        + destruct st; cbn in *; congruence.
        + destruct st; cbn in *; congruence.
        + right. destruct st; cbn in *; congruence.
        + left. rewrite s_buf_set_buf. reflexivity.
      - rewrite En3. apply fin_blocked.
      - cbn; reflexivity.
      - cbn; reflexivity. }
  (* the frame ends exactly where the stream ends *)
  pose proof (handle_ended fx O cl t data (set_cur stF cur') Hem) as HE.
  destruct (handle_rp_frame fx O cl t (Some data) (set_cur stF cur') false) eqn:Hh.
  - pose proof (handled_LH fx O cl _ _ _ _ _ _ (LH_LH0 _ HL) Hh Hcur') as (M1 & M2 & M3 & M4 & M5).
    pose proof (handle_cur fx O cl _ _ _ _ _ _ Hh) as Hcur.
    assert (Hc2 : s_cur st = None).
    { rewrite Hcur. replace (s_cur (set_cur stF cur')) with cur' by (destruct stF; reflexivity).
      destruct cur'; [discriminate|reflexivity]. }
    rewrite En3, !rq_loop_nil. cbn [rbind]. unfold recv_fin.
    rewrite recv_fin_lone by (destruct st; cbn in *; congruence).
    replace (check_cl (set_buf st [])) with (check_cl st) by (destruct st; reflexivity).
    destruct (check_cl st) eqn:Ecl.
    + destruct HE as (e' & Ht & Hn). rewrite Ht. cbn [hmap_ended]. rewrite rq_loop_nil.
      unfold finish. rewrite s_buf_set_buf.
      replace (s_cur (set_buf (set_ended st true) [])) with (@None (Z * Z)) by (destruct st; cbn in *; congruence).
      cbn [is_nil is_none negb orb]. rewrite andb_false_r. cbn [prepend requiv].
      split; [|destruct st; reflexivity].
      rewrite !norm_app in *. rewrite Hn, <- app_assoc.
      replace (s_id (set_buf st [])) with (s_id st) by (destruct st; reflexivity).
      replace (s_push (set_buf st [])) with (s_push st) by (destruct st; reflexivity). reflexivity.
    + rewrite HE. cbn. reflexivity.
  - rewrite HE. cbn [hmap_ended]. rewrite En3. apply fin_blocked.
  - rewrite HE. cbn; reflexivity.
  - rewrite HE. cbn; reflexivity.
Qed.

(* ------------------------------------------------------------------ FIN late *)
Lemma fin_late : forall st0 a, stream_ok st0 ->
  requiv (rq_recv fx O cl st0 a true) (rbind (rq_recv fx O cl st0 a false) recv_fin).
Proof.
  intros st0 a Hok.
  assert (HL : s_blocked st0 = false -> s_session st0 = None -> LH (set_buf st0 []))
    by (apply LH_of_ok; assumption).
  eapply requiv_trans; [|apply requiv_sym; apply requiv_rbind; [apply (recv_resume fx O cl Htr); assumption | intros; apply requiv_refl]].
  destruct Hok as (K1 & K2 & K3).
  rewrite rq_recv_fin. cbv zeta. unfold resume.
  destruct (s_blocked st0) eqn:Eb.
  { cbn [rbind]. unfold recv_fin. rewrite recv_fin_blocked by (destruct st0; cbn in *; congruence).
    cbn. split; [reflexivity|]. destruct st0; reflexivity. }
  destruct (s_session st0) as [sess|] eqn:Es.
  { rewrite K2 by (auto; congruence). cbn [rbind app]. unfold recv_fin.
    rewrite (recv_fin_session _ sess) by (destruct st0; cbn in *; congruence).
    cbn [prepend requiv]. split; [|destruct st0; reflexivity].
    replace (s_id (set_buf st0 [])) with (s_id st0) by (destruct st0; reflexivity).
    cbn. rewrite ?app_nil_r. reflexivity. }
  specialize (HL eq_refl eq_refl).
  set (buf := s_buf st0 ++ a).
  replace (set_buf (set_ended (set_buf st0 buf) true) []) with (set_ended (set_buf st0 []) true) by (destruct st0; reflexivity).
  destruct (is_nil buf) eqn:En; cbn [andb].
  - apply is_nil_true in En. rewrite En. rewrite !rq_loop_nil, set_buf_set_buf. cbn [rbind]. unfold recv_fin.
    destruct (is_none (s_cur st0)) eqn:Ec.
    + rewrite recv_fin_lone; try (destruct st0; cbn in *; congruence).
      * replace (check_cl (set_buf st0 [])) with (check_cl st0) by (destruct st0; reflexivity).
        destruct (check_cl st0); [|cbn; reflexivity]. cbn [prepend app requiv]. split; destruct st0; reflexivity.
      * destruct st0 as [i bf [cu|] se bl en hs cn ex pu sy bt bp]; cbn in *; congruence.
    + rewrite recv_fin_stuck.
      * unfold finish. rewrite s_buf_set_buf.
        replace (s_blocked (set_buf (set_ended (set_buf st0 []) true) [])) with false by (destruct st0; cbn in *; congruence).
        replace (s_cur (set_buf (set_ended (set_buf st0 []) true) [])) with (s_cur st0) by (destruct st0; reflexivity).
        rewrite Ec. cbn. reflexivity.
      * destruct st0; cbn in *; congruence.
      * destruct st0; cbn in *; congruence.
      * right. destruct st0 as [i bf [cu|] se bl en hs cn ex pu sy bt bp]; cbn in *; congruence.
      * left. rewrite s_buf_set_buf. reflexivity.
  - apply loop_fin; [exact HL | exact En |].
    unfold measure, rq_fuel, Zlen. destruct (is_none (s_cur (set_buf st0 []))); lia.
Qed.

(* ------------------------------------------------------------------ two deliveries = one *)
Lemma two_chunks : forall st0 a b fin, stream_ok st0 ->
  requiv (rq_recv fx O cl st0 (a ++ b) fin)
         (rbind (rq_recv fx O cl st0 a false) (fun s => rq_recv fx O cl s b fin)).
Proof.
  intros st0 a b [|] Hok; [|apply (split_nofin fx O cl Htr Hem); assumption].
  eapply requiv_trans; [apply fin_late; assumption|].
  eapply requiv_trans.
  { apply requiv_rbind; [apply (split_nofin fx O cl Htr Hem); assumption | intros; apply requiv_refl]. }
  rewrite rbind_assoc.
  apply requiv_rbind_when; [apply requiv_refl|].
  intros e s Hr. apply requiv_sym. apply fin_late. eapply (recv_ok fx O cl Htr Hem); eauto.
Qed.

Lemma rbind_ret : forall r, requiv (rbind r (fun s => RVal [] s)) r.
Proof. destruct r; cbn; [rewrite app_nil_r; auto | reflexivity..]. Qed.

(* ------------------------------------------------------------------ any number of deliveries = one *)
Lemma chunks_whole : forall parts st0 first fin, stream_ok st0 ->
  requiv (feed fx O cl st0 (mk_chunks first parts fin)) (rq_recv fx O cl st0 (first ++ concat parts) fin).
Proof.
  induction parts as [|p ps IH]; intros st0 first fin Hok; cbn [mk_chunks feed concat].
  - rewrite app_nil_r. apply rbind_ret.
  - eapply requiv_trans; [|apply requiv_sym; apply two_chunks; assumption].
    apply requiv_rbind_when; [apply requiv_refl|].
    intros e s Hr. apply IH. eapply (recv_ok fx O cl Htr Hem); eauto.
Qed.

(* two splittings of the same byte string are indistinguishable *)
Lemma chunks_any : forall st0 f1 p1 f2 p2 fin, stream_ok st0 ->
  f1 ++ concat p1 = f2 ++ concat p2 ->
  requiv (feed fx O cl st0 (mk_chunks f1 p1 fin)) (feed fx O cl st0 (mk_chunks f2 p2 fin)).
Proof.
  intros st0 f1 p1 f2 p2 fin Hok E.
  eapply requiv_trans; [apply chunks_whole; assumption|]. rewrite E. apply requiv_sym. apply chunks_whole; assumption.
Qed.

End Fin.

(* the hypothesis is satisfiable: a fresh stream, a stream inside a DATA frame, a stream holding half a frame header *)
Example stream_ok_fresh : forall sid, stream_ok (new_stream sid).
Proof. intros sid. repeat split; cbn; intros; try reflexivity; congruence. Qed.
Example stream_ok_in_data : stream_ok (set_cur (set_hstate (new_stream 4) 1) (Some (0, 100))).
Proof. repeat split; cbn; intros; try reflexivity; congruence. Qed.
Example stream_ok_half_header : stream_ok (set_buf (new_stream 0) [64]).
Proof. repeat split; cbn; intros; try reflexivity; congruence. Qed.

(* what one delivery leaves behind is fit for the next one (so every reachable state qualifies) *)
Lemma stream_ok_preserved : forall fx O cl, fx_trunc fx = true -> fx_endmark fx = true ->
  forall st0 d e st', stream_ok st0 -> rq_recv fx O cl st0 d false = RVal e st' -> stream_ok st'.
Proof. exact recv_ok. Qed.
