(* C01: stream resets inside the theorems.  [xreach]: reachability by ANY sequence of enabled steps of
   model/NetSys.v, reset steps included (NReset, NEmitReset, NDeliverReset, NResetOutcome).

   Part 1: facts about the receive half that hold without any invariant (final size bookkeeping, is_finished is
           monotone, a terminal event sets is_finished) and the shape of the event stream of every schedule.
   Part 2: the sender invariant about highest_offset on the data-step states (HInv).
   Part 3: the invariant after reset() (XInv), and the theorems for xreach. *)
From Coq Require Import ZArith List Bool Lia ZifyBool Permutation.
From AQ Require Import lib.Base model.RangeSet model.StreamRecv model.StreamSpec model.StreamSend model.NetSys model.NetSysLive
  proofs.RangeSetP proofs.ListZ proofs.StreamRecvP proofs.StreamSendP proofs.NetSysP proofs.NetSysP2 proofs.NetSysP3
  proofs.NetSysP4.

(* ================= Part 1: the receive half, unconditionally ================= *)
Definition fse_bad (st : recv) (off : Z) (data : list Z) (fin : bool) : bool :=
  match r_final st with
  | Some f => (off + Zlen data >? f) || (fin && negb (off + Zlen data =? f))
  | None => false
  end.

Definition is_term (e : rout) : bool := match e with RReset => true | RData _ true => true | _ => false end.

Lemma pull_data_keeps st : r_final (snd (pull_data st)) = r_final st /\ r_finished (snd (pull_data st)) = r_finished st.
Proof. unfold pull_data. destruct (r_ranges st) as [|[s e] rest]; [|destruct (s =? r_start st)]; cbn; auto. Qed.

Lemma handle_frame_facts st off data fin :
  if fse_bad st off data fin then handle_frame st off data fin = (RFinalSizeError, st)
  else fst (handle_frame st off data fin) <> RFinalSizeError /\
       fst (handle_frame st off data fin) <> RReset /\
       r_final (snd (handle_frame st off data fin)) = (if fin then Some (off + Zlen data) else r_final st) /\
       (r_finished st = true -> r_finished (snd (handle_frame st off data fin)) = true) /\
       (is_term (fst (handle_frame st off data fin)) = true -> r_finished (snd (handle_frame st off data fin)) = true).
Proof.
  unfold fse_bad, handle_frame.
  destruct (match r_final st with Some f => (off + Zlen data >? f) || (fin && negb (off + Zlen data =? f)) | None => false end);
    [reflexivity|].
  destruct ((off - r_start st =? 0) && negb (Zlen data =? 0) && match r_buf st with [] => true | _ => false end).
  - cbn [fst snd r_final r_finished is_term]. repeat split; try discriminate.
    + intros ->. destruct fin; reflexivity.
    + destruct fin; [reflexivity|discriminate].
  - destruct (off - r_start st <? 0); cbv beta iota;
    match goal with |- context [pull_data ?x] =>
      destruct (pull_data_keeps x) as (P1 & P2); destruct (pull_data x) as [out st1] end;
    cbn [snd r_final r_finished] in P1, P2; cbv beta iota;
    destruct (opt_eqb (r_final st1) (r_start st1)) eqn:Eend; destruct out as [|b0 out0];
    cbn [fst snd r_final r_finished is_term]; rewrite ?P1, ?P2; repeat split; try discriminate; auto.
Qed.

Lemma handle_reset_facts st fs :
  match r_final st with
  | Some f => if negb (f =? fs) then handle_reset st fs = (RFinalSizeError, st)
              else fst (handle_reset st fs) = RReset /\ r_final (snd (handle_reset st fs)) = Some fs /\
                   r_finished (snd (handle_reset st fs)) = true
  | None => fst (handle_reset st fs) = RReset /\ r_final (snd (handle_reset st fs)) = Some fs /\
            r_finished (snd (handle_reset st fs)) = true
  end.
Proof. unfold handle_reset. destruct (r_final st) as [f|]; [destruct (negb (f =? fs))|]; cbn; auto. Qed.

(* ---------- the events queued by a schedule ---------- *)
Fixpoint ends_of (q : list rout) : Z :=
  match q with [] => 0 | e :: t => (match e with RData _ true => 1 | _ => 0 end) + ends_of t end.
Definition bytes_all (q : list rout) : list Z := flat_map bytes_of q.

Definition queued (s : net) (op : nop) (s' : net) : list rout :=
  match op with NPop => [] | _ => skipn (length (n_queue s)) (n_queue s') end.

Fixpoint sched_events (s : net) (ops : list nop) : list rout :=
  match ops with
  | [] => []
  | op :: t => match net_step s op with
               | Some (_, s') => queued s op s' ++ sched_events s' t
               | None => []
               end
  end.

(* a terminal event (end marker or StreamReset) is the last event *)
Fixpoint term_last (ev : list rout) : Prop :=
  match ev with [] => True | e :: t => (is_term e = true -> t = []) /\ term_last t end.

Lemma skipn_app_exact {A} (l q : list A) : skipn (length l) (l ++ q) = q.
Proof. rewrite skipn_app, Nat.sub_diag, skipn_all. reflexivity. Qed.

Definition step_shape (s s' : net) (q : list rout) : Prop :=
  n_dbytes s' = n_dbytes s ++ bytes_all q /\ n_ends s' = n_ends s + ends_of q /\
  (r_finished (n_recv s) = true -> r_finished (n_recv s') = true /\ q = []) /\
  (q = [] \/ exists e, q = [e] /\ (is_term e = true -> r_finished (n_recv s') = true)).

Lemma report_shape wf o s r' em rr : wf = r_finished (n_recv s) -> o <> RFinalSizeError ->
  (wf = true -> r_finished r' = true) -> (is_term o = true -> r_finished r' = true) ->
  exists q, n_queue (report wf o s r' em rr) = n_queue s ++ q /\ step_shape s (report wf o s r' em rr) q.
Proof.
  intros Hwf Hne Hmono Hterm. unfold report, step_shape. destruct wf.
  - exists []. cbn [n_queue n_dbytes n_ends n_recv bytes_all flat_map ends_of]. rewrite !app_nil_r.
    split; [reflexivity|]. split; [reflexivity|]. split; [lia|]. split; [intros _; split; [apply Hmono|]; reflexivity|left; reflexivity].
  - destruct o as [|d e| |].
    + exists []. cbn [n_queue n_dbytes n_ends n_recv bytes_all flat_map ends_of]. rewrite !app_nil_r.
      split; [reflexivity|]. split; [reflexivity|]. split; [lia|]. split; [intros X; congruence|left; reflexivity].
    + exists [RData d e]. cbn [n_queue n_dbytes n_ends n_recv bytes_all flat_map bytes_of ends_of]. rewrite !app_nil_r.
      split; [reflexivity|]. split; [reflexivity|]. split; [destruct e; cbn [b2z]; lia|].
      split; [intros X; congruence|right; eexists; split; [reflexivity|exact Hterm]].
    + contradiction Hne. reflexivity.
    + exists [RReset]. cbn [n_queue n_dbytes n_ends n_recv bytes_all flat_map bytes_of ends_of]. rewrite !app_nil_r.
      split; [reflexivity|]. split; [reflexivity|]. split; [lia|].
      split; [intros X; congruence|right; eexists; split; [reflexivity|exact Hterm]].
Qed.

Lemma shape_same s s' : n_queue s' = n_queue s -> n_dbytes s' = n_dbytes s -> n_ends s' = n_ends s -> n_recv s' = n_recv s ->
  exists q, n_queue s' = n_queue s ++ q /\ step_shape s s' q.
Proof.
  intros E1 E2 E3 E4. exists []. unfold step_shape. rewrite E1, E2, E3, E4, !app_nil_r. cbn. repeat split; auto; lia.
Qed.

(* every step except Pop appends to the queue exactly the events it reports *)
Lemma step_queue s op o s' : net_step s op = Some (o, s') -> op <> NPop ->
  exists q, n_queue s' = n_queue s ++ q /\ step_shape s s' q.
Proof.
  intros H Hnp. destruct op; cbn [net_step] in H; try (contradiction Hnp; reflexivity).
  - destruct (is_noneb (s_fin (n_send s)) && is_noneb (s_reset (n_send s))); [|discriminate].
    destruct (write (n_send s) d fin) as [so st']. inversion H; subst. apply shape_same; reflexivity.
  - destruct (is_noneb (s_reset (n_send s))); [|discriminate]. destruct (get_frame (n_send s) ms mo) as [so st'].
    destruct so; inversion H; subst; apply shape_same; reflexivity.
  - destruct (nthE (n_emitted s) i) as [f|]; [|discriminate].
    pose proof (handle_frame_facts (n_recv s) (ef_off f) (ef_data f) (ef_fin f)) as HF.
    destruct (fse_bad (n_recv s) (ef_off f) (ef_data f) (ef_fin f)).
    + rewrite HF in H. inversion H; subst. apply shape_same; reflexivity.
    + destruct HF as (F1 & _ & _ & F3 & F4).
      destruct (handle_frame (n_recv s) (ef_off f) (ef_data f) (ef_fin f)) as [ro r']. cbn [fst snd] in *.
      destruct ro; try (contradiction F1; reflexivity); inversion H; subst; apply report_shape; auto.
  - destruct (nthE (n_emitted s) i) as [f|]; [|discriminate].
    destruct (is_noneb (ef_out f) && (negb acked || ef_deliv f)); [|discriminate]. unfold ef_key in H.
    destruct (on_data_delivery (n_send s) acked (ef_off f) (ef_off f + Zlen (ef_data f)) (ef_fin f)). inversion H; subst.
    apply shape_same; reflexivity.
  - destruct (reset (n_send s) code). inversion H; subst. apply shape_same; reflexivity.
  - destruct (is_noneb (s_reset (n_send s))); [discriminate|]. destruct (get_reset_frame (n_send s)) as [so st'].
    destruct so; inversion H; subst; apply shape_same; reflexivity.
  - destruct (nthZo (n_resets s) j) as [fs|]; [|discriminate].
    pose proof (handle_reset_facts (n_recv s) fs) as HR.
    destruct (r_final (n_recv s)) as [f0|] eqn:Ef; [destruct (negb (f0 =? fs))|].
    + rewrite HR in H. inversion H; subst. apply shape_same; reflexivity.
    + destruct HR as (R1 & R2 & R3). destruct (handle_reset (n_recv s) fs) as [ro r']. cbn [fst snd] in *. subst ro.
      inversion H; subst. apply report_shape; auto; discriminate.
    + destruct HR as (R1 & R2 & R3). destruct (handle_reset (n_recv s) fs) as [ro r']. cbn [fst snd] in *. subst ro.
      inversion H; subst. apply report_shape; auto; discriminate.
  - destruct (n_resets s); [discriminate|]. destruct (on_reset_delivery (n_send s) acked). inversion H; subst.
    apply shape_same; reflexivity.
  - inversion H; subst. apply shape_same; reflexivity.
Qed.

Lemma pop_shape s o s' : net_step s NPop = Some (o, s') ->
  n_dbytes s' = n_dbytes s /\ n_ends s' = n_ends s /\ n_recv s' = n_recv s /\ exists e, n_queue s = e :: n_queue s' /\ o = OEvent e.
Proof. cbn [net_step]. destruct (n_queue s) as [|e q]; [discriminate|]. intros H. inversion H; subst. cbn. eauto 6. Qed.

Lemma bytes_all_app a b : bytes_all (a ++ b) = bytes_all a ++ bytes_all b.
Proof. unfold bytes_all. apply flat_map_app. Qed.
Lemma ends_of_app a b : ends_of (a ++ b) = ends_of a + ends_of b.
Proof. induction a as [|e t IH]; cbn [app ends_of]; [lia|]. rewrite IH. lia. Qed.

(* for EVERY schedule (reset steps included): the ghost fields are exactly the events queued; once the receive half
   is finished nothing more is queued; the terminal event (end marker or StreamReset) is the last one -- so the
   StreamReset is reported at most once, nothing is reported after it, and nothing after the end marker *)
Lemma events_shape ops : forall s s', run_sched s ops = Some s' ->
  n_dbytes s' = n_dbytes s ++ bytes_all (sched_events s ops) /\
  n_ends s' = n_ends s + ends_of (sched_events s ops) /\
  (r_finished (n_recv s) = true -> sched_events s ops = [] /\ r_finished (n_recv s') = true) /\
  term_last (sched_events s ops).
Proof.
  induction ops as [|op t IH]; intros s s' H; cbn [run_sched sched_events] in *.
  - inversion H; subst. cbn. rewrite app_nil_r. repeat split; auto; lia.
  - destruct (net_step s op) as [[o s1]|] eqn:E; [|discriminate].
    destruct (IH s1 s' H) as (I1 & I2 & I3 & I4).
    assert (Hq : exists q, queued s op s1 = q /\ step_shape s s1 q).
    { destruct op; try (destruct (step_queue s _ o s1 E ltac:(discriminate)) as (q & Q1 & Q2); exists q; split; [|exact Q2];
        unfold queued; rewrite Q1; apply skipn_app_exact).
      destruct (pop_shape s o s1 E) as (P1 & P2 & P3 & _). exists []. split; [reflexivity|]. unfold step_shape.
      rewrite P1, P2, P3, app_nil_r. cbn. repeat split; auto; lia. }
    destruct Hq as (q & -> & (S1 & S2 & S3 & S4)).
    split; [rewrite I1, S1, bytes_all_app, app_assoc; reflexivity|].
    split; [rewrite I2, S2, ends_of_app; lia|]. split.
    + intros Hf. destruct (S3 Hf) as (X1 & ->). destruct (I3 X1) as (Y1 & Y2). rewrite Y1. auto.
    + destruct S4 as [->|(e & -> & Ht)]; [exact I4|]. cbn [app term_last]. split; [|exact I4].
      intros He. exact (proj1 (I3 (Ht He))).
Qed.

Lemma term_last_count ev : term_last ev -> ends_of ev <= 1 /\ (Zlen (filter is_term ev) <= 1).
Proof.
  induction ev as [|e t IH]; cbn [term_last ends_of filter]; [unfold Zlen; cbn; lia|].
  intros (H1 & H2). destruct (IH H2) as (I1 & I2).
  destruct (is_term e) eqn:Et.
  - rewrite (H1 eq_refl) in *. cbn [ends_of filter]. unfold Zlen. cbn [length]. destruct e as [|d [|]| |]; lia.
  - destruct e as [|d [|]| |]; try discriminate; split; try lia; exact I2.
Qed.

(* ================= Part 2: highest_offset on the sender ================= *)
Record HS (st : send) : Prop := {
  hs_le : 0 <= s_highest st <= s_stop st;
  hs_nonpend : forall o, 0 <= o < s_stop st -> ~ mem o (s_pending st) -> o < s_highest st
}.

Lemma hs_init : HS (send_init true).
Proof. constructor; cbn; intros; lia. Qed.

Lemma hs_write st g d f : SInv st g -> s_fin st = None -> s_reset st = None -> HS st ->
  HS (snd (write st d f)) /\ s_highest (snd (write st d f)) = s_highest st.
Proof.
  intros V Lf Lr H. unfold write. rewrite Lf, Lr. cbn [snd].
  pose proof (Zlen_nonneg d) as Hd. pose proof (v_start _ _ V) as Hst. destruct H as [H1 H2].
  destruct (negb (Zlen d =? 0)) eqn:Ed.
  - assert (Hlo : s_start st - 1 < s_stop st) by lia. assert (Hlt : s_stop st < s_stop st + Zlen d) by lia.
    destruct (add_spec (s_pending st) (s_start st - 1) (s_stop st) (s_stop st + Zlen d) (v_pwf _ _ V) Hlo Hlt) as (_ & M').
    assert (HH : forall o, 0 <= o < s_stop st + Zlen d -> ~ mem o (add (s_stop st) (s_stop st + Zlen d) (s_pending st)) -> o < s_highest st).
    { intros o Ho Hn. destruct (Z_lt_dec o (s_stop st)) as [Hlt2|Hge2].
      - apply H2; [lia|]. intros Hm. apply Hn, M'. right. exact Hm.
      - exfalso. apply Hn, M'. left. lia. }
    destruct f; cbn [s_highest s_stop s_pending]; (split; [constructor; cbn [s_highest s_stop s_pending]; [lia|exact HH]|reflexivity]).
  - destruct f; cbn [s_highest s_stop s_pending]; (split; [constructor; cbn [s_highest s_stop s_pending]; assumption|reflexivity]).
Qed.

Lemma hs_get st g ms mo : SInv st g -> s_reset st = None -> HS st ->
  HS (snd (get_frame st ms mo)) /\ s_highest st <= s_highest (snd (get_frame st ms mo)) /\
  (s_highest st = s_stop st -> s_highest (snd (get_frame st ms mo)) = s_stop st) /\
  s_stop (snd (get_frame st ms mo)) = s_stop st /\
  (forall off d fin, fst (get_frame st ms mo) = SFrame off d fin ->
     off + Zlen d <= s_highest (snd (get_frame st ms mo)) /\ (fin = true -> s_highest (snd (get_frame st ms mo)) = s_stop st)).
Proof.
  intros V Lr H. unfold get_frame. rewrite Lr.
  pose proof (v_start _ _ V) as Hst.
  destruct (s_pending st) as [|[start rstop] rest] eqn:EP.
  - destruct H as [H1 H2]. destruct (s_pending_eof st) eqn:EE.
    + cbn [fst snd s_highest s_stop s_pending].
      split; [constructor; cbn [s_highest s_stop s_pending]; [exact H1|rewrite EP in H2; exact H2]|].
      split; [lia|]. split; [auto|]. split; [reflexivity|].
      intros off d fin E. inversion E; subst off d fin. change (Zlen (@nil Z)) with 0.
      destruct (s_fin st) as [f0|] eqn:EF; [|destruct (v_fin_none _ _ V EF) as (X & _); congruence].
      destruct (v_fin_some _ _ V f0 EF) as (Hf0 & _). subst f0.
      assert (Hall : s_stop st <= s_highest st).
      { destruct (Z.eq_dec (s_stop st) 0) as [E0|E0]; [lia|].
        assert (s_stop st - 1 < s_highest st); [|lia]. apply H2; [lia|]. rewrite EP. cbn. tauto. }
      split; [lia|intros _; lia].
    + unfold set_empty. cbn [fst snd s_highest s_stop s_pending].
      split; [constructor; cbn [s_highest s_stop s_pending]; [exact H1|exact H2]|].
      split; [lia|]. split; [auto|]. split; [reflexivity|]. intros off d fin E. discriminate.
  - pose proof H as [H1 H2].
    pose proof (v_pwf _ _ V) as W. rewrite EP in W. cbn [wf_from] in W. destruct W as (W1 & W2 & W3).
    assert (Hrs : rstop <= s_stop st).
    { pose proof (v_pmax _ _ V (rstop - 1)) as P. rewrite EP in P. cbn [mem] in P.
      assert (Hq : start <= rstop - 1 < rstop) by lia. specialize (P (or_introl Hq)). lia. }
    set (stop0 := Z.min rstop (start + ms)).
    set (stop := match mo with Some m => if stop0 >? m then m else stop0 | None => stop0 end).
    destruct (stop <=? start) eqn:Ele.
    + cbn [fst snd]. split; [exact H|]. split; [lia|]. split; [auto|]. split; [reflexivity|]. intros off d fin E. discriminate.
    + assert (Hstop : start < stop <= rstop) by (unfold stop, stop0 in *; destruct mo as [m|]; [destruct (Z.min rstop (start + ms) >? m) eqn:E2|]; lia).
      assert (Hq1 : s_start st <= start) by lia. assert (Hq2 : start <= stop) by lia. assert (Hq3 : stop <= s_stop st) by lia.
      destruct (buf_slice st g start stop V Hq1 Hq2 Hq3) as (Hdata & Hlen). rewrite Hdata.
      cbn [fst snd s_highest s_stop s_pending]. rewrite <- EP.
      pose proof (v_pwf _ _ V) as Wp. assert (Hlt : start < stop) by lia.
      destruct (subtract_spec (s_pending st) (s_start st - 1) start stop Wp Hlt) as (_ & M').
      split; [|split; [|split; [|split]]].
      * constructor; cbn [s_highest s_stop s_pending]; [destruct (stop >? s_highest st) eqn:E; lia|].
        intros o Ho Hn. destruct (Z_lt_dec o (s_highest st)) as [|Hge]; [destruct (stop >? s_highest st) eqn:E; lia|].
        assert (Hm : mem o (s_pending st)).
        { destruct (contains o (s_pending st)) eqn:Ec; [apply contains_mem; exact Ec|exfalso]. apply Hge, H2; [lia|].
          intros Hm. apply contains_mem in Hm. congruence. }
        assert (Hin : start <= o < stop).
        { destruct (Z_le_dec start o); [destruct (Z_lt_dec o stop); [lia|]|]; exfalso; apply Hn, M'; (split; [exact Hm|lia]). }
        destruct (stop >? s_highest st) eqn:E; lia.
      * destruct (stop >? s_highest st) eqn:E; lia.
      * intros Heq. destruct (stop >? s_highest st) eqn:E; lia.
      * reflexivity.
      * intros off d fin E. inversion E; subst off d fin. rewrite Hlen.
        split; [destruct (stop >? s_highest st) eqn:E2; lia|].
        intros Hf. destruct (s_fin st) as [f0|] eqn:EF; [|discriminate].
        destruct (v_fin_some _ _ V f0 EF) as (A & _). destruct (stop >? s_highest st) eqn:E2; lia.
Qed.

Lemma deliv_keeps_high st k a b f :
  s_highest (snd (on_data_delivery st k a b f)) = s_highest st /\ s_stop (snd (on_data_delivery st k a b f)) = s_stop st.
Proof. unfold on_data_delivery. split_ifs; cbn; auto. Qed.

Lemma hs_deliv st g k a b fin : SInv st g -> s_reset st = None -> In (a, b, fin) (g_outs g) -> HS st ->
  HS (snd (on_data_delivery st k a b fin)).
Proof.
  intros V ER Hin [H1 H2]. destruct (deliv_keeps_high st k a b fin) as (K1 & K2).
  destruct (outstanding_facts st g a b fin V Hin) as (Hab & Hge & _ & Hfin).
  constructor; rewrite K1, K2; [exact H1|]. intros o Ho Hn. apply H2; [exact Ho|]. intros Hm. apply Hn. clear Hn.
  destruct k.
  - rewrite (proj1 (ack_keeps_pending st a b fin)). exact Hm.
  - unfold on_data_delivery.
    assert (Eassert : fin && negb (match s_fin st with Some f => b =? f | None => false end) = false).
    { destruct fin; [|reflexivity]. rewrite (Hfin eq_refl). cbn. lia. }
    rewrite Eassert, ER. destruct (b >? a) eqn:Eba.
    + assert (Hlt : a < b) by lia. assert (Hlo : s_start st - 1 < a) by (specialize (Hge Hlt); lia).
      destruct (add_spec _ _ _ _ (v_pwf _ _ V) Hlo Hlt) as (_ & M).
      destruct fin; cbn [snd s_pending]; apply M; right; exact Hm.
    + destruct fin; cbn [snd s_pending]; exact Hm.
Qed.

(* ---------- the same on the data-step states of NetSys ---------- *)
Record HInv (s : net) : Prop := {
  h_hs : HS (n_send s);
  h_end : forall f, In f (n_emitted s) -> ef_off f + Zlen (ef_data f) <= s_highest (n_send s);
  h_fin : forall f, In f (n_emitted s) -> ef_fin f = true -> s_highest (n_send s) = Zlen (n_written s);
  h_final : r_final (n_recv s) <> None -> s_highest (n_send s) = Zlen (n_written s)
}.

Lemma hinv_init : HInv net_init.
Proof. constructor; cbn; [exact hs_init|tauto|tauto|congruence]. Qed.

Lemma hinv_flags s s' :
  HInv s -> n_send s' = n_send s -> n_written s' = n_written s -> n_recv s' = n_recv s ->
  (forall f', In f' (n_emitted s') -> exists f, In f (n_emitted s) /\ ef_off f' = ef_off f /\ ef_data f' = ef_data f /\ ef_fin f' = ef_fin f) ->
  HInv s'.
Proof.
  intros [A1 A2 A3 A4] E1 E2 E3 E4. constructor; rewrite ?E1, ?E2, ?E3; try assumption.
  - intros f' Hf'. destruct (E4 f' Hf') as (f & Hf & X1 & X2 & X3). rewrite X1, X2. exact (A2 f Hf).
  - intros f' Hf' Hfin. destruct (E4 f' Hf') as (f & Hf & X1 & X2 & X3). rewrite X3 in Hfin. exact (A3 f Hf Hfin).
Qed.

Lemma set_nth_same_frames l i f d o : nthE l i = Some f ->
  forall x', In x' (set_nth i (mkEF (ef_off f) (ef_data f) (ef_fin f) d o) l) ->
  exists x, In x l /\ ef_off x' = ef_off x /\ ef_data x' = ef_data x /\ ef_fin x' = ef_fin x.
Proof.
  intros E x' Hx'. destruct (in_set_nth _ _ _ _ _ E Hx') as [->|Hx].
  - exists f. split; [exact (nthE_In _ _ _ E)|auto].
  - exists x'. auto.
Qed.

Lemma hinv_step s op o s' : NInv s -> HInv s -> data_op op -> net_step s op = Some (o, s') -> HInv s'.
Proof.
  intros I Hv D H. destruct (ni_reach _ I) as (outs & Rs & P). pose proof (reach_inv _ _ Rs) as V.
  destruct (ni_noreset _ I) as (N1 & _). pose proof (v_stop _ _ V) as Hsp. cbn [g_written] in Hsp.
  destruct Hv as [A1 A2 A3 A4].
  destruct op; cbn [data_op] in D; try contradiction; cbn [net_step] in H.
  - (* write *)
    destruct (is_noneb (s_fin (n_send s)) && is_noneb (s_reset (n_send s))) eqn:G; [|discriminate].
    assert (Gf : s_fin (n_send s) = None) by (destruct (s_fin (n_send s)); [discriminate|reflexivity]).
    destruct (hs_write _ _ d fin V Gf N1 A1) as (B1 & B2).
    destruct (write (n_send s) d fin) as [so st']. cbn [snd] in *. inversion H; subst o s'. clear H.
    assert (Hnofin : forall f, In f (n_emitted s) -> ef_fin f = false).
    { intros f Hf. destruct (ef_fin f) eqn:E; [|reflexivity]. destruct (ni_emitted _ I f Hf) as (_ & _ & _ & C4).
      destruct (C4 E) as (X & _). unfold eof in X. congruence. }
    constructor; cbn [n_send n_written n_emitted n_recv].
    + exact B1.
    + intros f Hf. rewrite B2. exact (A2 f Hf).
    + intros f Hf Hfin. rewrite (Hnofin f Hf) in Hfin. discriminate.
    + intros Hr. exfalso. destruct (ni_recv _ I) as (sp & Vr & S & _ & _). rewrite (i_final _ _ _ Vr) in Hr.
      destruct (sp_final sp) as [f0|] eqn:Ef; [|congruence]. destruct (so_final _ _ _ S f0 Ef) as (X & _). unfold eof in X. congruence.
  - (* emit *)
    rewrite N1 in H. cbn [is_noneb] in H.
    destruct (hs_get _ _ ms mo V N1 A1) as (B1 & B2 & B3 & B4 & B5).
    destruct (get_frame (n_send s) ms mo) as [so st']. cbn [fst snd] in *.
    assert (Hcommon : forall em, (forall f, In f em -> ef_off f + Zlen (ef_data f) <= s_highest st') ->
              (forall f, In f em -> ef_fin f = true -> s_highest st' = Zlen (n_written s)) ->
              HInv (mkNet st' (n_recv s) (n_written s) (n_racked s) em (n_resets s) (n_rreset s) (n_queue s) (n_dbytes s) (n_ends s))).
    { intros em X1 X2. constructor; cbn [n_send n_written n_emitted n_recv]; try assumption.
      intros Hr. rewrite <- Hsp. apply B3. rewrite Hsp. exact (A4 Hr). }
    assert (Hold1 : forall f, In f (n_emitted s) -> ef_off f + Zlen (ef_data f) <= s_highest st')
      by (intros f Hf; pose proof (A2 f Hf); lia).
    assert (Hold2 : forall f, In f (n_emitted s) -> ef_fin f = true -> s_highest st' = Zlen (n_written s))
      by (intros f Hf Hfin; rewrite <- Hsp; apply B3; rewrite Hsp; exact (A3 f Hf Hfin)).
    destruct so as [|off d fin|c fs|]; inversion H; subst o s'; try (apply Hcommon; assumption).
    destruct (B5 off d fin eq_refl) as (C1 & C2).
    apply Hcommon.
    + intros f Hf. apply in_app_or in Hf. destruct Hf as [Hf|[<-|[]]]; [exact (Hold1 f Hf)|exact C1].
    + intros f Hf Hfin. apply in_app_or in Hf. destruct Hf as [Hf|[<-|[]]]; [exact (Hold2 f Hf Hfin)|].
      cbn [ef_fin] in Hfin. rewrite <- Hsp. exact (C2 Hfin).
  - (* deliver *)
    destruct (nthE (n_emitted s) i) as [f|] eqn:Ei; [|discriminate].
    pose proof (handle_frame_facts (n_recv s) (ef_off f) (ef_data f) (ef_fin f)) as HF.
    destruct (fse_bad (n_recv s) (ef_off f) (ef_data f) (ef_fin f)).
    + rewrite HF in H. inversion H; subst. constructor; assumption.
    + destruct HF as (F1 & _ & F2 & _ & _).
      destruct (handle_frame (n_recv s) (ef_off f) (ef_data f) (ef_fin f)) as [ro r']. cbn [fst snd] in *.
      assert (Hs' : s' = report (r_finished (n_recv s)) ro s r'
                           (set_nth i (mkEF (ef_off f) (ef_data f) (ef_fin f) true (ef_out f)) (n_emitted s)) (n_rreset s)).
      { destruct ro; inversion H; subst; try reflexivity. contradiction F1. reflexivity. }
      match type of Hs' with _ = report ?a ?b ?c ?d ?e ?g => destruct (report_fields a b c d e g) as (R1 & R2 & R3 & R4) end.
      rewrite <- Hs' in R1, R2, R3, R4.
      constructor; rewrite ?R1, ?R2, ?R3, ?R4; try assumption.
      * intros x' Hx'. destruct (set_nth_same_frames _ _ _ _ _ Ei x' Hx') as (x & Hx & X1 & X2 & X3).
        rewrite X1, X2. exact (A2 x Hx).
      * intros x' Hx' Hfin. destruct (set_nth_same_frames _ _ _ _ _ Ei x' Hx') as (x & Hx & X1 & X2 & X3).
        rewrite X3 in Hfin. exact (A3 x Hx Hfin).
      * rewrite F2. destruct (ef_fin f) eqn:Ef; [intros _; exact (A3 f (nthE_In _ _ _ Ei) Ef)|exact A4].
  - (* outcome *)
    destruct (nthE (n_emitted s) i) as [f|] eqn:Ei; [|discriminate].
    destruct (is_noneb (ef_out f) && (negb acked || ef_deliv f)) eqn:G; [|discriminate].
    assert (Gn : noout f = true) by (unfold noout; destruct (is_noneb (ef_out f)); [reflexivity|discriminate]).
    unfold ef_key in H.
    destruct (nthE_split _ _ _ Ei) as (l1 & l2 & El & Sl).
    assert (Hin : In (ef_key f) outs).
    { eapply Permutation_in; [apply Permutation_sym, P|]. rewrite El, outs_of_app. apply in_or_app. right.
      unfold outs_of. cbn [filter]. rewrite Gn. left. reflexivity. }
    pose proof (hs_deliv _ _ acked _ _ _ V N1 Hin A1) as B1.
    destruct (deliv_keeps_high (n_send s) acked (ef_off f) (ef_off f + Zlen (ef_data f)) (ef_fin f)) as (K1 & K2).
    destruct (on_data_delivery (n_send s) acked (ef_off f) (ef_off f + Zlen (ef_data f)) (ef_fin f)) as [so st']. cbn [snd] in *.
    inversion H; subst o s'. clear H.
    constructor; cbn [n_send n_written n_emitted n_recv]; rewrite ?K1; try assumption.
    + intros x' Hx'. destruct (set_nth_same_frames _ _ _ _ _ Ei x' Hx') as (x & Hx & X1 & X2 & X3).
      rewrite X1, X2. exact (A2 x Hx).
    + intros x' Hx' Hfin. destruct (set_nth_same_frames _ _ _ _ _ Ei x' Hx') as (x & Hx & X1 & X2 & X3).
      rewrite X3 in Hfin. exact (A3 x Hx Hfin).
  - destruct (n_queue s); [discriminate|]. inversion H; subst. constructor; assumption.
  - inversion H; subst. constructor; assumption.
Qed.

Lemma nreach_hinv s : nreach s -> HInv s.
Proof.
  induction 1; [exact hinv_init|]. eapply hinv_step; [apply nreach_inv; eassumption|eassumption|eassumption|eassumption].
Qed.

(* ================= Part 3: every step, reset steps included ================= *)
Inductive xreach : net -> Prop :=
| xreach_init : xreach net_init
| xreach_step s op o s' : xreach s -> net_step s op = Some (o, s') -> xreach s'.

(* what the application has been told *)
Definition Pfx (s : net) : Prop :=
  (exists rest, n_written s = n_dbytes s ++ rest) /\ 0 <= n_ends s <= 1 /\
  (n_ends s = 1 -> eof s /\ n_dbytes s = n_written s).

(* the receive half before it has accepted a reset: as in NInv *)
Definition RecvOK (s : net) : Prop :=
  exists sp, Inv true (n_recv s) sp /\ SpecOk (n_written s) (eof s) sp /\
             n_dbytes s = ztake (sp_del sp) (n_written s) /\ n_ends s = b2z (r_finished (n_recv s)).

(* ... and after: finished for good, the final size is the sender's highest offset *)
Definition Frozen (s : net) : Prop :=
  r_finished (n_recv s) = true /\ r_final (n_recv s) = Some (s_highest (n_send s)) /\ Pfx s.

Lemma recvok_pfx s : RecvOK s -> Pfx s.
Proof.
  intros (sp & V & S & D & E). split; [|split].
  - exists (zdrop (sp_del sp) (n_written s)). rewrite D. unfold ztake, zdrop. symmetry. apply firstn_skipn.
  - rewrite E. destruct (r_finished (n_recv s)); cbn; lia.
  - intros H1. rewrite E in H1. destruct (r_finished (n_recv s)) eqn:F; [|discriminate].
    rewrite (i_finished _ _ _ V eq_refl), (i_final _ _ _ V), (i_start _ _ _ V) in F.
    destruct (sp_final sp) as [f|] eqn:Ff; [|discriminate]. cbn [opt_eqb] in F.
    destruct (so_final _ _ _ S f Ff) as (X & Y). split; [exact X|].
    pose proof (so_del _ _ _ S). rewrite D. replace (sp_del sp) with (Zlen (n_written s)) by lia. apply ztake_ztake_all.
Qed.

(* the invariant once reset() has been called on the sender *)
Record XInv (s : net) : Prop := {
  x_reset : s_reset (n_send s) <> None;
  x_le : 0 <= s_highest (n_send s) <= Zlen (n_written s);
  x_emitted : forall f, In f (n_emitted s) -> consistent (n_written s) (eof s) (ef_off f) (ef_data f) (ef_fin f);
  x_end : forall f, In f (n_emitted s) -> ef_off f + Zlen (ef_data f) <= s_highest (n_send s);
  x_fin : forall f, In f (n_emitted s) -> ef_fin f = true -> s_highest (n_send s) = Zlen (n_written s);
  x_resets : forall fs, In fs (n_resets s) -> fs = s_highest (n_send s);
  x_final : forall f, r_final (n_recv s) = Some f -> f = s_highest (n_send s);
  x_recv : if n_rreset s then Frozen s else RecvOK s
}.

(* a step that leaves everything XInv talks about alone (delivery flags / outcomes / sender flags may change) *)
Lemma xinv_same s s' : XInv s ->
  s_reset (n_send s') = s_reset (n_send s) -> s_highest (n_send s') = s_highest (n_send s) -> s_fin (n_send s') = s_fin (n_send s) ->
  n_written s' = n_written s -> n_recv s' = n_recv s -> n_rreset s' = n_rreset s -> n_dbytes s' = n_dbytes s -> n_ends s' = n_ends s ->
  (forall fs, In fs (n_resets s') -> In fs (n_resets s) \/ fs = s_highest (n_send s)) ->
  (forall f', In f' (n_emitted s') -> exists f, In f (n_emitted s) /\ ef_off f' = ef_off f /\ ef_data f' = ef_data f /\ ef_fin f' = ef_fin f) ->
  XInv s'.
Proof.
  intros [A1 A2 A3 A4 A5 A6 A7 A8] E1 E2 E3 E4 E5 E6 E7 E8 E9 E10.
  assert (Heof : eof s' <-> eof s) by (unfold eof; rewrite E3; tauto).
  constructor; rewrite ?E1, ?E2, ?E4, ?E5, ?E6; try assumption.
  - intros f' Hf'. destruct (E10 f' Hf') as (f & Hf & X1 & X2 & X3). rewrite X1, X2, X3.
    eapply consistent_eof; [|exact (A3 f Hf)]. apply Heof.
  - intros f' Hf'. destruct (E10 f' Hf') as (f & Hf & X1 & X2 & X3). rewrite X1, X2. exact (A4 f Hf).
  - intros f' Hf' Hfin. destruct (E10 f' Hf') as (f & Hf & X1 & X2 & X3). rewrite X3 in Hfin. exact (A5 f Hf Hfin).
  - intros fs Hfs. destruct (E9 fs Hfs) as [H|H]; [exact (A6 fs H)|exact H].
  - destruct (n_rreset s).
    + destruct A8 as (F1 & F2 & (P1 & P2 & P3)). unfold Frozen, Pfx. rewrite E5, E2, E4, E7, E8. repeat split; try assumption; try lia.
      * apply Heof. apply P3. assumption.
      * apply P3. assumption.
    + destruct A8 as (sp & V & S & D & E). exists sp. rewrite E5, E4, E7, E8. split; [exact V|]. split; [|split; assumption].
      eapply specok_eof; [|exact S]. apply Heof.
Qed.

Lemma same_frames_refl l : forall f', In f' l -> exists f : eframe, In f l /\ ef_off f' = ef_off f /\ ef_data f' = ef_data f /\ ef_fin f' = ef_fin f.
Proof. intros f' H. exists f'. auto. Qed.

(* reset() on a data-step state establishes XInv *)
Lemma xinv_establish s code o s' : nreach s -> net_step s (NReset code) = Some (o, s') -> XInv s'.
Proof.
  intros R H. pose proof (nreach_inv _ R) as I. pose proof (nreach_hinv _ R) as [A1 A2 A3 A4].
  destruct (ni_reach _ I) as (outs & Rs & _). pose proof (reach_inv _ _ Rs) as V. pose proof (v_stop _ _ V) as Hsp. cbn [g_written] in Hsp.
  destruct (ni_noreset _ I) as (N1 & N2 & N3 & N4). destruct A1 as [B1 B2].
  cbn [net_step reset] in H. rewrite N1 in H. inversion H; subst o s'. clear H. unfold with_send.
  constructor; cbn [n_send n_written n_emitted n_resets n_recv n_rreset s_reset s_highest].
  - discriminate.
  - lia.
  - intros f Hf. eapply consistent_eof; [|exact (ni_emitted _ I f Hf)]. unfold eof. cbn. tauto.
  - exact A2.
  - exact A3.
  - rewrite N2. intros fs [].
  - intros f Hf. destruct (ni_recv _ I) as (sp & Vr & S & _ & _). rewrite (i_final _ _ _ Vr) in Hf.
    destruct (so_final _ _ _ S f Hf) as (_ & ->). symmetry. apply A4. rewrite (i_final _ _ _ Vr), Hf. discriminate.
  - rewrite N3. destruct (ni_recv _ I) as (sp & Vr & S & D & E). exists sp. cbn [n_recv n_written n_dbytes n_ends].
    split; [exact Vr|]. split; [|split; assumption]. eapply specok_eof; [|exact S]. unfold eof. cbn. tauto.
Qed.

(* delivering an emitted frame in an XInv state *)
Lemma xinv_not_bad s f : XInv s -> In f (n_emitted s) -> fse_bad (n_recv s) (ef_off f) (ef_data f) (ef_fin f) = false.
Proof.
  intros X Hf. unfold fse_bad. destruct (r_final (n_recv s)) as [f0|] eqn:Ef; [|reflexivity].
  pose proof (x_final _ X f0 Ef) as ->. pose proof (x_end _ X f Hf) as He.
  destruct (ef_fin f) eqn:Efin; [|lia].
  pose proof (x_fin _ X f Hf Efin) as Hh. destruct (x_emitted _ X f Hf) as (_ & _ & _ & C4). destruct (C4 Efin) as (_ & C5). lia.
Qed.

Lemma recvok_deliver s f : RecvOK s -> consistent (n_written s) (eof s) (ef_off f) (ef_data f) (ef_fin f) ->
  forall ro r', handle_frame (n_recv s) (ef_off f) (ef_data f) (ef_fin f) = (ro, r') ->
  forall em rr, RecvOK (report (r_finished (n_recv s)) ro s r' em rr).
Proof.
  intros (sp & V & S & D & E) C ro r' HF em rr.
  pose proof (frame_refines_strict (n_recv s) sp (ef_off f) (ef_data f) (ef_fin f) V) as FR.
  pose proof (spec_frame_consistent _ _ sp _ _ _ S C) as SC. rewrite HF in FR.
  destruct (spec_frame sp (ef_off f) (ef_data f) (ef_fin f)) as [o' sp'].
  destruct FR as (Eo & V'). subst o'. destruct SC as (S' & Hle & Hout & Hdone).
  assert (Fin : r_finished (n_recv s) = opt_eqb (sp_final sp) (sp_del sp))
    by (rewrite (i_finished _ _ _ V eq_refl), (i_final _ _ _ V), (i_start _ _ _ V); reflexivity).
  assert (Fin' : r_finished r' = opt_eqb (sp_final sp') (sp_del sp'))
    by (rewrite (i_finished _ _ _ V' eq_refl), (i_final _ _ _ V'), (i_start _ _ _ V'); reflexivity).
  assert (Hq : forall q db en, db = ztake (sp_del sp') (n_written s) -> en = b2z (r_finished r') ->
          RecvOK (mkNet (n_send s) r' (n_written s) (n_racked s) em (n_resets s) rr q db en)).
  { intros q db en Hdb Hen. exists sp'. cbn [n_recv n_written n_dbytes n_ends]. split; [exact V'|]. split; [|split; assumption].
    eapply specok_eof; [|exact S']. unfold eof. cbn. tauto. }
  unfold report. destruct Hout as [(Eo & Hdel & Hnf)|(d & Eo & Hd)]; subst ro.
  - destruct (r_finished (n_recv s)) eqn:Efin.
    + destruct (Hdone (eq_sym Fin)) as (_ & X). rewrite Hnf in X. discriminate.
    + apply Hq; [rewrite D, Hdel; reflexivity|]. rewrite E, Fin', Hnf. reflexivity.
  - destruct (r_finished (n_recv s)) eqn:Efin.
    + destruct (Hdone (eq_sym Fin)) as (X1 & X2). apply Hq; [rewrite D, X1; reflexivity|]. rewrite E, Fin', X2. reflexivity.
    + apply Hq; [rewrite D, Hd; reflexivity|]. rewrite E, Fin'. reflexivity.
Qed.

Lemma frozen_quiet s o r' em rr : Frozen s -> r_finished r' = true -> r_final r' = Some (s_highest (n_send s)) ->
  Frozen (report (r_finished (n_recv s)) o s r' em rr).
Proof.
  intros (F1 & F2 & P) H1 H2. unfold report. rewrite F1. unfold Frozen, Pfx, eof in *. cbn [n_recv n_send n_written n_dbytes n_ends].
  auto.
Qed.

Lemma xinv_step s op o s' : XInv s -> net_step s op = Some (o, s') -> XInv s'.
Proof.
  intros X H. pose proof X as [A1 A2 A3 A4 A5 A6 A7 A8].
  destruct (s_reset (n_send s)) as [code0|] eqn:ER; [|congruence].
  destruct op; cbn [net_step] in H.
  - (* write: disabled *) rewrite ER in H. cbn in H. rewrite andb_false_r in H. discriminate.
  - (* emit: disabled *) rewrite ER in H. discriminate.
  - (* deliver *)
    destruct (nthE (n_emitted s) i) as [f|] eqn:Ei; [|discriminate]. pose proof (nthE_In _ _ _ Ei) as Hf.
    pose proof (handle_frame_facts (n_recv s) (ef_off f) (ef_data f) (ef_fin f)) as HF.
    rewrite (xinv_not_bad s f X Hf) in HF. destruct HF as (F1 & _ & F2 & F3 & _).
    destruct (handle_frame (n_recv s) (ef_off f) (ef_data f) (ef_fin f)) as [ro r'] eqn:EH. cbn [fst snd] in *.
    set (em := set_nth i (mkEF (ef_off f) (ef_data f) (ef_fin f) true (ef_out f)) (n_emitted s)) in *.
    assert (Hs' : s' = report (r_finished (n_recv s)) ro s r' em (n_rreset s)).
    { destruct ro; inversion H; subst; try reflexivity. contradiction F1. reflexivity. }
    destruct (report_fields (r_finished (n_recv s)) ro s r' em (n_rreset s)) as (R1 & R2 & R3 & R4).
    assert (R5 : n_rreset (report (r_finished (n_recv s)) ro s r' em (n_rreset s)) = n_rreset s /\
                 n_resets (report (r_finished (n_recv s)) ro s r' em (n_rreset s)) = n_resets s)
      by (unfold report; destruct (r_finished (n_recv s)); [|destruct ro]; cbn; auto).
    destruct R5 as (R5 & R6). rewrite <- Hs' in *.
    assert (Hfinal' : r_final r' = Some (s_highest (n_send s)) \/ r_final r' = r_final (n_recv s)).
    { rewrite F2. destruct (ef_fin f) eqn:Efin; [left|right; reflexivity].
      destruct (A3 f Hf) as (_ & _ & _ & C4). destruct (C4 Efin) as (_ & C5). rewrite (A5 f Hf Efin). f_equal. exact C5. }
    assert (Hem : forall f', In f' em -> exists x, In x (n_emitted s) /\ ef_off f' = ef_off x /\ ef_data f' = ef_data x /\ ef_fin f' = ef_fin x)
      by (apply (set_nth_same_frames _ _ f _ _ Ei)).
    assert (Heof : eof s' <-> eof s) by (unfold eof; rewrite R1; tauto).
    constructor; rewrite ?R1, ?R2, ?R3, ?R4, ?R5, ?R6; try assumption; try congruence.
    + intros f' Hf'. destruct (Hem f' Hf') as (x & Hx & X1 & X2 & X3). rewrite X1, X2, X3.
      eapply consistent_eof; [|exact (A3 x Hx)]. apply Heof.
    + intros f' Hf'. destruct (Hem f' Hf') as (x & Hx & X1 & X2 & X3). rewrite X1, X2. exact (A4 x Hx).
    + intros f' Hf' Hfin. destruct (Hem f' Hf') as (x & Hx & X1 & X2 & X3). rewrite X3 in Hfin. exact (A5 x Hx Hfin).
    + intros f0 Hf0. destruct Hfinal' as [Y|Y]; [congruence|]. apply A7. congruence.
    + rewrite Hs'. destruct (n_rreset s).
      * destruct A8 as (G1 & G2 & G3). apply frozen_quiet; [exact (conj G1 (conj G2 G3))|exact (F3 G1)|].
        destruct Hfinal' as [Y|Y]; congruence.
      * exact (recvok_deliver s f A8 (A3 f Hf) ro r' EH em false).
  - (* outcome: the sender ignores it after reset() *)
    destruct (nthE (n_emitted s) i) as [f|] eqn:Ei; [|discriminate].
    destruct (is_noneb (ef_out f) && (negb acked || ef_deliv f)); [|discriminate]. unfold ef_key in H.
    assert (Est : snd (on_data_delivery (n_send s) acked (ef_off f) (ef_off f + Zlen (ef_data f)) (ef_fin f)) = n_send s).
    { unfold on_data_delivery. rewrite ER. destruct (ef_fin f && _); reflexivity. }
    destruct (on_data_delivery (n_send s) acked (ef_off f) (ef_off f + Zlen (ef_data f)) (ef_fin f)) as [so st']. cbn [snd] in Est. subst st'.
    inversion H; subst o s'. apply (xinv_same s); cbn [n_send n_written n_recv n_rreset n_dbytes n_ends n_resets n_emitted]; auto.
    apply (set_nth_same_frames _ _ f _ _ Ei).
  - (* reset again: nothing changes *)
    unfold reset in H. rewrite ER in H. inversion H; subst. unfold with_send.
    apply (xinv_same s); cbn [n_send n_written n_recv n_rreset n_dbytes n_ends n_resets n_emitted]; auto. apply same_frames_refl.
  - (* emit RESET_STREAM *)
    rewrite ER in H. cbn [is_noneb] in H. unfold get_reset_frame in H. inversion H; subst o s'.
    apply (xinv_same s); cbn [n_send n_written n_recv n_rreset n_dbytes n_ends n_resets n_emitted s_reset s_highest s_fin]; auto.
    + intros fs Hfs. apply in_app_or in Hfs. destruct Hfs as [Hfs|[<-|[]]]; auto.
    + apply same_frames_refl.
  - (* deliver RESET_STREAM *)
    destruct (nthZo (n_resets s) j) as [fs|] eqn:Ej; [|discriminate].
    assert (Hfs : fs = s_highest (n_send s)).
    { apply A6. unfold nthZo in Ej. destruct (j <? 0); [discriminate|]. eapply nth_error_In. exact Ej. }
    pose proof (handle_reset_facts (n_recv s) fs) as HR.
    assert (HR' : fst (handle_reset (n_recv s) fs) = RReset /\ r_final (snd (handle_reset (n_recv s) fs)) = Some fs /\
                  r_finished (snd (handle_reset (n_recv s) fs)) = true).
    { destruct (r_final (n_recv s)) as [f0|] eqn:Ef; [|exact HR]. pose proof (A7 f0 eq_refl) as ->.
      assert (E : negb (s_highest (n_send s) =? fs) = false) by lia. rewrite E in HR. exact HR. }
    clear HR. destruct HR' as (H1 & H2 & H3).
    destruct (handle_reset (n_recv s) fs) as [ro r']. cbn [fst snd] in *. subst ro. inversion H; subst o s'. clear H.
    destruct (report_fields (r_finished (n_recv s)) RReset s r' (n_emitted s) true) as (R1 & R2 & R3 & R4).
    assert (R5 : n_rreset (report (r_finished (n_recv s)) RReset s r' (n_emitted s) true) = true /\
                 n_resets (report (r_finished (n_recv s)) RReset s r' (n_emitted s) true) = n_resets s /\
                 n_dbytes (report (r_finished (n_recv s)) RReset s r' (n_emitted s) true) = n_dbytes s /\
                 n_ends (report (r_finished (n_recv s)) RReset s r' (n_emitted s) true) = n_ends s)
      by (unfold report; destruct (r_finished (n_recv s)); cbn; auto).
    destruct R5 as (R5 & R6 & R7 & R8).
    assert (HP : Pfx s) by (destruct (n_rreset s); [exact (proj2 (proj2 A8))|exact (recvok_pfx s A8)]).
    constructor; rewrite ?R1, ?R2, ?R3, ?R4, ?R5, ?R6; try assumption; try congruence.
    + intros f Hf. eapply consistent_eof; [|exact (A3 f Hf)]. unfold eof. rewrite R1. tauto.
    + unfold Frozen, Pfx, eof. rewrite R1, R2, R4, R7, R8. split; [exact H3|]. split; [congruence|exact HP].
  - (* outcome of RESET_STREAM *)
    destruct (n_resets s) eqn:En; [discriminate|]. unfold on_reset_delivery in H.
    destruct acked; inversion H; subst o s';
      (apply (xinv_same s); cbn [n_send n_written n_recv n_rreset n_dbytes n_ends n_resets n_emitted s_reset s_highest s_fin]; auto;
       try apply same_frames_refl; try (rewrite En; auto)).
  - destruct (n_queue s); [discriminate|]. inversion H; subst.
    apply (xinv_same s); cbn [n_send n_written n_recv n_rreset n_dbytes n_ends n_resets n_emitted]; auto. apply same_frames_refl.
  - inversion H; subst. exact X.
Qed.

Lemma nthZo_nil j : nthZo [] j = None.
Proof. unfold nthZo. destruct (j <? 0); [reflexivity|]. destruct (Z.to_nat j); reflexivity. Qed.

(* every reachable state is a data-step state or satisfies the post-reset invariant *)
Lemma xreach_cases s : xreach s -> nreach s \/ XInv s.
Proof.
  induction 1 as [|s op o s' R IH H]; [left; exact nreach_init|].
  destruct IH as [N|X]; [|right; exact (xinv_step s op o s' X H)].
  pose proof (nreach_inv _ N) as I. destruct (ni_noreset _ I) as (N1 & N2 & _).
  destruct op as [d fin|ms mo|i|i acked|code| |j|acked| |]; try (left; eapply nreach_step; [exact N| |exact H]; exact Logic.I).
  - right. exact (xinv_establish s code o s' N H).
  - cbn [net_step] in H. rewrite N1 in H. discriminate.
  - cbn [net_step] in H. rewrite N2, nthZo_nil in H. discriminate.
  - cbn [net_step] in H. rewrite N2 in H. discriminate.
Qed.

(* ---------- the theorems, for schedules WITH resets ---------- *)
Lemma x_delivery_is_prefix s : xreach s -> Pfx s.
Proof.
  intros R. destruct (xreach_cases s R) as [N|X]; [exact (delivery_is_prefix s N)|].
  pose proof (x_recv _ X) as A. destruct (n_rreset s); [exact (proj2 (proj2 A))|exact (recvok_pfx s A)].
Qed.

Lemma x_no_spurious_final_size_error s op o s' : xreach s -> net_step s op = Some (o, s') -> o <> OFinalSizeError.
Proof.
  intros R H. destruct (xreach_cases s R) as [N|X].
  - pose proof (nreach_inv _ N) as I. destruct (ni_noreset _ I) as (N1 & N2 & _).
    destruct op; try (cbn [net_step] in H; repeat match type of H with context [match ?x with _ => _ end] => destruct x end;
                      inversion H; discriminate).
    + exact (no_spurious_final_size_error s i o s' N H).
    + cbn [net_step] in H. rewrite N2, nthZo_nil in H. discriminate.
  - pose proof X as [A1 A2 A3 A4 A5 A6 A7 A8].
    destruct op; try (cbn [net_step] in H; repeat match type of H with context [match ?x with _ => _ end] => destruct x end;
                      inversion H; discriminate).
    + cbn [net_step] in H. destruct (nthE (n_emitted s) i) as [f|] eqn:Ei; [|discriminate].
      pose proof (handle_frame_facts (n_recv s) (ef_off f) (ef_data f) (ef_fin f)) as HF.
      rewrite (xinv_not_bad s f X (nthE_In _ _ _ Ei)) in HF. destruct HF as (F1 & _).
      destruct (handle_frame (n_recv s) (ef_off f) (ef_data f) (ef_fin f)) as [ro r']. cbn [fst] in F1.
      destruct ro; inversion H; try discriminate. contradiction F1. reflexivity.
    + cbn [net_step] in H. destruct (nthZo (n_resets s) j) as [fs|] eqn:Ej; [|discriminate].
      assert (Hfs : fs = s_highest (n_send s)).
      { apply A6. unfold nthZo in Ej. destruct (j <? 0); [discriminate|]. eapply nth_error_In. exact Ej. }
      pose proof (handle_reset_facts (n_recv s) fs) as HR.
      assert (HR' : fst (handle_reset (n_recv s) fs) = RReset).
      { destruct (r_final (n_recv s)) as [f0|] eqn:Ef; [|exact (proj1 HR)]. pose proof (A7 f0 eq_refl) as ->.
        assert (E : negb (s_highest (n_send s) =? fs) = false) by lia. rewrite E in HR. exact (proj1 HR). }
      destruct (handle_reset (n_recv s) fs) as [ro r']. cbn [fst] in HR'. subst ro. inversion H. discriminate.
Qed.

(* the final size carried by every RESET_STREAM frame: the sender's highest offset, within the written bytes and at or
   above the end of every STREAM frame ever emitted *)
Lemma reset_final_size_sound s fs : xreach s -> In fs (n_resets s) ->
  fs = s_highest (n_send s) /\ 0 <= fs <= Zlen (n_written s) /\
  (forall f, In f (n_emitted s) -> ef_off f + Zlen (ef_data f) <= fs) /\
  (forall f, r_final (n_recv s) = Some f -> f = fs).
Proof.
  intros R Hfs. destruct (xreach_cases s R) as [N|X].
  - pose proof (nreach_inv _ N) as I. destruct (ni_noreset _ I) as (_ & N2 & _). rewrite N2 in Hfs. destruct Hfs.
  - pose proof (x_resets _ X fs Hfs) as ->. split; [reflexivity|]. split; [exact (x_le _ X)|]. split; [exact (x_end _ X)|exact (x_final _ X)].
Qed.

(* highest_offset is sound in every reachable state *)
Lemma highest_offset_sound s : xreach s ->
  0 <= s_highest (n_send s) <= Zlen (n_written s) /\
  (forall f, In f (n_emitted s) -> ef_off f + Zlen (ef_data f) <= s_highest (n_send s)).
Proof.
  intros R. destruct (xreach_cases s R) as [N|X].
  - pose proof (nreach_hinv _ N) as [[B1 B2] A2 _ _]. pose proof (nreach_inv _ N) as I.
    destruct (ni_reach _ I) as (outs & Rs & _). pose proof (v_stop _ _ (reach_inv _ _ Rs)) as Hsp. cbn [g_written] in Hsp.
    split; [lia|exact A2].
  - split; [exact (x_le _ X)|exact (x_end _ X)].
Qed.

(* once the receiver has accepted a reset nothing more is reported, whatever happens *)
Lemma nothing_after_reset s op o s' : xreach s -> n_rreset s = true -> net_step s op = Some (o, s') ->
  n_dbytes s' = n_dbytes s /\ n_ends s' = n_ends s /\ n_rreset s' = true /\ queued s op s' = [].
Proof.
  intros R Hr H. destruct (xreach_cases s R) as [N|X].
  - pose proof (nreach_inv _ N) as I. destruct (ni_noreset _ I) as (_ & _ & N3 & _). congruence.
  - pose proof (x_recv _ X) as A. rewrite Hr in A. destruct A as (F1 & _).
    pose proof (xinv_step s op o s' X H) as X'.
    assert (Hrr : n_rreset s' = true).
    { destruct op; cbn [net_step] in H;
        repeat match type of H with context [match ?x with _ => _ end] => destruct x end; inversion H; subst; cbn; try assumption;
        unfold report; rewrite ?F1; cbn; try assumption; reflexivity. }
    destruct op; try (destruct (step_queue s _ o s' H ltac:(discriminate)) as (q & Q1 & (S1 & S2 & S3 & _));
                      destruct (S3 F1) as (_ & ->); unfold queued; rewrite Q1, S1, S2, skipn_app_exact; cbn; rewrite app_nil_r;
                      repeat split; try lia; auto).
    destruct (pop_shape s o s' H) as (P1 & P2 & _). unfold queued. auto.
Qed.

(* non-vacuity: a schedule with a reset after partial delivery; the late frames and the duplicate reset are harmless *)
Example reset_example :
  match run_sched net_init [NWrite [1; 2; 3; 4] false; NEmit 2 None; NEmit 2 None; NDeliver 0; NReset 7; NEmitReset;
                            NDeliverReset 0; NDeliver 1; NDeliverReset 0; NOutcome 1 true; NResetOutcome true] with
  | Some s => n_dbytes s = [1; 2] /\ n_ends s = 0 /\ n_resets s = [4] /\ n_rreset s = true /\
              n_queue s = [RData [1; 2] false; RReset] /\ s_finished (n_send s) = true
  | None => False
  end.
Proof. vm_compute. repeat split; reflexivity. Qed.

(* ---------- schedules with resets; the events popped ---------- *)
Lemma run_sched_xreach ops : forall s s', xreach s -> run_sched s ops = Some s' -> xreach s'.
Proof.
  induction ops as [|op t IH]; intros s s' R H; cbn in H.
  - inversion H; subst. exact R.
  - destruct (net_step s op) as [[o s1]|] eqn:E; [|discriminate]. eapply IH; [eapply xreach_step; eassumption|exact H].
Qed.

Lemma nreach_xreach s : nreach s -> xreach s.
Proof. induction 1; [exact xreach_init|eapply xreach_step; eassumption]. Qed.

Fixpoint sched_popped (s : net) (ops : list nop) : list rout :=
  match ops with
  | [] => []
  | op :: t => match net_step s op with
               | Some (o, s') => (match o with OEvent e => [e] | _ => [] end) ++ sched_popped s' t
               | None => []
               end
  end.

(* next_event() returns exactly the queued events, in order *)
Lemma queue_fifo ops : forall s s', run_sched s ops = Some s' ->
  sched_popped s ops ++ n_queue s' = n_queue s ++ sched_events s ops.
Proof.
  induction ops as [|op t IH]; intros s s' H; cbn [run_sched sched_events sched_popped] in *.
  - inversion H; subst. rewrite app_nil_r. reflexivity.
  - destruct (net_step s op) as [[o s1]|] eqn:E; [|discriminate]. specialize (IH s1 s' H).
    destruct op; try (destruct (step_queue s _ o s1 E ltac:(discriminate)) as (q & Q1 & _);
      unfold queued; rewrite Q1, skipn_app_exact; rewrite Q1 in IH;
      assert (Ho : match o with OEvent e => [e] | _ => [] end = @nil rout)
        by (cbn [net_step] in E; repeat match type of E with context [match ?x with _ => _ end] => destruct x end; inversion E; reflexivity);
      rewrite Ho; cbn [app]; rewrite IH, app_assoc; reflexivity).
    destruct (pop_shape s o s1 E) as (_ & _ & _ & e & Q1 & ->). unfold queued. cbn [app]. rewrite Q1, IH. reflexivity.
Qed.

(* from the initial state: what has been reported is exactly the event stream *)
Lemma events_from_init ops s' : run_sched net_init ops = Some s' ->
  xreach s' /\
  n_dbytes s' = bytes_all (sched_events net_init ops) /\ n_ends s' = ends_of (sched_events net_init ops) /\
  term_last (sched_events net_init ops) /\
  Zlen (filter is_term (sched_events net_init ops)) <= 1 /\
  sched_popped net_init ops ++ n_queue s' = sched_events net_init ops.
Proof.
  intros H. destruct (events_shape ops net_init s' H) as (E1 & E2 & _ & E4). cbn [n_dbytes n_ends net_init app] in E1, E2.
  split; [exact (run_sched_xreach ops _ _ xreach_init H)|]. split; [exact E1|]. split; [lia|]. split; [exact E4|].
  split; [exact (proj2 (term_last_count _ E4))|]. exact (queue_fifo ops _ _ H).
Qed.
