(* Send-side flow control (model/FlowSend.v): how highest_offset moves, the credit invariants for all
   operation sequences, what the limits are granted by, and the two refuted statements. *)
From Coq Require Import ZArith List Bool Lia ZifyBool.
From AQ Require Import lib.Base model.RangeSet model.StreamSend model.FlowSend
  proofs.RangeSetP proofs.ListZ proofs.StreamSendP.

(* ================= A. the sender: highest_offset moves only in get_frame ================= *)
Lemma write_highest st d f : s_highest (snd (write st d f)) = s_highest st.
Proof.
  unfold write. destruct (s_fin st), (s_reset st); try reflexivity.
  destruct (negb (Zlen d =? 0)), f; reflexivity.
Qed.

Lemma reset_highest st c : s_highest (snd (reset st c)) = s_highest st.
Proof. unfold reset. destruct (s_reset st); reflexivity. Qed.

Lemma get_reset_highest st : s_highest (snd (get_reset_frame st)) = s_highest st.
Proof. reflexivity. Qed.

Lemma reset_deliv_highest st k : s_highest (snd (on_reset_delivery st k)) = s_highest st.
Proof. destruct k; reflexivity. Qed.

Lemma deliv_highest st k a b f : s_highest (snd (on_data_delivery st k a b f)) = s_highest st.
Proof.
  unfold on_data_delivery.
  destruct (f && negb match s_fin st with Some f0 => b =? f0 | None => false end); [reflexivity|].
  destruct (s_reset st); [reflexivity|].
  destruct k.
  - destruct (b >? a); [|reflexivity].
    destruct (add a b (s_acked st)) as [|[fs fe] rest]; [reflexivity|]. destruct (fs =? s_start st); reflexivity.
  - destruct (b >? a), f; reflexivity.
Qed.

(* get_frame: highest_offset stays, or rises to the end of the frame just cut, which is within max_offset *)
Lemma get_highest st ms m :
  s_highest (snd (get_frame st ms (Some m))) = s_highest st \/
  (s_highest st < s_highest (snd (get_frame st ms (Some m))) /\ s_highest (snd (get_frame st ms (Some m))) <= m).
Proof.
  unfold get_frame. destruct (s_reset st); [left; reflexivity|].
  destruct (s_pending st) as [|[start rstop] rest].
  - destruct (s_pending_eof st); left; reflexivity.
  - cbv zeta.
    destruct ((if Z.min rstop (start + ms) >? m then m else Z.min rstop (start + ms)) <=? start) eqn:E; [left; reflexivity|].
    cbn [snd s_highest].
    destruct ((if Z.min rstop (start + ms) >? m then m else Z.min rstop (start + ms)) >? s_highest st) eqn:E2; [right|left; reflexivity].
    split; [lia|]. destruct (Z.min rstop (start + ms) >? m) eqn:E3; lia.
Qed.

Lemma get_highest_mono st ms m : s_highest st <= s_highest (snd (get_frame st ms (Some m))).
Proof. destruct (get_highest st ms m) as [H|H]; lia. Qed.

(* ================= B. the connection: list plumbing ================= *)
Fixpoint sum_high (l : list strm) : Z :=
  match l with [] => 0 | t :: r => s_highest (t_send t) + sum_high r end.

Lemma sum_high_app l t : sum_high (l ++ [t]) = sum_high l + s_highest (t_send t).
Proof. induction l as [|x l IH]; cbn [sum_high app]; lia. Qed.

Lemma find_id sid l t : find_strm sid l = Some t -> t_id t = sid.
Proof.
  induction l as [|x l IH]; cbn [find_strm]; [discriminate|]. destruct (t_id x =? sid) eqn:E; [|exact IH].
  intros H; inversion H; subst. lia.
Qed.

Lemma find_in sid l t : find_strm sid l = Some t -> In t l.
Proof.
  induction l as [|x l IH]; cbn [find_strm]; [discriminate|]. destruct (t_id x =? sid); [|intros H; right; exact (IH H)].
  intros H; inversion H; subst. left; reflexivity.
Qed.

Lemma find_app_some sid l t t' : find_strm sid l = Some t' -> find_strm sid (l ++ [t]) = Some t'.
Proof. induction l as [|x l IH]; cbn [find_strm app]; [discriminate|]. destruct (t_id x =? sid); auto. Qed.

Lemma find_app_none sid l t : find_strm sid l = None ->
  find_strm sid (l ++ [t]) = if t_id t =? sid then Some t else None.
Proof. induction l as [|x l IH]; cbn [find_strm app]; [reflexivity|]. destruct (t_id x =? sid); [discriminate|exact IH]. Qed.

Lemma upd_none sid f l : find_strm sid l = None -> upd_strm sid f l = l.
Proof.
  induction l as [|x l IH]; cbn [find_strm upd_strm]; [reflexivity|]. destruct (t_id x =? sid); [discriminate|].
  intros H. rewrite (IH H). reflexivity.
Qed.

Lemma upd_app_none sid f l t : find_strm sid l = None -> t_id t = sid -> upd_strm sid f (l ++ [t]) = l ++ [f t].
Proof.
  intros H Ht. induction l as [|x l IH]; cbn [find_strm upd_strm app] in *.
  - assert (E : t_id t =? sid = true) by lia. rewrite E. reflexivity.
  - destruct (t_id x =? sid); [discriminate|]. rewrite (IH H). reflexivity.
Qed.

Lemma sum_upd sid f l t : find_strm sid l = Some t ->
  sum_high (upd_strm sid f l) = sum_high l - s_highest (t_send t) + s_highest (t_send (f t)).
Proof.
  induction l as [|x l IH]; cbn [find_strm upd_strm]; [discriminate|]. destruct (t_id x =? sid).
  - intros H; inversion H; subst. cbn [sum_high]. lia.
  - intros H. cbn [sum_high]. rewrite (IH H). lia.
Qed.

Lemma Forall_upd (Q : strm -> Prop) sid f l t :
  Forall Q l -> find_strm sid l = Some t -> Q (f t) -> Forall Q (upd_strm sid f l).
Proof.
  induction l as [|x l IH]; cbn [find_strm upd_strm]; [discriminate|]. intros HF. inversion HF; subst.
  destruct (t_id x =? sid).
  - intros H; inversion H; subst. intros Hq. constructor; assumption.
  - intros H Hq. constructor; [assumption|]. apply IH; assumption.
Qed.

Lemma find_upd_same sid f l t : (forall x, t_id (f x) = t_id x) -> find_strm sid l = Some t ->
  find_strm sid (upd_strm sid f l) = Some (f t).
Proof.
  intros Hf. induction l as [|x l IH]; cbn [find_strm upd_strm]; [discriminate|]. destruct (t_id x =? sid) eqn:E.
  - intros H; inversion H; subst. cbn [find_strm]. rewrite Hf, E. reflexivity.
  - intros H. cbn [find_strm]. rewrite E. exact (IH H).
Qed.

Lemma find_upd_other sid sid' f l : (forall x, t_id (f x) = t_id x) -> sid' <> sid ->
  find_strm sid' (upd_strm sid f l) = find_strm sid' l.
Proof.
  intros Hf Hne. induction l as [|x l IH]; cbn [find_strm upd_strm]; [reflexivity|]. destruct (t_id x =? sid) eqn:E.
  - cbn [find_strm]. rewrite Hf. assert (E1 : t_id x =? sid' = false) by lia. rewrite E1. reflexivity.
  - cbn [find_strm]. rewrite IH. reflexivity.
Qed.

(* ================= what the peer has granted ================= *)
Definition is_local (c : conn) (sid : Z) : bool := Bool.eqb (sid_client sid) (c_client c).
(* the transport parameter that applies to stream [sid] (the value currently held = the latest received) *)
Definition initial_for (c : conn) (sid : Z) : Z :=
  if is_local c sid then (if sid_uni sid then c_msd_uni c else c_msd_br c) else c_msd_bl c.
(* [gm sid] = largest MAX_STREAM_DATA value received for the stream so far *)
Definition granted (c : conn) (gm : Z -> Z) (sid : Z) : Z := Z.max (initial_for c sid) (gm sid).
Definition ms_for (c : conn) (sid : Z) : Z := if sid_uni sid then c_ms_uni c else c_ms_bidi c.

Definition gstep (gm : Z -> Z) (op : fop) : Z -> Z :=
  match op with
  | OMaxStreamData sid v => fun s => if s =? sid then Z.max (gm s) v else gm s
  | _ => gm
  end.

(* the one operation that makes the connection forget what it has sent: the repaired _parse_transport_parameters
   when 0-RTT was not accepted (the peer discards the 0-RTT packets) *)
Definition forgetting (op : fop) : bool := match op with OParamsP PRejected _ _ _ _ _ _ => true | _ => false end.

(* transport parameters never lower a value the connection already holds (RFC 9000 7.4.1) *)
Definition nn (o : option Z) : Prop := match o with Some v => 0 <= v | None => True end.
Definition le_opt (cur : Z) (o : option Z) : Prop := match o with Some v => cur <= v | None => True end.
Definition pguard (c : conn) (op : fop) : Prop :=
  match op with
  | OParams md bl br un sb su =>
      le_opt (c_max_data c) md /\ le_opt (c_msd_bl c) bl /\ le_opt (c_msd_br c) br /\ le_opt (c_msd_uni c) un /\
      le_opt (c_ms_bidi c) sb /\ le_opt (c_ms_uni c) su
  | OParamsP PTicket md bl br un sb su =>     (* restoring remembered parameters: same guard, an absent value is 0 *)
      c_max_data c <= orz md 0 /\ c_msd_bl c <= orz bl 0 /\ c_msd_br c <= orz br 0 /\ c_msd_uni c <= orz un 0 /\
      c_ms_bidi c <= orz sb 0 /\ c_ms_uni c <= orz su 0
  | OParamsP PAccepted _ _ _ _ _ _ => True    (* NO guard: the repaired function refuses a lowered value itself *)
  | OParamsP PRejected md bl br un sb su =>   (* values may be LOWER than those held.  They are varints, and the function
                                                 runs while EncryptedExtensions is handled: no peer frame can have
                                                 created a stream yet (the tie checks this on every scenario) *)
      nn md /\ nn bl /\ nn br /\ nn un /\ nn sb /\ nn su /\
      Forall (fun t => is_local c (t_id t) = true) (c_streams c)
  | _ => True
  end.

Inductive freach : conn -> (Z -> Z) -> Prop :=
| freach_init cl : freach (conn_init cl) (fun _ => 0)
| freach_step c gm op : freach c gm -> pguard c op -> freach (snd (fstep c op)) (gstep gm op).

(* ---------- the invariant ---------- *)
(* a stream held back by the stream-count limit has sent nothing and sends nothing; the limit it carries is
   replaced when it is released (_unblock_streams), so only a stream that is NOT held back is required to carry
   a limit the peer granted *)
Definition SQ (c : conn) (gm : Z -> Z) (t : strm) : Prop :=
  0 <= s_highest (t_send t) <= t_msdr t /\
  (t_blocked t = false -> t_msdr t <= granted c gm (t_id t)) /\
  (t_blocked t = true -> s_highest (t_send t) = 0) /\
  (is_local c (t_id t) = true -> t_blocked t = false -> t_id t / 4 < ms_for c (t_id t)).

Definition BL (c : conn) (l : list strm) (uni : bool) (blk : list Z) : Prop :=
  NoDup blk /\
  forall sid, In sid blk -> sid_uni sid = uni /\ is_local c sid = true /\
                            exists t, find_strm sid l = Some t /\ t_blocked t = true.

Record CInv (c : conn) (gm : Z -> Z) : Prop := {
  i_bl : 0 <= c_msd_bl c;
  i_br : 0 <= c_msd_br c;
  i_uni : 0 <= c_msd_uni c;
  i_streams : Forall (SQ c gm) (c_streams c);
  i_nodup : NoDup (map t_id (c_streams c));
  i_sum : sum_high (c_streams c) = c_used c;
  i_used : c_used c <= c_max_data c;
  i_blk_bidi : BL c (c_streams c) false (c_blk_bidi c);
  i_blk_uni : BL c (c_streams c) true (c_blk_uni c)
}.

(* the scalars SQ and BL look at *)
Definition sc_le (c c' : conn) : Prop :=
  c_client c' = c_client c /\ c_msd_bl c <= c_msd_bl c' /\ c_msd_br c <= c_msd_br c' /\ c_msd_uni c <= c_msd_uni c' /\
  c_ms_bidi c <= c_ms_bidi c' /\ c_ms_uni c <= c_ms_uni c'.

Lemma SQ_mono c c' gm gm' t : sc_le c c' -> (forall s, gm s <= gm' s) -> SQ c gm t -> SQ c' gm' t.
Proof.
  intros (Hc & H1 & H2 & H3 & H4 & H5) Hg (A & B & C & D).
  assert (L : forall s, is_local c' s = is_local c s) by (intros s; unfold is_local; rewrite Hc; reflexivity).
  repeat split; try lia; try assumption.
  - intros Hb0. specialize (B Hb0). unfold granted, initial_for in *. rewrite L. specialize (Hg (t_id t)).
    destruct (is_local c (t_id t)); [destruct (sid_uni (t_id t))|]; lia.
  - intros Hl Hb. rewrite L in Hl. specialize (D Hl Hb). unfold ms_for in *. destruct (sid_uni (t_id t)); lia.
Qed.

Lemma BL_mono c c' l uni blk : c_client c' = c_client c -> BL c l uni blk -> BL c' l uni blk.
Proof.
  intros Hc (N & H). split; [exact N|]. intros sid Hin. destruct (H sid Hin) as (A & B & C).
  repeat split; try assumption. unfold is_local in *. rewrite Hc. exact B.
Qed.

Lemma sc_le_refl c : sc_le c c.
Proof. unfold sc_le. repeat split; lia. Qed.

Lemma init_inv cl : CInv (conn_init cl) (fun _ => 0).
Proof.
  constructor; cbn; try lia; try (constructor; fail).
  - split; [constructor|intros sid []].
  - split; [constructor|intros sid []].
Qed.

(* ---------- preservation: generic steps ---------- *)
Lemma CInv_grow c c' gm gm' :
  sc_le c c' -> (forall s, gm s <= gm' s) ->
  c_streams c' = c_streams c -> c_blk_bidi c' = c_blk_bidi c -> c_blk_uni c' = c_blk_uni c ->
  c_used c' = c_used c -> c_max_data c <= c_max_data c' ->
  CInv c gm -> CInv c' gm'.
Proof.
  intros Hs Hg E1 E2 E3 E4 E5 V. pose proof Hs as (Hc & H1 & H2 & H3 & H4 & H5).
  constructor; rewrite ?E1, ?E2, ?E3, ?E4.
  - pose proof (i_bl _ _ V); lia.
  - pose proof (i_br _ _ V); lia.
  - pose proof (i_uni _ _ V); lia.
  - eapply Forall_impl; [|exact (i_streams _ _ V)]. intros t. apply SQ_mono; assumption.
  - exact (i_nodup _ _ V).
  - exact (i_sum _ _ V).
  - pose proof (i_used _ _ V). lia.
  - eapply BL_mono; [exact Hc|exact (i_blk_bidi _ _ V)].
  - eapply BL_mono; [exact Hc|exact (i_blk_uni _ _ V)].
Qed.

Lemma map_id_upd sid f l : (forall x, t_id (f x) = t_id x) -> map t_id (upd_strm sid f l) = map t_id l.
Proof.
  intros Hf. induction l as [|x l IH]; cbn [upd_strm map]; [reflexivity|].
  destruct (t_id x =? sid); cbn [map]; [rewrite Hf|rewrite IH]; reflexivity.
Qed.

Lemma find_none_notin sid l : find_strm sid l = None -> ~ In sid (map t_id l).
Proof.
  induction l as [|x l IH]; cbn [find_strm map]; [intros _ []|]. destruct (t_id x =? sid) eqn:E; [discriminate|].
  intros H [Hx|Hx]; [lia|exact (IH H Hx)].
Qed.

Lemma BL_upd c l uni blk sid f : (forall x, t_id (f x) = t_id x) -> (forall x, t_blocked (f x) = t_blocked x) ->
  BL c l uni blk -> BL c (upd_strm sid f l) uni blk.
Proof.
  intros Hi Hb (N & H). split; [exact N|]. intros s Hin. destruct (H s Hin) as (A & B & t & Ft & Bt).
  repeat split; try assumption. destruct (Z.eq_dec s sid) as [->|Hne].
  - exists (f t). split; [apply find_upd_same; assumption|]. rewrite Hb. exact Bt.
  - exists t. split; [rewrite find_upd_other; assumption|exact Bt].
Qed.

Lemma BL_app c l uni blk t : BL c l uni blk -> BL c (l ++ [t]) uni blk.
Proof.
  intros (N & H). split; [exact N|]. intros s Hin. destruct (H s Hin) as (A & B & t' & Ft & Bt).
  repeat split; try assumption. exists t'. split; [apply find_app_some; exact Ft|exact Bt].
Qed.

Lemma CInv_upd c gm sid f t used' :
  CInv c gm -> find_strm sid (c_streams c) = Some t ->
  (forall x, t_id (f x) = t_id x) -> (forall x, t_blocked (f x) = t_blocked x) ->
  SQ c gm (f t) ->
  used' = c_used c - s_highest (t_send t) + s_highest (t_send (f t)) -> used' <= c_max_data c ->
  CInv (mkConn (c_client c) (c_max_data c) used' (c_msd_bl c) (c_msd_br c) (c_msd_uni c) (c_ms_bidi c) (c_ms_uni c)
               (upd_strm sid f (c_streams c)) (c_blk_bidi c) (c_blk_uni c)) gm.
Proof.
  intros V Hf Hi Hb Hq Hu Hm.
  set (c' := mkConn _ _ _ _ _ _ _ _ _ _ _).
  assert (S : sc_le c c') by (unfold sc_le, c'; cbn [c_client c_msd_bl c_msd_br c_msd_uni c_ms_bidi c_ms_uni]; repeat split; try reflexivity; lia).
  constructor; unfold c'; cbn [c_msd_bl c_msd_br c_msd_uni c_streams c_used c_max_data c_blk_bidi c_blk_uni].
  - exact (i_bl _ _ V).
  - exact (i_br _ _ V).
  - exact (i_uni _ _ V).
  - apply (Forall_upd _ sid f _ t).
    + eapply Forall_impl; [|exact (i_streams _ _ V)]. intros x. apply SQ_mono; [exact S|intros; lia].
    + exact Hf.
    + apply (SQ_mono c c' gm gm); [exact S|intros; lia|exact Hq].
  - rewrite map_id_upd by exact Hi. exact (i_nodup _ _ V).
  - rewrite (sum_upd sid f _ t Hf), (i_sum _ _ V). lia.
  - exact Hm.
  - eapply BL_mono; [reflexivity|]. apply BL_upd; [exact Hi|exact Hb|exact (i_blk_bidi _ _ V)].
  - eapply BL_mono; [reflexivity|]. apply BL_upd; [exact Hi|exact Hb|exact (i_blk_uni _ _ V)].
Qed.

(* a sender operation that leaves highest_offset alone *)
Lemma CInv_upd_send c gm sid t s' :
  CInv c gm -> find_strm sid (c_streams c) = Some t -> s_highest s' = s_highest (t_send t) ->
  CInv (upd_send c sid s') gm.
Proof.
  intros V Hf Hh. unfold upd_send, with_streams.
  apply (CInv_upd c gm sid (set_send s') t (c_used c) V Hf); try (intros; reflexivity).
  - pose proof (i_streams _ _ V) as F. rewrite Forall_forall in F. specialize (F t (find_in _ _ _ Hf)).
    destruct F as (A & B & C & D). unfold SQ, set_send. cbn [t_send t_msdr t_id t_blocked]. rewrite Hh. repeat split; try lia; assumption.
  - cbn [set_send t_send]. lia.
  - exact (i_used _ _ V).
Qed.

Lemma CInv_upd_stop c gm sid t b :
  CInv c gm -> find_strm sid (c_streams c) = Some t ->
  CInv (with_streams c (upd_strm sid (set_stop b) (c_streams c))) gm.
Proof.
  intros V Hf. unfold with_streams.
  apply (CInv_upd c gm sid (set_stop b) t (c_used c) V Hf); try (intros; reflexivity).
  - pose proof (i_streams _ _ V) as F. rewrite Forall_forall in F. exact (F t (find_in _ _ _ Hf)).
  - cbn [set_stop t_send]. lia.
  - exact (i_used _ _ V).
Qed.

(* ---------- stream creation ---------- *)
Lemma BL_not_in c l uni blk sid : BL c l uni blk -> find_strm sid l = None -> ~ In sid blk.
Proof. intros (_ & H) Hn Hin. destruct (H sid Hin) as (_ & _ & t & Ft & _). congruence. Qed.

Lemma NoDup_snoc (l : list Z) x : NoDup l -> ~ In x l -> NoDup (l ++ [x]).
Proof.
  induction l as [|y l IH]; intros N Hn; cbn [app]; [constructor; [intros []|constructor]|].
  inversion N; subst. constructor.
  - intros Hin. apply in_app_or in Hin. destruct Hin as [Hin|[Hin|[]]]; [tauto|]. subst. apply Hn. left; reflexivity.
  - apply IH; [assumption|]. intros Hin. apply Hn. right; exact Hin.
Qed.

Lemma NoDup_ids_snoc l t : NoDup (map t_id l) -> find_strm (t_id t) l = None -> NoDup (map t_id (l ++ [t])).
Proof. intros N Hf. rewrite map_app. cbn [map]. apply NoDup_snoc; [exact N|apply find_none_notin; exact Hf]. Qed.

Lemma for_send_inv c gm sid c1 t : CInv c gm -> for_send c sid = Some (c1, t) ->
  CInv c1 gm /\ find_strm sid (c_streams c1) = Some t.
Proof.
  intros V. unfold for_send. destruct (negb (can_send c sid)); [discriminate|].
  destruct (find_strm sid (c_streams c)) as [t0|] eqn:Ef.
  { intros H; inversion H; subst. split; assumption. }
  destruct (negb (Bool.eqb (sid_client sid) (c_client c))) eqn:El; [discriminate|].
  assert (Hloc : is_local c sid = true) by (unfold is_local; destruct (Bool.eqb (sid_client sid) (c_client c)); [reflexivity|discriminate]).
  intros H; inversion H; subst c1 t; clear H.
  set (msd := if sid_uni sid then c_msd_uni c else c_msd_br c).
  set (maxs := if sid_uni sid then c_ms_uni c else c_ms_bidi c).
  set (blocked := sid / 4 >=? maxs).
  set (t := mkStrm sid blocked msd (send_init true) false).
  set (c1 := mkConn _ _ _ _ _ _ _ _ _ _ _).
  assert (S : sc_le c c1) by (unfold sc_le, c1; cbn [c_client c_msd_bl c_msd_br c_msd_uni c_ms_bidi c_ms_uni]; repeat split; try reflexivity; lia).
  assert (Hmsd : 0 <= msd) by (pose proof (i_br _ _ V); pose proof (i_uni _ _ V); unfold msd; destruct (sid_uni sid); lia).
  assert (Hfind : find_strm sid (c_streams c ++ [t]) = Some t).
  { rewrite (find_app_none _ _ _ Ef). cbn [t_id t]. assert (E : sid =? sid = true) by lia. rewrite E. reflexivity. }
  split; [|exact Hfind].
  constructor; unfold c1; cbn [c_msd_bl c_msd_br c_msd_uni c_streams c_used c_max_data c_blk_bidi c_blk_uni].
  - exact (i_bl _ _ V).
  - exact (i_br _ _ V).
  - exact (i_uni _ _ V).
  - apply Forall_app. split.
    + eapply Forall_impl; [|exact (i_streams _ _ V)]. intros x. apply SQ_mono; [exact S|intros; lia].
    + constructor; [|constructor]. apply (SQ_mono c c1 gm gm); [exact S|intros; lia|].
      unfold SQ, t. cbn [t_send t_msdr t_id t_blocked send_init s_highest]. repeat split; try lia.
      * intros _. unfold granted, initial_for. rewrite Hloc. fold msd. lia.
      * intros _ Hb. unfold ms_for. fold maxs. unfold blocked in Hb. lia.
  - apply NoDup_ids_snoc; [exact (i_nodup _ _ V)|exact Ef].
  - rewrite sum_high_app, (i_sum _ _ V). cbn. lia.
  - exact (i_used _ _ V).
  - eapply BL_mono; [reflexivity|]. pose proof (i_blk_bidi _ _ V) as B.
    destruct (blocked && negb (sid_uni sid)) eqn:Eb; [|apply BL_app; exact B].
    apply andb_true_iff in Eb. destruct Eb as (Eb1 & Eb2).
    pose proof (BL_not_in _ _ _ _ _ B Ef) as Hni. destruct (BL_app _ _ _ _ t B) as (N & HB).
    split; [apply NoDup_snoc; assumption|]. intros s Hin. apply in_app_or in Hin. destruct Hin as [Hin|[Hin|[]]]; [exact (HB s Hin)|].
    subst s. repeat split; [destruct (sid_uni sid); [discriminate|reflexivity]|exact Hloc|]. exists t. split; [exact Hfind|exact Eb1].
  - eapply BL_mono; [reflexivity|]. pose proof (i_blk_uni _ _ V) as B.
    destruct (blocked && sid_uni sid) eqn:Eb; [|apply BL_app; exact B].
    apply andb_true_iff in Eb. destruct Eb as (Eb1 & Eb2).
    pose proof (BL_not_in _ _ _ _ _ B Ef) as Hni. destruct (BL_app _ _ _ _ t B) as (N & HB).
    split; [apply NoDup_snoc; assumption|]. intros s Hin. apply in_app_or in Hin. destruct Hin as [Hin|[Hin|[]]]; [exact (HB s Hin)|].
    subst s. repeat split; [exact Eb2|exact Hloc|]. exists t. split; [exact Hfind|exact Eb1].
Qed.

Lemma from_peer_inv c gm sid c1 t : CInv c gm -> from_peer c sid = Some (c1, t) ->
  CInv c1 gm /\ find_strm sid (c_streams c1) = Some t.
Proof.
  intros V. unfold from_peer.
  destruct (find_strm sid (c_streams c)) as [t0|] eqn:Ef.
  { intros H; inversion H; subst. split; assumption. }
  destruct (Bool.eqb (sid_client sid) (c_client c)) eqn:El; [discriminate|].
  assert (Hloc : is_local c sid = false) by exact El.
  intros H; inversion H; subst c1 t; clear H.
  set (t := mkStrm sid false (if sid_uni sid then 0 else c_msd_bl c) (send_init (negb (sid_uni sid))) false).
  assert (Hfind : find_strm sid (c_streams c ++ [t]) = Some t).
  { rewrite (find_app_none _ _ _ Ef). cbn [t_id t]. assert (E : sid =? sid = true) by lia. rewrite E. reflexivity. }
  split; [|exact Hfind]. unfold with_streams.
  set (c1 := mkConn _ _ _ _ _ _ _ _ _ _ _).
  assert (S : sc_le c c1) by (unfold sc_le, c1; cbn [c_client c_msd_bl c_msd_br c_msd_uni c_ms_bidi c_ms_uni]; repeat split; try reflexivity; lia).
  constructor; unfold c1; cbn [c_msd_bl c_msd_br c_msd_uni c_streams c_used c_max_data c_blk_bidi c_blk_uni].
  - exact (i_bl _ _ V).
  - exact (i_br _ _ V).
  - exact (i_uni _ _ V).
  - apply Forall_app. split.
    + eapply Forall_impl; [|exact (i_streams _ _ V)]. intros x. apply SQ_mono; [exact S|intros; lia].
    + constructor; [|constructor]. apply (SQ_mono c c1 gm gm); [exact S|intros; lia|].
      pose proof (i_bl _ _ V).
      unfold SQ, granted, initial_for, t. cbn [t_send t_msdr t_id t_blocked]. unfold send_init. cbn [s_highest]. rewrite Hloc.
      repeat split; try (destruct (sid_uni sid); lia); try (intros; discriminate); try (intros; congruence).
  - apply NoDup_ids_snoc; [exact (i_nodup _ _ V)|exact Ef].
  - rewrite sum_high_app, (i_sum _ _ V). unfold t, send_init. cbn. lia.
  - exact (i_used _ _ V).
  - eapply BL_mono; [reflexivity|]. apply BL_app. exact (i_blk_bidi _ _ V).
  - eapply BL_mono; [reflexivity|]. apply BL_app. exact (i_blk_uni _ _ V).
Qed.

(* ---------- _unblock_streams ---------- *)
Lemma unblock_loop_inv (c : conn) (gm : Z -> Z) (uni : bool) :
  0 <= (if uni then c_msd_uni c else c_msd_br c) ->
  forall blk l other blk' l',
  Forall (SQ c gm) l -> BL c l uni blk -> BL c l (negb uni) other ->
  unblock_loop (if uni then c_msd_uni c else c_msd_br c) (if uni then c_ms_uni c else c_ms_bidi c) blk l = (blk', l') ->
  Forall (SQ c gm) l' /\ sum_high l' = sum_high l /\ BL c l' uni blk' /\ BL c l' (negb uni) other.
Proof.
  set (msd := if uni then c_msd_uni c else c_msd_br c). set (maxs := if uni then c_ms_uni c else c_ms_bidi c).
  intros Hmsd blk. induction blk as [|sid rest IH]; intros l other blk' l' F B O; cbn [unblock_loop].
  - intros H; inversion H; subst. auto.
  - destruct (sid / 4 <? maxs) eqn:E.
    2:{ intros H; inversion H; subst. auto. }
    destruct B as (N & HB). inversion N as [|? ? Hni N']; subst.
    destruct (HB sid (or_introl eq_refl)) as (Hu & Hl & t & Ft & Bt).
    assert (Hid : forall x, t_id (unblocked msd x) = t_id x) by reflexivity.
    pose proof F as F0. rewrite Forall_forall in F0. specialize (F0 t (find_in _ _ _ Ft)). destruct F0 as (A1 & A2 & A3 & A4).
    pose proof (find_id _ _ _ Ft) as Hidt.
    assert (Q : SQ c gm (unblocked msd t)).
    { unfold SQ, unblocked, granted, initial_for, ms_for. cbn [t_send t_msdr t_id t_blocked]. rewrite (A3 Bt), Hidt, Hl, Hu.
      fold msd maxs. repeat split; try lia; intros; try discriminate; lia. }
    intros H. apply (IH (upd_strm sid (unblocked msd) l) other blk' l') in H.
    + destruct H as (R1 & R2 & R3 & R4). split; [exact R1|]. split; [|split; assumption].
      rewrite R2, (sum_upd _ _ _ _ Ft). cbn [unblocked t_send]. lia.
    + apply (Forall_upd _ sid _ _ t); assumption.
    + split; [exact N'|]. intros s Hin. destruct (HB s (or_intror Hin)) as (X1 & X2 & t' & Ft' & Bt').
      repeat split; try assumption. exists t'. split; [|exact Bt'].
      rewrite find_upd_other; [exact Ft'|exact Hid|]. intros ->. contradiction.
    + destruct O as (NO & HO). split; [exact NO|]. intros s Hin. destruct (HO s Hin) as (X1 & X2 & t' & Ft' & Bt').
      repeat split; try assumption. exists t'. split; [|exact Bt'].
      rewrite find_upd_other; [exact Ft'|exact Hid|]. intros ->. rewrite Hu in X1. destruct uni; discriminate.
Qed.

Lemma unblock_loop_ids msd maxs blk : forall l, map t_id (snd (unblock_loop msd maxs blk l)) = map t_id l.
Proof.
  induction blk as [|sid rest IH]; intros l; cbn [unblock_loop]; [reflexivity|].
  destruct (sid / 4 <? maxs); [|reflexivity]. rewrite IH. apply map_id_upd. reflexivity.
Qed.

Lemma unblock_inv c gm uni : CInv c gm -> CInv (unblock c uni) gm.
Proof.
  intros V. unfold unblock. destruct uni.
  - destruct (unblock_loop (c_msd_uni c) (c_ms_uni c) (c_blk_uni c) (c_streams c)) as [blk l] eqn:E.
    destruct (unblock_loop_inv c gm true (i_uni _ _ V) _ _ (c_blk_bidi c) _ _ (i_streams _ _ V) (i_blk_uni _ _ V) (i_blk_bidi _ _ V) E)
      as (R1 & R2 & R3 & R4).
    set (c' := mkConn _ _ _ _ _ _ _ _ _ _ _).
    assert (S : sc_le c c') by (unfold sc_le, c'; cbn [c_client c_msd_bl c_msd_br c_msd_uni c_ms_bidi c_ms_uni]; repeat split; try reflexivity; lia).
    constructor; unfold c'; cbn [c_msd_bl c_msd_br c_msd_uni c_streams c_used c_max_data c_blk_bidi c_blk_uni].
    + exact (i_bl _ _ V).
    + exact (i_br _ _ V).
    + exact (i_uni _ _ V).
    + eapply Forall_impl; [|exact R1]. intros x. apply SQ_mono; [exact S|intros; lia].
    + replace l with (snd (unblock_loop (c_msd_uni c) (c_ms_uni c) (c_blk_uni c) (c_streams c))) by (rewrite E; reflexivity).
      rewrite unblock_loop_ids. exact (i_nodup _ _ V).
    + rewrite R2. exact (i_sum _ _ V).
    + exact (i_used _ _ V).
    + eapply BL_mono; [reflexivity|exact R4].
    + eapply BL_mono; [reflexivity|exact R3].
  - destruct (unblock_loop (c_msd_br c) (c_ms_bidi c) (c_blk_bidi c) (c_streams c)) as [blk l] eqn:E.
    destruct (unblock_loop_inv c gm false (i_br _ _ V) _ _ (c_blk_uni c) _ _ (i_streams _ _ V) (i_blk_bidi _ _ V) (i_blk_uni _ _ V) E)
      as (R1 & R2 & R3 & R4).
    set (c' := mkConn _ _ _ _ _ _ _ _ _ _ _).
    assert (S : sc_le c c') by (unfold sc_le, c'; cbn [c_client c_msd_bl c_msd_br c_msd_uni c_ms_bidi c_ms_uni]; repeat split; try reflexivity; lia).
    constructor; unfold c'; cbn [c_msd_bl c_msd_br c_msd_uni c_streams c_used c_max_data c_blk_bidi c_blk_uni].
    + exact (i_bl _ _ V).
    + exact (i_br _ _ V).
    + exact (i_uni _ _ V).
    + eapply Forall_impl; [|exact R1]. intros x. apply SQ_mono; [exact S|intros; lia].
    + replace l with (snd (unblock_loop (c_msd_br c) (c_ms_bidi c) (c_blk_bidi c) (c_streams c))) by (rewrite E; reflexivity).
      rewrite unblock_loop_ids. exact (i_nodup _ _ V).
    + rewrite R2. exact (i_sum _ _ V).
    + exact (i_used _ _ V).
    + eapply BL_mono; [reflexivity|exact R3].
    + eapply BL_mono; [reflexivity|exact R4].
Qed.

(* ---------- every operation preserves the invariant ---------- *)
Lemma gstep_ge gm op s : gm s <= gstep gm op s.
Proof. destruct op; cbn [gstep]; try lia. destruct (s =? sid); lia. Qed.

Lemma orz_le cur o : le_opt cur o -> cur <= orz o cur.
Proof. destruct o; cbn; lia. Qed.

Lemma CInv_gm c gm gm' : (forall s, gm s <= gm' s) -> CInv c gm -> CInv c gm'.
Proof. intros Hg. apply CInv_grow; try reflexivity; try lia; [apply sc_le_refl|exact Hg]. Qed.

Ltac sc_solve := unfold sc_le; cbn [c_client c_msd_bl c_msd_br c_msd_uni c_ms_bidi c_ms_uni]; repeat split; try reflexivity; try lia.

(* the repaired store loop: nothing but the six limits changes; with the check on (or with values that do not
   lower anything) no limit is lowered, also when the loop stops with PROTOCOL_VIOLATION half way *)
Lemma store_limits_keep chk c md bl br un sb su :
  let c' := snd (store_limits chk c md bl br un sb su) in
  c_client c' = c_client c /\ c_used c' = c_used c /\ c_streams c' = c_streams c /\
  c_blk_bidi c' = c_blk_bidi c /\ c_blk_uni c' = c_blk_uni c.
Proof.
  unfold store_limits.
  repeat match goal with |- context [if ?b then _ else _] => destruct b end; cbn; auto.
Qed.

Lemma store_limits_grow chk c md bl br un sb su :
  chk = true \/ (c_max_data c <= md /\ c_msd_bl c <= bl /\ c_msd_br c <= br /\ c_msd_uni c <= un /\ c_ms_bidi c <= sb /\ c_ms_uni c <= su) ->
  let c' := snd (store_limits chk c md bl br un sb su) in
  sc_le c c' /\ c_max_data c <= c_max_data c'.
Proof.
  intros H. unfold store_limits, sc_le.
  destruct (chk && (md <? c_max_data c)) eqn:E1; [cbn; repeat split; lia|].
  destruct (chk && (bl <? c_msd_bl c)) eqn:E2; [cbn; repeat split; destruct chk; cbn in *; lia|].
  destruct (chk && (br <? c_msd_br c)) eqn:E3; [cbn; repeat split; destruct chk; cbn in *; lia|].
  destruct (chk && (un <? c_msd_uni c)) eqn:E4; [cbn; repeat split; destruct chk; cbn in *; lia|].
  destruct (chk && (sb <? c_ms_bidi c)) eqn:E5; [cbn; repeat split; destruct chk; cbn in *; lia|].
  destruct (chk && (su <? c_ms_uni c)) eqn:E6; cbn; repeat split; destruct chk; cbn in *; lia.
Qed.

(* the error outcome of the repaired function is raised exactly when 0-RTT was accepted and a value is lower
   than the one held *)
Lemma store_limits_ok chk c md bl br un sb su :
  fst (store_limits chk c md bl br un sb su) = FOk ->
  snd (store_limits chk c md bl br un sb su) = with_limits c md bl br un sb su /\
  (chk = true -> c_max_data c <= md /\ c_msd_bl c <= bl /\ c_msd_br c <= br /\ c_msd_uni c <= un /\ c_ms_bidi c <= sb /\ c_ms_uni c <= su).
Proof.
  unfold store_limits.
  destruct (chk && (md <? c_max_data c)) eqn:E1; [discriminate|].
  destruct (chk && (bl <? c_msd_bl c)) eqn:E2; [discriminate|].
  destruct (chk && (br <? c_msd_br c)) eqn:E3; [discriminate|].
  destruct (chk && (un <? c_msd_uni c)) eqn:E4; [discriminate|].
  destruct (chk && (sb <? c_ms_bidi c)) eqn:E5; [discriminate|].
  destruct (chk && (su <? c_ms_uni c)) eqn:E6; [discriminate|].
  intros _. split; [reflexivity|]. intros ->. cbn in *. lia.
Qed.

Lemma sum_high_reblock l : sum_high (map blocked_again l) = 0.
Proof. induction l as [|x l IH]; cbn [map sum_high blocked_again t_send forget s_highest]; [reflexivity|]. rewrite IH. reflexivity. Qed.

Lemma paramsP_keep c pm md bl br un sb su : forgetting (OParamsP pm md bl br un sb su) = false ->
  c_used (snd (fstep c (OParamsP pm md bl br un sb su))) = c_used c /\
  c_streams (snd (fstep c (OParamsP pm md bl br un sb su))) = c_streams c.
Proof.
  intros Hfo. cbn [fstep]. cbv zeta.
  destruct pm; cbn [forgetting] in Hfo; try discriminate; cbn [snd fst];
    match goal with |- context [store_limits ?b _ _ _ _ _ _ _] =>
      destruct (store_limits_keep b c (orz md 0) (orz bl 0) (orz br 0) (orz un 0) (orz sb 0) (orz su 0)) as (_ & A & B & _) end;
    split; assumption.
Qed.

Lemma paramsP_forget c md bl br un sb su :
  c_used (snd (fstep c (OParamsP PRejected md bl br un sb su))) = 0 /\
  sum_high (c_streams (snd (fstep c (OParamsP PRejected md bl br un sb su)))) = 0.
Proof. cbn [fstep]. cbv zeta. cbn [snd fst reblock c_used c_streams]. split; [reflexivity|apply sum_high_reblock]. Qed.

(* ---------- the blocked lists rebuilt by the repaired function ---------- *)
Lemma find_map_blocked sid l : find_strm sid (map blocked_again l) = option_map blocked_again (find_strm sid l).
Proof.
  induction l as [|x l IH]; cbn [map find_strm option_map]; [reflexivity|]. cbn [blocked_again t_id].
  destruct (t_id x =? sid); [reflexivity|exact IH].
Qed.

Lemma in_find t l : In t l -> exists t', find_strm (t_id t) l = Some t'.
Proof.
  induction l as [|x l IH]; [intros []|]. intros [->|H]; cbn [find_strm].
  - assert (E : t_id t =? t_id t = true) by lia. rewrite E. eauto.
  - destruct (t_id x =? t_id t); [eauto|exact (IH H)].
Qed.

Lemma NoDup_map_filter (p : strm -> bool) l : NoDup (map t_id l) -> NoDup (map t_id (filter p l)).
Proof.
  induction l as [|x l IH]; cbn [map filter]; [auto|]. intros N. inversion N as [|? ? Hni N']; subst.
  destruct (p x); [|exact (IH N')]. cbn [map]. constructor; [|exact (IH N')].
  intros Hin. apply Hni. apply in_map_iff in Hin. destruct Hin as (y & Hy & Hin). apply filter_In in Hin.
  apply in_map_iff. exists y. tauto.
Qed.

Lemma BL_rebuilt c c' uni :
  c_client c' = c_client c -> NoDup (map t_id (c_streams c)) ->
  Forall (fun t => is_local c (t_id t) = true) (c_streams c) ->
  BL c' (map blocked_again (c_streams c)) uni
     (map t_id (filter (fun t => if uni then sid_uni (t_id t) else negb (sid_uni (t_id t))) (c_streams c))).
Proof.
  intros Hc N L. split; [apply NoDup_map_filter; exact N|].
  intros sid Hin. apply in_map_iff in Hin. destruct Hin as (t & <- & Hin). apply filter_In in Hin. destruct Hin as (Hin & Hp).
  rewrite Forall_forall in L. split; [destruct uni, (sid_uni (t_id t)); try reflexivity; discriminate|].
  split; [unfold is_local; rewrite Hc; exact (L t Hin)|].
  destruct (in_find t _ Hin) as (t' & Ft). exists (blocked_again t'). split; [rewrite find_map_blocked, Ft; reflexivity|reflexivity].
Qed.

Lemma step_inv c gm op : CInv c gm -> pguard c op -> CInv (snd (fstep c op)) (gstep gm op).
Proof.
  intros V G. destruct op as [sid d f|sid code|sid|v|sid v|uni v|md bl br un sb su| |sid ms|sid|sid k a b f|sid k|sid|sid|sid|sid k|buni|pm md bl br un sb su];
    cbn [fstep]; try (change (gstep gm _) with gm).
  - (* send_stream_data *)
    destruct (for_send c sid) as [[c1 t]|] eqn:E; [|exact V]. destruct (for_send_inv _ _ _ _ _ V E) as (V1 & F1).
    destruct (write (t_send t) d f) as [o s'] eqn:Ew. cbn [snd]. apply (CInv_upd_send c1 gm sid t s' V1 F1).
    replace s' with (snd (write (t_send t) d f)) by (rewrite Ew; reflexivity). apply write_highest.
  - (* reset_stream *)
    destruct (for_send c sid) as [[c1 t]|] eqn:E; [|exact V]. destruct (for_send_inv _ _ _ _ _ V E) as (V1 & F1).
    destruct (reset (t_send t) code) as [o s'] eqn:Ew. cbn [snd]. apply (CInv_upd_send c1 gm sid t s' V1 F1).
    replace s' with (snd (reset (t_send t) code)) by (rewrite Ew; reflexivity). apply reset_highest.
  - (* STOP_SENDING *)
    destruct (negb (can_send c sid)); [exact V|].
    destruct (from_peer c sid) as [[c1 t]|] eqn:E; [|exact V]. destruct (from_peer_inv _ _ _ _ _ V E) as (V1 & F1).
    destruct (reset (t_send t) 0) as [o s'] eqn:Ew. cbn [snd]. apply (CInv_upd_send c1 gm sid t s' V1 F1).
    replace s' with (snd (reset (t_send t) 0)) by (rewrite Ew; reflexivity). apply reset_highest.
  - (* MAX_DATA *)
    cbn [snd]. destruct (v >? c_max_data c) eqn:E; [|exact V].
    apply (CInv_grow c _ gm gm); [sc_solve|intros; lia|reflexivity|reflexivity|reflexivity|reflexivity|cbn [c_max_data]; lia|exact V].
  - (* MAX_STREAM_DATA *)
    assert (Hg : forall s, gm s <= gstep gm (OMaxStreamData sid v) s) by (intros s; apply gstep_ge).
    destruct (negb (can_send c sid)); [exact (CInv_gm _ _ _ Hg V)|].
    destruct (from_peer c sid) as [[c1 t]|] eqn:E; [|exact (CInv_gm _ _ _ Hg V)].
    destruct (from_peer_inv _ _ _ _ _ V E) as (V1 & F1). cbn [snd].
    pose proof (CInv_gm _ _ _ Hg V1) as V2.
    destruct (v >? t_msdr t) eqn:Ev; [|exact V2]. unfold with_streams.
    apply (CInv_upd c1 _ sid (set_msdr v) t (c_used c1) V2 F1); try (intros; reflexivity).
    + pose proof (i_streams _ _ V2) as F. rewrite Forall_forall in F. specialize (F t (find_in _ _ _ F1)).
      destruct F as (A & B & C & D). unfold SQ, set_msdr. cbn [t_send t_msdr t_id t_blocked]. repeat split; try lia; try assumption.
      unfold granted. rewrite (find_id _ _ _ F1). cbn [gstep]. assert (Es : sid =? sid = true) by lia. rewrite Es. lia.
    + cbn [set_msdr t_send]. lia.
    + exact (i_used _ _ V2).
  - (* MAX_STREAMS *)
    destruct (v >? 1152921504606846976); [exact V|]. destruct uni.
    + destruct (v >? c_ms_uni c) eqn:E; [|exact V]. cbn [snd]. apply unblock_inv.
      apply (CInv_grow c _ gm gm); [sc_solve|intros; lia|reflexivity|reflexivity|reflexivity|reflexivity|cbn [c_max_data]; lia|exact V].
    + destruct (v >? c_ms_bidi c) eqn:E; [|exact V]. cbn [snd]. apply unblock_inv.
      apply (CInv_grow c _ gm gm); [sc_solve|intros; lia|reflexivity|reflexivity|reflexivity|reflexivity|cbn [c_max_data]; lia|exact V].
  - (* transport parameters *)
    cbn [snd]. cbn [pguard] in G. destruct G as (G1 & G2 & G3 & G4 & G5 & G6).
    pose proof (orz_le _ _ G1). pose proof (orz_le _ _ G2). pose proof (orz_le _ _ G3).
    pose proof (orz_le _ _ G4). pose proof (orz_le _ _ G5). pose proof (orz_le _ _ G6).
    apply (CInv_grow c _ gm gm); [sc_solve|intros; lia|reflexivity|reflexivity|reflexivity|reflexivity|cbn [c_max_data]; lia|exact V].
  - (* handshake complete *)
    cbn [snd]. apply unblock_inv, unblock_inv, V.
  - (* _write_stream_frame *)
    destruct (find_strm sid (c_streams c)) as [t|] eqn:Ef; [|exact V].
    destruct (s_reset_pending (t_send t) || t_blocked t || s_empty (t_send t)) eqn:Eg; [exact V|].
    assert (Hb : t_blocked t = false) by (destruct (t_blocked t); [rewrite orb_true_r in Eg; discriminate|reflexivity]).
    destruct (get_frame (t_send t) ms (Some (max_offset c t))) as [o s'] eqn:Ew. cbn [snd].
    assert (Hs : s' = snd (get_frame (t_send t) ms (Some (max_offset c t)))) by (rewrite Ew; reflexivity).
    pose proof (get_highest (t_send t) ms (max_offset c t)) as Hh. rewrite <- Hs in Hh.
    pose proof (i_streams _ _ V) as F. rewrite Forall_forall in F. specialize (F t (find_in _ _ _ Ef)).
    destruct F as (A & B & C & D). pose proof (i_used _ _ V) as Hu. unfold max_offset in Hh.
    apply (CInv_upd c gm sid (set_send s') t _ V Ef); try (intros; reflexivity).
    + unfold SQ, set_send. cbn [t_send t_msdr t_id t_blocked]. repeat split; try lia; try assumption; intros X; congruence.
    + cbn [set_send t_send]. lia.
    + lia.
  - (* _write_reset_stream_frame *)
    destruct (find_strm sid (c_streams c)) as [t|] eqn:Ef; [|exact V].
    destruct (negb (s_reset_pending (t_send t)) || t_blocked t); [exact V|].
    cbn [get_reset_frame snd]. apply (CInv_upd_send c gm sid t _ V Ef). reflexivity.
  - (* STREAM delivery outcome *)
    destruct (find_strm sid (c_streams c)) as [t|] eqn:Ef; [|exact V].
    destruct (on_data_delivery (t_send t) k a b f) as [o s'] eqn:Ew. cbn [snd]. apply (CInv_upd_send c gm sid t s' V Ef).
    replace s' with (snd (on_data_delivery (t_send t) k a b f)) by (rewrite Ew; reflexivity). apply deliv_highest.
  - (* RESET_STREAM delivery outcome *)
    destruct (find_strm sid (c_streams c)) as [t|] eqn:Ef; [|exact V].
    destruct (on_reset_delivery (t_send t) k) as [o s'] eqn:Ew. cbn [snd]. apply (CInv_upd_send c gm sid t s' V Ef).
    replace s' with (snd (on_reset_delivery (t_send t) k)) by (rewrite Ew; reflexivity). apply reset_deliv_highest.
  - (* peer opens a stream *)
    destruct (from_peer c sid) as [[c1 t]|] eqn:E; [|exact V]. exact (proj1 (from_peer_inv _ _ _ _ _ V E)).
  - (* stop_stream *)
    destruct (negb (can_receive c sid)); [exact V|].
    destruct (find_strm sid (c_streams c)) as [t|] eqn:Ef; [|exact V]. cbn [snd]. exact (CInv_upd_stop _ _ _ _ _ V Ef).
  - (* _write_stop_sending_frame *)
    destruct (find_strm sid (c_streams c)) as [t|] eqn:Ef; [|exact V].
    destruct (negb (t_stop t) || t_blocked t); [exact V|]. cbn [snd]. exact (CInv_upd_stop _ _ _ _ _ V Ef).
  - (* STOP_SENDING delivery outcome *)
    destruct (find_strm sid (c_streams c)) as [t|] eqn:Ef; [|exact V]. cbn [snd].
    destruct k; [exact V|exact (CInv_upd_stop _ _ _ _ _ V Ef)].
  - (* STREAMS_BLOCKED step *) exact V.
  - (* transport parameters, repaired function: restored from a ticket (guarded), or 0-RTT accepted (unguarded) *)
    destruct pm; cbn [pguard] in G; cbn [snd fst].
    + destruct (store_limits_keep false c (orz md 0) (orz bl 0) (orz br 0) (orz un 0) (orz sb 0) (orz su 0)) as (K1 & K2 & K3 & K4 & K5).
      destruct (store_limits_grow false c (orz md 0) (orz bl 0) (orz br 0) (orz un 0) (orz sb 0) (orz su 0) (or_intror G)) as (S1 & S2).
      apply (CInv_grow c _ gm gm); [exact S1|intros; lia|exact K3|exact K4|exact K5|exact K2|exact S2|exact V].
    + destruct (store_limits_keep true c (orz md 0) (orz bl 0) (orz br 0) (orz un 0) (orz sb 0) (orz su 0)) as (K1 & K2 & K3 & K4 & K5).
      destruct (store_limits_grow true c (orz md 0) (orz bl 0) (orz br 0) (orz un 0) (orz sb 0) (orz su 0) (or_introl eq_refl)) as (S1 & S2).
      apply (CInv_grow c _ gm gm); [exact S1|intros; lia|exact K3|exact K4|exact K5|exact K2|exact S2|exact V].
    + (* 0-RTT not accepted: the limits are overwritten (possibly lowered); every stream is blocked again with
         highest_offset 0, the credit counter restarts from 0, the blocked lists are rebuilt *)
      destruct G as (N1 & N2 & N3 & N4 & N5 & N6 & L).
      destruct (store_limits_keep false c (orz md 0) (orz bl 0) (orz br 0) (orz un 0) (orz sb 0) (orz su 0)) as (K1 & K2 & K3 & K4 & K5).
      destruct (store_limits_ok false c (orz md 0) (orz bl 0) (orz br 0) (orz un 0) (orz sb 0) (orz su 0)) as (Hs & _).
      { unfold store_limits. cbn [andb]. reflexivity. }
      set (c1 := snd (store_limits false c (orz md 0) (orz bl 0) (orz br 0) (orz un 0) (orz sb 0) (orz su 0))) in *.
      assert (Hnn : 0 <= orz md 0 /\ 0 <= orz bl 0 /\ 0 <= orz br 0 /\ 0 <= orz un 0)
        by (destruct md, bl, br, un; cbn [orz nn] in *; lia).
      constructor; unfold reblock; cbn [c_msd_bl c_msd_br c_msd_uni c_streams c_used c_max_data c_blk_bidi c_blk_uni]; rewrite ?K3.
      * rewrite Hs. cbn [with_limits c_msd_bl]. lia.
      * rewrite Hs. cbn [with_limits c_msd_br]. lia.
      * rewrite Hs. cbn [with_limits c_msd_uni]. lia.
      * apply Forall_map. pose proof (i_streams _ _ V) as F. rewrite Forall_forall in F. apply Forall_forall. intros t Hin.
        destruct (F t Hin) as (A & _). unfold SQ. cbn [blocked_again t_blocked t_send t_msdr forget s_highest].
        repeat split; try lia; intros; discriminate.
      * rewrite map_map. cbn [blocked_again t_id]. exact (i_nodup _ _ V).
      * apply sum_high_reblock.
      * rewrite Hs. cbn [with_limits c_max_data]. lia.
      * apply (BL_rebuilt c _ false); [reflexivity|exact (i_nodup _ _ V)|exact L].
      * apply (BL_rebuilt c _ true); [reflexivity|exact (i_nodup _ _ V)|exact L].
Qed.

Lemma freach_inv c gm : freach c gm -> CInv c gm.
Proof. induction 1; [apply init_inv|apply step_inv; assumption]. Qed.

(* ================= C. the statements of C06 ================= *)

(* at every moment highest_offset(s) <= max_stream_data_remote(s), and that value is covered by what the peer
   sent: the transport parameter for the stream's kind or a MAX_STREAM_DATA frame for it *)
Lemma stream_within_limit_l c gm t : freach c gm -> In t (c_streams c) ->
  0 <= s_highest (t_send t) <= t_msdr t /\
  (t_blocked t = false -> t_msdr t <= granted c gm (t_id t)) /\
  (t_blocked t = true -> s_highest (t_send t) = 0).
Proof.
  intros R Hin. pose proof (i_streams _ _ (freach_inv _ _ R)) as F. rewrite Forall_forall in F.
  destruct (F t Hin) as (A & B & C & _). split; [assumption|split; assumption].
Qed.

Lemma connection_within_limit_l c gm : freach c gm ->
  sum_high (c_streams c) = c_used c /\ c_used c <= c_max_data c.
Proof. intros R. pose proof (freach_inv _ _ R) as V. split; [exact (i_sum _ _ V)|exact (i_used _ _ V)]. Qed.

(* `used` moves exactly as the sum of the highest offsets moves -- in every state, guarded or not *)
Lemma sum_upd_same sid f l : (forall x, s_highest (t_send (f x)) = s_highest (t_send x)) ->
  sum_high (upd_strm sid f l) = sum_high l.
Proof.
  intros Hf. induction l as [|x l IH]; cbn [upd_strm sum_high]; [reflexivity|].
  destruct (t_id x =? sid); cbn [sum_high]; [rewrite Hf|rewrite IH]; reflexivity.
Qed.

Lemma unblock_loop_sum msd maxs blk : forall l, sum_high (snd (unblock_loop msd maxs blk l)) = sum_high l.
Proof.
  induction blk as [|sid rest IH]; intros l; cbn [unblock_loop]; [reflexivity|].
  destruct (sid / 4 <? maxs); [|reflexivity]. rewrite IH. apply sum_upd_same. reflexivity.
Qed.

Lemma unblock_sum c uni : sum_high (c_streams (unblock c uni)) = sum_high (c_streams c) /\ c_used (unblock c uni) = c_used c.
Proof.
  unfold unblock. destruct uni.
  - pose proof (unblock_loop_sum (c_msd_uni c) (c_ms_uni c) (c_blk_uni c) (c_streams c)) as H.
    destruct (unblock_loop (c_msd_uni c) (c_ms_uni c) (c_blk_uni c) (c_streams c)) as [blk l]. cbn in *. auto.
  - pose proof (unblock_loop_sum (c_msd_br c) (c_ms_bidi c) (c_blk_bidi c) (c_streams c)) as H.
    destruct (unblock_loop (c_msd_br c) (c_ms_bidi c) (c_blk_bidi c) (c_streams c)) as [blk l]. cbn in *. auto.
Qed.

Lemma for_send_sum c sid c1 t : for_send c sid = Some (c1, t) ->
  sum_high (c_streams c1) = sum_high (c_streams c) /\ c_used c1 = c_used c /\ find_strm sid (c_streams c1) = Some t.
Proof.
  unfold for_send. destruct (negb (can_send c sid)); [discriminate|].
  destruct (find_strm sid (c_streams c)) as [t0|] eqn:Ef; [intros H; inversion H; subst; auto|].
  destruct (negb (Bool.eqb (sid_client sid) (c_client c))); [discriminate|].
  intros H; inversion H; subst; clear H. cbn [c_streams c_used]. rewrite sum_high_app. cbn [t_send send_init s_highest].
  repeat split; try lia. rewrite (find_app_none _ _ _ Ef). cbn [t_id]. assert (E : sid =? sid = true) by lia. rewrite E. reflexivity.
Qed.

Lemma from_peer_sum c sid c1 t : from_peer c sid = Some (c1, t) ->
  sum_high (c_streams c1) = sum_high (c_streams c) /\ c_used c1 = c_used c /\ find_strm sid (c_streams c1) = Some t.
Proof.
  unfold from_peer.
  destruct (find_strm sid (c_streams c)) as [t0|] eqn:Ef; [intros H; inversion H; subst; auto|].
  destruct (Bool.eqb (sid_client sid) (c_client c)); [discriminate|].
  intros H; inversion H; subst; clear H. cbn [with_streams c_streams c_used]. rewrite sum_high_app. unfold send_init. cbn [t_send s_highest].
  repeat split; try lia. rewrite (find_app_none _ _ _ Ef). cbn [t_id]. assert (E : sid =? sid = true) by lia. rewrite E. reflexivity.
Qed.

Lemma upd_send_sum c sid t s' : find_strm sid (c_streams c) = Some t -> s_highest s' = s_highest (t_send t) ->
  sum_high (c_streams (upd_send c sid s')) = sum_high (c_streams c) /\ c_used (upd_send c sid s') = c_used c.
Proof.
  intros Hf Hh. unfold upd_send, with_streams. cbn [c_streams c_used]. rewrite (sum_upd _ _ _ _ Hf). cbn [set_send t_send]. split; [lia|reflexivity].
Qed.

Lemma used_tracks_highest c op : forgetting op = false ->
  c_used (snd (fstep c op)) - c_used c = sum_high (c_streams (snd (fstep c op))) - sum_high (c_streams c).
Proof.
  intros Hfo. destruct op as [sid d f|sid code|sid|v|sid v|uni v|md bl br un sb su| |sid ms|sid|sid k a b f|sid k|sid|sid|sid|sid k|buni|pm md bl br un sb su]; cbn [fstep].
  - destruct (for_send c sid) as [[c1 t]|] eqn:E; [|cbn [snd]; lia]. destruct (for_send_sum _ _ _ _ E) as (A & B & F1).
    destruct (write (t_send t) d f) as [o s'] eqn:Ew. cbn [snd].
    assert (Hh : s_highest s' = s_highest (t_send t)) by (replace s' with (snd (write (t_send t) d f)) by (rewrite Ew; reflexivity); apply write_highest).
    destruct (upd_send_sum c1 sid t s' F1 Hh). lia.
  - destruct (for_send c sid) as [[c1 t]|] eqn:E; [|cbn [snd]; lia]. destruct (for_send_sum _ _ _ _ E) as (A & B & F1).
    destruct (reset (t_send t) code) as [o s'] eqn:Ew. cbn [snd].
    assert (Hh : s_highest s' = s_highest (t_send t)) by (replace s' with (snd (reset (t_send t) code)) by (rewrite Ew; reflexivity); apply reset_highest).
    destruct (upd_send_sum c1 sid t s' F1 Hh). lia.
  - destruct (negb (can_send c sid)); [cbn [snd]; lia|].
    destruct (from_peer c sid) as [[c1 t]|] eqn:E; [|cbn [snd]; lia]. destruct (from_peer_sum _ _ _ _ E) as (A & B & F1).
    destruct (reset (t_send t) 0) as [o s'] eqn:Ew. cbn [snd].
    assert (Hh : s_highest s' = s_highest (t_send t)) by (replace s' with (snd (reset (t_send t) 0)) by (rewrite Ew; reflexivity); apply reset_highest).
    destruct (upd_send_sum c1 sid t s' F1 Hh). lia.
  - cbn [snd]. destruct (v >? c_max_data c); cbn [c_used c_streams]; lia.
  - destruct (negb (can_send c sid)); [cbn [snd]; lia|].
    destruct (from_peer c sid) as [[c1 t]|] eqn:E; [|cbn [snd]; lia]. destruct (from_peer_sum _ _ _ _ E) as (A & B & F1). cbn [snd].
    destruct (v >? t_msdr t); [|lia]. cbn [with_streams c_used c_streams]. rewrite sum_upd_same by reflexivity. lia.
  - destruct (v >? 1152921504606846976); [cbn [snd]; lia|]. destruct uni.
    + destruct (v >? c_ms_uni c); cbn [snd]; [|lia].
      match goal with |- context [unblock ?x true] => destruct (unblock_sum x true) as (A & B) end. rewrite A, B. cbn [c_used c_streams]. lia.
    + destruct (v >? c_ms_bidi c); cbn [snd]; [|lia].
      match goal with |- context [unblock ?x false] => destruct (unblock_sum x false) as (A & B) end. rewrite A, B. cbn [c_used c_streams]. lia.
  - cbn [snd c_used c_streams]. lia.
  - cbn [snd]. destruct (unblock_sum (unblock c false) true) as (A & B). destruct (unblock_sum c false) as (A' & B'). lia.
  - destruct (find_strm sid (c_streams c)) as [t|] eqn:Ef; [|cbn [snd]; lia].
    destruct (s_reset_pending (t_send t) || t_blocked t || s_empty (t_send t)); [cbn [snd]; lia|].
    destruct (get_frame (t_send t) ms (Some (max_offset c t))) as [o s'] eqn:Ew. cbn [snd c_used c_streams].
    rewrite (sum_upd _ _ _ _ Ef). cbn [set_send t_send]. lia.
  - destruct (find_strm sid (c_streams c)) as [t|] eqn:Ef; [|cbn [snd]; lia].
    destruct (negb (s_reset_pending (t_send t)) || t_blocked t); [cbn [snd]; lia|]. cbn [get_reset_frame snd].
    match goal with |- context [upd_send c sid ?s] => destruct (upd_send_sum c sid t s Ef eq_refl) end. lia.
  - destruct (find_strm sid (c_streams c)) as [t|] eqn:Ef; [|cbn [snd]; lia].
    destruct (on_data_delivery (t_send t) k a b f) as [o s'] eqn:Ew. cbn [snd].
    assert (Hh : s_highest s' = s_highest (t_send t)) by (replace s' with (snd (on_data_delivery (t_send t) k a b f)) by (rewrite Ew; reflexivity); apply deliv_highest).
    destruct (upd_send_sum c sid t s' Ef Hh). lia.
  - destruct (find_strm sid (c_streams c)) as [t|] eqn:Ef; [|cbn [snd]; lia].
    destruct (on_reset_delivery (t_send t) k) as [o s'] eqn:Ew. cbn [snd].
    assert (Hh : s_highest s' = s_highest (t_send t)) by (replace s' with (snd (on_reset_delivery (t_send t) k)) by (rewrite Ew; reflexivity); apply reset_deliv_highest).
    destruct (upd_send_sum c sid t s' Ef Hh). lia.
  - destruct (from_peer c sid) as [[c1 t]|] eqn:E; [|cbn [snd]; lia]. destruct (from_peer_sum _ _ _ _ E) as (A & B & F1). cbn [snd]. lia.
  - destruct (negb (can_receive c sid)); [cbn [snd]; lia|].
    destruct (find_strm sid (c_streams c)) as [t|] eqn:Ef; cbn [snd with_streams c_used c_streams]; [|lia].
    rewrite sum_upd_same by reflexivity. lia.
  - destruct (find_strm sid (c_streams c)) as [t|] eqn:Ef; [|cbn [snd]; lia].
    destruct (negb (t_stop t) || t_blocked t); cbn [snd with_streams c_used c_streams]; [lia|].
    rewrite sum_upd_same by reflexivity. lia.
  - destruct (find_strm sid (c_streams c)) as [t|] eqn:Ef; [|cbn [snd]; lia]. cbn [snd].
    destruct k; cbn [with_streams c_used c_streams]; [lia|]. rewrite sum_upd_same by reflexivity. lia.
  - cbn [snd]. lia.
  - destruct (paramsP_keep c pm md bl br un sb su Hfo) as (A & B). cbn [fstep] in A, B. rewrite A, B. lia.
Qed.

(* in every state: if the counter is the sum of the highest offsets before an operation, it is afterwards *)
Lemma credit_sum_step c op : c_used c = sum_high (c_streams c) ->
  c_used (snd (fstep c op)) = sum_high (c_streams (snd (fstep c op))).
Proof.
  intros H. destruct (forgetting op) eqn:Ef.
  - destruct op; try discriminate. destruct m; try discriminate.
    destruct (paramsP_forget c md msd_bl msd_br msd_uni ms_bidi ms_uni) as (A & B). rewrite A, B. reflexivity.
  - pose proof (used_tracks_highest c op Ef). lia.
Qed.

(* only _write_stream_frame changes `used`, and by exactly the rise of that stream's highest_offset *)
Lemma used_changes_only_in_get c op : forgetting op = false -> c_used (snd (fstep c op)) <> c_used c ->
  exists sid ms t, op = OGet sid ms /\ find_strm sid (c_streams c) = Some t /\
    c_used (snd (fstep c op)) = c_used c + (s_highest (snd (get_frame (t_send t) ms (Some (max_offset c t)))) - s_highest (t_send t)).
Proof.
  intros Hfo Hne. destruct op as [sid d f|sid code|sid|v|sid v|uni v|md bl br un sb su| |sid ms|sid|sid k a b f|sid k|sid|sid|sid|sid k|buni|pm md bl br un sb su].
  all: try (match goal with |- exists _ _ _, OGet _ _ = _ /\ _ => fail 1 | _ => exfalso; apply Hne; cbn [fstep] end).
  - destruct (for_send c sid) as [[c1 t]|] eqn:E; [|reflexivity]. destruct (for_send_sum _ _ _ _ E) as (A & B & F1).
    destruct (write (t_send t) d f) as [o s']. cbn [snd upd_send with_streams c_used]. exact B.
  - destruct (for_send c sid) as [[c1 t]|] eqn:E; [|reflexivity]. destruct (for_send_sum _ _ _ _ E) as (A & B & F1).
    destruct (reset (t_send t) code) as [o s']. cbn [snd upd_send with_streams c_used]. exact B.
  - destruct (negb (can_send c sid)); [reflexivity|].
    destruct (from_peer c sid) as [[c1 t]|] eqn:E; [|reflexivity]. destruct (from_peer_sum _ _ _ _ E) as (A & B & F1).
    destruct (reset (t_send t) 0) as [o s']. cbn [snd upd_send with_streams c_used]. exact B.
  - cbn [snd]. destruct (v >? c_max_data c); reflexivity.
  - destruct (negb (can_send c sid)); [reflexivity|].
    destruct (from_peer c sid) as [[c1 t]|] eqn:E; [|reflexivity]. destruct (from_peer_sum _ _ _ _ E) as (A & B & F1). cbn [snd].
    destruct (v >? t_msdr t); [|exact B]. cbn [with_streams c_used]. exact B.
  - destruct (v >? 1152921504606846976); [reflexivity|]. destruct uni.
    + destruct (v >? c_ms_uni c); cbn [snd]; [|reflexivity].
      match goal with |- context [unblock ?x true] => destruct (unblock_sum x true) as (A & B) end. rewrite B. reflexivity.
    + destruct (v >? c_ms_bidi c); cbn [snd]; [|reflexivity].
      match goal with |- context [unblock ?x false] => destruct (unblock_sum x false) as (A & B) end. rewrite B. reflexivity.
  - reflexivity.
  - cbn [snd]. destruct (unblock_sum (unblock c false) true) as (A & B). destruct (unblock_sum c false) as (A' & B'). congruence.
  - cbn [fstep] in *. destruct (find_strm sid (c_streams c)) as [t|] eqn:Ef; [|exfalso; apply Hne; reflexivity].
    destruct (s_reset_pending (t_send t) || t_blocked t || s_empty (t_send t)); [exfalso; apply Hne; reflexivity|].
    exists sid, ms, t. split; [reflexivity|]. split; [exact Ef|].
    destruct (get_frame (t_send t) ms (Some (max_offset c t))) as [o s']. reflexivity.
  - destruct (find_strm sid (c_streams c)) as [t|] eqn:Ef; [|reflexivity].
    destruct (negb (s_reset_pending (t_send t)) || t_blocked t); reflexivity.
  - destruct (find_strm sid (c_streams c)) as [t|] eqn:Ef; [|reflexivity].
    destruct (on_data_delivery (t_send t) k a b f) as [o s']. reflexivity.
  - destruct (find_strm sid (c_streams c)) as [t|] eqn:Ef; [|reflexivity].
    destruct (on_reset_delivery (t_send t) k) as [o s']. reflexivity.
  - destruct (from_peer c sid) as [[c1 t]|] eqn:E; [|reflexivity]. destruct (from_peer_sum _ _ _ _ E) as (A & B & F1). exact B.
  - destruct (negb (can_receive c sid)); [reflexivity|]. destruct (find_strm sid (c_streams c)); reflexivity.
  - destruct (find_strm sid (c_streams c)) as [t|]; [|reflexivity]. destruct (negb (t_stop t) || t_blocked t); reflexivity.
  - destruct (find_strm sid (c_streams c)) as [t|]; [|reflexivity]. destruct k; reflexivity.
  - reflexivity.
  - exact (proj1 (paramsP_keep c pm md bl br un sb su Hfo)).
Qed.

(* ---------- stream-count limit and RESET_STREAM ---------- *)
Lemma stream_frames_within_count c gm sid ms mo o c' :
  freach c gm -> fstep c (OGet sid ms) = (FGet mo o, c') -> is_local c sid = true -> sid / 4 < ms_for c sid.
Proof.
  intros R H Hl. cbn [fstep] in H. destruct (find_strm sid (c_streams c)) as [t|] eqn:Ef; [|discriminate].
  destruct (s_reset_pending (t_send t) || t_blocked t || s_empty (t_send t)) eqn:Eg; [discriminate|].
  assert (Hb : t_blocked t = false) by (destruct (t_blocked t); [rewrite orb_true_r in Eg; discriminate|reflexivity]).
  pose proof (i_streams _ _ (freach_inv _ _ R)) as F. rewrite Forall_forall in F. destruct (F t (find_in _ _ _ Ef)) as (_ & _ & _ & D).
  rewrite (find_id _ _ _ Ef) in D. exact (D Hl Hb).
Qed.

Lemma reset_within_limit c gm sid code fs c' :
  freach c gm -> fstep c (OGetReset sid) = (FSender (SResetFrame code fs), c') ->
  exists t, find_strm sid (c_streams c) = Some t /\ fs = s_highest (t_send t) /\ fs <= t_msdr t /\ t_msdr t <= granted c gm sid.
Proof.
  intros R H. cbn [fstep] in H. destruct (find_strm sid (c_streams c)) as [t|] eqn:Ef; [|discriminate].
  destruct (negb (s_reset_pending (t_send t)) || t_blocked t) eqn:Eg; [discriminate|]. cbn [get_reset_frame] in H. inversion H; subst.
  assert (Hb : t_blocked t = false) by (destruct (t_blocked t); [rewrite orb_true_r in Eg; discriminate|reflexivity]).
  exists t. destruct (stream_within_limit_l c gm t R (find_in _ _ _ Ef)) as (A & B & _). rewrite (find_id _ _ _ Ef) in B.
  split; [reflexivity|]. split; [reflexivity|]. split; [lia|exact (B Hb)].
Qed.

(* ---------- witnesses ---------- *)
Fixpoint guards (c : conn) (ops : list fop) : Prop :=
  match ops with [] => True | op :: r => pguard c op /\ guards (snd (fstep c op)) r end.
Definition grun (gm : Z -> Z) (ops : list fop) : Z -> Z := fold_left gstep ops gm.

Lemma freach_run ops : forall c gm, freach c gm -> guards c ops -> freach (frun c ops) (grun gm ops).
Proof.
  induction ops as [|op r IH]; intros c gm R G; cbn [frun grun fold_left]; [exact R|].
  destruct G as (G1 & G2). apply IH; [apply freach_step; assumption|exact G2].
Qed.

(* no STREAM, RESET_STREAM or STOP_SENDING frame is written for a locally initiated stream beyond the peer's
   stream-count limit: each of the three write calls is refused by the loop (or the stream does not exist) *)
Definition silent (o : fout) : Prop := o = FIneligible \/ o = FNoStream.

Lemma blocked_streams_silent_l c gm sid : freach c gm -> is_local c sid = true -> ms_for c sid <= sid / 4 ->
  (forall ms, silent (fst (fstep c (OGet sid ms)))) /\ silent (fst (fstep c (OGetReset sid))) /\ silent (fst (fstep c (OGetStop sid))).
Proof.
  intros R Hl Hms. cbn [fstep]. destruct (find_strm sid (c_streams c)) as [t|] eqn:Ef.
  2:{ repeat split; intros; right; reflexivity. }
  pose proof (i_streams _ _ (freach_inv _ _ R)) as F. rewrite Forall_forall in F. destruct (F t (find_in _ _ _ Ef)) as (_ & _ & _ & D).
  rewrite (find_id _ _ _ Ef) in D.
  assert (Hb : t_blocked t = true) by (destruct (t_blocked t) eqn:E; [reflexivity|specialize (D Hl eq_refl); lia]).
  rewrite Hb, !orb_true_r. cbn [orb]. repeat split; intros; left; reflexivity.
Qed.

(* the same three calls on the witness history of the former finding C06-F2 (reset_stream on a blocked stream) *)
Definition ops_f2 : list fop :=
  [OParams (Some 1000) (Some 100) (Some 100) (Some 100) (Some 1) (Some 1); OHandshakeDone; OSend 4 [1; 2] false; OReset 4 7; OStop 4].

Example blocked_reset_example :
  let c := frun (conn_init true) ops_f2 in
  guards (conn_init true) ops_f2 /\ fst (fstep c (OGetReset 4)) = FIneligible /\ fst (fstep c (OGetStop 4)) = FIneligible /\
  fst (fstep (snd (fstep c (OMaxStreams false 2))) (OGetReset 4)) = FSender (SResetFrame (Some 7) 0).
Proof. split; [cbv; repeat split; discriminate|vm_compute; auto]. Qed.

(* C06-F1: a stream created from remembered (0-RTT) parameters keeps the remembered limit when the handshake
   delivers a smaller one: highest_offset ends above everything the peer has granted for the stream *)
Definition ops_f1 : list fop :=
  [OParams (Some 1000) (Some 100) (Some 100) (Some 100) (Some 4) (Some 4); OSend 0 (zeros 20) false; OGet 0 1000;
   OParams (Some 1000) (Some 50) (Some 50) (Some 50) (Some 4) (Some 4); OHandshakeDone; OSend 0 (zeros 60) false; OGet 0 1000].

Lemma lowered_parameters_witness :
  let c := frun (conn_init true) ops_f1 in let gm := grun (fun _ => 0) ops_f1 in
  exists t, find_strm 0 (c_streams c) = Some t /\ s_highest (t_send t) = 80 /\ granted c gm 0 = 50.
Proof. vm_compute. eexists. repeat split. Qed.

(* non-vacuity of the guarded statements: limits 0 -> raised by frames, loss and retransmission, two streams *)
Definition ops_ok : list fop :=
  [OParams (Some 30) (Some 10) (Some 10) (Some 10) (Some 1) (Some 1); OHandshakeDone;
   OSend 0 (zeros 25) true; OSend 4 (zeros 5) false; OGet 0 1000; OMaxStreamData 0 40; OGet 0 7; ODeliv 0 false 0 10 false;
   OGet 0 1000; OGet 0 1000; OMaxStreams false 2; OGet 4 1000; OMaxData 29; OMaxData 31; OGet 0 1000].

Example ok_example :
  let c := frun (conn_init true) ops_ok in
  guards (conn_init true) ops_ok /\ c_used c = 30 /\ c_max_data c = 31 /\
  map (fun t => (t_id t, s_highest (t_send t), t_msdr t)) (c_streams c) = [(0, 25, 40); (4, 5, 10)].
Proof. split; [cbv; repeat split; discriminate|vm_compute; auto]. Qed.

(* ---------- progress: an eligible stream with pending data, room under both limits and a positive budget
   gets a frame at its next pending offset ---------- *)
Lemma unblocked_progress_l c sid ms t start rstop rest :
  find_strm sid (c_streams c) = Some t -> t_blocked t = false ->
  s_reset_pending (t_send t) = false -> s_empty (t_send t) = false -> s_reset (t_send t) = None ->
  s_pending (t_send t) = (start, rstop) :: rest -> start < rstop ->
  0 < ms -> start < max_offset c t ->
  exists data fin c', fstep c (OGet sid ms) = (FGet (max_offset c t) (SFrame start data fin), c').
Proof.
  intros Hf Hb Hrp He Hr Hp Hlt Hms Hmo. cbn [fstep]. rewrite Hf, Hb, Hrp, He. cbn [orb].
  unfold get_frame at 1. rewrite Hr, Hp. cbv zeta.
  assert (E : (if Z.min rstop (start + ms) >? max_offset c t then max_offset c t else Z.min rstop (start + ms)) <=? start = false)
    by (destruct (Z.min rstop (start + ms) >? max_offset c t) eqn:E1; lia).
  rewrite E. eexists _, _, _. reflexivity.
Qed.

(* ================= D. frames: highest_offset is the largest end of any frame ever cut ================= *)
(* extra sender invariant over the legitimate histories of C10 ([reach]): everything written at or above
   highest_offset is still pending (was never sent) *)
Definition above_pending (st : send) : Prop :=
  forall o, s_highest st <= o < s_stop st -> mem o (s_pending st).

Lemma above_pending_step st g op : reach st g -> legit st g op -> above_pending st ->
  above_pending (snd (send_step st op)).
Proof.
  intros R L H. pose proof (reach_inv _ _ R) as V. pose proof (v_start _ _ V) as Hst. unfold above_pending in *.
  destruct op as [d f|ms mo| |k a b f|k|c]; cbn [send_step].
  - (* write *)
    destruct L as (Lf & Lr). unfold write. rewrite Lf, Lr. pose proof (Zlen_nonneg d).
    destruct (negb (Zlen d =? 0)) eqn:Ed; destruct f; cbn [snd]; intros o Ho; cbn [s_highest s_stop s_pending] in *;
      try (apply H; exact Ho).
    all: assert (Hlo : s_start st - 1 < s_stop st) by lia; assert (Hlt : s_stop st < s_stop st + Zlen d) by lia;
         destruct (add_spec (s_pending st) (s_start st - 1) (s_stop st) (s_stop st + Zlen d) (v_pwf _ _ V) Hlo Hlt) as (_ & M);
         apply M; destruct (Z_lt_dec o (s_stop st)); [right; apply H; lia|left; lia].
  - (* get_frame *)
    cbn [legit] in L. unfold get_frame. rewrite L.
    destruct (s_pending st) as [|[start rstop] rest] eqn:EP.
    + destruct (s_pending_eof st); cbn [snd]; intros o Ho; cbn [s_highest s_stop s_pending set_empty] in *; rewrite ?EP; try rewrite EP in H; exact (H o Ho).
    + cbv zeta.
      set (stop := match mo with Some m => if Z.min rstop (start + ms) >? m then m else Z.min rstop (start + ms) | None => Z.min rstop (start + ms) end).
      rewrite <- EP in H.
      destruct (stop <=? start) eqn:Ele; cbn [snd]; [exact H|].
      assert (Hlt : start < stop) by lia.
      destruct (subtract_spec (s_pending st) (s_start st - 1) start stop (v_pwf _ _ V) Hlt) as (_ & M).
      intros o Ho. cbn [s_highest s_stop s_pending] in *. rewrite <- EP. apply M.
      destruct (stop >? s_highest st) eqn:E2; (split; [apply H; lia|lia]).
  - exact H.
  - (* delivery outcome *)
    cbn [legit] in L. destruct (outstanding_facts st g a b f V L) as (Hab & Hge & _ & _).
    unfold on_data_delivery.
    destruct (f && negb match s_fin st with Some f0 => b =? f0 | None => false end); [exact H|].
    destruct (s_reset st); [exact H|]. destruct k.
    + destruct (b >? a); [|exact H].
      destruct (add a b (s_acked st)) as [|[fs fe] rest]; [exact H|]. destruct (fs =? s_start st); exact H.
    + assert (Hp : forall o, mem o (s_pending st) -> mem o (if b >? a then add a b (s_pending st) else s_pending st)).
      { destruct (b >? a) eqn:E; [|auto]. assert (Hlt : a < b) by lia. assert (Hlo : s_start st - 1 < a) by (specialize (Hge Hlt); lia).
        destruct (add_spec _ _ _ _ (v_pwf _ _ V) Hlo Hlt) as (_ & M). intros o Ho. apply M. right; exact Ho. }
      destruct (b >? a), f; cbn [snd]; intros o Ho; cbn [s_highest s_stop s_pending] in *; first [apply Hp; apply H; exact Ho|apply H; exact Ho].
  - destruct k; exact H.
  - unfold reset. destruct (s_reset st); exact H.
Qed.

Lemma reach_above_pending st g : reach st g -> above_pending st.
Proof.
  induction 1; [intros o Ho; cbn in Ho; lia|]. eapply above_pending_step; eassumption.
Qed.

(* a frame cut by get_frame ends at the new highest_offset or below it; highest_offset is afterwards exactly the
   maximum of its old value and the end of that frame: it grows by exactly the newly covered bytes *)
Lemma get_frame_highest_exact st g ms mo off data fin st' :
  reach st g -> s_reset st = None -> get_frame st ms mo = (SFrame off data fin, st') ->
  s_highest st' = Z.max (s_highest st) (off + Zlen data).
Proof.
  intros R Lr H. pose proof (reach_inv _ _ R) as V. pose proof (reach_above_pending _ _ R) as HA.
  pose proof (v_start _ _ V) as Hst. unfold get_frame in H. rewrite Lr in H.
  destruct (s_pending st) as [|[start rstop] rest] eqn:EP.
  - destruct (s_pending_eof st) eqn:EE; [|discriminate].
    destruct (s_fin st) as [f0|] eqn:EF; [|destruct (v_fin_none _ _ V EF) as (X & _); congruence].
    destruct (v_fin_some _ _ V f0 EF) as (Hf0 & _). inversion H; subst. cbn [s_highest]. change (Zlen (@nil Z)) with 0.
    assert (s_stop st <= s_highest st).
    { destruct (Z_le_dec (s_stop st) (s_highest st)); [assumption|exfalso].
      pose proof (HA (s_highest st) ltac:(lia)) as Hm. rewrite EP in Hm. exact Hm. }
    lia.
  - pose proof (v_pwf _ _ V) as W. rewrite EP in W. cbn [wf_from] in W. destruct W as (W1 & W2 & W3).
    assert (Hrs : rstop <= s_stop st).
    { pose proof (v_pmax _ _ V (rstop - 1)) as P. rewrite EP in P. cbn [mem] in P.
      assert (Hq : start <= rstop - 1 < rstop) by lia. specialize (P (or_introl Hq)). lia. }
    cbv zeta in H.
    set (stop := match mo with Some m => if Z.min rstop (start + ms) >? m then m else Z.min rstop (start + ms) | None => Z.min rstop (start + ms) end) in H.
    destruct (stop <=? start) eqn:Ele; [discriminate|].
    assert (Hstop : start < stop <= rstop) by (unfold stop in *; destruct mo as [m|]; [destruct (Z.min rstop (start + ms) >? m) eqn:E2|]; lia).
    assert (Hq1 : s_start st <= start) by lia. assert (Hq2 : start <= stop) by lia. assert (Hq3 : stop <= s_stop st) by lia.
    destruct (buf_slice st g start stop V Hq1 Hq2 Hq3) as (Hdata & Hlen).
    rewrite Hdata in H. inversion H; subst. cbn [s_highest]. rewrite Hlen.
    destruct (stop >? s_highest st) eqn:E2; lia.
Qed.

(* every STREAM frame cut by the stream loop ends within the stream's limit; it costs exactly the bytes it
   carries above the old highest_offset -- nothing if it only re-sends lost bytes -- and the connection
   stays within its limit.  [reach (t_send t) g]: the stream's sender has a legitimate history in the sense
   of C10 (outcomes only for frames that were emitted and had none yet). *)
Lemma frames_within_limit_l c gm sid ms mo off data fin c' t g :
  freach c gm -> find_strm sid (c_streams c) = Some t -> reach (t_send t) g ->
  fstep c (OGet sid ms) = (FGet mo (SFrame off data fin), c') ->
  off + Zlen data <= t_msdr t /\ t_msdr t <= granted c gm sid /\
  c_used c' = c_used c + Z.max 0 (off + Zlen data - s_highest (t_send t)) /\
  c_used c' <= c_max_data c' /\
  (off + Zlen data <= s_highest (t_send t) -> c_used c' = c_used c).
Proof.
  intros R Hf RS H.
  assert (R' : freach c' gm).
  { change gm with (gstep gm (OGet sid ms)). replace c' with (snd (fstep c (OGet sid ms))) by (rewrite H; reflexivity).
    apply freach_step; [exact R|exact Logic.I]. }
  destruct (connection_within_limit_l _ _ R') as (_ & Hu').
  destruct (stream_within_limit_l c gm t R (find_in _ _ _ Hf)) as (A & B0 & _). rewrite (find_id _ _ _ Hf) in B0.
  cbn [fstep] in H. rewrite Hf in H.
  destruct (s_reset_pending (t_send t) || t_blocked t || s_empty (t_send t)) eqn:Eg; [discriminate|].
  assert (He : s_empty (t_send t) = false) by (destruct (s_empty (t_send t)); [rewrite orb_true_r in Eg; discriminate|reflexivity]).
  assert (Hb : t_blocked t = false) by (destruct (t_blocked t); [rewrite orb_true_r in Eg; discriminate|reflexivity]).
  pose proof (B0 Hb) as B.
  assert (Hr : s_reset (t_send t) = None).
  { destruct (s_reset (t_send t)) eqn:Er; [|reflexivity]. pose proof (v_reset_empty _ _ (reach_inv _ _ RS)) as X.
    rewrite Er in X. rewrite X in He; [discriminate|discriminate]. }
  destruct (get_frame (t_send t) ms (Some (max_offset c t))) as [o s'] eqn:Ew. inversion H; subst o c' mo. clear H.
  pose proof (get_frame_highest_exact _ _ _ _ _ _ _ _ RS Hr Ew) as Hx.
  pose proof (get_highest (t_send t) ms (max_offset c t)) as Hh. rewrite Ew in Hh. cbn [snd] in Hh.
  unfold max_offset in Hh. cbn [c_used c_max_data] in *.
  repeat split; try lia; try exact B.
Qed.
