(* C03, two-party system: NON-VACUITY.
   toyO3 = the free tagging algebra of TlsSymbolicP3.v with type-checking parsers, a canonical Finished, an injective
   signature and a ClientHello codec that carries the binders: it satisfies the structural premises ideal2 and sig_pair
   (proved).  With it the honest run - the adversary only forwards what the endpoints emit - is an adversary-valid run of
   the two-party system, completes on both sides, and the conclusions of the theorems (agreement, matching) hold on it
   (vm_compute).  NOT shown here: that dy_sound holds along that run for toyO3 - it does not, the free byte-string
   algebra leaks an HMAC key to an adversary that slices the MAC value; an instantiation in which it holds is the
   computational world, outside Coq. *)
From AQ Require Import lib.Base gen.TlsDispatch model.TlsSymbolic proofs.TlsDispatchLegal.
From AQ Require Import proofs.TlsSymbolicP1 proofs.TlsSymbolicP2 proofs.TlsSymbolicP4 proofs.TlsSymbolicP5 proofs.TlsSymbolicP3.
From AQ Require Import model.TlsTwoParty proofs.TlsTwoPartyP1 proofs.TlsTwoPartyP2 proofs.TlsTwoPartyP3 proofs.TlsTwoPartyP4
                       proofs.TlsTwoPartyP5 proofs.TlsTwoPartyP6.

Definition toy_sign (k : bytes) (a : Z) (d : bytes) : bytes := Zlen k :: a :: k ++ d.

Definition enc_binders (bs : list bytes) : bytes := enc_exts (map (fun b => (0, b)) bs).
Definition toy_build_ch (v : ch_view) : bytes := hdr2 1 (Zlen (psk_binders v) :: enc_binders (psk_binders v)).
Definition toy_parse_ch (m : bytes) : pres ch_view :=
  if msg_type m =? 1 then
    match zdrop 4 m with
    | n :: r => POk (mkCH [1] [] [0x1301] [0] (Some [[104; 51]]) false (Some [(29, [5])])
                          (Some ([], map snd (dec_exts (Z.to_nat n) r))) None None (Some [0x0403]) (Some [29])
                          (Some [0x0304]) [])
    | [] => PAlert 50
    end
  else PAlert 50.

Definition typed {A} (t : Z) (m : bytes) (r : pres A) : pres A := if msg_type m =? t then r else PAlert 10.

Definition toy_parse_fin (m : bytes) : pres bytes :=
  match m with
  | 20 :: 0 :: 0 :: _ :: body => POk body
  | _ => PAlert 50
  end.

Definition toyO3 : oracles :=
  mkO toy_hash toy_hmac toy_extract toy_expand
      (fun _ p => p) (fun _ _ => 1) (fun _ a b => Some [zsum a + zsum b])
      toy_sign (fun cert alg data sg => beqb sg (toy_sign cert alg data))
      (fun _ => true) (fun _ => 2) (fun _ _ => 0) (fun n => beqb n [49])
      toy_parse_ch
      (fun m => typed 2 m (POk (dec_sh (zdrop 4 m)))) (fun m => typed 8 m (POk (dec_ee (zdrop 4 m))))
      (fun m => typed 13 m (POk (mkCR [] None))) (fun m => typed 11 m (POk toy_ct))
      (fun m => typed 15 m (POk (mkCV (nth 4 m 0) (zdrop 5 m)))) toy_parse_fin (fun m => typed 4 m (POk tt))
      toy_build_ch (fun v => hdr2 2 (enc_sh v)) (fun v => hdr2 8 (enc_ee v)) (fun _ => hdr2 13 [])
      (fun _ => hdr2 11 [77]) (fun v => hdr2 15 (cv_alg v :: cv_sig v)) (fun vd => hdr2 20 vd).

Lemma toy3_ideal : ideal_crypto toyO3.
Proof.
  destruct toy_ideal as (A & B & C & D). unfold ideal_crypto. split; [exact A |]. split; [exact B |]. split; [exact C |].
  intro vd. reflexivity.
Qed.

Lemma toy3_codec : codec_ok toyO3.
Proof.
  unfold codec_ok, toyO3; cbn [o_parse_sh o_build_sh o_parse_ee o_build_ee o_build_fin o_build_cr o_build_ct o_build_cv].
  repeat split; try (intros; apply hdr2_framed); try (intros; simpl; discriminate).
  - intro v. unfold hdr2, typed. cbn [msg_type Z.eqb Pos.eqb].
    change (zdrop 4 (2 :: 0 :: 0 :: Zlen (enc_sh v) :: enc_sh v)) with (enc_sh v).
    rewrite dec_enc_sh. reflexivity.
  - intro v. unfold hdr2, typed. cbn [msg_type Z.eqb Pos.eqb].
    change (zdrop 4 (8 :: 0 :: 0 :: Zlen (enc_ee v) :: enc_ee v)) with (enc_ee v).
    rewrite dec_enc_ee. reflexivity.
Qed.

Lemma typed_ok : forall A t m (r : pres A) v, typed t m r = POk v -> msg_type m = t.
Proof. intros A t m r v H. unfold typed in H. destruct (msg_type m =? t) eqn:E; [apply Z.eqb_eq; exact E | discriminate]. Qed.

Lemma toy3_ideal2 : ideal2 toyO3.
Proof.
  constructor.
  - exact toy3_ideal.
  - exact toy3_codec.
  - intros a x a' y H. cbn in H. unfold toy_hash in H. inversion H. auto.
  - intros k a d k' a' d' H. cbn in H. unfold toy_sign in H. inversion H as [[H1 H2 H3]].
    apply app_len_inj in H3; [| unfold Zlen in H1; lia]. destruct H3; subst; auto.
  - (* binders survive the ClientHello round trip *)
    intros v v' H. cbn [toyO3 o_parse_ch o_build_ch] in H. unfold toy_parse_ch, toy_build_ch, hdr2 in H.
    cbn [msg_type Z.eqb Pos.eqb] in H.
    match type of H with context [zdrop 4 (_ :: _ :: _ :: _ :: ?b)] => change (zdrop 4 (1 :: 0 :: 0 :: Zlen b :: b)) with b in H end.
    inversion H; subst v'. unfold psk_binders at 1. cbn [ch_psk].
    unfold enc_binders, Zlen. rewrite Nat2Z.id.
    rewrite <- (map_length (fun b => (0, b)) (psk_binders v)), dec_enc_exts, map_map. cbn [snd]. apply map_id.
  - intros [a sg]. reflexivity.
  - intro v. apply hdr2_framed.
  - (* Finished is canonical *)
    intros m vd F P. cbn [toyO3 o_parse_fin o_build_fin] in *. unfold toy_parse_fin in P.
    destruct m as [| t [| z1 [| z2 [| n body]]]]; try discriminate;
      repeat match type of P with
      | context [match ?x with _ => _ end] => destruct x; try discriminate
      end.
    inversion P; subst vd. apply framed_len in F. unfold be24, Zlen in F. cbn [length] in F.
    unfold hdr2, Zlen. f_equal. f_equal. f_equal. f_equal. lia.
  - intro v. reflexivity.
  - intro v. reflexivity.
  - intro v. reflexivity.
  - intro v. reflexivity.
  - intro v. reflexivity.
  - intro v. reflexivity.
  - intros m v H. cbn [toyO3 o_parse_ch] in H. unfold toy_parse_ch in H.
    destruct (msg_type m =? 1) eqn:E; [apply Z.eqb_eq; exact E | discriminate].
  - intros m v H. eapply typed_ok. exact H.
  - intros m v H. cbn [toyO3 o_parse_fin] in H. unfold toy_parse_fin in H.
    destruct m as [| t r]; [discriminate |].
    repeat match type of H with
    | context [match ?x with _ => _ end] => destruct x; try discriminate
    end. reflexivity.
Qed.

Lemma toy3_pair : sig_pair toyO3 [77] [77].
Proof. intros alg data sg H. cbn in H. apply beqb_eq in H. exact H. Qed.

(* ---------- the honest run ------------------------------------------------------------------------------------------- *)
(* the forwarder: start the client, hand every message the other endpoint emitted, in order *)
Definition forward_all (to_client : bool) (ms : list bytes) : list event :=
  map (fun m => if to_client then EvToClient m else EvToServer m) ms.

Definition honest_trace : list event :=
  let y1 := sys_step toyO3 toy_client toy_server (sys_init toy_client toy_server) EvStart in
  let t1 := forward_all false (y_out y1) in
  let y2 := sys_run toyO3 toy_client toy_server y1 t1 in
  let t2 := forward_all true (skipn (length (y_out y1)) (y_out y2)) in
  let y3 := sys_run toyO3 toy_client toy_server y2 t2 in
  let t3 := forward_all false (skipn (length (y_out y2)) (y_out y3)) in
  EvStart :: t1 ++ t2 ++ t3.

Definition no_adv (b : bytes) : Prop := False.

(* a trace whose every delivery is (decidably) one of the messages output so far is adversary-valid *)
Fixpoint forwards (O : oracles) (cc sc : cfg) (y : sys) (tr : list event) : bool :=
  match tr with
  | [] => true
  | e :: r =>
      match e with
      | EvStart => true
      | EvToClient m | EvToServer m => memb m (y_out y)
      end && forwards O cc sc (sys_step O cc sc y e) r
  end.

Lemma memb_in : forall m l, memb m l = true -> In m l.
Proof.
  intros m l. induction l as [| a r IH]; simpl; [discriminate |].
  intro H. apply orb_true_iff in H. destruct H as [H | H]; [left; symmetry; apply beqb_eq; exact H | right; auto].
Qed.

Lemma forwards_valid : forall O cc sc adv tr y, forwards O cc sc y tr = true -> valid_run O cc sc adv y tr.
Proof.
  intros O cc sc adv tr. induction tr as [| e r IH]; intros y H; cbn [valid_run]; [exact Logic.I |].
  cbn [forwards] in H. apply andb_true_iff in H. destruct H as [H1 H2]. split; [| apply IH; exact H2].
  destruct e; [exact Logic.I | |]; apply kn_out; apply memb_in; exact H1.
Qed.

Definition keyev_eqb (a b : keyev) : bool :=
  match a, b with (d, e, s, x), (d', e', s', x') => (d =? d') && (e =? e') && (s =? s') && beqb x x' end.
Definition has_key (k : keyev) (l : list keyev) : bool := existsb (keyev_eqb k) l.

Example honest_run_two_party :
  let y := sys_run toyO3 toy_client toy_server (sys_init toy_client toy_server) honest_trace in
  valid_run toyO3 toy_client toy_server no_adv (sys_init toy_client toy_server) honest_trace /\
  t_state (y_c y) = CLIENT_POST_HANDSHAKE /\ t_state (y_s y) = SERVER_POST_HANDSHAKE /\
  y_cdead y = false /\ y_sdead y = false /\
  (* the client authenticated THIS server *)
  t_resumed (y_c y) = false /\ hd [] (t_peer (y_c y)) = hd [] (f_chain toy_server) /\
  (* agreement *)
  k_suite (the_ks (y_c y)) = k_suite (the_ks (y_s y)) /\ t_alpn (y_c y) = t_alpn (y_s y) /\
  t_resumed (y_c y) = t_resumed (y_s y) /\ t_early (y_c y) = t_early (y_s y) /\ t_ks (y_c y) = t_ks (y_s y) /\
  length (t_keys (y_s y)) = 4%nat /\
  forallb (fun k => match k with (d, e, s, x) => has_key (1 - d, e, s, x) (t_keys (y_c y)) end) (t_keys (y_s y)) = true.
Proof.
  split; [apply forwards_valid; vm_compute; reflexivity |].
  vm_compute. repeat split; reflexivity.
Qed.

