(* C20  Totality (and its refutation for HTTP/3 header values) of the raising primitives of
   logger.py's encoders over the argument domains of their call sites. *)
From Coq Require Import String.
From AQ Require Import lib.Base model.LogEnc gen.LogSkeleton.
Open Scope string_scope.
Open Scope Z_scope.

Definition bytes_ok (l : list Z) : Prop := Forall (fun b => 0 <= b < 256) l.
Definition ascii_ok (l : list Z) : Prop := Forall (fun b => 0 <= b < 128) l.

(* ---- packet_type: every member of QuicPacketType in the current source has a name ------------- *)
Lemma packet_type_total : forall m, In m packet_type_members ->
  packet_type_lookup packet_type_name_keys m = Ok m.
Proof.
  assert (H : forallb (fun m => match packet_type_lookup packet_type_name_keys m with Ok _ => true | Err _ => false end)
                      packet_type_members = true) by (vm_compute; reflexivity).
  intros m Hm. rewrite forallb_forall in H. specialize (H m Hm).
  unfold packet_type_lookup in *. destruct (existsb (String.eqb m) packet_type_name_keys); [reflexivity | discriminate].
Qed.

(* the literal table used by the executable model is the lookup table *)
Lemma packet_type_named_is_lookup :
  packet_type_named = map (fun m => match packet_type_lookup packet_type_name_keys m with Ok _ => true | Err _ => false end)
                          packet_type_members.
Proof. vm_compute. reflexivity. Qed.

(* ---- hexdump never raises on bytes ------------------------------------------------------------- *)
Lemma hexdigit_ascii : forall n, 0 <= n < 16 -> 0 <= hexdigit n < 128.
Proof. intros n H. unfold hexdigit. destruct (n <? 10) eqn:E; lia. Qed.

Lemma hexlify_ascii : forall b, bytes_ok b -> ascii_ok (hexlify b).
Proof.
  induction b as [|x b IH]; intros H; simpl.
  - constructor.
  - inversion H as [|? ? Hx Hb]; subst.
    constructor; [apply hexdigit_ascii; split; [apply Z.div_pos; lia | apply Z.div_lt_upper_bound; lia]|].
    constructor; [apply hexdigit_ascii; apply Z.mod_pos_bound; lia|].
    apply IH. exact Hb.
Qed.

Lemma decode_ascii_ok : forall l, ascii_ok l -> decode_ascii l = Ok l.
Proof.
  intros l H. unfold decode_ascii.
  assert (E : forallb (fun x => (0 <=? x) && (x <? 128)) l = true).
  { apply forallb_forall. intros x Hx. unfold ascii_ok in H. rewrite Forall_forall in H. specialize (H x Hx).
    apply andb_true_intro. split; [apply Z.leb_le | apply Z.ltb_lt]; lia. }
  rewrite E. reflexivity.
Qed.

Lemma hexdump_total : forall b, bytes_ok b -> hexdump b = Ok (hexlify b).
Proof. intros b H. unfold hexdump. apply decode_ascii_ok. apply hexlify_ascii. exact H. Qed.

(* ---- UTF-8 decoding -------------------------------------------------------------------------------- *)
Lemma utf8_ascii : forall l lo hi, ascii_ok l -> utf8_go 0 lo hi l = true.
Proof.
  induction l as [|b l IH]; intros lo hi H; simpl; [reflexivity|].
  inversion H as [|? ? Hb Hl]; subst.
  assert (E : (0 <=? b) && (b <? 128) = true).
  { apply andb_true_intro. split; [apply Z.leb_le | apply Z.ltb_lt]; lia. }
  rewrite E. apply IH. exact Hl.
Qed.

Lemma decode_utf8_ascii : forall l, ascii_ok l -> decode_utf8 l = Ok l.
Proof. intros l H. unfold decode_utf8, utf8_valid. rewrite (utf8_ascii l 128 191 H). reflexivity. Qed.

(* exact characterisation of when the header encoder raises *)
Definition header_utf8 (h : header) : bool := utf8_valid (fst h) && utf8_valid (snd h).

Lemma encode_http3_headers_spec : forall hs,
  encode_http3_headers hs = (if forallb header_utf8 hs then Ok hs else Err UnicodeDecodeError).
Proof.
  induction hs as [|[n v] hs IH]; simpl; [reflexivity|].
  unfold decode_utf8, header_utf8 at 1. simpl.
  destruct (utf8_valid n); simpl; [|reflexivity].
  destruct (utf8_valid v); simpl; [|reflexivity].
  rewrite IH. destruct (forallb header_utf8 hs); reflexivity.
Qed.

(* header names that validate_header_name accepts are ASCII, hence always decodable *)
Lemma name_chars_ascii : forall l first, Forall (fun b => 0 <= b) l -> name_chars_ok first l = true -> ascii_ok l.
Proof.
  induction l as [|c l IH]; intros first Hp H; [constructor|].
  inversion Hp as [|? ? Hc Hl]; subst. simpl in H.
  destruct ((c <=? 32) || ((65 <=? c) && (c <=? 90)) || (127 <=? c)) eqn:E; [discriminate|].
  apply orb_false_elim in E. destruct E as [_ E]. apply Z.leb_gt in E.
  destruct ((c =? 58) && negb first); [discriminate|].
  constructor; [lia | eapply IH; eassumption].
Qed.

Lemma validated_name_decodes : forall n, bytes_ok n -> validate_header_name n = true -> decode_utf8 n = Ok n.
Proof.
  intros n Hb H. apply decode_utf8_ascii. eapply name_chars_ascii; [|exact H].
  unfold bytes_ok in Hb. eapply Forall_impl; [|exact Hb]. simpl. intros; lia.
Qed.

(* received header lists (names validated) raise exactly when some VALUE is not UTF-8 *)
Lemma received_headers_outcome : forall hs,
  Forall (fun h => bytes_ok (fst h) /\ validate_header_name (fst h) = true) hs ->
  encode_http3_headers hs = (if forallb (fun h => utf8_valid (snd h)) hs then Ok hs else Err UnicodeDecodeError).
Proof.
  intros hs H. rewrite encode_http3_headers_spec.
  assert (E : forallb header_utf8 hs = forallb (fun h => utf8_valid (snd h)) hs).
  { induction hs as [|h hs IH]; [reflexivity|]. inversion H as [|? ? [Hb Hn] Hr]; subst. simpl.
    rewrite (IH Hr). unfold header_utf8.
    pose proof (validated_name_decodes (fst h) Hb Hn) as Hd. unfold decode_utf8 in Hd.
    destruct (utf8_valid (fst h)); [reflexivity | discriminate]. }
  rewrite E. reflexivity.
Qed.

(* all-ASCII header lists never raise *)
Lemma ascii_headers_total : forall hs, Forall (fun h => ascii_ok (fst h) /\ ascii_ok (snd h)) hs ->
  encode_http3_headers hs = Ok hs.
Proof.
  induction hs as [|[n v] hs IH]; intros H; simpl; [reflexivity|].
  inversion H as [|? ? [Hn Hv] Hr]; subst. simpl in *.
  rewrite (decode_utf8_ascii n Hn), (decode_utf8_ascii v Hv). simpl. rewrite (IH Hr). reflexivity.
Qed.

(* the strict instance of the parameterised encoder is the encoder; a total decoder makes it total *)
Lemma with_strict_is_encoder : forall hs, encode_http3_headers_with true hs = encode_http3_headers hs.
Proof. induction hs as [|[n v] hs IH]; simpl; [reflexivity|]. rewrite IH. reflexivity. Qed.

Lemma lenient_total : forall hs, encode_http3_headers_with false hs = Ok hs.
Proof. induction hs as [|[n v] hs IH]; simpl; [reflexivity|]. rewrite IH. reflexivity. Qed.

(* REFUTATION of totality on the receive path: a header the validation accepts makes the encoder raise *)
Lemma http3_headers_not_total :
  exists name value,
    bytes_ok name /\ bytes_ok value /\
    validate_header_name name = true /\ validate_header_value value = true /\
    encode_http3_headers_frame 3 [(name, value)] 0 = Err UnicodeDecodeError /\
    encode_http3_push_promise_frame 3 [(name, value)] 0 0 = Err UnicodeDecodeError.
Proof.
  exists [120], [128].      (* b"x": b"\x80" *)
  repeat split; try (vm_compute; reflexivity);
    repeat constructor; simpl; lia.
Qed.

(* the hypotheses above are satisfiable by non-trivial data *)
Example ex_received_ok :
  encode_http3_headers [([58; 112; 97; 116; 104], [47]); ([120; 45; 116], [99; 97; 102; 195; 169])] =
  Ok [([58; 112; 97; 116; 104], [47]); ([120; 45; 116], [99; 97; 102; 195; 169])].   (* :path: /   x-t: caf\xc3\xa9 *)
Proof. vm_compute. reflexivity. Qed.

Example ex_latin1_raises : encode_http3_headers [([120; 45; 116], [99; 97; 102; 233])] = Err UnicodeDecodeError.  (* caf\xe9 *)
Proof. vm_compute. reflexivity. Qed.
