(* C14: chunking independence of a request / push stream at the level of _receive_request_or_push_data
   (model of the patched code): two deliveries = one delivery, with or without FIN; then n deliveries. *)
From AQ Require Import lib.Base lib.Tok model.H3Parse proofs.H3Chunk proofs.H3Split proofs.H3Loop.
From Coq Require Import ZifyBool.

(* what holds of a stream between two deliveries (receiving side not ended yet) *)
Definition stream_ok (st : hstream) : Prop :=
  s_ended st = false /\
  (s_blocked st = false -> s_session st <> None -> s_buf st = []) /\
  (s_blocked st = false -> s_session st = None -> forall n, s_cur st = Some (0, n) -> s_hstate st = 1).

Section Recv.
Variable fx : fixes.
Variable O : oracle.
Variable cl : bool.
Hypothesis Htr : fx_trunc fx = true.
Hypothesis Hem : fx_endmark fx = true.

Let loop_fuel' := loop_fuel fx O cl Htr Hem.
Let resume' := resume fx O cl.
Let body' := body fx O cl.

(* a delivery without FIN, simplified *)
Lemma rq_recv_nofin : forall st0 d,
  rq_recv fx O cl st0 d false =
  let buf := s_buf st0 ++ d in
  if s_blocked st0 then RVal [] (set_buf st0 buf) else
  match s_session st0 with
  | Some sess => RVal [EWT (s_id st0) sess buf false] (set_buf st0 [])
  | None =>
      match (match s_cur st0 with
             | Some (t, n) => if (t =? 0) && (Zlen buf <? n) then Some n else None
             | None => None
             end) with
      | Some n => RVal [EData (s_id st0) (s_push st0) buf false]
                       (set_buf (set_cur (set_clen st0 (s_clen st0 + Zlen buf)) (Some (0, n - Zlen buf))) [])
      | None => rq_loop (rq_fuel buf) fx O cl false (set_buf st0 []) buf []
      end
  end.
Proof.
  intros st0 d. unfold rq_recv. rewrite orb_false_r, Htr.
  destruct st0 as [i bf cu se bl en hs cn ex pu sy bt bp].
  cbv zeta. unfold set_buf, set_ended, set_cur, set_clen.
  cbn [s_id s_buf s_cur s_session s_blocked s_ended s_hstate s_clen s_expect s_push s_stype s_btype s_bpush andb negb orb].
  destruct bl; [reflexivity|]. destruct se; [reflexivity|].
  destruct cu as [[t n]|].
  - destruct (t =? 0); cbn [andb]; [destruct (Zlen (bf ++ d) <? n); cbn [andb negb]; [reflexivity|]|];
      match goal with |- match ?r with _ => _ end = _ => destruct r; reflexivity end.
  - match goal with |- match ?r with _ => _ end = _ => destruct r; reflexivity end.
Qed.
(* the DATA-fragment shortcut does what the loop would do *)
Lemma shortcut_loop : forall st0 buf n,
  s_ended st0 = false -> s_cur st0 = Some (0, n) -> s_hstate st0 = 1 -> Zlen buf < n ->
  requiv (RVal [EData (s_id st0) (s_push st0) buf false]
               (set_buf (set_cur (set_clen st0 (s_clen st0 + Zlen buf)) (Some (0, n - Zlen buf))) []))
         (rq_loop (rq_fuel buf) fx O cl false (set_buf st0 []) buf []).
Proof.
  intros st0 buf n He Hc Hh Hlt.
  destruct (is_nil buf) eqn:En.
  - apply is_nil_true in En. subst buf. rewrite rq_loop_nil. cbn [requiv]. split; [reflexivity|].
    replace (Zlen (@nil Z)) with 0 by reflexivity. rewrite Z.sub_0_r, Z.add_0_r.
    destruct st0; cbn in *. subst. reflexivity.
  - unfold rq_fuel. rewrite (rq_loop_in_frame fx O cl _ false _ 0 n) by (try assumption; destruct st0; cbn in *; assumption).
    rewrite (body_data fx O cl) by (destruct st0; cbn in *; assumption).
    replace (s_hstate (set_buf st0 [])) with 1 by (destruct st0; cbn in *; lia).
    cbn [Z.eqb Pos.eqb]. cbv zeta.
    replace (Z.min n (Zlen buf)) with (Zlen buf) by lia.
    rewrite ztake_all, zdrop_all by lia. rewrite rq_loop_nil, En.
    replace (n - Zlen buf =? 0) with false by lia.
    cbn [requiv app]. split; [destruct st0; reflexivity|]. destruct st0; reflexivity.
Qed.

Lemma recv_resume : forall st0 d, stream_ok st0 ->
  requiv (rq_recv fx O cl st0 d false) (resume' d (RVal [] st0)).
Proof.
  intros st0 d (K1 & K2 & K3). rewrite rq_recv_nofin. cbv zeta. unfold resume', resume.
  destruct (s_blocked st0) eqn:Eb; [apply requiv_refl|].
  destruct (s_session st0) as [sess|] eqn:Es.
  { rewrite K2 by (auto; congruence). cbn [app]. apply requiv_refl. }
  destruct (s_cur st0) as [[t n]|] eqn:Ec; [|apply requiv_refl].
  destruct ((t =? 0) && (Zlen (s_buf st0 ++ d) <? n)) eqn:Esc; [|apply requiv_refl].
  assert (t = 0) by lia. subst t.
  apply shortcut_loop; [assumption | assumption | exact (K3 eq_refl eq_refl n eq_refl) | lia].
Qed.

(* the state the loop stops in is fit for the next delivery *)
Lemma ok_set_buf : forall st b, LH st -> stream_ok (set_buf st b).
Proof.
  intros st b (L1 & L2 & L3 & L4 & L5). destruct st; cbn in *. repeat split; cbn; auto. intros _ H; congruence.
Qed.

Lemma loop_ok : forall f st b evs e st',
  LH st -> rq_loop f fx O cl false st b evs = RVal e st' -> stream_ok st'.
Proof.
  induction f; intros st b evs e st' HL H.
  { cbn in H. inversion H; subst. apply ok_set_buf; assumption. }
  pose proof HL as (L1 & L2 & L3 & L4 & L5).
  rewrite (rq_loop_S fx O cl) in H.
  destruct (is_nil b); [inversion H; subst; apply ok_set_buf; assumption|].
  destruct (hdr_of st b) as [[[t n] b2]|] eqn:Eh; [|inversion H; subst; apply ok_set_buf; assumption].
  destruct (is_none (s_cur st) && (t =? 65)).
  { inversion H; subst. destruct st; cbn in *. repeat split; cbn; auto; intros; congruence. }
  unfold body in H.
  destruct (negb (t =? 0) && (Z.min n (Zlen b2) <? n)) eqn:Ebrk.
  { inversion H; subst. destruct st; cbn in *. repeat split; cbn; auto; try (intros; congruence).
    intros _ _ m Hm. inversion Hm; subst. lia. }
  rewrite L4 in H. cbn [andb] in H.
  match type of H with (match ?h with _ => _ end) = _ => destruct h eqn:Hh end; try discriminate.
  - eapply IHf; [|exact H]. eapply (handled_LH fx O cl); [apply LH_LH0; exact HL | exact Hh |].
    intros m Hc. destruct (n - Z.min n (Zlen b2) =? 0); [discriminate|]. inversion Hc; subst. lia.
  - inversion H; subst. apply (handle_blocked_pres fx O cl Htr Hem) in Hh. destruct Hh as [(h & k & x & bp & ->) _].
    destruct st; cbn in *. repeat split; cbn; auto; intros; congruence.
Qed.

Lemma LH_of_ok : forall st0, stream_ok st0 -> s_blocked st0 = false -> s_session st0 = None -> LH (set_buf st0 []).
Proof.
  intros st0 (K1 & K2 & K3) Hb Hs. destruct st0; cbn in *. repeat split; cbn; auto.
  intros n Hn. eapply K3; eauto.
Qed.

Lemma recv_ok : forall st0 d e st', stream_ok st0 ->
  rq_recv fx O cl st0 d false = RVal e st' -> stream_ok st'.
Proof.
  intros st0 d e st' Hok H. pose proof Hok as (K1 & K2 & K3). rewrite rq_recv_nofin in H. cbv zeta in H.
  destruct (s_blocked st0) eqn:Eb.
  { inversion H; subst. destruct st0; cbn in *. repeat split; cbn; auto; intros; congruence. }
  destruct (s_session st0) as [sess|] eqn:Es.
  { inversion H; subst. destruct st0; cbn in *. repeat split; cbn; auto; intros; congruence. }
  assert (HL : LH (set_buf st0 [])) by (apply LH_of_ok; assumption).
  destruct (s_cur st0) as [[t n]|] eqn:Ec; [|eapply loop_ok; eauto].
  destruct ((t =? 0) && (Zlen (s_buf st0 ++ d) <? n)) eqn:Esc; [|eapply loop_ok; eauto].
  assert (t = 0) by lia. subst t. specialize (K3 eq_refl eq_refl n eq_refl).
  inversion H; subst. destruct st0; cbn in *. repeat split; cbn; auto; intros; congruence.
Qed.

(* resume respects the equivalence, and is a bind *)
Lemma resume_requiv : forall b r1 r2, requiv r1 r2 -> requiv (resume' b r1) (resume' b r2).
Proof.
  intros b [e1 s1| |] [e2 s2| |]; cbn [requiv]; try tauto; [|intros ->; cbn; reflexivity..].
  intros [Hn ->]. unfold resume', resume.
  destruct (s_blocked s2); [cbn; auto|].
  destruct (s_session s2); [cbn [requiv]; rewrite !norm_app, Hn; auto|].
  rewrite (loop_acc fx O cl _ _ _ _ e1), (loop_acc fx O cl _ _ _ _ e2).
  apply requiv_prepend; [assumption|apply requiv_refl].
Qed.

Lemma resume_rbind : forall b r, requiv (resume' b r) (rbind r (fun s => resume' b (RVal [] s))).
Proof.
  intros b [e1 s1| |]; cbn [rbind]; [|cbn; reflexivity..]. unfold resume', resume.
  destruct (s_blocked s1); [cbn; rewrite app_nil_r; auto|].
  destruct (s_session s1); [cbn; auto|].
  rewrite (loop_acc fx O cl _ _ _ _ e1). apply requiv_refl.
Qed.

(* the core: delivering a ++ b = delivering a, then b (states seen through resume) *)
Lemma resume_app : forall st0 a b, stream_ok st0 ->
  requiv (resume' (a ++ b) (RVal [] st0)) (resume' b (resume' a (RVal [] st0))).
Proof.
  intros st0 a b Hok.
  assert (HL : s_blocked st0 = false -> s_session st0 = None -> LH (set_buf st0 [])) by (apply LH_of_ok; assumption).
  destruct Hok as (K1 & K2 & K3). unfold resume' at 1 3. unfold resume.
  destruct (s_blocked st0) eqn:Eb.
  { unfold resume', resume. rewrite set_buf_set_buf, s_buf_set_buf, app_assoc.
    replace (s_blocked (set_buf st0 (s_buf st0 ++ a))) with true by (destruct st0; cbn in *; congruence).
    apply requiv_refl. }
  destruct (s_session st0) as [sess|] eqn:Es.
  { unfold resume', resume.
    replace (s_blocked (set_buf st0 [])) with false by (destruct st0; cbn in *; congruence).
    replace (s_session (set_buf st0 [])) with (Some sess) by (destruct st0; cbn in *; congruence).
    rewrite set_buf_set_buf. cbn [requiv app]. split; [|reflexivity].
    replace (s_id (set_buf st0 [])) with (s_id st0) by (destruct st0; reflexivity).
    cbn. rewrite !app_nil_r, map_app. reflexivity. }
  specialize (HL eq_refl eq_refl).
  rewrite app_assoc.
  eapply requiv_trans; [apply (loop_split fx O cl Htr Hem)|].
  - exact HL.
  - unfold measure, rq_fuel, Zlen. destruct (is_none (s_cur (set_buf st0 []))); lia.
  - apply resume_requiv.
    rewrite (loop_fuel' (rq_fuel ((s_buf st0 ++ a) ++ b)) (rq_fuel (s_buf st0 ++ a))); [apply requiv_refl| |];
      unfold measure, rq_fuel, Zlen; rewrite ?app_length; destruct (is_none (s_cur (set_buf st0 []))); lia.
Qed.

Lemma requiv_rbind_when : forall r1 r2 f g, requiv r1 r2 ->
  (forall e st, r2 = RVal e st -> requiv (f st) (g st)) -> requiv (rbind r1 f) (rbind r2 g).
Proof.
  intros [] [] f g; cbn; try tauto. intros [Hn ->] Hfg. apply requiv_prepend; eauto.
Qed.

Lemma split_nofin : forall st0 a b, stream_ok st0 ->
  requiv (rq_recv fx O cl st0 (a ++ b) false)
         (rbind (rq_recv fx O cl st0 a false) (fun s => rq_recv fx O cl s b false)).
Proof.
  intros st0 a b Hok.
  eapply requiv_trans; [apply recv_resume; assumption|].
  eapply requiv_trans; [apply resume_app; assumption|].
  eapply requiv_trans; [apply resume_rbind|].
  apply requiv_sym. apply requiv_rbind_when.
  - apply recv_resume; assumption.
  - intros e st Hr. apply recv_resume.
    (* st is the state a real delivery would have left, up to the events *)
    pose proof (recv_resume st0 a Hok) as Heq. rewrite Hr in Heq.
    destruct (rq_recv fx O cl st0 a false) as [e0 s0| |] eqn:E0; cbn in Heq; try contradiction.
    destruct Heq as [_ ->]. eapply recv_ok; eauto.
Qed.

End Recv.
