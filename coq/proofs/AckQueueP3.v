(* Proofs about model/AckQueue.v, part 3: the repaired range cap (docs/C12-fix-2.patch; CAP_ACK_NOW and PACING_LE are
   probed from the source, every statement here has them as explicit premises).  Under the sans-IO driver discipline
   -- every receive_datagram is followed by a datagrams_to_send whose packet has room for the ACK frame, before the
   next receive_datagram -- an owed packet is never forgotten by the cap: the range-count premise of
   ack_timely_pending / ack_timely_send is discharged by the discipline. *)
From Coq Require Import ZArith List Bool Lia ZifyBool.
From AQ Require Import lib.Base lib.Tok model.Codec model.Varint model.RangeSet model.AckFrame gen.C12Consts
  model.AckQueue proofs.CodecProofs proofs.VarintProofs proofs.RangeSetP proofs.AckFrameProofs proofs.AckQueueP
  proofs.AckQueueP2.

(* ---- counting ranges ------------------------------------------------------------------------ *)
Lemma absorb_len l : forall stop, Zlen (snd (absorb stop l)) <= Zlen l.
Proof.
  induction l as [|[s e] t IH]; intros stop; cbn [absorb]; [cbn; lia|].
  destruct (s <=? stop); [specialize (IH (Z.max e stop)); rewrite Zlen_cons; lia|cbn [snd]; lia].
Qed.

Lemma add_len l : forall a b, Zlen (add a b l) <= Zlen l + 1.
Proof.
  induction l as [|[s e] t IH]; intros a b; cbn [add]; [unfold Zlen; cbn; lia|].
  destruct (b <? s); [rewrite !Zlen_cons; lia|]. destruct (a >? e); [specialize (IH a b); rewrite !Zlen_cons; lia|].
  pose proof (absorb_len t (Z.max b e)). destruct (absorb (Z.max b e) t) as [st t']. cbn [snd] in H. rewrite !Zlen_cons. lia.
Qed.

Lemma subtract0_len l : forall lo b, wf_from lo l -> -1 <= lo -> 0 < b -> Zlen (subtract 0 b l) <= Zlen l.
Proof.
  induction l as [|[s e] t IH]; intros lo b W Hlo Hb; cbn [subtract]; [lia|].
  cbn in W. destruct W as (W1 & W2 & W3). specialize (IH e b W3 ltac:(lia) Hb).
  destruct (b <=? s); [lia|]. destruct (0 >=? e); [rewrite !Zlen_cons; lia|].
  destruct ((0 <=? s) && (b >=? e)); [rewrite Zlen_cons; lia|].
  destruct (0 >? s) eqn:E; [lia|]. rewrite !Zlen_cons. lia.
Qed.

Lemma wf_nonneg_from q : wf q -> (forall x, mem x q -> 0 <= x) -> exists lo, wf_from lo q /\ -1 <= lo.
Proof.
  destruct q as [|[s e] t]; intros W H; [exists 0; split; [exact I|lia]|].
  exists (s - 1). split; [exact W|]. cbn in W. assert (0 <= s) by (apply H; cbn; left; lia). lia.
Qed.

Lemma delivers_len hs : forall q q', wf q -> (forall x, mem x q -> 0 <= x) -> delivers q hs = Ok q' -> Zlen q' <= Zlen q.
Proof.
  induction hs as [|h t IH]; intros q q' W Hn H; cbn in H; [inversion H; lia|].
  destruct (deliver q h) as [q1|] eqn:E; [|discriminate]. cbn in H.
  destruct (deliver_spec _ _ _ W E) as (W1 & M1).
  assert (Zlen q1 <= Zlen q).
  { unfold deliver in E. destruct (h + 1 >? 0) eqn:E1; [|discriminate]. inversion E; subst.
    destruct (wf_nonneg_from q W Hn) as (lo & Wl & Hl). eapply subtract0_len; eauto. lia. }
  specialize (IH q1 q' W1 ltac:(intros x Hx; apply Hn, M1, Hx) H). lia.
Qed.

(* the cap keeps the largest member *)
Lemma cap_loop_top fuel : forall q x, (length q <= fuel)%nat -> wf q -> mem x q -> (forall y, mem y q -> y <= x) ->
  mem x (cap_loop fuel q).
Proof.
  induction fuel as [|f IH]; intros q x Hl W M Hmax; cbn [cap_loop]; auto.
  destruct (Zlen q >? MAX_ACK_RANGES) eqn:E; auto.
  destruct q as [|[s e] t]; [destruct M|].
  destruct t as [|[s2 e2] t2].
  { unfold Zlen in E. cbn in E. pose proof MAX_pos. lia. }
  assert (Wt : wf ((s2, e2) :: t2)) by (eapply wf_tail; eauto).
  apply IH; auto; [cbn in Hl |- *; lia| |].
  - cbn in M. destruct M as [M|M]; [|exact M]. exfalso.
    cbn in W. destruct W as (_ & _ & (W3 & W4 & _)).
    assert (s2 <= x) by (apply Hmax; cbn; right; left; lia). lia.
  - intros y Hy. apply Hmax. cbn. right. exact Hy.
Qed.

Lemma cap_ranges_top q x : wf q -> mem x q -> (forall y, mem y q -> y <= x) -> mem x (cap_ranges q).
Proof. intros. apply cap_loop_top; auto. Qed.

(* ---- TInv through a send, with "every owed packet is among the ranges the cap keeps" instead of the range count *)
Definition Cov (s : space) : Prop :=
  closing s = false -> disc s = false -> forall L t, In (L, t) (owed s) -> mem L (cap_ranges (aq s)).

Lemma tinv_write_ack_cov dmax a s delay room r s' : Inv s -> TInv dmax a s -> Cov s ->
  write_ack s delay room = (r, s') -> TInv dmax a s' /\ (forall o, In o (owed s') -> In o (owed s)) /\
  (closing s' = closing s /\ disc s' = disc s) /\
  (aq s' = cap_ranges (aq s)) /\ (forall b q, r = SFrame b q -> closing s = false -> disc s = false -> owed s' = []).
Proof.
  intros [I Ne] T Cv H. unfold write_ack in H.
  assert (T1 : TInv dmax a (set_aq s (cap_ranges (aq s)))).
  { destruct T as [A N R O]. constructor; cbn; auto.
    intros C D L t0 Hin. destruct (O C D L t0 Hin) as (M & Rest0). split; [eapply Cv; eauto|exact Rest0]. }
  destruct (room <? _);
    [inversion H; subst; split; [exact T1|split; [intros o Ho; exact Ho|split; [split; reflexivity|split; [reflexivity|intros; discriminate]]]]|].
  destruct (w_chunks _ _ _); inversion H; subst; clear H;
    [|split; [exact T1|split; [intros o Ho; exact Ho|split; [split; reflexivity|split; [reflexivity|intros; discriminate]]]]].
  assert (Hnil : closing s = false -> disc s = false ->
                 filter (fun o => negb (covered (cap_ranges (aq s)) o)) (owed s) = []).
  { intros C D. apply filter_all_covered. intros [L t0] Hin. unfold covered. cbn. apply contains_mem. eapply Cv; eauto. }
  split; [|split; [|split; [split; reflexivity|split; [reflexivity|]]]].
  - destruct T as [A N R O]. constructor; cbn; auto; [congruence|].
    intros C D L t0 Hin. rewrite (Hnil C D) in Hin. destruct Hin.
  - cbn. intros o Ho. apply filter_In in Ho. tauto.
  - cbn. intros b q _ C D. auto.
Qed.

Lemma tinv_send_cov dmax a s t delay room blocked r s' : Inv s -> TInv dmax a s -> Cov s -> clk s <= t ->
  send s t delay room blocked = (r, s') ->
  TInv dmax a s' /\ (forall o, In o (owed s') -> In o (owed s)) /\ (closing s' = closing s /\ disc s' = disc s) /\
  (aq s' = aq s \/ aq s' = cap_ranges (aq s)) /\
  (forall b q, r = SFrame b q -> closing s = false -> disc s = false -> owed s' = []).
Proof.
  intros I T Cv Hc H. apply (inv_set_clk s t) in I. apply (tinv_clk _ _ _ t) in T; auto.
  assert (Cv1 : Cov (set_clk s t)) by exact Cv.
  assert (Same : forall w, (SNothing w, set_clk s t) = (r, s') ->
    TInv dmax a s' /\ (forall o, In o (owed s') -> In o (owed s)) /\ (closing s' = closing s /\ disc s' = disc s) /\
    (aq s' = aq s \/ aq s' = cap_ranges (aq s)) /\
    (forall b q, r = SFrame b q -> closing s = false -> disc s = false -> owed s' = [])).
  { intros w E. inversion E; subst. split; [exact T|split; [intros o Ho; exact Ho|split; [split; reflexivity|split; [left; reflexivity|intros; discriminate]]]]. }
  assert (Wr : write_ack (set_clk s t) delay room = (r, s') ->
    TInv dmax a s' /\ (forall o, In o (owed s') -> In o (owed s)) /\ (closing s' = closing s /\ disc s' = disc s) /\
    (aq s' = aq s \/ aq s' = cap_ranges (aq s)) /\
    (forall b q, r = SFrame b q -> closing s = false -> disc s = false -> owed s' = [])).
  { intros E. destruct (tinv_write_ack_cov _ _ _ _ _ _ _ I T Cv1 E) as (A1 & A2 & A3 & A4 & A5).
    split; [exact A1|split; [exact A2|split; [exact A3|split; [right; exact A4|exact A5]]]]. }
  unfold send in H.
  destruct (closing (set_clk s t)); [eapply Same; eauto|].
  destruct (disc (set_clk s t)); [eapply Same; eauto|].
  destruct (app (set_clk s t)).
  - destruct (negb _ && blocked); [eapply Same; eauto|].
    destruct (complete (set_clk s t)); [|eapply Same; eauto].
    destruct (ack_at (set_clk s t)); [|eapply Same; eauto].
    destruct (z <=? t); [|eapply Same; eauto]. auto.
  - destruct (ack_at (set_clk s t)); [|eapply Same; eauto]. auto.
Qed.

(* ---- the discipline ------------------------------------------------------------------------------ *)
Definition wf_op_d (dmax : Z) (s : space) (o : op) : Prop :=
  wf_op s o /\
  match o with
  | Recv _ _ t d _ _ => clk s <= t /\ 0 <= d <= dmax
  | Send t delay _ _ => clk s <= t /\ 0 <= delay < 2 ^ 62
  | _ => True
  end.

Definition not_recv (o : op) : Prop := match o with Recv _ _ _ _ _ _ => False | _ => True end.

(* op sequences of the driver discipline: any op other than a received packet at any time (sends with ANY room and
   pacer verdict included); a received packet is followed, before the next one, by a send whose packet has room
   for the ACK frame (whatever the pacer says) *)
Inductive reach_d (dmax : Z) (a : bool) : space -> Prop :=
| rd_init : reach_d dmax a (init a)
| rd_other s o : reach_d dmax a s -> not_recv o -> wf_op_d dmax s o -> reach_d dmax a (snd (step s o))
| rd_recv_send s pn e t d dl ok u delay room blocked :
    reach_d dmax a s -> wf_op_d dmax s (Recv pn e t d dl ok) ->
    wf_op_d dmax (snd (step s (Recv pn e t d dl ok))) (Send u delay room blocked) ->
    ack_capacity (cap_ranges (aq (snd (step s (Recv pn e t d dl ok))))) <= room ->
    reach_d dmax a (snd (step (snd (step s (Recv pn e t d dl ok))) (Send u delay room blocked))).

Lemma reach_d_reach dmax a s : reach_d dmax a s -> reach a s.
Proof.
  induction 1; [constructor| |].
  - apply reach_step; auto. destruct H1; auto.
  - apply reach_step; [apply reach_step; auto; destruct H0; auto|destruct H1; auto].
Qed.

(* at the rest points of the discipline an owed packet implies fewer than MAX_ACK_RANGES ranges *)
Definition Rest (s : space) : Prop :=
  closing s = false -> disc s = false -> owed s <> [] -> Zlen (aq s) <= MAX_ACK_RANGES - 1.

Lemma rest_cov dmax a s : Inv s -> TInv dmax a s -> Rest s -> Cov s.
Proof.
  intros [I _] T R C D L t Hin.
  assert (Zlen (aq s) <= MAX_ACK_RANGES) by (assert (owed s <> []) by (intros E; rewrite E in Hin; destruct Hin); specialize (R C D H); lia).
  destruct (cap_ranges_spec (aq s) (i_wf _ I)) as (_ & _ & _ & _ & Eq). rewrite (Eq H).
  destruct (t_owed _ _ _ T C D L t Hin); auto.
Qed.

Lemma wf_d_t_nonsend dmax s o : wf_op_d dmax s o -> (forall t dl r b, o <> Send t dl r b) -> wf_op_t dmax s o.
Proof. intros (W & H) Hn. split; auto. destruct o; auto. exfalso. eapply Hn; eauto. Qed.

Lemma cap_now_true t a1 x : cap_now true t a1 = Some x -> x <= t.
Proof. unfold cap_now. destruct a1; intros H; inversion H; lia. Qed.

(* one received packet from a rest point: afterwards every owed packet is among the ranges the cap keeps, and if
   MAX_ACK_RANGES ranges or more are queued the pending ACK is due now *)
Lemma recv_from_rest0 dmax a s pn e t d dl ok : CAP_ACK_NOW = true -> Inv0 s -> TInv dmax a s -> Rest s ->
  wf_op_d dmax s (Recv pn e t d dl ok) ->
  let s1 := snd (step s (Recv pn e t d dl ok)) in
  Cov s1 /\ (closing s1 = false -> disc s1 = false -> owed s1 <> [] -> MAX_ACK_RANGES <= Zlen (aq s1) ->
             forall x, ack_at s1 = Some x -> x <= clk s1) /\ clk s1 = t /\
  (closing s1 = false -> disc s1 = false -> owed s <> [] -> Zlen (aq s1) <= MAX_ACK_RANGES) /\
  (closing s1 = false -> disc s1 = false -> owed s = [] -> forall o, In o (owed s1) -> lrp s < fst o /\ mem (fst o) (aq s1) /\
     forall y, mem y (aq s1) -> y <= fst o).
Proof.
  intros Hf I T R Hw. cbv zeta. cbn [step].
  destruct (recv_never_raises0 s pn e t d dl ok I (proj1 Hw)) as [s1 E]. rewrite E. cbn [snd].
  unfold recv in E. destruct (delivers (aq s) dl) as [q|] eqn:Ed; [|discriminate]. cbn in E. inversion E; subst s1; clear E.
  destruct (delivers_spec _ _ _ (i_wf _ I) Ed) as (Wq & Sub & _).
  assert (Hn : forall x, mem x (aq s) -> 0 <= x).
  { intros x Hx. destruct (i_rcvd _ I x (i_sub _ I x Hx)) as (P & _). unfold pn_ok in P. lia. }
  pose proof (delivers_len _ _ _ (i_wf _ I) Hn Ed) as Lq.
  destruct (ok && negb (closing s)) eqn:K.
  2:{ cbn. repeat split; try congruence; intros; try congruence. intros C; cbn in C; congruence. }
  assert (C : closing s = false) by (destruct (closing s); [rewrite andb_false_r in K; discriminate|auto]).
  unfold record. cbn [disc set_clk set_aq].
  destruct (disc s) eqn:D.
  { cbn. repeat split; try congruence; intros; try congruence. intros _ D2; cbn in D2; congruence. }
  cbn [aq owed ack_at clk closing disc app complete lrp set_clk set_aq].
  pose proof (add_len q pn (pn + 1)) as La.
  assert (Wa : wf (add pn (pn + 1) q)) by (apply add_wf; auto; lia).
  assert (Hmem : forall y, mem y (add pn (pn + 1) q) -> y = pn \/ mem y (aq s)).
  { intros y Hy. apply add_mem in Hy; auto; try lia. destruct Hy; [left; lia|right; auto]. }
  assert (B : MAX_ACK_RANGES <= Zlen (add pn (pn + 1) q) -> forall x a1,
              cap_now (CAP_ACK_NOW && (Zlen (add pn (pn + 1) q) >=? MAX_ACK_RANGES)) t a1 = Some x -> x <= t).
  { intros Hm x a1 Hx. rewrite Hf in Hx. destruct (Zlen (add pn (pn + 1) q) >=? MAX_ACK_RANGES) eqn:E1; [|lia].
    cbn in Hx. eapply cap_now_true; eauto. }
  assert (New : e && (pn >? lrp s) && (negb (app s) || complete s) = true -> lrp s < pn /\ mem pn (add pn (pn + 1) q) /\
                forall y, mem y (add pn (pn + 1) q) -> y <= pn).
  { intros Cond. assert (lrp s < pn) by lia. split; auto. split; [apply add_mem; auto; lia|].
    intros y Hy. destruct (Hmem y Hy) as [->|Hy2]; [lia|]. destruct (i_rcvd _ I y (i_sub _ I y Hy2)). lia. }
  split; [|split; [|split; [reflexivity|split]]].
  - (* Cov *)
    unfold Cov. cbn [aq owed closing disc]. intros _ _ L t0 Hin.
    destruct (owed s) as [|o0 os] eqn:Eo.
    + destruct (e && (pn >? lrp s) && (negb (app s) || complete s)) eqn:Cond; [|destruct Hin].
      destruct Hin as [Hin|[]]. inversion Hin; subst. destruct (New eq_refl) as (_ & M & Mx).
      apply cap_ranges_top; auto.
    + assert (Hz : Zlen (add pn (pn + 1) q) <= MAX_ACK_RANGES).
      { assert (Zlen (aq s) <= MAX_ACK_RANGES - 1) by (apply R; auto; rewrite Eo; discriminate). lia. }
      destruct (cap_ranges_spec _ Wa) as (_ & _ & _ & _ & Eq). rewrite (Eq Hz).
      pose proof (fun s' => tinv_recv0 dmax a s pn e t d dl ok s' I T (wf_d_t_nonsend _ _ _ Hw ltac:(intros; discriminate))) as T1.
      unfold recv in T1. rewrite Ed in T1. cbn [bind] in T1. rewrite K in T1. specialize (T1 _ eq_refl).
      unfold record in T1. cbn [disc set_clk set_aq] in T1. rewrite D in T1.
      destruct (t_owed _ _ _ T1 C eq_refl L t0) as (M & _); auto. cbn [owed set_clk set_aq lrp app complete]. rewrite Eo. exact Hin.
  - intros _ _ _ Hm x Hx. eapply B; eauto.
  - intros _ _ Ho. assert (Zlen (aq s) <= MAX_ACK_RANGES - 1) by (apply R; auto). lia.
  - intros _ _ Ho o Hin. rewrite Ho in Hin.
    destruct (e && (pn >? lrp s) && (negb (app s) || complete s)) eqn:Cond; [|destruct Hin].
    destruct Hin as [<-|[]]. cbn [fst]. apply New. reflexivity.
Qed.

Lemma recv_from_rest dmax a s pn e t d dl ok : CAP_ACK_NOW = true -> Inv s -> TInv dmax a s -> Rest s ->
  wf_op_d dmax s (Recv pn e t d dl ok) ->
  let s1 := snd (step s (Recv pn e t d dl ok)) in
  Cov s1 /\ (closing s1 = false -> disc s1 = false -> owed s1 <> [] -> MAX_ACK_RANGES <= Zlen (aq s1) ->
             forall x, ack_at s1 = Some x -> x <= clk s1) /\ clk s1 = t /\
  (closing s1 = false -> disc s1 = false -> owed s <> [] -> Zlen (aq s1) <= MAX_ACK_RANGES) /\
  (closing s1 = false -> disc s1 = false -> owed s = [] -> forall o, In o (owed s1) -> lrp s < fst o /\ mem (fst o) (aq s1) /\
     forall y, mem y (aq s1) -> y <= fst o).
Proof. intros Hf [I _]. apply recv_from_rest0; auto. Qed.

Record DInv (dmax : Z) (a : bool) (s : space) : Prop := mkDInv { d_inv : Inv s; d_tinv : TInv dmax a s; d_rest : Rest s }.

Lemma dinv_other dmax a s o : DInv dmax a s -> not_recv o -> wf_op_d dmax s o -> DInv dmax a (snd (step s o)).
Proof.
  intros [Iv T R] Hn Hw. destruct o; try (destruct Hn).
  - (* Complete *) constructor; [apply inv_step; [exact Iv|exact I]|apply tinv_step; [exact Iv|exact T|split; exact I]|]. exact R.
  - (* Send *)
    cbn [step]. destruct (send s t delay room blocked) as [r s'] eqn:E. cbn [snd].
    destruct Hw as (_ & Hc & _).
    destruct (tinv_send_cov _ _ _ _ _ _ _ _ _ Iv T (rest_cov _ _ _ Iv T R) Hc E) as (T' & Sub & (Ec & Edd) & Eq & Fr).
    constructor; [eapply inv_send; eauto|exact T'|].
    intros C D Ho. rewrite Ec in C. rewrite Edd in D.
    assert (Ho' : owed s <> []).
    { destruct (owed s') as [|o l] eqn:E1; [congruence|]. intros E2. specialize (Sub o (or_introl eq_refl)). rewrite E2 in Sub. destruct Sub. }
    specialize (R C D Ho'). destruct Eq as [Eq|Eq]; rewrite Eq; [exact R|].
    destruct Iv as [I0 _]. destruct (cap_ranges_spec (aq s) (i_wf _ I0)) as (_ & _ & _ & _ & Eq2). rewrite Eq2; lia.
  - (* Discard *) constructor; [apply inv_step; [exact Iv|apply Hw]|apply tinv_step; [exact Iv|exact T|split; [apply Hw|exact I]]|].
    intros _ D. cbn in D. discriminate.
  - (* Close *) constructor; [apply inv_step; [exact Iv|exact I]|apply tinv_step; [exact Iv|exact T|split; exact I]|].
    intros C. cbn in C. discriminate.
Qed.

Lemma dinv_recv_send dmax a s pn e t d dl ok u delay room blocked :
  CAP_ACK_NOW = true -> PACING_LE = true -> DInv dmax a s ->
  wf_op_d dmax s (Recv pn e t d dl ok) ->
  wf_op_d dmax (snd (step s (Recv pn e t d dl ok))) (Send u delay room blocked) ->
  ack_capacity (cap_ranges (aq (snd (step s (Recv pn e t d dl ok))))) <= room ->
  DInv dmax a (snd (step (snd (step s (Recv pn e t d dl ok))) (Send u delay room blocked))).
Proof.
  intros Hf Hp [Iv T R] Hw Hs Hr.
  destruct (recv_from_rest dmax a s pn e t d dl ok Hf Iv T R Hw) as (Cv & Due & Ck & Small & Fresh).
  set (s1 := snd (step s (Recv pn e t d dl ok))) in *.
  assert (I1 : Inv s1) by (apply inv_step; auto; apply Hw).
  assert (T1 : TInv dmax a s1) by (apply tinv_step; auto; apply wf_d_t_nonsend; auto; intros; discriminate).
  cbn [step]. destruct (send s1 u delay room blocked) as [r s2] eqn:E. cbn [snd].
  destruct Hs as (_ & Hc & Hd).
  destruct (tinv_send_cov _ _ _ _ _ _ _ _ _ I1 T1 Cv Hc E) as (T2 & Sub & (Ec & Edd) & Eq & Fr).
  constructor; [eapply inv_send; eauto|exact T2|].
  intros C D Ho. rewrite Ec in C. rewrite Edd in D.
  assert (Ho1 : owed s1 <> []).
  { destruct (owed s2) as [|o l] eqn:E1; [congruence|]. intros E2. specialize (Sub o (or_introl eq_refl)). rewrite E2 in Sub. destruct Sub. }
  pose proof I1 as [I10 Ne1].
  destruct (cap_ranges_spec (aq s1) (i_wf _ I10)) as (Wc & Mc & Lc & Nc & Eqc).
  destruct (Z_le_dec (Zlen (aq s1)) (MAX_ACK_RANGES - 1)) as [Hsmall|Hbig].
  { destruct Eq as [Eq|Eq]; rewrite Eq; [exact Hsmall|rewrite Eqc; lia]. }
  (* MAX_ACK_RANGES ranges or more: the ACK is due, the send writes it, nothing stays owed *)
  exfalso. apply Ho.
  destruct (owed s1) as [|[L t0] l] eqn:Eo; [congruence|].
  destruct (t_owed _ _ _ T1 C D L t0) as (M & (x & Ex & _) & _ & _ & Kc); [rewrite Eo; left; reflexivity|].
  assert (Hx : x <= u) by (specialize (Due C D ltac:(discriminate) ltac:(lia) x Ex); lia).
  assert (Hne : cap_ranges (aq s1) <> []).
  { apply Nc. intros E0. rewrite E0 in M. exact M. }
  assert (Hpn : forall y, mem y (cap_ranges (aq s1)) -> pn_ok y) by (intros y Hy; apply (i_rcvd _ I10), (i_sub _ I10), Mc, Hy).
  pose proof capacity_const as (K1 & K2). pose proof (Zlen_nonneg (cap_ranges (aq s1))).
  assert (Wok : exists bytes s', write_ack (set_clk s1 u) delay room = (SFrame bytes (cap_ranges (aq s1)), s')).
  { unfold write_ack. cbn [aq set_clk].
    destruct (room <? _) eqn:E1; [unfold ack_capacity, UINT_VAR_MAX_SIZE, ACK_FRAME_CAPACITY, MIN_FRAME_CAPACITY in *; lia|].
    destruct (ack_frame_bytes _ delay room Wc Hne Hpn Hd Hr) as (body & B1 & _). rewrite B1. eauto. }
  destruct Wok as (bytes & s' & Ew).
  assert (Es : send s1 u delay room blocked = (SFrame bytes (cap_ranges (aq s1)), s')).
  { unfold send. cbn [closing disc app complete ack_at set_clk]. rewrite C, D, Ex.
    destruct (app s1) eqn:A.
    - rewrite (Kc eq_refl), Hp. destruct (x <=? u) eqn:E1; [|lia]. cbn. exact Ew.
    - exact Ew. }
  assert (Er : r = SFrame bytes (cap_ranges (aq s1))) by congruence.
  eapply Fr; eauto.
Qed.

Lemma reach_d_dinv dmax a s : CAP_ACK_NOW = true -> PACING_LE = true -> reach_d dmax a s -> DInv dmax a s.
Proof.
  intros Hf Hp. induction 1.
  - constructor; [apply inv_init|apply tinv_init|]. intros _ _ H. cbn in H. congruence.
  - apply dinv_other; auto.
  - apply dinv_recv_send; auto.
Qed.

(* ---- C12 statements, part 3 -------------------------------------------------------------------------- *)

(* ack_timely_cap: with the repair, under the driver discipline, at every rest point an owed packet is still queued,
   its ACK timer is armed within the delay bound, and fewer than MAX_ACK_RANGES ranges are queued -- so the cap of
   the next ACK frame forgets nothing that is owed (the range-count premise of ack_timely_send holds) *)
Theorem ack_timely_cap_l dmax a s L t : CAP_ACK_NOW = true -> PACING_LE = true -> reach_d dmax a s ->
  closing s = false -> disc s = false -> In (L, t) (owed s) ->
  mem L (aq s) /\ (exists x, ack_at s = Some x /\ x <= t + dmax) /\ Zlen (aq s) <= MAX_ACK_RANGES - 1.
Proof.
  intros Hf Hp R C D Hin. destruct (reach_d_dinv _ _ _ Hf Hp R) as [I T Rs].
  destruct (t_owed _ _ _ T C D L t Hin) as (M & E & _). repeat split; auto.
  apply Rs; auto. intros E0. rewrite E0 in Hin. destruct Hin.
Qed.

(* ... and the send: application space, the timer value reached (no pacer premise any more: pacing is skipped when
   ack_at <= now), room for the frame: the whole queue is reported, every owed packet covered *)
Theorem ack_timely_cap_send_l dmax s L t0 x u delay room blocked : CAP_ACK_NOW = true -> PACING_LE = true ->
  reach_d dmax true s -> closing s = false -> In (L, t0) (owed s) -> ack_at s = Some x -> x <= u -> clk s <= u ->
  ack_capacity (aq s) <= room -> 0 <= delay < 2 ^ 62 ->
  exists bytes s', send s u delay room blocked = (SFrame bytes (aq s), s') /\ mem L (aq s) /\
    owed s' = [] /\ ack_at s' = None.
Proof.
  intros Hf Hp R C Hin Ea Hx Hk Hr Hd. destruct (reach_d_dinv _ _ _ Hf Hp R) as [I T Rs].
  assert (A : app s = true) by apply (t_app _ _ _ T). assert (D : disc s = false) by (apply (t_nodisc _ _ _ T); auto).
  destruct (t_owed _ _ _ T C D L t0 Hin) as (M & _ & _ & _ & K). specialize (K A).
  assert (Hc : Zlen (aq s) <= MAX_ACK_RANGES) by (assert (owed s <> []) by (intros E0; rewrite E0 in Hin; destruct Hin); specialize (Rs C D H); lia).
  apply (inv_set_clk s u) in I. apply (tinv_clk _ _ _ u) in T; auto.
  destruct (write_ack_all dmax true (set_clk s u) delay room I T C D) as (bytes & s' & E & O1 & O2 & _); auto.
  { cbn. intros E0. rewrite E0 in Hin. destruct Hin. }
  unfold send. cbn [closing disc app complete ack_at set_clk]. rewrite C, D, A, K, Ea, Hp.
  destruct (x <=? u) eqn:E2; [|lia]. cbn. cbn in E. exists bytes, s'. auto.
Qed.

(* non-vacuity of the discipline: a packet followed by a send *)
Example ex_discipline : reach_d 25 true
  (snd (step (snd (step (snd (step (init true) Complete)) (Recv 5 true 100 10 [] true))) (Send 100 0 1000 false))).
Proof.
  apply rd_recv_send; [apply rd_other; [constructor|exact I|split; exact I]| | |].
  - split; [split; [unfold pn_ok; lia|intros h []]|]. vm_compute. split; [discriminate|split; discriminate].
  - split; [exact I|]. vm_compute. split; [discriminate|split; [discriminate|reflexivity]].
  - vm_compute. discriminate.
Qed.
