(* C14: round trip -- what the sending API writes (model/H3Send.v) is parsed back by the receive path (model/H3Parse.v)
   into the events that were submitted, for every chunking of the stream. *)
From AQ Require Import lib.Base lib.Tok model.H3Parse model.H3Send proofs.H3Chunk proofs.H3Split proofs.H3Loop proofs.H3Recv
  proofs.H3Fin proofs.H3Uni proofs.H3Table proofs.H3Push.
From Coq Require Import ZifyBool.

Ltac Zify.zify_post_hook ::= Z.to_euclidean_division_equations.

(* ------------------------------------------------------------------ varints and frames: decode (encode v) = v *)
Lemma pull_encode : forall v rest, 0 <= v < 4611686018427387904 ->
  pull_uint_var (encode_uint_var v ++ rest) = Some (v, rest).
Proof.
  intros v rest Hv. unfold encode_uint_var.
  destruct (v <? 64) eqn:E1.
  { cbn [app pull_uint_var]. unfold varint_extra. rewrite E1. cbn [length Nat.ltb Nat.leb firstn skipn be fold_left].
    destruct (Nat.ltb (length rest) 0) eqn:G; [destruct rest; discriminate|]. f_equal. f_equal. lia. }
  destruct (v <? 16384) eqn:E2.
  { cbn [app pull_uint_var]. unfold varint_extra.
    replace (64 + v / 256 <? 64) with false by lia. replace (64 + v / 256 <? 128) with true by lia.
    cbn [length Nat.ltb Nat.leb firstn skipn be fold_left]. f_equal. f_equal. lia. }
  destruct (v <? 1073741824) eqn:E3.
  { cbn [app pull_uint_var]. unfold varint_extra.
    replace (128 + v / 16777216 <? 64) with false by lia. replace (128 + v / 16777216 <? 128) with false by lia.
    replace (128 + v / 16777216 <? 192) with true by lia.
    cbn [length Nat.ltb Nat.leb firstn skipn be fold_left]. f_equal. f_equal. lia. }
  cbn [app pull_uint_var]. unfold varint_extra.
  replace (192 + v / 72057594037927936 <? 64) with false by lia. replace (192 + v / 72057594037927936 <? 128) with false by lia.
  replace (192 + v / 72057594037927936 <? 192) with false by lia.
  cbn [length Nat.ltb Nat.leb firstn skipn be fold_left]. f_equal. f_equal. lia.
Qed.

Lemma frame_at_encode : forall t d rest, 0 <= t < 4611686018427387904 -> Zlen d < 4611686018427387904 ->
  frame_at (encode_frame t d ++ rest) t d rest.
Proof.
  intros t d rest Ht Hd. unfold frame_at, encode_frame. exists (encode_uint_var (Zlen d) ++ d ++ rest).
  rewrite <- !app_assoc. split; apply pull_encode; [assumption|]. pose proof (Zlen_nonneg d). lia.
Qed.

Section Round.
Variable fx : fixes.
Variable O : oracle.
Variable cl : bool.
Hypothesis Htr : fx_trunc fx = true.
Hypothesis Hem : fx_endmark fx = true.

(* one complete frame at the head of the buffer: the handler, then the rest of the buffer (same fuel: the loop is
   fuel-independent above the measure) *)
Lemma loop_one_frame : forall (f : nat) fin st bytes t d rest evs,
  s_cur st = None -> frame_at bytes t d rest -> (t =? 65) = false -> measure st bytes < Z.of_nat f ->
  rq_loop f fx O cl fin st bytes evs =
  match handle_rp_frame fx O cl t (Some d) st (s_ended st && is_nil rest) with
  | HVal e st2 => rq_loop f fx O cl fin st2 rest (evs ++ e)
  | HBlocked st2 => RVal evs (set_buf (set_btype (set_blocked st2 true) (if fx_pushblock fx then Some t else s_btype st2)) rest)
  | HErr c => RErr c
  | HExn k => RExn k
  end.
Proof.
  intros f fin st bytes t d rest evs Hc Hf Ht Hm.
  assert (Hne : is_nil bytes = false) by (destruct Hf as (b1 & P & _); destruct bytes; [discriminate|reflexivity]).
  assert (Hlen : Zlen rest + 2 <= Zlen bytes).
  { destruct Hf as (b1 & P1 & P2). apply pull_len in P1. apply pull_len in P2. rewrite Zlen_app in P2.
    pose proof (Zlen_nonneg d). lia. }
  destruct Hf as (b1 & P1 & P2).
  destruct f as [|f]; [unfold measure in Hm; pose proof (Zlen_nonneg bytes); destruct (is_none (s_cur st)); lia|].
  rewrite (rq_loop_S fx O cl). rewrite Hne. unfold hdr_of. rewrite Hc, P1, P2. cbn [is_none andb]. rewrite Ht.
  unfold body.
  pose proof (Zlen_nonneg d) as Hd0. pose proof (Zlen_nonneg rest) as Hr0.
  rewrite Zlen_app.
  replace (Z.min (Zlen d) (Zlen d + Zlen rest)) with (Zlen d) by lia.
  replace (Zlen d <? Zlen d) with false by lia. rewrite andb_false_r.
  rewrite ztake_app_le, zdrop_app_le by lia. rewrite ztake_all, zdrop_all by lia. cbn [app].
  replace (Zlen d - Zlen d =? 0) with true by lia.
  rewrite Htr. cbn [negb orb is_none]. rewrite andb_true_r.
  replace (set_cur st None) with st by (rewrite <- Hc; symmetry; apply set_cur_same).
  destruct (handle_rp_frame fx O cl t (Some d) st (s_ended st && is_nil rest)) as [e st2|st2|k|k] eqn:Hh; try reflexivity.
  apply (loop_fuel fx O cl Htr Hem).
  - apply (handle_cur fx O cl) in Hh. unfold measure in *. rewrite Hh, Hc. cbn [is_none].
    rewrite Hc in Hm. cbn [is_none] in Hm. lia.
  - apply (handle_cur fx O cl) in Hh. unfold measure in *. rewrite Hh, Hc. cbn [is_none].
    rewrite Hc in Hm. cbn [is_none] in Hm. lia.
Qed.


(* ------------------------------------------------------------------ one message: headers, body pieces, optional trailers *)
Variable sid : Z.
Variable pu : option Z.          (* push id: None on a request stream, Some p on a push stream (behind its header) *)
Variable sy : option Z.          (* stream type: None / Some 1 *)
Variable blk : Z -> list Z.      (* the header block the sender's QPACK encoder produced for header list h *)
Variable bp : option Z.          (* blocked_push_id: whatever an earlier PUSH_PROMISE left there (None on a new stream) *)

(* the receiving stream inside a delivery that carries the FIN: nothing open, receiving side ended *)
Definition rstate (hs clen : Z) (ex : option Z) : hstream := mkS sid [] None None false true hs clen ex pu sy None bp.

Definition data_ev (d : list Z) (ended : bool) : list event :=
  if ended || negb (is_nil d) then [EData sid pu d ended] else [].

Definition cl_ok (ex : option Z) (n : Z) : Prop := match ex with Some e => n = e | None => True end.

Lemma check_cl_ok : forall hs n ex, cl_ok ex n -> check_cl (rstate hs n ex) = true.
Proof. intros hs n ex H. unfold check_cl, rstate; cbn. destruct ex; [cbn in H; lia | reflexivity]. Qed.

Lemma small_len : forall (d : list Z), Zlen d < 4611686018427387904 -> 0 <= Zlen d < 4611686018427387904.
Proof. intros d H. pose proof (Zlen_nonneg d). lia. Qed.

(* a DATA frame after the headers *)
Lemma step_data : forall (f : nat) d rest n ex evs,
  Zlen d < 4611686018427387904 -> (is_nil rest = true -> cl_ok ex (n + Zlen d)) ->
  measure (rstate 1 n ex) (encode_frame 0 d ++ rest) < Z.of_nat f ->
  rq_loop f fx O cl true (rstate 1 n ex) (encode_frame 0 d ++ rest) evs =
  rq_loop f fx O cl true (rstate 1 (n + Zlen d) ex) rest (evs ++ data_ev d (is_nil rest)).
Proof.
  intros f d rest n ex evs Hd Hcl Hm.
  rewrite (loop_one_frame f true (rstate 1 n ex) _ 0 d rest evs eq_refl (frame_at_encode 0 d rest ltac:(lia) Hd) eq_refl Hm).
  unfold handle_rp_frame, set_clen, rstate.
  cbn [s_id s_buf s_cur s_session s_blocked s_ended s_hstate s_clen s_expect s_push s_stype s_btype s_bpush
       Z.eqb Pos.eqb negb andb].
  change (mkS sid [] None None false true 1 (n + Zlen d) ex pu sy None bp) with (rstate 1 (n + Zlen d) ex).
  destruct (is_nil rest) eqn:En.
  - rewrite (check_cl_ok 1 _ ex (Hcl eq_refl)). cbn [negb andb orb]. unfold data_ev. cbn [orb]. reflexivity.
  - cbn [andb orb]. unfold data_ev. cbn [orb]. destruct (negb (is_nil d)); reflexivity.
Qed.

(* the body: DATA frames one after the other *)
Lemma steps_body : forall body (f : nat) rest n ex evs,
  Forall (fun d => Zlen d < 4611686018427387904) body ->
  (is_nil rest = true -> cl_ok ex (n + Zlen (concat body))) ->
  measure (rstate 1 n ex) (concat (map (encode_frame 0) body) ++ rest) < Z.of_nat f ->
  exists e2, norm e2 = map (AByte sid pu) (concat body) ++ (if is_nil rest && negb (is_nil body) then [AEnd sid] else []) /\
  rq_loop f fx O cl true (rstate 1 n ex) (concat (map (encode_frame 0) body) ++ rest) evs =
  rq_loop f fx O cl true (rstate 1 (n + Zlen (concat body)) ex) rest (evs ++ e2).
Proof.
  induction body as [|d body IH]; intros f rest n ex evs Hall Hcl Hm.
  - exists []. cbn [concat map app norm flat_map is_nil negb andb]. rewrite andb_false_r, app_nil_r.
    replace (n + Zlen (@nil Z)) with n by (unfold Zlen; cbn; lia). split; reflexivity.
  - inversion Hall as [|x l Hd Hrest]; subst. cbn [map concat] in *. rewrite <- app_assoc in *.
    rewrite Zlen_app in Hcl.
    set (rest' := concat (map (encode_frame 0) body) ++ rest) in *.
    assert (Nil' : is_nil rest' = is_nil rest && is_nil body).
    { subst rest'. destruct body as [|d2 body]; [cbn; rewrite andb_true_r; reflexivity|].
      cbn [map concat]. unfold encode_frame at 1. unfold encode_uint_var at 1. cbn. rewrite andb_false_r. reflexivity. }
    rewrite step_data; [| assumption | | assumption].
    2:{ intros Hn. rewrite Nil' in Hn. apply andb_true_iff in Hn. destruct Hn as (Hn1 & Hn2).
        apply is_nil_true in Hn2. subst body. cbn [concat] in Hcl. replace (Zlen (@nil Z)) with 0 in Hcl by reflexivity.
        replace (n + Zlen d) with (n + (Zlen d + 0)) by lia. apply Hcl. assumption. }
    destruct (IH f rest (n + Zlen d) ex (evs ++ data_ev d (is_nil rest')) Hrest) as (e2 & Hn2 & Heq).
    { intros Hn. replace (n + Zlen d + Zlen (concat body)) with (n + (Zlen d + Zlen (concat body))) by lia. apply Hcl. assumption. }
    { unfold measure in *. cbn [rstate s_cur is_none] in *. fold rest' in Hm |- *.
      pose proof (frame_at_encode 0 d rest' ltac:(lia) Hd) as (b1 & P1 & P2).
      apply pull_len in P1. apply pull_len in P2. rewrite Zlen_app in P2. pose proof (Zlen_nonneg d). lia. }
    exists (data_ev d (is_nil rest') ++ e2). split.
    + rewrite norm_app, Hn2. unfold data_ev. rewrite Nil'. rewrite map_app.
      destruct (is_nil rest) eqn:Er; destruct body as [|d2 body]; cbn [is_nil andb negb orb];
        destruct d as [|d0 d]; cbn [is_nil negb orb norm flat_map atoms_of map app]; rewrite ?app_nil_r, <- ?app_assoc; reflexivity.
    + subst rest'. rewrite Heq. rewrite <- app_assoc. rewrite Zlen_app. replace (n + Zlen d + Zlen (concat body)) with (n + (Zlen d + Zlen (concat body))) by lia.
      reflexivity.
Qed.


(* the first HEADERS frame of the message *)
Lemma step_headers : forall (f : nat) h rest evs ecl,
  Zlen (blk h) < 4611686018427387904 ->
  o_dec O sid (blk h) = DHeaders h -> o_val O (if cl then 1 else 0) h = (true, ecl) ->
  (is_nil rest = true -> cl_ok ecl 0) ->
  measure (rstate 0 0 None) (encode_frame 1 (blk h) ++ rest) < Z.of_nat f ->
  rq_loop f fx O cl true (rstate 0 0 None) (encode_frame 1 (blk h) ++ rest) evs =
  rq_loop f fx O cl true (rstate 1 0 ecl) rest (evs ++ [EHeaders sid pu h (is_nil rest)]).
Proof.
  intros f h rest evs ecl Hb Hdec Hval Hcl Hm.
  rewrite (loop_one_frame f true (rstate 0 0 None) _ 1 (blk h) rest evs eq_refl (frame_at_encode 1 (blk h) rest ltac:(lia) Hb) eq_refl Hm).
  unfold handle_rp_frame, set_expect, set_hstate, rstate.
  cbn [s_id s_buf s_cur s_session s_blocked s_ended s_hstate s_clen s_expect s_push s_stype s_btype s_bpush
       Z.eqb Pos.eqb negb andb].
  rewrite Hdec, Hval. cbn [negb].
  change (mkS sid [] None None false true 0 0 ecl pu sy None bp) with (rstate 0 0 ecl).
  destruct (is_nil rest) eqn:En.
  - rewrite (check_cl_ok 0 0 ecl (Hcl eq_refl)). reflexivity.
  - reflexivity.
Qed.

(* the trailers: the last frame of the message *)
Lemma step_trailers : forall (f : nat) t n ex evs,
  Zlen (blk t) < 4611686018427387904 ->
  o_dec O sid (blk t) = DHeaders t -> fst (o_val O 2 t) = true -> cl_ok ex n ->
  measure (rstate 1 n ex) (encode_frame 1 (blk t)) < Z.of_nat f ->
  rq_loop f fx O cl true (rstate 1 n ex) (encode_frame 1 (blk t)) evs = RVal (evs ++ [EHeaders sid pu t true]) (rstate 2 n ex).
Proof.
  intros f t n ex evs Hb Hdec Hval Hcl Hm.
  rewrite <- (app_nil_r (encode_frame 1 (blk t))) in *.
  rewrite (loop_one_frame f true (rstate 1 n ex) _ 1 (blk t) [] evs eq_refl (frame_at_encode 1 (blk t) [] ltac:(lia) Hb) eq_refl Hm).
  unfold handle_rp_frame, set_expect, set_hstate, rstate.
  cbn [s_id s_buf s_cur s_session s_blocked s_ended s_hstate s_clen s_expect s_push s_stype s_btype s_bpush
       Z.eqb Pos.eqb negb andb is_nil].
  rewrite Hdec. destruct (o_val O 2 t) as [ok e0]. cbn [fst] in Hval. subst ok. cbn [negb].
  change (mkS sid [] None None false true 1 n ex pu sy None bp) with (rstate 1 n ex).
  rewrite (check_cl_ok 1 n ex Hcl). cbn [negb]. rewrite rq_loop_nil. reflexivity.
Qed.

(* what the sender submitted ... *)
Definition msg_bytes (h : Z) (body : list (list Z)) (tr : option Z) : list Z :=
  encode_frame 1 (blk h) ++ concat (map (encode_frame 0) body) ++
  match tr with Some t => encode_frame 1 (blk t) | None => [] end.

(* ... and what the receiver must report *)
Definition msg_atoms (h : Z) (body : list (list Z)) (tr : option Z) : list atom :=
  AHeaders sid pu h :: map (AByte sid pu) (concat body) ++
  (match tr with Some t => [AHeaders sid pu t] | None => [] end) ++ [AEnd sid].

Definition fresh_recv : hstream := mkS sid [] None None false false 0 0 None pu sy None bp.

Lemma body_frames_nil : forall body, is_nil (concat (map (encode_frame 0) body)) = is_nil body.
Proof. destruct body as [|d body]; [reflexivity|]. cbn [map concat]. unfold encode_frame, encode_uint_var. cbn. reflexivity. Qed.

Lemma frame_nil : forall t d, is_nil (encode_frame t d) = false.
Proof.
  intros t d. unfold encode_frame, encode_uint_var.
  destruct (t <? 64); [reflexivity|]. destruct (t <? 16384); [reflexivity|]. destruct (t <? 1073741824); reflexivity.
Qed.

Lemma is_nil_app : forall {A} (a b : list A), is_nil (a ++ b) = is_nil a && is_nil b.
Proof. destruct a; reflexivity. Qed.

(* the frame loop over the bytes of one message *)
Lemma loop_message : forall (F : nat) h body tr ecl evs,
  Zlen (blk h) < 4611686018427387904 -> Forall (fun d => Zlen d < 4611686018427387904) body ->
  match tr with Some t => Zlen (blk t) < 4611686018427387904 /\ o_dec O sid (blk t) = DHeaders t /\ fst (o_val O 2 t) = true
              | None => True end ->
  o_dec O sid (blk h) = DHeaders h -> o_val O (if cl then 1 else 0) h = (true, ecl) ->
  cl_ok ecl (Zlen (concat body)) ->
  2 * Zlen (msg_bytes h body tr) < Z.of_nat F ->
  exists e st, norm e = msg_atoms h body tr /\ s_blocked st = false /\ s_buf st = [] /\ s_cur st = None /\
    rq_loop F fx O cl true (rstate 0 0 None) (msg_bytes h body tr) evs = RVal (evs ++ e) st.
Proof.
  intros F h body tr ecl evs Hb Hbody Htrl Hdec Hval Hcl HFuel.
  assert (HF : forall st b, s_cur st = None -> Zlen b <= Zlen (msg_bytes h body tr) -> measure st b < Z.of_nat F).
  { intros st b Hc Hl. unfold measure. rewrite Hc. cbn [is_none]. lia. }
  unfold msg_bytes at 1.
  set (trb := match tr with Some t => encode_frame 1 (blk t) | None => [] end).
  assert (L1 : Zlen (concat (map (encode_frame 0) body) ++ trb) <= Zlen (msg_bytes h body tr)).
  { unfold msg_bytes. fold trb. rewrite !Zlen_app. pose proof (Zlen_nonneg (encode_frame 1 (blk h))). lia. }
  assert (L2 : Zlen trb <= Zlen (msg_bytes h body tr)).
  { unfold msg_bytes. fold trb. rewrite !Zlen_app. pose proof (Zlen_nonneg (encode_frame 1 (blk h))).
    pose proof (Zlen_nonneg (concat (map (encode_frame 0) body))). lia. }
  assert (NilT : is_nil trb = is_none tr) by (subst trb; destruct tr; [apply frame_nil | reflexivity]).
  rewrite (step_headers F h _ evs ecl Hb Hdec Hval).
  2:{ rewrite is_nil_app, body_frames_nil. intros Hn. apply andb_true_iff in Hn. destruct Hn as (Hn & _).
      apply is_nil_true in Hn. subst body. exact Hcl. }
  2:{ apply HF; [reflexivity|]. unfold msg_bytes. fold trb. lia. }
  destruct (steps_body body F trb 0 ecl (evs ++ [EHeaders sid pu h (is_nil (concat (map (encode_frame 0) body) ++ trb))]) Hbody)
    as (e2 & Hn2 & Heq).
  { intros _. exact Hcl. }
  { apply HF; [reflexivity | exact L1]. }
  rewrite Heq. cbn [Z.add].
  rewrite is_nil_app, body_frames_nil, NilT in *.
  destruct tr as [t|].
  - destruct Htrl as (Hbt & Hdt & Hvt). subst trb.
    rewrite (step_trailers F t _ ecl _ Hbt Hdt Hvt Hcl) by (apply HF; [reflexivity | exact L2]).
    eexists _, _. split; [|split; [|split; [|split]]]; [| | | | rewrite <- !app_assoc; reflexivity]; try reflexivity.
    rewrite !norm_app, Hn2. cbn [is_none andb norm flat_map atoms_of app]. rewrite andb_false_r.
    unfold msg_atoms. cbn [app]. rewrite ?app_nil_r, <- ?app_assoc. reflexivity.
  - subst trb. rewrite rq_loop_nil.
    eexists _, _. split; [|split; [|split; [|split]]]; [| | | | rewrite <- !app_assoc; reflexivity]; try reflexivity.
    rewrite !norm_app, Hn2. cbn [is_none andb norm flat_map atoms_of app].
    unfold msg_atoms. destruct body as [|d body]; cbn [is_nil negb andb app concat map]; rewrite ?app_nil_r; reflexivity.
Qed.

(* WHOLE DELIVERY of a message (headers, any body pieces, optional trailers, FIN): the receiver reports exactly it *)
Theorem recv_message : forall h body tr ecl,
  Zlen (blk h) < 4611686018427387904 -> Forall (fun d => Zlen d < 4611686018427387904) body ->
  match tr with Some t => Zlen (blk t) < 4611686018427387904 /\ o_dec O sid (blk t) = DHeaders t /\ fst (o_val O 2 t) = true
              | None => True end ->
  o_dec O sid (blk h) = DHeaders h -> o_val O (if cl then 1 else 0) h = (true, ecl) ->
  cl_ok ecl (Zlen (concat body)) ->
  events_of (rq_recv fx O cl fresh_recv (msg_bytes h body tr) true) = Some (msg_atoms h body tr).
Proof.
  intros h body tr ecl Hb Hbody Htrl Hdec Hval Hcl.
  rewrite (rq_recv_fin fx O cl Htr). cbv zeta.
  change (s_buf fresh_recv) with (@nil Z). change (s_cur fresh_recv) with (@None (Z * Z)).
  cbn [app is_none s_blocked s_session fresh_recv].
  assert (Nb : is_nil (msg_bytes h body tr) = false) by (unfold msg_bytes; rewrite is_nil_app, frame_nil; reflexivity).
  rewrite Nb. cbn [andb].
  replace (set_buf (set_ended (set_buf fresh_recv (msg_bytes h body tr)) true) []) with (rstate 0 0 None) by reflexivity.
  destruct (loop_message (rq_fuel (msg_bytes h body tr)) h body tr ecl [] Hb Hbody Htrl Hdec Hval Hcl)
    as (e & st & Hn & S1 & S2 & S3 & Heq).
  { unfold rq_fuel, Zlen. lia. }
  rewrite Heq. unfold finish. rewrite S1, S2, S3. cbn [negb is_nil is_none orb andb events_of app]. rewrite Hn. reflexivity.
Qed.

Lemma fresh_recv_ok : stream_ok fresh_recv.
Proof. repeat split; cbn; intros; try reflexivity; congruence. Qed.

(* ANY CHUNKING of the message bytes (FIN on the last delivery, or as a delivery of its own) *)
Theorem recv_message_chunked : forall h body tr ecl first parts,
  Zlen (blk h) < 4611686018427387904 -> Forall (fun d => Zlen d < 4611686018427387904) body ->
  match tr with Some t => Zlen (blk t) < 4611686018427387904 /\ o_dec O sid (blk t) = DHeaders t /\ fst (o_val O 2 t) = true
              | None => True end ->
  o_dec O sid (blk h) = DHeaders h -> o_val O (if cl then 1 else 0) h = (true, ecl) ->
  cl_ok ecl (Zlen (concat body)) ->
  first ++ concat parts = msg_bytes h body tr ->
  events_of (feed fx O cl fresh_recv (mk_chunks first parts true)) = Some (msg_atoms h body tr).
Proof.
  intros h body tr ecl first parts Hb Hbody Htrl Hdec Hval Hcl Hsplit.
  pose proof (recv_message h body tr ecl Hb Hbody Htrl Hdec Hval Hcl) as W.
  pose proof (chunks_whole fx O cl Htr Hem parts fresh_recv first true fresh_recv_ok) as C.
  rewrite Hsplit in C.
  destruct (rq_recv fx O cl fresh_recv (msg_bytes h body tr) true) as [e st| |]; cbn [events_of] in W; try discriminate.
  destruct (feed fx O cl fresh_recv (mk_chunks first parts true)) as [e' st'| |]; cbn [requiv] in C; try tauto.
  destruct C as (Cn & _). cbn [events_of]. rewrite Cn. exact W.
Qed.

End Round.

(* ------------------------------------------------------------------ the sending side produces exactly these bytes *)
Section Send.
Variable sid : Z.
Variable blk : Z -> list Z.          (* header block per header list *)
Variable encb : Z -> list Z.         (* encoder-stream bytes that go with it *)

(* send_headers(h) [end_stream iff nothing follows]; send_data(d_i) [end_stream on the last one unless trailers follow];
   send_headers(trailers, end_stream=True) *)
Fixpoint data_ops (body : list (list Z)) (tr : bool) : list sop :=
  match body with
  | [] => []
  | [d] => [OData sid d (negb tr)]
  | d :: rest => OData sid d false :: data_ops rest tr
  end.

Definition msg_ops (h : Z) (body : list (list Z)) (tr : option Z) : list sop :=
  OHeaders sid (encb h) (blk h) (is_nil body && is_none tr) :: data_ops body (negb (is_none tr)) ++
  match tr with Some t => [OHeaders sid (encb t) (blk t) true] | None => [] end.

Lemma sget_sset : forall c s, sget (sset c s) (ss_id s) = s.
Proof.
  intros c s. unfold sget, sset. cbn [sc_streams].
  assert (H : forall l, sfind (ss_id s) (sput s l) = Some s).
  { induction l as [|x l IH]; cbn; [rewrite Z.eqb_refl; reflexivity|].
    destruct (ss_id x =? ss_id s) eqn:E; cbn; [rewrite Z.eqb_refl; reflexivity | rewrite E; apply IH]. }
  rewrite H. reflexivity.
Qed.

Lemma sget_sset_id : forall c s i, ss_id s = i -> sget (sset c s) i = s.
Proof. intros c s i <-. apply sget_sset. Qed.

Lemma sset_enc : forall c s, sc_enc (sset c s) = sc_enc c.
Proof. reflexivity. Qed.

Definition own (ws : list write) : list Z * bool := (stream_bytes sid ws, stream_fin sid ws).

Lemma own_app : forall a b, own (a ++ b) = (fst (own a) ++ fst (own b), snd (own a) || snd (own b)).
Proof. intros a b. unfold own, stream_bytes, stream_fin. rewrite flat_map_app, existsb_app. reflexivity. Qed.

(* the DATA calls on a stream whose headers were sent and which is still open *)
Lemma data_ops_writes : forall body tr c, sc_enc c <> sid ->
  sget c sid = mkSS sid 1 false ->
  exists c', own (swrites c (data_ops body tr)) = (concat (map (encode_frame 0) body), negb (is_nil body) && negb tr) /\
             sc_enc c' = sc_enc c /\
             sget c' sid = mkSS sid 1 (negb (is_nil body) && negb tr) /\
             forall rest, swrites c (data_ops body tr ++ rest) = swrites c (data_ops body tr) ++ swrites c' rest.
Proof.
  induction body as [|d body IH]; intros tr c Hne Hs.
  - exists c. cbn. repeat split; auto.
  - destruct body as [|d2 body].
    + cbn [data_ops swrites sstep app]. unfold send_data. rewrite Hs. cbn [ss_hstate ss_ended Z.eqb Pos.eqb negb andb orb].
      rewrite andb_false_r.
      exists (sset c (mkSS sid 1 (negb tr))). split; [|split; [|split]].
      * unfold own, stream_bytes, stream_fin. cbn. rewrite Z.eqb_refl. cbn. rewrite !app_nil_r, orb_false_r. reflexivity.
      * reflexivity.
      * apply (sget_sset c (mkSS sid 1 (negb tr))).
      * intros rest. cbn [app]. rewrite ?andb_false_r. reflexivity.
    + change (data_ops (d :: d2 :: body) tr) with (OData sid d false :: data_ops (d2 :: body) tr).
      cbn [swrites sstep app]. unfold send_data at 1. rewrite Hs. cbn [ss_hstate ss_ended Z.eqb Pos.eqb negb andb orb].
      set (c1 := sset c (mkSS sid 1 false)).
      destruct (IH tr c1) as (c' & W & E & G & R); [assumption | apply (sget_sset c (mkSS sid 1 false))|].
      exists c'. split; [|split; [|split]].
      * rewrite (own_app [(sid, encode_frame 0 d, false)]), W. unfold own, stream_bytes, stream_fin. cbn [flat_map existsb fst snd].
        rewrite Z.eqb_refl. cbn [andb orb app is_nil negb map concat]. rewrite app_nil_r. reflexivity.
      * assumption.
      * cbn [is_nil negb andb] in *. assumption.
      * intros rest. cbn [swrites sstep app]. unfold send_data. rewrite !Hs.
        cbn [ss_hstate ss_ended Z.eqb Pos.eqb negb andb orb]. fold c1. rewrite R. cbn [app]. reflexivity.
Qed.

(* SEND: the calls for one message on a stream nothing was sent on yet write, on that stream, the frames of the message
   and end it *)
Theorem send_message : forall c h body tr, sc_enc c <> sid -> sget c sid = mkSS sid 0 false ->
  own (swrites c (msg_ops h body tr)) = (msg_bytes blk h body tr, true).
Proof.
  intros c h body tr Hne Hs. unfold msg_ops.
  cbn [swrites sstep]. unfold send_headers at 1. rewrite Hs. cbn [ss_hstate ss_ended Z.eqb Pos.eqb negb andb orb].
  rewrite andb_false_r.
  set (fin0 := is_nil body && is_none tr).
  set (c1 := sset c (mkSS sid 1 (false || fin0))).
  rewrite (own_app [(sc_enc c, encb h, false); (sid, encode_frame 1 (blk h), fin0)]).
  assert (Own1 : own [(sc_enc c, encb h, false); (sid, encode_frame 1 (blk h), fin0)] = (encode_frame 1 (blk h), fin0)).
  { unfold own, stream_bytes, stream_fin. cbn [flat_map existsb]. rewrite Z.eqb_refl.
    replace (sc_enc c =? sid) with false by lia. cbn [andb orb app]. rewrite app_nil_r, orb_false_r. reflexivity. }
  rewrite Own1. cbn [fst snd]. unfold msg_bytes.
  destruct (is_nil body) eqn:Nb.
  - (* no body *)
    apply is_nil_true in Nb. subst body.
    cbn [data_ops app map concat is_nil andb] in *. destruct tr as [t|]; cbn [is_none andb negb] in *.
    + cbn [swrites sstep]. unfold send_headers. subst c1 fin0. cbn [orb]. rewrite (sget_sset_id c (mkSS sid 1 false) sid eq_refl).
      cbn [ss_hstate ss_ended Z.eqb Pos.eqb negb andb orb]. cbn [app].
      unfold own, stream_bytes, stream_fin. cbn [flat_map existsb fst snd]. rewrite Z.eqb_refl.
      replace (sc_enc (sset c (mkSS sid 1 false)) =? sid) with false by (rewrite sset_enc; lia).
      cbn [andb orb app]. rewrite ?app_nil_r, ?orb_true_r. reflexivity.
    + cbn [swrites]. subst fin0. unfold own at 1 2. cbn. rewrite app_nil_r. reflexivity.
  - subst fin0. rewrite ?Nb in *. cbn [andb orb] in *.
    destruct (data_ops_writes body (negb (is_none tr)) c1) as (c' & W & E & G & R);
      [subst c1; rewrite sset_enc; assumption | subst c1; apply (sget_sset c (mkSS sid 1 false)) |].
    rewrite R, own_app, W. cbn [fst snd]. rewrite Nb. cbn [negb andb].
    destruct tr as [t|]; cbn [is_none negb andb] in *.
    + cbn [swrites sstep]. unfold send_headers. rewrite G. cbn [ss_hstate ss_ended Z.eqb Pos.eqb negb andb orb].
      rewrite ?andb_false_r. cbn [negb andb orb].
      cbn [app]. unfold own at 1 2. unfold stream_bytes, stream_fin. cbn [flat_map existsb fst snd]. rewrite Z.eqb_refl.
      replace (sc_enc c' =? sid) with false by (rewrite E; subst c1; rewrite sset_enc; lia).
      cbn [andb orb app]. rewrite ?app_nil_r, ?orb_true_r. reflexivity.
    + cbn [swrites]. unfold own at 1 2. cbn. rewrite ?app_nil_r, ?orb_false_r, ?andb_true_r. reflexivity.
Qed.

End Send.

(* ROUND TRIP of one message: the calls of the sending API (send_headers, send_data for every piece of the body, optional
   trailers; end_stream on the last call) on a stream nothing was sent on yet, any chunking of what they wrote on that
   stream, the receive path of the peer: the events reported are what was submitted. *)
Theorem roundtrip_message : forall (fx : fixes) (O : oracle) (cl : bool), fx_trunc fx = true -> fx_endmark fx = true ->
  forall (sid : Z) (pu sy : option Z) (blk encb : Z -> list Z) (c : sconn) (h : Z) (body : list (list Z))
         (tr ecl : option Z) (first : list Z) (parts : list (list Z)),
  sc_enc c <> sid -> sget c sid = mkSS sid 0 false ->
  Zlen (blk h) < 4611686018427387904 -> Forall (fun d => Zlen d < 4611686018427387904) body ->
  match tr with Some t => Zlen (blk t) < 4611686018427387904 /\ o_dec O sid (blk t) = DHeaders t /\ fst (o_val O 2 t) = true
              | None => True end ->
  o_dec O sid (blk h) = DHeaders h -> o_val O (if cl then 1 else 0) h = (true, ecl) ->
  cl_ok ecl (Zlen (concat body)) ->
  first ++ concat parts = stream_bytes sid (swrites c (msg_ops sid blk encb h body tr)) ->
  stream_fin sid (swrites c (msg_ops sid blk encb h body tr)) = true /\
  events_of (feed fx O cl (fresh_recv sid pu sy None) (mk_chunks first parts true)) = Some (msg_atoms sid pu h body tr).
Proof.
  intros fx O cl Htr Hem sid pu sy blk encb c h body tr ecl first parts Hne Hs Hb Hbody Htrl Hdec Hval Hcl Hsplit.
  pose proof (send_message sid blk encb c h body tr Hne Hs) as S. unfold own in S.
  pose proof (f_equal fst S) as S1. pose proof (f_equal snd S) as S2. cbn [fst snd] in S1, S2.
  split; [exact S2|].
  rewrite S1 in Hsplit.
  eapply recv_message_chunked; eauto.
Qed.

Lemma send_message_split : forall (sid : Z) (blk encb : Z -> list Z) (c : sconn) (h : Z) (body : list (list Z)) (tr : option Z),
  sc_enc c <> sid -> sget c sid = mkSS sid 0 false ->
  stream_bytes sid (swrites c (msg_ops sid blk encb h body tr)) = msg_bytes blk h body tr /\
  stream_fin sid (swrites c (msg_ops sid blk encb h body tr)) = true.
Proof.
  intros sid blk encb c h body tr H1 H2. pose proof (send_message sid blk encb c h body tr H1 H2) as S. unfold own in S.
  split; [exact (f_equal fst S) | exact (f_equal snd S)].
Qed.

(* ------------------------------------------------------------------ the push leg *)
(* client side, request stream: a PUSH_PROMISE frame (push id + header block of the promised request) in front of the
   response: the promise is reported with its push id and header list, then the response as above *)
Theorem recv_promise_message : forall (fx : fixes) (O : oracle), fx_trunc fx = true -> fx_endmark fx = true ->
  forall (sid : Z) (sy : option Z) (blk : Z -> list Z) (pid hp h : Z) (body : list (list Z)) (tr ecl : option Z),
  0 <= pid < 4611686018427387904 -> Zlen (encode_uint_var pid ++ blk hp) < 4611686018427387904 ->
  o_dec O sid (blk hp) = DHeaders hp -> fst (o_val O 3 hp) = true ->
  Zlen (blk h) < 4611686018427387904 -> Forall (fun d => Zlen d < 4611686018427387904) body ->
  match tr with Some t => Zlen (blk t) < 4611686018427387904 /\ o_dec O sid (blk t) = DHeaders t /\ fst (o_val O 2 t) = true
              | None => True end ->
  o_dec O sid (blk h) = DHeaders h -> o_val O 1 h = (true, ecl) ->
  cl_ok ecl (Zlen (concat body)) ->
  events_of (rq_recv fx O true (fresh_recv sid None sy None)
               (encode_frame 5 (encode_uint_var pid ++ blk hp) ++ msg_bytes blk h body tr) true)
  = Some (APush sid pid hp :: msg_atoms sid None h body tr).
Proof.
  intros fx O Htr Hem sid sy blk pid hp h body tr ecl Hpid Hpl Hdp Hvp Hb Hbody Htrl Hdec Hval Hcl.
  set (pf := encode_frame 5 (encode_uint_var pid ++ blk hp)).
  set (bytes := pf ++ msg_bytes blk h body tr).
  rewrite (rq_recv_fin fx O true Htr). cbv zeta.
  change (s_buf (fresh_recv sid None sy None)) with (@nil Z). change (s_cur (fresh_recv sid None sy None)) with (@None (Z * Z)).
  cbn [app is_none s_blocked s_session fresh_recv].
  assert (Nm : is_nil (msg_bytes blk h body tr) = false) by (unfold msg_bytes; rewrite is_nil_app, frame_nil; reflexivity).
  assert (Nb : is_nil bytes = false) by (subst bytes pf; rewrite is_nil_app, frame_nil; reflexivity).
  rewrite Nb. cbn [andb].
  replace (set_buf (set_ended (set_buf (fresh_recv sid None sy None) bytes) true) []) with (rstate sid None sy None 0 0 None)
    by reflexivity.
  set (F := rq_fuel bytes).
  assert (LB : Zlen (msg_bytes blk h body tr) <= Zlen bytes) by (subst bytes; rewrite Zlen_app; pose proof (Zlen_nonneg pf); lia).
  rewrite (loop_one_frame fx O true Htr Hem F true (rstate sid None sy None 0 0 None) bytes 5 (encode_uint_var pid ++ blk hp)
             (msg_bytes blk h body tr) [] eq_refl (frame_at_encode 5 _ _ ltac:(lia) Hpl) eq_refl).
  2:{ unfold measure, F, rq_fuel. cbn [rstate s_cur is_none]. unfold Zlen. lia. }
  unfold handle_rp_frame, rstate.
  cbn [s_id s_buf s_cur s_session s_blocked s_ended s_hstate s_clen s_expect s_push s_stype s_btype s_bpush
       Z.eqb Pos.eqb negb andb is_none].
  rewrite (pull_encode pid (blk hp) Hpid).
  set (bp' := if fx_pushblock fx then Some pid else None).
  assert (St : (if fx_pushblock fx then set_bpush (mkS sid [] None None false true 0 0 None None sy None None) (Some pid)
                else mkS sid [] None None false true 0 0 None None sy None None) = rstate sid None sy bp' 0 0 None)
    by (subst bp'; destruct (fx_pushblock fx); reflexivity).
  rewrite St. replace (s_id (rstate sid None sy bp' 0 0 None)) with sid by reflexivity.
  rewrite Hdp.
  destruct (o_val O 3 hp) as [okp e0]. cbn [fst] in Hvp. subst okp. cbn [negb fst].
  rewrite Nm. unfold endmark. rewrite andb_false_r.
  destruct (loop_message fx O true Htr Hem sid None sy blk bp' F h body tr ecl ([] ++ [EPush sid pid hp]) Hb Hbody Htrl Hdec Hval Hcl)
    as (e & st & Hn & S1 & S2 & S3 & Heq).
  { unfold F, rq_fuel, Zlen in *. lia. }
  rewrite Heq. unfold finish. rewrite S1, S2, S3. cbn [negb is_nil is_none orb andb events_of app].
  change (norm (EPush sid pid hp :: e)) with (APush sid pid hp :: norm e). rewrite Hn. reflexivity.
Qed.

(* server side: send_push_promise, then the response on the same request stream *)
Theorem send_promise_message : forall (sid : Z) (blk encb : Z -> list Z) (c : sconn) (m hp h : Z) (body : list (list Z)) (tr : option Z),
  sc_client c = false -> sid mod 4 = 0 -> sc_max_push c = Some m -> sc_next_push c < m ->
  sc_enc c <> sid -> sc_next_uni c <> sid -> sget c sid = mkSS sid 0 false ->
  let ws := swrites c (OPush sid (encb hp) (blk hp) :: msg_ops sid blk encb h body tr) in
  stream_bytes sid ws = encode_frame 5 (encode_uint_var (sc_next_push c) ++ blk hp) ++ msg_bytes blk h body tr /\
  stream_fin sid ws = true /\
  (* the push stream is announced: stream type 1, then the push id *)
  exists rest, ws = [(sc_enc c, encb hp, false);
                     (sid, encode_frame 5 (encode_uint_var (sc_next_push c) ++ blk hp), false);
                     (sc_next_uni c, encode_uint_var 1, false);
                     (sc_next_uni c, encode_uint_var (sc_next_push c), false)] ++ rest.
Proof.
  intros sid blk encb c m hp h body tr Hcl Hmod Hmax Hnext Henc Huni Hs. cbv zeta.
  cbn [swrites sstep]. unfold send_push_promise. rewrite Hcl, Hmax.
  replace (negb (sid mod 4 =? 0)) with false by lia. replace (sc_next_push c >=? m) with false by lia.
  set (c' := mkSC false (sc_streams c) (sc_next_push c + 1) (Some m) (sc_next_uni c + 4) (sc_enc c)).
  assert (Hs' : sget c' sid = mkSS sid 0 false) by exact Hs.
  assert (Henc' : sc_enc c' <> sid) by exact Henc.
  pose proof (send_message sid blk encb c' h body tr Henc' Hs') as S. unfold own in S.
  pose proof (f_equal fst S) as S1. pose proof (f_equal snd S) as S2. cbn [fst snd] in S1, S2.
  split; [|split].
  - assert (SB : forall a b, stream_bytes sid (a ++ b) = stream_bytes sid a ++ stream_bytes sid b)
      by (intros; unfold stream_bytes; apply flat_map_app).
    rewrite SB, S1. unfold stream_bytes. cbn [flat_map]. rewrite Z.eqb_refl.
    replace (sc_enc c =? sid) with false by lia. replace (sc_next_uni c =? sid) with false by lia.
    cbn [app]. rewrite app_nil_r. reflexivity.
  - assert (SF : forall a b, stream_fin sid (a ++ b) = stream_fin sid a || stream_fin sid b)
      by (intros; unfold stream_fin; apply existsb_app).
    rewrite SF, S2. apply orb_true_r.
  - eexists. reflexivity.
Qed.

(* the push stream: stream type 1, the push id, then a message; the events carry the push id *)
Theorem recv_push_stream : forall (fx : fixes) (O : oracle), fx_trunc fx = true -> fx_endmark fx = true ->
  forall (c : conn) (psid : Z) (blk : Z -> list Z) (pid h : Z) (body : list (list Z)) (tr ecl : option Z),
  0 <= pid < 4611686018427387904 ->
  Zlen (blk h) < 4611686018427387904 -> Forall (fun d => Zlen d < 4611686018427387904) body ->
  match tr with Some t => Zlen (blk t) < 4611686018427387904 /\ o_dec O psid (blk t) = DHeaders t /\ fst (o_val O 2 t) = true
              | None => True end ->
  o_dec O psid (blk h) = DHeaders h -> o_val O (if c_client c then 1 else 0) h = (true, ecl) ->
  cl_ok ecl (Zlen (concat body)) ->
  exists e st',
    uni_full fx O (new_stream psid) c (encode_uint_var 1 ++ encode_uint_var pid ++ msg_bytes blk h body tr) true = UF e st' c [] /\
    norm e = msg_atoms psid (Some pid) h body tr.
Proof.
  intros fx O Htr Hem c psid blk pid h body tr ecl Hpid Hb Hbody Htrl Hdec Hval Hcl.
  pose proof (recv_message fx O (c_client c) Htr Hem psid (Some pid) (Some 1) blk None h body tr ecl Hb Hbody Htrl Hdec Hval Hcl) as W.
  rewrite uni_full_spec. unfold uni_spec. cbv zeta.
  set (msg := msg_bytes blk h body tr) in *.
  cbn [new_stream s_buf s_stype app stream_loops orb].
  assert (P1 : pull_uint_var (encode_uint_var 1 ++ encode_uint_var pid ++ msg) = Some (1, encode_uint_var pid ++ msg))
    by (apply pull_encode; lia).
  assert (Nn : is_nil (encode_uint_var 1 ++ encode_uint_var pid ++ msg) = false) by reflexivity.
  rewrite Nn. cbn [negb].
  unfold typed_of, ustart. cbn [new_stream s_buf s_stype s_ended s_id set_buf set_ended app orb]. rewrite P1.
  cbn [Z.eqb Pos.eqb].
  unfold tspec. cbn [Z.eqb Pos.eqb]. unfold push_parse.
  cbn [new_stream set_buf set_ended set_stype s_push s_id s_buf s_cur s_session s_blocked s_ended s_hstate s_clen s_expect s_stype
       s_btype s_bpush].
  rewrite (pull_encode pid msg Hpid).
  rewrite rq_recv_norm by (left; reflexivity).
  cbn [set_push set_buf set_ended s_push s_id s_buf s_cur s_session s_blocked s_ended s_hstate s_clen s_expect s_stype s_btype s_bpush].
  rewrite app_nil_r.
  match goal with |- context [rq_recv fx O (c_client c) ?s msg true] =>
    change s with (fresh_recv psid (Some pid) (Some 1) None) end.
  destruct (rq_recv fx O (c_client c) (fresh_recv psid (Some pid) (Some 1) None) msg true) as [e st'| |];
    cbn [events_of] in W; try discriminate.
  cbn [of_rres]. exists e, st'. split; [reflexivity|]. inversion W. reflexivity.
Qed.

(* whole delivery -> any chunking (chunking_independent) *)
Lemma whole_to_chunked : forall (fx : fixes) (O : oracle) (cl : bool), fx_trunc fx = true -> fx_endmark fx = true ->
  forall st bytes a first parts, stream_ok st ->
  events_of (rq_recv fx O cl st bytes true) = Some a -> first ++ concat parts = bytes ->
  events_of (feed fx O cl st (mk_chunks first parts true)) = Some a.
Proof.
  intros fx O cl Htr Hem st bytes a first parts Hok W Hsplit.
  pose proof (chunks_whole fx O cl Htr Hem parts st first true Hok) as C. rewrite Hsplit in C.
  destruct (rq_recv fx O cl st bytes true) as [e s1| |]; cbn [events_of] in W; try discriminate.
  destruct (feed fx O cl st (mk_chunks first parts true)) as [e' s1'| |]; cbn [requiv] in C; try tauto.
  destruct C as (Cn & _). cbn [events_of]. rewrite Cn. exact W.
Qed.

(* ROUND TRIP with a push promise: server calls send_push_promise(sid, promised request) and then sends the response; the
   client, for every chunking of the request stream, reports the promise (push id, header list) and the response *)
Theorem roundtrip_promise : forall (fx : fixes) (O : oracle), fx_trunc fx = true -> fx_endmark fx = true ->
  forall (sid : Z) (sy : option Z) (blk encb : Z -> list Z) (c : sconn) (m hp h : Z) (body : list (list Z)) (tr ecl : option Z)
         (first : list Z) (parts : list (list Z)),
  sc_client c = false -> sid mod 4 = 0 -> sc_max_push c = Some m -> 0 <= sc_next_push c < m ->
  sc_next_push c < 4611686018427387904 ->
  sc_enc c <> sid -> sc_next_uni c <> sid -> sget c sid = mkSS sid 0 false ->
  Zlen (encode_uint_var (sc_next_push c) ++ blk hp) < 4611686018427387904 ->
  o_dec O sid (blk hp) = DHeaders hp -> fst (o_val O 3 hp) = true ->
  Zlen (blk h) < 4611686018427387904 -> Forall (fun d => Zlen d < 4611686018427387904) body ->
  match tr with Some t => Zlen (blk t) < 4611686018427387904 /\ o_dec O sid (blk t) = DHeaders t /\ fst (o_val O 2 t) = true
              | None => True end ->
  o_dec O sid (blk h) = DHeaders h -> o_val O 1 h = (true, ecl) ->
  cl_ok ecl (Zlen (concat body)) ->
  first ++ concat parts = stream_bytes sid (swrites c (OPush sid (encb hp) (blk hp) :: msg_ops sid blk encb h body tr)) ->
  events_of (feed fx O true (fresh_recv sid None sy None) (mk_chunks first parts true))
  = Some (APush sid (sc_next_push c) hp :: msg_atoms sid None h body tr).
Proof.
  intros fx O Htr Hem sid sy blk encb c m hp h body tr ecl first parts Hcl Hmod Hmax Hnext Hsmall Henc Huni Hs Hpl Hdp Hvp
         Hb Hbody Htrl Hdec Hval Hclen Hsplit.
  destruct (send_promise_message sid blk encb c m hp h body tr Hcl Hmod Hmax ltac:(lia) Henc Huni Hs) as (S1 & _ & _).
  cbv zeta in S1. rewrite S1 in Hsplit.
  eapply whole_to_chunked; eauto; [apply fresh_recv_ok|].
  apply (recv_promise_message fx O Htr Hem sid sy blk (sc_next_push c) hp h body tr ecl); auto. lia.
Qed.
