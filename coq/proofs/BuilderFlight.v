(* C08 flight_budget, builder side: the flight analogue of C13's total_le_budget.

   For every configuration with max_flight_bytes = mf (any max_total_bytes, max_datagram_size, CID / token lengths)
   and every op history of model/Builder.v that respects the caller discipline of connection.py, the sent_bytes of ALL
   packets the builder marks in flight (returned by flush() or still queued) sum up to at most max(0, mf).

   Discipline (op_disciplined of Builder.v, plus the three flight clauses [op_fl]):
   * a frame of a non-in-flight type (ACK, ACK_ECN, CONNECTION_CLOSE) is only started in a packet that is not in
     flight yet: ACK / CLOSE frames come first in a packet (_write_handshake, _write_application);
   * bytes pushed into a packet that is in flight fit remaining_flight_space (stream / crypto / datagram frames are
     sized with remaining_flight_space; fixed-size frames declare their exact size to start_frame);
   * a packet that carries no in-flight frame when it is ended is empty or has at least
     PACKET_NUMBER_MAX_SIZE - PACKET_NUMBER_SEND_SIZE payload bytes (a real ACK / CONNECTION_CLOSE frame is longer
     than one byte); otherwise _end_packet adds the header-protection sample padding and marks the packet in flight
     without any flight check (Example ack_one_byte_overshoots). *)
From Coq Require Import ZArith List Bool Lia ZifyBool.
From AQ Require Import lib.Base lib.Tok gen.C13Consts model.Builder proofs.BuilderProofs.
Import ListNotations.
Open Scope Z_scope.

(* sent_bytes of a packet if it is in flight *)
Definition fl_bytes (p : spkt) : Z := let '(_, sent, inf, _, _, _) := p in if inf then sent else 0.
Definition fl_sum (l : list spkt) : Z := fold_right (fun p a => fl_bytes p + a) 0 l.

Lemma fl_sum_app a b : fl_sum (a ++ b) = fl_sum a + fl_sum b.
Proof. induction a; simpl; lia. Qed.

(* like Builder.step / Builder.run, but collecting the packets returned by flush() *)
Definition step_pk (c : cfg) (s : st) (o : op) : outcome * st * list spkt :=
  match o with
  | OpFlush => let '(r, s', _, p) := flush c s in (r, s', p)
  | _ => let '(r, s', _) := step c s o in (r, s', [])
  end.

Fixpoint run_pk (c : cfg) (s : st) (ops : list op) : st * list spkt :=
  match ops with
  | [] => (s, [])
  | o :: t => let '(_, s', p) := step_pk c s o in let '(s'', p') := run_pk c s' t in (s'', p ++ p')
  end.

Lemma step_pk_state c s o : snd (fst (step_pk c s o)) = snd (fst (step c s o)).
Proof.
  destruct o; simpl.
  - destruct (start_packet c s t); reflexivity.
  - destruct (start_frame c s ft cap); reflexivity.
  - destruct (push c s n); reflexivity.
  - destruct (flush c s) as [[[? ?] ?] ?]; reflexivity.
Qed.

Lemma run_pk_state c ops : forall s, fst (run_pk c s ops) = fst (run c s ops).
Proof.
  induction ops as [|o t IH]; intros s; simpl; auto.
  pose proof (step_pk_state c s o) as E.
  destruct (step_pk c s o) as [[r1 s1] p1]. destruct (step c s o) as [[r2 s2] d2]. simpl in E. subst s2.
  specialize (IH s1). destruct (run_pk c s1 t), (run c s1 t). simpl in *. auto.
Qed.

(* the flight clauses of the discipline *)
Definition op_fl (s : st) (o : op) : bool :=
  match o with
  | OpStartFrame ft _ =>
      match b_cur s with
      | Some p => if zmem ft NON_IN_FLIGHT then negb (p_inflight p) else true
      | None => true
      end
  | OpPush n =>
      match b_cur s with
      | Some p => if p_inflight p then n <=? remaining_flight_space s else true
      | None => true
      end
  | OpStartPacket _ | OpFlush =>
      match b_cur s with
      | Some p => p_inflight p || (cur_payload s <=? 0) || (MIN_PAYLOAD <=? cur_payload s)
      | None => true
      end
  end.

Fixpoint fl_disciplined (c : cfg) (s : st) (ops : list op) : bool :=
  match ops with
  | [] => true
  | o :: t => op_disciplined s o && op_fl s o && (let '(_, s', _) := step c s o in fl_disciplined c s' t)
  end.

Lemma fl_disciplined_disciplined c ops : forall s, fl_disciplined c s ops = true -> disciplined c s ops = true.
Proof.
  induction ops as [|o t IH]; intros s H; simpl in *; auto.
  destruct (step c s o) as [[r s'] d].
  apply andb_true_iff in H. destruct H as [H1 H2]. apply andb_true_iff in H1. destruct H1 as [H1 _].
  rewrite H1. simpl. auto.
Qed.

Section Flight.
Variable c : cfg.
Variable mf : Z.
Hypothesis Hmf : c_max_flight c = Some mf.
Hypothesis Hwf : wf_cfg c.
Hypothesis Hfit : crypto_fits c.

(* end of the bytes of the completed packets of the datagram under construction *)
Definition base (s : st) : Z := match b_cur s with Some p => p_start p | None => b_tell s end.

(* P = in-flight bytes of the packets already handed out by flush() *)
Definition FInv (P : Z) (s : st) : Prop :=
  0 <= b_tell s /\
  b_fcap s <= b_bcap s /\
  b_bcap s <= c_mds c /\
  (b_dginit s = true -> b_tell s = 0 /\ b_cur s = None) /\
  (b_cur s = None -> b_tell s = 0 \/ b_tell s <= b_bcap s) /\
  (forall p, b_cur s = Some p ->
     0 <= p_start p /\ 0 <= p_hdr p /\ p_start p + p_hdr p < b_bcap s /\
     (b_tell s <= p_start p + p_hdr p \/ b_tell s + AEAD_TAG_SIZE <= b_bcap s) /\
     p_start p + p_hdr p <= b_tell s /\
     (p_start p + p_hdr p < b_tell s -> p_start p + p_hdr p + MIN_PAYLOAD + AEAD_TAG_SIZE <= b_bcap s) /\
     (p_inflight p = true ->
        b_tell s + AEAD_TAG_SIZE <= b_fcap s /\ p_start p + p_hdr p + MIN_PAYLOAD + AEAD_TAG_SIZE <= b_fcap s)) /\
  0 <= b_flight s /\
  (b_flight s = 0 \/ b_flight s <= mf) /\
  (b_dginit s = false ->
     b_fcap s <= mf - b_flight s /\ 0 <= b_dgflight s /\ b_dgflight s <= base s /\
     (b_dgflight s = 0 \/ b_dgflight s <= b_fcap s)) /\
  P + fl_sum (b_pkts s) <= b_flight s + (if b_dginit s then 0 else b_dgflight s).

(* _flush_current_datagram on a state given by explicit facts (it is also called with a packet still recorded) *)
Lemma flush_current_fl s o s' :
  0 <= b_tell s -> b_fcap s <= b_bcap s -> b_bcap s <= c_mds c -> b_dginit s = false -> b_tell s <= b_bcap s ->
  0 <= b_flight s -> (b_flight s = 0 \/ b_flight s <= mf) -> b_fcap s <= mf - b_flight s ->
  0 <= b_dgflight s -> b_dgflight s <= b_tell s -> (b_dgflight s = 0 \/ b_dgflight s <= b_fcap s) ->
  flush_current c s = (o, s') ->
  o = ODone /\
  ((s' = s /\ b_tell s = 0) \/
   (b_tell s' = 0 /\ b_dginit s' = true /\ b_cur s' = b_cur s /\ b_bcap s' = b_bcap s /\ b_fcap s' = b_fcap s /\
    b_pkts s' = b_pkts s /\ 0 <= b_flight s' /\ (b_flight s' = 0 \/ b_flight s' <= mf) /\
    b_flight s + b_dgflight s <= b_flight s')).
Proof.
  unfold flush_current. intros H0 H1 H2 DI H3 H4 H5 H6 H7 H8 H9 E.
  destruct (b_tell s =? 0) eqn:T0; [inversion E; subst; split; auto; left; split; auto; lia|].
  cbv zeta in E.
  destruct (b_dgpad s); [destruct (b_fcap s - b_tell s >? 0) eqn:X|simpl in E];
  match type of E with context[if ?b then _ else _] => destruct b eqn:G end;
  try (exfalso; lia);
  inversion E; subst; clear E; simpl; (split; [reflexivity|]); right; repeat split; try lia.
Qed.

Ltac fsolve Hnone :=
  repeat split; try lia; auto; try discriminate; try (apply Hnone);
  try (match goal with H : Some _ = Some _ |- _ => inversion H; subst; clear H end; simpl in *; auto; lia);
  try (let q := fresh "q" in let Hq := fresh "Hq" in
       intros q Hq; inversion Hq; subst; simpl in *; repeat split; auto; try lia; intros; try discriminate; lia).

Lemma flush_current_finv P s o s' :
  FInv P s -> b_cur s = None -> flush_current c s = (o, s') -> FInv P s' /\ b_cur s' = None /\ o = ODone /\ b_pkts s' = b_pkts s.
Proof.
  intros HI Hc E. pose proof HI as HI0.
  destruct HI as (H0&H1&H2&H3&H4&H5&H6&H7&H8&H9).
  destruct (b_dginit s) eqn:DI.
  { destruct (H3 eq_refl) as [T0 _]. unfold flush_current in E. rewrite T0 in E. simpl in E. inversion E; subst.
    split; [exact HI0|repeat split; auto]. }
  destruct (H8 eq_refl) as (F1&F2&F3&F4). unfold base in F3. rewrite Hc in F3.
  specialize (H4 Hc).
  assert (Hnone : forall (Q : pkt -> Prop) q, @None pkt = Some q -> Q q) by (intros; discriminate).
  destruct (Z.eq_dec (b_tell s) 0) as [T0|T0].
  { unfold flush_current in E. rewrite T0 in E. simpl in E. inversion E; subst.
    split; [exact HI0|repeat split; auto]. }
  pose proof E as E'.
  apply flush_current_fl in E'; auto; try lia.
  destruct E' as [EO [[ES T] | (G1&G2&G3&G4&G5&G6&G7&G8&G9)]]; [lia|].
  rewrite Hc in G3. split; [|repeat split; auto].
  unfold FInv, base. rewrite G1, G2, G3, G4, G5, G6.
  repeat split; try lia; auto; try discriminate; try (apply Hnone).
Qed.

Lemma end_packet_finv P s p o s' :
  FInv P s -> b_cur s = Some p ->
  (p_inflight p || (cur_payload s <=? 0) || (MIN_PAYLOAD <=? cur_payload s)) = true ->
  end_packet c s p = (o, s') -> FInv P s' /\ o = ODone /\ b_cur s' = None.
Proof.
  intros HI Hc HD E.
  destruct HI as (H0&H1&H2&H3&H4&H5&H6&H7&H8&H9).
  destruct (H5 p Hc) as (P0&P1&P2&P3&P4&P5&P6).
  destruct (b_dginit s) eqn:DI; [destruct (H3 eq_refl); congruence|].
  destruct (H8 eq_refl) as (F1&F2&F3&F4). unfold base in F3. rewrite Hc in F3.
  unfold cur_payload in HD. rewrite Hc in HD.
  assert (Hnone : forall (Q : pkt -> Prop) q, @None pkt = Some q -> Q q) by (intros; discriminate).
  unfold end_packet in E.
  destruct (b_tell s - p_start p >? p_hdr p) eqn:SZ.
  2:{ inversion E; subst; clear E. split; [|split; reflexivity].
      unfold FInv, set_cur, set_tell, base; simpl. rewrite DI. fsolve Hnone. }
  cbv zeta in E.
  (* stage A: the padding amount *)
  match type of E with context[let '(_, _) := ?X in _] => destruct X as [padding pad2] eqn:PP end.
  assert (PB : padding <= 0 \/ (0 < padding /\ b_tell s + padding + AEAD_TAG_SIZE <= b_bcap s)).
  { assert (P5' := P5). unfold MIN_PAYLOAD in P5'.
    unfold remaining_flight_space in *.
    destruct (_ && (p_type p =? PT_ONE_RTT)) in PP.
    - destruct (_ >? _) eqn:RF in PP; apply pair_equal_spec in PP; destruct PP as [<- <-]; lia.
    - apply pair_equal_spec in PP; destruct PP as [<- <-]. lia. }
  (* the padded packet, if it is in flight, ends inside the flight capacity *)
  assert (PF : (0 < padding \/ p_inflight p = true) ->
               b_tell s + Z.max padding 0 + AEAD_TAG_SIZE <= b_fcap s).
  { unfold MIN_PAYLOAD, PACKET_NUMBER_MAX_SIZE, PACKET_NUMBER_SEND_SIZE in *. unfold remaining_flight_space in *.
    destruct (p_inflight p) eqn:PI.
    - destruct (P6 eq_refl) as [Q1 Q2]. intros _.
      destruct (_ && (p_type p =? PT_ONE_RTT)) in PP.
      + destruct (_ >? _) eqn:RF in PP; apply pair_equal_spec in PP; destruct PP as [<- <-]; lia.
      + apply pair_equal_spec in PP; destruct PP as [<- <-]. lia.
    - simpl in HD. intros [Q|Q]; [|discriminate].
      destruct (_ && (p_type p =? PT_ONE_RTT)) in PP.
      + destruct (_ >? _) eqn:RF in PP; apply pair_equal_spec in PP; destruct PP as [<- <-]; lia.
      + apply pair_equal_spec in PP; destruct PP as [<- <-]. lia. }
  assert (PB2 : (p_type p =? PT_ONE_RTT) = true -> pad2 = false).
  { intros T1. rewrite T1 in PP. rewrite andb_true_r in PP.
    destruct (b_dgpad s || _) in PP; apply pair_equal_spec in PP; destruct PP as [_ <-]; reflexivity. }
  assert (TB : b_tell s + AEAD_TAG_SIZE <= b_bcap s) by lia.
  clear PP.
  (* stage B: padding push cannot overflow the Buffer *)
  destruct ((padding >? 0) && (b_tell s + padding >? c_mds c)) eqn:PE.
  { exfalso. unfold AEAD_TAG_SIZE in *. lia. }
  (* stage C: size after padding *)
  match type of E with context[let '(_, _) := ?X in _] => destruct X as [psz infl] eqn:PS end.
  assert (PZ : psz = b_tell s - p_start p + Z.max padding 0 /\
               (infl = true -> 0 < padding \/ p_inflight p = true)).
  { destruct (padding >? 0) eqn:G in PS; apply pair_equal_spec in PS; destruct PS as [<- <-]; split; try lia; auto. }
  destruct PZ as [PZ PI]. clear PS.
  (* stage C': encrypt_packet cannot raise CryptoError, the packet fits the datagram *)
  destruct (match c_cmax c with Some m => psz + AEAD_TAG_SIZE >? m | None => false end) eqn:CE.
  { exfalso. unfold crypto_fits in Hfit. destruct (c_cmax c); [|discriminate]. unfold AEAD_TAG_SIZE in *. lia. }
  destruct (p_start p + (psz + AEAD_TAG_SIZE) >? c_mds c) eqn:EE.
  { exfalso. unfold AEAD_TAG_SIZE in *. lia. }
  (* stage E: completion *)
  assert (FE : infl = true -> p_start p + (psz + AEAD_TAG_SIZE) <= b_fcap s).
  { intros Q. specialize (PF (PI Q)). lia. }
  unfold AEAD_TAG_SIZE in *.
  destruct (p_type p =? PT_ONE_RTT) eqn:T1.
  - match type of E with context[flush_current c ?s2] => destruct (flush_current c s2) as [o3 s3] eqn:F end.
    apply flush_current_fl in F; simpl; auto; try (destruct infl; lia).
    destruct F as [EO [[ES T] | (G1&G2&G3&G4&G5&G6&G7&G8&G9)]]; subst o3; [simpl in T; lia|].
    simpl in *. inversion E; subst; clear E. split; [|split; reflexivity].
    unfold FInv, base; simpl. rewrite G1, G2, G4, G5, G6. rewrite fl_sum_app. simpl.
    destruct infl; fsolve Hnone.
  - inversion E; subst; clear E. split; [|split; reflexivity].
    unfold FInv, base; simpl. rewrite DI. rewrite fl_sum_app. simpl.
    destruct infl; [specialize (FE eq_refl)|]; fsolve Hnone.
Qed.

Lemma end_current_finv P s o s' :
  FInv P s -> op_fl s OpFlush = true -> end_current c s = (o, s') -> FInv P s' /\ o = ODone /\ b_cur s' = None.
Proof.
  unfold end_current, op_fl. intros HI HD E. destruct (b_cur s) as [p|] eqn:Hc.
  - eapply end_packet_finv; eauto.
  - inversion E; subst. auto.
Qed.

Lemma datagram_init_finv P s :
  FInv P s -> b_cur s = None ->
  FInv P (datagram_init c s) /\ b_cur (datagram_init c s) = None /\
  b_dginit (datagram_init c s) = false /\ b_tell (datagram_init c s) = b_tell s.
Proof.
  unfold datagram_init. intros HI Hc. destruct (b_dginit s) eqn:DI; [|auto].
  destruct HI as (H0&H1&H2&H3&H4&H5&H6&H7&H8&H9). destruct (H3 DI) as [T0 _].
  rewrite Hmf. simpl. repeat split; auto; unfold FInv, base; simpl; rewrite ?Hc, ?T0.
  all: repeat split; try lia; auto; try discriminate;
    try (destruct (c_max_total c); destr; lia); try (destr; lia); try (intros; simpl in *; congruence).
Qed.

Lemma start_packet_tail_fl P s2 t o s' :
  FInv P s2 -> b_cur s2 = None ->
  (let packet_start := b_tell s2 in
   let s3 := datagram_init c s2 in
   let h := header_size c t in
   if packet_start + h >=? b_bcap s3 then (OStop, s3) else
   (ODone,
    mkSt (packet_start + h) (b_bcap s3) (b_fcap s3) (b_dgflight s3) (b_dginit s3) (b_dgpad s3) (b_flight s3)
         (b_total s3) (Some (mkPkt t packet_start h false false false (b_pn s3))) true (b_pn s3)
         (b_dgrams s3) (b_pkts s3) (g_hasinit s3) (g_log s3))) = (o, s') -> FInv P s'.
Proof.
  intros I2 C2 E. cbv zeta in E.
  destruct (datagram_init_finv P s2 I2 C2) as (I3 & C3 & D3 & T3).
  destruct (b_tell s2 + header_size c t >=? b_bcap (datagram_init c s2)) eqn:G; inversion E; subst; clear E; auto.
  destruct I3 as (H0&H1&H2&H3&H4&H5&H6&H7&H8&H9).
  pose proof (header_size_nonneg c t Hwf).
  destruct (H8 D3) as (F1&F2&F3&F4). unfold base in F3. rewrite C3 in F3.
  unfold FInv, base; simpl. rewrite D3 in *. rewrite T3 in *.
  repeat split; try lia; auto; try discriminate.
  all: match goal with H : Some _ = Some _ |- _ => inversion H; subst; clear H end; simpl in *; try lia; try discriminate.
Qed.

Lemma start_packet_finv P s t o s' :
  FInv P s -> op_fl s (OpStartPacket t) = true -> start_packet c s t = (o, s') -> FInv P s'.
Proof.
  unfold start_packet. intros HI HD E.
  destruct (negb (valid_ptype t)); [inversion E; subst; auto|].
  destruct (end_current c s) as [o1 s1] eqn:E1.
  destruct (end_current_finv P _ _ _ HI HD E1) as (I1 & O1 & C1). subst o1.
  destruct (b_bcap s1 - b_tell s1 <? DATAGRAM_MIN_SPACE).
  - destruct (flush_current c s1) as [o2 s2] eqn:F. destruct (flush_current_finv P _ _ _ I1 C1 F) as (I2 & C2 & O2 & _).
    subst o2. eapply start_packet_tail_fl; eauto.
  - eapply start_packet_tail_fl; eauto.
Qed.

Lemma nif_subset_nae ft : zmem ft NON_IN_FLIGHT = true -> zmem ft NON_ACK_ELICITING = true.
Proof. unfold zmem, NON_IN_FLIGHT, NON_ACK_ELICITING. simpl. lia. Qed.

Lemma start_frame_finv P s ft cap o s' :
  FInv P s -> op_disciplined s (OpStartFrame ft cap) = true -> op_fl s (OpStartFrame ft cap) = true ->
  start_frame c s ft cap = (o, s') -> FInv P s'.
Proof.
  unfold start_frame, op_disciplined, op_fl, remaining_buffer_space, remaining_flight_space. intros HI HD HF E.
  destruct (b_cur s) as [p|] eqn:Hc; [|discriminate].
  destruct (size_uint_var _) as [sz|] eqn:SZ; [|discriminate].
  assert (1 <= sz) by (unfold size_uint_var in SZ; revert SZ; destr; intros SZ; inversion SZ; lia).
  cbv zeta in E.
  destruct (negb (b_hascrypto s)); [inversion E; subst; auto|].
  destruct (_ || _) eqn:ST in E; [inversion E; subst; auto|].
  destruct (b_tell s + sz >? c_mds c); inversion E; subst; clear E; auto.
  destruct HI as (H0&H1&H2&H3&H4&H5&H6&H7&H8&H9). destruct (H5 p Hc) as (P0&P1&P2&P3&P4&P5&P6).
  pose proof reserve_covers_sample as RS. fold MIN_PAYLOAD in RS.
  apply orb_false_iff in ST. destruct ST as [ST1 ST2].
  (* the buffer space check, with the capacity raised to the reserve when the packet is empty *)
  assert (SP : b_tell s + sz + AEAD_TAG_SIZE <= b_bcap s /\
               (b_tell s <= p_start p + p_hdr p -> b_tell s + MIN_PAYLOAD + AEAD_TAG_SIZE <= b_bcap s)).
  { destruct (b_tell s - p_start p <=? p_hdr p) eqn:EM.
    - destruct (cap <? START_FRAME_EMPTY_RESERVE) eqn:CR; lia.
    - lia. }
  (* the flight space check of an in-flight frame type *)
  assert (SF : zmem ft NON_IN_FLIGHT = false ->
               b_tell s + sz + AEAD_TAG_SIZE <= b_fcap s /\
               (b_tell s <= p_start p + p_hdr p -> b_tell s + MIN_PAYLOAD + AEAD_TAG_SIZE <= b_fcap s)).
  { intros NF. rewrite NF in ST2. simpl in ST2.
    destruct (b_tell s - p_start p <=? p_hdr p) eqn:EM.
    - destruct (cap <? START_FRAME_EMPTY_RESERVE) eqn:CR; lia.
    - lia. }
  destruct SP as [SP1 SP2].
  destruct (b_dginit s) eqn:DI; [destruct (H3 eq_refl); congruence|].
  unfold FInv, set_cur, set_tell, base; simpl. rewrite DI. unfold base in H8. rewrite Hc in H8.
  unfold MIN_PAYLOAD, PACKET_NUMBER_MAX_SIZE, PACKET_NUMBER_SEND_SIZE, START_FRAME_EMPTY_RESERVE, AEAD_TAG_SIZE in *.
  repeat split; try lia; auto; try discriminate.
  all: try (match goal with H : Some _ = Some _ |- _ => inversion H; subst; clear H end);
       cbn [Builder.p_start Builder.p_hdr Builder.p_inflight Builder.p_type] in *; intros; try lia.
  all: destruct (zmem ft NON_IN_FLIGHT) eqn:NF; destruct (Builder.p_inflight p) eqn:PI; simpl in *; try discriminate; try lia.
  all: try (destruct (P6 eq_refl); lia); try (destruct (SF eq_refl); lia).
Qed.

Lemma push_finv P s n o s' :
  FInv P s -> op_disciplined s (OpPush n) = true -> op_fl s (OpPush n) = true -> push c s n = (o, s') -> FInv P s'.
Proof.
  unfold push, op_disciplined, op_fl, cur_nonempty, remaining_buffer_space, remaining_flight_space. intros HI HD HF E.
  destruct (b_cur s) as [p|] eqn:Hc; [|discriminate].
  destruct (n <? 0); [inversion E; subst; auto|].
  destruct (b_tell s + n >? c_mds c); inversion E; subst; clear E; auto.
  destruct HI as (H0&H1&H2&H3&H4&H5&H6&H7&H8&H9). destruct (H5 p Hc) as (P0&P1&P2&P3&P4&P5&P6).
  destruct (b_dginit s) eqn:DI; [destruct (H3 eq_refl); congruence|].
  unfold FInv, set_tell, base; simpl. rewrite Hc, DI. unfold base in H8. rewrite Hc in H8.
  repeat split; try lia; auto; try discriminate.
  all: match goal with H : Some _ = Some _ |- _ => inversion H; subst; clear H end; simpl in *; try lia.
  all: match goal with H : p_inflight _ = true |- _ => rewrite H in *; destruct (P6 eq_refl); lia end.
Qed.

Lemma flush_finv P s o s' dg pk :
  FInv P s -> op_fl s OpFlush = true -> flush c s = (o, s', dg, pk) -> FInv (P + fl_sum pk) s'.
Proof.
  unfold flush. intros HI HD E.
  destruct (end_current c s) as [o1 s1] eqn:E1.
  destruct (end_current_finv P _ _ _ HI HD E1) as (I1 & O1 & C1). subst o1.
  destruct (flush_current c s1) as [o2 s2] eqn:F. destruct (flush_current_finv P _ _ _ I1 C1 F) as (I2 & C2 & O2 & PK).
  subst o2. inversion E; subst; clear E.
  destruct I2 as (H0&H1&H2&H3&H4&H5&H6&H7&H8&H9).
  unfold FInv, base in *; simpl in *. rewrite C2 in *. repeat split; auto; try lia.
  all: try (match goal with DI : b_dginit _ = true |- _ => destruct (H3 DI); auto end).
  all: try (intros; discriminate).
  all: try (match goal with DI : b_dginit _ = false |- _ => destruct (H8 DI) as (?&?&?&?); auto end).
Qed.

Lemma step_finv P s o r s' pk :
  FInv P s -> op_disciplined s o = true -> op_fl s o = true -> step_pk c s o = (r, s', pk) -> FInv (P + fl_sum pk) s'.
Proof.
  intros HI HD HF E. destruct o; simpl in E.
  - destruct (start_packet c s t) eqn:F. inversion E; subst. simpl. rewrite Z.add_0_r. eapply start_packet_finv; eauto.
  - destruct (start_frame c s ft cap) eqn:F. inversion E; subst. simpl. rewrite Z.add_0_r. eapply start_frame_finv; eauto.
  - destruct (push c s n) eqn:F. inversion E; subst. simpl. rewrite Z.add_0_r. eapply push_finv; eauto.
  - destruct (flush c s) as [[[r0 s0] d0] p0] eqn:F. inversion E; subst. eapply flush_finv; eauto.
Qed.

Lemma run_finv ops : forall P s,
  FInv P s -> fl_disciplined c s ops = true ->
  FInv (P + fl_sum (snd (run_pk c s ops))) (fst (run_pk c s ops)).
Proof.
  induction ops as [|o t IH]; intros P s HI HD; simpl; [rewrite Z.add_0_r; auto|].
  simpl in HD. apply andb_true_iff in HD. destruct HD as [HD1 HD2]. apply andb_true_iff in HD1. destruct HD1 as [HD0 HD1].
  pose proof (step_pk_state c s o) as ES.
  destruct (step_pk c s o) as [[r s'] pk] eqn:E. destruct (step c s o) as [[r2 s2] d2]. simpl in ES. subst s2.
  pose proof (step_finv _ _ _ _ _ _ HI HD0 HD1 E) as I'.
  specialize (IH _ s' I' HD2). destruct (run_pk c s' t); simpl in *. rewrite fl_sum_app. rewrite Z.add_assoc. auto.
Qed.

Lemma init_finv pn : FInv 0 (init_st c pn).
Proof.
  unfold FInv, init_st; simpl. repeat split; try lia; auto; try discriminate.
Qed.
End Flight.

(* flight_le_budget.  All packets marked in flight -- returned by flush() or still queued in the builder -- sum up
   to at most max(0, max_flight_bytes). *)
Theorem flight_le_budget_all :
  forall (c : cfg) (mf pn : Z) (ops : list op),
    c_max_flight c = Some mf -> wf_cfg c -> crypto_fits c ->
    fl_disciplined c (init_st c pn) ops = true ->
    fl_sum (snd (run_pk c (init_st c pn) ops)) + fl_sum (b_pkts (fst (run_pk c (init_st c pn) ops))) <= Z.max 0 mf.
Proof.
  intros c mf pn ops Hmf Hwf Hfit HD.
  pose proof (run_finv c mf Hmf Hwf Hfit ops 0 (init_st c pn) (init_finv c mf pn) HD) as HI.
  destruct HI as (H0&H1&H2&H3&H4&H5&H6&H7&H8&H9). simpl in H9.
  destruct (b_dginit (fst (run_pk c (init_st c pn) ops))) eqn:DI; [lia|].
  destruct (H8 eq_refl) as (F1&F2&F3&F4). lia.
Qed.

(* The builder's own flight account _flight_bytes additionally contains the datagram-level padding of Initial-carrying
   datagrams (bytes on the wire that belong to no packet and that the recovery never sees): it obeys the same bound, and
   it dominates the in-flight bytes of the packets of the flushed datagrams. *)
Theorem flight_wire_le_budget :
  forall (c : cfg) (mf pn : Z) (ops : list op),
    c_max_flight c = Some mf -> wf_cfg c -> crypto_fits c ->
    fl_disciplined c (init_st c pn) ops = true ->
    let s := fst (run c (init_st c pn) ops) in
    0 <= b_flight s <= Z.max 0 mf /\
    (b_dginit s = true ->
     fl_sum (snd (run_pk c (init_st c pn) ops)) + fl_sum (b_pkts s) <= b_flight s).
Proof.
  intros c mf pn ops Hmf Hwf Hfit HD. cbv zeta.
  pose proof (run_finv c mf Hmf Hwf Hfit ops 0 (init_st c pn) (init_finv c mf pn) HD) as HI.
  rewrite run_pk_state in HI.
  destruct HI as (H0&H1&H2&H3&H4&H5&H6&H7&H8&H9). simpl in H9.
  split; [lia|]. intros DI. rewrite DI in H9. rewrite <- run_pk_state. rewrite <- run_pk_state in H9. lia.
Qed.

(* ---------- why each flight clause of the discipline is there ---------- *)
Definition fl_cfg (mf : Z) : cfg := mkCfg false 1200 8 8 0 (Some mf) None (Some 1500).

(* an ACK "frame" of one byte: the sample padding puts the packet in flight with no flight check *)
Example ack_one_byte_overshoots :
  let ops := [OpStartPacket PT_ONE_RTT; OpStartFrame FT_ACK 1; OpFlush] in
  disciplined (fl_cfg 0) (init_st (fl_cfg 0) 0) ops = true /\
  fl_disciplined (fl_cfg 0) (init_st (fl_cfg 0) 0) ops = false /\
  snd (run_pk (fl_cfg 0) (init_st (fl_cfg 0) 0) ops) = [(PT_ONE_RTT, 29, true, false, false, 0)].
Proof. repeat split; vm_compute; reflexivity. Qed.

(* an ACK frame after an in-flight frame is not checked against the flight space *)
Example ack_after_ping_overshoots :
  let ops := [OpStartPacket PT_ONE_RTT; OpStartFrame FT_PING 1; OpStartFrame FT_ACK 1; OpPush 500; OpFlush] in
  disciplined (fl_cfg 100) (init_st (fl_cfg 100) 0) ops = true /\
  fl_disciplined (fl_cfg 100) (init_st (fl_cfg 100) 0) ops = false /\
  snd (run_pk (fl_cfg 100) (init_st (fl_cfg 100) 0) ops) = [(PT_ONE_RTT, 529, true, true, false, 0)].
Proof. repeat split; vm_compute; reflexivity. Qed.

(* the hypotheses are satisfiable by a non-trivial history: a client flight Initial(ACK, CRYPTO) + Handshake(CRYPTO)
   + 1-RTT(STREAM) under a budget of 1000 bytes, padded to exactly the flight capacity; a second datagram is refused *)
Example flight_hyps_satisfiable :
  let c := mkCfg true 1200 8 8 0 (Some 1000) None (Some 1500) in
  let ops := [OpStartPacket PT_INITIAL; OpStartFrame FT_ACK 5; OpPush 4; OpStartFrame FT_CRYPTO 4; OpPush 300;
              OpStartPacket PT_HANDSHAKE; OpStartFrame FT_CRYPTO 4; OpPush 200;
              OpStartPacket PT_ONE_RTT; OpStartFrame 8 4; OpPush 50;
              OpStartPacket PT_ONE_RTT; OpStartFrame FT_PING 1; OpFlush] in
  wf_cfg c /\ crypto_fits c /\ fl_disciplined c (init_st c 0) ops = true /\
  fl_sum (snd (run_pk c (init_st c 0) ops)) = 1000.
Proof.
  cbv zeta. split; [unfold wf_cfg; cbn; lia|]. split; [unfold crypto_fits; cbn; lia|]. split; vm_compute; reflexivity.
Qed.
