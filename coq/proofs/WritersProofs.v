(* Caller discipline of connection.py, part 3: the packet loops (_write_application, _write_handshake, the close round)
   and the builder part of datagrams_to_send; theorem writers_dk and its corollaries (C13 / C08 statements for the
   op histories the writer model generates, without a discipline hypothesis). *)
From Coq Require Import ZArith List Bool Lia ZifyBool.
From AQ Require Import lib.Base lib.Tok gen.C13Consts gen.C13Writers model.Builder proofs.BuilderProofs proofs.BuilderFlight
  model.StreamSend proofs.StreamSendP model.Writers proofs.WritersBase proofs.WritersFrames.
Import ListNotations.
Open Scope Z_scope.

(* ---------- field ranges of the decision inputs --------------------------------------------------------------- *)
Definition sdec_ok (d : sdec) : Prop :=
  match d with
  | SDStop sid code => vok sid /\ vok code
  | SDReset sid code fin => vok sid /\ vok code /\ vok fin
  | SDStream sid snd _ => vok sid /\ sender_ok snd
  end.

Definition opt_ok {A} (P : A -> Prop) (o : option A) : Prop := match o with Some a => P a | None => True end.

Definition app_iter_ok (d : app_iter) : Prop :=
  opt_ok ack_ok (ai_ack d) /\
  Forall (fun x => vok (fst x) /\ 0 <= snd x <= CONNECTION_ID_MAX_SIZE) (ai_new_cids d) /\
  Forall vok (ai_retire d) /\
  Forall (fun x => blocked_ft (fst x) /\ vok (snd x)) (ai_blocked d) /\
  Forall (fun x => limit_ft (fst x) /\ vok (snd x)) (ai_conn_limits d) /\
  Forall (fun x => vok (fst x) /\ vok (snd x)) (ai_stream_limits d) /\
  opt_ok sender_ok (ai_crypto d) /\
  Forall vok (ai_datagrams d) /\
  Forall sdec_ok (ai_streams d).

Definition hs_iter_ok (d : hs_iter) : Prop := opt_ok ack_ok (hi_ack d) /\ opt_ok sender_ok (hi_crypto d).

Definition dts_ok (d : dts_in) : Prop :=
  opt_ok (fun ci => close_ok (ci_code ci) (ci_ft ci) (ci_rlen ci) (ci_loss ci)) (di_close d) /\
  opt_ok (Forall hs_iter_ok) (di_initial d) /\
  opt_ok (Forall hs_iter_ok) (di_handshake d) /\
  opt_ok (fun x => Forall app_iter_ok (snd x)) (di_app d).

(* ---------- frames of one packet --------------------------------------------------------------------------------- *)
Lemma RF_opt k c {A} (w : st -> A -> wres) (P : A -> Prop) o s :
  OI c s -> opt_ok P o -> (forall a, P a -> RF k c s (w s a)) -> RF k c s (w_opt w s o).
Proof. intros Hs Ho Hw. destruct o as [a|]; [apply Hw; exact Ho|apply RF_skip; exact Hs]. Qed.

Lemma w_datagrams_RF k c lens : Forall vok lens -> forall s, OI c s -> RF k c s (w_datagrams c s lens).
Proof.
  induction 1 as [|n t Hn Ht IH]; intros s Hs; cbn [w_datagrams]; [apply RF_skip; exact Hs|].
  pose proof (w_datagram_RF k c s n Hs Hn) as D.
  destruct (w_datagram c s n) as [[o s1] tr]. destruct D as (D1 & D2 & D3 & D4).
  destruct D1 as [->| ->].
  - specialize (IH s1 D2). destruct (w_datagrams c s1 t) as [[o2 s2] tr2]. destruct IH as (I1 & I2 & I3 & I4).
    unfold RF. split; [exact I1|]. split; [exact I2|]. rewrite dk_app, run_app, D3, D4. auto.
  - unfold RF. split; [left; reflexivity|]. auto.
Qed.

Lemma w_sdec_RF k c s d : OI c s -> sdec_ok d -> RF k c s (w_sdec c s d).
Proof.
  intros H D. destruct d as [sid code|sid code fin|sid snd mo]; cbn [w_sdec sdec_ok] in *.
  - destruct D; apply w_stop_RF; auto.
  - destruct D as (?&?&?); apply w_reset_RF; auto.
  - destruct D; apply w_stream_RF; auto.
Qed.

(* the part of an application packet after the ACK *)
Definition w_app_tail (c : cfg) (s : st) (d : app_iter) : wres :=
  wseq (w_if (ai_challenge d) (w_path_challenge c) s) (fun s =>
  wseq (w_if (ai_hs_done d) (w_handshake_done c) s) (fun s =>
  wseq (w_list (fun s _ => w_path_response c s) s (ai_responses d)) (fun s =>
  wseq (w_list (fun s x => w_new_connection_id c s (fst x) (snd x)) s (ai_new_cids d)) (fun s =>
  wseq (w_list (w_retire_connection_id c) s (ai_retire d)) (fun s =>
  wseq (w_list (fun s x => w_streams_blocked c s (fst x) (snd x)) s (ai_blocked d)) (fun s =>
  wseq (w_list (fun s x => w_conn_limit c s (fst x) (snd x)) s (ai_conn_limits d)) (fun s =>
  wseq (w_list (fun s x => w_stream_limit c s (fst x) (snd x)) s (ai_stream_limits d)) (fun s =>
  wseq (w_if (ai_ping_user d) (w_ping c) s) (fun s =>
  wseq (w_if (ai_ping_probe d) (w_ping c) s) (fun s =>
  wseq (w_opt (w_crypto c) s (ai_crypto d)) (fun s =>
  wseq (w_datagrams c s (ai_datagrams d)) (fun s =>
  w_list (w_sdec c) s (ai_streams d))))))))))))).

Lemma w_app_iter_eq c s d :
  w_app_iter c s d = wseq (w_opt (w_ack_in c) s (ai_ack d)) (fun s => w_app_tail c s d).
Proof. reflexivity. Qed.

Lemma w_app_tail_RF k c d : app_iter_ok d -> forall s, OI c s -> RF k c s (w_app_tail c s d).
Proof.
  intros (_ & K2 & K3 & K4 & K5 & K6 & K7 & K8 & K9) s Hs. unfold w_app_tail.
  apply RF_seq; [apply RF_if; [exact Hs|intros _; apply w_path_challenge_RF; exact Hs]|clear s Hs; intros s Hs].
  apply RF_seq; [apply RF_if; [exact Hs|intros _; apply w_handshake_done_RF; exact Hs]|clear s Hs; intros s Hs].
  apply RF_seq; [apply (RF_list k c _ (ai_responses d) (fun _ => True)); [intros; apply w_path_response_RF; assumption| |exact Hs]|
                 clear s Hs; intros s Hs].
  { apply Forall_forall. intros; exact I. }
  apply RF_seq; [apply (RF_list k c _ _ _ (fun s a Ho Ha => w_new_cid_RF k c s (fst a) (snd a) Ho (proj1 Ha) (proj2 Ha)) K2 s Hs)|
                 clear s Hs; intros s Hs].
  apply RF_seq; [apply (RF_list k c _ _ _ (fun s a Ho Ha => w_retire_RF k c s a Ho Ha) K3 s Hs)|clear s Hs; intros s Hs].
  apply RF_seq; [apply (RF_list k c _ _ _ (fun s a Ho Ha => w_streams_blocked_RF k c s (fst a) (snd a) Ho (proj1 Ha) (proj2 Ha)) K4 s Hs)|
                 clear s Hs; intros s Hs].
  apply RF_seq; [apply (RF_list k c _ _ _ (fun s a Ho Ha => w_conn_limit_RF k c s (fst a) (snd a) Ho (proj1 Ha) (proj2 Ha)) K5 s Hs)|
                 clear s Hs; intros s Hs].
  apply RF_seq; [apply (RF_list k c _ _ _ (fun s a Ho Ha => w_stream_limit_RF k c s (fst a) (snd a) Ho (proj1 Ha) (proj2 Ha)) K6 s Hs)|
                 clear s Hs; intros s Hs].
  apply RF_seq; [apply RF_if; [exact Hs|intros _; apply w_ping_RF; exact Hs]|clear s Hs; intros s Hs].
  apply RF_seq; [apply RF_if; [exact Hs|intros _; apply w_ping_RF; exact Hs]|clear s Hs; intros s Hs].
  apply RF_seq; [apply (RF_opt k c _ sender_ok _ s Hs K7); intros a Ha; apply w_crypto_RF; assumption|clear s Hs; intros s Hs].
  apply RF_seq; [apply w_datagrams_RF; assumption|clear s Hs; intros s Hs].
  apply (RF_list k c _ _ _ (fun s a Ho Ha => w_sdec_RF k c s a Ho Ha) K9 s Hs).
Qed.

(* wseq over a skip is the continuation *)
Lemma wseq_skip s f : wseq (wskip s) f = f s.
Proof. unfold wseq, wskip. destruct (f s) as [[o s2] tr]. reflexivity. Qed.

Lemma w_app_iter_RF k c s d :
  OI c s -> app_iter_ok d -> (k = false -> cur_inflight s = false) -> RF k c s (w_app_iter c s d).
Proof.
  intros Hs Hd Hk. rewrite w_app_iter_eq. pose proof Hd as (K1 & _).
  apply RF_seq.
  - destruct (ai_ack d) as [a|]; cbn [w_opt]; [apply w_ack_RF; assumption|apply RF_skip; exact Hs].
  - intros s2 H2. apply w_app_tail_RF; assumption.
Qed.

Lemma w_hs_iter_RF k c s d : OI c s -> hs_iter_ok d -> (k = false -> cur_inflight s = false) -> RF k c s (w_hs_iter c s d).
Proof.
  intros Hs (K1 & K2) Hk. unfold w_hs_iter.
  apply RF_seq.
  - destruct (hi_ack d) as [a|]; cbn [w_opt]; [apply w_ack_RF; assumption|apply RF_skip; exact Hs].
  - intros s1 H1. apply RF_seq; [apply (RF_opt k c _ sender_ok _ s1 H1 K2); intros a Ha; apply w_crypto_RF; assumption|].
    intros s2 H2. apply RF_if; [exact H2|intros _; apply w_ping_RF; exact H2].
Qed.

(* ---------- packet level --------------------------------------------------------------------------------------- *)
(* RP: result of a part of datagrams_to_send that starts and ends between packets; exceptions other than
   QuicPacketBuilderStop may escape from start_packet (they end the trace) *)
Definition RP (k : bool) (c : cfg) (s : st) (r : wres) : Prop :=
  let '(o, s', tr) := r in
  dk k c s tr = true /\ fst (run c s tr) = s' /\ ((o = ODone \/ o = OStop) -> GI c s').

Lemma RF_RP k c s r : RF k c s r -> RP k c s r.
Proof. destruct r as [[o s'] tr]. intros (H1 & H2 & H3 & H4). unfold RP. split; [exact H3|split; [exact H4|intros _; apply OI_GI; exact H2]]. Qed.

Lemma RP_skip k c s : GI c s -> RP k c s (wskip s).
Proof. intros H. unfold RP, wskip. split; [reflexivity|split; [reflexivity|intros _; exact H]]. Qed.

Lemma RP_seq k c s r f : RP k c s r -> (forall s1, GI c s1 -> RP k c s1 (f s1)) -> RP k c s (wseq r f).
Proof.
  destruct r as [[o s1] tr]. intros (H1 & H2 & H3) Hf. unfold wseq.
  destruct o; try (unfold RP; split; [exact H1|split; [exact H2|exact H3]]).
  specialize (Hf s1 (H3 (or_introl eq_refl))). destruct (f s1) as [[o2 s2] tr2]. destruct Hf as (G1 & G2 & G3).
  unfold RP. rewrite dk_app, run_app, H1, H2. split; [exact G1|split; [exact G2|exact G3]].
Qed.

Lemma RF_RP_seq k c s r f : RF k c s r -> (forall s1, OI c s1 -> RP k c s1 (f s1)) -> RP k c s (wseq r f).
Proof.
  destruct r as [[o s1] tr]. intros (H1 & H2 & H3 & H4) Hf. unfold wseq.
  destruct H1 as [->| ->]; [|unfold RP; split; [exact H3|split; [exact H4|intros _; apply OI_GI; exact H2]]].
  specialize (Hf s1 H2). destruct (f s1) as [[o2 s2] tr2]. destruct Hf as (G1 & G2 & G3).
  unfold RP. rewrite dk_app, run_app, H3, H4. split; [exact G1|split; [exact G2|exact G3]].
Qed.

Lemma RP_catch k c s r : RP k c s r -> RP k c s (wcatch r).
Proof.
  destruct r as [[o s1] tr]. intros (H1 & H2 & H3). unfold wcatch.
  destruct o; unfold RP; (split; [exact H1|split; [exact H2|]]); try exact H3. intros _. apply H3. right; reflexivity.
Qed.

(* start_packet, then the frames of the packet (which may rely on the packet being fresh), then the rest *)
Lemma start_packet_then k c s pt (f : st -> wres) :
  GI c s ->
  (forall s1, OI c s1 -> cur_inflight s1 = false -> RP k c s1 (f s1)) ->
  RP k c s (wseq (do_start_packet c s pt) f).
Proof.
  intros Hs Hf. unfold do_start_packet. destruct (start_packet c s pt) as [o s1] eqn:SP.
  destruct (start_packet_spec c s pt o s1 Hs SP) as (A1 & A2).
  assert (Hop : opk k s (OpStartPacket pt) = true).
  { unfold opk. cbn [op_disciplined op_fl andb]. destruct k; [reflexivity|]. cbn [orb]. apply pk_ok_end. apply Hs. }
  unfold wseq.
  destruct o.
  - destruct (A1 eq_refl) as (B1 & B2 & _). specialize (Hf s1 B1 B2).
    destruct (f s1) as [[o2 s2] tr2]. destruct Hf as (G1 & G2 & G3).
    unfold RP. cbn [app dk run step]. rewrite SP, Hop, G1.
    destruct (run c s1 tr2) as [sx dx]. cbn [fst] in *. split; [reflexivity|split; [exact G2|exact G3]].
  - unfold RP. cbn [dk run step]. rewrite SP, Hop. cbn [fst]. split; [reflexivity|split; [reflexivity|intros _; apply A2; reflexivity]].
  - unfold RP. cbn [dk run step]. rewrite SP, Hop. cbn [fst]. split; [reflexivity|split; [reflexivity|intros [X|X]; discriminate]].
  - unfold RP. cbn [dk run step]. rewrite SP, Hop. cbn [fst]. split; [reflexivity|split; [reflexivity|intros [X|X]; discriminate]].
  - unfold RP. cbn [dk run step]. rewrite SP, Hop. cbn [fst]. split; [reflexivity|split; [reflexivity|intros [X|X]; discriminate]].
  - unfold RP. cbn [dk run step]. rewrite SP, Hop. cbn [fst]. split; [reflexivity|split; [reflexivity|intros [X|X]; discriminate]].
  - unfold RP. cbn [dk run step]. rewrite SP, Hop. cbn [fst]. split; [reflexivity|split; [reflexivity|intros [X|X]; discriminate]].
Qed.

Lemma w_app_RP k c pt its : Forall app_iter_ok its -> forall s, GI c s -> RP k c s (w_app c s pt its).
Proof.
  induction 1 as [|d t Hd Ht IH]; intros s Hs; cbn [w_app]; [apply RP_skip; exact Hs|].
  destruct (ai_paced d); [apply RP_skip; exact Hs|].
  apply start_packet_then; [exact Hs|]. intros s1 H1 F1.
  apply RF_RP_seq.
  - apply w_app_iter_RF; [exact H1|exact Hd|intros _; exact F1].
  - intros s2 H2. destruct (cur_nonempty s2); [apply IH; apply OI_GI; exact H2|apply RP_skip; apply OI_GI; exact H2].
Qed.

Lemma w_hs_RP k c pt its : Forall hs_iter_ok its -> forall s, GI c s -> RP k c s (w_hs c s pt its).
Proof.
  induction 1 as [|d t Hd Ht IH]; intros s Hs; cbn [w_hs]; [apply RP_skip; exact Hs|].
  apply start_packet_then; [exact Hs|]. intros s1 H1 F1.
  apply RF_RP_seq.
  - apply w_hs_iter_RF; [exact H1|exact Hd|intros _; exact F1].
  - intros s2 H2. destruct (cur_nonempty s2); [apply IH; apply OI_GI; exact H2|apply RP_skip; apply OI_GI; exact H2].
Qed.

Lemma w_close_round_RP k c ci pk : close_ok (ci_code ci) (ci_ft ci) (ci_rlen ci) (ci_loss ci) ->
  forall s, GI c s -> RP k c s (w_close_round c s ci pk).
Proof.
  intros Hc. induction pk as [|[pt early] t IH]; intros s Hs; cbn [w_close_round]; [apply RP_skip; exact Hs|].
  apply RP_seq; [|exact IH].
  apply RP_catch. apply start_packet_then; [exact Hs|]. intros s1 H1 F1.
  apply RF_RP. apply w_close_RF; [exact H1|exact Hc|intros _; exact F1].
Qed.

Lemma dts_body_RP k c s d : GI c s -> dts_ok d -> RP k c s (dts_body c s d).
Proof.
  intros Hs (D1 & D2 & D3 & D4). unfold dts_body.
  destruct (di_close d) as [ci|]; [apply w_close_round_RP; [exact D1|exact Hs]|].
  apply RP_catch.
  apply RP_seq.
  { destruct (di_initial d) as [l|]; cbn [w_opt]; [apply w_hs_RP; [exact D2|exact Hs]|apply RP_skip; exact Hs]. }
  intros s1 H1. apply RP_seq.
  { destruct (di_handshake d) as [l|]; cbn [w_opt]; [apply w_hs_RP; [exact D3|exact H1]|apply RP_skip; exact H1]. }
  intros s2 H2.
  destruct (di_app d) as [[pt its]|]; cbn [w_opt fst snd]; [apply w_app_RP; [exact D4|exact H2]|apply RP_skip; exact H2].
Qed.

(* ---------- writers_disciplined ----------------------------------------------------------------------------------- *)
(* For every configuration, every first packet number and all decision inputs with field values in their wire ranges, the
   builder op history of one datagrams_to_send call satisfies the caller discipline (k = true: C13's; k = false: also C08's
   three flight clauses -- ACK / CLOSE are the first frame of their packet since fix 7b299f1), and it is the history the builder
   model executes (the trace leads to the state the writers end in). *)
Theorem writers_dk k c pn d : dts_ok d ->
  dk k c (init_st c pn) (dts_trace c pn d) = true /\
  fst (run c (init_st c pn) (dts_trace c pn d)) = snd (fst (dts c (init_st c pn) d)).
Proof.
  intros Hd. unfold dts_trace, dts.
  pose proof (dts_body_RP k c (init_st c pn) d (init_GI c pn) Hd) as B.
  destruct (dts_body c (init_st c pn) d) as [[o s1] tr]. destruct B as (B1 & B2 & B3).
  unfold wseq. destruct o; cbn [fst snd]; auto.
  unfold do_flush. destruct (flush c s1) as [[[o2 s2] dg] pk] eqn:FL. cbn [fst snd].
  rewrite dk_app, run_app, B1, B2. cbn [dk run step andb]. rewrite FL. cbn [fst].
  split; [|reflexivity]. unfold opk. cbn [op_disciplined op_fl andb]. destruct k; [reflexivity|]. cbn [orb].
  rewrite andb_true_r. apply pk_ok_end. apply (B3 (or_introl eq_refl)).
Qed.

Theorem writers_disciplined_all c pn d : dts_ok d -> disciplined c (init_st c pn) (dts_trace c pn d) = true.
Proof. intros Hd. rewrite <- dk_true. apply (writers_dk true c pn d Hd). Qed.

Theorem writers_flight_disciplined_all c pn d : dts_ok d ->
  fl_disciplined c (init_st c pn) (dts_trace c pn d) = true.
Proof. intros Hd. rewrite <- dk_false. apply (writers_dk false c pn d Hd). Qed.
