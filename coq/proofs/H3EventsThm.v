(* C15: the statements of coq/props/C15.v about the events of a whole connection, read off
   events_respect_spec_proof (H3EventsConn.v) in terms of the event list alone, and the handler-level
   "refused with the right code" lemmas. *)
From Coq Require Import ZArith List Bool Lia ZifyBool.
From AQ Require Import lib.Base lib.Tok model.H3Validate proofs.H3ValidateSpec proofs.H3ValidateProofs.
From AQ Require Import model.H3Parse model.H3Events proofs.H3EventsSpec proofs.H3EventsProofs proofs.H3EventsLoop proofs.H3EventsConn.
Import ListNotations.
Open Scope Z_scope.

Section Read.
Variable hdrs : Z -> list header.
Variable client : bool.
Local Notation ghost_of := (H3EventsSpec.ghost_of hdrs).
Local Notation all_ok := (H3EventsSpec.all_ok client hdrs).

Lemma all_ok_split : forall pre e post hist,
  all_ok hist (pre ++ e :: post) -> ev_ok client hdrs (ghost_of (hist ++ pre) (ev_sid e)) e.
Proof.
  induction pre as [|x pre IH]; intros e post hist H; cbn [app H3EventsSpec.all_ok] in H.
  - rewrite app_nil_r. exact (proj1 H).
  - destruct H as (_ & H). apply IH in H. rewrite <- app_assoc in H. exact H.
Qed.

(* the summary in terms of the readable projections *)
Lemma fold_phase : forall sid l g, 0 <= g_phase g <= 2 ->
  g_phase (fold_left (estep hdrs sid) l g) = Z.min 2 (g_phase g + headers_count sid l).
Proof.
  intros sid. induction l as [|e l IH]; intros g Hg; cbn [fold_left headers_count]; [lia|].
  assert (C0 : 0 <= headers_count sid l).
  { clear. induction l as [|e l IH]; cbn [headers_count]; [lia|]. destruct e; try exact IH. destruct (sid0 =? sid); lia. }
  destruct e; cbn [estep]; try (apply IH; exact Hg).
  - destruct (sid0 =? sid); [|apply IH; exact Hg].
    rewrite IH by (cbn [gstep g_phase]; exact Hg). cbn [gstep g_phase]. reflexivity.
  - destruct (sid0 =? sid); [|rewrite IH by exact Hg; lia].
    cbn [gstep]. destruct (g_phase g =? 0) eqn:P; rewrite IH by (cbn [g_phase]; lia); cbn [g_phase]; lia.
Qed.

Lemma fold_body : forall sid l g, g_body (fold_left (estep hdrs sid) l g) = g_body g + body_of sid l.
Proof.
  intros sid. induction l as [|e l IH]; intro g; cbn [fold_left body_of]; [lia|].
  destruct e; cbn [estep]; try apply IH.
  - destruct (sid0 =? sid); rewrite IH; cbn [gstep g_body]; lia.
  - destruct (sid0 =? sid); [|apply IH]. rewrite IH. cbn [gstep]. destruct (g_phase g =? 0); cbn [g_body]; lia.
Qed.

Lemma fold_first_set : forall sid l g, g_phase g <> 0 -> 
  g_first (fold_left (estep hdrs sid) l g) = g_first g /\ g_phase (fold_left (estep hdrs sid) l g) <> 0.
Proof.
  intros sid. induction l as [|e l IH]; intros g Hg; cbn [fold_left]; [auto|].
  destruct e; cbn [estep]; try (apply IH; exact Hg).
  - destruct (sid0 =? sid); [|apply IH; exact Hg]. destruct (IH (gstep hdrs g (H3Parse.EData sid0 push d fin))) as (I1 & I2);
      [exact Hg|]. split; [rewrite I1; reflexivity|exact I2].
  - destruct (sid0 =? sid); [|apply IH; exact Hg]. cbn [gstep]. destruct (g_phase g =? 0) eqn:P; [lia|].
    destruct (IH (mkG 2 (g_first g) (g_body g))) as (I1 & I2); [cbn; lia|]. split; [rewrite I1; reflexivity|exact I2].
Qed.

Lemma fold_first : forall sid l g, g_phase g = 0 -> g_first g = None ->
  g_first (fold_left (estep hdrs sid) l g) = option_map hdrs (first_block sid l).
Proof.
  intros sid. induction l as [|e l IH]; intros g Hg Hf; cbn [fold_left first_block]; [exact Hf|].
  destruct e; cbn [estep]; try (apply IH; assumption).
  - destruct (sid0 =? sid); apply IH; assumption.
  - destruct (sid0 =? sid); [|apply IH; assumption]. cbn [gstep]. rewrite Hg. cbn [Z.eqb option_map].
    destruct (fold_first_set sid l (mkG 1 (Some (hdrs hid)) (g_body g))) as (I1 & _); [cbn; lia|]. rewrite I1. reflexivity.
Qed.

Lemma ghost_phase : forall hist sid, g_phase (ghost_of hist sid) = Z.min 2 (headers_count sid hist).
Proof. intros. unfold H3EventsSpec.ghost_of. rewrite fold_phase by (cbn; lia). reflexivity. Qed.
Lemma ghost_body : forall hist sid, g_body (ghost_of hist sid) = body_of sid hist.
Proof. intros. unfold H3EventsSpec.ghost_of. rewrite fold_body. reflexivity. Qed.
Lemma ghost_first : forall hist sid, g_first (ghost_of hist sid) = option_map hdrs (first_block sid hist).
Proof. intros. unfold H3EventsSpec.ghost_of. apply fold_first; reflexivity. Qed.

Lemma headers_count_nonneg : forall sid l, 0 <= headers_count sid l.
Proof. intros sid. induction l as [|e l IH]; cbn [headers_count]; [lia|]. destruct e; try exact IH. destruct (sid0 =? sid); lia. Qed.

(* (a) header blocks *)
Lemma headers_event_wellformed : forall evs pre sid p hid fin post,
  all_ok [] evs -> evs = pre ++ H3Parse.EHeaders sid p hid fin :: post ->
  wellformed (kind_at client sid pre) (hdrs hid) /\ headers_count sid pre <= 1.
Proof.
  intros evs pre sid p hid fin post H E. subst evs. apply all_ok_split in H. cbn [app ev_sid] in H.
  destruct H as (H & _). pose proof (ghost_phase pre sid) as P. pose proof (headers_count_nonneg sid pre) as N.
  unfold kind_at. destruct H as [(P0 & W)|(P1 & W)].
  - replace (headers_count sid pre =? 0) with true by lia. split; [exact W|lia].
  - replace (headers_count sid pre =? 0) with false by lia. split; [exact W|lia].
Qed.

Lemma push_event_wellformed : forall evs pre sid pid hid post,
  all_ok [] evs -> evs = pre ++ EPush sid pid hid :: post ->
  client = true /\ wellformed KPushPromise (hdrs hid).
Proof.
  intros evs pre sid pid hid post H E. subst evs. apply all_ok_split in H. exact (proj1 H).
Qed.

(* (c) body bytes only between the headers and the trailers *)
Lemma data_event_after_headers : forall evs pre sid p d fin post,
  all_ok [] evs -> evs = pre ++ H3Parse.EData sid p d fin :: post -> d <> [] ->
  headers_count sid pre = 1.
Proof.
  intros evs pre sid p d fin post H E Hd. subst evs. apply all_ok_split in H. cbn [app ev_sid] in H.
  destruct H as (H & _). specialize (H Hd). pose proof (ghost_phase pre sid) as P.
  pose proof (headers_count_nonneg sid pre). lia.
Qed.

(* (b) content-length at the end of the stream *)
Lemma end_event_content_length : forall evs pre e post hid n,
  all_ok [] evs -> evs = pre ++ e :: post -> ev_fin e = true ->
  first_block (ev_sid e) (pre ++ [e]) = Some hid -> declares (hdrs hid) n ->
  body_of (ev_sid e) (pre ++ [e]) = n.
Proof.
  intros evs pre e post hid n H E Hf Hb Hd. subst evs. apply all_ok_split in H. cbn [app] in H.
  destruct H as (_ & H). specialize (H Hf).
  assert (G : gstep hdrs (ghost_of pre (ev_sid e)) e = ghost_of (pre ++ [e]) (ev_sid e)).
  { unfold H3EventsSpec.ghost_of. rewrite fold_left_app. cbn [fold_left].
    destruct e; cbn [ev_fin] in Hf; try discriminate; cbn [ev_sid estep]; rewrite Z.eqb_refl; reflexivity. }
  rewrite G in H. rewrite <- ghost_body. apply (H (hdrs hid)); [|exact Hd].
  rewrite ghost_first, Hb. reflexivity.
Qed.

End Read.

(* ---------------------------------------------------------------- refused with the right code (frame handler) *)
Section Refuse.
Variable hdrs : Z -> list header.
Variable fx : fixes.
Variable Q : oracle.
Variable client : bool.

Lemma not_wellformed_refused : forall k hs, ~ wellformed k hs -> validate k hs = H3Validate.PErr H3ValidateSpec.H3_MESSAGE_ERROR.
Proof.
  intros k hs N. destruct (validate_outcomes_proof k hs) as [(ecl & E)|E]; [|exact E].
  exfalso. apply N. eapply validated_implies_wellformed_proof. exact E.
Qed.

Definition decoded (data : option (list Z)) (st : hstream) : dres :=
  match data with Some d => o_dec Q (s_id st) d | None => o_resume Q (s_id st) end.

(* a HEADERS frame (fresh or resumed after QPACK blocking) whose block is not well formed for its position *)
Lemma malformed_headers_closes : forall data st ended hid,
  H3Parse.s_hstate st = 0 \/ H3Parse.s_hstate st = 1 ->
  decoded data st = DHeaders hid ->
  ~ wellformed (if H3Parse.s_hstate st =? 0 then rolekind client else KTrailers) (hdrs hid) ->
  handle_rp_frame fx (with_validators hdrs Q) client 1 data st ended = HErr H3Parse.H3_MESSAGE_ERROR.
Proof.
  intros data st ended hid Hs Hd N. unfold handle_rp_frame. cbn [Z.eqb Pos.eqb].
  replace (H3Parse.s_hstate st =? 2) with false by lia.
  unfold decoded in Hd. cbn [o_dec o_resume o_val with_validators]. 
  replace (match data with Some d => o_dec Q (s_id st) d | None => o_resume Q (s_id st) end) with (DHeaders hid).
  apply not_wellformed_refused in N. unfold real_val.
  destruct (H3Parse.s_hstate st =? 0).
  - rewrite rolekind_hkind, N. reflexivity.
  - replace (hkind 2) with KTrailers by reflexivity. rewrite N. reflexivity.
Qed.

(* a PUSH_PROMISE frame whose block is not a well-formed request header block *)
Lemma malformed_push_promise_closes : forall d pid rest st ended hid,
  client = true -> s_push st = None -> pull_uint_var d = Some (pid, rest) ->
  o_dec Q (s_id st) rest = DHeaders hid -> ~ wellformed KPushPromise (hdrs hid) ->
  handle_rp_frame fx (with_validators hdrs Q) client 5 (Some d) st ended = HErr H3Parse.H3_MESSAGE_ERROR.
Proof.
  intros d pid rest st ended hid Hc Hp Hv Hd N. unfold handle_rp_frame. cbn [Z.eqb Pos.eqb].
  rewrite Hp, Hc, Hv. cbn [is_none andb negb o_dec o_val with_validators].
  replace (s_id (if fx_pushblock fx then set_bpush st (Some pid) else st)) with (s_id st) by (destruct (fx_pushblock fx); reflexivity).
  rewrite Hd. apply not_wellformed_refused in N. unfold real_val.
  replace (hkind 3) with KPushPromise by reflexivity. rewrite N. reflexivity.
Qed.

(* frames in the wrong order *)
Lemma data_before_headers_or_after_trailers : forall O data st ended,
  H3Parse.s_hstate st <> 1 ->
  handle_rp_frame fx O client 0 data st ended = HErr H3_FRAME_UNEXPECTED.
Proof.
  intros O data st ended H. unfold handle_rp_frame. cbn [Z.eqb].
  replace (H3Parse.s_hstate st =? 1) with false by lia. reflexivity.
Qed.

Lemma headers_after_trailers : forall O data st ended,
  H3Parse.s_hstate st = 2 ->
  handle_rp_frame fx O client 1 data st ended = HErr H3_FRAME_UNEXPECTED.
Proof.
  intros O data st ended H. unfold handle_rp_frame. cbn [Z.eqb Pos.eqb]. rewrite H. reflexivity.
Qed.

(* a frame that would be accepted in the middle of the stream, but ends the stream with the wrong body size *)
Lemma mismatch_at_end_closes : forall O t data st evs st1,
  fx_endmark fx = true ->
  handle_rp_frame fx O client t data st false = HVal evs st1 -> check_cl st1 = false ->
  handle_rp_frame fx O client t data st true = HErr H3Parse.H3_MESSAGE_ERROR.
Proof.
  intros O t data st evs st1 Hem H Hk. unfold handle_rp_frame, endmark in *. rewrite Hem in *.
  cbn [andb orb] in *.
  repeat match type of H with
  | context [if ?c then _ else _] => destruct c eqn:?; try discriminate H
  | context [match ?c with Some _ => _ | None => _ end] => destruct c eqn:?; try discriminate H
  | context [match ?c with DHeaders _ => _ | DBlocked => _ | DFailed => _ end] => destruct c eqn:?; try discriminate H
  | context [match ?c with pair _ _ => _ end] => destruct c eqn:?; try discriminate H
  end; inversion H; subst; clear H;
  unfold check_cl in *; simp_proj; try rewrite Hk; try reflexivity.
Qed.

End Refuse.

(* ---------------------------------------------------------------- the theorems of props/C15.v *)
Lemma events_wellformed_proof : forall fx hdrs client dgram tr,
  fx_pushblock fx = true -> trace_ok (map fst tr) ->
  forall pre sid p hid fin post,
  events_of (h3_run fx hdrs (conn_init client dgram) tr) = pre ++ H3Parse.EHeaders sid p hid fin :: post ->
  wellformed (kind_at client sid pre) (hdrs hid) /\ headers_count sid pre <= 1.
Proof.
  intros fx hdrs client dgram tr Hpb HT pre sid p hid fin post E.
  eapply headers_event_wellformed; [apply events_respect_spec_proof; eassumption|exact E].
Qed.

Lemma push_promises_wellformed_proof : forall fx hdrs client dgram tr,
  fx_pushblock fx = true -> trace_ok (map fst tr) ->
  forall pre sid pid hid post,
  events_of (h3_run fx hdrs (conn_init client dgram) tr) = pre ++ EPush sid pid hid :: post ->
  client = true /\ wellformed KPushPromise (hdrs hid).
Proof.
  intros fx hdrs client dgram tr Hpb HT pre sid pid hid post E.
  eapply push_event_wellformed; [apply events_respect_spec_proof; eassumption|exact E].
Qed.

Lemma events_content_length_proof : forall fx hdrs client dgram tr,
  fx_pushblock fx = true -> trace_ok (map fst tr) ->
  forall pre e post hid n,
  events_of (h3_run fx hdrs (conn_init client dgram) tr) = pre ++ e :: post -> ev_fin e = true ->
  first_block (ev_sid e) (pre ++ [e]) = Some hid -> declares (hdrs hid) n ->
  body_of (ev_sid e) (pre ++ [e]) = n.
Proof.
  intros fx hdrs client dgram tr Hpb HT pre e post hid n E. 
  eapply end_event_content_length; [apply events_respect_spec_proof; eassumption|exact E].
Qed.

Lemma data_only_after_headers_proof : forall fx hdrs client dgram tr,
  fx_pushblock fx = true -> trace_ok (map fst tr) ->
  forall pre sid p d fin post,
  events_of (h3_run fx hdrs (conn_init client dgram) tr) = pre ++ H3Parse.EData sid p d fin :: post ->
  d <> [] -> headers_count sid pre = 1.
Proof.
  intros fx hdrs client dgram tr Hpb HT pre sid p d fin post E.
  eapply data_event_after_headers; [apply events_respect_spec_proof; eassumption|exact E].
Qed.

(* ---------------------------------------------------------------- examples: the hypotheses are satisfiable, the
   QPACK-blocked resume path is inside the theorems *)
Definition ex_request (cl : list Z) : list header :=
  [(b_method, [71; 69; 84]); (b_scheme, [104; 116; 116; 112; 115]); (b_authority, [104]); (b_path, [47]);
   (b_content_length, cl)].
Definition ex_hdrs (hid : Z) : list header := if hid =? 1 then ex_request [53] else ex_request [48].
Definition ex_blocked : oracle := mkO (fun _ _ => DBlocked) (fun _ => DBlocked) (fun _ _ => (false, None)) (fun _ => EEncErr) (fun _ => false).
Definition ex_resume (hid : Z) : oracle :=
  mkO (fun _ _ => DFailed) (fun _ => DHeaders hid) (fun _ _ => (false, None)) (fun _ => EUnblocked [0]) (fun _ => true).
(* server: request stream 0 carries one HEADERS frame and the FIN; its block has to wait for the encoder stream
   (stream 2), which arrives afterwards and resumes it *)
Definition ex_trace (hid : Z) : list (qevent * oracle) :=
  [(QStream 0 [1; 1; 0] true, ex_blocked); (QStream 2 [2; 9] false, ex_resume hid)].

Example blocked_resume_trace_ok : forall hid, trace_ok (map fst (ex_trace hid)).
Proof.
  intro hid. cbn. split; [|split; exact Logic.I].
  intros q [H|[]] (d & f & E). subst q. discriminate.
Qed.

(* content-length 5 declared, no body, FIN already received when the block is resumed: H3_MESSAGE_ERROR, no event *)
Example blocked_resume_mismatch_closes :
  h3_run all_fixed ex_hdrs (conn_init false true) (ex_trace 1) = [Events []; Closed H3Parse.H3_MESSAGE_ERROR]
  /\ declares (ex_hdrs 1) 5.
Proof.
  split; [vm_compute; reflexivity|]. exists [53]. split; [right; right; right; right; left; reflexivity|reflexivity].
Qed.

(* content-length 0: the resumed block is handed over with the end of the stream *)
Example blocked_resume_match_delivers :
  h3_run all_fixed ex_hdrs (conn_init false true) (ex_trace 2)
  = [Events []; Events [H3Parse.EHeaders 0 None 2 true]].
Proof. vm_compute. reflexivity. Qed.

(* the literal "no DataReceived before HeadersReceived" does not hold: a stream that consists of a FIN only is
   reported as DataReceived(b"", stream_ended=True) (no body bytes, so the theorem above is not affected) *)
Lemma end_marker_without_headers_proof :
  exists tr, trace_ok (map fst tr) /\
    events_of (h3_run all_fixed ex_hdrs (conn_init false true) tr) = [H3Parse.EData 0 None [] true].
Proof.
  exists [(QStream 0 [] true, ex_blocked)]. split; [|vm_compute; reflexivity].
  cbn. split; [|exact Logic.I]. intros q [].
Qed.

(* the hypotheses of h3parse_refines_stream_model hold for a new stream *)
Example refinement_hypotheses_fresh : forall client sid, sinv client ginit (new_stream sid) /\ cur_ok (new_stream sid).
Proof. intros. split; [apply sinv_init|intros n H; discriminate]. Qed.

(* a list the refusal lemmas apply to: header name "A" *)
Example malformed_headers_example : forall k, ~ wellformed k [(b_method, [71]); ([65], [49])].
Proof.
  intros k (H & _). inversion H as [|x l H1 H2]; subst. inversion H2 as [|y l2 H3 H4]; subst.
  destruct H3 as (N & _). cbn in N. inversion N as [|c t R]; subst. destruct R as (_ & R2). apply R2. lia.
Qed.
