(* C11, theorem keys_after_authentication: every update_traffic_key_cb call of a run is made by the
   handler of the message that authenticates that epoch, for every message sequence and every
   oracle valuation. *)
From AQ Require Import lib.Base gen.TlsDispatch model.TlsSM proofs.TlsDispatchLegal proofs.TlsNoSkip.

(* client: what may install key (direction d, epoch e) while handling message m (outcome o) after the
   messages acc were accepted *)
Definition ckey_ok (c : cfg) (acc : list msg) (m : msg) (o : outcome) (k : key) : Prop :=
  (* 1-RTT keys, both directions: only by the Finished whose MAC verified, completing a legal flight
     (CertificateVerify and certificate verified, or PSK offered and selected) *)
  (snd k = EP_ONE_RTT /\ o = OOk /\ m_type m = 20 /\ m_mac m = true /\ client_legal c (acc ++ [m])) \/
  (* handshake receive key: by the first accepted message, a ServerHello *)
  (k = (DIR_DECRYPT, EP_HANDSHAKE) /\ o = OOk /\ m_type m = 2 /\ m_parse m = 0 /\ acc = []) \/
  (* handshake send key: by EncryptedExtensions directly after the ServerHello *)
  (k = (DIR_ENCRYPT, EP_HANDSHAKE) /\ o = OOk /\ m_type m = 8 /\ m_parse m = 0 /\
   exists sh, acc = [sh] /\ m_type sh = 2).

Definition skey_ok (c : cfg) (acc : list msg) (m : msg) (o : outcome) (k : key) : Prop :=
  (* 1-RTT receive key: only by the client Finished whose MAC verified, after the legal client flight *)
  (k = (DIR_DECRYPT, EP_ONE_RTT) /\ o = OOk /\ m_type m = 20 /\ m_mac m = true /\ server_legal c (acc ++ [m])) \/
  (* handshake keys and the 1-RTT send key: by the (first, accepted) ClientHello *)
  (fst k = DIR_ENCRYPT /\ snd k = EP_ONE_RTT /\ o = OOk /\ m_type m = 1 /\ m_parse m = 0 /\ acc = []) \/
  (snd k = EP_HANDSHAKE /\ o = OOk /\ m_type m = 1 /\ m_parse m = 0 /\ acc = []) \/
  (* 0-RTT receive key: by a ClientHello whose PSK binder verified and that carries early_data *)
  (k = (DIR_DECRYPT, EP_ZERO_RTT) /\ m_type m = 1 /\ m_parse m = 0 /\ acc = [] /\
   m_psk m = true /\ m_psk_ok m = true /\ m_early m = true).

Ltac keys_tac :=
  repeat match goal with
  | |- Forall _ [] => constructor
  | |- Forall _ (_ :: _) => constructor
  end.

Lemma ckeys_step : forall c s m acc o s' ks,
  cinv c s acc -> step c s m = (o, s', ks) -> Forall (ckey_ok c acc m o) ks.
Proof.
  intros c [x r kp kx cq] m acc o s' ks Hinv Hstep.
  pose proof (cinv_step _ _ _ _ _ _ _ Hinv Hstep) as Hnext.
  unfold cinv in Hinv; cbn [s_state s_resumed s_kpsk s_kproxy s_creq] in Hinv.
  destruct x; try contradiction; open_step Hstep; done_step Hstep; keys_tac; unfold ckey_ok, sh_ok in *; unpack; subst.
  all: try (right; left; repeat split; auto; fail).
  all: try (right; right; repeat split; eauto; fail).
  all: left; unfold cinv, push in Hnext; cbn [s_state is_ok] in Hnext; repeat split; auto.
Qed.

Lemma skeys_step : forall c s m acc o s' ks,
  sinv c s acc -> step c s m = (o, s', ks) -> Forall (skey_ok c acc m o) ks.
Proof.
  intros c [x r kp kx cq] m acc o s' ks Hinv Hstep.
  pose proof (sinv_step _ _ _ _ _ _ _ Hinv Hstep) as Hnext.
  unfold sinv in Hinv; cbn [s_state s_resumed s_kpsk s_kproxy s_creq] in Hinv.
  destruct x; try contradiction; open_step Hstep.
  - (* ClientHello *)
    done_step Hstep; cbn [andb orb] in *; unfold skey_ok; unpack; subst; try discriminate; cbn [app];
      keys_tac; cbn [fst snd];
      try (right; left; repeat split; auto; fail);
      try (right; right; left; repeat split; auto; fail);
      try (right; right; right; repeat split; auto; fail).
  - done_step Hstep; keys_tac.
  - done_step Hstep; keys_tac.
  - (* Finished *)
    done_step Hstep; keys_tac. unfold skey_ok. left.
    unfold sinv, push in Hnext; cbn [s_state is_ok] in Hnext. unpack. repeat split; auto.
  - inversion Hstep; subst. constructor.
Qed.

Lemma keys_client_lemma : forall c ms pre m o s' ks post,
  run c (client_started c) ms = pre ++ (m, o, s', ks) :: post ->
  Forall (ckey_ok c (accepted pre) m o) ks.
Proof.
  intros.
  exact (keys_run cinv ckey_ok cinv_step ckeys_step c pre ms _ [] m o s' ks post (cinv_started c) H).
Qed.

Lemma keys_server_lemma : forall c ms pre m o s' ks post,
  run c init_server ms = pre ++ (m, o, s', ks) :: post ->
  Forall (skey_ok c (accepted pre) m o) ks.
Proof.
  intros.
  exact (keys_run sinv skey_ok sinv_step skeys_step c pre ms _ [] m o s' ks post (sinv_init c) H).
Qed.

(* the combined statement *)
Lemma keys_after_authentication_lemma : forall c ms pre m o s' ks post,
  (run c (client_started c) ms = pre ++ (m, o, s', ks) :: post ->
   Forall (ckey_ok c (accepted pre) m o) ks) /\
  (run c init_server ms = pre ++ (m, o, s', ks) :: post ->
   Forall (skey_ok c (accepted pre) m o) ks).
Proof. intros; split; [apply keys_client_lemma | apply keys_server_lemma]. Qed.
