From AQ Require Import lib.Base lib.Tok model.Timers model.TimersFull gen.C12Consts model.RangeSet.
From AQ Require model.AckQueue.

(* Link to C12's model of the acknowledgement bookkeeping (model/AckQueue.v): the ack_at / discarded fields of a space of
   the composed model move exactly as AckQueue's do under "record packet as received", _write_ack_frame and
   discard_space, and C12's get_timer (a plain minimum) is the fold of Timers.get_timer. *)
Definition abs_ack (s : AckQueue.space) (lt : option Z) (ae ow : Z) : tspace :=
  mkTs (AckQueue.ack_at s) lt ae (AckQueue.disc s) ow.

Lemma record_link_lemma s pn elic t d lt ae ow :
  let capnow := CAP_ACK_NOW && (Zlen (add pn (pn + 1) (AckQueue.aq s)) >=? MAX_ACK_RANGES) in
  ts_ack_at (ts_record (abs_ack s lt ae ow) elic t d capnow) = AckQueue.ack_at (AckQueue.record s pn elic t d) /\
  ts_disc (ts_record (abs_ack s lt ae ow) elic t d capnow) = AckQueue.disc (AckQueue.record s pn elic t d).
Proof.
  cbv zeta. unfold ts_record, AckQueue.record, abs_ack, AckQueue.cap_now. cbn [ts_disc ts_ack_at].
  destruct (AckQueue.disc s) eqn:Ed; cbn; [auto|].
  destruct (CAP_ACK_NOW && (Zlen (add pn (pn + 1) (AckQueue.aq s)) >=? MAX_ACK_RANGES)); cbn; rewrite ?Ed; auto.
Qed.

Lemma write_ack_link_lemma s delay room r s' : AckQueue.write_ack s delay room = (r, s') ->
  AckQueue.disc s' = AckQueue.disc s /\
  match r with
  | AckQueue.SFrame _ _ => AckQueue.ack_at s' = ts_ack_at (ts_ack_written (abs_ack s None 0 0))
  | _ => AckQueue.ack_at s' = AckQueue.ack_at s
  end.
Proof.
  unfold AckQueue.write_ack. cbv zeta.
  destruct (room <? Z.max (AckQueue.ack_capacity (AckQueue.cap_ranges (AckQueue.aq s))) MIN_FRAME_CAPACITY).
  - intros H; inversion H; subst; cbn; auto.
  - destruct (Codec.w_chunks _ _ _); intros H; inversion H; subst; cbn; auto.
Qed.

Lemma discard_link_lemma s lt ae ow :
  ts_ack_at (ts_discard (abs_ack s lt ae ow)) = AckQueue.ack_at (AckQueue.discard s) /\
  ts_disc (ts_discard (abs_ack s lt ae ow)) = AckQueue.disc (AckQueue.discard s).
Proof. split; reflexivity. Qed.

Lemma get_timer_link_lemma srcs : forall d,
  fold_left (fun cur a => Timers.tmin a cur) srcs (Ok (Some d)) = Ok (Some (AckQueue.get_timer d srcs)).
Proof.
  induction srcs as [|a t IH]; intros d; [reflexivity|]. cbn [fold_left]. unfold AckQueue.get_timer in *. cbn [fold_left].
  destruct a as [x|]; cbn [Timers.tmin AckQueue.tmin]; apply IH.
Qed.
