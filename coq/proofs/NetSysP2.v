(* C01: preservation of the NetSys invariant by the remaining steps, and the theorems. *)
From Coq Require Import ZArith List Bool Lia ZifyBool Permutation.
From AQ Require Import lib.Base model.RangeSet model.StreamRecv model.StreamSpec model.StreamSend model.NetSys model.NetSysLive
  proofs.RangeSetP proofs.ListZ proofs.StreamRecvP proofs.StreamSendP proofs.NetSysP.

Ltac nproj := cbn [n_send n_recv n_written n_racked n_emitted n_resets n_rreset n_queue n_dbytes n_ends].

Lemma eof_same s s' : s_fin (n_send s') = s_fin (n_send s) -> (eof s' <-> eof s).
Proof. unfold eof. intros ->. tauto. Qed.

Lemma consistent_eof w (p q : Prop) off data fin : (p -> q) -> consistent w p off data fin -> consistent w q off data fin.
Proof. intros H (C1 & C2 & C3 & C4). repeat split; try assumption; destruct (C4 H0); auto. Qed.

Lemma specok_eof w (p q : Prop) sp : (p -> q) -> SpecOk w p sp -> SpecOk w q sp.
Proof.
  intros H S. constructor; [exact (so_map _ _ _ S)| |exact (so_del _ _ _ S)].
  intros f Hf. destruct (so_final _ _ _ S f Hf). auto.
Qed.

Lemma ninv_emit s ms mo o s' : NInv s -> net_step s (NEmit ms mo) = Some (o, s') -> NInv s'.
Proof.
  intros I H. cbn [net_step] in H.
  destruct (ni_reach _ I) as (outs & R & P). destruct (ni_noreset _ I) as (N1 & N2 & N3 & N4).
  rewrite N1 in H. cbn [is_noneb] in H.
  destruct (get_frame_keeps (n_send s) ms mo) as (K1 & K2).
  pose proof (reach_step _ _ (WGet ms mo) R N1) as R'. cbn [send_step] in R'.
  destruct (get_frame (n_send s) ms mo) as [so st'] eqn:G. cbn [fst snd] in *.
  assert (Heof : forall x : net, n_send x = st' -> (eof x <-> eof s)) by (intros x Hx; apply eof_same; rewrite Hx; exact K1).
  destruct so as [|off d fin|c fs|].
  2:{ (* a frame *)
    inversion H; subst o s'. clear H. cbn [ghost_step g_written g_outs g_reset_acked] in R'.
    destruct (send_frames_exact _ _ ms mo off d fin st' R N1 G) as (E1 & E2 & E3 & _ & E5). cbn [g_written] in *.
    constructor; nproj.
    - eexists. split; [exact R'|]. rewrite outs_of_app. cbn. apply Permutation_cons_app. rewrite app_nil_r. exact P.
    - rewrite K2. auto.
    - intros f Hf. apply in_app_or in Hf. destruct Hf as [Hf|[Hf|[]]].
      + eapply consistent_eof; [|exact (ni_emitted _ I f Hf)]. apply Heof. reflexivity.
      + subst f. cbn [ef_off ef_data ef_fin]. repeat split; try assumption.
        * apply Heof; [reflexivity|]. unfold eof. destruct (E5 H) as (X & _). congruence.
        * destruct (E5 H) as (_ & X). exact X.
    - destruct (ni_recv _ I) as (sp & V & S & D & E). exists sp. split; [exact V|]. split; [|split; assumption].
      eapply specok_eof; [|exact S]. apply Heof. reflexivity. }
  all: inversion H; subst o s'; clear H; cbn [ghost_step] in R'; unfold with_send;
    (constructor; nproj;
     [ exists outs; split; [exact R'|exact P]
     | rewrite K2; auto
     | intros f Hf; eapply consistent_eof; [|exact (ni_emitted _ I f Hf)]; apply Heof; reflexivity
     | destruct (ni_recv _ I) as (sp & V & S & D & E); exists sp; split; [exact V|]; split; [|split; assumption];
       eapply specok_eof; [|exact S]; apply Heof; reflexivity ]).
Qed.

Lemma outs_of_set_nth_same l i f f' : nthE l i = Some f -> ef_key f' = ef_key f -> ef_out f' = ef_out f ->
  outs_of (set_nth i f' l) = outs_of l.
Proof.
  intros H K O. destruct (nthE_split l i f H) as (l1 & l2 & E & S). rewrite (S f'), E.
  rewrite !outs_of_app. f_equal. unfold outs_of, noout. cbn [filter]. rewrite O.
  destruct (is_noneb (ef_out f)); cbn [map]; rewrite ?K; reflexivity.
Qed.

Lemma in_set_nth l i f f' x : nthE l i = Some f -> In x (set_nth i f' l) -> x = f' \/ In x l.
Proof.
  intros H Hx. destruct (nthE_split l i f H) as (l1 & l2 & E & S). rewrite (S f') in Hx. rewrite E.
  apply in_app_or in Hx. destruct Hx as [Hx|[Hx|Hx]]; [right; apply in_or_app; left; exact Hx|left; symmetry; exact Hx|
    right; apply in_or_app; right; right; exact Hx].
Qed.

(* the receive half fed an emitted frame: no FinalSizeError, and the report extends the prefix *)
Lemma deliver_facts s f : NInv s -> In f (n_emitted s) ->
  exists o r' sp sp',
    handle_frame (n_recv s) (ef_off f) (ef_data f) (ef_fin f) = (o, r') /\
    Inv true (n_recv s) sp /\ Inv true r' sp' /\ SpecOk (n_written s) (eof s) sp' /\
    n_dbytes s = ztake (sp_del sp) (n_written s) /\
    r_finished (n_recv s) = opt_eqb (sp_final sp) (sp_del sp) /\
    r_finished r' = opt_eqb (sp_final sp') (sp_del sp') /\
    ((o = RNone /\ sp_del sp' = sp_del sp /\ opt_eqb (sp_final sp') (sp_del sp') = false) \/
     (exists d, o = RData d (opt_eqb (sp_final sp') (sp_del sp')) /\
                ztake (sp_del sp') (n_written s) = ztake (sp_del sp) (n_written s) ++ d)) /\
    (opt_eqb (sp_final sp) (sp_del sp) = true -> sp_del sp' = sp_del sp /\ opt_eqb (sp_final sp') (sp_del sp') = true).
Proof.
  intros I Hf. destruct (ni_recv _ I) as (sp & V & S & D & E).
  pose proof (frame_refines_strict (n_recv s) sp (ef_off f) (ef_data f) (ef_fin f) V) as FR.
  pose proof (spec_frame_consistent _ _ sp _ _ _ S (ni_emitted _ I f Hf)) as SC.
  destruct (handle_frame (n_recv s) (ef_off f) (ef_data f) (ef_fin f)) as [o r'].
  destruct (spec_frame sp (ef_off f) (ef_data f) (ef_fin f)) as [o' sp'].
  destruct FR as (Eo & V'). subst o'. destruct SC as (S' & Hle & Hout & Hfin).
  exists o, r', sp, sp'. split; [reflexivity|]. split; [exact V|]. split; [exact V'|]. split; [exact S'|]. split; [exact D|].
  split; [rewrite (i_finished _ _ _ V eq_refl), (i_final _ _ _ V), (i_start _ _ _ V); reflexivity|].
  split; [rewrite (i_finished _ _ _ V' eq_refl), (i_final _ _ _ V'), (i_start _ _ _ V'); reflexivity|].
  split; [exact Hout|exact Hfin].
Qed.

Lemma ninv_deliver s i o s' : NInv s -> net_step s (NDeliver i) = Some (o, s') -> NInv s' /\ o <> OFinalSizeError.
Proof.
  intros I H. cbn [net_step] in H.
  destruct (nthE (n_emitted s) i) as [f|] eqn:Ei; [|discriminate].
  pose proof (nthE_In _ _ _ Ei) as Hf.
  destruct (deliver_facts s f I Hf) as (ro & r' & sp & sp' & HF & V & V' & S' & D & Fin & Fin' & Hout & Hdone).
  rewrite HF in H.
  set (f' := mkEF (ef_off f) (ef_data f) (ef_fin f) true (ef_out f)) in *.
  assert (Hem : forall x, In x (set_nth i f' (n_emitted s)) -> consistent (n_written s) (eof s) (ef_off x) (ef_data x) (ef_fin x)).
  { intros x Hx. destruct (in_set_nth _ _ _ _ _ Ei Hx) as [->|Hx']; [exact (ni_emitted _ I f Hf)|exact (ni_emitted _ I x Hx')]. }
  assert (Houts : outs_of (set_nth i f' (n_emitted s)) = outs_of (n_emitted s)) by (apply (outs_of_set_nth_same _ _ f); [exact Ei|reflexivity|reflexivity]).
  destruct (ni_noreset _ I) as (N1 & N2 & N3 & N4). destruct (ni_recv _ I) as (_ & _ & _ & _ & Eends).
  assert (Hq : forall q db en, db = ztake (sp_del sp') (n_written s) -> en = b2z (r_finished r') ->
          NInv (mkNet (n_send s) r' (n_written s) (n_racked s) (set_nth i f' (n_emitted s)) (n_resets s) (n_rreset s) q db en)).
  { intros q db en Hdb Hen. constructor; nproj.
    - rewrite Houts. exact (ni_reach _ I).
    - auto.
    - exact Hem.
    - exists sp'. split; [exact V'|split; [exact S'|split; assumption]]. }
  destruct Hout as [(Eo & Hdel & Hnf)|(d & Eo & Hd)]; subst ro.
  - (* nothing reported *)
    inversion H; subst o s'. split; [|discriminate]. unfold report.
    destruct (r_finished (n_recv s)) eqn:Efin.
    + destruct (Hdone (eq_sym Fin)) as (_ & X). rewrite Hnf in X. discriminate.
    + apply Hq; [rewrite D, Hdel; reflexivity|]. rewrite Eends, Fin', Hnf. reflexivity.
  - inversion H; subst o s'. split; [|discriminate]. unfold report.
    destruct (r_finished (n_recv s)) eqn:Efin.
    + (* the receive half had already finished: nothing is reported *)
      destruct (Hdone (eq_sym Fin)) as (X1 & X2).
      apply Hq; [rewrite D, X1; reflexivity|]. rewrite Eends, Fin', X2. reflexivity.
    + apply Hq; [rewrite D, Hd; reflexivity|]. rewrite Eends, Fin'. reflexivity.
Qed.

Lemma ninv_outcome s i acked o s' : NInv s -> net_step s (NOutcome i acked) = Some (o, s') -> NInv s'.
Proof.
  intros I H. cbn [net_step] in H.
  destruct (nthE (n_emitted s) i) as [f|] eqn:Ei; [|discriminate].
  destruct (is_noneb (ef_out f) && (negb acked || ef_deliv f)) eqn:G; [|discriminate].
  assert (Gn : noout f = true) by (unfold noout; destruct (is_noneb (ef_out f)); [reflexivity|discriminate]).
  unfold ef_key in H.
  destruct (on_data_delivery (n_send s) acked (ef_off f) (ef_off f + Zlen (ef_data f)) (ef_fin f)) as [so st'] eqn:Dv.
  inversion H; subst o s'. clear H.
  destruct (ni_reach _ I) as (outs & R & P). destruct (ni_noreset _ I) as (N1 & N2 & N3 & N4).
  destruct (deliv_keeps (n_send s) acked (ef_off f) (ef_off f + Zlen (ef_data f)) (ef_fin f)) as (K1 & K2).
  rewrite Dv in K1, K2. cbn [snd] in K1, K2.
  set (f' := mkEF (ef_off f) (ef_data f) (ef_fin f) (ef_deliv f) (Some acked)) in *.
  destruct (nthE_split _ _ _ Ei) as (l1 & l2 & El & Sl).
  assert (Hin : In (ef_key f) outs).
  { eapply Permutation_in; [apply Permutation_sym, P|]. rewrite El, outs_of_app. apply in_or_app. right.
    unfold outs_of. cbn [filter]. rewrite Gn. left. reflexivity. }
  pose proof (reach_step _ _ (WDeliv acked (ef_off f) (ef_off f + Zlen (ef_data f)) (ef_fin f)) R Hin) as R'.
  cbn [send_step ghost_step g_written g_outs g_reset_acked] in R'. rewrite Dv in R'. cbn [fst snd] in R'.
  rewrite N1 in R'. cbn [is_none] in R'.
  assert (Heof : forall x : net, n_send x = st' -> (eof x <-> eof s)) by (intros x Hx; apply eof_same; rewrite Hx; exact K1).
  constructor; nproj.
  - eexists. split; [exact R'|]. rewrite (Sl f'), outs_of_app.
    assert (E2 : outs_of (f' :: l2) = outs_of l2) by reflexivity. rewrite E2.
    apply (Permutation_cons_inv (a := ef_key f)).
    eapply perm_trans; [apply Permutation_sym, remove_one_perm, Hin|].
    eapply perm_trans; [exact P|]. rewrite El, outs_of_app.
    assert (E3 : outs_of (f :: l2) = ef_key f :: outs_of l2) by (unfold outs_of; cbn [filter]; rewrite Gn; reflexivity).
    rewrite E3. apply Permutation_sym, Permutation_middle.
  - rewrite K2. auto.
  - intros x Hx. destruct (in_set_nth _ _ _ _ _ Ei Hx) as [->|Hx'].
    + eapply consistent_eof; [|exact (ni_emitted _ I f (nthE_In _ _ _ Ei))]. apply Heof. reflexivity.
    + eapply consistent_eof; [|exact (ni_emitted _ I x Hx')]. apply Heof. reflexivity.
  - destruct (ni_recv _ I) as (sp & V & S & D & E). exists sp. split; [exact V|]. split; [|split; assumption].
    eapply specok_eof; [|exact S]. apply Heof. reflexivity.
Qed.

Lemma ninv_queue s q : NInv s ->
  NInv (mkNet (n_send s) (n_recv s) (n_written s) (n_racked s) (n_emitted s) (n_resets s) (n_rreset s) q (n_dbytes s) (n_ends s)).
Proof. intros I. destruct I. constructor; assumption. Qed.

Lemma ninv_step s op o s' : NInv s -> data_op op -> net_step s op = Some (o, s') -> NInv s'.
Proof.
  intros I D H. destruct op; cbn [data_op] in D; try contradiction.
  - eapply ninv_write; eassumption.
  - eapply ninv_emit; eassumption.
  - eapply ninv_deliver; eassumption.
  - eapply ninv_outcome; eassumption.
  - cbn [net_step] in H. destruct (n_queue s) as [|e q]; [discriminate|]. inversion H; subst. apply ninv_queue, I.
  - cbn [net_step] in H. inversion H; subst. exact I.
Qed.

Lemma nreach_inv s : nreach s -> NInv s.
Proof. induction 1; [exact ninv_init|eapply ninv_step; eassumption]. Qed.

(* ---------- the theorems ---------- *)

(* in every reachable state, whatever the schedule: the bytes reported to the application are a
   prefix of the bytes written; the end marker is reported at most once, and only when a FIN was
   written and every written byte has been reported *)
Lemma delivery_is_prefix s : nreach s ->
  (exists rest, n_written s = n_dbytes s ++ rest) /\
  0 <= n_ends s <= 1 /\
  (n_ends s = 1 -> eof s /\ n_dbytes s = n_written s).
Proof.
  intros R. pose proof (nreach_inv _ R) as I. destruct (ni_recv _ I) as (sp & V & S & D & E).
  split; [|split].
  - exists (zdrop (sp_del sp) (n_written s)). rewrite D. unfold ztake, zdrop. symmetry. apply firstn_skipn.
  - rewrite E. destruct (r_finished (n_recv s)); cbn; lia.
  - intros H1. rewrite E in H1. destruct (r_finished (n_recv s)) eqn:F; [|discriminate].
    rewrite (i_finished _ _ _ V eq_refl), (i_final _ _ _ V), (i_start _ _ _ V) in F.
    destruct (sp_final sp) as [f|] eqn:Ff; [|discriminate]. cbn [opt_eqb] in F.
    destruct (so_final _ _ _ S f Ff) as (X & Y). split; [exact X|].
    rewrite D. replace (sp_del sp) with (Zlen (n_written s)) by lia. apply ztake_ztake_all.
Qed.

(* handing ANY emitted frame to the receiver, at any time, any number of times, never yields FinalSizeError *)
Lemma no_spurious_final_size_error s i o s' :
  nreach s -> net_step s (NDeliver i) = Some (o, s') -> o <> OFinalSizeError.
Proof. intros R H. exact (proj2 (ninv_deliver s i o s' (nreach_inv _ R) H)). Qed.

Lemma cover_pos o l : 1 <= cover o l -> exists a b f, In (a, b, f) l /\ a <= o < b.
Proof.
  induction l as [|[[a b] f] t IH]; cbn [cover]; [lia|]. intros H. unfold inr in H.
  destruct ((a <=? o) && (o <? b)) eqn:E.
  - exists a, b, f. split; [left; reflexivity|lia].
  - destruct (IH ltac:(lia)) as (a' & b' & f' & Hin & Hr). exists a', b', f'. split; [right; exact Hin|exact Hr].
Qed.

Lemma cfin_pos l : 1 <= cfin l -> exists a b, In (a, b, true) l.
Proof.
  induction l as [|[[a b] f] t IH]; cbn [cfin]; [lia|]. intros H. destruct f.
  - exists a, b. left. reflexivity.
  - cbn [b2z] in H. destruct (IH ltac:(lia)) as (a' & b' & Hin). exists a', b'. right. exact Hin.
Qed.

Lemma outs_of_in l k : In k (outs_of l) -> exists f, In f l /\ ef_out f = None /\ ef_key f = k.
Proof.
  unfold outs_of. intros H. apply in_map_iff in H. destruct H as (f & K & Hf). apply filter_In in Hf. destruct Hf as (Hf & N).
  exists f. split; [exact Hf|]. split; [|exact K]. unfold noout in N. destruct (ef_out f); [discriminate|reflexivity].
Qed.

(* nothing is forgotten: every written offset is acknowledged, pending, or carried by an emitted frame
   that has had no outcome yet; likewise a written FIN *)
Lemma nothing_forgotten s : nreach s ->
  (forall o, 0 <= o < Zlen (n_written s) ->
     ackedb (n_send s) o = 1 \/ contains o (s_pending (n_send s)) = true \/
     exists f, In f (n_emitted s) /\ ef_out f = None /\ ef_off f <= o < ef_off f + Zlen (ef_data f)) /\
  (eof s ->
     s_pending_eof (n_send s) = true \/ s_acked_fin (n_send s) = true \/
     exists f, In f (n_emitted s) /\ ef_out f = None /\ ef_fin f = true).
Proof.
  intros R. pose proof (nreach_inv _ R) as I. destruct (ni_reach _ I) as (outs & Rs & P).
  destruct (send_partition _ _ Rs) as (Part & Fin). cbn [g_written g_outs] in *. split.
  - intros o Ho. specialize (Part o Ho).
    pose proof (cover_nonneg o outs).
    assert (Ha : ackedb (n_send s) o = 0 \/ ackedb (n_send s) o = 1).
    { unfold ackedb. destruct (o <? s_start (n_send s)); [right; reflexivity|]. destruct (contains o (s_acked (n_send s))); cbn; lia. }
    destruct (contains o (s_pending (n_send s))) eqn:Ec; [right; left; reflexivity|]. cbn [b2z] in Part.
    destruct Ha as [Ha|Ha]; [|left; exact Ha]. right. right.
    destruct (cover_pos o outs ltac:(lia)) as (a & b & f & Hin & Hr).
    destruct (outs_of_in _ _ (Permutation_in _ P Hin)) as (x & Hx & Nx & Kx).
    exists x. split; [exact Hx|]. split; [exact Nx|]. unfold ef_key in Kx. inversion Kx; subst. exact Hr.
  - intros He. unfold eof in He. destruct (s_fin (n_send s)) as [f|] eqn:Ef; [|congruence].
    destruct (Fin f eq_refl) as (_ & [X|[X|X]]); [left; exact X|right; left; exact X|right; right].
    destruct (cfin_pos outs X) as (a & b & Hin).
    destruct (outs_of_in _ _ (Permutation_in _ P Hin)) as (x & Hx & Nx & Kx).
    exists x. split; [exact Hx|]. split; [exact Nx|]. unfold ef_key in Kx. inversion Kx. reflexivity.
Qed.

(* non-vacuity: a schedule with loss, duplication and reordering reaches complete delivery *)
Lemma run_sched_reach ops : forall s s', nreach s -> Forall data_op ops -> run_sched s ops = Some s' -> nreach s'.
Proof.
  induction ops as [|op t IH]; intros s s' R F H; cbn in H.
  - inversion H; subst. exact R.
  - inversion F; subst. destruct (net_step s op) as [[o s1]|] eqn:E; [|discriminate].
    eapply IH; [eapply nreach_step; eassumption|assumption|exact H].
Qed.

Example netsys_example :
  match run_sched net_init [NWrite [1; 2; 3] false; NEmit 2 None; NWrite [4] true; NEmit 10 None;
                            NDeliver 1; NDeliver 1; NOutcome 0 false; NEmit 10 None; NDeliver 2; NDeliver 0; NDeliver 1;
                            NOutcome 1 true; NOutcome 2 true; NPop; NSync] with
  | Some s => n_dbytes s = [1; 2; 3; 4] /\ n_ends s = 1 /\ s_finished (n_send s) = true /\ n_queue s = []
  | None => False
  end.
Proof. vm_compute. auto. Qed.
