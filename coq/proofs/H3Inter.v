(* C14: cross-stream interleaving of request / response streams.  Projection: on a connection, what handle_event returns
   for the deliveries of one bidirectional stream is what the parser of that stream returns when it is fed those
   deliveries alone -- whatever is delivered to other streams in between.  Hence any two interleavings of the same
   per-stream delivery sequences give, stream by stream, the same events. *)
From AQ Require Import lib.Base lib.Tok model.H3Parse proofs.H3Chunk proofs.H3Split proofs.H3Loop proofs.H3Recv proofs.H3Fin
  proofs.H3Uni proofs.H3Table proofs.H3Push proofs.H3Conn.
From Coq Require Import ZifyBool.

Definition delivery := (Z * list Z * bool)%type.      (* stream id, data, end_stream *)

(* the deliveries of one stream, in order *)
Fixpoint proj (sid : Z) (tr : list delivery) : list (list Z * bool) :=
  match tr with
  | [] => []
  | (s, d, f) :: rest => if s =? sid then (d, f) :: proj sid rest else proj sid rest
  end.

Section Inter.
Variable fx : fixes.
Variable O : oracle.      (* the same QPACK / validation answers for every call: no encoder-stream data in between *)

(* the connection: every delivery returns events (None: some delivery closed the connection or raised) *)
Fixpoint crun (c : conn) (tr : list delivery) : option (list (Z * list event)) :=
  match tr with
  | [] => Some []
  | (sid, d, f) :: rest =>
      match handle_event fx O c (QStream sid d f) with
      | (Events e, c') => option_map (cons (sid, e)) (crun c' rest)
      | _ => None
      end
  end.

(* one stream on its own *)
Fixpoint lrun (cl : bool) (st : hstream) (ds : list (list Z * bool)) : option (list (list event)) :=
  match ds with
  | [] => Some []
  | (d, f) :: rest =>
      match rq_recv fx O cl st d f with
      | RVal e st' => option_map (cons e) (lrun cl st' rest)
      | _ => None
      end
  end.

Definition outs_of (sid : Z) (outs : list (Z * list event)) : list (list event) :=
  map snd (filter (fun p => fst p =? sid) outs).

Definition bidi (tr : list delivery) : Prop := Forall (fun x => is_uni (fst (fst x)) = false) tr.

(* one delivery on a bidirectional stream: the stream's own parser, its entry in the table, nothing else *)
Lemma step_bidi : forall c sid d f e c', c_done c = false -> c_sent_end c = [] -> is_uni sid = false ->
  handle_event fx O c (QStream sid d f) = (Events e, c') ->
  exists st', rq_recv fx O (c_client c) (fst (get_or_create c sid)) d f = RVal e st' /\
    c_done c' = false /\ c_sent_end c' = [] /\ c_client c' = c_client c /\
    fst (get_or_create c' sid) = st' /\
    (forall x, x <> sid -> fst (get_or_create c' x) = fst (get_or_create c x)).
Proof.
  intros c sid d f e c' Hd Hs Hu H.
  rewrite (he_stream fx O c sid d f Hd) in H. unfold receive_stream_data in H.
  rewrite (recv_bidi fx O c sid d f Hu) in H.
  pose proof (goc_fields c sid) as (F1 & _ & F3 & _ & _ & _ & _ & _ & F9). cbv zeta in F1, F3, F9.
  set (cg := snd (get_or_create c sid)) in *. set (s0 := fst (get_or_create c sid)) in *.
  destruct (rq_recv fx O (c_client c) s0 d f) as [e1 st'| |] eqn:ER; cbn [to_rsd] in H; try discriminate.
  pose proof (rq_recv_id fx O _ _ _ _ _ _ ER) as Id. assert (Ids : s_id st' = sid) by (rewrite Id; apply goc_id).
  set (c1 := set_streams cg (put_stream st' (c_streams cg))) in *.
  assert (Fs : find_stream sid (c_streams c1) = Some st').
  { subst c1. cbn [c_streams set_streams]. rewrite <- Ids. apply find_put_same. }
  assert (Pop : pop_if_ended c1 sid = c1).
  { unfold pop_if_ended. rewrite Fs. unfold is_ended.
    replace (c_sent_end c1) with (c_sent_end cg) by (subst c1; destruct cg; reflexivity). rewrite F9, Hs. reflexivity. }
  rewrite Pop in H. inversion H; subst e1 c'. exists st'. split; [reflexivity|].
  split; [subst c1; destruct cg; cbn in *; congruence|].
  split; [subst c1; destruct cg; cbn in *; congruence|].
  split; [subst c1; destruct cg; cbn in *; congruence|].
  split.
  - unfold get_or_create. rewrite Fs. reflexivity.
  - intros x Hx. apply goc_fst_ext. subst c1. cbn [c_streams set_streams].
    rewrite find_put_other by (rewrite Ids; assumption). subst cg. apply goc_find_other. assumption.
Qed.

(* PROJECTION *)
Theorem interleave_projection : forall tr c outs,
  c_done c = false -> c_sent_end c = [] -> bidi tr -> crun c tr = Some outs ->
  forall sid, lrun (c_client c) (fst (get_or_create c sid)) (proj sid tr) = Some (outs_of sid outs).
Proof.
  induction tr as [|[[s d] f] rest IH]; intros c outs Hd Hs Hb H sid; cbn [crun proj] in *.
  - inversion H; subst. reflexivity.
  - inversion Hb as [|x l Hu Hrest]; subst. cbn [fst] in Hu.
    destruct (handle_event fx O c (QStream s d f)) as [o c'] eqn:HE. destruct o as [e| |]; try discriminate.
    destruct (crun c' rest) as [outs'|] eqn:HC; cbn [option_map] in H; [|discriminate]. inversion H; subst outs.
    destruct (step_bidi c s d f e c' Hd Hs Hu HE) as (st' & ER & D' & S' & C' & G1 & G2).
    specialize (IH c' outs' D' S' Hrest HC sid). rewrite C' in IH.
    unfold outs_of. cbn [filter fst].
    destruct (s =? sid) eqn:E.
    + assert (s = sid) by lia. subst s. cbn [lrun]. rewrite ER. rewrite G1 in IH. rewrite IH. reflexivity.
    + rewrite G2 in IH by lia. exact IH.
Qed.

(* INTERLEAVING INDEPENDENCE: two schedules that deliver the same chunks to every stream in the same per-stream order *)
Theorem interleave_independent : forall tr1 tr2 c outs1 outs2,
  c_done c = false -> c_sent_end c = [] -> bidi tr1 -> bidi tr2 ->
  (forall sid, proj sid tr1 = proj sid tr2) ->
  crun c tr1 = Some outs1 -> crun c tr2 = Some outs2 ->
  forall sid, outs_of sid outs1 = outs_of sid outs2.
Proof.
  intros tr1 tr2 c outs1 outs2 Hd Hs B1 B2 Hp H1 H2 sid.
  pose proof (interleave_projection tr1 c outs1 Hd Hs B1 H1 sid) as P1.
  pose proof (interleave_projection tr2 c outs2 Hd Hs B2 H2 sid) as P2.
  rewrite Hp in P1. rewrite P1 in P2. inversion P2. reflexivity.
Qed.


(* the other direction: when the parser of the stream accepts the delivery, so does the connection *)
Lemma step_bidi_fwd : forall c sid d f e st', c_done c = false -> c_sent_end c = [] -> is_uni sid = false ->
  rq_recv fx O (c_client c) (fst (get_or_create c sid)) d f = RVal e st' ->
  exists c', handle_event fx O c (QStream sid d f) = (Events e, c').
Proof.
  intros c sid d f e st' Hd Hs Hu ER.
  rewrite (he_stream fx O c sid d f Hd). unfold receive_stream_data.
  rewrite (recv_bidi fx O c sid d f Hu). rewrite ER. cbn [to_rsd]. eexists. reflexivity.
Qed.

(* a schedule is accepted as soon as every stream accepts its own deliveries *)
Theorem interleave_complete : forall tr c,
  c_done c = false -> c_sent_end c = [] -> bidi tr ->
  (forall sid, lrun (c_client c) (fst (get_or_create c sid)) (proj sid tr) <> None) ->
  crun c tr <> None.
Proof.
  induction tr as [|[[s d] f] rest IH]; intros c Hd Hs Hb Hall; cbn [crun]; [discriminate|].
  inversion Hb as [|x l Hu Hrest]; subst. cbn [fst] in Hu.
  pose proof (Hall s) as Hs0. cbn [proj] in Hs0. rewrite Z.eqb_refl in Hs0. cbn [lrun] in Hs0.
  destruct (rq_recv fx O (c_client c) (fst (get_or_create c s)) d f) as [e st'| |] eqn:ER; try (exfalso; apply Hs0; reflexivity).
  destruct (step_bidi_fwd c s d f e st' Hd Hs Hu ER) as (c' & HE). rewrite HE.
  destruct (step_bidi c s d f e c' Hd Hs Hu HE) as (st2 & ER2 & D' & S' & C' & G1 & G2).
  rewrite ER in ER2. injection ER2 as E2.
  assert (N : crun c' rest <> None).
  { apply IH; try assumption. intros sid. rewrite C'.
    destruct (Z.eq_dec sid s) as [->|Hne].
    - rewrite G1, <- E2. destruct (lrun (c_client c) st' (proj s rest)); [discriminate|]. exfalso. apply Hs0. reflexivity.
    - rewrite G2 by assumption. pose proof (Hall sid) as Hx. cbn [proj] in Hx.
      replace (s =? sid) with false in Hx by lia. exact Hx. }
  destruct (crun c' rest); [discriminate | congruence].
Qed.

(* ANY INTERLEAVING: if one schedule of the deliveries is accepted, so is every other schedule that keeps the order of the
   deliveries of each stream, and stream by stream the events returned are the same, delivery by delivery *)
Theorem interleave_any : forall tr1 tr2 c outs1,
  c_done c = false -> c_sent_end c = [] -> bidi tr1 -> bidi tr2 ->
  (forall sid, proj sid tr1 = proj sid tr2) ->
  crun c tr1 = Some outs1 ->
  exists outs2, crun c tr2 = Some outs2 /\ forall sid, outs_of sid outs1 = outs_of sid outs2.
Proof.
  intros tr1 tr2 c outs1 Hd Hs B1 B2 Hp H1.
  assert (N : crun c tr2 <> None).
  { apply interleave_complete; try assumption. intros sid. rewrite <- Hp.
    rewrite (interleave_projection tr1 c outs1 Hd Hs B1 H1 sid). discriminate. }
  destruct (crun c tr2) as [outs2|] eqn:H2; [|congruence].
  exists outs2. split; [reflexivity|]. intros sid.
  exact (interleave_independent tr1 tr2 c outs1 outs2 Hd Hs B1 B2 Hp H1 H2 sid).
Qed.


(* ------------------------------------------------------------------ unidirectional streams in between *)
(* nothing waits for the encoder stream: its deliveries report no stream as unblocked *)
Definition quiet : Prop := forall x l, o_enc O x = EUnblocked l -> l = [].

Lemma pop_no_local_end : forall c sid, c_sent_end c = [] -> pop_if_ended c sid = c.
Proof.
  intros c sid H. unfold pop_if_ended. destruct (find_stream sid (c_streams c)); [|reflexivity].
  unfold is_ended. rewrite H. reflexivity.
Qed.

(* a delivery on a unidirectional stream (control, push, WebTransport, QPACK encoder / decoder, unknown type) that
   returns events leaves every bidirectional stream's entry alone *)
Lemma step_uni : forall c sid d f e c', c_done c = false -> c_sent_end c = [] -> is_uni sid = true -> quiet ->
  handle_event fx O c (QStream sid d f) = (Events e, c') ->
  c_done c' = false /\ c_sent_end c' = [] /\ c_client c' = c_client c /\
  (forall x, is_uni x = false -> fst (get_or_create c' x) = fst (get_or_create c x)).
Proof.
  intros c sid d f e c' Hd Hs Hu Hq H.
  rewrite (he_stream fx O c sid d f Hd) in H. unfold receive_stream_data in H.
  rewrite (recv0_uni_full fx O c sid d f Hu) in H. rewrite (goc_pair c sid) in H.
  pose proof (goc_fields c sid) as (F1 & _ & F3 & _ & _ & _ & _ & _ & F9). cbv zeta in F1, F3, F9.
  set (cg := snd (get_or_create c sid)) in *. set (s0 := fst (get_or_create c sid)) in *.
  destruct (uni_full fx O s0 cg d f) as [e1 st' c1 u| |] eqn:EU; try discriminate.
  pose proof (uni_full_frame fx O _ _ _ _ _ _ _ _ EU) as (A1 & A2 & A3 & A4).
  pose proof (uni_full_frame2 fx O _ _ _ _ _ _ _ _ EU) as (B1 & B2).
  assert (u = []) by (destruct A4 as [-> | (_ & x & Hx)]; [reflexivity | eapply Hq; eassumption]). subst u.
  cbn [unblock] in H.
  rewrite pop_no_local_end in H by (cbn [c_sent_end set_streams]; destruct c1; cbn in *; congruence).
  inversion H; subst e1 c'.
  assert (Ids : s_id st' = sid) by (rewrite A3; apply goc_id).
  repeat split.
  - destruct c1; cbn in *; congruence.
  - destruct c1; cbn in *; congruence.
  - destruct c1; cbn in *; congruence.
  - intros x Hx. assert (x <> sid) by (intros ->; congruence).
    apply goc_fst_ext. cbn [c_streams set_streams]. rewrite ?c_streams_ss.
    rewrite find_put_other by (rewrite Ids; assumption). rewrite A2. subst cg. apply goc_find_other. assumption.
Qed.

(* PROJECTION with unidirectional deliveries in the schedule: the events of a request / response stream are what its own
   parser returns, whatever is delivered in between to other request streams AND to unidirectional streams *)
Theorem interleave_projection_mixed : forall tr c outs,
  c_done c = false -> c_sent_end c = [] -> quiet -> crun c tr = Some outs ->
  forall sid, is_uni sid = false -> lrun (c_client c) (fst (get_or_create c sid)) (proj sid tr) = Some (outs_of sid outs).
Proof.
  induction tr as [|[[s d] f] rest IH]; intros c outs Hd Hs Hq H sid Hb; cbn [crun proj] in *.
  - inversion H; subst. reflexivity.
  - destruct (handle_event fx O c (QStream s d f)) as [o c'] eqn:HE. destruct o as [e| |]; try discriminate.
    destruct (crun c' rest) as [outs'|] eqn:HC; cbn [option_map] in H; [|discriminate]. inversion H; subst outs.
    unfold outs_of. cbn [filter fst].
    destruct (is_uni s) eqn:Us.
    + destruct (step_uni c s d f e c' Hd Hs Us Hq HE) as (D' & S' & C' & G).
      specialize (IH c' outs' D' S' Hq HC sid Hb). rewrite C', G in IH by assumption.
      replace (s =? sid) with false by (destruct (s =? sid) eqn:E; [assert (s = sid) by lia; congruence | reflexivity]).
      exact IH.
    + destruct (step_bidi c s d f e c' Hd Hs Us HE) as (st' & ER & D' & S' & C' & G1 & G2).
      specialize (IH c' outs' D' S' Hq HC sid Hb). rewrite C' in IH.
      destruct (s =? sid) eqn:E.
      * assert (s = sid) by lia. subst s. cbn [lrun]. rewrite ER. rewrite G1 in IH. rewrite IH. reflexivity.
      * rewrite G2 in IH by lia. exact IH.
Qed.

Theorem interleave_independent_mixed : forall tr1 tr2 c outs1 outs2,
  c_done c = false -> c_sent_end c = [] -> quiet ->
  crun c tr1 = Some outs1 -> crun c tr2 = Some outs2 ->
  forall sid, is_uni sid = false -> proj sid tr1 = proj sid tr2 -> outs_of sid outs1 = outs_of sid outs2.
Proof.
  intros tr1 tr2 c outs1 outs2 Hd Hs Hq H1 H2 sid Hb Hp.
  pose proof (interleave_projection_mixed tr1 c outs1 Hd Hs Hq H1 sid Hb) as P1.
  pose proof (interleave_projection_mixed tr2 c outs2 Hd Hs Hq H2 sid Hb) as P2.
  rewrite Hp in P1. rewrite P1 in P2. inversion P2. reflexivity.
Qed.

End Inter.
