(* C15 proofs about the validators of coq/model/H3Validate.v. *)
From Coq Require Import ZArith List Bool Lia ZifyBool.
From AQ Require Import lib.Base model.H3Validate proofs.H3ValidateSpec gen.C15Tables.

(* ---------- small facts *)
Lemma bytes_eqb_eq : forall a b, bytes_eqb a b = true <-> a = b.
Proof.
  induction a as [|x a IH]; destruct b as [|y b]; cbn; split; intro H; try congruence; try discriminate.
  - apply andb_true_iff in H as [H1 H2]. apply Z.eqb_eq in H1. apply IH in H2. congruence.
  - inversion H; subst. rewrite Z.eqb_refl. cbn. apply IH. reflexivity.
Qed.

Lemma bytes_eqb_refl : forall a, bytes_eqb a a = true.
Proof. intro a. apply bytes_eqb_eq. reflexivity. Qed.

Lemma mem_bytes_In : forall k l, mem_bytes k l = true <-> In k l.
Proof.
  intros k l. unfold mem_bytes. rewrite existsb_exists. split.
  - intros [x [Hin He]]. apply bytes_eqb_eq in He. subst. exact Hin.
  - intro H. exists k. split; [exact H | apply bytes_eqb_refl].
Qed.

Lemma mem_bytes_false : forall k l, mem_bytes k l = false <-> ~ In k l.
Proof.
  intros k l. rewrite <- mem_bytes_In. destruct (mem_bytes k l); split; congruence.
Qed.

Lemma memz_In : forall c l, memz c l = true <-> In c l.
Proof.
  intros c l. unfold memz. rewrite existsb_exists. split.
  - intros [x [Hin He]]. apply Z.eqb_eq in He. subst. exact Hin.
  - intro H. exists c. split; [exact H | apply Z.eqb_refl].
Qed.

Lemma pseudo_prefix_spec : forall k, prefixb gen_pseudo_prefix k = true <-> is_pseudo k.
Proof.
  intro k. unfold gen_pseudo_prefix, is_pseudo. destruct k as [|c t]; cbn [prefixb].
  - split; [discriminate | intros [t H]; discriminate].
  - rewrite andb_true_r. split.
    + intro H. apply Z.eqb_eq in H. subst. eexists. reflexivity.
    + intros [t' H]. inversion H. apply Z.eqb_refl.
Qed.

(* ---------- validate_header_name *)
Lemma name_bad_false : forall i c, gen_name_bad i c = false -> name_char_ok c.
Proof. intros i c H. unfold gen_name_bad in H. unfold name_char_ok. lia. Qed.

Lemma name_loop_ok : forall k i, name_loop i k = VOk tt -> name_ok k.
Proof.
  induction k as [|c t IH]; intros i H; cbn in H.
  - constructor.
  - destruct (gen_name_bad i c) eqn:E; [discriminate|].
    constructor; [eapply name_bad_false; eauto | eapply IH; eauto].
Qed.

Lemma name_loop_outcomes : forall k i, name_loop i k = VOk tt \/ name_loop i k = PErr gen_MessageError_code.
Proof.
  induction k as [|c t IH]; intros i; cbn; [left; reflexivity|].
  destruct (gen_name_bad i c); [right; reflexivity | apply IH].
Qed.

(* ---------- validate_header_value *)
Lemma value_loop_ok : forall v, value_loop v = VOk tt -> Forall value_char_ok v.
Proof.
  induction v as [|c t IH]; intro H; cbn in H; [constructor|].
  destruct (gen_value_bad c) eqn:E; [discriminate|].
  constructor; [| apply IH; exact H].
  unfold gen_value_bad in E. unfold value_char_ok. lia.
Qed.

Lemma value_loop_outcomes : forall v, value_loop v = VOk tt \/ value_loop v = PErr gen_MessageError_code.
Proof.
  induction v as [|c t IH]; cbn; [left; reflexivity|].
  destruct (gen_value_bad c); [right; reflexivity | exact IH].
Qed.

Lemma Zlen_cons : forall (A : Type) (x : A) l, Zlen (x :: l) = 1 + Zlen l.
Proof. intros. unfold Zlen. cbn [length]. lia. Qed.

Lemma Zlen_nonneg : forall (A : Type) (l : list A), 0 <= Zlen l.
Proof. intros. unfold Zlen. lia. Qed.

Lemma Zlen_app : forall (A : Type) (a b : list A), Zlen (a ++ b) = Zlen a + Zlen b.
Proof. intros. unfold Zlen. rewrite app_length. lia. Qed.

Lemma py_index_first : forall c t, py_index (c :: t) 0 = Some c.
Proof.
  intros. unfold py_index. rewrite Zlen_cons. pose proof (Zlen_nonneg _ t).
  change (0 <? 0) with false. cbv iota. destruct ((0 <? 0) || (0 >=? 1 + Zlen t)) eqn:E; [lia|]. reflexivity.
Qed.

Lemma py_index_last : forall t c, py_index (t ++ [c]) (-1) = Some c.
Proof.
  intros. unfold py_index. rewrite Zlen_app. pose proof (Zlen_nonneg _ t).
  change (Zlen [c]) with 1. change (-1 <? 0) with true. cbv iota.
  destruct ((-1 + (Zlen t + 1) <? 0) || (-1 + (Zlen t + 1) >=? Zlen t + 1)) eqn:E; [lia|].
  replace (Z.to_nat (-1 + (Zlen t + 1))) with (length t) by (unfold Zlen; lia).
  rewrite nth_error_app2 by lia. rewrite Nat.sub_diag. reflexivity.
Qed.

Lemma validate_header_value_ok : forall v, validate_header_value v = VOk tt -> value_ok v.
Proof.
  intros v H. unfold validate_header_value in H.
  destruct (value_loop v) as [[]| |] eqn:EL; cbn [vbind] in H; try discriminate.
  apply value_loop_ok in EL. unfold value_ok. split; [exact EL|].
  unfold gen_first_guard, gen_first_index, gen_first_set, gen_last_guard, gen_last_index, gen_last_set in H.
  destruct v as [|c0 t0].
  - split; intros c t E; [discriminate | destruct t; discriminate].
  - rewrite py_index_first in H.
    pose proof (Zlen_nonneg _ t0) as Hn. rewrite Zlen_cons in H.
    destruct (1 + Zlen t0 >? 0) eqn:E0; [|lia].
    destruct (memz c0 [32; 9]) eqn:E1; [discriminate|].
    assert (Hc0 : ~ ws c0).
    { intro W. assert (memz c0 [32; 9] = true); [|congruence]. apply memz_In. unfold ws in W. cbn. intuition. }
    split.
    + intros c t E. inversion E; subst. exact Hc0.
    + intros c t E.
      destruct t as [|x t'].
      * cbn in E. inversion E; subst. exact Hc0.
      * assert (HL : 1 + Zlen t0 >? 1 = true).
        { assert (Zlen (c0 :: t0) = Zlen ((x :: t') ++ [c])) by (rewrite E; reflexivity).
          rewrite Zlen_cons, Zlen_app, Zlen_cons in H0. change (Zlen [c]) with 1 in H0. pose proof (Zlen_nonneg _ t'). lia. }
        rewrite HL in H. rewrite E in H. rewrite py_index_last in H.
        destruct (memz c [32; 9]) eqn:E2; [discriminate|].
        intro W. assert (memz c [32; 9] = true); [|congruence]. apply memz_In. unfold ws in W. cbn. intuition.
Qed.

Lemma validate_header_value_outcomes :
  forall v, validate_header_value v = VOk tt \/ validate_header_value v = PErr gen_MessageError_code.
Proof.
  intro v. unfold validate_header_value.
  destruct (value_loop_outcomes v) as [E|E]; rewrite E; cbn [vbind]; [|right; reflexivity].
  unfold gen_first_guard, gen_first_index, gen_first_set, gen_last_guard, gen_last_index, gen_last_set, message_error.
  destruct v as [|c0 t0]; [left; reflexivity|].
  rewrite py_index_first.
  destruct (Zlen (c0 :: t0) >? 0); [|left; reflexivity].
  destruct (memz c0 [32; 9]); [right; reflexivity|].
  destruct (Zlen (c0 :: t0) >? 1); [|left; reflexivity].
  destruct (exists_last (l := c0 :: t0)) as [t [c Ht]]; [discriminate|].
  rewrite Ht, py_index_last.
  destruct (memz c [32; 9]); [right|left]; reflexivity.
Qed.

(* ---------- int(bytes) and content-length *)
Lemma py_int_body_outcomes : forall neg s, (exists n, py_int_body neg s = VOk n) \/ py_int_body neg s = Exn K_ValueError.
Proof.
  intros neg s. unfold py_int_body.
  destruct (digits_loop s 0 0 false) as [[[n nd] rest]|]; [|right; reflexivity].
  destruct (nd =? 0); [right; reflexivity|].
  destruct (skip_space rest); [|right; reflexivity].
  destruct (nd >? MAX_STR_DIGITS); [right; reflexivity|left; eauto].
Qed.

Lemma py_int_unsigned_outcomes : forall neg s, (exists n, py_int_unsigned neg s = VOk n) \/ py_int_unsigned neg s = Exn K_ValueError.
Proof.
  intros neg s. unfold py_int_unsigned. destruct s as [|c t]; [apply py_int_body_outcomes|].
  destruct (c =? 95); [right; reflexivity | apply py_int_body_outcomes].
Qed.

(* int(value) on bytes raises nothing but ValueError *)
Lemma py_int_bytes_outcomes : forall v, (exists n, py_int_bytes v = VOk n) \/ py_int_bytes v = Exn K_ValueError.
Proof.
  intro v. unfold py_int_bytes. destruct (skip_space v) as [|c t]; [apply py_int_unsigned_outcomes|].
  destruct (c =? 43); [apply py_int_unsigned_outcomes|].
  destruct (c =? 45); apply py_int_unsigned_outcomes.
Qed.

Lemma parse_content_length_outcomes :
  forall v, (exists n, parse_content_length v = VOk n /\ 0 <= n) \/ parse_content_length v = PErr gen_MessageError_code.
Proof.
  intro v. unfold parse_content_length.
  destruct (py_int_bytes_outcomes v) as [[n E]|E]; rewrite E; cbn [vbind].
  - unfold gen_cl_bad. destruct (n <? 0) eqn:En.
    + right. reflexivity.
    + left. exists n. split; [reflexivity | lia].
  - right. reflexivity.
Qed.

(* ---------- the header loop *)
Lemma store_pseudo_fields : forall st k v,
  vs_seen (store_pseudo st k v) = k :: vs_seen st /\ vs_after (store_pseudo st k v) = vs_after st
  /\ vs_cl (store_pseudo st k v) = vs_cl st /\ vs_ecl (store_pseudo st k v) = vs_ecl st.
Proof.
  intros. unfold store_pseudo.
  destruct (bytes_eqb k gen_key_authority); [cbn; auto|].
  destruct (bytes_eqb k gen_key_path); [cbn; auto|].
  destruct (bytes_eqb k gen_key_scheme); cbn; auto.
Qed.

Definition hdr_ok (h : header) : Prop := name_ok (fst h) /\ value_ok (snd h).
Definition no_pseudo (ns : list bytes) : Prop := Forall (fun k => ~ is_pseudo k) ns.

Lemma pseudo_dec : forall k, prefixb gen_pseudo_prefix k = false <-> ~ is_pseudo k.
Proof. intro k. rewrite <- pseudo_prefix_spec. destruct (prefixb gen_pseudo_prefix k); split; congruence. Qed.

Lemma vh_loop_inv : forall allowed us hs st st',
  vh_loop allowed us hs st = VOk st' ->
  Forall hdr_ok hs
  /\ (vs_after st = true -> no_pseudo (names hs))
  /\ pseudo_first (names hs)
  /\ (forall k, In k (names hs) -> is_pseudo k -> In k allowed /\ ~ In k (vs_seen st))
  /\ pseudo_unique (names hs)
  /\ (forall k, In k (vs_seen st') <-> In k (vs_seen st) \/ (In k (names hs) /\ is_pseudo k)).
Proof.
  intros allowed us. induction hs as [|[key value] t IH]; intros st st' H.
  - cbn in H. inversion H; subst. cbn.
    split; [constructor|].
    split; [intro; constructor|].
    split; [exists [], []; repeat split; constructor|].
    split; [intros k []|].
    split; [intros pre k mid post E; destruct pre; discriminate|].
    intro k. split; [intro; left; assumption | intros [?|[[] _]]; assumption].
  - cbn [vh_loop] in H.
    destruct (validate_header_name key) as [[]| |] eqn:EN; cbn [vbind] in H; try discriminate.
    destruct (validate_header_value value) as [[]| |] eqn:EV; cbn [vbind] in H; try discriminate.
    apply name_loop_ok in EN. apply validate_header_value_ok in EV.
    assert (Hh : hdr_ok (key, value)) by (split; assumption).
    destruct (prefixb gen_pseudo_prefix key) eqn:EP.
    + (* pseudo-header *)
      apply pseudo_prefix_spec in EP.
      destruct (vs_after st) eqn:EA; [discriminate|].
      destruct (mem_bytes key allowed) eqn:EAl; cbn [negb] in H; [|discriminate].
      destruct (mem_bytes key (vs_seen st)) eqn:ES; [discriminate|].
      apply mem_bytes_In in EAl. apply mem_bytes_false in ES.
      destruct (store_pseudo_fields st key value) as [F1 [F2 _]].
      apply IH in H. destruct H as [I1 [I2 [I3 [I4 [I5 I6]]]]].
      rewrite F1 in I4, I6. unfold names in *. cbn [map fst] in *.
      split; [constructor; assumption|].
      split; [intro; discriminate|].
      split.
      { destruct I3 as [ps [rs [E [P R]]]]. exists (key :: ps), rs. rewrite E. repeat split; try assumption. constructor; assumption. }
      split.
      { intros k [Ek|Hin] Hp.
        - subst k. split; assumption.
        - destruct (I4 k Hin Hp) as [A B]. split; [exact A|]. intro C. apply B. right. exact C. }
      split.
      { intros pre k mid post E Hp. destruct pre as [|p pre'].
        - cbn in E. inversion E; subst.
          assert (Hin : In k (map fst t)) by (rewrite H1; apply in_or_app; right; left; reflexivity).
          destruct (I4 k Hin Hp) as [_ B]. apply B. left. reflexivity.
        - cbn in E. inversion E; subst. eapply I5; eauto. }
      { intro k. rewrite I6. cbn [In]. split.
        - intros [[Ek|Hs]|[Hin Hp]].
          + subst. right. split; [left; reflexivity | assumption].
          + left. assumption.
          + right. split; [right; assumption | assumption].
        - intros [Hs|[[Ek|Hin] Hp]].
          + left. right. assumption.
          + subst. left. left. reflexivity.
          + right. split; assumption. }
    + (* regular header *)
      apply pseudo_dec in EP.
      assert (Hrest : exists st1, vs_after st1 = true /\ vs_seen st1 = vs_seen st /\ vh_loop allowed us t st1 = VOk st').
      { destruct (bytes_eqb key gen_key_content_length).
        - destruct (parse_content_length value) as [n| |]; cbn [vbind] in H; try discriminate.
          destruct (match vs_cl (set_after st) with Some m => gen_cl_conflict n m | None => false end); [discriminate|].
          eexists. split; [|split; [|exact H]]; reflexivity.
        - destruct (bytes_eqb key gen_key_transfer_encoding && negb (bytes_eqb value gen_te_value)); [discriminate|].
          eexists. split; [|split; [|exact H]]; reflexivity. }
      destruct Hrest as [st1 [A1 [S1 H1]]].
      apply IH in H1. destruct H1 as [I1 [I2 [I3 [I4 [I5 I6]]]]].
      specialize (I2 A1). rewrite S1 in I4, I6. unfold names in *. cbn [map fst] in *.
      split; [constructor; assumption|].
      split; [intro; constructor; assumption|].
      split.
      { exists [], (key :: map fst t). repeat split; constructor; assumption. }
      split.
      { intros k [Ek|Hin] Hp.
        - subst. contradiction.
        - apply I4; assumption. }
      split.
      { intros pre k mid post E Hp. destruct pre as [|p pre'].
        - cbn in E. inversion E; subst. contradiction.
        - cbn in E. inversion E; subst. eapply I5; eauto. }
      { intro k. rewrite I6. cbn [In]. split.
        - intros [Hs|[Hin Hp]]; [left; assumption | right; split; [right|]; assumption].
        - intros [Hs|[[Ek|Hin] Hp]]; [left; assumption | subst; contradiction | right; split; assumption]. }
Qed.

Lemma vh_loop_outcomes : forall allowed us hs st,
  (exists st', vh_loop allowed us hs st = VOk st') \/ vh_loop allowed us hs st = PErr gen_MessageError_code.
Proof.
  intros allowed us. induction hs as [|[key value] t IH]; intro st; cbn [vh_loop]; [left; eauto|].
  unfold validate_header_name.
  destruct (name_loop_outcomes key 0) as [E|E]; rewrite E; cbn [vbind]; [|right; reflexivity].
  destruct (validate_header_value_outcomes value) as [E2|E2]; rewrite E2; cbn [vbind]; [|right; reflexivity].
  unfold message_error.
  destruct (prefixb gen_pseudo_prefix key).
  - destruct (vs_after st); [right; reflexivity|].
    destruct (negb (mem_bytes key allowed)); [right; reflexivity|].
    destruct (mem_bytes key (vs_seen st)); [right; reflexivity|]. apply IH.
  - destruct (bytes_eqb key gen_key_content_length).
    + destruct (parse_content_length_outcomes value) as [[n [E3 _]]|E3]; rewrite E3; cbn [vbind]; [|right; reflexivity].
      destruct (match vs_cl (set_after st) with Some m => gen_cl_conflict n m | None => false end); [right; reflexivity | apply IH].
    + destruct (bytes_eqb key gen_key_transfer_encoding && negb (bytes_eqb value gen_te_value)); [right; reflexivity | apply IH].
Qed.

Lemma validate_headers_outcomes : forall allowed required us hs,
  (exists ecl, validate_headers allowed required us hs = VOk ecl)
  \/ validate_headers allowed required us hs = PErr gen_MessageError_code.
Proof.
  intros. unfold validate_headers.
  destruct (vh_loop_outcomes allowed us hs vstate_init) as [[st E]|E]; rewrite E; cbn [vbind]; [|right; reflexivity].
  unfold message_error.
  destruct (existsb _ required); [right; reflexivity|].
  destruct (match vs_scheme st with Some s => mem_bytes s gen_schemes | None => false end); [|left; eauto].
  destruct (opt_empty (vs_authority st)); [right; reflexivity|].
  destruct (opt_empty (vs_path st)); [right; reflexivity | left; eauto].
Qed.

(* the translator produced the tables from the current source (not from its built-in snapshot) *)
Lemma gen_ok_true : gen_ok = true.
Proof. reflexivity. Qed.

(* T1: the validators return normally or raise the h3 MessageError (H3_MESSAGE_ERROR); nothing else escapes *)
Lemma validate_outcomes_proof : forall k hs,
  (exists ecl, validate k hs = VOk ecl) \/ validate k hs = PErr H3_MESSAGE_ERROR.
Proof.
  intros k hs. change H3_MESSAGE_ERROR with gen_MessageError_code.
  destruct k; apply validate_headers_outcomes.
Qed.

Lemma message_error_code_is_rfc : gen_MessageError_code = H3_MESSAGE_ERROR /\ gen_H3_MESSAGE_ERROR = H3_MESSAGE_ERROR.
Proof. split; reflexivity. Qed.

Lemma validate_headers_wf : forall allowed required us hs ecl,
  validate_headers allowed required us hs = VOk ecl ->
  Forall hdr_ok hs /\ pseudo_first (names hs) /\ pseudo_unique (names hs)
  /\ (forall k, In k (names hs) -> is_pseudo k -> In k allowed)
  /\ (forall r, In r required -> In r (names hs)).
Proof.
  intros allowed required us hs ecl H. unfold validate_headers in H.
  destruct (vh_loop allowed us hs vstate_init) as [st| |] eqn:EL; cbn [vbind] in H; try discriminate.
  apply vh_loop_inv in EL. destruct EL as [I1 [_ [I3 [I4 [I5 I6]]]]].
  destruct (existsb (fun r => negb (mem_bytes r (vs_seen st))) required) eqn:ER; [discriminate|].
  repeat split; try assumption.
  - intros k Hin Hp. apply (I4 k Hin Hp).
  - intros r Hr.
    assert (Hm : mem_bytes r (vs_seen st) = true).
    { destruct (mem_bytes r (vs_seen st)) eqn:Em; [reflexivity|].
      assert (existsb (fun r => negb (mem_bytes r (vs_seen st))) required = true); [|congruence].
      apply existsb_exists. exists r. split; [exact Hr | rewrite Em; reflexivity]. }
    apply mem_bytes_In in Hm. apply I6 in Hm. cbn in Hm. destruct Hm as [[]|[Hin _]]. exact Hin.
Qed.

Lemma incl_by_compute : forall a b, forallb (fun k => mem_bytes k b) a = true -> forall k, In k a -> In k b.
Proof. intros a b H k Hin. rewrite forallb_forall in H. apply mem_bytes_In. apply H. exact Hin. Qed.

(* T2: an accepted header list satisfies every rule of the property sentence *)
Lemma validated_implies_wellformed_proof : forall k hs ecl, validate k hs = VOk ecl -> wellformed k hs.
Proof.
  intros k hs ecl H. unfold wellformed.
  destruct k; cbn [validate] in H; apply validate_headers_wf in H; destruct H as [W1 [W2 [W3 [W4 W5]]]];
    (split; [exact W1|]); (split; [exact W2|]); (split; [exact W3|]); split.
  - intros k Hin Hp. apply (incl_by_compute gen_allowed_request); [reflexivity | apply W4; assumption].
  - cbn. apply W5. apply mem_bytes_In. reflexivity.
  - intros k Hin Hp. apply (incl_by_compute gen_allowed_response); [reflexivity | apply W4; assumption].
  - cbn. apply W5. apply mem_bytes_In. reflexivity.
  - intros k Hin Hp. apply (incl_by_compute gen_allowed_push_promise); [reflexivity | apply W4; assumption].
  - cbn. apply W5. apply mem_bytes_In. reflexivity.
  - intros k Hin Hp. apply (incl_by_compute gen_allowed_trailers); [reflexivity | apply W4; assumption].
  - cbn. apply Forall_forall. intros k Hin Hp. apply (W4 k Hin Hp).
Qed.

(* the converse does not hold: the code is stricter (e.g. a request without :authority) *)
Example converse_fails :
  wellformed KRequest [(b_method, [71; 69; 84])] /\ validate KRequest [(b_method, [71; 69; 84])] = PErr H3_MESSAGE_ERROR.
Proof.
  split; [|reflexivity].
  unfold wellformed, names; cbn [map fst].
  split.
  { constructor; [|constructor]. split; cbn [fst snd].
    - unfold name_ok, b_method. repeat constructor; unfold name_char_ok; lia.
    - unfold value_ok. split; [repeat constructor; lia|]. split.
      + intros c t E. inversion E; subst. unfold ws. lia.
      + intros c t E. destruct t as [|a [|b [|d t]]]; cbn in E; inversion E; subst; try (unfold ws; lia).
        destruct t; discriminate. }
  split; [exists [b_method], []; repeat split; repeat constructor; eexists; reflexivity|].
  split.
  { intros pre k mid post E. destruct pre as [|p [|q pre]]; cbn in E; inversion E; subst;
      try (destruct mid; discriminate); try (destruct pre; discriminate). }
  split; [intros k [E|[]] _; subst; left; reflexivity | left; reflexivity].
Qed.
