(* C15 proofs about the validators of coq/model/H3Validate.v. *)
From Coq Require Import ZArith List Bool Lia ZifyBool.
From AQ Require Import lib.Base model.H3Validate proofs.H3ValidateSpec gen.C15Tables.

(* ---------- small facts *)
Lemma bytes_eqb_eq : forall a b, bytes_eqb a b = true <-> a = b.
Proof.
  induction a as [|x a IH]; destruct b as [|y b]; cbn; split; intro H; try congruence; try discriminate.
  - apply andb_true_iff in H as [H1 H2]. apply Z.eqb_eq in H1. apply IH in H2. congruence.
  - inversion H; subst. rewrite Z.eqb_refl. cbn. apply IH. reflexivity.
Qed.

Lemma bytes_eqb_refl : forall a, bytes_eqb a a = true.
Proof. intro a. apply bytes_eqb_eq. reflexivity. Qed.

Lemma mem_bytes_In : forall k l, mem_bytes k l = true <-> In k l.
Proof.
  intros k l. unfold mem_bytes. rewrite existsb_exists. split.
  - intros [x [Hin He]]. apply bytes_eqb_eq in He. subst. exact Hin.
  - intro H. exists k. split; [exact H | apply bytes_eqb_refl].
Qed.

Lemma mem_bytes_false : forall k l, mem_bytes k l = false <-> ~ In k l.
Proof.
  intros k l. rewrite <- mem_bytes_In. destruct (mem_bytes k l); split; congruence.
Qed.

Lemma memz_In : forall c l, memz c l = true <-> In c l.
Proof.
  intros c l. unfold memz. rewrite existsb_exists. split.
  - intros [x [Hin He]]. apply Z.eqb_eq in He. subst. exact Hin.
  - intro H. exists c. split; [exact H | apply Z.eqb_refl].
Qed.

Lemma pseudo_prefix_spec : forall k, prefixb gen_pseudo_prefix k = true <-> is_pseudo k.
Proof.
  intro k. unfold gen_pseudo_prefix, is_pseudo. destruct k as [|c t]; cbn [prefixb].
  - split; [discriminate | intros [t H]; discriminate].
  - rewrite andb_true_r. split.
    + intro H. apply Z.eqb_eq in H. subst. eexists. reflexivity.
    + intros [t' H]. inversion H. apply Z.eqb_refl.
Qed.

(* ---------- validate_header_name *)
Lemma name_bad_false : forall i c, gen_name_bad i c = false -> name_char_ok c.
Proof. intros i c H. unfold gen_name_bad in H. unfold name_char_ok. lia. Qed.

Lemma name_loop_ok : forall k i, name_loop i k = VOk tt -> name_ok k.
Proof.
  induction k as [|c t IH]; intros i H; cbn in H.
  - constructor.
  - destruct (gen_name_bad i c) eqn:E; [discriminate|].
    constructor; [eapply name_bad_false; eauto | eapply IH; eauto].
Qed.

Lemma name_loop_outcomes : forall k i, name_loop i k = VOk tt \/ name_loop i k = PErr gen_MessageError_code.
Proof.
  induction k as [|c t IH]; intros i; cbn; [left; reflexivity|].
  destruct (gen_name_bad i c); [right; reflexivity | apply IH].
Qed.

(* ---------- validate_header_value *)
Lemma value_loop_ok : forall v, value_loop v = VOk tt -> Forall value_char_ok v.
Proof.
  induction v as [|c t IH]; intro H; cbn in H; [constructor|].
  destruct (gen_value_bad c) eqn:E; [discriminate|].
  constructor; [| apply IH; exact H].
  unfold gen_value_bad in E. unfold value_char_ok. lia.
Qed.

Lemma value_loop_outcomes : forall v, value_loop v = VOk tt \/ value_loop v = PErr gen_MessageError_code.
Proof.
  induction v as [|c t IH]; cbn; [left; reflexivity|].
  destruct (gen_value_bad c); [right; reflexivity | exact IH].
Qed.

Lemma Zlen_cons : forall (A : Type) (x : A) l, Zlen (x :: l) = 1 + Zlen l.
Proof. intros. unfold Zlen. cbn [length]. lia. Qed.

Lemma Zlen_nonneg : forall (A : Type) (l : list A), 0 <= Zlen l.
Proof. intros. unfold Zlen. lia. Qed.

Lemma Zlen_app : forall (A : Type) (a b : list A), Zlen (a ++ b) = Zlen a + Zlen b.
Proof. intros. unfold Zlen. rewrite app_length. lia. Qed.

Lemma py_index_first : forall c t, py_index (c :: t) 0 = Some c.
Proof.
  intros. unfold py_index. rewrite Zlen_cons. pose proof (Zlen_nonneg _ t).
  change (0 <? 0) with false. cbv iota. destruct ((0 <? 0) || (0 >=? 1 + Zlen t)) eqn:E; [lia|]. reflexivity.
Qed.

Lemma py_index_last : forall t c, py_index (t ++ [c]) (-1) = Some c.
Proof.
  intros. unfold py_index. rewrite Zlen_app. pose proof (Zlen_nonneg _ t).
  change (Zlen [c]) with 1. change (-1 <? 0) with true. cbv iota.
  destruct ((-1 + (Zlen t + 1) <? 0) || (-1 + (Zlen t + 1) >=? Zlen t + 1)) eqn:E; [lia|].
  replace (Z.to_nat (-1 + (Zlen t + 1))) with (length t) by (unfold Zlen; lia).
  rewrite nth_error_app2 by lia. rewrite Nat.sub_diag. reflexivity.
Qed.

Lemma validate_header_value_ok : forall v, validate_header_value v = VOk tt -> value_ok v.
Proof.
  intros v H. unfold validate_header_value in H.
  destruct (value_loop v) as [[]| |] eqn:EL; cbn [vbind] in H; try discriminate.
  apply value_loop_ok in EL. unfold value_ok. split; [exact EL|].
  unfold gen_first_guard, gen_first_index, gen_first_set, gen_last_guard, gen_last_index, gen_last_set in H.
  destruct v as [|c0 t0].
  - split; intros c t E; [discriminate | destruct t; discriminate].
  - rewrite py_index_first in H.
    pose proof (Zlen_nonneg _ t0) as Hn. rewrite Zlen_cons in H.
    destruct (1 + Zlen t0 >? 0) eqn:E0; [|lia].
    destruct (memz c0 [32; 9]) eqn:E1; [discriminate|].
    assert (Hc0 : ~ ws c0).
    { intro W. assert (memz c0 [32; 9] = true); [|congruence]. apply memz_In. unfold ws in W. cbn. intuition. }
    split.
    + intros c t E. inversion E; subst. exact Hc0.
    + intros c t E.
      destruct t as [|x t'].
      * cbn in E. inversion E; subst. exact Hc0.
      * assert (HL : 1 + Zlen t0 >? 1 = true).
        { assert (Zlen (c0 :: t0) = Zlen ((x :: t') ++ [c])) by (rewrite E; reflexivity).
          rewrite Zlen_cons, Zlen_app, Zlen_cons in H0. change (Zlen [c]) with 1 in H0. pose proof (Zlen_nonneg _ t'). lia. }
        rewrite HL in H. rewrite E in H. rewrite py_index_last in H.
        destruct (memz c [32; 9]) eqn:E2; [discriminate|].
        intro W. assert (memz c [32; 9] = true); [|congruence]. apply memz_In. unfold ws in W. cbn. intuition.
Qed.
