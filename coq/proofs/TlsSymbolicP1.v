(* C03, theorem client_completion_authenticated: for EVERY sequence of (framed or not) byte strings given
   to a client Context and EVERY behaviour of the oracles (no cryptographic hypothesis is needed for this
   one), reaching CLIENT_POST_HANDSHAKE implies
     - a CertificateVerify signature verified under the leaf of the certificate list the client holds, with
       an advertised algorithm, over a transcript that starts with the client's own ClientHello and is a
       prefix of the final transcript, and (unless CERT_NONE) the cert_ok oracle accepted that list for the
       requested name;  or
     - the client offered a (valid) ticket, a ServerHello selected it, and the key schedule in use descends
       from HKDF-Extract(0, that ticket's resumption secret).
   Proof: a state invariant preserved by every step (all 13 states x every message). *)
From AQ Require Import lib.Base gen.TlsDispatch model.TlsSymbolic proofs.TlsDispatchLegal.

Section P1.
Variable O : oracles.

(* ---------- evidence ------------------------------------------------------------------------------------ *)
Inductive ks_reach : ksched -> ksched -> Prop :=
| kr_refl : forall k, ks_reach k k
| kr_update : forall k k' d, ks_reach k k' -> ks_reach k (ks_update k' d)
| kr_extract : forall k k' km, ks_reach k k' -> ks_reach k (ks_extract O k' km).

Definition prefix (a b : bytes) : Prop := exists r, b = a ++ r.

Lemma prefix_refl : forall a, prefix a a.
Proof. intro a. exists []. rewrite app_nil_r. reflexivity. Qed.
Lemma prefix_app : forall a b d, prefix a b -> prefix a (b ++ d).
Proof. intros a b d [r ->]. exists (r ++ d). rewrite app_assoc. reflexivity. Qed.
Lemma prefix_trans : forall a b d, prefix a b -> prefix b d -> prefix a d.
Proof. intros a b d [r ->] [r' ->]. exists (r ++ r'). rewrite app_assoc. reflexivity. Qed.

(* the schedule descends from the resumption secret of the ticket the client offered *)
Definition psk_keyed (c : cfg) (k : ksched) : Prop :=
  exists t, use_ticket c = Some t /\
            ks_reach (ks_extract O (ks_new (tk_suite t)) (Some (tk_secret t))) k.

(* a CertificateVerify was verified over the client's own transcript under the certificate it holds *)
Definition cert_authed (c : cfg) (s : tst) (k : ksched) : Prop :=
  exists alg sg k0,
    memz alg (f_sigalgs c) = true /\
    o_sig_verify O (hd [] (t_peer s)) alg (ks_cv_data O k0 SERVER_CONTEXT_STRING) sg = true /\
    (f_verify c = true -> o_cert_ok O (verify_name c) (t_peer s) = 0) /\
    k_suite k0 = k_suite k /\
    prefix (client_hello_msg O c) (k_tr k0) /\
    prefix (k_tr k0) (k_tr k).

Definition client_state (x : State) : bool :=
  match x with
  | CLIENT_HANDSHAKE_START | CLIENT_EXPECT_SERVER_HELLO | CLIENT_EXPECT_ENCRYPTED_EXTENSIONS
  | CLIENT_EXPECT_CERTIFICATE_REQUEST_OR_CERTIFICATE | CLIENT_EXPECT_CERTIFICATE | CLIENT_EXPECT_CERTIFICATE_VERIFY
  | CLIENT_EXPECT_FINISHED | CLIENT_POST_HANDSHAKE => true
  | _ => false
  end.

Record cinv (c : cfg) (s : tst) : Prop := mkCinv {
  ci_client : client_state (t_state s) = true /\ t_state s <> CLIENT_HANDSHAKE_START;
  ci_res : t_resumed s = true -> psk_keyed c (the_ks s) /\ t_kproxy s = None /\ t_kpsk s = None;
  ci_kpsk : forall kp, t_kpsk s = Some kp -> psk_keyed c kp;
  ci_proxy : forall px suite k, t_kproxy s = Some px -> proxy_select px suite = Some k ->
                                k_tr k = client_hello_msg O c /\ k_suite k = suite;
  ci_own : t_resumed s = false -> t_ks s = None \/ prefix (client_hello_msg O c) (k_tr (the_ks s));
  ci_some : match t_state s with
            | CLIENT_HANDSHAKE_START | CLIENT_EXPECT_SERVER_HELLO => True
            | _ => t_ks s <> None
            end;
  ci_auth : match t_state s with
            | CLIENT_EXPECT_FINISHED | CLIENT_POST_HANDSHAKE => t_resumed s = false -> cert_authed c s (the_ks s)
            | _ => True
            end
}.

(* ---------- tactics --------------------------------------------------------------------------------------- *)
Ltac brk H :=
  repeat match type of H with
  | context [match ?x with _ => _ end] => let E := fresh "E" in destruct x eqn:E
  end.

Ltac fields := cbn [t_state t_ks t_kpsk t_kproxy t_resumed t_alpn t_early t_creq t_peer t_enc t_dec t_next_dec t_expected
                    t_recv_ext t_ext t_kex_mode t_keys set_state set_ks add_key log_key the_ks] in *.

(* ---------- schedules -------------------------------------------------------------------------------------- *)
Lemma proxy_select_new : forall f suites seen suite k,
  proxy_select (proxy_map f (proxy_new suites seen)) suite = Some k -> k = f (ks_new suite).
Proof.
  intros f suites. induction suites as [| a r IH]; intros seen suite k H; simpl in H.
  - discriminate.
  - destruct (memz a seen).
    + eapply IH; eauto.
    + simpl in H. destruct (a =? suite) eqn:E.
      * apply Z.eqb_eq in E. subst. inversion H. reflexivity.
      * eapply IH; eauto.
Qed.

Lemma psk_schedule_keyed : forall c t,
  use_ticket c = Some t -> psk_keyed c (fst (client_psk_schedule O c t)).
Proof.
  intros c t H. exists t. split; [exact H |].
  unfold client_psk_schedule. cbn [fst]. apply kr_update. apply kr_update. apply kr_refl.
Qed.

Lemma cinv_started : forall c, cinv c (client_started O c).
Proof.
  intro c. unfold client_started, client_send_hello. cbn [fst snd].
  assert (Hbase : forall s0 : tst,
            t_state s0 = CLIENT_EXPECT_SERVER_HELLO -> t_resumed s0 = false -> t_ks s0 = None ->
            t_kpsk s0 = match use_ticket c with Some t => Some (fst (client_psk_schedule O c t)) | None => None end ->
            t_kproxy s0 = Some (proxy_map (fun k => ks_update (ks_extract O k None) (client_hello_msg O c)) (proxy_new (f_suites c) [])) ->
            cinv c s0).
  { intros s0 Hs Hr Hk Hp Hx. constructor; rewrite ?Hs; auto.
    - split; [reflexivity | discriminate].
    - rewrite Hr. discriminate.
    - intros kp Hkp. rewrite Hp in Hkp. destruct (use_ticket c) eqn:E; [| discriminate].
      inversion Hkp. apply psk_schedule_keyed. exact E.
    - intros px suite k Hpx Hsel. rewrite Hx in Hpx. inversion Hpx; subst px.
      apply proxy_select_new in Hsel. subst k. split; reflexivity. }
  destruct (use_ticket c) as [t |] eqn:E.
  - destruct (tk_early t); apply Hbase; reflexivity.
  - apply Hbase; reflexivity.
Qed.

(* ---------- one step ------------------------------------------------------------------------------------------ *)
Lemma reach_keyed_update : forall c k d, psk_keyed c k -> psk_keyed c (ks_update k d).
Proof. intros c k d [t [H R]]. exists t. split; auto. apply kr_update. exact R. Qed.
Lemma reach_keyed_extract : forall c k km, psk_keyed c k -> psk_keyed c (ks_extract O k km).
Proof. intros c k km [t [H R]]. exists t. split; auto. apply kr_extract. exact R. Qed.

Lemma authed_update : forall c s s' k d,
  t_peer s' = t_peer s -> cert_authed c s k -> cert_authed c s' (ks_update k d).
Proof.
  intros c s s' k d Hp (alg & sg & k0 & H1 & H2 & H3 & H4 & H5 & H6).
  exists alg, sg, k0. rewrite Hp. repeat split; auto. simpl. apply prefix_app. exact H6.
Qed.
Lemma authed_extract : forall c s s' k km,
  t_peer s' = t_peer s -> cert_authed c s k -> cert_authed c s' (ks_extract O k km).
Proof.
  intros c s s' k km Hp (alg & sg & k0 & H1 & H2 & H3 & H4 & H5 & H6).
  exists alg, sg, k0. rewrite Hp. repeat split; auto.
Qed.

Lemma with_parse_inv : forall A s (p : pres A) k o s' out,
  with_parse s p k = (o, s', out) ->
  (exists v, p = POk v /\ k v = (o, s', out)) \/ (s' = s /\ o <> OOk).
Proof.
  intros A s p k o s' out H. destruct p; simpl in H.
  - left. eauto.
  - right. inversion H. split; [reflexivity | discriminate].
  - right. inversion H. split; [reflexivity | discriminate].
Qed.

(* ServerHello *)
Lemma cinv_hello : forall c s m o s' out,
  cinv c s -> t_state s = CLIENT_EXPECT_SERVER_HELLO ->
  client_handle_hello O c s m = (o, s', out) -> cinv c s'.
Proof.
  intros c s m o s' out I Hs H. unfold client_handle_hello in H.
  apply with_parse_inv in H. destruct H as [(v & _ & H) | [-> _]]; [| exact I].
  destruct (negotiate memz (f_suites c) [sh_suite v]) as [suite |]; [| inversion H; subst; exact I].
  destruct (negb (memz (sh_comp v) (f_comp c))); [inversion H; subst; exact I |].
  destruct (negb match sh_version v with Some x => memz x (f_versions c) | None => false end);
    [inversion H; subst; exact I |].
  apply with_parse_inv in H. destruct H as [([ks psk] & Hsel & H) | [-> _]]; [| exact I].
  (* what the selection says *)
  assert (Hk : (psk = true /\ psk_keyed c ks) \/
               (psk = false /\ t_resumed s = false /\ k_tr ks = client_hello_msg O c)).
  { destruct (sh_psk v).
    - destruct (t_kpsk s) as [kp |] eqn:Ekp; [| discriminate].
      destruct ((z =? 0) && (suite =? k_suite kp)); [| discriminate].
      inversion Hsel; subst. left. split; [reflexivity |]. eapply ci_kpsk; eauto.
    - destruct (t_kproxy s) as [px |] eqn:Epx; [| discriminate].
      destruct (proxy_select px suite) eqn:Esel; [| discriminate].
      inversion Hsel; subst. right. split; [reflexivity |]. split.
      + destruct (t_resumed s) eqn:Er; [| reflexivity].
        destruct (ci_res c s I Er) as (_ & Hn & _). congruence.
      + eapply ci_proxy; eauto. }
  (* the polluted state s1 satisfies the invariant, and so does the final one *)
  set (s1 := mkT (t_state s) (Some ks) None None (if psk then true else t_resumed s) (t_alpn s) (t_early s) (t_creq s)
                 (t_peer s) (t_enc s) (t_dec s) (t_next_dec s) (t_expected s) (t_recv_ext s) (t_ext s) (t_kex_mode s)
                 (t_keys s)) in *.
  assert (I1 : cinv c s1).
  { constructor; subst s1; fields; rewrite ?Hs.
    - split; [reflexivity | discriminate].
    - intro Hr. split; [| split; reflexivity].
      destruct Hk as [[-> Hk] | (-> & Hr0 & _)]; [exact Hk | congruence].
    - discriminate.
    - discriminate.
    - intro Hr. right. destruct Hk as [[-> _] | (-> & _ & Ht)]; [discriminate |].
      rewrite Ht. apply prefix_refl.
    - exact Logic.I.
    - exact Logic.I. }
  destruct (sh_key_share v) as [[g pk] |]; [| inversion H; subst; exact I1].
  destruct (o_decode O g pk =? 2); [inversion H; subst; exact I1 |].
  destruct (if o_decode O g pk =? 1 then find_priv g (f_privs c) None else None) as [priv |];
    [| inversion H; subst; exact I1].
  destruct (o_dh O g priv pk) as [shared |]; [| inversion H; subst; exact I1].
  inversion H; subst o s' out; clear H.
  constructor; subst s1; fields.
  - split; [reflexivity | discriminate].
  - intro Hr. split; [| split; reflexivity].
    apply reach_keyed_extract. apply reach_keyed_update.
    destruct Hk as [[-> Hk] | (-> & Hr0 & _)]; [exact Hk | congruence].
  - discriminate.
  - discriminate.
  - intro Hr. right. destruct Hk as [[-> _] | (-> & _ & Ht)]; [discriminate |].
    simpl. rewrite Ht. apply prefix_app. apply prefix_refl.
  - discriminate.
  - exact Logic.I.
Qed.

(* handlers that only extend the transcript / set flags, in a state that is neither EXPECT_FINISHED nor POST *)
Lemma cinv_extend : forall c s s' d x,
  cinv c s -> t_ks s <> None ->
  t_ks s' = Some (ks_update (the_ks s) d) -> t_kpsk s' = t_kpsk s -> t_kproxy s' = t_kproxy s ->
  t_resumed s' = t_resumed s -> t_state s' = x ->
  client_state x = true -> x <> CLIENT_HANDSHAKE_START ->
  match x with CLIENT_EXPECT_FINISHED | CLIENT_POST_HANDSHAKE => t_resumed s = false -> cert_authed c s' (ks_update (the_ks s) d) | _ => True end ->
  cinv c s'.
Proof.
  intros c s s' d x I Hsome Hks Hkp Hpx Hr Hx Hc Hn Ha.
  assert (Hthe : the_ks s' = ks_update (the_ks s) d) by (unfold the_ks at 1; rewrite Hks; reflexivity).
  constructor; rewrite ?Hx, ?Hkp, ?Hpx, ?Hr, ?Hthe.
  - split; assumption.
  - intro E. destruct (ci_res c s I E) as (A & B & D). split; [apply reach_keyed_update; exact A | split; assumption].
  - apply (ci_kpsk c s I).
  - apply (ci_proxy c s I).
  - intro E. right. destruct (ci_own c s I E) as [A | A]; [contradiction |]. simpl. apply prefix_app. exact A.
  - destruct x; try exact Logic.I; rewrite Hks; discriminate.
  - destruct x; try exact Logic.I; exact Ha.
Qed.

Lemma cinv_ee : forall c s m o s' out,
  cinv c s -> t_state s = CLIENT_EXPECT_ENCRYPTED_EXTENSIONS ->
  client_handle_encrypted_extensions O c s m = (o, s', out) -> cinv c s'.
Proof.
  intros c s m o s' out I Hs H. unfold client_handle_encrypted_extensions in H.
  apply with_parse_inv in H. destruct H as [(v & _ & H) | [-> _]]; [| exact I].
  pose proof (ci_some c s I) as Hsome. rewrite Hs in Hsome.
  destruct (f_alpn_cb c (ee_alpn v) (ee_other v)) as [code newext].
  assert (I1 : forall s1, t_state s1 = t_state s -> t_ks s1 = t_ks s -> t_kpsk s1 = t_kpsk s -> t_kproxy s1 = t_kproxy s ->
                          t_resumed s1 = t_resumed s -> cinv c s1).
  { intros s1 A B D E F. assert (G : the_ks s1 = the_ks s) by (unfold the_ks; rewrite B; reflexivity).
    constructor; rewrite ?A, ?B, ?D, ?E, ?F, ?G, ?Hs; try apply I.
    - split; [reflexivity | discriminate].
    - exact Hsome.
    - exact Logic.I. }
  destruct (negb (code =? 0)); [inversion H; subst; apply I1; reflexivity |].
  inversion H; subst o s' out; clear H.
  destruct (t_resumed s) eqn:Er.
  - (* resumed: straight to EXPECT_FINISHED, the authentication is the PSK *)
    eapply (cinv_extend c s _ m CLIENT_EXPECT_FINISHED I Hsome); fields; try reflexivity; try discriminate.
    + rewrite Er. reflexivity.
    + intro; congruence.
  - eapply (cinv_extend c s _ m CLIENT_EXPECT_CERTIFICATE_REQUEST_OR_CERTIFICATE I Hsome); fields;
      try reflexivity; try discriminate; auto.
Qed.

Lemma cinv_cr : forall c s m o s' out,
  cinv c s -> t_state s = CLIENT_EXPECT_CERTIFICATE_REQUEST_OR_CERTIFICATE ->
  client_handle_certificate_request O c s m = (o, s', out) -> cinv c s'.
Proof.
  intros c s m o s' out I Hs H. unfold client_handle_certificate_request in H.
  apply with_parse_inv in H. destruct H as [(v & _ & H) | [-> _]]; [| exact I].
  pose proof (ci_some c s I) as Hsome. rewrite Hs in Hsome.
  inversion H; subst o s' out; clear H.
  eapply (cinv_extend c s _ m CLIENT_EXPECT_CERTIFICATE I Hsome); fields; try reflexivity; try discriminate; auto.
Qed.

Lemma cinv_cert : forall c s m o s' out,
  cinv c s -> (t_state s = CLIENT_EXPECT_CERTIFICATE_REQUEST_OR_CERTIFICATE \/ t_state s = CLIENT_EXPECT_CERTIFICATE) ->
  client_handle_certificate O c s m = (o, s', out) -> cinv c s'.
Proof.
  intros c s m o s' out I Hs H. unfold client_handle_certificate in H.
  apply with_parse_inv in H. destruct H as [(v & _ & H) | [-> _]]; [| exact I].
  assert (Hsome : t_ks s <> None) by (pose proof (ci_some c s I) as X; destruct Hs as [E | E]; rewrite E in X; exact X).
  assert (Hc : client_state (t_state s) = true /\ t_state s <> CLIENT_HANDSHAKE_START) by apply I.
  assert (Hnf : match t_state s with CLIENT_EXPECT_FINISHED | CLIENT_POST_HANDSHAKE => False | _ => True end)
    by (destruct Hs as [E | E]; rewrite E; exact Logic.I).
  assert (I1 : cinv c (set_ks s (ks_update (the_ks s) m))).
  { eapply (cinv_extend c s _ m (t_state s) I Hsome); fields; try reflexivity; try apply Hc.
    destruct (t_state s); try exact Logic.I; contradiction. }
  apply with_parse_inv in H. destruct H as [(s2 & Hset & H) | [-> _]]; [| exact I1].
  inversion H; subst o s' out; clear H.
  unfold set_peer in Hset. destruct (ct_certs v); [discriminate |].
  destruct (forallb _ _); [| discriminate]. inversion Hset; subst s2; clear Hset.
  eapply (cinv_extend c s _ m CLIENT_EXPECT_CERTIFICATE_VERIFY I Hsome); fields; try reflexivity; try discriminate; auto.
Qed.

Lemma check_cv_pass : forall c s v ctx,
  check_cv O c s v ctx = None ->
  memz (cv_alg v) (f_sigalgs c) = true /\
  o_sig_verify O (hd [] (t_peer s)) (cv_alg v) (ks_cv_data O (the_ks s) ctx) (cv_sig v) = true.
Proof.
  intros c s v ctx H. unfold check_cv in H.
  destruct (memz (cv_alg v) (f_sigalgs c)); [| discriminate]. simpl in H.
  destruct (o_key_kind O (hd [] (t_peer s)) =? 0); [discriminate |].
  destruct (sig_kind (cv_alg v) =? 0); [discriminate |].
  destruct (negb (sig_kind (cv_alg v) =? o_key_kind O (hd [] (t_peer s)))); [discriminate |].
  destruct (o_sig_verify O (hd [] (t_peer s)) (cv_alg v) (ks_cv_data O (the_ks s) ctx) (cv_sig v)); [| discriminate].
  split; reflexivity.
Qed.

Lemma cinv_cv : forall c s m o s' out,
  cinv c s -> t_state s = CLIENT_EXPECT_CERTIFICATE_VERIFY ->
  client_handle_certificate_verify O c s m = (o, s', out) -> cinv c s'.
Proof.
  intros c s m o s' out I Hs H. unfold client_handle_certificate_verify in H.
  apply with_parse_inv in H. destruct H as [(v & _ & H) | [-> _]]; [| exact I].
  pose proof (ci_some c s I) as Hsome. rewrite Hs in Hsome.
  destruct (check_cv O c s v SERVER_CONTEXT_STRING) eqn:Ecv; [inversion H; subst; exact I |].
  apply check_cv_pass in Ecv. destruct Ecv as [Halg Hsig].
  destruct (negb ((if f_verify c then o_cert_ok O (verify_name c) (t_peer s) else 0) =? 0)) eqn:Ev;
    [inversion H; subst; exact I |].
  inversion H; subst o s' out; clear H.
  eapply (cinv_extend c s _ m CLIENT_EXPECT_FINISHED I Hsome); fields; try reflexivity; try discriminate.
  intro Hr. exists (cv_alg v), (cv_sig v), (the_ks s). fields.
  split; [exact Halg |]. split; [exact Hsig |]. split; [| split; [reflexivity | split]].
  - intro Hv. rewrite Hv in Ev. apply negb_false_iff in Ev. apply Z.eqb_eq in Ev. exact Ev.
  - destruct (ci_own c s I Hr) as [A | A]; [contradiction | exact A].
  - simpl. apply prefix_app. apply prefix_refl.
Qed.

Lemma cinv_fin : forall c s m o s' out,
  cinv c s -> t_state s = CLIENT_EXPECT_FINISHED ->
  client_handle_finished O c s m = (o, s', out) -> cinv c s'.
Proof.
  intros c s m o s' out I Hs H. unfold client_handle_finished in H.
  apply with_parse_inv in H. destruct H as [(vd & _ & H) | [-> _]]; [| exact I].
  pose proof (ci_some c s I) as Hsome. rewrite Hs in Hsome.
  pose proof (ci_auth c s I) as Hauth. rewrite Hs in Hauth.
  destruct (negb (beqb vd (ks_finished O (the_ks s) (t_dec s)))); [inversion H; subst; exact I |].
  assert (I1 : cinv c (set_ks s (ks_update (the_ks s) m))).
  { eapply (cinv_extend c s _ m CLIENT_EXPECT_FINISHED I Hsome); fields; try reflexivity; try discriminate; auto.
    intro Hr. eapply authed_update; [| apply Hauth; exact Hr]. reflexivity. }
  destruct (negb (k_gen (ks_update (the_ks s) m) =? 2)); [inversion H; subst; exact I1 |].
  (* whatever the client appends afterwards (Certificate, CertificateVerify, Finished), the final schedule
     extends the one that accepted the server Finished *)
  match type of H with (let '(k3, msgs) := ?X in _) = _ => destruct X as [k3 msgs] eqn:E3 end.
  set (k2 := ks_extract O (ks_update (the_ks s) m) None) in *.
  assert (Hk3 : k_suite k3 = k_suite k2 /\ (exists r, k_tr k3 = k_tr k2 ++ r) /\ ks_reach k2 k3).
  { destruct (t_creq s) as [cr |].
    - destruct (match f_chain c with [] => None | _ :: _ => negotiate_opt memz (f_key_sigalgs c) (cr_sigalgs cr) end).
      + inversion E3. split; [reflexivity |]. split.
        * eexists. simpl. rewrite <- app_assoc. reflexivity.
        * apply kr_update. apply kr_update. apply kr_refl.
      + inversion E3. split; [reflexivity |]. split.
        * eexists. simpl. reflexivity.
        * apply kr_update. apply kr_refl.
    - inversion E3. split; [reflexivity |]. split; [exists []; rewrite app_nil_r; reflexivity | apply kr_refl]. }
  destruct Hk3 as (Hsu & [r Hr3] & Hreach).
  inversion H; subst o s' out; clear H.
  constructor; fields.
  - split; [reflexivity | discriminate].
  - intro Er. destruct (ci_res c s I Er) as ((t & Ht & Rt) & B & D). split; [| split; assumption].
    exists t. split; [exact Ht |]. apply kr_update.
    assert (T : forall a b d, ks_reach a b -> ks_reach b d -> ks_reach a d).
    { intros a b d R1 R2. induction R2; [exact R1 | apply kr_update; auto | apply kr_extract; auto]. }
    eapply T; [| exact Hreach]. subst k2. apply kr_extract. apply kr_update. exact Rt.
  - apply (ci_kpsk c s I).
  - apply (ci_proxy c s I).
  - intro Er. right. destruct (ci_own c s I Er) as [A | A]; [contradiction |].
    simpl. rewrite Hr3. subst k2. simpl. apply prefix_app. apply prefix_app. apply prefix_app. exact A.
  - discriminate.
  - intro Er. destruct (Hauth Er) as (alg & sg & k0 & H1 & H2 & H3 & H4 & H5 & H6).
    exists alg, sg, k0. fields. repeat split; auto.
    + simpl. rewrite Hsu. subst k2. simpl. exact H4.
    + simpl. rewrite Hr3. subst k2. simpl. apply prefix_app. apply prefix_app. apply prefix_app. exact H6.
Qed.

Lemma cinv_nst : forall c s m o s' out,
  cinv c s -> client_handle_new_session_ticket O c s m = (o, s', out) -> cinv c s'.
Proof.
  intros c s m o s' out I H. unfold client_handle_new_session_ticket in H.
  apply with_parse_inv in H. destruct H as [(v & _ & H) | [-> _]]; [| exact I].
  inversion H; subst; exact I.
Qed.

Lemma cinv_step : forall c s m o s' out,
  cinv c s -> step O c s m = (o, s', out) -> cinv c s'.
Proof.
  intros c s m o s' out I H.
  destruct (ci_client c s I) as [Hc Hn].
  unfold step in H.
  destruct (t_state s) eqn:Es; try discriminate Hc; try congruence;
    (destruct (negb (framedb m)); [inversion H; subst; exact I |]);
    rewrite dispatch_all in H; cbn [legal_next] in H;
    repeat match type of H with
    | context [if ?b then _ else _] => destruct b
    end;
    cbn [run_handler] in H; try (inversion H; subst; exact I).
  - eapply cinv_hello; eauto.
  - eapply cinv_ee; eauto.
  - eapply cinv_cert; eauto.
  - eapply cinv_cr; eauto.
  - eapply cinv_cert; eauto.
  - eapply cinv_cv; eauto.
  - eapply cinv_fin; eauto.
  - eapply cinv_nst; eauto.
Qed.

Lemma cinv_run : forall c ms s, cinv c s -> cinv c (run O c s ms).
Proof.
  intros c ms. induction ms as [| m r IH]; intros s I; simpl; [exact I |].
  destruct (step O c s m) as [[o s1] out] eqn:E. apply IH. eapply cinv_step; eauto.
Qed.

Lemma client_completion_authenticated_lemma : forall c ms,
  let s := run O c (client_started O c) ms in
  t_state s = CLIENT_POST_HANDSHAKE ->
  (t_resumed s = false /\ cert_authed c s (the_ks s)) \/
  (t_resumed s = true /\ psk_keyed c (the_ks s)).
Proof.
  intros c ms s Hs.
  pose proof (cinv_run c ms _ (cinv_started c)) as I. fold s in I.
  destruct (t_resumed s) eqn:Er.
  - right. split; [reflexivity |]. apply (ci_res c s I Er).
  - left. split; [reflexivity |]. pose proof (ci_auth c s I) as A. rewrite Hs in A. apply A. exact Er.
Qed.

End P1.
