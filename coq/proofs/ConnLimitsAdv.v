(* C07: the value a limit check uses is exactly the last value written to the wire (or the transport parameter). *)
From Coq Require Import ZArith List Bool Lia ZifyBool.
From AQ Require Import lib.Base model.RangeSet model.StreamRecv model.ConnLimits gen.C07Consts proofs.ListZ.

Definition wire_ft (x : wire) : Z := match x with W ft _ _ => ft end.

(* the last value of frame type ft (stream a) in a list of written frames, cur if there is none *)
Fixpoint last_w (ft a : Z) (w : list wire) (cur : Z) : Z :=
  match w with
  | [] => cur
  | W ft' a' v :: t => last_w ft a t (if (ft' =? ft) && (a' =? a) then v else cur)
  end.
Definition adv_step (ft a : Z) (r : outcome) (cur : Z) : Z :=
  match r with OWrote w => last_w ft a w cur | _ => cur end.
Fixpoint adv (ft a : Z) (os : list outcome) (cur : Z) : Z :=
  match os with [] => cur | r :: t => adv ft a t (adv_step ft a r cur) end.

Lemma last_w_app ft a w1 w2 cur : last_w ft a (w1 ++ w2) cur = last_w ft a w2 (last_w ft a w1 cur).
Proof. revert cur; induction w1 as [|[f b v] t IH]; intros cur; cbn; [reflexivity|apply IH]. Qed.

Lemma last_w_other ft a w cur : Forall (fun x => wire_ft x <> ft) w -> last_w ft a w cur = cur.
Proof.
  revert cur; induction w as [|[f b v] t IH]; intros cur H; cbn; [reflexivity|]. inversion H; subst. cbn in H2.
  assert (E : (f =? ft) && (b =? a) = false) by lia. rewrite E. apply IH, H3.
Qed.

Definition sent_ok (l : limit) : Prop := l_sent l = l_value l \/ l_sent l = 0.
Definition SentOK (c : conn) : Prop := sent_ok (c_data c) /\ sent_ok (c_bidi c) /\ sent_ok (c_uni c).
Definition vals (c : conn) : Z * Z * Z := (l_value (c_data c), l_value (c_bidi c), l_value (c_uni c)).
Definition sents (c : conn) : Z * Z * Z := (l_sent (c_data c), l_sent (c_bidi c), l_sent (c_uni c)).

Lemma raise_limit_adv ft l : sent_ok l ->
  let '(l', w) := raise_limit ft l in
  sent_ok l' /\ l_value l' = last_w ft 0 w (l_value l) /\ Forall (fun x => wire_ft x = ft) w.
Proof.
  intros S. unfold raise_limit, sent_ok in *.
  destruct (l_used l * 2 >? l_value l); match goal with |- context[if ?b then _ else _] => destruct b eqn:E end;
    cbn; rewrite ?Z.eqb_refl; cbn; repeat split; try (constructor; [reflexivity|constructor]); try constructor; lia.
Qed.

Lemma raise_streams_ft l : Forall (fun x => wire_ft x = FT_MAX_STREAM_DATA) (snd (raise_streams l)).
Proof.
  induction l as [|[sid s] t IH]; cbn; [constructor|].
  unfold raise_stream. destruct (raise_streams t) as [t' w']. cbn in IH.
  match goal with |- context[if negb (?a =? ?b) then _ else _] => destruct (negb (a =? b)) end; cbn; [constructor; [reflexivity|assumption]|assumption].
Qed.

Lemma goc_vals c sid s c1 : get_or_create c sid = GStream s c1 -> vals c1 = vals c /\ sents c1 = sents c.
Proof.
  unfold get_or_create, vals, sents.
  destruct (existsb (Z.eqb sid) (c_done c)); [discriminate|].
  destruct (sget sid (c_streams c)); [intros H; inversion H; subst; auto|].
  destruct (Bool.eqb (client_initiated sid) (c_client c)); [discriminate|].
  destruct (unidirectional sid);
    (destruct (_ >? _); [discriminate|]); intros H; inversion H; subst; cbn;
    match goal with |- context[if ?b then _ else _] => destruct b end; cbn; auto.
Qed.

Lemma step_adv c o r c' : SentOK c -> step c o = (r, c') ->
  SentOK c' /\
  l_value (c_data c') = adv_step FT_MAX_DATA 0 r (l_value (c_data c)) /\
  l_value (c_bidi c') = adv_step FT_MAX_STREAMS_BIDI 0 r (l_value (c_bidi c)) /\
  l_value (c_uni c') = adv_step FT_MAX_STREAMS_UNI 0 r (l_value (c_uni c)).
Proof.
  intros S. assert (Same : forall c2 r2, vals c2 = vals c -> sents c2 = sents c ->
      (match r2 with OWrote _ => False | _ => True end) ->
      SentOK c2 /\ l_value (c_data c2) = adv_step FT_MAX_DATA 0 r2 (l_value (c_data c)) /\
      l_value (c_bidi c2) = adv_step FT_MAX_STREAMS_BIDI 0 r2 (l_value (c_bidi c)) /\
      l_value (c_uni c2) = adv_step FT_MAX_STREAMS_UNI 0 r2 (l_value (c_uni c))).
  { intros c2 r2 V T NW. unfold vals, sents in *. inversion V. inversion T. destruct S as (S1 & S2 & S3).
    unfold SentOK, sent_ok in *. rewrite H0, H1, H2, H3, H4, H5. destruct r2; cbn; try tauto. }
  destruct o; cbn [step].
  - unfold handle_stream.
    destruct (_ >? UINT_VAR_MAX); [intros H; inversion H; subst; apply Same; auto; exact I|].
    destruct (negb (can_receive c sid)); [intros H; inversion H; subst; apply Same; auto; exact I|].
    destruct (get_or_create c sid) as [s c1| |code] eqn:G; try (intros H; inversion H; subst; apply Same; auto; exact I).
    destruct (goc_vals _ _ _ _ G) as (V & T).
    destruct (_ >? sm_msd s); [intros H; inversion H; subst; apply Same; auto; exact I|].
    destruct (_ >? l_value (c_data c1)); [intros H; inversion H; subst; apply Same; auto; exact I|].
    destruct (handle_frame (sm_recv s) off data (Z.odd ft)) as [o r'].
    destruct o; intros H; inversion H; subst; apply Same; auto; exact I.
  - unfold handle_reset_stream.
    destruct (negb (can_receive c sid)); [intros H; inversion H; subst; apply Same; auto; exact I|].
    destruct (get_or_create c sid) as [s c1| |code] eqn:G; try (intros H; inversion H; subst; apply Same; auto; exact I).
    destruct (goc_vals _ _ _ _ G) as (V & T).
    destruct (_ >? sm_msd s); [intros H; inversion H; subst; apply Same; auto; exact I|].
    destruct (_ >? l_value (c_data c1)); [intros H; inversion H; subst; apply Same; auto; exact I|].
    destruct (handle_reset (sm_recv s) final_size) as [o r'].
    destruct o; intros H; inversion H; subst; apply Same; auto; exact I.
  - unfold handle_touch.
    destruct (negb _); [intros H; inversion H; subst; apply Same; auto; exact I|].
    destruct (get_or_create c sid) as [s c1| |code] eqn:G; try (intros H; inversion H; subst; apply Same; auto; exact I).
    destruct (goc_vals _ _ _ _ G) as (V & T). intros H; inversion H; subst; apply Same; auto; exact I.
  - intros H; inversion H; subst. apply Same; [| |exact I]; unfold local_open; destruct (negb (can_send c sid)); try reflexivity; destruct (sget sid (c_streams c)); try reflexivity; destruct (negb (Bool.eqb (client_initiated sid) (c_client c))); reflexivity.
  - (* Write *)
    unfold write. destruct S as (S1 & S2 & S3).
    pose proof (raise_limit_adv FT_MAX_DATA _ S1) as PD.
    pose proof (raise_limit_adv FT_MAX_STREAMS_BIDI _ S2) as PB.
    pose proof (raise_limit_adv FT_MAX_STREAMS_UNI _ S3) as PU.
    pose proof (raise_streams_ft (c_streams c)) as PS.
    destruct (raise_limit FT_MAX_DATA (c_data c)) as [d wd].
    destruct (raise_limit FT_MAX_STREAMS_BIDI (c_bidi c)) as [b wb].
    destruct (raise_limit FT_MAX_STREAMS_UNI (c_uni c)) as [u wu].
    destruct (raise_streams (c_streams c)) as [ss ws]. cbn [snd] in PS.
    destruct PD as (D1 & D2 & D3). destruct PB as (B1 & B2 & B3). destruct PU as (U1 & U2 & U3).
    intros H; inversion H; subst; clear H. cbn [c_data c_bidi c_uni adv_step].
    split; [repeat split; assumption|].
    assert (Oth : forall ft0 w ftw, Forall (fun x => wire_ft x = ftw) w -> ftw <> ft0 -> Forall (fun x => wire_ft x <> ft0) w).
    { intros ft0 w ftw F N. eapply Forall_impl; [|exact F]. cbn. intros x Hx. congruence. }
    assert (R1 : forall l, Forall (fun x => wire_ft x = FT_PATH_RESPONSE) (map (fun d0 => W FT_PATH_RESPONSE 0 d0) l)).
    { intros l. induction l; cbn; constructor; auto. }
    assert (R2 : forall l, Forall (fun x => wire_ft x = FT_RETIRE_CONNECTION_ID) (map (fun q => W FT_RETIRE_CONNECTION_ID 0 q) l)).
    { intros l. induction l; cbn; constructor; auto. }
    rewrite !last_w_app.
    repeat split.
    + rewrite (last_w_other FT_MAX_DATA 0 ws) by (eapply Oth; [exact PS|vm_compute; discriminate]).
      rewrite (last_w_other FT_MAX_DATA 0 wu) by (eapply Oth; [exact U3|vm_compute; discriminate]).
      rewrite (last_w_other FT_MAX_DATA 0 wb) by (eapply Oth; [exact B3|vm_compute; discriminate]).
      rewrite (last_w_other FT_MAX_DATA 0 (map _ (c_chal c))) by (eapply Oth; [apply R1|vm_compute; discriminate]).
      rewrite (last_w_other FT_MAX_DATA 0 (map _ (c_retire c))) by (eapply Oth; [apply R2|vm_compute; discriminate]).
      exact D2.
    + rewrite (last_w_other FT_MAX_STREAMS_BIDI 0 ws) by (eapply Oth; [exact PS|vm_compute; discriminate]).
      rewrite (last_w_other FT_MAX_STREAMS_BIDI 0 wu) by (eapply Oth; [exact U3|vm_compute; discriminate]).
      rewrite (last_w_other FT_MAX_STREAMS_BIDI 0 (map _ (c_chal c))) by (eapply Oth; [apply R1|vm_compute; discriminate]).
      rewrite (last_w_other FT_MAX_STREAMS_BIDI 0 (map _ (c_retire c))) by (eapply Oth; [apply R2|vm_compute; discriminate]).
      rewrite (last_w_other FT_MAX_STREAMS_BIDI 0 wd) by (eapply Oth; [exact D3|vm_compute; discriminate]).
      exact B2.
    + rewrite (last_w_other FT_MAX_STREAMS_UNI 0 ws) by (eapply Oth; [exact PS|vm_compute; discriminate]).
      rewrite (last_w_other FT_MAX_STREAMS_UNI 0 (map _ (c_chal c))) by (eapply Oth; [apply R1|vm_compute; discriminate]).
      rewrite (last_w_other FT_MAX_STREAMS_UNI 0 (map _ (c_retire c))) by (eapply Oth; [apply R2|vm_compute; discriminate]).
      rewrite (last_w_other FT_MAX_STREAMS_UNI 0 wd) by (eapply Oth; [exact D3|vm_compute; discriminate]).
      rewrite (last_w_other FT_MAX_STREAMS_UNI 0 wb) by (eapply Oth; [exact B3|vm_compute; discriminate]).
      exact U2.
  - (* LimitLost *)
    intros H; inversion H; subst; clear H. destruct S as (S1 & S2 & S3). unfold limit_lost, SentOK, sent_ok in *.
    destruct (which =? 0); [|destruct (which =? 1)]; cbn; repeat split; auto.
  - intros H; inversion H; subst. apply Same; [| |exact I]; unfold stream_limit_lost; destruct (sget sid (c_streams c)); reflexivity.
  - unfold handle_crypto.
    destruct (_ >? UINT_VAR_MAX); [intros H; inversion H; subst; apply Same; auto; exact I|].
    destruct (_ >? MAX_PENDING_CRYPTO); [intros H; inversion H; subst; apply Same; auto; exact I|].
    destruct (handle_frame (c_crypto c) off data false) as [o r'].
    destruct o as [|d0 f0| |]; try (intros H; inversion H; subst; apply Same; auto; exact I).
    destruct (tls_parse _ _); intros H; inversion H; subst; apply Same; auto; exact I.
  - unfold handle_path_challenge. intros H; inversion H; subst. apply Same; [| |exact I];
      destruct (Zlen (c_chal c) <? MAX_REMOTE_CHALLENGES); reflexivity.
  - intros H; inversion H; subst. apply Same; [reflexivity|reflexivity|exact I].
  - unfold handle_new_cid.
    destruct (rpt >? seq); [intros H; inversion H; subst; apply Same; auto; exact I|].
    match goal with |- context[match ?x with Some _ => _ | None => _ end] => destruct x as [[active' avail3]|] end;
      [|destruct NCID_EMPTY_CLOSES; intros H; inversion H; subst; apply Same; auto; exact I].
    destruct (1 + Zlen avail3 >? LOCAL_ACTIVE_CID_LIMIT); [intros H; inversion H; subst; apply Same; auto; exact I|].
    match goal with |- context[if over_retire_cap ?p ?q then _ else _] => destruct (over_retire_cap p q) end; [intros H; inversion H; subst; apply Same; auto; exact I|].
    intros H; inversion H; subst. apply Same; [reflexivity|reflexivity|exact I].
  - unfold handle_path_packet. destruct (pfind addr (c_paths c)); intros H; inversion H; subst; (apply Same; [reflexivity|reflexivity|exact I]).
Qed.

Lemma run_adv : forall ops c os c', SentOK c -> run c ops = (os, c') ->
  l_value (c_data c') = adv FT_MAX_DATA 0 os (l_value (c_data c)) /\
  l_value (c_bidi c') = adv FT_MAX_STREAMS_BIDI 0 os (l_value (c_bidi c)) /\
  l_value (c_uni c') = adv FT_MAX_STREAMS_UNI 0 os (l_value (c_uni c)).
Proof.
  induction ops as [|o t IH]; intros c os c' S; cbn [run].
  - intros H; inversion H; subst. cbn. auto.
  - destruct (step c o) as [r c1] eqn:St. destruct (step_adv _ _ _ _ S St) as (S1 & A1 & A2 & A3).
    destruct (closes r).
    + intros H; inversion H; subst. cbn [adv]. rewrite <- A1, <- A2, <- A3. auto.
    + destruct (run c1 t) as [rs c2] eqn:R. intros H; inversion H; subst. cbn [adv].
      rewrite <- A1, <- A2, <- A3. eapply IH; eassumption.
Qed.

Lemma advertised_is_enforced : forall cl msd md cb ops os c,
  run (conn_init cl msd md cb) ops = (os, c) ->
  l_value (c_data c) = adv FT_MAX_DATA 0 os md /\
  l_value (c_bidi c) = adv FT_MAX_STREAMS_BIDI 0 os INIT_MAX_STREAMS_BIDI /\
  l_value (c_uni c) = adv FT_MAX_STREAMS_UNI 0 os INIT_MAX_STREAMS_UNI.
Proof.
  intros. eapply (run_adv ops (conn_init cl msd md cb)); [|eassumption].
  unfold SentOK, sent_ok; cbn; auto.
Qed.
