(* Caller discipline of connection.py's frame writers, part 2: every _write_*_frame writer, for all field values in
   their wire ranges, starts its frame with a capacity that covers what it then pushes (or, for CRYPTO / STREAM, pushes
   what fits the flight and buffer space it measured), i.e. satisfies RF. *)
From Coq Require Import ZArith List Bool Lia ZifyBool.
From AQ Require Import lib.Base lib.Tok gen.C13Consts gen.C13Writers model.Builder proofs.BuilderProofs proofs.BuilderFlight
  model.StreamSend proofs.StreamSendP model.Writers proofs.WritersBase.
From AQ Require model.Varint.
Import ListNotations.
Open Scope Z_scope.

(* a value that push_uint_var / size_uint_var accept *)
Definition vok (v : Z) : Prop := 0 <= v < 4611686018427387904.

Lemma vsz_eq v : vok v -> psz (0, v) = vsz v /\ 1 <= vsz v <= 8 /\ push_okb (0, v) = true /\ vsz_raises v = false.
Proof.
  intros [H0 H1]. unfold psz, push_okb, push_size, vsz, vsz_raises. cbn [Z.eqb].
  rewrite Z.mod_small by lia.
  unfold Builder.size_uint_var, Varint.size_uint_var, Varint.UINT_VAR_MAX.
  change (2 ^ 62 - 1) with 4611686018427387903.
  destruct (v <? 64) eqn:A, (v <=? 63) eqn:A'; try lia; try (repeat split; try reflexivity; lia).
  destruct (v <? 16384) eqn:B, (v <=? 16383) eqn:B'; try lia; try (repeat split; try reflexivity; lia).
  destruct (v <? 1073741824) eqn:C, (v <=? 1073741823) eqn:C'; try lia; try (repeat split; try reflexivity; lia).
  destruct (v <? 4611686018427387904) eqn:D, (v <=? 4611686018427387903) eqn:D'; try lia; try (repeat split; try reflexivity; lia).
Qed.

Lemma psz0 v : vok v -> 1 <= psz (0, v) <= 8.
Proof. intros H. destruct (vsz_eq v H) as (E & B & _). lia. Qed.
Lemma pok0 v : vok v -> push_okb (0, v) = true.
Proof. intros H. apply (vsz_eq v H). Qed.
Lemma psz1 n : psz (1, n) = n. Proof. reflexivity. Qed.
Lemma pok1 n : 0 <= n -> push_okb (1, n) = true.
Proof. intros H. change (push_okb (1, n)) with (0 <=? n). lia. Qed.
Lemma psz2 v : psz (2, v) = 1. Proof. reflexivity. Qed.
Lemma pok2 v : push_okb (2, v) = true. Proof. reflexivity. Qed.
Lemma psz3 v : psz (3, v) = 2. Proof. reflexivity. Qed.
Lemma pok3 v : push_okb (3, v) = true. Proof. reflexivity. Qed.

Ltac norm_pushes :=
  repeat (rewrite ?psum_app, ?forallb_app); cbn [psum forallb app]; rewrite ?psz1, ?psz2, ?psz3, ?pok2, ?pok3.

Lemma nif_false ft : ft <> 2 -> ft <> 3 -> ft <> 28 -> ft <> 29 -> zmem ft NON_IN_FLIGHT = false.
Proof. intros. unfold zmem, NON_IN_FLIGHT. cbn [existsb]. lia. Qed.

(* ---------- fixed-size frames -------------------------------------------------------------------------------- *)
Lemma w_ping_RF k c s : OI c s -> RF k c s (w_ping c s).
Proof.
  intros H. unfold w_ping. apply do_frame_spec; auto; try (cbv; intuition congruence); try reflexivity.
Qed.

Lemma w_handshake_done_RF k c s : OI c s -> RF k c s (w_handshake_done c s).
Proof.
  intros H. unfold w_handshake_done. apply do_frame_spec; auto; try (cbv; intuition congruence); try reflexivity.
Qed.

Lemma w_path_challenge_RF k c s : OI c s -> RF k c s (w_path_challenge c s).
Proof.
  intros H. unfold w_path_challenge. apply do_frame_spec; auto; try (cbv; intuition congruence); try reflexivity.
Qed.

Lemma w_path_response_RF k c s : OI c s -> RF k c s (w_path_response c s).
Proof.
  intros H. unfold w_path_response. apply do_frame_spec; auto; try (cbv; intuition congruence); try reflexivity.
Qed.

(* frames made of the type and a few varints *)
Ltac fixed_frame :=
  apply do_frame_spec; auto;
  [ cbv; intuition congruence
  | cbv; discriminate
  | norm_pushes; rewrite ?pok0 by assumption; reflexivity
  | left; norm_pushes;
    repeat match goal with H : vok _ |- _ => apply psz0 in H end;
    unfold W_connection_limits_0_cap, W_stream_limits_0_cap, W_retire_connection_id_frame_0_cap,
      W_streams_blocked_frame_0_cap, W_reset_stream_frame_0_cap, W_stop_sending_frame_0_cap,
      CONNECTION_LIMIT_FRAME_CAPACITY, MAX_STREAM_DATA_FRAME_CAPACITY, RETIRE_CONNECTION_ID_CAPACITY,
      STREAMS_BLOCKED_CAPACITY, RESET_STREAM_FRAME_CAPACITY, STOP_SENDING_FRAME_CAPACITY; lia
  | intros X; cbv in X; discriminate ].

Lemma w_stream_limit_RF k c s sid v : OI c s -> vok sid -> vok v -> RF k c s (w_stream_limit c s sid v).
Proof. intros H H1 H2. unfold w_stream_limit, W_stream_limits_0_pushes. fixed_frame. Qed.

Lemma w_retire_RF k c s seq : OI c s -> vok seq -> RF k c s (w_retire_connection_id c s seq).
Proof. intros H H1. unfold w_retire_connection_id, W_retire_connection_id_frame_0_pushes. fixed_frame. Qed.

Lemma w_reset_RF k c s sid code fin : OI c s -> vok sid -> vok code -> vok fin -> RF k c s (w_reset_stream c s sid code fin).
Proof. intros H H1 H2 H3. unfold w_reset_stream, W_reset_stream_frame_0_pushes. fixed_frame. Qed.

Lemma w_stop_RF k c s sid code : OI c s -> vok sid -> vok code -> RF k c s (w_stop_sending c s sid code).
Proof. intros H H1 H2. unfold w_stop_sending, W_stop_sending_frame_0_pushes. fixed_frame. Qed.

(* MAX_DATA / MAX_STREAMS_*: the frame type is a field of the Limit object *)
Definition limit_ft (ft : Z) : Prop := ft = WFT_MAX_DATA \/ ft = WFT_MAX_STREAMS_BIDI \/ ft = WFT_MAX_STREAMS_UNI.
Definition blocked_ft (ft : Z) : Prop := ft = WFT_STREAMS_BLOCKED_BIDI \/ ft = WFT_STREAMS_BLOCKED_UNI.

Lemma w_conn_limit_RF k c s ft v : OI c s -> limit_ft ft -> vok v -> RF k c s (w_conn_limit c s ft v).
Proof.
  intros H F H1. unfold w_conn_limit, W_connection_limits_0_pushes, W_connection_limits_0_ft.
  destruct F as [->|[->| ->]]; fixed_frame.
Qed.

Lemma w_streams_blocked_RF k c s ft v : OI c s -> blocked_ft ft -> vok v -> RF k c s (w_streams_blocked c s ft v).
Proof.
  intros H F H1. unfold w_streams_blocked, W_streams_blocked_frame_0_pushes, W_streams_blocked_frame_0_ft.
  destruct F as [->| ->]; fixed_frame.
Qed.

(* NEW_CONNECTION_ID: 1 + 8 + 8 + 1 + 20 + 16 *)
Lemma w_new_cid_RF k c s seq cidlen : OI c s -> vok seq -> 0 <= cidlen <= CONNECTION_ID_MAX_SIZE ->
  RF k c s (w_new_connection_id c s seq cidlen).
Proof.
  intros H H1 H2. unfold w_new_connection_id, W_new_connection_id_frame_0_pushes, W_new_connection_id_frame_retire_prior_to.
  assert (H0 : vok 0) by (unfold vok; lia).
  apply do_frame_spec; auto.
  - cbv; intuition congruence.
  - cbv; discriminate.
  - norm_pushes. rewrite !pok0 by assumption. rewrite !pok1; [reflexivity|cbv; discriminate|lia].
  - left. norm_pushes. apply psz0 in H1. apply psz0 in H0.
    unfold W_new_connection_id_frame_0_cap, NEW_CONNECTION_ID_FRAME_CAPACITY, STATELESS_RESET_TOKEN_SIZE, CONNECTION_ID_MAX_SIZE in *. lia.
  - intros X; cbv in X; discriminate.
Qed.

(* DATAGRAM: the capacity is the exact frame size *)
Lemma w_datagram_RF k c s len : OI c s -> vok len -> RF k c s (w_datagram c s len).
Proof.
  intros H H1. unfold w_datagram. destruct (vsz_eq len H1) as (E & B & P & R). rewrite R.
  unfold W_datagram_frame_0_ft, W_datagram_frame_0_cap, W_datagram_frame_frame_size, W_datagram_frame_0_pushes.
  apply do_frame_spec; auto.
  - cbv; intuition congruence.
  - unfold vok in H1. lia.
  - norm_pushes. rewrite P, pok1; [reflexivity|unfold vok in H1; lia].
  - left. norm_pushes. rewrite E. lia.
  - intros X; cbv in X; discriminate.
Qed.

(* ---------- ACK and CONNECTION_CLOSE: not in flight, first in their packet ---------------------------------- *)
Definition ack_ok (a : ack_in) : Prop :=
  let '(largest, delay, first, rest) := a in
  vok largest /\ vok delay /\ vok first /\ Zlen rest < 4611686018427387904 /\
  Forall (fun gl => vok (fst gl) /\ vok (snd gl)) rest.

Lemma ack_rest_sum rest : Forall (fun gl => vok (fst gl) /\ vok (snd gl)) rest ->
  forallb push_okb (flat_map (fun gl => [(0, fst gl); (0, snd gl)]) rest) = true /\
  0 <= psum (flat_map (fun gl => [(0, fst gl); (0, snd gl)]) rest) <= 16 * Zlen rest.
Proof.
  induction 1 as [|x t [Hx1 Hx2] Ht IH].
  - cbn. unfold Zlen. simpl. lia.
  - cbn [flat_map app forallb psum]. destruct IH as (I1 & I2).
    rewrite (pok0 _ Hx1), (pok0 _ Hx2), I1. apply psz0 in Hx1. apply psz0 in Hx2.
    unfold Zlen in *. cbn [length]. rewrite Nat2Z.inj_succ. split; [reflexivity|lia].
Qed.

(* the generated push list of _write_ack_frame is the single call of packet.push_ack_frame, whose shape (4 varints, then
   2 per further range) is what ack_pushes writes *)
Lemma expand_ack_marker a : expand_ack W_ack_frame_0_pushes a = a.
Proof. unfold expand_ack, W_ack_frame_0_pushes. cbn. apply app_nil_r. Qed.

Lemma ack_shape_generated : ACK_HEAD_VARINTS = 4 /\ ACK_RANGE_VARINTS = 2.
Proof. split; reflexivity. Qed.

Lemma w_ack_RF k c s a : OI c s -> ack_ok a -> (k = false -> cur_inflight s = false) -> RF k c s (w_ack_in c s a).
Proof.
  intros H A F. destruct a as [[[largest delay] first] rest]. destruct A as (A1 & A2 & A3 & A4 & A5).
  unfold w_ack_in, w_ack. apply RF_seq.
  - rewrite expand_ack_marker. unfold ack_pushes. destruct (ack_rest_sum rest A5) as (R1 & R2).
    assert (A4' : vok (Zlen rest)) by (unfold vok, Zlen in *; lia).
    apply do_frame_spec; auto.
    + cbv; intuition congruence.
    + unfold W_ack_frame_0_cap, ACK_FRAME_CAPACITY, UINT_VAR_MAX_SIZE. unfold Zlen. lia.
    + norm_pushes. rewrite !pok0 by assumption. rewrite R1. reflexivity.
    + left. norm_pushes. apply psz0 in A1. apply psz0 in A2. apply psz0 in A3. apply psz0 in A4'.
      unfold W_ack_frame_0_cap, ACK_FRAME_CAPACITY, UINT_VAR_MAX_SIZE. lia.
    + intros _. split; [|exact F]. norm_pushes. apply psz0 in A1. apply psz0 in A2. apply psz0 in A3. apply psz0 in A4'.
      unfold MIN_PAYLOAD, PACKET_NUMBER_MAX_SIZE, PACKET_NUMBER_SEND_SIZE. lia.
  - intros s1 H1. destruct ((1 <? 1 + Zlen rest) && (b_pn s1 mod 8 =? 0)); [apply w_ping_RF; exact H1|apply RF_skip; exact H1].
Qed.

Definition close_ok (code : Z) (ft : option Z) (rlen loss : Z) : Prop :=
  vok code /\ vok rlen /\ 0 <= loss /\ match ft with Some f => vok f | None => True end.

Lemma w_close_RF k c s early code ft rlen loss :
  OI c s -> close_ok code ft rlen loss -> (k = false -> cur_inflight s = false) -> RF k c s (w_close c s early code ft rlen loss).
Proof.
  intros H (C1 & C2 & C3 & C4) F. unfold w_close.
  set (x := match ft with None => if early then (QEC_APPLICATION_ERROR, Some WFT_PADDING, 0) else (code, ft, rlen)
            | Some _ => (code, ft, rlen) end).
  assert (X : let '(code', ft', rlen') := x in close_ok code' ft' rlen' loss).
  { unfold x. destruct ft; [cbv beta iota zeta; unfold close_ok; tauto|].
    destruct early; [|cbv beta iota zeta; unfold close_ok; tauto].
    cbv beta iota zeta. unfold close_ok, vok, QEC_APPLICATION_ERROR, WFT_PADDING. lia. }
  destruct x as [[code' ft'] rlen']. destruct X as (D1 & D2 & D3 & D4). cbv zeta.
  set (maxr := W_connection_close_frame_max_reason_length (remaining_buffer_space s)).
  assert (M0 : 0 <= maxr) by (unfold maxr, W_connection_close_frame_max_reason_length; lia).
  set (r := if rlen' >? maxr then Z.max 0 (maxr - loss) else rlen').
  assert (R : vok r) by (unfold r, vok in *; destruct (rlen' >? maxr) eqn:G; lia).
  destruct ft' as [f|].
  - unfold W_connection_close_frame_1_pushes, W_connection_close_frame_1_cap. apply do_frame_spec; auto.
    + cbv; intuition congruence.
    + unfold TRANSPORT_CLOSE_FRAME_CAPACITY, vok in *. lia.
    + norm_pushes. rewrite !pok0 by assumption. rewrite pok1; [reflexivity|unfold vok in R; lia].
    + left. norm_pushes. apply psz0 in D1. apply psz0 in D4. pose proof (psz0 r R). unfold TRANSPORT_CLOSE_FRAME_CAPACITY. lia.
    + intros _. split; [|exact F]. norm_pushes. apply psz0 in D1. apply psz0 in D4. pose proof (psz0 r R).
      unfold MIN_PAYLOAD, PACKET_NUMBER_MAX_SIZE, PACKET_NUMBER_SEND_SIZE, vok in *. lia.
  - unfold W_connection_close_frame_0_pushes, W_connection_close_frame_0_cap. apply do_frame_spec; auto.
    + cbv; intuition congruence.
    + unfold APPLICATION_CLOSE_FRAME_CAPACITY, vok in *. lia.
    + norm_pushes. rewrite !pok0 by assumption. rewrite pok1; [reflexivity|unfold vok in R; lia].
    + left. norm_pushes. apply psz0 in D1. pose proof (psz0 r R). unfold APPLICATION_CLOSE_FRAME_CAPACITY. lia.
    + intros _. split; [|exact F]. norm_pushes. apply psz0 in D1. pose proof (psz0 r R).
      unfold MIN_PAYLOAD, PACKET_NUMBER_MAX_SIZE, PACKET_NUMBER_SEND_SIZE, vok in *. lia.
Qed.

(* ---------- CRYPTO and STREAM: the body is sized with remaining_flight_space ----------------------------------- *)
(* what the C10 sender returns: no frame, or a frame at next_offset whose data fits max_size (C10 send_frames_exact) *)
Definition sender_ok (snd : send) : Prop := (exists g, reach snd g) /\ s_reset snd = None /\ vok (next_offset snd).

Lemma get_frame_cases st ms mo : sender_ok st ->
  match fst (get_frame st ms mo) with
  | SNone => True
  | SFrame off data fin => off = next_offset st /\ 0 <= Zlen data <= Z.max 0 ms
  | _ => False
  end.
Proof.
  intros ((g & R) & Lr & Hv).
  destruct (get_frame st ms mo) as [o st'] eqn:E. cbn [fst].
  destruct o as [|off data fin|code fs|]; auto.
  - pose proof (send_frames_exact st g ms mo off data fin st' R Lr E) as (_ & _ & _ & Hd & _).
    assert (Hl : 0 <= Zlen data) by (unfold Zlen; lia).
    split.
    + pose proof (reach_inv _ _ R) as V. unfold get_frame in E. rewrite Lr in E. unfold next_offset.
      destruct (s_pending st) as [|[a b] t].
      * destruct (s_pending_eof st) eqn:PE; [|discriminate]. inversion E; subst.
        destruct (s_fin st) as [f|] eqn:EF; [apply (v_fin_some _ _ V f EF)|].
        destruct (v_fin_none _ _ V EF) as (X & _). congruence.
      * cbv zeta in E. destruct (_ <=? a) in E; [discriminate|]. inversion E; subst. reflexivity.
    + destruct data as [|d0 dt]; [unfold Zlen; simpl; lia|].
      destruct Hd as (Hd & _); [discriminate|]. lia.
  - unfold get_frame in E. rewrite Lr in E. destruct (s_pending st) as [|[a b] t].
    + destruct (s_pending_eof st); discriminate.
    + cbv zeta in E. destruct (_ <=? a) in E; discriminate.
  - unfold get_frame in E. rewrite Lr in E. destruct (s_pending st) as [|[a b] t].
    + destruct (s_pending_eof st); discriminate.
    + cbv zeta in E. destruct (_ <=? a) in E; discriminate.
Qed.

Lemma rfs_le_rbs c s : OI c s -> remaining_flight_space s <= remaining_buffer_space s.
Proof. intros [[[H _] _] _]. unfold remaining_flight_space, remaining_buffer_space. lia. Qed.

Lemma w_crypto_RF k c s snd : OI c s -> sender_ok snd -> RF k c s (w_crypto c s snd).
Proof.
  intros H S. pose proof S as (_ & _ & Hv). unfold w_crypto, w_crypto_gen.
  destruct (vsz_eq _ Hv) as (E & B & P & R). rewrite R.
  set (ov := W_crypto_frame_frame_overhead (next_offset snd)).
  pose proof (get_frame_cases snd (remaining_flight_space s - ov) None S) as G.
  destruct (fst (get_frame snd (remaining_flight_space s - ov) None)) as [|off data fin| |]; try contradiction.
  - apply RF_skip; exact H.
  - destruct G as (-> & G1 & G2). unfold w_crypto_with, W_crypto_frame_0_pushes, W_crypto_frame_0_cap.
    pose proof (rfs_le_rbs c s H) as L.
    assert (Ov : ov = 3 + vsz (next_offset snd)) by reflexivity.
    apply do_frame_spec; auto.
    + cbv; intuition congruence.
    + lia.
    + norm_pushes. rewrite P, pok1; [reflexivity|lia].
    + norm_pushes. rewrite E. destruct (Z.max_spec 0 (remaining_flight_space s - ov)) as [[M1 M2]|[M1 M2]]; [right|left]; lia.
    + intros X; cbv in X; discriminate.
Qed.

Lemma stream_ft_range off fin : 10 <= stream_ft off fin <= 15.
Proof. unfold stream_ft, WFT_STREAM_BASE. destruct (off =? 0), fin; lia. Qed.

Lemma w_stream_RF k c s sid snd mo : OI c s -> vok sid -> sender_ok snd -> RF k c s (w_stream c s sid snd mo).
Proof.
  intros H Hs S. pose proof S as (_ & _ & Hv). unfold w_stream, w_stream_gen, stream_gate.
  destruct (vsz_eq _ Hv) as (E & B & P & R). destruct (vsz_eq _ Hs) as (Es & Bs & Ps & Rs). rewrite R, Rs. cbn [orb].
  set (ov := W_stream_frame_frame_overhead sid (next_offset snd)).
  destruct ((remaining_flight_space s <? ov) || (remaining_buffer_space s <? ov)) eqn:ST.
  - unfold RF. split; [right; reflexivity|]. split; [exact H|]. split; reflexivity.
  - apply orb_false_iff in ST. destruct ST as [ST1 ST2].
    pose proof (get_frame_cases snd (remaining_flight_space s - ov) (Some mo) S) as G.
    destruct (fst (get_frame snd (remaining_flight_space s - ov) (Some mo))) as [|off data fin| |]; try contradiction.
    + apply RF_skip; exact H.
    + destruct G as (-> & G1 & G2). unfold w_stream_with, W_stream_frame_0_pushes, W_stream_frame_0_cap, W_stream_frame_0_ft.
      pose proof (rfs_le_rbs c s H) as L. pose proof (stream_ft_range (next_offset snd) fin) as Fr.
      assert (Ov : ov = 3 + vsz sid + (if next_offset snd =? 0 then 0 else vsz (next_offset snd))) by reflexivity.
      apply do_frame_spec; auto.
      * lia.
      * destruct (next_offset snd =? 0); lia.
      * norm_pushes. rewrite Ps. destruct (next_offset snd =? 0); cbn [forallb]; rewrite ?P, pok1; try reflexivity; lia.
      * right. norm_pushes. rewrite Es.
        assert (Q : psum (if next_offset snd =? 0 then [] else [(0, next_offset snd)]) =
                    (if next_offset snd =? 0 then 0 else vsz (next_offset snd))).
        { destruct (next_offset snd =? 0); cbn [psum]; [reflexivity|rewrite E; lia]. }
        rewrite Q. lia.
      * intros X. rewrite nif_false in X by lia. discriminate.
Qed.
