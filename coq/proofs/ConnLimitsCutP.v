(* C07, write passes cut short by QuicPacketBuilderStop (model/ConnLimitsCut.v). *)
From Coq Require Import ZArith List Bool Lia ZifyBool.
From AQ Require Import lib.Base model.RangeSet model.StreamRecv model.ConnLimits model.ConnLimitsSpec model.ConnLimitsCut gen.C07Consts
  proofs.RangeSetP proofs.ListZ proofs.ConnLimitsP proofs.ConnLimitsAdv proofs.ConnLimitsSim proofs.ConnLimitsMsd.

(* ---------- a refused MAX_* frame leaves the RAISED value in force: a peer beyond everything it saw on the wire is accepted ---------- *)
(* connection level: server, max_stream_data 3000, max_data 2000.  1001 bytes arrive (used*2 > value); the next
   datagrams_to_send() has no congestion window for the MAX_DATA frame (budget 0): value becomes 4000, nothing is
   written, sent stays 2000.  The peer then sends up to offset 2501 > 2000 = the only limit it ever saw: accepted. *)
Definition w_cut_data : list xop :=
  [Plain (StreamFrame 10 0 0 (zeros 1001)); WriteCut 0 []; Plain (StreamFrame 14 0 1001 (zeros 1500))].
(* per stream: max_stream_data 1000, max_data 4000; 600 bytes, cut pass, then end offset 1500 > 1000 *)
Definition w_cut_stream : list xop :=
  [Plain (StreamFrame 10 0 0 (zeros 600)); WriteCut 0 []; Plain (StreamFrame 14 0 600 (zeros 900))].
(* stream count: the 65th stream (id 256) makes used*2 > 128; cut pass; then the 129th stream (id 512) *)
Definition w_cut_count : list xop :=
  [Plain (StreamFrame 10 256 0 []); WriteCut 0 []; Plain (StreamFrame 10 512 0 [])].

Lemma cut_pass_tolerates : RAISE_BEFORE_START_FRAME = true ->
  tolerated (conn_init false 3000 2000 0) (peer_init 3000 2000) w_cut_data = true /\
  tolerated (conn_init false 1000 4000 0) (peer_init 1000 4000) w_cut_stream = true /\
  tolerated (conn_init false 1000 4000 0) (peer_init 1000 4000) w_cut_count = true.
Proof. intros Flag. split; [|split]; vm_compute; first [reflexivity | discriminate Flag]. Qed.

(* in a tree where the value is assigned only after start_frame() returned the premise is false (the flag is probed) *)
Lemma over_advertised_refuted : RAISE_BEFORE_START_FRAME = true -> exists cl msd md ops,
  0 <= msd /\ 0 <= md /\ tolerated (conn_init cl msd md 0) (peer_init msd md) ops = true.
Proof.
  intros Flag. exists false, 3000, 2000, w_cut_data. split; [lia|split; [lia|]].
  vm_compute; first [reflexivity | discriminate Flag].
Qed.


(* what the witness looks like step by step, and the two controls: a complete pass advertises 4000 (the same frame is
   then within the ledger), no pass at all keeps 2000 in force (the same frame closes with FLOW_CONTROL_ERROR) *)
Example cut_witness_detail : RAISE_BEFORE_START_FRAME = true ->
  let c0 := conn_init false 3000 2000 0 in
  let c1 := snd (xrun c0 [Plain (StreamFrame 10 0 0 (zeros 1001)); WriteCut 0 []]) in
  fst (xrun c0 [Plain (StreamFrame 10 0 0 (zeros 1001)); WriteCut 0 []]) = [OOk (RData (zeros 1001) false); OWrote []] /\
  c_data c1 = mkLimit 4000 1001 2000 /\
  fst (xstep c1 (Plain (StreamFrame 14 0 1001 (zeros 1500)))) = OOk (RData (zeros 1500) false) /\
  fst (xstep c1 (WriteCut 1 [])) = OWrote [W FT_MAX_DATA 0 4000] /\
  tolerated c0 (peer_init 3000 2000)
    [Plain (StreamFrame 10 0 0 (zeros 1001)); Plain Write; Plain (StreamFrame 14 0 1001 (zeros 1500))] = false /\
  fst (xrun c0 [Plain (StreamFrame 10 0 0 (zeros 1001)); Plain (StreamFrame 14 0 1001 (zeros 1500))]) =
    [OOk (RData (zeros 1001) false); OErr E_FLOW_CONTROL_ERROR 14].
Proof. intros Flag. cbv zeta. split; [|split; [|split; [|split; [|split]]]]; vm_compute; first [reflexivity | discriminate Flag]. Qed.

(* an unlimited budget and an empty keep list give the plain write pass (concrete state with every kind of pending frame) *)
Example write_b_unlimited_is_write :
  let c := mkConn false 1000 (mkLimit 4000 2500 4000) (mkLimit 128 70 128) (mkLimit 128 3 0)
                  [(0, mkStrm 1000 1000 false (mkRecv 600 false [] 600 None []));
                   (2, mkStrm 1000 0 true (mkRecv 10 true [] 10 (Some 10) []));
                   (4, mkStrm 1000 1000 false recv_init)]
                  [8] (recv_at 0) [11; 12] [] 0 [] [0] 0 [5; 6] 7 [] [] in
  write_b c 1000 [] = write c /\
  fst (write_b c 3 []) = OWrote [W FT_PATH_RESPONSE 0 11; W FT_PATH_RESPONSE 0 12; W FT_RETIRE_CONNECTION_ID 0 5] /\
  c_retire (snd (write_b c 3 [])) = [6] /\ c_done (snd (write_b c 3 [])) = [8] /\
  c_done (snd (write_b c 1000 [])) = [8; 2] /\ c_done (snd (write_b c 1000 [2])) = [8].
Proof. cbv zeta. repeat split; vm_compute; reflexivity. Qed.
