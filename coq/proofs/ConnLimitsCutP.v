(* C07, write passes cut short by QuicPacketBuilderStop (model/ConnLimitsCut.v). *)
From Coq Require Import ZArith List Bool Lia ZifyBool.
From AQ Require Import lib.Base model.RangeSet model.StreamRecv model.ConnLimits model.ConnLimitsSpec model.ConnLimitsCut gen.C07Consts
  proofs.RangeSetP proofs.ListZ proofs.ConnLimitsP proofs.ConnLimitsAdv proofs.ConnLimitsSim proofs.ConnLimitsMsd.

(* ---------- a refused MAX_* frame leaves the RAISED value in force: a peer beyond everything it saw on the wire is accepted ---------- *)
(* connection level: server, max_stream_data 3000, max_data 2000.  1001 bytes arrive (used*2 > value); the next
   datagrams_to_send() has no congestion window for the MAX_DATA frame (budget 0): value becomes 4000, nothing is
   written, sent stays 2000.  The peer then sends up to offset 2501 > 2000 = the only limit it ever saw: accepted. *)
Definition w_cut_data : list xop :=
  [Plain (StreamFrame 10 0 0 (zeros 1001)); WriteCut 0 []; Plain (StreamFrame 14 0 1001 (zeros 1500))].
(* per stream: max_stream_data 1000, max_data 4000; 600 bytes, cut pass, then end offset 1500 > 1000 *)
Definition w_cut_stream : list xop :=
  [Plain (StreamFrame 10 0 0 (zeros 600)); WriteCut 0 []; Plain (StreamFrame 14 0 600 (zeros 900))].
(* stream count: the 65th stream (id 256) makes used*2 > 128; cut pass; then the 129th stream (id 512) *)
Definition w_cut_count : list xop :=
  [Plain (StreamFrame 10 256 0 []); WriteCut 0 []; Plain (StreamFrame 10 512 0 [])].

Lemma cut_pass_tolerates : RAISE_BEFORE_START_FRAME = true ->
  tolerated (conn_init false 3000 2000 0) (peer_init 3000 2000) w_cut_data = true /\
  tolerated (conn_init false 1000 4000 0) (peer_init 1000 4000) w_cut_stream = true /\
  tolerated (conn_init false 1000 4000 0) (peer_init 1000 4000) w_cut_count = true.
Proof. intros Flag. split; [|split]; vm_compute; first [reflexivity | discriminate Flag]. Qed.

(* in a tree where the value is assigned only after start_frame() returned the premise is false (the flag is probed) *)
Lemma over_advertised_refuted : RAISE_BEFORE_START_FRAME = true -> exists cl msd md ops,
  0 <= msd /\ 0 <= md /\ tolerated (conn_init cl msd md 0) (peer_init msd md) ops = true.
Proof.
  intros Flag. exists false, 3000, 2000, w_cut_data. split; [lia|split; [lia|]].
  vm_compute; first [reflexivity | discriminate Flag].
Qed.


(* what the witness looks like step by step, and the two controls: a complete pass advertises 4000 (the same frame is
   then within the ledger), no pass at all keeps 2000 in force (the same frame closes with FLOW_CONTROL_ERROR) *)
Example cut_witness_detail : RAISE_BEFORE_START_FRAME = true ->
  let c0 := conn_init false 3000 2000 0 in
  let c1 := snd (xrun c0 [Plain (StreamFrame 10 0 0 (zeros 1001)); WriteCut 0 []]) in
  fst (xrun c0 [Plain (StreamFrame 10 0 0 (zeros 1001)); WriteCut 0 []]) = [OOk (RData (zeros 1001) false); OWrote []] /\
  c_data c1 = mkLimit 4000 1001 2000 /\
  fst (xstep c1 (Plain (StreamFrame 14 0 1001 (zeros 1500)))) = OOk (RData (zeros 1500) false) /\
  fst (xstep c1 (WriteCut 1 [])) = OWrote [W FT_MAX_DATA 0 4000] /\
  tolerated c0 (peer_init 3000 2000)
    [Plain (StreamFrame 10 0 0 (zeros 1001)); Plain Write; Plain (StreamFrame 14 0 1001 (zeros 1500))] = false /\
  fst (xrun c0 [Plain (StreamFrame 10 0 0 (zeros 1001)); Plain (StreamFrame 14 0 1001 (zeros 1500))]) =
    [OOk (RData (zeros 1001) false); OErr E_FLOW_CONTROL_ERROR 14].
Proof. intros Flag. cbv zeta. split; [|split; [|split; [|split; [|split]]]]; vm_compute; first [reflexivity | discriminate Flag]. Qed.

(* an unlimited budget and an empty keep list give the plain write pass (concrete state with every kind of pending frame) *)
Example write_b_unlimited_is_write :
  let c := mkConn false 1000 (mkLimit 4000 2500 4000) (mkLimit 128 70 128) (mkLimit 128 3 0)
                  [(0, mkStrm 1000 1000 false (mkRecv 600 false [] 600 None []));
                   (2, mkStrm 1000 0 true (mkRecv 10 true [] 10 (Some 10) []));
                   (4, mkStrm 1000 1000 false recv_init)]
                  [8] (recv_at 0) [11; 12] [] 0 [] [0] 0 [5; 6] 7 [] [] in
  write_b c 1000 [] = write c /\
  fst (write_b c 3 []) = OWrote [W FT_PATH_RESPONSE 0 11; W FT_PATH_RESPONSE 0 12; W FT_RETIRE_CONNECTION_ID 0 5] /\
  c_retire (snd (write_b c 3 [])) = [6] /\ c_done (snd (write_b c 3 [])) = [8] /\
  c_done (snd (write_b c 1000 [])) = [8; 2] /\ c_done (snd (write_b c 1000 [2])) = [8].
Proof. cbv zeta. repeat split; vm_compute; reflexivity. Qed.

(* ---------- in EVERY state: what a (possibly cut) pass writes is what is enforced afterwards, never more ---------- *)
(* one Limit: the value never goes down; a frame that is written carries exactly the value in force afterwards and
   sent is then that value; a refused frame writes nothing *)
Lemma raise_limit_b_sound ft l b : 0 <= l_value l ->
  let '(l', w, r) := raise_limit_b ft l b in
  l_value l <= l_value l' /\ l_used l' = l_used l /\
  Forall (fun x => x = W ft 0 (l_value l')) w /\
  (w <> [] -> l_sent l' = l_value l') /\ (r = None -> w = [] /\ l_sent l' = l_sent l).
Proof.
  intros H. unfold raise_limit_b.
  destruct (l_used l * 2 >? l_value l); match goal with |- context[if negb ?a then _ else _] => destruct (negb a) end;
    try (destruct (b <=? 0)); try (destruct RAISE_BEFORE_START_FRAME); cbn;
    repeat split; try lia; try (constructor; [reflexivity|constructor]); try constructor; try congruence; try discriminate;
    intros; congruence.
Qed.

(* the streams: keys and receivers unchanged, no limit goes down, every MAX_STREAM_DATA frame written names a stream of the
   table and carries exactly the limit that stream has afterwards (which is also its sent value) *)
Definition strm_le (s s' : strm) : Prop :=
  sm_recv s' = sm_recv s /\ sm_sendfin s' = sm_sendfin s /\ sm_msd s <= sm_msd s'.

Lemma raise_streams_b_sound l : Forall (fun p => 0 <= sm_msd (snd p)) l -> forall b,
  let '(l', w, r) := raise_streams_b l b in
  Forall2 (fun p p' => fst p' = fst p /\ strm_le (snd p) (snd p')) l l' /\
  Forall (fun x => match x with W ft a v => ft = FT_MAX_STREAM_DATA /\
                     exists s', In (a, s') l' /\ v = sm_msd s' /\ sm_sent s' = v end) w.
Proof.
  induction 1 as [|[sid s] t H _ IH]; intros b; cbn [raise_streams_b]; [split; constructor|].
  cbn [snd] in H.
  set (v := if negb (sm_msd s =? 0) && (r_highest (sm_recv s) * 2 >? sm_msd s) then sm_msd s * 2 else sm_msd s).
  assert (Hv : sm_msd s <= v) by (unfold v; destruct (negb (sm_msd s =? 0) && (r_highest (sm_recv s) * 2 >? sm_msd s)); lia).
  assert (Same : Forall2 (fun p p' : Z * strm => fst p' = fst p /\ strm_le (snd p) (snd p')) t t).
  { clear. induction t as [|q t IH]; constructor; [unfold strm_le; repeat split; lia|exact IH]. }
  destruct (negb (sm_sent s =? v)).
  - destruct (b <=? 0).
    + split; [|constructor]. constructor; [|exact Same]. cbn. unfold strm_le.
      destruct RAISE_BEFORE_START_FRAME; cbn; repeat split; lia.
    + specialize (IH (b - 1)). destruct (raise_streams_b t (b - 1)) as [[t' w'] r]. destruct IH as (I1 & I2).
      split; [constructor; [cbn; unfold strm_le; cbn; repeat split; lia|exact I1]|].
      constructor.
      * split; [reflexivity|]. eexists. split; [left; reflexivity|]. cbn. auto.
      * eapply Forall_impl; [|exact I2]. intros [ft a x] (E & s' & Hin & Hx). split; [exact E|]. exists s'. split; [right; exact Hin|exact Hx].
  - specialize (IH b). destruct (raise_streams_b t b) as [[t' w'] r]. destruct IH as (I1 & I2).
    split; [constructor; [cbn; unfold strm_le; destruct RAISE_BEFORE_START_FRAME; cbn; repeat split; lia|exact I1]|].
    eapply Forall_impl; [|exact I2]. intros [ft a x] (E & s' & Hin & Hx). split; [exact E|]. exists s'. split; [right; exact Hin|exact Hx].
Qed.
