(* Cancellation of the application coroutines awaiting the adapter's waiters (model/AdapterCancel.v). *)
From AQ Require Import lib.Base model.Adapter model.AdapterCancel proofs.AdapterProofs.
From Coq Require Import Lia.

(* ---------- under the shield discipline a schedule acts on the adapter as its cancellation-free erasure ------ *)
Lemma crun_shield_base : forall fx cops c, base (crun true fx c cops) = run fx (base c) (erase cops).
Proof.
  intros fx cops. induction cops as [|o t IH]; intros c; simpl; [reflexivity|].
  destruct o as [b|i| |i]; simpl.
  - destruct (step fx (base c) b) as [[x e] s'] eqn:E. rewrite IH. reflexivity.
  - rewrite IH. reflexivity.
  - rewrite IH. reflexivity.
  - rewrite IH. reflexivity.
Qed.

Lemma ctrace_shield : forall fx cops c, ctrace true fx c cops = trace fx (base c) (erase cops).
Proof.
  intros fx cops. induction cops as [|o t IH]; intros c; simpl; [reflexivity|].
  destruct o as [b|i| |i]; simpl.
  - destruct (step fx (base c) b) as [[x e] s'] eqn:E. simpl. rewrite IH. reflexivity.
  - rewrite IH. reflexivity.
  - rewrite IH. reflexivity.
  - rewrite IH. reflexivity.
Qed.

Lemma cancel_step_noop : forall fx c o, (forall b, o <> CBase b) ->
  fst (fst (cstep true fx c o)) = None /\ snd (fst (cstep true fx c o)) = [] /\ base (snd (cstep true fx c o)) = base c.
Proof.
  intros fx c [b|i| |i] H; simpl; auto. exfalso. apply (H b). reflexivity.
Qed.

(* ---------- waiter_never_resolved_twice, with cancellation steps at any position ------------------------------ *)
Lemma cancel_never_resolved_twice_l : forall fx cops o,
  fst (fst (cstep true fx (crun true fx cinit cops) o)) <> Some X_INVALID_STATE.
Proof.
  intros fx cops o. destruct o as [b|i| |i]; simpl; try discriminate.
  rewrite crun_shield_base. change (base cinit) with st_init.
  pose proof (waiter_never_resolved_twice_l fx (erase cops) b) as H.
  destruct (step fx (run fx st_init (erase cops)) b) as [[x e] s']. simpl in *. exact H.
Qed.

(* ---------- waiter_all_resolved_at_termination, with cancellation steps at any position ---------------------- *)
Lemma cancel_all_resolved_at_termination_l : forall fx cops evs gt etx out c',
  uids_fresh fx st_init (erase cops) ->
  let c := crun true fx cinit cops in
  In (EvTerminated 0) (evq (base c) ++ evs) ->
  cstep true fx c (CBase (ORecv evs gt etx)) = (None, out, c') ->
  forall i, nth_error (futs (base c')) i <> Some FPending.
Proof.
  intros fx cops evs gt etx out c' F c I E. subst c. unfold cstep in E.
  rewrite crun_shield_base in *. change (base cinit) with st_init in *.
  destruct (step fx (run fx st_init (erase cops)) (ORecv evs gt etx)) as [[x e] s'] eqn:S.
  inversion E; subst. simpl.
  eapply waiter_all_resolved_at_termination_l; eauto.
Qed.

Lemma cancel_all_resolved_at_termination_timer_l : forall fx cops w now evs gt etx out c',
  uids_fresh fx st_init (erase cops) ->
  let c := crun true fx cinit cops in
  In (EvTerminated 0) (evq (base c) ++ evs) ->
  cstep true fx c (CBase (OTimer w now evs gt etx)) = (None, out, c') ->
  forall i, nth_error (futs (base c')) i <> Some FPending.
Proof.
  intros fx cops w now evs gt etx out c' F c I E. subst c. unfold cstep in E.
  rewrite crun_shield_base in *. change (base cinit) with st_init in *.
  destruct (step fx (run fx st_init (erase cops)) (OTimer w now evs gt etx)) as [[x e] s'] eqn:S.
  inversion E; subst. simpl.
  eapply waiter_all_resolved_at_termination_timer_l; eauto.
Qed.

Lemma cancel_no_waiter_pending_once_closed_l : forall fx cops, uids_fresh fx st_init (erase cops) ->
  closed (base (crun true fx cinit cops)) = true ->
  forall i, nth_error (futs (base (crun true fx cinit cops))) i <> Some FPending.
Proof.
  intros fx cops F. rewrite crun_shield_base. change (base cinit) with st_init.
  apply no_waiter_pending_once_closed_l. exact F.
Qed.

(* ---------- cancellation_is_harmless --------------------------------------------------------------------------- *)
(* Take any schedule `ops` of the adapter and insert cancellation steps anywhere (cops with erase cops = ops):
   every adapter step returns / raises exactly what it did and leaves exactly the same adapter state -- in
   particular the state of EVERY future, cancelled caller or not, after every step --, and the inserted steps
   themselves raise nothing and do not touch the adapter. *)
Lemma cancellation_is_harmless_l : forall fx ops cops, erase cops = ops ->
  ctrace true fx cinit cops = trace fx st_init ops /\
  base (crun true fx cinit cops) = run fx st_init ops /\
  (forall c o, (forall b, o <> CBase b) ->
     fst (fst (cstep true fx c o)) = None /\ snd (fst (cstep true fx c o)) = [] /\ base (snd (cstep true fx c o)) = base c).
Proof.
  intros fx ops cops E. subst ops. split; [|split].
  - apply ctrace_shield.
  - apply crun_shield_base.
  - intros c o H. apply cancel_step_noop. exact H.
Qed.

(* ---------- what the callers get --------------------------------------------------------------------------------- *)
Fixpoint has_cancel (i : nat) (cops : list cop) : bool :=
  match cops with
  | [] => false
  | CCancel j :: t => Nat.eqb j i || has_cancel i t
  | _ :: t => has_cancel i t
  end.

Lemma crun_shield_cancelled : forall fx cops c i,
  memn i (cancelled (crun true fx c cops)) = memn i (cancelled c) || has_cancel i cops.
Proof.
  intros fx cops. induction cops as [|o t IH]; intros c i; simpl.
  - rewrite orb_false_r. reflexivity.
  - destruct o as [b|j| |j]; simpl.
    + destruct (step fx (base c) b) as [[x e] s']. rewrite IH. reflexivity.
    + rewrite IH. simpl. rewrite orb_assoc. rewrite (orb_comm (Nat.eqb j i)). reflexivity.
    + apply IH.
    + apply IH.
Qed.

(* a cancelled caller gets CancelledError and nothing else; every other caller gets exactly the outcome its
   future has in the cancellation-free schedule *)
Lemma caller_outcome_l : forall fx cops i,
  caller_outcome (crun true fx cinit cops) i =
  if has_cancel i cops then OCancelled else outcome_of (nth_error (futs (run fx st_init (erase cops))) i).
Proof.
  intros fx cops i. unfold caller_outcome. rewrite crun_shield_cancelled. simpl.
  rewrite crun_shield_base. reflexivity.
Qed.

(* ---------- the unshielded variant is refuted --------------------------------------------------------------------- *)
(* [ping a; ping b; cancel the caller of a; datagram with ConnectionTerminated]: the abort loop calls set_exception on
   a's cancelled future -> InvalidStateError escapes datagram_received; b's waiter stays pending and registered,
   the closed event is never set (wait_closed() hangs).  Under the shield discipline the same schedule ends with
   both futures failed, the table empty and the closed event set. *)
Definition unshielded_witness : list cop :=
  [CBase (OPing 1 None []); CBase (OPing 2 None []); CCancel 0].
Definition terminate_op : cop := CBase (ORecv [EvTerminated 0] None []).

Lemma unshielded_cancellation_refuted_l : forall fx,
  let r := cstep false fx (crun false fx cinit unshielded_witness) terminate_op in
  let r' := cstep true fx (crun true fx cinit unshielded_witness) terminate_op in
  (fst (fst r) = Some X_INVALID_STATE /\
   closed (base (snd r)) = false /\
   nth_error (futs (base (snd r))) 1 = Some FPending /\
   pings (base (snd r)) <> []) /\
  (fst (fst r') = None /\
   closed (base (snd r')) = true /\
   futs (base (snd r')) = [FErr; FErr] /\
   pings (base (snd r')) = [] /\
   caller_outcome (snd r') 0 = OCancelled /\ caller_outcome (snd r') 1 = OConnectionError).
Proof.
  intros [|]; vm_compute; (split; [repeat split; discriminate|repeat split]).
Qed.

(* the acknowledgement instead of the termination: set_result on the cancelled future *)
Example unshielded_ack_after_cancel : forall fx,
  fst (fst (cstep false fx (crun false fx cinit [CBase (OPing 1 None []); CCancel 0])
                  (CBase (ORecv [EvPingAck 1] None [])))) = Some X_INVALID_STATE.
Proof. intros [|]; reflexivity. Qed.

(* the window: once the cancelled task has run its `finally: _ping_waiters.pop(uid, None)` the termination is
   handled normally -- the variant misbehaves only when the event is handled between CCancel and CResume, which is
   why no schedule without a cancellation in the same loop iteration shows it *)
Example unshielded_after_resume_ok : forall fx,
  let r := cstep false fx (crun false fx cinit (unshielded_witness ++ [CResume 0])) terminate_op in
  fst (fst r) = None /\ closed (base (snd r)) = true /\ futs (base (snd r)) = [FCancelled; FErr].
Proof. intros [|]; vm_compute; repeat split. Qed.

(* the hypotheses of the termination theorems are satisfiable by a schedule with cancellations *)
Example cancel_uids_fresh_example : forall fx,
  let cops := [CBase OWaitConnected; CBase (OPing 1 None []); CCancel 1; CBase (OPing 2 None []); CCancel 0; CCancelClosed] in
  uids_fresh fx st_init (erase cops) /\
  forall c', cstep true fx (crun true fx cinit cops) terminate_op = (None, [], c') ->
  futs (base c') = [FErr; FErr; FErr] /\ caller_outcome c' 0 = OCancelled /\ caller_outcome c' 2 = OConnectionError.
Proof.
  intros [|]; (split; [vm_compute; auto|]); intros c' H; vm_compute in H; inversion H; subst; vm_compute; auto.
Qed.

(* ---------- finding F6: wait_connected() after its caller gave up ------------------------------------------------- *)
(* [wait_connected a; a's caller is cancelled (timeout, task.cancel()); wait_connected b]: the waiter of a is still
   registered (the shield left it alone, which is what keeps the adapter consistent), nobody awaits it any more
   (caller_outcome 0 = OCancelled), and b runs into `assert self._connected_waiter is None`: it finishes with
   AssertionError -- neither success nor a connection error.  Holds for both values of fx and of sh. *)
Definition wc_after_cancel_witness : list cop := [CBase OWaitConnected; CCancel 0].

Lemma wait_connected_after_cancel_refuted_l : forall sh fx,
  let c := crun sh fx cinit wc_after_cancel_witness in
  caller_outcome c 0 = OCancelled /\
  closed (base c) = false /\ connected (base c) = false /\
  fst (fst (cstep sh fx c (CBase OWaitConnected))) = Some X_ALREADY_AWAITING.
Proof. intros [|] [|]; vm_compute; repeat split. Qed.
